(** * Io_pieces: the byte-level free-list and record WRITE operations of [Io] on the image of a
    piece file are the record-level operations of [Alloc].

    On a state whose file [fid] holds [render_pfile c sb sig2 f] ([hold s f]) the byte-level call
    returns what the [Alloc] operation returns and leaves [render_pfile c sb sig2 f'] in the file,
    [f'] being the file the [Alloc] operation returns; the chunk size of the file and the two other
    files are untouched ([frame]).

    0./1. splices of byte strings; the header of a piece file.
    2. cursors: [rcur] (a sequence of reads after a seek), [wcur] (a sequence of writes after a seek
       is ONE splice), [looked] (a step that only looked: bytes kept, [ro_step]).
    3. P0: [render_set_slot] / [render_set_head] / [render_append]: the image under [set_slot]
       (same slot size), [set_head], an appended slot is a splice / an append.
    4. [good]: the working invariant (tiling, image lengths, 64-bit bounds); weaker than
       [alloc_inv], kept by every single write, so it holds BETWEEN the writes of an operation.
    5. P1 [read_free_on_header_image], [write_free_on_header_image].
    6. P2 [read_piece_size_image], [read_free_piece_size_next_image].
    7./8. [write_piece_clear_image]; P3 [push_free_image].
    9. P4 [pop_free_image] (the first-fit walk [pop_large_image]; [walk_fuel] suffices).
    10. P5 [add_new_image], [write_piece_image], [delete_piece_image] for an abstract record writer.
    11./12. [val_write_one_spec], [key_write_one_spec]; the instances for the value and key file. *)
From Coq Require Import Lia ZifyN ZifyNat ZifyBool.
From Aby Require Import Base Vu64 Vu64_proofs Hash KeyTypes Consts Sizing Sizing_proofs Alloc AllocInv AllocInv_proofs Htx Store Stats Layout Load Load_proofs Cache Cache_proofs Io Io_base Io_htx.
Import Io.
#[local] Open Scope N_scope.

(** ** 0. byte strings: splices *)

Lemma splice_mid (pre old post new : bytes) : blen new = blen old ->
  splice (pre ++ old ++ post) (blen pre) new = pre ++ new ++ post.
Proof.
  intros Hl. apply bytes_ext.
  - rewrite blen_splice, !blen_app. lia.
  - intros q _. rewrite getb_splice, !getb_app. fin_ltb.
Qed.

Lemma splice_end (l d : bytes) : splice l (blen l) d = l ++ d.
Proof.
  apply bytes_ext.
  - rewrite blen_splice, !blen_app. lia.
  - intros q _. rewrite getb_splice, !getb_app. fin_ltb.
    rewrite !getb_ge by lia. reflexivity.
Qed.

Lemma splice_app_l (a b d : bytes) p : p + blen d <= blen a ->
  splice (a ++ b) p d = splice a p d ++ b.
Proof.
  intros H. apply bytes_ext.
  - rewrite blen_splice, !blen_app, blen_splice. lia.
  - intros q _. rewrite getb_splice, !getb_app, blen_splice, getb_splice. fin_ltb.
Qed.

Lemma splice_app_r (a b d : bytes) p : blen a <= p ->
  splice (a ++ b) p d = a ++ splice b (p - blen a) d.
Proof.
  intros H. apply bytes_ext.
  - rewrite blen_splice, !blen_app, blen_splice. lia.
  - intros q _. rewrite getb_splice, !getb_app, getb_splice. fin_ltb.
Qed.

Lemma at_off_split (l : bytes) p : p <= blen l -> exists pre, l = pre ++ at_off l p /\ blen pre = p.
Proof.
  intros H. exists (take (N.to_nat p) l). split.
  - unfold at_off. symmetry. apply take_drop.
  - rewrite blen_take. lia.
Qed.

(** overwrite the middle part of something that is at [p] *)
Lemma splice_inner (img : bytes) p (a b z rest b' : bytes) :
  p <= blen img -> at_off img p = a ++ b ++ z ++ rest -> blen b' = blen b ->
  splice img p (a ++ b' ++ z) = splice img (p + blen a) b'.
Proof.
  intros Hp Hat Hl. destruct (at_off_split img p Hp) as (pre & E & Hpre).
  rewrite Hat in E. rewrite E, <- Hpre.
  replace (pre ++ a ++ b ++ z ++ rest) with (pre ++ (a ++ b ++ z) ++ rest) at 1
    by (rewrite <- !app_assoc; reflexivity).
  rewrite splice_mid by (rewrite !blen_app; lia).
  replace (pre ++ a ++ b ++ z ++ rest) with ((pre ++ a) ++ b ++ (z ++ rest))
    by (rewrite <- !app_assoc; reflexivity).
  rewrite <- blen_app, splice_mid by exact Hl.
  rewrite <- !app_assoc. reflexivity.
Qed.

(** ** 1. the header of a piece file *)

Lemma concat_le8_insert v : forall hd i, (i < length hd)%nat ->
  concat (map (le_bytes 8) (<[i := v]> hd)) =
  splice (concat (map (le_bytes 8) hd)) (8 * N.of_nat i) (le_bytes 8 v).
Proof.
  induction hd as [|a hd IH]; intros i Hi; [cbn in Hi; lia|].
  destruct i as [|i].
  - cbn [insert list_insert map concat].
    symmetry. apply (splice_mid [] (le_bytes 8 a) _ (le_bytes 8 v)). rewrite !blen_le8. reflexivity.
  - cbn [insert list_insert map concat]. cbn [length] in Hi.
    rewrite splice_app_r by (rewrite blen_le8; lia).
    rewrite blen_le8. replace (8 * N.of_nat (S i) - 8) with (8 * N.of_nat i) by lia.
    f_equal. apply IH. lia.
Qed.

Lemma free_off_nth c i : Sizing.cfg_ok c -> (i < 16)%nat ->
  nth i (free_off c) 0 = List.hd 0 (free_off c) + 8 * N.of_nat i.
Proof.
  intros [-> | ->] Hi; do 16 (destruct i as [|i]; [reflexivity|]); lia.
Qed.

Lemma render_pheader_insert c sig2 hd i v :
  Sizing.cfg_ok c -> length sig2 = 8%nat -> length hd = 16%nat -> (i < 16)%nat ->
  render_pheader c sig2 (<[i := v]> hd) =
  splice (render_pheader c sig2 hd) (nth i (free_off c) 0) (le_bytes 8 v).
Proof.
  intros Hc Hs Hh Hi. destruct (cfg_hdr_facts c Hc) as (H1 & H2 & H3 & _).
  rewrite (free_off_nth c i Hc Hi).
  unfold render_pheader. cbv zeta. rewrite insert_length.
  set (free0 := List.hd 0 (free_off c)) in *.
  set (Z := zeros (hdr_size c - (free0 + 8 * N.of_nat (length hd)))).
  rewrite !(app_assoc (sig1 c)), !(app_assoc (sig1 c ++ sig2)).
  set (A := (sig1 c ++ sig2) ++ zeros (free0 - 16)).
  assert (HA : blen A = free0).
  { unfold A. rewrite !blen_app, blen_zeros. unfold blen. rewrite H1, Hs. lia. }
  rewrite (splice_app_r A) by lia. f_equal.
  rewrite HA. replace (free0 + 8 * N.of_nat i - free0) with (8 * N.of_nat i) by lia.
  rewrite splice_app_l by (rewrite blen_concat_le8, blen_le8; lia).
  f_equal. apply concat_le8_insert. lia.
Qed.

Lemma render_pheader_at c sig2 hd bd i :
  Sizing.cfg_ok c -> length sig2 = 8%nat -> (i < length hd)%nat ->
  exists rest, at_off (render_pheader c sig2 hd ++ bd) (List.hd 0 (free_off c) + 8 * N.of_nat i)
               = le_bytes 8 (nth i hd 0) ++ rest.
Proof.
  intros Hc Hs Hi. destruct (cfg_hdr_facts c Hc) as (H1 & H2 & H3 & _).
  unfold render_pheader. cbv zeta.
  set (free0 := List.hd 0 (free_off c)) in *.
  set (tail := zeros (hdr_size c - (free0 + 8 * N.of_nat (length hd))) ++ bd).
  replace ((sig1 c ++ sig2 ++ zeros (free0 - 16) ++ concat (map (le_bytes 8) hd)
            ++ zeros (hdr_size c - (free0 + 8 * N.of_nat (length hd)))) ++ bd)
    with ((sig1 c ++ sig2 ++ zeros (free0 - 16)) ++ (concat (map (le_bytes 8) hd) ++ tail))
    by (unfold tail; rewrite <- !app_assoc; reflexivity).
  destruct (concat_le8_at hd i tail Hi) as [rest Hrest]. exists rest.
  replace free0 with (blen (sig1 c ++ sig2 ++ zeros (free0 - 16))) at 2
    by (rewrite !blen_app, blen_zeros; unfold blen; rewrite H1, Hs; lia).
  rewrite at_off_app_add. exact Hrest.
Qed.

(** ** 2. the byte level: cursors on one file of the state *)
Section cursors.
Context {fid : Io.fid}.

(** what a step leaves alone: the chunk size of the file, and the other files *)
Definition frame (s s' : st) : Prop :=
  fcs (get_file s' fid) = fcs (get_file s fid) /\ forall g, g <> fid -> get_file s' g = get_file s g.

Lemma frame_refl s : frame s s.
Proof. split; auto. Qed.
Lemma frame_trans s1 s2 s3 : frame s1 s2 -> frame s2 s3 -> frame s1 s3.
Proof.
  intros [A B] [C D]. split; [congruence|]. intros g Hg. rewrite D, B by exact Hg. reflexivity.
Qed.
Lemma upd_file_frame s s' b p : upd_file s s' fid b p -> frame s s'.
Proof. intros [H O]. split; [rewrite H; reflexivity|exact O]. Qed.


(** *** reading: [s] was reached from [s0] by looking only, is at position [p] and sees [rest] *)
Definition rcur (s0 s : st) (p : N) (rest : bytes) : Prop :=
  upd_file s0 s fid (fb (get_file s0 fid)) p /\ ro_step s0 s /\ view s fid = rest.

Lemma rcur_fb s0 s p rest : rcur s0 s p rest -> fb (get_file s fid) = fb (get_file s0 fid).
Proof. intros [[H _] _]. rewrite H. reflexivity. Qed.
Lemma rcur_fp s0 s p rest : rcur s0 s p rest -> fp (get_file s fid) = p.
Proof. intros [[H _] _]. rewrite H. reflexivity. Qed.
Lemma rcur_frame s0 s p rest : rcur s0 s p rest -> frame s0 s.
Proof. intros [H _]. eapply upd_file_frame. exact H. Qed.

Lemma rcur_seek s off : off <= fend (get_file s fid) ->
  rcur s (seek_to fid off s) off (at_off (fb (get_file s fid)) off).
Proof.
  intros H. split; [apply seek_to_inside; exact H|]. split; [apply ro_step_seek; exact H|].
  apply view_seek_inside. exact H.
Qed.

Lemma rcur_step s0 s s' p p' rest rest' evs :
  rcur s0 s p rest -> upd_file s s' fid (fb (get_file s fid)) p' -> appended s s' evs ->
  Forall (is_read_on fid) evs -> view s' fid = rest' -> rcur s0 s' p' rest'.
Proof.
  intros Hc0 Hu Ha Hev Hv. pose proof (ro_step_of_reads _ _ _ _ _ Hu Ha Hev) as Hro.
  destruct Hc0 as (Hu0 & Hro0 & _). split; [|split].
  - eapply upd_file_trans; [exact Hu0|]. destruct Hu0 as [E _]. rewrite E in Hu. exact Hu.
  - eapply ro_step_trans; eassumption.
  - exact Hv.
Qed.

Lemma rcur_vu64 s0 s p v rest : rcur s0 s p (encode v ++ rest) -> v < 2 ^ 64 ->
  exists s', read_vu64 fid s = Ok (v, s') /\ rcur s0 s' (p + enc_len v) rest.
Proof.
  intros Hc0 Hv. pose proof Hc0 as (_ & _ & Hview).
  destruct (read_vu64_view fid s v rest Hv Hview) as (s' & evs & Hr & Hu & Hv' & Ha & Hev).
  exists s'. split; [exact Hr|]. rewrite (rcur_fp _ _ _ _ Hc0) in Hu.
  eapply rcur_step; eassumption.
Qed.

Lemma rcur_size s0 s p sz rest : rcur s0 s p (encode (sz / 8) ++ rest) -> sz mod 8 = 0 -> sz < 2 ^ 64 ->
  exists s', read_piece_size fid s = Ok (sz, s') /\ rcur s0 s' (p + enc_len (sz / 8)) rest.
Proof.
  intros Hc0 H8 Hlt.
  destruct (rcur_vu64 s0 s p (sz / 8) rest Hc0 (div8_lt sz Hlt)) as (s' & Hr & Hc1).
  exists s'. split; [|exact Hc1]. unfold read_piece_size. rewrite Hr. cbn [rbind].
  rewrite (div8_mul8 sz H8). reflexivity.
Qed.

Lemma rcur_u64 s0 s p v rest : rcur s0 s p (le_bytes 8 v ++ rest) -> v < 2 ^ 64 ->
  exists s', read_u64 fid s = Ok (v, s') /\ rcur s0 s' (p + 8) rest.
Proof.
  intros Hc0 Hv. pose proof Hc0 as (_ & _ & Hview).
  destruct (read_u64_view fid s v rest Hv Hview) as (s' & Hr & Hf & Ho & Hv' & Ha).
  exists s'. split; [exact Hr|]. rewrite (rcur_fp _ _ _ _ Hc0) in Hf.
  eapply rcur_step; try eassumption.
  - split; [exact Hf|exact Ho].
  - constructor; [|constructor]. eexists _, _. reflexivity.
Qed.

(** *** writing: since [s0] (which held [b0]) the file was sought to [off] and [d] was written *)
Definition wcur (s0 s : st) (off : N) (d : bytes) : Prop :=
  upd_file s0 s fid (splice (fb (get_file s0 fid)) off d) (off + blen d).

Lemma wcur_seek s off : off <= fend (get_file s fid) -> wcur s (seek_to fid off s) off [].
Proof.
  intros H. unfold wcur. rewrite splice_nil by exact H. rewrite blen_nil, N.add_0_r.
  apply seek_to_inside. exact H.
Qed.

Lemma wcur_n s0 s off d d' : wcur s0 s off d -> wcur s0 (write_n fid d' s) off (d ++ d').
Proof.
  intros Hw. destruct (write_n_spec fid d' s) as [Hu _].
  unfold wcur in *. eapply upd_file_trans; [exact Hw|].
  destruct Hw as [E _]. rewrite E in Hu. cbn [fb fp fcs] in Hu.
  rewrite splice_app, blen_app, N.add_assoc. exact Hu.
Qed.

Lemma wcur_all s0 s off d d' : wcur s0 s off d -> 0 < fcs (get_file s0 fid) ->
  exists s', write_all_bytes fid d' s = Ok s' /\ wcur s0 s' off (d ++ d').
Proof.
  intros Hw Hcs. pose proof Hw as [E _].
  destruct (write_all_bytes_spec fid d' s) as (s' & evs & Hr & Hu & _).
  { rewrite E. exact Hcs. }
  { rewrite E. unfold fend. cbn [fb fp]. rewrite blen_splice. lia. }
  exists s'. split; [exact Hr|].
  unfold wcur in *. eapply upd_file_trans; [exact Hw|].
  rewrite E in Hu. cbn [fb fp fcs] in Hu.
  rewrite splice_app, blen_app, N.add_assoc. exact Hu.
Qed.

Lemma wcur_vu64 s0 s off d v : wcur s0 s off d -> 0 < fcs (get_file s0 fid) ->
  exists s', write_vu64 fid v s = Ok s' /\ wcur s0 s' off (d ++ encode v).
Proof. apply wcur_all. Qed.

Lemma wcur_size s0 s off d sz : wcur s0 s off d -> 0 < fcs (get_file s0 fid) -> sz mod 8 = 0 ->
  exists s', write_piece_size fid sz s = Ok s' /\ wcur s0 s' off (d ++ encode (sz / 8)).
Proof.
  intros Hw Hcs H8. unfold write_piece_size. rewrite H8. cbn. apply wcur_vu64; assumption.
Qed.

Lemma wcur_poff s0 s off d v : wcur s0 s off d -> 0 < fcs (get_file s0 fid) -> v mod 8 = 0 ->
  exists s', write_piece_offset fid v s = Ok s' /\ wcur s0 s' off (d ++ encode (v / 8)).
Proof.
  intros Hw Hcs H8. unfold write_piece_offset. rewrite H8. cbn. apply wcur_vu64; assumption.
Qed.

Lemma wcur_u64 s0 s off d v : wcur s0 s off d ->
  exists s', write_u64 fid v s = Ok s' /\ wcur s0 s' off (d ++ le_bytes 8 v).
Proof. intros Hw. eexists. split; [reflexivity|]. apply wcur_n. exact Hw. Qed.

(** [write_zero_to_offset]: the zero fill up to the end of the slot (nothing if already beyond) *)
Lemma wcur_zero s0 s off d size : wcur s0 s off d ->
  exists s', write_zero_to_offset fid (off + size) s = Ok s' /\ wcur s0 s' off (d ++ zeros (size - blen d)).
Proof.
  intros Hw. pose proof Hw as [E _].
  unfold write_zero_to_offset, seek_position, seek_cur. cbn [rbind].
  rewrite E. cbn [fp]. rewrite N.add_0_r.
  assert (Hin : off + blen d <= fend (get_file s fid)).
  { rewrite E. unfold fend. cbn [fb]. rewrite blen_splice. lia. }
  pose proof (seek_to_inside fid _ s Hin) as Hs1. rewrite E in Hs1. cbn [fb fcs] in Hs1.
  assert (Hw1 : wcur s0 (seek_to fid (off + blen d) s) off d).
  { unfold wcur in *. eapply upd_file_trans; [exact Hw|]. exact Hs1. }
  destruct (N.ltb_spec (off + blen d) (off + size)) as [Hlt|Hge].
  - eexists. split; [reflexivity|].
    replace (off + size - (off + blen d)) with (size - blen d) by lia.
    apply wcur_n. exact Hw1.
  - eexists. split; [reflexivity|].
    replace (size - blen d) with 0 by lia. change (zeros 0) with (@nil N). rewrite app_nil_r. exact Hw1.
Qed.

Lemma wcur_frame s0 s off d : wcur s0 s off d -> frame s0 s.
Proof. apply upd_file_frame. Qed.
Lemma wcur_fb s0 s off d : wcur s0 s off d -> fb (get_file s fid) = splice (fb (get_file s0 fid)) off d.
Proof. intros [E _]. rewrite E. reflexivity. Qed.

(** a step that only looked at file [fid] *)
Definition looked (s s' : st) : Prop :=
  fb (get_file s' fid) = fb (get_file s fid) /\ frame s s' /\ ro_step s s'.

Lemma rcur_looked s0 s p rest : rcur s0 s p rest -> looked s0 s.
Proof.
  intros H. split; [eapply rcur_fb; exact H|]. split; [eapply rcur_frame; exact H|]. apply H.
Qed.
Lemma looked_refl s : looked s s.
Proof. split; [reflexivity|]. split; [apply frame_refl|apply ro_step_refl]. Qed.
Lemma looked_trans s1 s2 s3 : looked s1 s2 -> looked s2 s3 -> looked s1 s3.
Proof.
  intros (A & B & C) (D & E & F). split; [congruence|].
  split; [eapply frame_trans; eassumption|eapply ro_step_trans; eassumption].
Qed.
Lemma looked_frame s s' : looked s s' -> frame s s'.
Proof. intros (_ & A & _). exact A. Qed.

End cursors.
Arguments frame : clear implicits.
Arguments rcur : clear implicits.
Arguments wcur : clear implicits.
Arguments looked : clear implicits.

(** ** 3. P0: the image of a piece file under [set_slot], [set_head] and an appended slot *)

Lemma tag_slots_fst {P} (f : pfile P) L : map fst (tag_slots f L) = L.
Proof. unfold tag_slots. rewrite map_map. cbn [fst]. apply map_id. Qed.

Lemma tag_slots_eq {P} (f : pfile P) (r : list (N * slot P)) :
  (forall o s, (o, s) ∈ r -> slots f !! o = Some s) -> r = tag_slots f (map fst r).
Proof.
  induction r as [|[o s] r IH]; intros H; [reflexivity|].
  cbn [map fst tag_slots]. rewrite (slot_at_eq f o s) by (apply H; left).
  f_equal. apply IH. intros o' s' Hin. apply H. right. exact Hin.
Qed.

Section pieces.
Context {P : Type} (c : pcfg) (Hc : Sizing.cfg_ok c) (sb : slot P -> bytes) (sig2 : bytes).
Hypothesis Hsig : length sig2 = 8%nat.

(** every slot image has the length of its slot *)
Definition lens (f : pfile P) : Prop := forall o s, slots f !! o = Some s -> blen (sb s) = slot_size s.

(** [L] is the list of all slot offsets in file order *)
Definition tiled (f : pfile P) (L : list N) : Prop :=
  tiles c f (hdr_size c) L /\ forall o, is_Some (slots f !! o) <-> o ∈ L.

Definition body (f : pfile P) (L : list N) : bytes :=
  concat (map (fun os => sb (snd os)) (tag_slots f L)).

Lemma all_slots_tiled f L : tiled f L -> all_slots c f = Ok (tag_slots f L).
Proof.
  intros [Ht Hd]. pose proof (tiles_NoDup c Hc _ _ _ Ht) as Hnd.
  assert (Hfuel : (length L < S (size (slots f)))%nat).
  { apply Nat.lt_succ_r, NoDup_length_size; [exact Hnd|]. intros x Hx. apply Hd. exact Hx. }
  destruct (walk_slots_tiles c Hc _ _ _ Ht _ Hfuel) as (r & Hr & Hm & Hrl).
  unfold all_slots. rewrite Hr. f_equal. rewrite <- Hm. apply tag_slots_eq.
  intros o s Hin. apply Hrl in Hin. apply Hin.
Qed.

Lemma render_tiled f L : tiled f L ->
  render_pfile c sb sig2 f = Ok (render_pheader c sig2 (heads f) ++ body f L).
Proof. intros H. unfold render_pfile. rewrite (all_slots_tiled f L H). reflexivity. Qed.

Lemma body_cons f o L : body f (o :: L) = sb (slot_at f o) ++ body f L.
Proof. reflexivity. Qed.

Lemma body_app f L1 L2 : body f (L1 ++ L2) = body f L1 ++ body f L2.
Proof. unfold body, tag_slots. rewrite !map_app, concat_app. reflexivity. Qed.

Lemma body_ext f f' L : (forall x, x ∈ L -> slots f' !! x = slots f !! x) -> body f' L = body f L.
Proof.
  induction L as [|a L IH]; intros H; [reflexivity|].
  rewrite !body_cons. unfold slot_at. rewrite (H a) by left. f_equal.
  apply IH. intros x Hx. apply H. right. exact Hx.
Qed.

Lemma tiled_slot f L o s : tiled f L -> slots f !! o = Some s ->
  hdr_size c <= o /\ o mod 8 = 0 /\ valid_slot_size c (slot_size s) /\ o + slot_size s <= Alloc.fend f /\
  16 <= slot_size s /\ slot_size s mod 8 = 0.
Proof.
  intros [Ht Hd] Hs. assert (Hin : o ∈ L) by (apply Hd; eauto).
  destruct (tiles_elem c Hc _ _ _ Ht _ Hin) as (H1 & s' & H2 & H3 & H4 & H5).
  rewrite Hs in H2. injection H2 as <-.
  pose proof (valid_slot_size_facts c Hc _ H3) as [H16 H8].
  repeat split; try assumption. apply H5. rewrite (hdr_size_eq c Hc). reflexivity.
Qed.

Lemma tiled_fend f L : tiled f L -> hdr_size c <= Alloc.fend f.
Proof. intros [Ht _]. apply (tiles_le_fend c _ _ _ Ht). Qed.

Lemma tiled_fend_none f L : tiled f L -> slots f !! Alloc.fend f = None.
Proof.
  intros Ht. destruct (slots f !! Alloc.fend f) as [s|] eqn:E; [|reflexivity].
  destruct (tiled_slot _ _ _ _ Ht E) as (_ & _ & _ & H & H16 & _). lia.
Qed.

Lemma body_len f : lens f -> forall off L, tiles c f off L -> (forall o, o ∈ L -> is_Some (slots f !! o)) ->
  off + blen (body f L) = Alloc.fend f.
Proof.
  intros Hl off L Ht Hd.
  refine (proj1 (tiles_image c Hc sb f Hl (tag_slots f L) off _ _)).
  - rewrite tag_slots_fst. exact Ht.
  - intros o s Hin. apply tag_slots_mem in Hin as [Hin ->].
    destruct (Hd o Hin) as [s Hs]. rewrite (slot_at_eq _ _ _ Hs). exact Hs.
Qed.

Lemma body_at f : lens f -> forall off L, tiles c f off L -> (forall o, o ∈ L -> is_Some (slots f !! o)) ->
  forall o s, slots f !! o = Some s -> o ∈ L ->
  exists pre rest, body f L = pre ++ sb s ++ rest /\ off + blen pre = o.
Proof.
  intros Hl off L Ht Hd o s Hs Ho.
  refine (proj2 (proj2 (tiles_image c Hc sb f Hl (tag_slots f L) off _ _)) o s _).
  - rewrite tag_slots_fst. exact Ht.
  - intros o' s' Hin. apply tag_slots_mem in Hin as [Hin ->].
    destruct (Hd o' Hin) as [s2 Hs2]. rewrite (slot_at_eq _ _ _ Hs2). exact Hs2.
  - apply tag_slots_mem. split; [exact Ho|]. symmetry. apply slot_at_eq. exact Hs.
Qed.

Lemma body_set_slot f o old new : lens f -> slots f !! o = Some old -> blen (sb new) = slot_size old ->
  forall off L, tiles c f off L -> o ∈ L ->
  body (set_slot f o new) L = splice (body f L) (o - off) (sb new).
Proof.
  intros Hl Ho Hn off L Ht. induction Ht as [|off s l Hs Hv Ht IH]; intros Hin.
  - apply elem_of_nil in Hin. destruct Hin.
  - rewrite !body_cons.
    pose proof (valid_slot_size_facts c Hc _ Hv) as [H16 _].
    destruct (decide (o = off)) as [->|Hne].
    + rewrite Ho in Hs. injection Hs as <-.
      rewrite (slot_at_eq f off old Ho).
      rewrite (slot_at_eq (set_slot f off new) off new) by apply lookup_insert.
      rewrite (body_ext f (set_slot f off new) l).
      2:{ intros x Hx. cbn [set_slot slots]. apply lookup_insert_ne.
          destruct (tiles_elem c Hc _ _ _ Ht x Hx). lia. }
      rewrite N.sub_diag. symmetry. apply (splice_mid [] (sb old) _ (sb new)).
      rewrite Hn. symmetry. apply (Hl _ _ Ho).
    + apply elem_of_cons in Hin as [?|Hin]; [contradiction|].
      destruct (tiles_elem c Hc _ _ _ Ht o Hin) as [Hle _].
      rewrite (slot_at_eq f off s Hs).
      rewrite (slot_at_eq (set_slot f o new) off s)
        by (cbn [set_slot slots]; rewrite lookup_insert_ne by congruence; exact Hs).
      rewrite splice_app_r by (rewrite (Hl _ _ Hs); lia).
      f_equal. rewrite (Hl _ _ Hs), IH by exact Hin. f_equal. lia.
Qed.

Lemma tiled_set_slot f L o old new : tiled f L -> slots f !! o = Some old ->
  slot_size new = slot_size old -> tiled (set_slot f o new) L.
Proof.
  intros [Ht Hd] Ho Hsz.
  assert (Hss : same_sizes f (set_slot f o new)).
  { split; [reflexivity|]. intros x. cbn [set_slot slots].
    destruct (decide (x = o)) as [->|Hne].
    - rewrite lookup_insert, Ho. cbn. rewrite Hsz. reflexivity.
    - rewrite lookup_insert_ne by congruence. reflexivity. }
  split; [apply (tiles_same_sizes c f _ _ _ Hss Ht)|].
  intros x. rewrite (same_sizes_dom f _ x Hss). apply Hd.
Qed.

Lemma tiled_set_head f L i v : tiled f L -> tiled (set_head f i v) L.
Proof.
  intros [Ht Hd].
  assert (Hss : same_sizes f (set_head f i v)) by (split; reflexivity).
  split; [apply (tiles_same_sizes c f _ _ _ Hss Ht)|]. exact Hd.
Qed.

(** P0, slots: a slot image is replaced in place *)
Theorem render_set_slot f L img o old new :
  tiled f L -> lens f -> length (heads f) = 16%nat ->
  render_pfile c sb sig2 f = Ok img -> slots f !! o = Some old ->
  slot_size new = slot_size old -> blen (sb new) = slot_size new ->
  render_pfile c sb sig2 (set_slot f o new) = Ok (splice img o (sb new)).
Proof.
  intros Ht Hl Hh Hr Ho Hsz Hbl.
  rewrite (render_tiled f L Ht) in Hr. injection Hr as <-.
  rewrite (render_tiled _ L (tiled_set_slot f L o old new Ht Ho Hsz)). f_equal.
  cbn [set_slot heads].
  pose proof (render_pheader_length c sig2 (heads f) Hc Hsig Hh) as HL.
  destruct (tiled_slot f L o old Ht Ho) as (Hge & _).
  rewrite splice_app_r by lia. f_equal. rewrite HL.
  apply (body_set_slot f o old new); try assumption.
  - congruence.
  - apply Ht.
  - apply Ht. eauto.
Qed.

(** P0, header: a free-list head is replaced in place *)
Theorem render_set_head f L img i v :
  tiled f L -> length (heads f) = 16%nat -> (i < 16)%nat ->
  render_pfile c sb sig2 f = Ok img ->
  render_pfile c sb sig2 (set_head f i v) = Ok (splice img (nth i (free_off c) 0) (le_bytes 8 v)).
Proof.
  intros Ht Hh Hi Hr.
  rewrite (render_tiled f L Ht) in Hr. injection Hr as <-.
  rewrite (render_tiled _ L (tiled_set_head f L i v Ht)). f_equal.
  cbn [set_head heads].
  pose proof (render_pheader_length c sig2 (heads f) Hc Hsig Hh) as HL.
  destruct (cfg_hdr_facts c Hc) as (_ & _ & H3 & _).
  rewrite splice_app_l by (rewrite (free_off_nth c i Hc Hi), blen_le8; lia).
  rewrite <- render_pheader_insert by assumption.
  reflexivity.
Qed.

(** P0, appending: a new slot at the end of the file *)
Definition append_slot (f : pfile P) (nsz : N) (p : P) : pfile P :=
  PFile (<[Alloc.fend f := Used nsz p]> (slots f)) (heads f) (Alloc.fend f + nsz).

Lemma tiled_append f L nsz p : tiled f L -> valid_slot_size c nsz ->
  tiled (append_slot f nsz p) (L ++ [Alloc.fend f]).
Proof.
  intros Ht Hv. pose proof (tiled_fend_none f L Ht) as Hnone. destruct Ht as [Ht Hd].
  split; [apply (tiles_append c Hc); assumption|].
  intros o. unfold append_slot. cbn [slots].
  rewrite elem_of_app, elem_of_list_singleton, <- Hd.
  destruct (decide (o = Alloc.fend f)) as [->|Hne].
  - rewrite lookup_insert. split; eauto.
  - rewrite lookup_insert_ne by congruence. split; [intros H; left; exact H|].
    intros [H|H]; [exact H|contradiction].
Qed.

Theorem render_append f L img nsz p :
  tiled f L -> valid_slot_size c nsz ->
  render_pfile c sb sig2 f = Ok img ->
  render_pfile c sb sig2 (append_slot f nsz p) = Ok (img ++ sb (Used nsz p)).
Proof.
  intros Ht Hv Hr.
  rewrite (render_tiled f L Ht) in Hr. injection Hr as <-.
  rewrite (render_tiled _ _ (tiled_append f L nsz p Ht Hv)). f_equal.
  rewrite <- app_assoc. f_equal. rewrite body_app. f_equal.
  - apply body_ext. intros x Hx. unfold append_slot. cbn [slots]. apply lookup_insert_ne.
    intros <-. pose proof (tiled_fend_none f L Ht) as Hn. apply Ht in Hx. rewrite Hn in Hx.
    destruct Hx as [? Hx]. discriminate Hx.
  - unfold body. cbn [tag_slots map concat snd].
    rewrite (slot_at_eq _ _ (Used nsz p)) by (unfold append_slot; cbn [slots]; apply lookup_insert).
    apply app_nil_r.
Qed.


(** P0 under the allocator invariant *)
Corollary render_set_slot_inv f frees img o old new :
  alloc_inv c f frees -> lens f -> render_pfile c sb sig2 f = Ok img -> slots f !! o = Some old ->
  slot_size new = slot_size old -> blen (sb new) = blen (sb old) ->
  render_pfile c sb sig2 (set_slot f o new) = Ok (splice img o (sb new)).
Proof.
  intros Hi Hl Hr Ho Hsz Hbl. destruct (ai_tiles _ _ _ Hi) as (L & Ht & Hd).
  apply (render_set_slot f L img o old new); try assumption.
  - split; assumption.
  - rewrite (ai_heads _ _ _ Hi). apply (nclasses_eq c Hc).
  - rewrite Hbl, Hsz. apply (Hl _ _ Ho).
Qed.

Corollary render_set_head_inv f frees img i v :
  alloc_inv c f frees -> (i < 16)%nat -> render_pfile c sb sig2 f = Ok img ->
  render_pfile c sb sig2 (set_head f i v) = Ok (splice img (nth i (free_off c) 0) (le_bytes 8 v)).
Proof.
  intros Hi Hlt Hr. destruct (ai_tiles _ _ _ Hi) as (L & Ht & Hd).
  apply (render_set_head f L img i v); try assumption.
  - split; assumption.
  - rewrite (ai_heads _ _ _ Hi). apply (nclasses_eq c Hc).
Qed.

Corollary render_append_inv f frees img nsz p :
  alloc_inv c f frees -> valid_slot_size c nsz -> render_pfile c sb sig2 f = Ok img ->
  render_pfile c sb sig2 (append_slot f nsz p) = Ok (img ++ sb (Used nsz p)).
Proof.
  intros Hi Hv Hr. destruct (ai_tiles _ _ _ Hi) as (L & Ht & Hd).
  apply (render_append f L img nsz p); try assumption. split; assumption.
Qed.

(** ** 4. the working invariant: what the byte-level operations need of a piece file.
    Weaker than [alloc_inv] (nothing on the free lists), kept by [set_slot] / [set_head] /
    [append_slot], so that it also holds between the writes of one operation. *)
Record good (f : pfile P) : Prop := {
  g_heads : length (heads f) = 16%nat;
  g_hlt : forall i, (i < 16)%nat -> head_of f i < 2 ^ 64;
  g_tiled : exists L, tiled f L;
  g_lens : lens f;
  g_fend : Alloc.fend f < 2 ^ 64;
  g_next : forall o sz nxt, slots f !! o = Some (Free sz nxt) -> nxt < 2 ^ 64 }.

Lemma good_of_inv f frees : alloc_inv c f frees -> lens f -> Alloc.fend f < 2 ^ 64 -> good f.
Proof.
  intros Hi Hl Hfe. assert (Hslot : forall o s, slots f !! o = Some s -> o < 2 ^ 64).
  { intros o s Hs. destruct (inv_slot c Hc _ _ _ _ Hi Hs) as (_ & _ & Hv & Hle).
    destruct (valid_slot_size_facts c Hc _ Hv). lia. }
  constructor.
  - rewrite (ai_heads _ _ _ Hi). apply (nclasses_eq c Hc).
  - intros i Hlt. rewrite <- (nclasses_eq c Hc) in Hlt.
    pose proof (ai_lists _ _ _ Hi i Hlt) as Hfl.
    destruct (flist_inv _ _ _ Hfl) as [[-> _] | (sz & nxt & l' & _ & _ & Hs' & _)]; [reflexivity|].
    apply (Hslot _ _ Hs').
  - destruct (ai_tiles _ _ _ Hi) as (L & Ht & Hd). exists L. split; assumption.
  - exact Hl.
  - exact Hfe.
  - intros o sz nxt Hs. destruct (ai_listed _ _ _ Hi _ _ _ Hs) as (i & Hlt & Hin).
    destruct (flist_next_ok _ _ _ (ai_lists _ _ _ Hi i Hlt) _ _ _ Hin Hs) as [-> | [s' Hs2]]; [reflexivity|].
    apply (Hslot _ _ Hs2).
Qed.

Lemma good_set_slot f o old new : good f -> slots f !! o = Some old ->
  slot_size new = slot_size old -> blen (sb new) = slot_size new ->
  (forall sz nxt, new = Free sz nxt -> nxt < 2 ^ 64) -> good (set_slot f o new).
Proof.
  intros [H1 H2 (L & H3) H4 H5 H6] Ho Hsz Hbl Hnx. constructor; cbn [set_slot heads slots Alloc.fend]; try assumption.
  - exists L. eapply tiled_set_slot; eassumption.
  - intros x s. cbn [set_slot slots]. destruct (decide (x = o)) as [->|Hne].
    + rewrite lookup_insert. intros [= <-]. exact Hbl.
    + rewrite lookup_insert_ne by congruence. apply H4.
  - intros x sz nxt. destruct (decide (x = o)) as [->|Hne].
    + rewrite lookup_insert. intros [= ->]. eapply Hnx. reflexivity.
    + rewrite lookup_insert_ne by congruence. apply H6.
Qed.

Lemma good_set_head f i v : good f -> (i < 16)%nat -> v < 2 ^ 64 -> good (set_head f i v).
Proof.
  intros [H1 H2 (L & H3) H4 H5 H6] Hi Hv. constructor; cbn [set_head heads slots Alloc.fend]; try assumption.
  - rewrite insert_length. exact H1.
  - intros j Hj. destruct (decide (j = i)) as [->|Hne].
    + rewrite (head_of_insert f (set_head f i v) i v); [exact Hv|lia|reflexivity].
    + rewrite (head_of_insert_ne f (set_head f i v) i j v); [apply H2; exact Hj|congruence|reflexivity].
  - exists L. apply tiled_set_head. exact H3.
Qed.

Lemma good_append f nsz p : good f -> valid_slot_size c nsz -> blen (sb (Used nsz p)) = nsz ->
  Alloc.fend f + nsz < 2 ^ 64 -> good (append_slot f nsz p).
Proof.
  intros [H1 H2 (L & H3) H4 H5 H6] Hv Hbl Hfe.
  constructor; unfold append_slot; cbn [heads slots Alloc.fend]; try assumption.
  - eexists. apply tiled_append; eassumption.
  - intros x s. cbn [slots]. destruct (decide (x = Alloc.fend f)) as [->|Hne].
    + rewrite lookup_insert. intros [= <-]. exact Hbl.
    + rewrite lookup_insert_ne by congruence. apply H4.
  - intros x sz nxt. destruct (decide (x = Alloc.fend f)) as [->|Hne].
    + rewrite lookup_insert. intros [= ].
    + rewrite lookup_insert_ne by congruence. apply H6.
Qed.

(** the image of a good file *)
Lemma good_image f img : good f -> render_pfile c sb sig2 f = Ok img ->
  blen img = Alloc.fend f /\ hdr_size c <= Alloc.fend f /\
  (exists bd, img = render_pheader c sig2 (heads f) ++ bd) /\
  (forall o s, slots f !! o = Some s -> exists rest, at_off img o = sb s ++ rest).
Proof.
  intros [H1 H2 (L & H3) H4 H5 H6] Hr.
  rewrite (render_tiled f L H3) in Hr. injection Hr as <-.
  pose proof (render_pheader_length c sig2 (heads f) Hc Hsig H1) as HL.
  assert (Hd : forall o, o ∈ L -> is_Some (slots f !! o)) by (intros o Ho; apply H3; exact Ho).
  split; [rewrite blen_app, HL; apply (body_len f H4 _ L (proj1 H3) Hd)|].
  split; [apply (tiled_fend f L H3)|].
  split; [eexists; reflexivity|].
  intros o s Hs. assert (Ho : o ∈ L) by (apply H3; eauto).
  destruct (body_at f H4 _ L (proj1 H3) Hd o s Hs Ho) as (pre & rest & E & Hoff).
  exists rest. rewrite E, <- Hoff, <- HL, at_off_app_add. apply at_off_app_blen.
Qed.

Lemma good_slot f o s : good f -> slots f !! o = Some s ->
  hdr_size c <= o /\ o mod 8 = 0 /\ valid_slot_size c (slot_size s) /\ o + slot_size s <= Alloc.fend f /\
  16 <= slot_size s /\ slot_size s mod 8 = 0 /\ slot_size s < 2 ^ 64 /\ o < 2 ^ 64 /\ o <> 0.
Proof.
  intros [H1 H2 (L & H3) H4 H5 H6] Hs.
  destruct (tiled_slot f L o s H3 Hs) as (A & B & C & D & E & F).
  rewrite (hdr_size_eq c Hc) in *. repeat split; try assumption; lia.
Qed.

Lemma class_idx_lt sz i : class_idx c sz = Ok i -> (i < 16)%nat.
Proof.
  rewrite (class_idx_eq c Hc). destruct (sz =? 0); [discriminate|].
  destruct (index_of sz sizes 0) as [j|] eqn:E.
  - intros [= ->]. apply index_of_nth in E as (_ & E & _). cbn [sizes length] in E. lia.
  - destruct (896 <? sz); [|discriminate]. intros [= <-]. lia.
Qed.

(** ** 4b. a state holding the image of a piece file *)
Variable fid : Io.fid.
Local Notation frame := (frame fid).
Local Notation rcur := (rcur fid).
Local Notation wcur := (wcur fid).
Local Notation looked := (looked fid).

(** the state holds the image of [f] in file [fid] *)
Definition hold (s : st) (f : pfile P) : Prop := render_pfile c sb sig2 f = Ok (fb (get_file s fid)).

Lemma hold_intro s f img : render_pfile c sb sig2 f = Ok img -> fb (get_file s fid) = img -> hold s f.
Proof. intros H <-. exact H. Qed.
Lemma looked_ro s s' : looked s s' -> ro_step s s'.
Proof. intros (_ & _ & H). exact H. Qed.
Lemma rcur_hold s0 s p rest f : rcur s0 s p rest -> hold s0 f -> hold s f.
Proof. intros H Hh. unfold hold. rewrite (rcur_fb _ _ _ _ H). exact Hh. Qed.
Lemma looked_hold s s' f : looked s s' -> hold s f -> hold s' f.
Proof. intros (A & _) H. unfold hold. rewrite A. exact H. Qed.

Hypothesis Hfree : forall sz nxt, sb (Free sz nxt) = slot_bytes sz (free_body nxt).
Hypothesis Hused : forall sz p, exists bd, sb (Used sz p) = slot_bytes sz bd.

Lemma sb_shape sl : exists bd, sb sl = slot_bytes (slot_size sl) bd.
Proof. destruct sl as [sz p|sz nxt]; cbn [slot_size]; [apply Hused|]. eexists. apply Hfree. Qed.

Lemma hold_fend f s : good f -> hold s f -> fend (get_file s fid) = Alloc.fend f.
Proof. intros Hg Hh. unfold fend. apply (good_image f _ Hg Hh). Qed.

(** ** 5. P1: the free-list heads in the header *)
Theorem read_free_on_header_image f s sz i :
  good f -> hold s f -> class_idx c sz = Ok i ->
  exists s', read_free_on_header c fid sz s = Ok (head_of f i, s') /\ looked s s'.
Proof.
  intros Hg Hh Hci. pose proof (class_idx_lt _ _ Hci) as Hi.
  unfold read_free_on_header, free_hdr_off. rewrite Hci. cbn [rbind]. unfold seek_from_start. cbn [rbind].
  destruct (good_image f _ Hg Hh) as (Hbl & Hfe & (bd & Himg) & _).
  destruct (cfg_hdr_facts c Hc) as (_ & _ & H3 & _).
  rewrite (free_off_nth c i Hc Hi).
  assert (Hin : List.hd 0 (free_off c) + 8 * N.of_nat i <= fend (get_file s fid)).
  { unfold fend. rewrite Hbl. lia. }
  pose proof (rcur_seek s _ Hin) as Hc0.
  destruct (render_pheader_at c sig2 (heads f) bd i Hc Hsig) as [rest Hrest].
  { rewrite (g_heads f Hg). exact Hi. }
  rewrite Himg, Hrest in Hc0.
  destruct (rcur_u64 _ _ _ _ _ Hc0 (g_hlt f Hg i Hi)) as (s' & Hr & Hc1).
  exists s'. split; [exact Hr|]. eapply rcur_looked. exact Hc1.
Qed.

Theorem write_free_on_header_image f s sz i v :
  good f -> hold s f -> class_idx c sz = Ok i ->
  exists s', write_free_on_header c fid sz v s = Ok s' /\ hold s' (set_head f i v) /\ frame s s'.
Proof.
  intros Hg Hh Hci. pose proof (class_idx_lt _ _ Hci) as Hi.
  unfold write_free_on_header, free_hdr_off. rewrite Hci. cbn [rbind]. unfold seek_from_start. cbn [rbind].
  destruct (good_image f _ Hg Hh) as (Hbl & Hfe & _).
  destruct (cfg_hdr_facts c Hc) as (_ & _ & H3 & _).
  assert (Hin : nth i (free_off c) 0 <= fend (get_file s fid)).
  { rewrite (free_off_nth c i Hc Hi). unfold fend. rewrite Hbl. lia. }
  pose proof (wcur_seek s _ Hin) as Hw0.
  destruct (wcur_u64 _ _ _ _ v Hw0) as (s' & Hr & Hw1).
  exists s'. split; [exact Hr|]. split; [|eapply wcur_frame; exact Hw1].
  unfold hold. rewrite (wcur_fb _ _ _ _ Hw1). cbn [app].
  destruct (g_tiled f Hg) as [L HL].
  apply (render_set_head f L); try assumption. apply (g_heads f Hg).
Qed.

(** ** 6. P2: the fields of the slot at an offset *)
Lemma slot_cur f s o sl : good f -> hold s f -> slots f !! o = Some sl ->
  exists bd rest, sb sl = slot_bytes (slot_size sl) bd /\
    rcur s (seek_to fid o s) o
      (encode (slot_size sl / 8) ++ bd ++ zeros (slot_size sl - blen (encode (slot_size sl / 8) ++ bd)) ++ rest).
Proof.
  intros Hg Hh Hs. destruct (good_image f _ Hg Hh) as (Hbl & _ & _ & Hat).
  destruct (good_slot f o sl Hg Hs) as (_ & _ & _ & Hle & _).
  destruct (Hat o sl Hs) as [rest Hrest]. destruct (sb_shape sl) as [bd Hbd].
  exists bd, rest. split; [exact Hbd|].
  assert (Hin : o <= fend (get_file s fid)) by (unfold fend; rewrite Hbl; lia).
  pose proof (rcur_seek s o Hin) as Hc0. rewrite Hrest, Hbd, slot_bytes_app in Hc0. exact Hc0.
Qed.

Theorem read_piece_size_image f s o sl : good f -> hold s f -> slots f !! o = Some sl ->
  exists s', (let* (_, s1) := seek_from_start fid o s in read_piece_size fid s1) = Ok (slot_size sl, s') /\
    looked s s'.
Proof.
  intros Hg Hh Hs. destruct (slot_cur f s o sl Hg Hh Hs) as (bd & rest & _ & Hc0).
  destruct (good_slot f o sl Hg Hs) as (_ & _ & _ & _ & _ & H8 & Hlt & _).
  unfold seek_from_start. cbn [rbind].
  destruct (rcur_size _ _ _ _ _ Hc0 H8 Hlt) as (s' & Hr & Hc1).
  exists s'. split; [exact Hr|]. eapply rcur_looked. exact Hc1.
Qed.

Lemma encode_0 : encode 0 = [0].
Proof. reflexivity. Qed.

Lemma free_cur f s o sz nxt : good f -> hold s f -> slots f !! o = Some (Free sz nxt) ->
  exists rest,
    rcur s (seek_to fid o s) o
      (encode (sz / 8) ++ encode 0 ++ le_bytes 8 nxt ++
       zeros (sz - blen (encode (sz / 8) ++ free_body nxt)) ++ rest) /\
    at_off (fb (get_file s fid)) o =
      encode (sz / 8) ++ encode 0 ++ le_bytes 8 nxt ++
       zeros (sz - blen (encode (sz / 8) ++ free_body nxt)) ++ rest.
Proof.
  intros Hg Hh Hs. destruct (good_image f _ Hg Hh) as (Hbl & _ & _ & Hat).
  destruct (good_slot f o _ Hg Hs) as (_ & _ & _ & Hle & _).
  destruct (Hat o _ Hs) as [rest Hrest]. exists rest.
  assert (Hin : o <= fend (get_file s fid)) by (unfold fend; rewrite Hbl; lia).
  pose proof (rcur_seek s o Hin) as Hc0.
  rewrite Hfree, slot_bytes_app in Hrest. unfold free_body at 1 in Hrest.
  rewrite <- app_assoc in Hrest. rewrite <- encode_0 in Hrest.
  rewrite Hrest in Hc0. split; [exact Hc0|exact Hrest].
Qed.

Lemma read_free_fields_cur s0 s p sz nxt rest :
  rcur s0 s p (encode (sz / 8) ++ encode 0 ++ le_bytes 8 nxt ++ rest) ->
  sz mod 8 = 0 -> sz < 2 ^ 64 -> nxt < 2 ^ 64 ->
  exists s', read_free_fields fid s = Ok (sz, nxt, s') /\ rcur s0 s' (p + enc_len (sz / 8) + 1 + 8) rest.
Proof.
  intros Hc0 H8 Hlt Hn. unfold read_free_fields.
  destruct (rcur_size _ _ _ _ _ Hc0 H8 Hlt) as (s1 & -> & Hc1). cbn [rbind].
  destruct (rcur_vu64 _ _ _ 0 _ Hc1 ltac:(lia)) as (s2 & -> & Hc2). cbn [rbind].
  change (negb (0 =? 0)) with false. cbv iota.
  destruct (rcur_u64 _ _ _ _ _ Hc2 Hn) as (s3 & -> & Hc3). cbn [rbind].
  exists s3. split; [reflexivity|]. exact Hc3.
Qed.

Theorem read_free_piece_size_next_image f s o sz nxt :
  good f -> hold s f -> slots f !! o = Some (Free sz nxt) ->
  exists s', read_free_piece_size_next fid o s = Ok (sz, nxt, s') /\ looked s s'.
Proof.
  intros Hg Hh Hs. destruct (free_cur f s o sz nxt Hg Hh Hs) as (rest & Hc0 & _).
  destruct (good_slot f o _ Hg Hs) as (_ & _ & _ & _ & _ & H8 & Hlt & _). cbn [slot_size] in H8, Hlt.
  unfold read_free_piece_size_next, seek_from_start. cbn [rbind].
  destruct (read_free_fields_cur _ _ _ _ _ _ Hc0 H8 Hlt (g_next f Hg _ _ _ Hs)) as (s' & Hr & Hc1).
  exists s'. split; [exact Hr|]. eapply rcur_looked. exact Hc1.
Qed.

(** ** 7. writing a slot image in place *)
Lemma wcur_slot_image f s0 s' o old new :
  good f -> hold s0 f -> slots f !! o = Some old -> slot_size new = slot_size old ->
  blen (sb new) = slot_size new -> wcur s0 s' o (sb new) ->
  hold s' (set_slot f o new) /\ frame s0 s'.
Proof.
  intros Hg Hh Hs Hsz Hbl Hw. split; [|eapply wcur_frame; exact Hw].
  unfold hold. rewrite (wcur_fb _ _ _ _ Hw). destruct (g_tiled f Hg) as [L HL].
  apply (render_set_slot f L _ o old new); try assumption.
  - apply (g_lens f Hg).
  - apply (g_heads f Hg).
Qed.

Lemma blen_free_slot sz nxt : 16 <= sz -> blen (sb (Free sz nxt)) = sz.
Proof. intros H. rewrite Hfree. apply free_slot_len. exact H. Qed.

Lemma clear_bytes size : 16 <= size ->
  encode (size / 8) ++ zeros (size - blen (encode (size / 8))) = slot_bytes size (free_body 0).
Proof.
  intros H. unfold slot_bytes. cbv zeta. rewrite <- app_assoc. f_equal.
  pose proof (free_fits size H) as Hf. change (blen (free_body 0)) with 9 in Hf.
  rewrite blen_app, blen_encode. change (blen (free_body 0)) with 9.
  change (free_body 0) with (zeros 9). unfold zeros. rewrite <- repeat_app. f_equal. lia.
Qed.

(** [write_piece_clear]: the slot becomes [Free size 0] *)
Theorem write_piece_clear_image f s o old :
  good f -> hold s f -> 0 < fcs (get_file s fid) -> slots f !! o = Some old ->
  exists s', write_piece_clear fid o (slot_size old) s = Ok s' /\
    hold s' (set_slot f o (Free (slot_size old) 0)) /\ frame s s'.
Proof.
  intros Hg Hh Hcs Hs. set (size := slot_size old).
  destruct (good_slot f o old Hg Hs) as (_ & _ & _ & Hle & H16 & H8 & Hlt & _). fold size in Hle, H16, H8, Hlt.
  unfold write_piece_clear. destruct (N.eqb_spec size 0) as [E|_]; [lia|].
  destruct (read_piece_size_image f s o old Hg Hh Hs) as (s2 & Hr & Hl2). fold size in Hr.
  unfold seek_from_start in *. cbn [rbind] in *. rewrite Hr. cbn [rbind].
  rewrite N.eqb_refl, orb_true_r. cbn [negb].
  pose proof (looked_hold _ _ _ Hl2 Hh) as Hh2.
  assert (Hcs2 : 0 < fcs (get_file s2 fid)) by (rewrite (proj1 (looked_frame _ _ Hl2)); exact Hcs).
  assert (Hin : o <= fend (get_file s2 fid)) by (rewrite (hold_fend f s2 Hg Hh2); lia).
  pose proof (wcur_seek s2 o Hin) as Hw0.
  destruct (wcur_size _ _ _ _ size Hw0 Hcs2 H8) as (s4 & -> & Hw1). cbn [rbind].
  destruct (wcur_zero _ _ _ _ size Hw1) as (s5 & -> & Hw2).
  exists s5. split; [reflexivity|]. cbn [app] in Hw2. rewrite (clear_bytes size H16), <- Hfree in Hw2.
  destruct (wcur_slot_image f s2 s5 o old (Free size 0) Hg Hh2 Hs) as [A B]; try assumption.
  - reflexivity.
  - apply blen_free_slot. exact H16.
  - split; [exact A|]. eapply frame_trans; [apply looked_frame; exact Hl2|exact B].
Qed.

(** ** 8. P3: [push_free] *)
Lemma free_bytes sz first :
  encode (sz / 8) ++ encode 0 ++ le_bytes 8 first ++
    zeros (sz - blen (encode (sz / 8) ++ encode 0 ++ le_bytes 8 first)) = slot_bytes sz (free_body first).
Proof. unfold slot_bytes, free_body. cbv zeta. rewrite encode_0, <- !app_assoc. reflexivity. Qed.

Theorem push_free_image f s off sz old f' :
  good f -> hold s f -> 0 < fcs (get_file s fid) ->
  slots f !! off = Some old -> slot_size old = sz ->
  Alloc.push_free c f off sz = Ok f' ->
  exists s', push_free c fid off sz s = Ok s' /\ hold s' f' /\ frame s s' /\ good f'.
Proof.
  intros Hg Hh Hcs Hs Hsz Hp.
  destruct (good_slot f off old Hg Hs) as (_ & _ & _ & Hle & H16 & H8 & Hlt & Holt & Hnz). rewrite Hsz in *.
  unfold Alloc.push_free in Hp. unfold push_free.
  destruct (N.eqb_spec off 0) as [E|_]; [contradiction|].
  destruct (N.eqb_spec sz 0) as [E|_]; [lia|].
  destruct (class_idx c sz) as [i| | |] eqn:Hci; cbn [rbind] in Hp; try discriminate Hp.
  injection Hp as <-. pose proof (class_idx_lt _ _ Hci) as Hi.
  destruct (read_free_on_header_image f s sz i Hg Hh Hci) as (s1 & -> & Hl1). cbn [rbind].
  set (first := head_of f i).
  pose proof (looked_hold _ _ _ Hl1 Hh) as Hh1.
  assert (Hcs1 : 0 < fcs (get_file s1 fid)) by (rewrite (proj1 (looked_frame _ _ Hl1)); exact Hcs).
  assert (Hin : off <= fend (get_file s1 fid)) by (rewrite (hold_fend f s1 Hg Hh1); lia).
  unfold seek_from_start. cbn [rbind].
  pose proof (wcur_seek s1 off Hin) as Hw0.
  destruct (wcur_size _ _ _ _ sz Hw0 Hcs1 H8) as (s3 & -> & Hw1). cbn [rbind].
  destruct (wcur_vu64 _ _ _ _ 0 Hw1 Hcs1) as (s4 & -> & Hw2). cbn [rbind].
  destruct (wcur_u64 _ _ _ _ first Hw2) as (s5 & -> & Hw3). cbn [rbind].
  destruct (wcur_zero _ _ _ _ sz Hw3) as (s6 & -> & Hw4). cbn [rbind].
  cbn [app] in Hw4. rewrite <- !app_assoc in Hw4. rewrite free_bytes, <- Hfree in Hw4.
  assert (Hfirst : first < 2 ^ 64) by (apply (g_hlt f Hg); exact Hi).
  set (f1 := set_slot f off (Free sz first)).
  destruct (wcur_slot_image f s1 s6 off old (Free sz first) Hg Hh1 Hs) as [Hh6 Hfr6]; try assumption.
  { cbn [slot_size]. congruence. }
  { apply blen_free_slot. exact H16. }
  fold f1 in Hh6.
  assert (Hg1 : good f1).
  { apply (good_set_slot f off old); try assumption.
    - cbn [slot_size]. congruence.
    - apply blen_free_slot. exact H16.
    - intros sz' nxt' [= _ <-]. exact Hfirst. }
  destruct (write_free_on_header_image f1 s6 sz i off Hg1 Hh6 Hci) as (s7 & -> & Hh7 & Hfr7).
  exists s7. split; [reflexivity|]. split; [exact Hh7|]. split.
  - eapply frame_trans; [apply looked_frame; exact Hl1|]. eapply frame_trans; eassumption.
  - apply (good_set_head f1 i off Hg1 Hi Holt).
Qed.

(** ** 9. P4: [pop_free] *)
Lemma blen_free_body nxt : blen (free_body nxt) = 9.
Proof. unfold free_body. rewrite blen_app, blen_le8. reflexivity. Qed.

(** the link field of a free slot is rewritten in place *)
Lemma relink_prev_image f s prev psz pn nx :
  good f -> hold s f -> slots f !! prev = Some (Free psz pn) -> nx < 2 ^ 64 ->
  exists s',
    (let* (_, a1) := seek_from_start fid prev s in
     let* (_, a2) := read_piece_size fid a1 in
     let* (kl, a3) := read_vu64 fid a2 in
     if negb (kl =? 0) then Panic DebugAssert else write_u64 fid nx a3) = Ok s' /\
    hold s' (set_slot f prev (Free psz nx)) /\ frame s s'.
Proof.
  intros Hg Hh Hs Hnx. destruct (free_cur f s prev psz pn Hg Hh Hs) as (rest & Hc0 & Hat).
  destruct (good_slot f prev _ Hg Hs) as (_ & _ & _ & Hle & H16 & H8 & Hlt & _). cbn [slot_size] in *.
  unfold seek_from_start. cbn [rbind].
  destruct (rcur_size _ _ _ _ _ Hc0 H8 Hlt) as (a2 & -> & Hc1). cbn [rbind].
  destruct (rcur_vu64 _ _ _ 0 _ Hc1 ltac:(lia)) as (a3 & -> & Hc2). cbn [rbind].
  change (negb (0 =? 0)) with false. cbv iota.
  eexists. split; [reflexivity|].
  destruct (write_n_spec fid (le_bytes 8 nx) a3) as [Hu _].
  rewrite (rcur_fb _ _ _ _ Hc2), (rcur_fp _ _ _ _ Hc2) in Hu.
  set (s' := write_n fid (le_bytes 8 nx) a3) in *.
  assert (Hfr : frame s s').
  { eapply frame_trans; [eapply rcur_frame; exact Hc2|]. eapply upd_file_frame; exact Hu. }
  split; [|exact Hfr].
  assert (Hfb : fb (get_file s' fid) = splice (fb (get_file s fid)) prev (sb (Free psz nx))).
  { destruct Hu as [E _]. rewrite E. cbn [fb].
    rewrite Hfree. rewrite <- free_bytes.
    rewrite !blen_app, blen_le8, !blen_encode. change (enc_len 0) with 1.
    rewrite blen_app, blen_free_body, blen_encode in Hat.
    replace (psz - (enc_len (psz / 8) + (1 + 8))) with (psz - (enc_len (psz / 8) + 9)) by lia.
    assert (Hp : prev <= blen (fb (get_file s fid))).
    { rewrite <- (hold_fend f s Hg Hh) in Hle. unfold fend in Hle. lia. }
    pose proof (splice_inner (fb (get_file s fid)) prev (encode (psz / 8) ++ encode 0) (le_bytes 8 pn)
                  (zeros (psz - (enc_len (psz / 8) + 9))) rest (le_bytes 8 nx) Hp) as Hsi.
    rewrite <- !app_assoc in Hsi. rewrite blen_app, !blen_encode in Hsi. change (enc_len 0) with 1 in Hsi.
    rewrite Hsi; [rewrite N.add_assoc; reflexivity | exact Hat | rewrite !blen_le8; reflexivity]. }
  unfold hold. rewrite Hfb. destruct (g_tiled f Hg) as [L HL].
  apply (render_set_slot f L _ prev (Free psz pn)); try assumption.
  - apply (g_lens f Hg).
  - apply (g_heads f Hg).
  - reflexivity.
  - apply blen_free_slot. exact H16.
Qed.

Lemma pop_large_image nsz i : class_idx c nsz = Ok i ->
  forall fuelA fuelI f prev curr s f' off sz, (fuelA <= fuelI)%nat ->
  good f -> hold s f -> 0 < fcs (get_file s fid) ->
  Alloc.pop_large fuelA f nsz i prev curr = Ok (f', off, sz) ->
  exists s', pop_large fuelI c fid nsz prev curr s = Ok (off, s') /\
    hold s' f' /\ frame s s' /\ good f' /\ (off <> 0 -> slots f' !! off = Some (Free sz 0)) /\ Alloc.fend f' = Alloc.fend f.
Proof.
  intros Hci. pose proof (class_idx_lt _ _ Hci) as Hi.
  induction fuelA as [|fuelA IH]; intros fuelI f prev curr s f' off sz Hfu Hg Hh Hcs Hp; [discriminate Hp|].
  destruct fuelI as [|fuelI]; [lia|]. cbn [Alloc.pop_large pop_large] in *.
  destruct (N.eqb_spec curr 0) as [E|Hcz].
  - injection Hp as <- <- <-. exists s. split; [rewrite E; reflexivity|].
    split; [exact Hh|]. split; [apply frame_refl|]. split; [exact Hg|]. split; [intros H; contradiction|reflexivity].
  - unfold read_free at 1 in Hp.
    destruct (slots f !! curr) as [[?|psz nx]|] eqn:Hs; cbn [rbind] in Hp; try discriminate Hp.
    destruct (read_free_piece_size_next_image f s curr psz nx Hg Hh Hs) as (s4 & -> & Hl4). cbn [rbind].
    pose proof (looked_hold _ _ _ Hl4 Hh) as Hh4.
    assert (Hcs4 : 0 < fcs (get_file s4 fid)) by (rewrite (proj1 (looked_frame _ _ Hl4)); exact Hcs).
    pose proof (g_next f Hg _ _ _ Hs) as Hnx.
    destruct (N.leb_spec nsz psz) as [Hfit|Hno].
    + destruct (N.eqb_spec prev 0) as [Hpz|Hpnz]; cbn [negb].
      * cbn [rbind] in Hp. injection Hp as <- <- <-.
        destruct (write_free_on_header_image f s4 nsz i nx Hg Hh4 Hci) as (s5 & -> & Hh5 & Hfr5). cbn [rbind].
        pose proof (good_set_head f i nx Hg Hi Hnx) as Hg5.
        assert (Hcs5 : 0 < fcs (get_file s5 fid)) by (rewrite (proj1 Hfr5); exact Hcs4).
        destruct (write_piece_clear_image (set_head f i nx) s5 curr (Free psz nx) Hg5 Hh5 Hcs5 Hs)
          as (s6 & Hr6 & Hh6 & Hfr6). cbn [slot_size] in Hr6, Hh6. rewrite Hr6. cbn [rbind].
        exists s6. split; [reflexivity|]. split; [exact Hh6|]. split.
        { eapply frame_trans; [apply looked_frame; exact Hl4|]. eapply frame_trans; eassumption. }
        split.
        { apply (good_set_slot _ curr (Free psz nx)); try assumption; try reflexivity.
          - destruct (good_slot f curr _ Hg Hs) as (_ & _ & _ & _ & H16 & _). apply blen_free_slot. exact H16.
          - intros ? ? [= _ <-]. lia. }
        split; [intros _; cbn [set_slot slots]; apply lookup_insert|reflexivity].
      * unfold read_free in Hp.
        destruct (slots f !! prev) as [[?|ppsz pn]|] eqn:Hsp; cbn [rbind] in Hp; try discriminate Hp.
        injection Hp as <- <- <-.
        destruct (relink_prev_image f s4 prev ppsz pn nx Hg Hh4 Hsp Hnx) as (s5 & -> & Hh5 & Hfr5). cbn [rbind].
        set (f1 := set_slot f prev (Free ppsz nx)) in *.
        destruct (good_slot f prev _ Hg Hsp) as (_ & _ & _ & _ & H16p & _). cbn [slot_size] in H16p.
        destruct (good_slot f curr _ Hg Hs) as (_ & _ & _ & _ & H16 & _). cbn [slot_size] in H16.
        assert (Hg1 : good f1).
        { apply (good_set_slot f prev (Free ppsz pn)); try assumption; try reflexivity.
          - apply blen_free_slot. exact H16p.
          - intros ? ? [= _ <-]. exact Hnx. }
        assert (Hcs5 : 0 < fcs (get_file s5 fid)) by (rewrite (proj1 Hfr5); exact Hcs4).
        assert (Hold : exists old', slots f1 !! curr = Some old' /\ slot_size old' = psz).
        { unfold f1. cbn [set_slot slots]. destruct (decide (curr = prev)) as [->|Hne].
          - rewrite lookup_insert. eexists. split; [reflexivity|]. cbn [slot_size]. congruence.
          - rewrite lookup_insert_ne by congruence. eexists. split; [exact Hs|]. reflexivity. }
        destruct Hold as (old' & Hs1 & Hsz1).
        destruct (write_piece_clear_image f1 s5 curr old' Hg1 Hh5 Hcs5 Hs1) as (s6 & Hr6 & Hh6 & Hfr6).
        rewrite Hsz1 in Hr6, Hh6. rewrite Hr6. cbn [rbind].
        exists s6. split; [reflexivity|]. split; [exact Hh6|]. split.
        { eapply frame_trans; [apply looked_frame; exact Hl4|]. eapply frame_trans; eassumption. }
        split.
        { apply (good_set_slot _ curr old'); try assumption.
          - cbn [slot_size]. congruence.
          - apply blen_free_slot. exact H16.
          - intros ? ? [= _ <-]. lia. }
        split; [intros _; cbn [set_slot slots]; apply lookup_insert|reflexivity].
    + destruct (IH fuelI f curr nx s4 f' off sz ltac:(lia) Hg Hh4 Hcs4 Hp) as (s' & Hr & Hh' & Hfr' & Hg' & Hoff).
      exists s'. split; [exact Hr|]. split; [exact Hh'|]. split; [|split; assumption].
      eapply frame_trans; [apply looked_frame; exact Hl4|exact Hfr'].
Qed.

(** the fuel of the byte-level walk suffices: there are at most [fend / 16] slots *)
Lemma tiles_count (f : pfile P) off L : tiles c f off L -> off + 16 * N.of_nat (length L) <= Alloc.fend f.
Proof.
  induction 1 as [|off s l Hs Hv Ht IH]; [cbn [length]; lia|].
  pose proof (valid_slot_size_facts c Hc _ Hv) as [H16 _]. cbn [length]. lia.
Qed.

Lemma slots_count (f : pfile P) : good f -> (size (slots f) <= N.to_nat (Alloc.fend f / 8))%nat.
Proof.
  intros Hg. destruct (g_tiled f Hg) as (L & Ht & Hd).
  pose proof (tiles_count f _ L Ht) as Hcnt.
  pose proof (tiles_NoDup c Hc _ _ _ Ht) as Hnd.
  assert (Hsz : (size (slots f) <= length L)%nat).
  { rewrite <- (size_dom (D := gset N) (slots f)). rewrite <- (size_list_to_set (C := gset N) L) by exact Hnd.
    apply subseteq_size. intros x Hx. apply elem_of_dom in Hx. apply elem_of_list_to_set. apply Hd. exact Hx. }
  assert (N.of_nat (length L) <= Alloc.fend f / 8); [|lia].
  apply N.div_le_lower_bound; lia.
Qed.

Theorem pop_free_image f s nsz f' off sz :
  good f -> hold s f -> 0 < fcs (get_file s fid) ->
  Alloc.pop_free c f nsz = Ok (f', off, sz) ->
  exists s', pop_free c fid nsz s = Ok (off, s') /\
    hold s' f' /\ frame s s' /\ good f' /\ (off <> 0 -> slots f' !! off = Some (Free sz 0)) /\ Alloc.fend f' = Alloc.fend f.
Proof.
  intros Hg Hh Hcs Hp. unfold Alloc.pop_free in Hp. unfold pop_free.
  destruct (class_idx c nsz) as [i| | |] eqn:Hci; cbn [rbind] in Hp; try discriminate Hp.
  pose proof (class_idx_lt _ _ Hci) as Hi.
  destruct (read_free_on_header_image f s nsz i Hg Hh Hci) as (s1 & -> & Hl1). cbn [rbind].
  set (first := head_of f i) in *.
  pose proof (looked_hold _ _ _ Hl1 Hh) as Hh1.
  assert (Hcs1 : 0 < fcs (get_file s1 fid)) by (rewrite (proj1 (looked_frame _ _ Hl1)); exact Hcs).
  destruct (is_large c nsz); cbn [negb] in *.
  - (* the first-fit walk *)
    destruct (pop_large_image nsz i Hci (S (size (slots f))) (walk_fuel s1 fid) f 0 first s1 f' off sz)
      as (s' & Hr & Hh' & Hfr' & Hg' & Hoff); try assumption.
    { unfold walk_fuel. rewrite (hold_fend f s1 Hg Hh1). pose proof (slots_count f Hg). lia. }
    exists s'. split; [exact Hr|]. split; [exact Hh'|]. split; [|split; assumption].
    eapply frame_trans; [apply looked_frame; exact Hl1|exact Hfr'].
  - destruct (N.eqb_spec first 0) as [Hz|Hnz]; cbn [negb].
    + injection Hp as <- <- <-. exists s1. split; [rewrite Hz; reflexivity|].
      split; [exact Hh1|]. split; [apply looked_frame; exact Hl1|]. split; [exact Hg|]. split; [intros H; contradiction|reflexivity].
    + unfold read_free in Hp.
      destruct (slots f !! first) as [[?|psz nx]|] eqn:Hs; cbn [rbind] in Hp; try discriminate Hp.
      injection Hp as <- <- <-.
      destruct (read_free_piece_size_next_image f s1 first psz nx Hg Hh1 Hs) as (s2 & -> & Hl2). cbn [rbind].
      pose proof (looked_hold _ _ _ Hl2 Hh1) as Hh2.
      assert (Hcs2 : 0 < fcs (get_file s2 fid)) by (rewrite (proj1 (looked_frame _ _ Hl2)); exact Hcs1).
      destruct (write_piece_clear_image f s2 first (Free psz nx) Hg Hh2 Hcs2 Hs) as (s3 & Hr3 & Hh3 & Hfr3).
      cbn [slot_size] in Hr3, Hh3. rewrite Hr3. cbn [rbind].
      set (f1 := set_slot f first (Free psz 0)) in *.
      destruct (good_slot f first _ Hg Hs) as (_ & _ & _ & _ & H16 & _). cbn [slot_size] in H16.
      assert (Hg1 : good f1).
      { apply (good_set_slot f first (Free psz nx)); try assumption; try reflexivity.
        - apply blen_free_slot. exact H16.
        - intros ? ? [= _ <-]. lia. }
      destruct (write_free_on_header_image f1 s3 nsz i nx Hg1 Hh3 Hci) as (s4 & -> & Hh4 & Hfr4). cbn [rbind].
      exists s4. split; [reflexivity|]. split; [exact Hh4|]. split.
      { eapply frame_trans; [apply looked_frame; exact Hl1|].
        eapply frame_trans; [apply looked_frame; exact Hl2|]. eapply frame_trans; eassumption. }
      split; [apply (good_set_head f1 i nx Hg1 Hi (g_next f Hg _ _ _ Hs))|].
      split; [intros _; cbn [slots]; apply lookup_insert|reflexivity].
Qed.

(** ** 10. P5: [write_piece], [delete_piece] *)

(** record level: the slot a free list hands out is large enough *)
Lemma pop_free_fits (f : pfile P) frees nsz f2 foff fsz :
  alloc_inv c f frees -> valid_slot_size c nsz ->
  Alloc.pop_free c f nsz = Ok (f2, foff, fsz) -> foff <> 0 -> nsz <= fsz.
Proof.
  intros Hi Hv Hp Hnz. pose proof Hi as Hi0.
  apply (inv16_iff c Hc) in Hi as [H1 H2 H3 H4 H5 H6 H7 H8].
  destruct (class_idx_valid c Hc nsz Hv) as (i & Hci & Hi16 & Hi15).
  unfold Alloc.pop_free in Hp. rewrite Hci in Hp. cbn [rbind] in Hp. rewrite (is_large_eq c Hc) in Hp.
  destruct (N.leb_spec 1024 nsz) as [Hlarge | Hsmall]; cbn [negb] in Hp.
  - rewrite (class_idx_large c Hc nsz Hlarge) in Hci. injection Hci as <-.
    assert (length (frees 15%nat) < S (size (slots f)))%nat as Hfuel.
    { apply Nat.lt_succ_r, NoDup_length_size; [apply H5; exact Hi16|].
      intros x Hx. destruct (H4 _ _ Hi16 Hx) as (? & ? & -> & _). eauto. }
    destruct (pop_large_spec f nsz 15 _ _ 0 _ (H3 15%nat Hi16) Hfuel ltac:(left; reflexivity))
      as [[Hall Hr] | (la & x & lb & sz & nxt & Hfi & Hall & Hx & Hle & f1 & Hf1 & Hr)];
      rewrite Hr in Hp; injection Hp as <- <- <-; [contradiction|exact Hle].
  - specialize (Hi15 Hsmall).
    destruct (class_idx_small c Hc _ _ Hci Hi15) as (Hnth & _ & _).
    destruct (flist_inv _ _ _ (H3 i Hi16)) as [[Hh Hfi] | (sz & nxt & lb & Hh0 & Hfi & Hsx & Hfl)].
    + rewrite Hh in Hp. change (0 =? 0) with true in Hp. cbv iota in Hp.
      injection Hp as <- <- <-. contradiction.
    + destruct (N.eqb_spec (head_of f i) 0) as [E|_]; [contradiction|].
      rewrite (read_free_Free _ _ _ _ Hsx) in Hp. cbn [rbind] in Hp. injection Hp as <- <- <-.
      assert (head_of f i ∈ frees i) as Hxin by (rewrite Hfi; left).
      destruct (H4 _ _ Hi16 Hxin) as (sz' & nxt' & Hs' & Hcl). rewrite Hsx in Hs'. injection Hs' as <- <-.
      destruct (class_idx_small c Hc _ _ Hcl Hi15) as (Hnth' & _ & _). lia.
Qed.

Section writer.
Variables (need : N) (p : P) (wr : N -> N -> st -> res st).
Hypothesis Hneed : 0 < need.
(** the record fits every slot the allocator can choose for it *)
Hypothesis Hfit : forall sz, valid_slot_size c sz -> roundup c need <= sz -> blen (sb (Used sz p)) = sz.
(** the record writer writes the slot image at the offset it is given *)
Hypothesis Hwr : forall off sz s, off <= fend (get_file s fid) -> 0 < fcs (get_file s fid) ->
  valid_slot_size c sz ->
  exists s', wr off sz s = Ok s' /\ wcur s s' off (sb (Used sz p)).

Let nsz := roundup c need.

Theorem add_new_image f frees s f' off sz :
  alloc_inv c f frees -> good f -> hold s f -> 0 < fcs (get_file s fid) ->
  Alloc.fend f + nsz < 2 ^ 64 ->
  Alloc.alloc c f nsz p = Ok (f', off, sz) ->
  exists s', add_new c fid nsz wr s = Ok (off, sz, s') /\ hold s' f' /\ frame s s' /\ good f'.
Proof.
  intros Hi Hg Hh Hcs Hfe Hp.
  destruct (roundup_facts c Hc need Hneed) as [Hv Hle]. fold nsz in Hv, Hle.
  unfold Alloc.alloc in Hp. unfold add_new.
  destruct (Alloc.pop_free c f nsz) as [[[f2 foff] fsz]| | |] eqn:Hpop; cbn [rbind] in Hp; try discriminate Hp.
  destruct (pop_free_image f s nsz f2 foff fsz Hg Hh Hcs Hpop) as (s1 & -> & Hh1 & Hfr1 & Hg1 & Hoff & Hfe1).
  cbn [rbind].
  assert (Hcs1 : 0 < fcs (get_file s1 fid)) by (rewrite (proj1 Hfr1); exact Hcs).
  destruct (N.eqb_spec foff 0) as [Hz|Hnz]; cbn [negb].
  - (* extend the file *)
    injection Hp as <- <- <-. unfold seek_to_end. cbn [rbind].
    rewrite (valid_slot_size_valid_size c Hc _ Hv). cbn [negb].
    pose proof (hold_fend f2 s1 Hg1 Hh1) as He. rewrite He.
    set (a1 := seek_to fid (Alloc.fend f2) s1).
    destruct (seek_to_inside fid (Alloc.fend f2) s1 ltac:(rewrite He; lia)) as [Ea Oa]. fold a1 in Ea, Oa.
    destruct (Hwr (Alloc.fend f2) nsz a1) as (s3 & -> & Hw); try assumption.
    { rewrite Ea. unfold fend. cbn [fb]. unfold fend in He. lia. }
    { rewrite Ea. exact Hcs1. }
    cbn [rbind]. exists s3. split; [reflexivity|].
    fold (append_slot f2 nsz p). split; [|split].
    + unfold hold. rewrite (wcur_fb _ _ _ _ Hw), Ea. cbn [fb].
      unfold fend in He. rewrite <- He, splice_end.
      destruct (g_tiled f2 Hg1) as [L HL]. apply (render_append f2 L); assumption.
    + eapply frame_trans; [exact Hfr1|]. eapply frame_trans; [|eapply wcur_frame; exact Hw].
      split; [rewrite Ea; reflexivity|exact Oa].
    + apply good_append; try assumption.
      * apply Hfit; [exact Hv|lia].
      * rewrite Hfe1. exact Hfe.
  - (* re-use the slot popped from a free list *)
    injection Hp as <- <- <-. specialize (Hoff Hnz).
    pose proof (pop_free_fits f frees nsz f2 foff fsz Hi Hv Hpop Hnz) as Hfits.
    replace (N.max fsz nsz) with fsz by lia.
    destruct (read_piece_size_image f2 s1 foff _ Hg1 Hh1 Hoff) as (a2 & Hr2 & Hl2).
    cbn [slot_size] in Hr2. unfold seek_from_start in *. cbn [rbind] in *. rewrite Hr2. cbn [rbind].
    replace (N.max fsz nsz) with fsz by lia.
    destruct (good_slot f2 foff _ Hg1 Hoff) as (_ & _ & Hvs & Hle2 & _). cbn [slot_size] in Hvs, Hle2.
    rewrite (valid_slot_size_valid_size c Hc _ Hvs). cbn [negb].
    pose proof (looked_hold _ _ _ Hl2 Hh1) as Hh2.
    assert (Hcs2 : 0 < fcs (get_file a2 fid)) by (rewrite (proj1 (looked_frame _ _ Hl2)); exact Hcs1).
    assert (Hin : foff <= fend (get_file a2 fid)) by (rewrite (hold_fend f2 a2 Hg1 Hh2); lia).
    set (a3 := seek_to fid foff a2).
    destruct (seek_to_inside fid foff a2 Hin) as [Ea Oa]. fold a3 in Ea, Oa.
    assert (Hh3 : hold a3 f2) by (unfold hold; rewrite Ea; exact Hh2).
    destruct (Hwr foff fsz a3) as (s3 & -> & Hw); try assumption.
    { rewrite Ea. exact Hin. }
    { rewrite Ea. exact Hcs2. }
    cbn [rbind]. exists s3. split; [reflexivity|].
    assert (Hbl : blen (sb (Used fsz p)) = fsz) by (apply Hfit; [exact Hvs|exact Hfits]).
    destruct (wcur_slot_image f2 a3 s3 foff _ (Used fsz p) Hg1 Hh3 Hoff) as [A B]; try assumption.
    { reflexivity. }
    split; [exact A|]. split.
    + eapply frame_trans; [exact Hfr1|]. eapply frame_trans; [apply looked_frame; exact Hl2|].
      eapply frame_trans; [|exact B]. split; [rewrite Ea; reflexivity|exact Oa].
    + apply (good_set_slot f2 foff (Free fsz 0)); try assumption; try reflexivity.
      intros ? ? [= ].
Qed.

Theorem write_piece_image f frees s old f' off sz :
  alloc_inv c f frees -> lens f -> hold s f -> 0 < fcs (get_file s fid) ->
  Alloc.fend f + nsz < 2 ^ 64 ->
  (forall o, old = Some o -> exists osz p0, slots f !! o = Some (Used osz p0)) ->
  Alloc.write_piece c need f old p = Ok (f', off, sz) ->
  exists s', write_piece c fid need wr old s = Ok (off, sz, s') /\ hold s' f' /\ frame s s' /\ good f'.
Proof.
  intros Hi Hl Hh Hcs Hfe Hold Hp.
  assert (Hfe0 : Alloc.fend f < 2 ^ 64) by lia.
  pose proof (good_of_inv f frees Hi Hl Hfe0) as Hg.
  destruct (roundup_facts c Hc need Hneed) as [Hv Hle]. fold nsz in Hv, Hle.
  unfold Alloc.write_piece in Hp. unfold write_piece. fold nsz in Hp. fold nsz.
  destruct (N.eqb_spec need 0) as [E|_]; [lia|].
  destruct old as [o|]; [|apply (add_new_image f frees); assumption].
  destruct (Hold o eq_refl) as (osz & p0 & Hs).
  destruct (N.eqb_spec o 0) as [E|_]; [discriminate Hp|].
  unfold read_size in Hp. rewrite Hs in Hp. cbn [rbind slot_size] in Hp.
  destruct (read_piece_size_image f s o _ Hg Hh Hs) as (s2 & Hr2 & Hl2).
  cbn [slot_size] in Hr2. unfold seek_from_start in *. cbn [rbind] in *. rewrite Hr2. cbn [rbind].
  destruct (good_slot f o _ Hg Hs) as (_ & _ & Hvs & Hle2 & _). cbn [slot_size] in Hvs, Hle2.
  rewrite (valid_slot_size_valid_size c Hc _ Hvs) in *. cbn [negb] in *.
  pose proof (looked_hold _ _ _ Hl2 Hh) as Hh2.
  assert (Hcs2 : 0 < fcs (get_file s2 fid)) by (rewrite (proj1 (looked_frame _ _ Hl2)); exact Hcs).
  destruct (N.leb_spec nsz osz) as [Hfits|Hno].
  - (* in place *)
    injection Hp as <- <- <-.
    assert (Hin : o <= fend (get_file s2 fid)) by (rewrite (hold_fend f s2 Hg Hh2); lia).
    set (s3 := seek_to fid o s2).
    destruct (seek_to_inside fid o s2 Hin) as [Ea Oa]. fold s3 in Ea, Oa.
    assert (Hh3 : hold s3 f) by (unfold hold; rewrite Ea; exact Hh2).
    destruct (Hwr o osz s3) as (s4 & -> & Hw); try assumption.
    { rewrite Ea. exact Hin. }
    { rewrite Ea. exact Hcs2. }
    cbn [rbind]. exists s4. split; [reflexivity|].
    assert (Hbl : blen (sb (Used osz p)) = osz) by (apply Hfit; assumption).
    destruct (wcur_slot_image f s3 s4 o _ (Used osz p) Hg Hh3 Hs) as [A B]; try assumption.
    { reflexivity. }
    split; [exact A|]. split.
    + eapply frame_trans; [apply looked_frame; exact Hl2|].
      eapply frame_trans; [|exact B]. split; [rewrite Ea; reflexivity|exact Oa].
    + apply (good_set_slot f o (Used osz p0)); try assumption; try reflexivity.
      intros ? ? [= ].
  - (* free the old slot, allocate *)
    destruct (push_ok c Hc f frees o osz p0 Hi Hs) as (f1 & frees1 & nx & Hpush & Hi1 & _ & Hfe1 & _).
    rewrite Hpush in Hp. cbn [rbind] in Hp.
    destruct (push_free_image f s2 o osz _ f1 Hg Hh2 Hcs2 Hs eq_refl Hpush) as (s3 & -> & Hh3 & Hfr3 & Hg3).
    cbn [rbind].
    assert (Hcs3 : 0 < fcs (get_file s3 fid)) by (rewrite (proj1 Hfr3); exact Hcs2).
    destruct (add_new_image f1 frees1 s3 f' off sz Hi1 Hg3 Hh3 Hcs3) as (s' & Hr & Hh' & Hfr' & Hg'); try assumption.
    { rewrite Hfe1. exact Hfe. }
    exists s'. split; [exact Hr|]. split; [exact Hh'|]. split; [|exact Hg'].
    eapply frame_trans; [apply looked_frame; exact Hl2|]. eapply frame_trans; eassumption.
Qed.

End writer.

Theorem delete_piece_image f s o f' :
  good f -> hold s f -> 0 < fcs (get_file s fid) ->
  Alloc.delete_piece c f o = Ok f' ->
  exists s', delete_piece c fid o s = Ok s' /\ hold s' f' /\ frame s s' /\ good f'.
Proof.
  intros Hg Hh Hcs Hp. unfold Alloc.delete_piece, read_size in Hp. unfold delete_piece.
  destruct (slots f !! o) as [sl|] eqn:Hs; cbn [rbind] in Hp; [|discriminate Hp].
  destruct (read_piece_size_image f s o sl Hg Hh Hs) as (s2 & Hr2 & Hl2).
  unfold seek_from_start in *. cbn [rbind] in *. rewrite Hr2. cbn [rbind].
  pose proof (looked_hold _ _ _ Hl2 Hh) as Hh2.
  assert (Hcs2 : 0 < fcs (get_file s2 fid)) by (rewrite (proj1 (looked_frame _ _ Hl2)); exact Hcs).
  destruct (push_free_image f s2 o _ sl f' Hg Hh2 Hcs2 Hs eq_refl Hp) as (s3 & Hr & Hh3 & Hfr3 & Hg3).
  exists s3. split; [exact Hr|]. split; [exact Hh3|]. split; [|exact Hg3].
  eapply frame_trans; [apply looked_frame; exact Hl2|exact Hfr3].
Qed.

End pieces.

(** ** 11. the record writers of the value file and of the key file *)
Lemma vcfg_ok : Sizing.cfg_ok val_cfg.
Proof. right. reflexivity. Qed.
Lemma kcfg_ok : Sizing.cfg_ok key_cfg.
Proof. left. reflexivity. Qed.

Lemma vfree_image sz nxt : vslot_bytes (Free sz nxt) = slot_bytes sz (free_body nxt).
Proof. reflexivity. Qed.
Lemma kfree_image sz nxt : kslot_bytes (Free sz nxt) = slot_bytes sz (free_body nxt).
Proof. reflexivity. Qed.
Lemma vused_image sz (v : bytes) : exists bd, vslot_bytes (Used sz v) = slot_bytes sz bd.
Proof. eexists. reflexivity. Qed.
Lemma kused_image sz (r : krec) : exists bd, kslot_bytes (Used sz r) = slot_bytes sz bd.
Proof. eexists. reflexivity. Qed.

(** [val_write_one v off size] writes exactly the slot image [slot_bytes size (val_body v)] at [off]
    (whether or not the record fits: the zero fill is skipped, and [slot_bytes] has no padding, when
    it does not) *)
Theorem val_write_one_spec v off size s :
  off <= fend (get_file s FVal) -> 0 < fcs (get_file s FVal) -> valid_slot_size val_cfg size ->
  exists s', val_write_one v off size s = Ok s' /\ wcur FVal s s' off (vslot_bytes (Used size v)).
Proof.
  intros Hin Hcs Hv. destruct (valid_slot_size_facts val_cfg vcfg_ok _ Hv) as [H16 H8].
  unfold val_write_one. destruct (N.eqb_spec size 0); [lia|].
  unfold seek_from_start. cbn [rbind].
  pose proof (wcur_seek s off Hin) as Hw0.
  destruct (wcur_size _ _ _ _ size Hw0 Hcs H8) as (s2 & -> & Hw1). cbn [rbind].
  destruct (wcur_vu64 _ _ _ _ (blen v) Hw1 Hcs) as (s3 & -> & Hw2). cbn [rbind].
  destruct (wcur_all _ _ _ _ v Hw2 Hcs) as (s4 & -> & Hw3). cbn [rbind].
  destruct (wcur_zero _ _ _ _ size Hw3) as (s5 & -> & Hw4).
  exists s5. split; [reflexivity|].
  cbn [vslot_bytes]. unfold slot_bytes, val_body. cbv zeta.
  cbn [app] in Hw4. rewrite <- ?app_assoc in Hw4. rewrite <- ?app_assoc. exact Hw4.
Qed.

Theorem key_write_one_spec k voff noff off size s :
  voff mod 8 = 0 -> noff mod 8 = 0 ->
  off <= fend (get_file s FKey) -> 0 < fcs (get_file s FKey) -> valid_slot_size key_cfg size ->
  exists s', key_write_one k voff noff off size s = Ok s' /\
    wcur FKey s s' off (kslot_bytes (Used size (KRec k voff noff))).
Proof.
  intros Hvo Hno Hin Hcs Hv. destruct (valid_slot_size_facts key_cfg kcfg_ok _ Hv) as [H16 H8].
  unfold key_write_one. destruct (N.eqb_spec size 0); [lia|].
  unfold seek_from_start. cbn [rbind].
  pose proof (wcur_seek s off Hin) as Hw0.
  destruct (wcur_size _ _ _ _ size Hw0 Hcs H8) as (s2 & -> & Hw1). cbn [rbind].
  destruct (wcur_vu64 _ _ _ _ (blen k) Hw1 Hcs) as (s3 & -> & Hw2). cbn [rbind].
  destruct (wcur_all _ _ _ _ k Hw2 Hcs) as (s4 & -> & Hw3). cbn [rbind].
  destruct (wcur_poff _ _ _ _ voff Hw3 Hcs Hvo) as (s5 & -> & Hw4). cbn [rbind].
  destruct (wcur_poff _ _ _ _ noff Hw4 Hcs Hno) as (s6 & -> & Hw5). cbn [rbind].
  destruct (wcur_zero _ _ _ _ size Hw5) as (s7 & -> & Hw6).
  exists s7. split; [reflexivity|].
  cbn [kslot_bytes k_key k_voff k_next]. unfold slot_bytes, key_body. cbv zeta.
  cbn [app] in Hw6. rewrite <- ?app_assoc in Hw6. rewrite <- ?app_assoc. exact Hw6.
Qed.

Lemma vslot_fit v sz : valid_slot_size val_cfg sz -> roundup val_cfg (val_need (blen v)) <= sz ->
  blen (vslot_bytes (Used sz v)) = sz.
Proof.
  intros Hv Hle. cbn [vslot_bytes]. apply slot_bytes_length_gen. rewrite blen_val_body.
  pose proof (vfit_new v sz Hv Hle) as F. unfold vfit, val_real_len in F. lia.
Qed.

Lemma kslot_fit r sz : valid_slot_size key_cfg sz -> roundup key_cfg (krec_need r) <= sz ->
  blen (kslot_bytes (Used sz r)) = sz.
Proof.
  intros Hv Hle. cbn [kslot_bytes]. apply slot_bytes_length_gen. rewrite blen_key_body.
  pose proof (kfit_new r sz Hv Hle) as F. unfold kfit, key_real_len in F. lia.
Qed.

(** ** 12. P5 for the two files *)
Section final.
Context (sig2 : bytes) (Hsig : length sig2 = 8%nat).

Theorem val_write_piece_image f frees s v old f' off sz :
  alloc_inv val_cfg f frees -> lens vslot_bytes f ->
  hold val_cfg vslot_bytes sig2 FVal s f -> 0 < fcs (get_file s FVal) ->
  Alloc.fend f + roundup val_cfg (val_need (blen v)) < 2 ^ 64 ->
  (forall o, old = Some o -> exists osz v0, slots f !! o = Some (Used osz v0)) ->
  Alloc.write_piece val_cfg (val_need (blen v)) f old v = Ok (f', off, sz) ->
  exists s', val_write_piece v old s = Ok (off, sz, s') /\
    hold val_cfg vslot_bytes sig2 FVal s' f' /\ frame FVal s s' /\ good val_cfg vslot_bytes f'.
Proof.
  intros. unfold val_write_piece.
  apply (write_piece_image val_cfg vcfg_ok vslot_bytes sig2 Hsig FVal vfree_image vused_image
           (val_need (blen v)) v (val_write_one v) (val_need_pos _) (vslot_fit v) (val_write_one_spec v)
           f frees); assumption.
Qed.

Theorem key_write_piece_image f frees s k voff noff old f' off sz :
  voff mod 8 = 0 -> noff mod 8 = 0 ->
  alloc_inv key_cfg f frees -> lens kslot_bytes f ->
  hold key_cfg kslot_bytes sig2 FKey s f -> 0 < fcs (get_file s FKey) ->
  Alloc.fend f + roundup key_cfg (key_need (blen k) voff noff) < 2 ^ 64 ->
  (forall o, old = Some o -> exists osz r0, slots f !! o = Some (Used osz r0)) ->
  Alloc.write_piece key_cfg (key_need (blen k) voff noff) f old (KRec k voff noff) = Ok (f', off, sz) ->
  exists s', key_write_piece k voff noff old s = Ok (off, sz, s') /\
    hold key_cfg kslot_bytes sig2 FKey s' f' /\ frame FKey s s' /\ good key_cfg kslot_bytes f'.
Proof.
  intros Hvo Hno. intros. unfold key_write_piece.
  apply (write_piece_image key_cfg kcfg_ok kslot_bytes sig2 Hsig FKey kfree_image kused_image
           (key_need (blen k) voff noff) (KRec k voff noff) (key_write_one k voff noff)
           (key_need_pos _ _ _) (kslot_fit (KRec k voff noff))
           (fun off sz s => key_write_one_spec k voff noff off sz s Hvo Hno) f frees); assumption.
Qed.

Theorem val_delete_piece_image f s o f' :
  good val_cfg vslot_bytes f -> hold val_cfg vslot_bytes sig2 FVal s f -> 0 < fcs (get_file s FVal) ->
  Alloc.delete_piece val_cfg f o = Ok f' ->
  exists s', delete_piece val_cfg FVal o s = Ok s' /\
    hold val_cfg vslot_bytes sig2 FVal s' f' /\ frame FVal s s' /\ good val_cfg vslot_bytes f'.
Proof. apply (delete_piece_image val_cfg vcfg_ok vslot_bytes sig2 Hsig FVal vfree_image vused_image). Qed.

Theorem key_delete_piece_image f s o f' :
  good key_cfg kslot_bytes f -> hold key_cfg kslot_bytes sig2 FKey s f -> 0 < fcs (get_file s FKey) ->
  Alloc.delete_piece key_cfg f o = Ok f' ->
  exists s', delete_piece key_cfg FKey o s = Ok s' /\
    hold key_cfg kslot_bytes sig2 FKey s' f' /\ frame FKey s s' /\ good key_cfg kslot_bytes f'.
Proof. apply (delete_piece_image key_cfg kcfg_ok kslot_bytes sig2 Hsig FKey kfree_image kused_image). Qed.

End final.

Print Assumptions render_set_slot.
Print Assumptions render_set_head.
Print Assumptions render_append.
Print Assumptions render_set_slot_inv.
Print Assumptions render_set_head_inv.
Print Assumptions render_append_inv.
Print Assumptions read_free_on_header_image.
Print Assumptions write_free_on_header_image.
Print Assumptions read_piece_size_image.
Print Assumptions read_free_piece_size_next_image.
Print Assumptions write_piece_clear_image.
Print Assumptions push_free_image.
Print Assumptions pop_free_image.
Print Assumptions add_new_image.
Print Assumptions write_piece_image.
Print Assumptions delete_piece_image.
Print Assumptions val_write_one_spec.
Print Assumptions key_write_one_spec.
Print Assumptions val_write_piece_image.
Print Assumptions key_write_piece_image.
Print Assumptions val_delete_piece_image.
Print Assumptions key_delete_piece_image.
