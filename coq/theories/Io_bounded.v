(** * Io_bounded: the bound of C06 at byte level.

    [Bounded.C06_file_size_bounded] bounds the record-level file ends of the key and value files
    by the peak live set; [Durable.render_lens] says the byte images have exactly those lengths;
    [Io_proofs.Io_histories] says the flat files of the byte-level I/O model are those images after
    any history.  Together: the LENGTHS OF THE FILES the map layer's I/O produces are bounded by a
    function of the peak number of live entries and the size limit, however long the history. *)
From Coq Require Import Lia ZifyN ZifyNat ZifyBool.
From Aby Require Import Base Vu64 Hash KeyTypes Consts Sizing Alloc AllocInv Htx Store Iter Stats Layout Load Spec Refine Refine_all
  Load_all Bounded Durable Cache Io Io_base Io_htx Io_run Io_proofs.
Import Io.
#[local] Open Scope N_scope.

Theorem byte_level_file_size_bounded s sp m ops s' outs P L :
  wf_state s -> represents s sp -> simg s m -> Forall (op_wf (kt s)) ops -> sized s ops ->
  store_run s ops = Ok (s', outs) ->
  (peak_live sp ops <= P)%nat ->
  (forall k v, sp !! k = Some v -> blen k < L) -> Forall (op_short L) ops ->
  exists m', io_run m ops = Ok (m', outs) /\
    Io.fend (s_key (m_st m')) <= bound (Io.fend (s_key (m_st m))) P L /\
    Io.fend (s_val (m_st m')) <= bound (Io.fend (s_val (m_st m))) P L.
Proof.
  intros Hwf HR Hsim Hops Hsz Hrun Hpk Hk Hsh.
  destruct (Io_histories ops s sp m s' outs Hwf HR Hsim Hops Hsz Hrun) as (m' & Hio & Hsim' & Hwf' & _ & _).
  exists m'. split; [exact Hio|].
  destruct Hsim as (Hr & _). destruct Hsim' as (Hr' & _).
  unfold Io.images in Hr, Hr'.
  destruct (render_lens s _ _ _ Hwf Hr) as (_ & Lk & Lv).
  destruct (render_lens s' _ _ _ Hwf' Hr') as (_ & Lk' & Lv').
  destruct (C06_file_size_bounded s sp ops s' outs P L (proj1 Hwf) HR Hops Hrun Hpk Hk Hsh) as [Bk Bv].
  unfold Io.fend. rewrite Lk, Lv, Lk', Lv'. split; assumption.
Qed.

Print Assumptions byte_level_file_size_bounded.
