(** * Open_proofs: what the header checks of [open_with_params] accept and refuse.

    - the files of a map are accepted when opened with the type they were created with
      ([open_same_type]);
    - they are refused with any type of a different signature ([open_wrong_type]); the u64 and
      vu64 key types share one signature, so that pair IS accepted ([open_known_pair_accepted],
      finding D6);
    - every single-byte change of the 16 signature bytes of any of the three files is refused
      ([open_mutated]), and so is a file taken from a map of another signature
      ([open_foreign_file]);
    - the test [Db.open_map] makes on the model level is the byte-level check
      ([open_map_agrees]).

    [open_files] is a pure function of the three images and returns a verdict only: the reject
    path performs no write in the model, by construction (nothing to prove). *)
From Coq Require Import Lia ZifyN ZifyNat ZifyBool.
From Aby Require Import Base Vu64 Vu64_proofs Consts KeyTypes KeyTypes_proofs Sizing Alloc Htx
  Store Layout Open Refine.

(** ** 1. lengths of the signatures (by computation over the regenerated constants) *)

Lemma sig_of_length t : length (sig_of t) = 8%nat.
Proof. destruct t; reflexivity. Qed.

Lemma sig1_length c : cfg_ok c -> length (sig1 c) = 8%nat.
Proof. intros [-> | ->]; reflexivity. Qed.

Lemma sig1_key_length : length (sig1 key_cfg) = 8%nat.
Proof. reflexivity. Qed.

Lemma sig1_val_length : length (sig1 val_cfg) = 8%nat.
Proof. reflexivity. Qed.

Lemma htx_signature_length : length htx_signature = 8%nat.
Proof. reflexivity. Qed.

Lemma zeros8_length : length (zeros 8) = 8%nat.
Proof. reflexivity. Qed.

Lemma le_decode_zeros8 : le_decode (zeros 8) = 0.
Proof. reflexivity. Qed.

(** ** 2. the type signatures are pairwise distinct, except the known pair (finding D6) *)

(** KNOWN FINDING D6: [DbU64] and [DbVu64] have the same type signature "u64_le\0\0".  The day
    the crate gives them different signatures this lemma stops compiling: intended. *)
Theorem known13_same_signature : sig_of KU64 = sig_of KVu64.
Proof. reflexivity. Qed.

Theorem sig_distinct : forall a b, a <> b -> ~ Known13 a b -> sig_of a <> sig_of b.
Proof.
  intros a b Hne Hk.
  destruct a, b; try congruence; try (vm_compute; discriminate);
    exfalso; apply Hk; unfold Known13; auto.
Qed.

(** ** helpers on [bytes_eqb] and list update *)

Lemma bytes_eqb_neq a b : a <> b -> bytes_eqb a b = false.
Proof.
  intros Hne. destruct (bytes_eqb a b) eqn:E; [|reflexivity].
  apply bytes_eqb_eq in E. contradiction.
Qed.

Lemma insert_neq (l : bytes) i x : (i < length l)%nat -> l !! i <> Some x -> <[i:=x]> l <> l.
Proof.
  intros Hi Hne Heq. apply Hne. rewrite <- Heq. apply list_lookup_insert. exact Hi.
Qed.

(** ** the first 24 bytes of an image seen as three 8-byte fields *)

Definition hdr (img a b c : bytes) : Prop :=
  length a = 8%nat /\ length b = 8%nat /\ length c = 8%nat /\ exists r, img = a ++ b ++ c ++ r.

Lemma hdr_fields img a b c :
  hdr img a b c ->
  take 8 img = a /\ take 8 (drop 8 img) = b /\ take 8 (drop 16 img) = c /\ (24 <= length img)%nat.
Proof.
  intros (Ha & Hb & Hc & r & ->).
  split; [|split; [|split]].
  - apply take_app_alt. now rewrite Ha.
  - rewrite drop_app_alt by now rewrite Ha. apply take_app_alt. now rewrite Hb.
  - rewrite (app_assoc a b). rewrite drop_app_alt by (rewrite app_length, Ha, Hb; reflexivity).
    apply take_app_alt. now rewrite Hc.
  - rewrite !app_length. lia.
Qed.

Lemma check_pheader_hdr cfg sig2 img a b c :
  hdr img a b c ->
  check_pheader cfg sig2 img =
    if negb (bytes_eqb a (sig1 cfg)) then Rejected else
    if negb (bytes_eqb b sig2) then Rejected else
    if negb (le_decode c =? 0) then Rejected else Accepted.
Proof.
  intros H. destruct (hdr_fields _ _ _ _ H) as (H1 & H2 & H3 & Hl).
  unfold check_pheader. rewrite H1, H2, H3.
  destruct (Nat.eqb_spec (length img) 0) as [He|He]; [lia|].
  destruct (Nat.ltb_spec (length img) 24) as [Hlt|Hge]; [lia|]. reflexivity.
Qed.

Lemma check_hheader_hdr sig2 img a b c :
  hdr img a b c ->
  check_hheader sig2 img =
    if negb (bytes_eqb a htx_signature) then Rejected else
    if negb (bytes_eqb b sig2) then Rejected else
    if le_decode c =? 0 then Rejected else Accepted.
Proof.
  intros H. destruct (hdr_fields _ _ _ _ H) as (H1 & H2 & H3 & Hl).
  unfold check_hheader. rewrite H1, H2, H3.
  destruct (Nat.eqb_spec (length img) 0) as [He|He]; [lia|].
  destruct (Nat.ltb_spec (length img) 24) as [Hlt|Hge]; [lia|]. reflexivity.
Qed.

(** one of the first 16 bytes overwritten: the byte lies in the first or in the second field *)
Lemma hdr_insert img a b c i x :
  hdr img a b c -> (i < 16)%nat ->
  ((i < 8)%nat /\ img !! i = a !! i /\ hdr (<[i:=x]> img) (<[i:=x]> a) b c) \/
  ((8 <= i)%nat /\ img !! i = b !! (i - 8)%nat /\ hdr (<[i:=x]> img) a (<[(i - 8)%nat:=x]> b) c).
Proof.
  intros (Ha & Hb & Hc & r & ->) Hi. unfold hdr, bytes in *.
  destruct (Nat.lt_ge_cases i 8) as [Hlt|Hge].
  - left. split; [exact Hlt|]. split.
    + apply lookup_app_l. lia.
    + rewrite insert_length. split; [exact Ha|]. split; [exact Hb|]. split; [exact Hc|].
      exists r. apply insert_app_l. lia.
  - right. split; [exact Hge|]. split.
    + rewrite lookup_app_r by lia. rewrite Ha. apply lookup_app_l. lia.
    + rewrite insert_length. split; [exact Ha|]. split; [exact Hb|]. split; [exact Hc|].
      exists r. rewrite insert_app_r_alt by lia. rewrite Ha. f_equal.
      apply insert_app_l. lia.
Qed.

Lemma check_pheader_mutated cfg sig2 img c i x :
  hdr img (sig1 cfg) sig2 c -> (i < 16)%nat -> img !! i <> Some x ->
  check_pheader cfg sig2 (<[i:=x]> img) = Rejected.
Proof.
  intros H Hi Hne.
  pose proof H as (Ha & Hb & _).
  destruct (hdr_insert _ _ _ _ i x H Hi) as [(Hlt & Hlk & H')|(Hge & Hlk & H')];
    rewrite (check_pheader_hdr _ _ _ _ _ _ H'); rewrite Hlk in Hne.
  - rewrite bytes_eqb_neq by (apply insert_neq; [lia|exact Hne]). reflexivity.
  - rewrite bytes_eqb_refl. cbn [negb].
    rewrite bytes_eqb_neq by (apply insert_neq; [lia|exact Hne]). reflexivity.
Qed.

Lemma check_hheader_mutated sig2 img c i x :
  hdr img htx_signature sig2 c -> (i < 16)%nat -> img !! i <> Some x ->
  check_hheader sig2 (<[i:=x]> img) = Rejected.
Proof.
  intros H Hi Hne.
  pose proof H as (Ha & Hb & _).
  destruct (hdr_insert _ _ _ _ i x H Hi) as [(Hlt & Hlk & H')|(Hge & Hlk & H')];
    rewrite (check_hheader_hdr _ _ _ _ _ H'); rewrite Hlk in Hne.
  - rewrite bytes_eqb_neq by (apply insert_neq; [lia|exact Hne]). reflexivity.
  - rewrite bytes_eqb_refl. cbn [negb].
    rewrite bytes_eqb_neq by (apply insert_neq; [lia|exact Hne]). reflexivity.
Qed.

(** ** 3. the first 24 bytes of the rendered files *)

Lemma render_pheader_split c sig2 hd :
  cfg_ok c -> exists r, render_pheader c sig2 hd = sig1 c ++ sig2 ++ zeros 8 ++ r.
Proof.
  intros [-> | ->]; unfold render_pheader.
  - replace (zeros (List.hd 0 (free_off key_cfg) - 16))
      with (zeros 8 ++ zeros (List.hd 0 (free_off key_cfg) - 24)) by (vm_compute; reflexivity).
    rewrite <- (app_assoc (zeros 8)). eexists. reflexivity.
  - replace (zeros (List.hd 0 (free_off val_cfg) - 16))
      with (zeros 8 ++ zeros (List.hd 0 (free_off val_cfg) - 24)) by (vm_compute; reflexivity).
    rewrite <- (app_assoc (zeros 8)). eexists. reflexivity.
Qed.

Lemma hdr_pheader c sig2 hd rest :
  cfg_ok c -> length sig2 = 8%nat -> hdr (render_pheader c sig2 hd ++ rest) (sig1 c) sig2 (zeros 8).
Proof.
  intros Hc Hs. destruct (render_pheader_split c sig2 hd Hc) as [r ->].
  unfold hdr. split; [now apply sig1_length|]. split; [exact Hs|]. split; [reflexivity|].
  exists (r ++ rest). now rewrite <- !app_assoc.
Qed.

Lemma hdr_htx sig2 h :
  length sig2 = 8%nat -> hdr (render_htx sig2 h) htx_signature sig2 (le_bytes 8 (nb h)).
Proof.
  intros Hs. unfold hdr, render_htx.
  split; [reflexivity|]. split; [exact Hs|]. split; [apply le_bytes_length|].
  eexists. reflexivity.
Qed.

Lemma hdr_take24 img a b c : hdr img a b c -> take 24 img = a ++ b ++ c /\ (24 <= length img)%nat.
Proof.
  intros H. split; [|apply (hdr_fields _ _ _ _ H)].
  destruct H as (Ha & Hb & Hc & r & ->).
  replace (a ++ b ++ c ++ r) with ((a ++ b ++ c) ++ r) by now rewrite <- !app_assoc.
  apply take_app_alt. rewrite !app_length, Ha, Hb, Hc. reflexivity.
Qed.

Lemma render_pheader_prefix c sig2 hd :
  cfg_ok c -> length sig2 = 8%nat ->
  take 24 (render_pheader c sig2 hd) = sig1 c ++ sig2 ++ zeros 8 /\
  (24 <= length (render_pheader c sig2 hd))%nat.
Proof.
  intros Hc Hs. apply hdr_take24.
  rewrite <- (app_nil_r (render_pheader c sig2 hd)). now apply hdr_pheader.
Qed.

Lemma render_htx_prefix sig2 h :
  length sig2 = 8%nat ->
  take 24 (render_htx sig2 h) = htx_signature ++ sig2 ++ le_bytes 8 (nb h).
Proof. intros Hs. apply hdr_take24. now apply hdr_htx. Qed.

Lemma render_htx_length sig2 h : length sig2 = 8%nat -> (24 <= length (render_htx sig2 h))%nat.
Proof. intros Hs. apply (hdr_take24 _ _ _ _ (hdr_htx sig2 h Hs)). Qed.

(** the shape of [render]'s result *)
Lemma render_inv s imgs :
  render s = Ok imgs ->
  exists rk rv,
    imgs = (render_htx (sig_of (kt s)) (hx s),
            render_pheader key_cfg (sig_of (kt s)) (heads (keyf s)) ++ rk,
            render_pheader val_cfg (sig_of (kt s)) (heads (valf s)) ++ rv).
Proof.
  unfold render, render_pfile. intros H.
  destruct (all_slots key_cfg (keyf s)) as [lk| | |]; cbn [rbind] in H; try discriminate H.
  destruct (all_slots val_cfg (valf s)) as [lv| | |]; cbn [rbind] in H; try discriminate H.
  injection H as <-. eexists _, _. reflexivity.
Qed.

(** ** per-file verdicts on rendered files *)

Lemma key_cfg_ok : cfg_ok key_cfg. Proof. now left. Qed.
Lemma val_cfg_ok : cfg_ok val_cfg. Proof. now right. Qed.

(** a rendered key or value file of signature [sg], checked against signature [sg'] *)
Lemma check_pheader_rendered c sg sg' hd rest :
  cfg_ok c -> length sg = 8%nat ->
  check_pheader c sg' (render_pheader c sg hd ++ rest) =
    if bytes_eqb sg sg' then Accepted else Rejected.
Proof.
  intros Hc Hs. rewrite (check_pheader_hdr _ _ _ _ _ _ (hdr_pheader c sg hd rest Hc Hs)).
  rewrite bytes_eqb_refl, le_decode_zeros8. cbn [negb].
  destruct (bytes_eqb sg sg'); reflexivity.
Qed.

Lemma check_hheader_rendered sg sg' h :
  1 <= nb h < 2 ^ 64 -> length sg = 8%nat ->
  check_hheader sg' (render_htx sg h) = if bytes_eqb sg sg' then Accepted else Rejected.
Proof.
  intros [Hlo Hhi] Hs. rewrite (check_hheader_hdr _ _ _ _ _ (hdr_htx sg h Hs)).
  rewrite bytes_eqb_refl. cbn [negb].
  rewrite (le_decode_le_bytes 8 (nb h)) by exact Hhi.
  destruct (bytes_eqb sg sg'); cbn [negb]; [|reflexivity].
  destruct (N.eqb_spec (nb h) 0) as [He|He]; [lia|reflexivity].
Qed.

(** the verdict on the files of [s] opened as type [t] *)
Lemma open_files_rendered s t imgs :
  1 <= nb (hx s) < 2 ^ 64 -> render s = Ok imgs ->
  open_files t imgs = if bytes_eqb (sig_of (kt s)) (sig_of t) then Accepted else Rejected.
Proof.
  intros Hnb Hr. destruct (render_inv s imgs Hr) as (rk & rv & ->).
  unfold open_files.
  rewrite !check_pheader_rendered by (first [apply key_cfg_ok|apply val_cfg_ok|apply sig_of_length]).
  rewrite check_hheader_rendered by (first [exact Hnb|apply sig_of_length]).
  destruct (bytes_eqb (sig_of (kt s)) (sig_of t)); reflexivity.
Qed.

(** ** 4. same type: accepted *)

Theorem open_same_type s imgs :
  1 <= nb (hx s) < 2 ^ 64 -> render s = Ok imgs -> open_files (kt s) imgs = Accepted.
Proof.
  intros Hnb Hr. rewrite (open_files_rendered s (kt s) imgs Hnb Hr).
  now rewrite bytes_eqb_refl.
Qed.

(** the lower bound is part of the invariant of a map *)
Corollary open_same_type_inv s imgs :
  Inv s -> nb (hx s) < 2 ^ 64 -> render s = Ok imgs -> open_files (kt s) imgs = Accepted.
Proof.
  intros (ch & Hcore & _) Hhi Hr. apply open_same_type; [|exact Hr].
  split; [exact (co_n _ _ _ Hcore)|exact Hhi].
Qed.

(** ** 5. another type signature: rejected; the known pair: accepted *)

Theorem open_wrong_type s t imgs :
  1 <= nb (hx s) < 2 ^ 64 -> render s = Ok imgs -> sig_of t <> sig_of (kt s) ->
  open_files t imgs = Rejected.
Proof.
  intros Hnb Hr Hne. rewrite (open_files_rendered s t imgs Hnb Hr).
  rewrite bytes_eqb_neq by (intros E; apply Hne; now rewrite E). reflexivity.
Qed.

Corollary open_wrong_type_distinct s t imgs :
  1 <= nb (hx s) < 2 ^ 64 -> render s = Ok imgs -> t <> kt s -> ~ Known13 t (kt s) ->
  open_files t imgs = Rejected.
Proof.
  intros Hnb Hr Hne Hk. apply (open_wrong_type s t imgs Hnb Hr). now apply sig_distinct.
Qed.

(** KNOWN FINDING D6: the files of a u64 map open as a vu64 map and conversely *)
Theorem open_known_pair_accepted s t imgs :
  1 <= nb (hx s) < 2 ^ 64 -> render s = Ok imgs -> Known13 t (kt s) ->
  open_files t imgs = Accepted.
Proof.
  intros Hnb Hr Hk. rewrite (open_files_rendered s t imgs Hnb Hr).
  assert (sig_of (kt s) = sig_of t) as ->.
  { destruct Hk as [[-> ->]|[-> ->]]; [symmetry|]; exact known13_same_signature. }
  now rewrite bytes_eqb_refl.
Qed.

Corollary open_u64_as_vu64_accepted s imgs :
  1 <= nb (hx s) < 2 ^ 64 -> render s = Ok imgs -> kt s = KU64 -> open_files KVu64 imgs = Accepted.
Proof.
  intros Hnb Hr Hk. apply (open_known_pair_accepted s KVu64 imgs Hnb Hr).
  right. split; [reflexivity|exact Hk].
Qed.

Corollary open_vu64_as_u64_accepted s imgs :
  1 <= nb (hx s) < 2 ^ 64 -> render s = Ok imgs -> kt s = KVu64 -> open_files KU64 imgs = Accepted.
Proof.
  intros Hnb Hr Hk. apply (open_known_pair_accepted s KU64 imgs Hnb Hr).
  left. split; [reflexivity|exact Hk].
Qed.

(** ** 6. every single-byte change of the 16 signature bytes of any file: rejected
    (for every value [b] of the new byte, also the ill-formed [b >= 256]) *)

Theorem open_mutated s imgs f i b :
  1 <= nb (hx s) < 2 ^ 64 -> render s = Ok imgs -> (i < 16)%nat ->
  get_file f imgs !! i <> Some b ->
  open_files (kt s) (mutate f i b imgs) = Rejected.
Proof.
  intros Hnb Hr Hi Hne. destruct (render_inv s imgs Hr) as (rk & rv & ->).
  pose proof (sig_of_length (kt s)) as Hs.
  destruct f; unfold mutate, get_file, set_file, open_files in *.
  - (* table file: the key file and the value file pass, the table file does not *)
    rewrite !check_pheader_rendered by (first [apply key_cfg_ok|apply val_cfg_ok|exact Hs]).
    rewrite bytes_eqb_refl.
    apply (check_hheader_mutated _ _ _ _ _ (hdr_htx _ _ Hs) Hi Hne).
  - (* key file *)
    rewrite (check_pheader_mutated _ _ _ _ _ _ (hdr_pheader _ _ _ _ key_cfg_ok Hs) Hi Hne).
    reflexivity.
  - (* value file: the key file passes *)
    rewrite check_pheader_rendered by (first [apply key_cfg_ok|exact Hs]).
    rewrite bytes_eqb_refl.
    rewrite (check_pheader_mutated _ _ _ _ _ _ (hdr_pheader _ _ _ _ val_cfg_ok Hs) Hi Hne).
    reflexivity.
Qed.

(** ** 7. one file replaced by the file of a map of another type signature: rejected *)

Theorem open_foreign_file_strong s s0 imgs imgs0 f :
  1 <= nb (hx s) < 2 ^ 64 ->
  render s = Ok imgs -> render s0 = Ok imgs0 -> sig_of (kt s0) <> sig_of (kt s) ->
  open_files (kt s) (set_file f (get_file f imgs0) imgs) = Rejected.
Proof.
  intros Hnb Hr Hr0 Hne.
  destruct (render_inv s imgs Hr) as (rk & rv & ->).
  destruct (render_inv s0 imgs0 Hr0) as (rk0 & rv0 & ->).
  pose proof (sig_of_length (kt s)) as Hs. pose proof (sig_of_length (kt s0)) as Hs0.
  pose proof (bytes_eqb_neq _ _ Hne) as Hb.
  destruct f; unfold get_file, set_file, open_files.
  - rewrite !check_pheader_rendered by (first [apply key_cfg_ok|apply val_cfg_ok|exact Hs]).
    rewrite bytes_eqb_refl.
    rewrite (check_hheader_hdr _ _ _ _ _ (hdr_htx _ (hx s0) Hs0)).
    rewrite bytes_eqb_refl, Hb. reflexivity.
  - rewrite check_pheader_rendered by (first [apply key_cfg_ok|exact Hs0]).
    rewrite Hb. reflexivity.
  - rewrite !check_pheader_rendered by (first [apply key_cfg_ok|apply val_cfg_ok|exact Hs|exact Hs0]).
    rewrite bytes_eqb_refl, Hb. reflexivity.
Qed.

Theorem open_foreign_file s s0 imgs imgs0 f :
  1 <= nb (hx s) < 2 ^ 64 -> 1 <= nb (hx s0) < 2 ^ 64 ->
  render s = Ok imgs -> render s0 = Ok imgs0 -> sig_of (kt s0) <> sig_of (kt s) ->
  open_files (kt s) (set_file f (get_file f imgs0) imgs) = Rejected.
Proof. intros Hnb _. now apply open_foreign_file_strong. Qed.

(** ** 8. the test of [Db.open_map] is the byte-level check *)

Theorem open_map_agrees s t imgs :
  1 <= nb (hx s) < 2 ^ 64 -> render s = Ok imgs ->
  (bytes_eqb (sig_of (kt s)) (sig_of t) = true <-> open_files t imgs = Accepted).
Proof.
  intros Hnb Hr. rewrite (open_files_rendered s t imgs Hnb Hr).
  destruct (bytes_eqb (sig_of (kt s)) (sig_of t)); split; intros H; try reflexivity; discriminate H.
Qed.

(** ** 9. no write on the reject path: [open_files : ktype -> bytes * bytes * bytes -> open_result]
    is a pure function of the images and returns a verdict only, so no path of it writes
    anything in the model, by construction. *)

(** ** 10. the statements are not vacuous: concrete maps *)

Definition opens (s : store) : res (list open_result) :=
  let* imgs := render s in Ok (map (fun t => open_files t imgs) all_ktypes).

Example open_bytes_map :
  opens (create KBytes 4) = Ok [Rejected; Accepted; Rejected; Rejected; Rejected].
Proof. vm_compute. reflexivity. Qed.

(** finding D6 on a concrete map: a u64 map opens as u64 AND as vu64 *)
Example open_u64_map :
  opens (create KU64 1) = Ok [Rejected; Rejected; Rejected; Accepted; Accepted].
Proof. vm_compute. reflexivity. Qed.

Example open_bytes_map_hyps :
  1 <= nb (hx (create KBytes 4)) < 2 ^ 64 /\ is_ok (render (create KBytes 4)) = true.
Proof. vm_compute. split; [split; [discriminate|reflexivity]|reflexivity]. Qed.

(** bytes 0..15 of each file, and byte 16 (bucket count / reserve0) for comparison *)
Example open_mutated_example :
  (let* imgs := render (create KBytes 4) in
   Ok (map (fun f => map (fun i => open_files KBytes (mutate f i 255 imgs)) (seq 0 17))
           [FHtxF; FKeyF; FValF]))
  = Ok [repeat Rejected 16 ++ [Accepted]; repeat Rejected 17; repeat Rejected 17].
Proof. vm_compute. reflexivity. Qed.

Example open_fresh_short :
  open_files KBytes ([], [], []) = Fresh /\
  (let* imgs := render (create KBytes 4) in
   Ok (open_files KBytes (set_file FValF (take 23 (get_file FValF imgs)) imgs))) = Ok ShortRead.
Proof. vm_compute. split; reflexivity. Qed.

Print Assumptions sig_distinct.
Print Assumptions known13_same_signature.
Print Assumptions open_same_type.
Print Assumptions open_wrong_type.
Print Assumptions open_wrong_type_distinct.
Print Assumptions open_known_pair_accepted.
Print Assumptions open_mutated.
Print Assumptions open_foreign_file.
Print Assumptions open_map_agrees.
