(** * Io_base: toolkit for proofs about the byte-level I/O model [Io], and the field level.

    0. toolkit: the flat file under the primitives (frame facts [upd_file], the bytes at the
       position [view], the events a step [appended]; [write_all] is one splice whatever the
       chunk size);
    a. field level: a [u64] / [vu64] field written at a position is read back from that position;
       [read_vu64] on [encode v ++ rest] returns [v] and advances by [enc_len v]. *)
From Coq Require Import Lia ZifyN ZifyNat ZifyBool.
From Aby Require Import Base Vu64 Vu64_proofs Hash KeyTypes Consts Sizing Alloc Htx Htx_proofs Store Stats
  Layout Load Load_htx_proofs Cache Cache_proofs Io.
Import Io.

#[local] Open Scope N_scope.

(** ** 0. toolkit *)

Definition fid_eq_dec (a b : fid) : {a = b} + {a <> b}.
Proof. decide equality. Defined.

Lemma get_set_same s f x : get_file (set_file s f x) f = x.
Proof. destruct f; reflexivity. Qed.
Lemma get_set_other s f g x : f <> g -> get_file (set_file s f x) g = get_file s g.
Proof. destruct f, g; try congruence; reflexivity. Qed.
Lemma get_emit s e f : get_file (emit s e) f = get_file s f.
Proof. destruct f; reflexivity. Qed.
Lemma log_emit s e : s_log (emit s e) = e :: s_log s.
Proof. reflexivity. Qed.
Lemma log_set_file s f x : s_log (set_file s f x) = s_log s.
Proof. destruct f; reflexivity. Qed.

(** the bytes from the position on *)
Definition view (s : st) (f : fid) : bytes := at_off (fb (get_file s f)) (fp (get_file s f)).

Lemma at_off_sub (l : bytes) off n : sub l off n = take (N.to_nat n) (at_off l off).
Proof. reflexivity. Qed.

Lemma take_blen_app (d rest : bytes) : take (N.to_nat (blen d)) (d ++ rest) = d.
Proof. unfold blen. rewrite Nat2N.id. apply take_app. Qed.
Lemma drop_blen_app (d rest : bytes) : drop (N.to_nat (blen d)) (d ++ rest) = rest.
Proof. unfold blen. rewrite Nat2N.id. apply drop_app. Qed.

Lemma at_off_add (l : bytes) a b : at_off l (a + b) = at_off (at_off l a) b.
Proof. unfold at_off. rewrite drop_drop. f_equal. lia. Qed.

Lemma read_raw_view x (d rest : bytes) :
  at_off (fb x) (fp x) = d ++ rest -> read_raw x (blen d) = d.
Proof.
  intros H. unfold read_raw. rewrite at_off_sub, H, take_blen_app.
  replace (blen d - blen d) with 0 by lia. apply app_nil_r.
Qed.

(** *** the events a step appended *)
Definition appended (s s' : st) (evs : list ev) : Prop := s_log s' = evs ++ s_log s.

Lemma appended_refl s : appended s s [].
Proof. reflexivity. Qed.
Lemma appended_trans s1 s2 s3 e1 e2 : appended s1 s2 e1 -> appended s2 s3 e2 -> appended s1 s3 (e2 ++ e1).
Proof. unfold appended. intros H1 H2. rewrite H2, H1, app_assoc. reflexivity. Qed.

(** *** read: the bytes at the position *)
Lemma read_n_view f s (d rest : bytes) :
  view s f = d ++ rest ->
  exists s', read_n f (blen d) s = Ok (d, s') /\
    get_file s' f = File (fb (get_file s f)) (fp (get_file s f) + blen d) (fcs (get_file s f)) /\
    (forall g, g <> f -> get_file s' g = get_file s g) /\
    view s' f = rest /\
    appended s s' [EvRead f (fp (get_file s f)) (blen d)].
Proof.
  intros Hv. unfold read_n. eexists. split; [rewrite (read_raw_view _ d rest Hv); reflexivity|].
  rewrite get_emit, get_set_same. split; [reflexivity|]. split.
  - intros g Hg. rewrite get_emit, get_set_other by congruence. reflexivity.
  - split; [|unfold appended; rewrite log_emit, log_set_file; reflexivity].
    unfold view. rewrite get_emit, get_set_same. cbn [fb fp].
    rewrite at_off_add. unfold view in Hv. rewrite Hv. unfold at_off. apply drop_blen_app.
Qed.

Lemma le_decode_le_bytes8 v : v < 2 ^ 64 -> le_decode (le_bytes 8 v) = v.
Proof. intros H. apply le_decode_le_bytes. rewrite pow256_8. exact H. Qed.

Lemma blen_le_bytes n v : blen (le_bytes n v) = N.of_nat n.
Proof. unfold blen. rewrite le_bytes_length. reflexivity. Qed.

(** [read_u64] at a position holding [le_bytes 8 v] *)
Lemma read_u64_view f s v rest : v < 2 ^ 64 ->
  view s f = le_bytes 8 v ++ rest ->
  exists s', read_u64 f s = Ok (v, s') /\
    get_file s' f = File (fb (get_file s f)) (fp (get_file s f) + 8) (fcs (get_file s f)) /\
    (forall g, g <> f -> get_file s' g = get_file s g) /\
    view s' f = rest /\
    appended s s' [EvRead f (fp (get_file s f)) 8].
Proof.
  intros Hv Hview. destruct (read_n_view f s _ _ Hview) as (s' & Hr & Hf & Ho & Hv' & Ha).
  rewrite blen_le_bytes in *. change (N.of_nat 8) with 8 in *.
  exists s'. unfold read_u64, read_le. rewrite Hr. cbn [rbind]. rewrite le_decode_le_bytes8 by exact Hv.
  auto.
Qed.

(** *** what a step did to the files: file [f] now holds [b] at position [p], the others are untouched *)
Definition upd_file (s s' : st) (f : fid) (b : bytes) (p : N) : Prop :=
  get_file s' f = File b p (fcs (get_file s f)) /\ forall g, g <> f -> get_file s' g = get_file s g.

Lemma upd_file_trans s1 s2 s3 f b2 p2 b3 p3 :
  upd_file s1 s2 f b2 p2 -> upd_file s2 s3 f b3 p3 -> upd_file s1 s3 f b3 p3.
Proof.
  intros [H1 O1] [H2 O2]. split.
  - rewrite H2, H1. reflexivity.
  - intros g Hg. rewrite O2, O1 by exact Hg. reflexivity.
Qed.

Definition is_write_on (f : fid) (e : ev) : Prop := exists p l, e = EvWrite f p l.
Definition is_read_on (f : fid) (e : ev) : Prop := exists p l, e = EvRead f p l.

(** *** seek *)
Lemma seek_to_spec f t s :
  upd_file s (seek_to f t s) f (pad_to (fb (get_file s f)) t) t /\ appended s (seek_to f t s) [EvSeek f t].
Proof.
  unfold seek_to, upd_file, appended. rewrite get_emit, get_set_same, log_emit, log_set_file.
  split; [split; [reflexivity|]|reflexivity].
  intros g Hg. rewrite get_emit, get_set_other by congruence. reflexivity.
Qed.

Lemma seek_to_inside f t s : t <= fend (get_file s f) ->
  upd_file s (seek_to f t s) f (fb (get_file s f)) t.
Proof.
  intros Hle. destruct (seek_to_spec f t s) as [H _]. rewrite pad_to_le in H by exact Hle. exact H.
Qed.

Lemma view_seek_inside f t s : t <= fend (get_file s f) ->
  view (seek_to f t s) f = at_off (fb (get_file s f)) t.
Proof.
  intros Hle. destruct (seek_to_inside f t s Hle) as [H _]. unfold view. rewrite H. reflexivity.
Qed.

(** *** write *)
Lemma write_n_spec f d s :
  upd_file s (write_n f d s) f (splice (fb (get_file s f)) (fp (get_file s f)) d) (fp (get_file s f) + blen d) /\
  appended s (write_n f d s) [EvWrite f (fp (get_file s f)) (blen d)].
Proof.
  unfold write_n, upd_file, appended. rewrite get_emit, get_set_same, log_emit, log_set_file.
  split; [split; [reflexivity|]|reflexivity].
  intros g Hg. rewrite get_emit, get_set_other by congruence. reflexivity.
Qed.

Lemma to_boundary_pos cs p : 0 < cs -> 1 <= to_boundary cs p.
Proof. intros H. unfold to_boundary. pose proof (N.mod_lt p cs). lia. Qed.

(** [write_all] is one splice of the whole buffer, whatever the chunk size; it emits write events only *)
Lemma write_all_spec fuel f : forall (d : bytes) s,
  (length d < fuel)%nat -> 0 < fcs (get_file s f) -> fp (get_file s f) <= fend (get_file s f) ->
  exists s' evs, write_all fuel f d s = Ok s' /\
    upd_file s s' f (splice (fb (get_file s f)) (fp (get_file s f)) d) (fp (get_file s f) + blen d) /\
    appended s s' evs /\ Forall (is_write_on f) evs.
Proof.
  induction fuel as [|fu IH]; intros d s Hf Hcs Hp; [lia|].
  destruct d as [|b d'].
  - exists s, []. split; [reflexivity|]. split; [|split; [apply appended_refl|constructor]].
    split; [|reflexivity]. rewrite splice_nil by exact Hp. rewrite blen_nil, N.add_0_r.
    destruct (get_file s f); reflexivity.
  - set (d := b :: d') in *. cbn [write_all]. fold d.
    set (x := get_file s f) in *.
    set (k := N.to_nat (N.min (blen d) (to_boundary (fcs x) (fp x)))).
    assert (Hk1 : (1 <= k)%nat).
    { subst k. pose proof (to_boundary_pos (fcs x) (fp x) Hcs). unfold blen, d. cbn [length]. lia. }
    assert (Hk2 : (k <= length d)%nat) by (subst k; unfold blen; lia).
    destruct (write_n_spec f (take k d) s) as [[Hw Ho] Ha]. fold x in Hw, Ha.
    set (s1 := write_n f (take k d) s) in *.
    assert (Hbl : blen (take k d) = N.of_nat k) by (unfold blen; rewrite take_length; lia).
    destruct (IH (drop k d) s1) as (s' & evs & Hr & [Hu Hu'] & Ha' & Hev).
    + rewrite drop_length. lia.
    + rewrite Hw. exact Hcs.
    + rewrite Hw. unfold fend. cbn [fb fp]. rewrite blen_splice. lia.
    + exists s', (evs ++ [EvWrite f (fp x) (blen (take k d))]). split; [exact Hr|]. split; [|split].
      * split.
        -- rewrite Hu, Hw. cbn [fb fp fcs]. f_equal.
           ++ rewrite <- splice_app, take_drop. reflexivity.
           ++ rewrite <- N.add_assoc, <- blen_app, take_drop. reflexivity.
        -- intros g Hg. rewrite Hu', Ho by exact Hg. reflexivity.
      * eapply appended_trans; eassumption.
      * apply Forall_app. split; [exact Hev|]. constructor; [|constructor]. eexists _, _. reflexivity.
Qed.

Lemma write_all_bytes_spec f (d : bytes) s :
  0 < fcs (get_file s f) -> fp (get_file s f) <= fend (get_file s f) ->
  exists s' evs, write_all_bytes f d s = Ok s' /\
    upd_file s s' f (splice (fb (get_file s f)) (fp (get_file s f)) d) (fp (get_file s f) + blen d) /\
    appended s s' evs /\ Forall (is_write_on f) evs.
Proof. intros. apply write_all_spec; [lia|assumption|assumption]. Qed.

(** ** a. field level *)

(** [Vu64.decode] is "first byte, then [dec_len - 1] follow bytes, then [vu64_of_parts]" *)
Lemma decode_parts b0 (r : bytes) :
  decode (b0 :: r) =
  if Nat.ltb (length r) (N.to_nat (dec_len b0 - 1)) then None
  else match vu64_of_parts b0 (le_decode (take (N.to_nat (dec_len b0 - 1)) r)) with
       | Some v => Some (v, drop (N.to_nat (dec_len b0 - 1)) r)
       | None => None
       end.
Proof.
  unfold decode, vu64_of_parts. destruct (Nat.ltb _ _); [reflexivity|].
  match goal with |- (if ?c then _ else _) = _ => destruct c end; reflexivity.
Qed.

Lemma dec_len_lt128 b0 : b0 < 128 -> dec_len b0 = 1.
Proof. intros H. unfold dec_len. destruct (N.ltb_spec b0 128); [reflexivity|lia]. Qed.
Lemma dec_len_ge128 b0 : 128 <= b0 -> 2 <= dec_len b0.
Proof.
  intros H. unfold dec_len.
  repeat match goal with |- context [?a <? ?b] => destruct (N.ltb_spec a b) end; lia.
Qed.

(** [read_and_decode_vu64] on [encode v ++ rest] returns [v] and advances by [enc_len v] *)
Theorem read_vu64_view f s v rest : v < 2 ^ 64 ->
  view s f = encode v ++ rest ->
  exists s' evs, read_vu64 f s = Ok (v, s') /\
    upd_file s s' f (fb (get_file s f)) (fp (get_file s f) + enc_len v) /\
    view s' f = rest /\ appended s s' evs /\ Forall (is_read_on f) evs.
Proof.
  intros Hv Hview.
  pose proof (decode_encode v rest Hv) as Hdec.
  pose proof (encode_length' v) as Hlen.
  destruct (encode v ++ rest) as [|b0 r] eqn:E; [discriminate|].
  rewrite decode_parts in Hdec.
  destruct (Nat.ltb_spec (length r) (N.to_nat (dec_len b0 - 1))) as [|Hr]; [discriminate|].
  destruct (vu64_of_parts b0 (le_decode (take (N.to_nat (dec_len b0 - 1)) r))) as [v'|] eqn:Hparts; [|discriminate].
  injection Hdec as -> Hrest.
  (* total length *)
  assert (Hel : enc_len v = 1 + (dec_len b0 - 1)).
  { assert (length (encode v ++ rest) = S (length r)) as HL by (rewrite E; reflexivity).
    rewrite app_length in HL. rewrite <- Hrest, drop_length in HL. unfold blen in Hlen. lia. }
  destruct (read_n_view f s [b0] r Hview) as (s1 & Hr1 & Hf1 & Ho1 & Hv1 & Ha1).
  change (blen [b0]) with 1 in *.
  unfold read_vu64, read_le. rewrite Hr1. cbn [rbind le_decode]. rewrite N.mul_0_r, N.add_0_r.
  destruct (N.ltb_spec b0 128) as [Hb|Hb].
  - (* one byte *)
    pose proof (dec_len_lt128 b0 Hb) as HL. rewrite HL in *. cbn in Hrest.
    unfold vu64_of_parts in Hparts. rewrite HL in Hparts. cbn in Hparts. injection Hparts as <-.
    exists s1, [EvRead f (fp (get_file s f)) 1]. split; [reflexivity|]. split; [|split; [|split]].
    + split; [rewrite Hf1; f_equal; lia|exact Ho1].
    + rewrite Hv1. exact Hrest.
    + exact Ha1.
    + constructor; [|constructor]. eexists _, _. reflexivity.
  - (* first byte and follow bytes *)
    set (fl := dec_len b0 - 1) in *.
    assert (Hsplit : view s1 f = take (N.to_nat fl) r ++ rest) by (rewrite Hv1, <- Hrest; symmetry; apply take_drop).
    assert (Hbl : blen (take (N.to_nat fl) r) = fl) by (unfold blen; rewrite take_length; lia).
    destruct (read_n_view f s1 _ _ Hsplit) as (s2 & Hr2 & Hf2 & Ho2 & Hv2 & Ha2).
    rewrite Hbl in *. rewrite Hr2. cbn [rbind]. rewrite Hparts.
    exists s2, ([EvRead f (fp (get_file s1 f)) fl] ++ [EvRead f (fp (get_file s f)) 1]).
    split; [reflexivity|]. split; [|split; [|split]].
    + split.
      * rewrite Hf2, Hf1. cbn [fb fp fcs]. f_equal. lia.
      * intros g Hg. rewrite Ho2, Ho1 by exact Hg. reflexivity.
    + exact Hv2.
    + eapply appended_trans; eassumption.
    + repeat constructor; eexists _, _; reflexivity.
Qed.

(** the bytes at [p] after a splice at [p] *)
Lemma at_off_splice (l : bytes) p d : p <= blen l ->
  at_off (splice l p d) p = d ++ at_off l (p + blen d).
Proof.
  intros Hp. unfold splice, at_off. rewrite pad_to_le by exact Hp.
  rewrite drop_app_alt; [reflexivity|]. rewrite take_length. unfold blen in Hp. lia.
Qed.

Lemma blen_encode v : blen (encode v) = enc_len v.
Proof. apply encode_length'. Qed.

(** a [u64] field written at a position is read back from that position *)
Theorem write_read_u64 f off v s : v < 2 ^ 64 -> off <= fend (get_file s f) ->
  exists s1 s2,
    (let* (_, a) := seek_from_start f off s in write_u64 f v a) = Ok s1 /\
    (let* (_, b) := seek_from_start f off s1 in read_u64 f b) = Ok (v, s2) /\
    fb (get_file s2 f) = splice (fb (get_file s f)) off (le_bytes 8 v).
Proof.
  intros Hv Hoff. unfold seek_from_start, write_u64. cbn [rbind].
  destruct (seek_to_inside f off s Hoff) as [Hs _].
  set (a := seek_to f off s) in *.
  destruct (write_n_spec f (le_bytes 8 v) a) as [[Hw _] _]. rewrite Hs in Hw. cbn [fb fp fcs] in Hw.
  set (s1 := write_n f (le_bytes 8 v) a) in *.
  assert (Hoff1 : off <= fend (get_file s1 f)).
  { unfold fend. rewrite Hw. cbn [fb]. rewrite blen_splice. unfold fend in Hoff. lia. }
  pose proof (view_seek_inside f off s1 Hoff1) as Hview.
  rewrite Hw in Hview. cbn [fb] in Hview. rewrite at_off_splice in Hview by exact Hoff.
  destruct (read_u64_view f (seek_to f off s1) v _ Hv Hview) as (s2 & Hr & Hf2 & _).
  exists s1, s2. split; [reflexivity|]. split; [exact Hr|].
  rewrite Hf2. cbn [fb]. destruct (seek_to_inside f off s1 Hoff1) as [Hs1 _]. rewrite Hs1, Hw. reflexivity.
Qed.

(** a [vu64] field written at a position (by [write_all], in as many pieces as chunk boundaries
    require) is read back from that position *)
Theorem write_read_vu64 f off v s : v < 2 ^ 64 -> off <= fend (get_file s f) -> 0 < fcs (get_file s f) ->
  exists s1 s2,
    (let* (_, a) := seek_from_start f off s in write_vu64 f v a) = Ok s1 /\
    (let* (_, b) := seek_from_start f off s1 in read_vu64 f b) = Ok (v, s2) /\
    fb (get_file s2 f) = splice (fb (get_file s f)) off (encode v) /\
    fp (get_file s2 f) = off + enc_len v.
Proof.
  intros Hv Hoff Hcs. unfold seek_from_start, write_vu64. cbn [rbind].
  destruct (seek_to_inside f off s Hoff) as [Hs _].
  set (a := seek_to f off s) in *.
  destruct (write_all_bytes_spec f (encode v) a) as (s1 & evs & Hw1 & [Hw _] & _).
  { rewrite Hs. exact Hcs. }
  { rewrite Hs. exact Hoff. }
  rewrite Hs in Hw. cbn [fb fp fcs] in Hw. rewrite Hw1.
  assert (Hoff1 : off <= fend (get_file s1 f)).
  { unfold fend. rewrite Hw. cbn [fb]. rewrite blen_splice. unfold fend in Hoff. lia. }
  pose proof (view_seek_inside f off s1 Hoff1) as Hview.
  rewrite Hw in Hview. cbn [fb] in Hview. rewrite at_off_splice in Hview by exact Hoff.
  destruct (read_vu64_view f (seek_to f off s1) v _ Hv Hview) as (s2 & evs2 & Hr & [Hf2 _] & _).
  exists s1, s2. split; [reflexivity|]. split; [exact Hr|].
  destruct (seek_to_inside f off s1 Hoff1) as [Hs1 _].
  rewrite Hf2, Hs1, Hw. cbn [fb fp]. split; reflexivity.
Qed.
