(** * Alloc: a piece file (key file or value file) at record level, and its allocator
    (piece.rs [push/pop_free_piece_list], key.rs/val.rs [write_piece], [delete_piece]).

    A piece file is a finite map from slot offsets to slots, 16 free-list heads and the
    file length.  A slot is in use (payload [P]) or free (next-free offset).  A slot that
    was just popped from a free list is [Free sz 0]: that is byte for byte what
    [write_piece_clear] leaves behind (size field, then zeros). *)
From Aby Require Import Base Vu64 Consts Sizing.

Inductive slot (P : Type) :=
| Used (sz : N) (p : P)
| Free (sz : N) (nxt : N).
Arguments Used {P} sz p.
Arguments Free {P} sz nxt.

Definition slot_size {P} (s : slot P) : N :=
  match s with Used sz _ => sz | Free sz _ => sz end.

Record pfile (P : Type) := PFile { slots : gmap N (slot P); heads : list N; fend : N }.
Arguments PFile {P} slots heads fend.
Arguments slots {P} p.
Arguments heads {P} p.
Arguments fend {P} p.

Section alloc.
Context {P : Type}.
Variable c : pcfg.

Definition pf_create : pfile P :=
  PFile ∅ (repeat 0 (length (free_off c))) (hdr_size c).

Definition head_of (f : pfile P) (i : nat) : N := nth i (heads f) 0.

Definition set_head (f : pfile P) (i : nat) (v : N) : pfile P :=
  PFile (slots f) (<[i := v]> (heads f)) (fend f).

Definition set_slot (f : pfile P) (off : N) (s : slot P) : pfile P :=
  PFile (<[off := s]> (slots f)) (heads f) (fend f).

(** [seek_from_start(off); read_piece_size()] *)
Definition read_size (f : pfile P) (off : N) : res N :=
  match slots f !! off with
  | Some s => Ok (slot_size s)
  | None => Panic Corrupt
  end.

(** [read_free_piece_size_next] (the dev profile asserts the length field is zero) *)
Definition read_free (f : pfile P) (off : N) : res (N * N) :=
  match slots f !! off with
  | Some (Free sz nxt) => Ok (sz, nxt)
  | _ => Panic Corrupt
  end.

(** [push_free_piece_list] *)
Definition push_free (f : pfile P) (off sz : N) : res (pfile P) :=
  if off =? 0 then Ok f
  else
    let* i := class_idx c sz in
    let first := head_of f i in
    Ok (PFile (<[off := Free sz first]> (slots f)) (<[i := off]> (heads f)) (fend f)).

(** [pop_free_piece_list_large]: first fit on the shared list of slots >= the last class *)
Fixpoint pop_large (fuel : nat) (f : pfile P) (nsz : N) (i : nat) (prev curr : N)
  : res (pfile P * N * N) :=
  match fuel with
  | O => OutOfFuel
  | S fuel' =>
    if curr =? 0 then Ok (f, 0, 0)
    else
      let* (sz, nxt) := read_free f curr in
      if nsz <=? sz then
        let* f1 := (if prev =? 0 then Ok (set_head f i nxt)
              else let* (psz, _) := read_free f prev in Ok (set_slot f prev (Free psz nxt))) in
        Ok (set_slot f1 curr (Free sz 0), curr, sz)
      else pop_large fuel' f nsz i curr nxt
  end.

(** [pop_free_piece_list]: returns the new file, the offset (0: nothing suitable) and the
    real size of the slot handed out. *)
Definition pop_free (f : pfile P) (nsz : N) : res (pfile P * N * N) :=
  let* i := class_idx c nsz in
  let first := head_of f i in
  if negb (is_large c nsz) then
    if first =? 0 then Ok (f, 0, 0)
    else
      let* (sz, nxt) := read_free f first in
      Ok (PFile (<[first := Free sz 0]> (slots f)) (<[i := nxt]> (heads f)) (fend f), first, sz)
  else pop_large (S (size (slots f))) f nsz i 0 first.

(** the "add new" half of [write_piece]: re-use a free slot (keeping its real size) or
    extend the file.  Returns file, offset and slot size. *)
Definition alloc (f : pfile P) (nsz : N) (p : P) : res (pfile P * N * N) :=
  let* (f2, foff, fsz) := pop_free f nsz in
  if foff =? 0 then
    let off := fend f2 in
    Ok (PFile (<[off := Used nsz p]> (slots f2)) (heads f2) (off + nsz), off, nsz)
  else
    let sz := N.max fsz nsz in
    Ok (set_slot f2 foff (Used sz p), foff, sz).

(** [write_piece(piece, is_new)].  [old = None]: new piece.  [old = Some off]: rewrite in place
    if the rounded need fits the old slot, else free the old slot and allocate. *)
Definition write_piece (need : N) (f : pfile P) (old : option N) (p : P) : res (pfile P * N * N) :=
  if need =? 0 then Panic DebugAssert else
  let nsz := roundup c need in
  match old with
  | None => alloc f nsz p
  | Some off =>
    if off =? 0 then Panic DebugAssert else
    let* osz := read_size f off in
    if negb (valid_size c osz) then Panic DebugAssert else
    if nsz <=? osz then Ok (set_slot f off (Used osz p), off, osz)
    else
      let* f1 := push_free f off osz in
      alloc f1 nsz p
  end.

(** [delete_piece] *)
Definition delete_piece (f : pfile P) (off : N) : res (pfile P) :=
  let* osz := read_size f off in
  push_free f off osz.

(** [count_of_free_piece_list] *)
Fixpoint count_free_from (fuel : nat) (f : pfile P) (off : N) (acc : N) : res N :=
  match fuel with
  | O => OutOfFuel
  | S fuel' =>
    if off =? 0 then Ok acc
    else let* (_, nxt) := read_free f off in count_free_from fuel' f nxt (acc + 1)
  end.

Definition count_free_list (f : pfile P) (sz : N) : res N :=
  let* i := class_idx c sz in
  count_free_from (S (size (slots f))) f (head_of f i) 0.

(** [PieceOffsetIter]: the sequential slot walk (offset, slot) from the header to the end *)
Fixpoint walk_slots (fuel : nat) (f : pfile P) (off : N) : res (list (N * slot P)) :=
  match fuel with
  | O => OutOfFuel
  | S fuel' =>
    if off <? fend f then
      match slots f !! off with
      | Some s =>
        if slot_size s =? 0 then OutOfFuel   (* the real walk never advances: a hang *)
        else let* rest := walk_slots fuel' f (off + slot_size s) in Ok ((off, s) :: rest)
      | None => Panic Corrupt
      end
    else Ok []
  end.

Definition all_slots (f : pfile P) : res (list (N * slot P)) :=
  walk_slots (S (size (slots f))) f (hdr_size c).

End alloc.
