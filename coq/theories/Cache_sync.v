(** * Cache_sync: sync_all / sync_data of the buffer (the concrete counterpart of C03's "a successful
    sync asks the OS to sync each file after that file's last buffered write").

    [Rabuf.sync c all] is [flush] followed by the OS request ([EvSync all], logged newest first in
    [k_events]).  So after a successful sync: the disk holds exactly the logical file, nothing is
    dirty, and the request is the NEWEST event - every write of the flush (and every earlier write)
    comes before it. *)
From Coq Require Import Lia ZifyN ZifyNat ZifyBool.
From Aby Require Import Base Cache Cache_proofs Flatx Cache_x.
Import Rabuf.
#[local] Open Scope N_scope.

Theorem sync_durable_and_requested c f all :
  cache_invx c -> R c f ->
  exists c' older, sync c all = Ok c' /\
    k_disk c' = f_bytes f /\ R c' f /\ cache_invx c' /\
    k_events c' = EvSync all :: older /\
    (exists writes, older = writes ++ k_events c).
Proof.
  intros I HR. destruct (flush_disk_is_xflat c f I HR) as (c1 & E & I1 & R1 & Hd).
  unfold sync. rewrite E. cbn [rbind].
  exists (set_disk c1 (k_disk c1) (EvSync all :: k_events c1)), (k_events c1).
  split; [reflexivity|]. cbn [set_disk k_disk k_events].
  split; [exact Hd|].
  assert (Hview : forall p, view (set_disk c1 (k_disk c1) (EvSync all :: k_events c1)) p = view c1 p) by (intros p; reflexivity).
  split.
  { destruct R1 as (A & B & C). split; [exact A|]. split; [exact B|]. intros p Hp. rewrite Hview. apply C. exact Hp. }
  split.
  { destruct I1 as [A B C D E0]. constructor; cbn [set_disk k_cs k_chunks k_disk k_end k_fc k_max k_auto nchunks]; assumption. }
  split; [reflexivity|].
  (* the events of a flush only grow at the front *)
  clear - E. unfold flush in E.
  assert (G : forall idxs c0 c2, flush_list idxs c0 = Ok c2 -> exists w, k_events c2 = w ++ k_events c0).
  { induction idxs as [|i r IH]; intros c0 c2 H; cbn [flush_list] in H.
    - injection H as <-. exists []. reflexivity.
    - destruct (chunk_write c0 i) as [c3| | |] eqn:Ew; cbn [rbind] in H; try discriminate.
      destruct (IH _ _ H) as (w & Hw).
      assert (exists w0, k_events c3 = w0 ++ k_events c0) as (w0 & Hw0).
      { unfold chunk_write in Ew.
        destruct (k_chunks c0 !! i) as [ch|]; [|discriminate].
        destruct (negb (c_dirty ch)); [injection Ew as <-; exists []; reflexivity|].
        destruct (k_end c0 <? c_off ch); [injection Ew as <-; exists []; reflexivity|].
        injection Ew as <-. cbn [set_chunks set_disk k_events].
        destruct (N.min (blen (c_data ch)) (k_end c0 - c_off ch) =? 0); [exists []; reflexivity|eexists [_]; reflexivity]. }
      exists (w ++ w0). rewrite Hw, Hw0, app_assoc. reflexivity. }
  exact (G _ _ _ E).
Qed.

Print Assumptions sync_durable_and_requested.
