(** * Io_wdet: the files are a function of the UPDATE history, at byte level, whatever read-only calls - lookups, membership
    tests, length calls, full traversals, statistics calls - are made in between (C18).

    [Io_det] says it for histories of [dop]; here for the histories of [Io_wrun], which also contain traversals and statistics. *)
From Coq Require Import Lia ZifyN ZifyNat ZifyBool.
From Aby Require Import Base Vu64 Hash KeyTypes Consts Sizing Alloc AllocInv Htx Store Iter Stats Spec Refine Refine_all Layout Load Load_all
  Cache Io Io_base Io_htx Io_run Io_proofs Io_open Io_det Io_wrun.
Import Io.
#[local] Open Scope N_scope.

Definition is_wupdate (o : wop) : bool := match o with WCall o => is_update o | _ => false end.

Lemma wread_only_step s o s1 r : is_wupdate o = false -> wstore_step s o = Ok (s1, r) -> s1 = s.
Proof.
  destruct o as [o| |]; cbn [is_wupdate wstore_step]; intros Hu H.
  - destruct (store_step s o) as [[s' r0]| | |] eqn:E; cbn [rbind] in H; try discriminate.
    cbv beta iota in H. assert (s1 = s') by congruence. subst s1. exact (read_only_step s o s' r0 Hu E).
  - destruct (Iter.iter_run s) as [[[items h] ex]| | |]; cbn [rbind] in H; try discriminate. cbv beta iota in H. congruence.
  - destruct (Stats.stats_of s) as [x| | |]; cbn [rbind] in H; try discriminate. cbv beta iota in H. congruence.
Qed.

Lemma wstore_run_updates ops : forall s s' outs, wstore_run s ops = Ok (s', outs) ->
  exists outs', wstore_run s (List.filter is_wupdate ops) = Ok (s', outs').
Proof.
  induction ops as [|o ops IH]; intros s s' outs H; cbn [wstore_run List.filter] in *.
  - injection H as <- <-. exists []. reflexivity.
  - destruct (wstore_step s o) as [[s1 r]| | |] eqn:E1; cbn [rbind] in H; try discriminate.
    destruct (wstore_run s1 ops) as [[s2 rs]| | |] eqn:E2; cbn [rbind] in H; try discriminate.
    injection H as <- <-. destruct (IH _ _ _ E2) as (outs' & E3).
    destruct (is_wupdate o) eqn:Eu.
    + cbn [wstore_run]. rewrite E1. cbn [rbind]. rewrite E3. cbn [rbind]. eexists. reflexivity.
    + rewrite (wread_only_step s o s1 r Eu E1) in E3. exists outs'. exact E3.
Qed.

Lemma wsized_updates ops : forall s s' outs, wstore_run s ops = Ok (s', outs) ->
  wsized s ops -> wsized s (List.filter is_wupdate ops).
Proof.
  induction ops as [|o ops IH]; intros s s' outs Hrun H; cbn [List.filter]; [exact H|].
  cbn [wstore_run] in Hrun.
  destruct (wstore_step s o) as [[s1 r]| | |] eqn:E1; cbn [rbind] in Hrun; try discriminate.
  destruct (wstore_run s1 ops) as [[s2 rs]| | |] eqn:E2; cbn [rbind] in Hrun; try discriminate.
  destruct H as (H64 & Hroom & Hnext). pose proof (Hnext s1 r E1) as Hs1.
  pose proof (IH s1 s2 rs E2 Hs1) as Hf.
  destruct (is_wupdate o) eqn:Eu.
  - cbn [wsized]. split; [exact H64|]. split; [exact Hroom|]. intros s1' r' E'. rewrite E1 in E'. injection E' as <- _. exact Hf.
  - rewrite (wread_only_step s o s1 r Eu E1) in Hf. exact Hf.
Qed.

Lemma Forall_filter_wwf t ops : Forall (wop_wf t) ops -> Forall (wop_wf t) (List.filter is_wupdate ops).
Proof.
  induction 1 as [|o ops Ho _ IH]; cbn [List.filter]; [constructor|].
  destruct (is_wupdate o); [constructor; assumption|assumption].
Qed.

Theorem byte_level_images_function_of_updates_w s sp m ops :
  wf_state s -> represents s sp -> simg s m -> Forall (wop_wf (kt s)) ops -> wsized s ops ->
  exists m' outs m'' outs'',
    wio_run m ops = Ok (m', outs) /\
    wio_run m (List.filter is_wupdate ops) = Ok (m'', outs'') /\
    Io.images m' = Io.images m''.
Proof.
  intros Hwf HR Hsim Hops Hsz.
  destruct (wio_run_refines ops s sp m Hwf HR Hsim Hops Hsz) as (s' & m' & outs & Hrun & Hio & (Hr' & _) & _).
  destruct (wstore_run_updates ops s s' outs Hrun) as (outs2 & Hrun2).
  destruct (wio_run_refines _ s sp m Hwf HR Hsim (Forall_filter_wwf _ _ Hops) (wsized_updates ops s s' outs Hrun Hsz))
    as (s2 & m'' & outs'' & Hrun2' & Hio2 & (Hr'' & _) & _).
  rewrite Hrun2 in Hrun2'. injection Hrun2' as <- _.
  exists m', outs, m'', outs''. split; [exact Hio|]. split; [exact Hio2|]. congruence.
Qed.

Print Assumptions byte_level_images_function_of_updates_w.
