(** * KeyTypes_proofs: C10 (key conversions round trip; "same entry" is byte equality). *)
From Coq Require Import Lia ZArith.
From Aby Require Import Base Vu64 KeyTypes Vu64_proofs.

Lemma bytes_eqb_eq a b : bytes_eqb a b = true <-> a = b.
Proof.
  revert b; induction a as [|x a IH]; intros [|y b]; cbn [bytes_eqb].
  - split; reflexivity.
  - split; discriminate.
  - split; discriminate.
  - rewrite andb_true_iff, N.eqb_eq, IH. split.
    + intros [-> ->]. reflexivity.
    + intros Heq. injection Heq as -> ->. split; reflexivity.
Qed.

Lemma bytes_eqb_refl a : bytes_eqb a a = true.
Proof. now apply bytes_eqb_eq. Qed.

Lemma take_le_bytes n v : take n (le_bytes n v) = le_bytes n v.
Proof. apply take_ge. rewrite le_bytes_length. dlia. Qed.

(** ** u64 *)

Theorem C10_u64 x : x < 2 ^ 64 -> to_u64 (of_u64 x) = x /\ length (of_u64 x) = 8%nat.
Proof.
  intros Hx. unfold to_u64, of_u64. split.
  - rewrite take_le_bytes. apply le_decode_le_bytes. exact Hx.
  - apply le_bytes_length.
Qed.

Theorem of_u64_inj x y : x < 2 ^ 64 -> y < 2 ^ 64 -> of_u64 x = of_u64 y -> x = y.
Proof.
  intros Hx Hy Heq.
  destruct (C10_u64 x Hx) as [<- _]. destruct (C10_u64 y Hy) as [<- _].
  now rewrite Heq.
Qed.

(** ** i64 *)

Theorem C10_i64 z :
  (- 2 ^ 63 <= z < 2 ^ 63)%Z -> to_i64 (of_i64 z) = z /\ length (of_i64 z) = 8%nat.
Proof.
  change (2 ^ 63)%Z with 9223372036854775808%Z. intros Hz.
  unfold to_i64, of_i64. split; [|apply le_bytes_length].
  rewrite take_le_bytes.
  set (u := Z.to_N (z mod 18446744073709551616)%Z).
  assert (u < 18446744073709551616) as Hu by (unfold u; dlia).
  rewrite le_decode_le_bytes by exact Hu.
  unfold two63.
  destruct (N.ltb_spec u 9223372036854775808) as [Hlt|Hge]; unfold u in *; dlia.
Qed.

Theorem of_i64_inj x y :
  (- 2 ^ 63 <= x < 2 ^ 63)%Z -> (- 2 ^ 63 <= y < 2 ^ 63)%Z -> of_i64 x = of_i64 y -> x = y.
Proof.
  intros Hx Hy Heq.
  destruct (C10_i64 x Hx) as [<- _]. destruct (C10_i64 y Hy) as [<- _].
  now rewrite Heq.
Qed.

(** ** vu64 *)

Lemma decode_of_vu64 x : x < 2 ^ 64 -> decode (of_vu64 x) = Some (x, []).
Proof.
  intros Hx. unfold of_vu64. rewrite <- (app_nil_r (encode x)).
  apply decode_encode. exact Hx.
Qed.

Theorem C10_vu64 x : x < 2 ^ 64 -> to_vu64 (of_vu64 x) = Some x.
Proof.
  intros Hx. unfold to_vu64. rewrite (decode_of_vu64 x Hx). reflexivity.
Qed.

Theorem of_vu64_inj x y : x < 2 ^ 64 -> y < 2 ^ 64 -> of_vu64 x = of_vu64 y -> x = y.
Proof. unfold of_vu64. apply encode_inj. Qed.

(** ** big endian (string and byte keys made from integers) *)

Lemma be_bytes_rev n v : be_bytes n v = rev (le_bytes n v).
Proof.
  revert v; induction n as [|n IH]; intros v; cbn [be_bytes le_bytes rev].
  - reflexivity.
  - now rewrite IH.
Qed.

Theorem of_u64_be_inj x y : x < 2 ^ 64 -> y < 2 ^ 64 -> of_u64_be x = of_u64_be y -> x = y.
Proof.
  intros Hx Hy Heq. unfold of_u64_be in Heq. rewrite !be_bytes_rev in Heq.
  apply (f_equal (@rev N)) in Heq. rewrite !rev_involutive in Heq.
  apply of_u64_inj; assumption.
Qed.

(** ** "same entry" *)

Theorem C10_bytes_identity kt a b : kt <> KVu64 -> (cmp_eq kt a b = Ok true <-> a = b).
Proof.
  intros Hkt. rewrite <- bytes_eqb_eq.
  destruct kt; cbn [cmp_eq]; try congruence; split; congruence.
Qed.

Theorem C10_bytes_total kt a b : kt <> KVu64 -> exists r, cmp_eq kt a b = Ok r.
Proof.
  intros Hkt. destruct kt; cbn [cmp_eq]; try congruence; eexists; reflexivity.
Qed.

Theorem C10_vu64_same x y :
  x < 2 ^ 64 -> y < 2 ^ 64 -> cmp_eq KVu64 (of_vu64 x) (of_vu64 y) = Ok (x =? y).
Proof.
  intros Hx Hy. cbn [cmp_eq].
  rewrite (decode_of_vu64 x Hx), (decode_of_vu64 y Hy). reflexivity.
Qed.

Theorem C10_vu64_same_bytes x y :
  x < 2 ^ 64 -> y < 2 ^ 64 ->
  (cmp_eq KVu64 (of_vu64 x) (of_vu64 y) = Ok true <-> of_vu64 x = of_vu64 y).
Proof.
  intros Hx Hy. rewrite (C10_vu64_same x y Hx Hy). split.
  - intros Heq. injection Heq as Heq. apply N.eqb_eq in Heq. now subst.
  - intros Heq. apply (of_vu64_inj x y Hx Hy) in Heq. subst. now rewrite N.eqb_refl.
Qed.

(** ** why the hypotheses above are needed (witnesses, all closed computations) *)

(** the decoded comparison ignores whatever follows the varint: distinct byte strings are "the
    same entry" for [KVu64], so [C10_bytes_identity] does not extend to it *)
Lemma C10_vu64_not_identity :
  cmp_eq KVu64 [1; 0] [1] = Ok true /\ [1; 0] <> ([1] : bytes).
Proof. split; [reflexivity | discriminate]. Qed.

(** and it is partial: the empty key, a truncated varint and a redundant (non minimal)
    encoding all make the comparison panic *)
Lemma C10_vu64_not_total :
  cmp_eq KVu64 [] [] = Panic Corrupt /\
  cmp_eq KVu64 [128] [128] = Panic Corrupt /\
  cmp_eq KVu64 [128; 0] [128; 0] = Panic Corrupt.
Proof. repeat split; reflexivity. Qed.
