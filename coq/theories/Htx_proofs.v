(** * Htx_proofs: properties of the bucket table model ([Htx.v]).

    - [bitmap_ok] : the occupancy bitmap is consistent with the bucket heads;
    - [next_nonempty_spec] : [next_key_piece_offset] finds the least occupied bucket at or
      after the entry index (for every table size >= 1, no alignment or power-of-two
      assumption is needed);
    - [write_head], [htx_create], [count_up], [count_down] maintain [bitmap_ok];
    - [C07_buckets_param] : the bucket count derivation yields a power of two >= 1. *)
From Coq Require Import Lia ZifyN ZifyNat ZifyBool.
From Aby Require Import Base Consts Htx.

(** table consistency: a bit is set exactly for the non-empty buckets, and only inside the table *)
Definition bitmap_ok (h : htx) : Prop :=
  forall i, i ∈ bitmap h <-> (i < nb h /\ head_at h i <> 0).

(** ** Bitmap reads *)

Lemma bm_any_spec h idx len :
  bm_any h idx len = true <-> exists b, idx <= b < idx + N.of_nat len /\ b ∈ bitmap h.
Proof.
  unfold bm_any, seqN'. rewrite existsb_exists. split.
  - intros (b & Hin & Hb). apply in_map_iff in Hin as (i & <- & Hi). apply in_seq in Hi.
    apply bool_decide_eq_true in Hb. exists (idx + N.of_nat i). split; [lia|exact Hb].
  - intros (b & Hr & Hb). exists b. split.
    + apply in_map_iff. exists (N.to_nat (b - idx)). split; [lia|]. apply in_seq. lia.
    + apply bool_decide_eq_true. exact Hb.
Qed.

Lemma bm_any_false h idx len :
  bm_any h idx len = false -> forall b, idx <= b < idx + N.of_nat len -> b ∉ bitmap h.
Proof.
  intros Hf b Hb Hin.
  assert (bm_any h idx len = true) as Ht by (apply bm_any_spec; exists b; auto).
  congruence.
Qed.

Lemma of_nat_64 : N.of_nat 64 = 64.
Proof. reflexivity. Qed.
Lemma of_nat_8 : N.of_nat 8 = 8.
Proof. reflexivity. Qed.

(** ** The three strides *)

(** [stage64]: either nothing was read ([i1 = idx]), or the last u64 read started at
    [i1 - 64] (a position with [i1 - 64 + 8 < n]) and no bit is set before it. *)
Lemma stage64_spec fuel h n idx :
  (N.to_nat n - N.to_nat idx < fuel)%nat ->
  exists i1, stage64 fuel h n idx = Ok i1 /\
    ( i1 = idx
   \/ (idx + 64 <= i1 /\ i1 - 64 + 8 < n /\ forall b, idx <= b < i1 - 64 -> b ∉ bitmap h) ).
Proof.
  revert idx. induction fuel as [|f IH]; intros idx Hf; [lia|].
  cbn [stage64]. destruct (idx + 8 <? n) eqn:E.
  - apply N.ltb_lt in E. destruct (bm_any h idx 64) eqn:B.
    + exists (idx + 64). split; [reflexivity|]. right.
      split; [lia|]. split; [lia|]. intros b Hb. lia.
    + destruct (IH (idx + 64)) as (i1 & Hs & Hi1); [lia|].
      exists i1. split; [exact Hs|]. right.
      pose proof (bm_any_false _ _ _ B) as Bf. rewrite of_nat_64 in Bf.
      destruct Hi1 as [-> | (H1 & H2 & H3)].
      * split; [lia|]. split; [lia|]. intros b Hb. lia.
      * split; [lia|]. split; [lia|]. intros b Hb.
        destruct (N.lt_ge_cases b (idx + 64)); [apply Bf; lia | apply H3; lia].
  - exists idx. split; [reflexivity|]. left. reflexivity.
Qed.

(** the value the caller continues from after [stage64] *)
Lemma stage64_resume fuel h n idx :
  (N.to_nat n - N.to_nat idx < fuel)%nat -> idx < n ->
  exists i1, stage64 fuel h n idx = Ok i1 /\
    let i2 := if idx <? i1 then i1 - 64 else i1 in
    idx <= i2 /\ i2 < n /\ forall b, idx <= b < i2 -> b ∉ bitmap h.
Proof.
  intros Hf Hn. destruct (stage64_spec fuel h n idx Hf) as (i1 & Hs & Hi1).
  exists i1. split; [exact Hs|]. cbv zeta.
  destruct Hi1 as [-> | (H1 & H2 & H3)].
  - rewrite N.ltb_irrefl. split; [lia|]. split; [lia|]. intros b Hb. lia.
  - assert (idx <? i1 = true) as -> by (apply N.ltb_lt; lia).
    split; [lia|]. split; [lia|]. exact H3.
Qed.

(** [stage8]: either the loop did not run ([n <= idx]) or the last byte read started at
    [i3 - 8 < n], no bit is set before it, and either that byte has a bit or the whole
    range up to the end of the table has none. *)
Lemma stage8_spec fuel h n idx :
  (N.to_nat n - N.to_nat idx < fuel)%nat ->
  exists i3, stage8 fuel h n idx = Ok i3 /\
    ( (i3 = idx /\ n <= idx)
   \/ (idx + 8 <= i3 /\ i3 - 8 < n /\ (forall b, idx <= b < i3 - 8 -> b ∉ bitmap h) /\
       ( (exists b, i3 - 8 <= b < i3 /\ b ∈ bitmap h)
      \/ (n <= i3 /\ forall b, idx <= b < i3 -> b ∉ bitmap h) )) ).
Proof.
  revert idx. induction fuel as [|f IH]; intros idx Hf; [lia|].
  cbn [stage8]. destruct (idx <? n) eqn:E.
  - apply N.ltb_lt in E. destruct (bm_any h idx 8) eqn:B.
    + exists (idx + 8). split; [reflexivity|]. right.
      split; [lia|]. split; [lia|]. split; [intros b Hb; lia|]. left.
      apply bm_any_spec in B as (b & Hb & Hin). rewrite of_nat_8 in Hb.
      exists b. split; [lia|exact Hin].
    + destruct (IH (idx + 8)) as (i3 & Hs & Hi3); [lia|].
      exists i3. split; [exact Hs|]. right.
      pose proof (bm_any_false _ _ _ B) as Bf. rewrite of_nat_8 in Bf.
      destruct Hi3 as [(-> & Hn) | (H1 & H2 & H3 & H4)].
      * split; [lia|]. split; [lia|]. split; [intros b Hb; lia|]. right.
        split; [lia|]. intros b Hb. apply Bf. lia.
      * split; [lia|]. split; [lia|]. split.
        { intros b Hb. destruct (N.lt_ge_cases b (idx + 8)); [apply Bf; lia | apply H3; lia]. }
        destruct H4 as [(b & Hb & Hin) | (Hn & H4)].
        { left. exists b. split; [lia|exact Hin]. }
        { right. split; [lia|]. intros b Hb.
          destruct (N.lt_ge_cases b (idx + 8)); [apply Bf; lia | apply H4; lia]. }
  - apply N.ltb_ge in E. exists idx. split; [reflexivity|]. left. split; [reflexivity|lia].
Qed.

(** [stage1]: the least non-empty bucket at or after [idx], or the end of the table *)
Lemma stage1_spec fuel h n idx :
  (N.to_nat n - N.to_nat idx < fuel)%nat ->
  exists j off, stage1 fuel h n idx = Ok (j, off) /\
    ( (off <> 0 /\ idx < j /\ j <= n /\ head_at h (j - 1) = off /\
       (forall b, idx <= b < j - 1 -> head_at h b = 0))
   \/ (off = 0 /\ j = N.max idx n /\ (forall b, idx <= b < n -> head_at h b = 0)) ).
Proof.
  revert idx. induction fuel as [|f IH]; intros idx Hf; [lia|].
  cbn [stage1]. destruct (idx <? n) eqn:E.
  - apply N.ltb_lt in E. cbv zeta. destruct (head_at h idx =? 0) eqn:Z.
    + apply N.eqb_eq in Z.
      destruct (IH (idx + 1)) as (j & off & Hs & Hj); [lia|].
      exists j, off. split; [exact Hs|].
      destruct Hj as [(H1 & H2 & H3 & H4 & H5) | (H1 & H2 & H3)].
      * left. split; [exact H1|]. split; [lia|]. split; [lia|]. split; [exact H4|].
        intros b Hb. destruct (N.eq_dec b idx) as [-> | Hne]; [exact Z | apply H5; lia].
      * right. split; [exact H1|]. split; [lia|].
        intros b Hb. destruct (N.eq_dec b idx) as [-> | Hne]; [exact Z | apply H3; lia].
    + apply N.eqb_neq in Z. exists (idx + 1), (head_at h idx). split; [reflexivity|]. left.
      split; [exact Z|]. split; [lia|]. split; [lia|].
      replace (idx + 1 - 1) with idx by lia. split; [reflexivity|]. intros b Hb. lia.
  - apply N.ltb_ge in E. exists idx, 0. split; [reflexivity|]. right.
    split; [reflexivity|]. split; [lia|]. intros b Hb. lia.
Qed.

(** ** The main theorem: [next_key_piece_offset] *)

(** stated for an arbitrary bound [n <= nb h] first (the code always passes [nb h]) *)
Lemma next_nonempty_spec_gen h n idx :
  bitmap_ok h -> n <= nb h -> idx < n ->
  exists j off, next_nonempty h n idx = Ok (j, off) /\
    ( (off <> 0 /\ idx < j /\ j <= n /\ head_at h (j - 1) = off /\
       (forall b, idx <= b < j - 1 -> head_at h b = 0))
   \/ (off = 0 /\ j = n /\ (forall b, idx <= b < n -> head_at h b = 0)) ).
Proof.
  intros Hok Hnb Hidx. unfold next_nonempty. change htx_bitmap with true.
  cbv beta iota zeta.
  destruct (idx mod 8 =? 0) eqn:Hal.
  - (* aligned entry: u64 stride, byte stride, bucket stride *)
    destruct (stage64_resume (S (N.to_nat n)) h n idx) as (i1 & -> & Hi2); [lia|exact Hidx|].
    cbv zeta in Hi2. cbn [rbind].
    set (i2 := if idx <? i1 then i1 - 64 else i1) in *.
    destruct Hi2 as (Hle2 & Hlt2 & Hno2).
    destruct (stage8_spec (S (N.to_nat n)) h n i2) as (i3 & -> & Hi3); [lia|].
    cbn [rbind].
    destruct Hi3 as [(-> & Hn) | (H1 & H2 & H3 & _)]; [lia|].
    assert (i3 <? 8 = false) as -> by (apply N.ltb_ge; lia).
    cbn [rbind].
    assert (forall b, idx <= b < i3 - 8 -> head_at h b = 0) as Hz.
    { intros b Hb. destruct (N.eq_dec (head_at h b) 0) as [Hz|Hnz]; [exact Hz|].
      exfalso. assert (b ∈ bitmap h) as Hin by (apply Hok; split; [lia|exact Hnz]).
      revert Hin. destruct (N.lt_ge_cases b i2); [apply Hno2; lia | apply H3; lia]. }
    destruct (stage1_spec (S (N.to_nat n)) h n (i3 - 8)) as (j & off & -> & Hj); [lia|].
    exists j, off. split; [reflexivity|].
    destruct Hj as [(J1 & J2 & J3 & J4 & J5) | (J1 & J2 & J3)].
    + left. split; [exact J1|]. split; [lia|]. split; [lia|]. split; [exact J4|].
      intros b Hb. destruct (N.lt_ge_cases b (i3 - 8)); [apply Hz; lia | apply J5; lia].
    + right. split; [exact J1|]. split; [lia|].
      intros b Hb. destruct (N.lt_ge_cases b (i3 - 8)); [apply Hz; lia | apply J3; lia].
  - (* unaligned entry: bucket stride only *)
    cbn [rbind].
    destruct (stage1_spec (S (N.to_nat n)) h n idx) as (j & off & -> & Hj); [lia|].
    exists j, off. split; [reflexivity|].
    destruct Hj as [Hj | (J1 & J2 & J3)]; [left; exact Hj|].
    right. split; [exact J1|]. split; [lia|exact J3].
Qed.

(** the main theorem: for every table size n >= 1 (in particular 1, 2, 4 and every
    n >= 128) and every entry index *)
Theorem next_nonempty_spec h idx :
  bitmap_ok h -> 1 <= nb h -> idx < nb h ->
  exists j off, next_nonempty h (nb h) idx = Ok (j, off) /\
    ( (off <> 0 /\ idx < j /\ j <= nb h /\ head_at h (j - 1) = off /\
       (forall b, idx <= b < j - 1 -> head_at h b = 0))
   \/ (off = 0 /\ j = nb h /\ (forall b, idx <= b < nb h -> head_at h b = 0)) ).
Proof.
  intros Hok _ Hidx. apply next_nonempty_spec_gen; [exact Hok|lia|exact Hidx].
Qed.

(** Outside the precondition [idx < nb h] (the iterator's [bucket_loop] guards every call
    with it): entered at the end of the table, an unaligned end returns [(nb h, 0)]
    (see [next_nonempty_end_aligned_rescans] below for the aligned case) *)
Lemma next_nonempty_end h :
  nb h mod 8 <> 0 -> next_nonempty h (nb h) (nb h) = Ok (nb h, 0).
Proof.
  intros Hal. unfold next_nonempty. change htx_bitmap with true. cbv beta iota zeta.
  assert (nb h mod 8 =? 0 = false) as -> by (apply N.eqb_neq; exact Hal).
  cbn [rbind stage1]. rewrite N.ltb_irrefl. reflexivity.
Qed.

(** ** Maintenance of the consistency by the writers *)

Lemma write_head_head_at h i off j :
  head_at (write_head h i off) j = if N.eqb j i then off else head_at h j.
Proof.
  unfold head_at, write_head. cbn [buckets].
  destruct (off =? 0) eqn:Z; destruct (N.eqb_spec j i) as [-> | Hne].
  - apply N.eqb_eq in Z. rewrite lookup_delete. cbn. symmetry. exact Z.
  - rewrite lookup_delete_ne by congruence. reflexivity.
  - rewrite lookup_insert. reflexivity.
  - rewrite lookup_insert_ne by congruence. reflexivity.
Qed.

Lemma write_head_nb h i off : nb (write_head h i off) = nb h.
Proof. reflexivity. Qed.

Lemma write_head_count h i off : count (write_head h i off) = count h.
Proof. reflexivity. Qed.

Lemma write_head_bitmap_ok h i off :
  bitmap_ok h -> i < nb h -> bitmap_ok (write_head h i off).
Proof.
  intros Hok Hi j. rewrite write_head_head_at, write_head_nb.
  unfold write_head. cbn [bitmap].
  specialize (Hok j).
  destruct (off =? 0) eqn:Z; destruct (N.eqb_spec j i) as [-> | Hne].
  - apply N.eqb_eq in Z. rewrite elem_of_difference, elem_of_singleton. split.
    + intros (_ & Hc). congruence.
    + intros (_ & Hc). congruence.
  - rewrite elem_of_difference, elem_of_singleton. rewrite Hok. split.
    + intros (H & _). exact H.
    + intros H. split; [exact H|exact Hne].
  - apply N.eqb_neq in Z. rewrite elem_of_union, elem_of_singleton. split.
    + intros _. split; [exact Hi|exact Z].
    + intros _. left. reflexivity.
  - rewrite elem_of_union, elem_of_singleton. rewrite Hok. split.
    + intros [Hc | H]; [congruence|exact H].
    + intros H. right. exact H.
Qed.

Lemma htx_create_bitmap_ok n : bitmap_ok (htx_create n).
Proof.
  intros i. unfold htx_create, head_at. cbn [bitmap buckets nb].
  rewrite lookup_empty. cbn. split.
  - intros H. apply elem_of_empty in H. destruct H.
  - intros (_ & H). congruence.
Qed.

Lemma count_up_bitmap_ok h : bitmap_ok h -> bitmap_ok (count_up h).
Proof. intros Hok i. exact (Hok i). Qed.

Lemma count_down_bitmap_ok h : bitmap_ok h -> bitmap_ok (count_down h).
Proof. intros Hok i. exact (Hok i). Qed.

(** Remark on [next_nonempty_end]: an aligned end steps back 8 buckets and scans the last byte again, so the
    guard [idx < buckets_size] of the caller is what makes the iteration terminate there.
    (A remark about the precondition, not a defect: the table below is consistent.) *)
Lemma next_nonempty_end_aligned_rescans :
  let h := write_head (htx_create 8) 7 200 in
  bitmap_ok h /\ next_nonempty h (nb h) (nb h) = Ok (8, 200).
Proof.
  cbv zeta. split.
  - apply write_head_bitmap_ok; [apply htx_create_bitmap_ok|]. cbn [htx_create nb]. lia.
  - vm_compute. reflexivity.
Qed.

(** ** Bucket-count derivation (property C07) *)

Definition is_pow2 (n : N) : Prop := exists k, n = 2 ^ k.

Lemma next_pow2_from_spec fuel k x :
  x <= 2 ^ (k + N.of_nat fuel) ->
  (k = 0 \/ 2 ^ (k - 1) < x) ->
  exists m, next_pow2_from fuel (2 ^ k) x = 2 ^ m /\ x <= 2 ^ m /\ (m = 0 \/ 2 ^ (m - 1) < x).
Proof.
  revert k. induction fuel as [|f IH]; intros k Hx Hk.
  - cbn [next_pow2_from]. exists k. rewrite N.add_0_r in Hx. auto.
  - cbn [next_pow2_from]. destruct (x <=? 2 ^ k) eqn:E.
    + apply N.leb_le in E. exists k. auto.
    + apply N.leb_gt in E.
      replace (2 * 2 ^ k) with (2 ^ (k + 1)) by (rewrite N.pow_add_r; lia).
      apply IH.
      * replace (k + 1 + N.of_nat f) with (k + N.of_nat (S f)) by lia. exact Hx.
      * right. replace (k + 1 - 1) with k by lia. exact E.
Qed.

Lemma next_pow2_spec x :
  x <= 2 ^ 63 ->
  is_pow2 (next_pow2 x) /\ x <= next_pow2 x /\ (1 <= next_pow2 x) /\
  (forall k, x <= 2 ^ k -> next_pow2 x <= 2 ^ k).
Proof.
  intros Hx. unfold next_pow2.
  destruct (next_pow2_from_spec 64 0 x) as (m & Hm & Hle & Hmin).
  - change (0 + N.of_nat 64) with 64.
    etransitivity; [exact Hx|]. apply N.pow_le_mono_r; lia.
  - left. reflexivity.
  - change (2 ^ 0) with 1 in Hm. rewrite Hm.
    split; [exists m; reflexivity|]. split; [exact Hle|].
    split.
    + change 1 with (2 ^ 0). apply N.pow_le_mono_r; lia.
    + intros k Hk. apply N.pow_le_mono_r; [lia|].
      destruct Hmin as [-> | Hlt]; [lia|].
      assert (2 ^ (m - 1) < 2 ^ k) as Hp by lia.
      apply N.pow_lt_mono_r_iff in Hp; lia.
Qed.

Theorem C07_buckets_param p n :
  buckets_of_param p = Ok n ->
  (match p with
   | BucketsSize x => x <= 2 ^ 63
   | Capacity x => x + x / 8 <= 2 ^ 63
   | BDefault => True
   end) ->
  is_pow2 n /\ 1 <= n.
Proof.
  destruct p as [x | x |]; cbn [buckets_of_param]; intros Hn Hp.
  - injection Hn as <-. destruct (next_pow2_spec x Hp) as (H1 & _ & H2 & _). auto.
  - destruct (x =? 0); [discriminate|]. destruct (x <? 8).
    + injection Hn as <-. split; [exists 3; reflexivity|lia].
    + injection Hn as <-. destruct (next_pow2_spec _ Hp) as (H1 & _ & H2 & _). auto.
  - injection Hn as <-. unfold htx_default_buckets. split; [exists 24; reflexivity|lia].
Qed.

Lemma buckets_of_param_total p :
  (match p with Capacity 0 => False | _ => True end) -> exists n, buckets_of_param p = Ok n.
Proof.
  destruct p as [x | x |]; cbn [buckets_of_param]; intros Hp.
  - eexists. reflexivity.
  - destruct x as [|q]; [destruct Hp|].
    change (N.pos q =? 0) with false. cbv iota.
    destruct (N.pos q <? 8); eexists; reflexivity.
  - eexists. reflexivity.
Qed.
