(** Extraction of the executable model for the correspondence runner.
    Only [ExtrOcamlBasic] is used: bool, option, unit, list, prod, sumbool, sumor map to the
    OCaml types; [N], [positive], [Z], [nat] stay the extracted inductive types. *)
From Coq Require Import Extraction ExtrOcamlBasic.
From Aby Require Import Base Vu64 Hash KeyTypes Consts Sizing Alloc Htx Store Iter Stats Layout Load Spec Bulk Db Db_proofs Probe World_refine Cache Cache_fault Utf8 Strings Io Open Io_flat Names.
Extraction Language OCaml.
Set Extraction Output Directory ".".
Extraction "model.ml" step world0 val_need key_need roundup key_cfg val_cfg hash_value
  of_u64 to_u64 of_i64 to_i64 of_vu64 to_vu64 of_u64_be cmp_eq buckets_of_param htx_create hend
  render create put get del stats_of iter_run enc_len encode decode val_real_len key_real_len
  store_at key_of_handle find_at shape_of moved load contents op_okb api_op
  Rabuf.cstep Rabuf.open_cap Rabuf.open_permille Rabuf.open_auto Rabuf.open_param Rabuf.close RabufF.cstep_f RabufF.close_f lossy
  Io.create Io.put Io.get Io.del Io.has Io.len Io.iter_run Io.stats_of Io.images Io.drain
  Io.open_existing Io.reopen_st Io.st_images Io.clear_log Io.empty_st Io.get_file open_files evs_ok file_name sstep.
