(** * Load: an independent reader of the documented on-disk layout.

    [load t (htx, key, val)] rebuilds the record-level state from the three byte images the way
    a reader of the format has to: header fields at their fixed offsets, bucket heads, the
    occupancy bitmap; key records by following each bucket's chain; value records by following
    each key record's value offset; free slots by following the 16 free lists of each piece file.
    It shares no code with [Layout.render] except the field codecs ([Vu64.decode], [le_decode]).
    (A sequential scan could not tell a free slot from a record with an empty key: both have a
    zero length field - the reader must be guided by the chains and lists, as the crate is.)

    Theorem (Load_proofs.v): [load (render s)] gives back [s] up to the in-memory flags, for every
    state with the invariant whose offsets fit 64 bits. *)
From Aby Require Import Base Vu64 KeyTypes Consts Sizing Alloc Htx Store Layout.

Definition at_off (img : bytes) (off : N) : bytes := drop (N.to_nat off) img.
Definition rd_u64 (bs : bytes) : N := le_decode (take 8 bs).

Definition p_vu64 (bs : bytes) : res (N * bytes) :=
  match decode bs with Some r => Ok r | None => Panic Corrupt end.

Definition p_take (n : N) (bs : bytes) : res (bytes * bytes) :=
  if (length bs <? N.to_nat n)%nat then Panic Corrupt
  else Ok (take (N.to_nat n) bs, drop (N.to_nat n) bs).

(** a key record: size/8, key length, key, value offset/8, next offset/8 *)
Definition p_kslot (bs : bytes) : res (slot krec) :=
  let* (sz8, r1) := p_vu64 bs in
  let* (klen, r2) := p_vu64 r1 in
  let* (key, r3) := p_take klen r2 in
  let* (v8, r4) := p_vu64 r3 in
  let* (n8, _) := p_vu64 r4 in
  Ok (Used (sz8 * 8) (KRec key (v8 * 8) (n8 * 8))).

(** a value record: size/8, value length, value *)
Definition p_vslot (bs : bytes) : res (slot bytes) :=
  let* (sz8, r1) := p_vu64 bs in
  let* (vlen, r2) := p_vu64 r1 in
  let* (v, _) := p_take vlen r2 in
  Ok (Used (sz8 * 8) v).

(** a free slot: size/8, a zero length field, the next-free offset as 8 bytes little endian *)
Definition p_free {P} (bs : bytes) : res (slot P) :=
  let* (sz8, r1) := p_vu64 bs in
  match r1 with
  | 0 :: r2 => if (length r2 <? 8)%nat then Panic Corrupt else Ok (Free (sz8 * 8) (rd_u64 r2))
  | _ => Panic Corrupt
  end.

(** follow a chain of key records from [off] to the null link *)
Fixpoint ld_chain (fuel : nat) (img : bytes) (off : N) : res (list (N * slot krec)) :=
  if off =? 0 then Ok []
  else match fuel with
       | O => OutOfFuel
       | S f =>
         let* s := p_kslot (at_off img off) in
         match s with
         | Used _ r => let* rest := ld_chain f img (k_next r) in Ok ((off, s) :: rest)
         | Free _ _ => Panic Corrupt
         end
       end.

(** follow a free list *)
Fixpoint ld_free {P} (fuel : nat) (img : bytes) (off : N) : res (list (N * slot P)) :=
  if off =? 0 then Ok []
  else match fuel with
       | O => OutOfFuel
       | S f =>
         let* s := p_free (at_off img off) in
         match s with
         | Free _ nxt => let* rest := ld_free f img nxt in Ok ((off, s) :: rest)
         | Used _ _ => Panic Corrupt
         end
       end.

Fixpoint concat_res {A} (l : list (res (list A))) : res (list A) :=
  match l with
  | [] => Ok []
  | r :: l' => let* a := r in let* b := concat_res l' in Ok (a ++ b)
  end.

Definition ld_heads (c : pcfg) (img : bytes) : list N :=
  map (fun o => rd_u64 (at_off img o)) (free_off c).

Definition ld_frees {P} (c : pcfg) (img : bytes) : res (list (N * slot P)) :=
  concat_res (map (ld_free (length img) img) (ld_heads c img)).

(** the table file *)
Definition bit_set (b t : N) : bool := N.testbit b t.

Definition ld_htx (img : bytes) : htx :=
  let n := rd_u64 (at_off img htx_size_offset) in
  let cnt := rd_u64 (at_off img htx_count_offset) in
  let idx := seqN' 0 (N.to_nat n) in
  let hd i := rd_u64 (at_off img (htx_header_size + 8 * i)) in
  let base := htx_header_size + 8 * n in
  let nbytes := (length img - N.to_nat base)%nat in
  Htx n
      (list_to_map (filter (fun p => negb (snd p =? 0)) (map (fun i => (i, hd i)) idx)))
      (list_to_set (filter (fun i => bit_set (nth (N.to_nat (base + i / 8)) img 0) (i mod 8))
                           (seqN' 0 (8 * nbytes))))
      cnt (blen img).

(** the key file: records reachable from the bucket heads + the free lists *)
Definition ld_keyf (h : htx) (img : bytes) : res (pfile krec) :=
  let* used := concat_res (map (fun i => ld_chain (length img) img (head_at h i)) (seqN' 0 (N.to_nat (nb h)))) in
  let* free := ld_frees key_cfg img in
  Ok (PFile (list_to_map (used ++ free)) (ld_heads key_cfg img) (blen img)).

(** the value file: the value record of every key record + the free lists *)
Fixpoint ld_vals (img : bytes) (ks : list (N * slot krec)) : res (list (N * slot bytes)) :=
  match ks with
  | [] => Ok []
  | (_, Used _ r) :: ks' =>
    let* s := p_vslot (at_off img (k_voff r)) in
    let* rest := ld_vals img ks' in
    Ok ((k_voff r, s) :: rest)
  | (_, Free _ _) :: ks' => ld_vals img ks'
  end.

Definition ld_valf (h : htx) (kimg img : bytes) : res (pfile bytes) :=
  let* ks := concat_res (map (fun i => ld_chain (length kimg) kimg (head_at h i)) (seqN' 0 (N.to_nat (nb h)))) in
  let* used := ld_vals img ks in
  let* free := ld_frees val_cfg img in
  Ok (PFile (list_to_map (used ++ free)) (ld_heads val_cfg img) (blen img)).

(** (.htx, .key, .val) -> state (flags: as after an open) *)
Definition load (t : ktype) (imgs : bytes * bytes * bytes) : res store :=
  let '(himg, kimg, vimg) := imgs in
  let h := ld_htx himg in
  let* kf := ld_keyf h kimg in
  let* vf := ld_valf h kimg vimg in
  Ok (Store t h kf vf true true).

(** the contents an independent reader recovers from the files *)
Definition contents (s : store) : res (list (bytes * bytes)) :=
  let* ks := Ok (map_to_list (slots (keyf s))) in
  Ok (omap (fun os : N * slot krec =>
              match snd os with
              | Used _ r => match slots (valf s) !! k_voff r with
                            | Some (Used _ v) => Some (k_key r, v)
                            | _ => None
                            end
              | Free _ _ => None
              end) ks).

(** ** side conditions of the round trip that are not part of [Inv]: canonical bucket map, the
    table file long enough for its bitmap, every number that is stored in 8 bytes fits 64 bits *)
Definition htx_wf (h : htx) : Prop :=
  (forall i v, buckets h !! i = Some v -> v <> 0 /\ i < nb h) /\
  htx_header_size + 8 * nb h + nb h / 8 <= hend h /\
  (forall i, i ∈ bitmap h -> htx_header_size + 8 * nb h + i / 8 < hend h).

Definition fits64 (s : store) : Prop :=
  nb (hx s) < 2 ^ 64 /\ count (hx s) < 2 ^ 64 /\ hend (hx s) < 2 ^ 64 /\
  fend (keyf s) < 2 ^ 64 /\ fend (valf s) < 2 ^ 64.
