(** * Base: result type, bytes, little/big endian integers.

    Model conventions (DESIGN.md section 4): every number is an [N]; [nat] is used for
    fuel and list lengths only.  A Rust function that can panic, fail with an I/O error
    or loop on file contents becomes a total function into [res]. *)
From Coq Require Export NArith List Lia Bool.
From stdpp Require Export base option list gmap.
Export ListNotations.
#[global] Open Scope N_scope.

(** Why a model call did not return normally.  [Panic] tags say which Rust-level
    mechanism fired (checked arithmetic, an [assert!], [unimplemented!], ...). *)
Inductive tag :=
| Overflow       (* checked integer arithmetic (dev profile) *)
| Corrupt        (* the file content read is not what the code expects at this point *)
| Unimplemented  (* unimplemented!() / explicit panic!() in the data path *)
| Misaligned     (* debug_assert!(v % 8 == 0) *)
| BadSig         (* header signature assertion on open *)
| DebugAssert    (* any other debug_assert! *)
| BadParam.      (* a parameter the crate rejects by panic (Capacity(0)) *)

Inductive res (A : Type) :=
| Ok (a : A)
| Panic (t : tag)
| IoErr
| OutOfFuel.
Arguments Ok {A} a.
Arguments Panic {A} t.
Arguments IoErr {A}.
Arguments OutOfFuel {A}.

Definition rbind {A B} (m : res A) (f : A -> res B) : res B :=
  match m with
  | Ok a => f a
  | Panic t => Panic t
  | IoErr => IoErr
  | OutOfFuel => OutOfFuel
  end.

(** [let* x := m in k] : sequencing in [res] (the computation [m] is elaborated first) *)
Notation "'let*' x := m 'in' k" := (rbind m (fun x => k))
  (at level 200, x pattern, m at level 100, k at level 200, right associativity).

Definition is_ok {A} (r : res A) : bool := match r with Ok _ => true | _ => false end.

(** A byte string.  Well-formed byte strings only hold numbers below 256. *)
Definition bytes := list N.
Definition byte_ok (b : N) : Prop := b < 256.
Definition bytes_ok (bs : bytes) : Prop := Forall byte_ok bs.
Definition bytes_okb (bs : bytes) : bool := forallb (fun b => b <? 256) bs.

Definition blen (bs : bytes) : N := N.of_nat (length bs).

Fixpoint bytes_eqb (a b : bytes) : bool :=
  match a, b with
  | [], [] => true
  | x :: a', y :: b' => (x =? y) && bytes_eqb a' b'
  | _, _ => false
  end.

Definition zeros (n : N) : bytes := repeat 0 (N.to_nat n).

(** [le_bytes n v] : the [n] low bytes of [v], least significant first. *)
Fixpoint le_bytes (n : nat) (v : N) : bytes :=
  match n with
  | O => []
  | S n' => (v mod 256) :: le_bytes n' (v / 256)
  end.

Fixpoint le_decode (bs : bytes) : N :=
  match bs with
  | [] => 0
  | b :: bs' => b + 256 * le_decode bs'
  end.

(** big endian value of a byte string (used by the placement hash) *)
Definition be_decode (bs : bytes) : N := fold_left (fun a b => a * 256 + b) bs 0.

Fixpoint be_bytes (n : nat) (v : N) : bytes :=
  match n with
  | O => []
  | S n' => be_bytes n' (v / 256) ++ [v mod 256]
  end.

(** [seqN start len] as a list of [N] *)
Definition seqN' (start : N) (len : nat) : list N := map (fun i => start + N.of_nat i) (seq 0 len).

Definition two64 : N := 18446744073709551616.   (* 2^64 *)
Definition two63 : N := 9223372036854775808.
Definition two31 : N := 2147483648.
