(** * Golden_lib: what is checked about a golden image (an image written by the pinned release). *)
From Coq Require Import String Ascii.
From Aby Require Import Base Vu64 KeyTypes Consts Sizing Alloc Htx Store Spec Refine Refine_all Layout.

Definition hexval (c : ascii) : N := let n := N_of_ascii c in if n <? 58 then n - 48 else n - 87.
Fixpoint hexb (s : string) : bytes :=
  match s with
  | String a (String b r) => (16 * hexval a + hexval b) :: hexb r
  | _ => []
  end.

Record golden := Golden {
  g_kt : ktype; g_n : N; g_ops : list dop; g_expected : list (bytes * bytes);
  g_imgs : bytes * bytes * bytes }.    (* (.htx, .key, .val) *)

Definition key_wfb (t : ktype) (k : bytes) : bool :=
  bytes_okb k && (blen k <? 2 ^ 31) &&
  match t with
  | KVu64 => match decode k with
             | Some (x, []) => (x <? 2 ^ 64) && bytes_eqb (encode x) k
             | _ => false
             end
  | _ => true
  end.
Definition val_wfb (v : bytes) : bool := bytes_okb v && (blen v <? 2 ^ 31).
Definition op_wfb (t : ktype) (o : dop) : bool :=
  match o with
  | Put k v => key_wfb t k && val_wfb v
  | Get k | Del k | Has k => key_wfb t k
  | Len | IsEmpty => true
  end.

Definition imgs_eqb (a b : bytes * bytes * bytes) : bool :=
  bytes_eqb a.1.1 b.1.1 && bytes_eqb a.1.2 b.1.2 && bytes_eqb a.2 b.2.

(** every number the layout stores in 8 bytes fits 64 bits *)
Definition fits64b (s : store) : bool :=
  (nb (hx s) <? 2 ^ 64) && (count (hx s) <? 2 ^ 64) && (hend (hx s) <? 2 ^ 64) &&
  (fend (keyf s) <? 2 ^ 64) && (fend (valf s) <? 2 ^ 64).

(** the committed history is well-formed; the model run on it from an empty map of the image's type
    and table size renders exactly the committed bytes; every expected entry is read back by the
    model and the length is the number of expected entries *)
Definition golden_ok (g : golden) : bool :=
  (1 <=? g_n g) && forallb (op_wfb (g_kt g)) (g_ops g) &&
  match store_run (create (g_kt g) (g_n g)) (g_ops g) with
  | Ok (s, _) =>
    match render s with
    | Ok imgs => imgs_eqb imgs (g_imgs g)
    | _ => false
    end &&
    forallb (fun kv : bytes * bytes =>
               key_wfb (g_kt g) kv.1 &&
               match get s kv.1 with Ok (Some v) => bytes_eqb v kv.2 | _ => false end) (g_expected g) &&
    (len s =? N.of_nat (length (g_expected g))) && fits64b s
  | _ => false
  end.
