(** * Load_all: the reader round trip closed (table part from Load_htx_proofs.v, piece files from
    Load_proofs.v), for every reachable state; the golden images as read by the independent reader. *)
From Coq Require Import Lia ZifyN ZifyNat ZifyBool.
From Aby Require Import Base Vu64 KeyTypes Consts Sizing Alloc AllocInv Htx Htx_proofs Store Spec Refine Refine_all
  Layout Load Load_proofs Load_htx_proofs Golden_lib Golden Golden_proofs.

Theorem ld_htx_closed : ld_htx_stmt.
Proof. intros sig2 h. apply ld_htx_render. Qed.

(** the well-formedness side conditions of the round trip: all are invariants of every history
    ([Inv]: Refine_all; [fits_ok]: Load_proofs; [htx_wf]: Load_htx_proofs); [fits64] bounds the
    file sizes and cannot be an invariant (files grow) *)
Definition wf_state (s : store) : Prop := Inv s /\ fits_ok s /\ htx_wf (hx s).

Theorem wf_state_create t n : 1 <= n -> wf_state (create t n).
Proof.
  intros Hn. split; [exact (proj1 (create_closed t n Hn))|]. split; [apply fits_ok_create|].
  apply htx_wf_create. exact Hn.
Qed.

Theorem wf_state_run s m ops s' outs :
  wf_state s -> represents s m -> Forall (op_wf (kt s)) ops -> store_run s ops = Ok (s', outs) ->
  wf_state s' /\ represents s' (fst (spec_run m ops)) /\ outs = snd (spec_run m ops).
Proof.
  intros (HI & Hf & Hw) HR Hops Hrun.
  destruct (run_refines s m ops HI HR Hops) as (s1 & Hr1 & HI1 & HR1 & _).
  rewrite Hrun in Hr1. injection Hr1 as <- <-.
  split; [|split; [exact HR1|reflexivity]].
  split; [exact HI1|]. split.
  - exact (fits_ok_run ops s m s' _ HI HR Hops Hf Hrun).
  - assert (Hn : 1 <= nb (hx s)) by (destruct HI as [ch [Hc _]]; exact (co_n _ _ _ Hc)).
    exact (proj1 (htx_wf_run s ops s' _ Hn Hw Hrun)).
Qed.

(** THE ROUND TRIP: the independent reader applied to the byte images of any well-formed state
    whose sizes fit 64 bits returns exactly that state (every slot of both piece files - in use or
    free -, the free-list heads, the file lengths, the bucket table, the bitmap, the item count);
    only the in-memory flags are those of a freshly opened map *)
Theorem load_render_closed s imgs :
  wf_state s -> fits64 s -> render s = Ok imgs ->
  exists s', load (kt s) imgs = Ok s' /\
     kt s' = kt s /\ hx s' = hx s /\ keyf s' = keyf s /\ valf s' = valf s.
Proof. intros (HI & Hf & Hw) H64 Hr. exact (load_render ld_htx_closed s imgs HI Hf Hw H64 Hr). Qed.

(** ... and recovers exactly the contents of the ideal map *)
Theorem load_contents_closed s m imgs :
  wf_state s -> fits64 s -> represents s m -> render s = Ok imgs ->
  exists s' l, load (kt s) imgs = Ok s' /\ contents s' = Ok l /\ l ≡ₚ map_to_list m.
Proof. intros (HI & Hf & Hw) H64 HR Hr. exact (load_contents ld_htx_closed s m imgs HI Hf Hw H64 HR Hr). Qed.

(** every state a history reaches from a created map has byte images (render is total) which the
    reader maps back to it *)
Theorem load_render_after_history t n ops :
  1 <= n -> Forall (op_wf t) ops ->
  exists s outs imgs, store_run (create t n) ops = Ok (s, outs) /\ render s = Ok imgs /\ wf_state s /\
    (fits64 s -> exists s', load t imgs = Ok s' /\ hx s' = hx s /\ keyf s' = keyf s /\ valf s' = valf s) /\
    (fits64 s -> exists s' l, load t imgs = Ok s' /\ contents s' = Ok l /\ l ≡ₚ map_to_list (fst (spec_run ∅ ops))).
Proof.
  intros Hn Hops.
  destruct (run_from_create t n ops Hn Hops) as (s & Hrun & HI & HR).
  destruct (create_closed t n Hn) as [_ HR0].
  destruct (wf_state_run (create t n) ∅ ops s _ (wf_state_create t n Hn) HR0 Hops Hrun) as (Hwf & _ & _).
  destruct (render_total s HI) as [imgs Hr].
  assert (Hkt : kt s = t).
  { destruct (run_refines (create t n) ∅ ops (proj1 (create_closed t n Hn)) HR0 Hops) as (s1 & Hr1 & _ & _ & Ht & _).
    rewrite Hrun in Hr1. injection Hr1 as <-. exact Ht. }
  exists s, (snd (spec_run ∅ ops)), imgs. split; [exact Hrun|]. split; [exact Hr|]. split; [exact Hwf|]. split.
  - intros H64. destruct (load_render_closed s imgs Hwf H64 Hr) as (s' & Hl & _ & H1 & H2 & H3).
    exists s'. rewrite Hkt in Hl. auto.
  - intros H64. destruct (load_contents_closed s _ imgs Hwf H64 HR Hr) as (s' & l & Hl & Hc & Hp).
    exists s', l. rewrite Hkt in Hl. auto.
Qed.

(** ** The golden images (written by the pinned release) under the independent reader *)

Lemma fits64b_ok s : fits64b s = true -> fits64 s.
Proof.
  unfold fits64b, fits64. intros H. repeat (apply andb_prop in H as [H ?]).
  repeat split; apply N.ltb_lt; assumption.
Qed.

(** the bytes of each golden image, read by [load], give a state with the invariant whose contents
    (as the reader recovers them) are exactly the ideal map of the committed history - and that map
    holds every committed expected entry and nothing else *)
Theorem golden_read_back g : golden_ok g = true ->
  exists s m s' l, Inv s /\ represents s m /\ m = fst (spec_run ∅ (g_ops g)) /\ render s = Ok (g_imgs g) /\
    load (g_kt g) (g_imgs g) = Ok s' /\ hx s' = hx s /\ keyf s' = keyf s /\ valf s' = valf s /\
    contents s' = Ok l /\ l ≡ₚ map_to_list m /\
    (forall k v, In (k, v) (g_expected g) -> m !! k = Some v) /\ size m = length (g_expected g).
Proof.
  intros Hok. pose proof Hok as Hok'. unfold golden_ok in Hok'.
  apply andb_prop in Hok' as [H0 Hrun]. apply andb_prop in H0 as [Hn Hw]. apply N.leb_le in Hn.
  assert (Hops : Forall (op_wf (g_kt g)) (g_ops g)).
  { apply Forall_forall. intros o Ho. apply op_wfb_ok. rewrite forallb_forall in Hw. apply Hw.
    apply elem_of_list_In. exact Ho. }
  destruct (load_render_after_history (g_kt g) (g_n g) (g_ops g) Hn Hops)
    as (s & outs & imgs & Hr & Hrender & Hwf & Hload & Hcont).
  destruct (golden_sound g Hok) as (s2 & m & HI2 & HR2 & Hm & Hrender2 & _ & _ & Hexp & Hsz).
  (* the state of golden_sound is the same run *)
  destruct (run_from_create (g_kt g) (g_n g) (g_ops g) Hn Hops) as (s3 & Hr3 & HI3 & HR3).
  assert (s3 = s) by (rewrite Hr in Hr3; injection Hr3 as ->; reflexivity). subst s3.
  (* images: golden_ok computed render of this very run *)
  rewrite Hr in Hrun. apply andb_prop in Hrun as [Hrun H64b]. apply andb_prop in Hrun as [Hrun _].
  apply andb_prop in Hrun as [Himg _].
  rewrite Hrender in Himg. apply imgs_eqb_eq in Himg. subst imgs.
  assert (H64 : fits64 s) by (apply fits64b_ok; exact H64b).
  destruct (Hload H64) as (s' & Hl & H1 & H2 & H3).
  destruct (Hcont H64) as (s'' & l & Hl' & Hc & Hp).
  rewrite Hl in Hl'. injection Hl' as <-.
  exists s, m, s', l. subst m. split; [exact HI3|]. split; [exact HR3|]. split; [reflexivity|].
  split; [exact Hrender|]. split; [exact Hl|]. split; [exact H1|]. split; [exact H2|]. split; [exact H3|].
  split; [exact Hc|]. split; [exact Hp|]. split; [exact Hexp|exact Hsz].
Qed.

Theorem all_golden_read_back g : In g all_golden ->
  exists s m s' l, Inv s /\ represents s m /\ m = fst (spec_run ∅ (g_ops g)) /\ render s = Ok (g_imgs g) /\
    load (g_kt g) (g_imgs g) = Ok s' /\ hx s' = hx s /\ keyf s' = keyf s /\ valf s' = valf s /\
    contents s' = Ok l /\ l ≡ₚ map_to_list m /\
    (forall k v, In (k, v) (g_expected g) -> m !! k = Some v) /\ size m = length (g_expected g).
Proof.
  intros Hin. apply golden_read_back. pose proof all_golden_ok as H. rewrite forallb_forall in H. exact (H g Hin).
Qed.

Print Assumptions load_render_closed.
Print Assumptions load_contents_closed.
Print Assumptions load_render_after_history.
Print Assumptions all_golden_read_back.
