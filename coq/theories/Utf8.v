(** * Utf8: [String::from_utf8_lossy] (std; modelled): valid UTF-8 is copied, every maximal invalid
    chunk - the longest prefix of a well-formed sequence that is present, or one byte - becomes
    U+FFFD (EF BF BD).  Used by the [*_string] convenience calls (get_string, delete_string,
    bulk_get_string, bulk_delete_string): they are the byte calls composed with this function. *)
From Aby Require Import Base.

Definition cont (b : N) : bool := (128 <=? b) && (b <=? 191).
Definition in_range (lo hi b : N) : bool := (lo <=? b) && (b <=? hi).
Definition repl : bytes := [239; 191; 189].

(** expected range of the second byte after lead byte [b0] of a 3- or 4-byte sequence *)
Definition second_ok (b0 b1 : N) : bool :=
  if b0 =? 224 then in_range 160 191 b1
  else if b0 =? 237 then in_range 128 159 b1
  else if b0 =? 240 then in_range 144 191 b1
  else if b0 =? 244 then in_range 128 143 b1
  else cont b1.

(** one step: (output bytes, number of input bytes consumed >= 1) *)
Definition chunk (bs : bytes) : bytes * nat :=
  match bs with
  | [] => ([], 1%nat)
  | b0 :: r =>
    if b0 <? 128 then ([b0], 1%nat)
    else if in_range 194 223 b0 then
      match r with
      | b1 :: _ => if cont b1 then ([b0; b1], 2%nat) else (repl, 1%nat)
      | [] => (repl, 1%nat)
      end
    else if in_range 224 239 b0 then
      match r with
      | b1 :: r1 =>
        if second_ok b0 b1 then
          match r1 with
          | b2 :: _ => if cont b2 then ([b0; b1; b2], 3%nat) else (repl, 2%nat)
          | [] => (repl, 2%nat)
          end
        else (repl, 1%nat)
      | [] => (repl, 1%nat)
      end
    else if in_range 240 244 b0 then
      match r with
      | b1 :: r1 =>
        if second_ok b0 b1 then
          match r1 with
          | b2 :: r2 =>
            if cont b2 then
              match r2 with
              | b3 :: _ => if cont b3 then ([b0; b1; b2; b3], 4%nat) else (repl, 3%nat)
              | [] => (repl, 3%nat)
              end
            else (repl, 2%nat)
          | [] => (repl, 2%nat)
          end
        else (repl, 1%nat)
      | [] => (repl, 1%nat)
      end
    else (repl, 1%nat)
  end.

Fixpoint lossy_go (fuel : nat) (bs : bytes) : bytes :=
  match fuel with
  | O => []
  | S f =>
    match bs with
    | [] => []
    | _ => let '(o, n) := chunk bs in o ++ lossy_go f (drop n bs)
    end
  end.

Definition lossy (bs : bytes) : bytes := lossy_go (length bs) bs.

(** the string variants of the API, as compositions *)
Definition lossy_opt (o : option bytes) : option bytes := lossy <$> o.

Lemma lossy_ascii bs : forallb (fun b => b <? 128) bs = true -> lossy bs = bs.
Proof.
  unfold lossy. induction bs as [|b bs IH]; [reflexivity|].
  cbn [forallb length lossy_go]. intros H. apply andb_prop in H as [Hb Hr].
  cbn [chunk]. rewrite Hb. cbn [app drop]. f_equal. apply IH. exact Hr.
Qed.

Example lossy_examples :
  lossy [104; 233] = [104; 239; 191; 189] /\                        (* "h" then a lone 0xE9 *)
  lossy [195; 169] = [195; 169] /\                                  (* e acute, valid *)
  lossy [226; 130] = [239; 191; 189] /\                             (* truncated 3-byte sequence: one replacement *)
  lossy [237; 160; 128] = [239; 191; 189; 239; 191; 189; 239; 191; 189] /\   (* a surrogate: three replacements *)
  lossy [240; 159; 152; 97] = [239; 191; 189; 97] /\                (* truncated 4-byte sequence then "a" *)
  lossy [255; 254] = [239; 191; 189; 239; 191; 189].
Proof. vm_compute. repeat split; reflexivity. Qed.
