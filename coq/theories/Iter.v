(** * Iter: the iterator state machine ([DbXxxIterMut], dbxxx.rs) and its five flavours. *)
From Aby Require Import Base KeyTypes Consts Sizing Alloc Htx Store.

Record iter_st := IterSt { it_rem : N; it_n : N; it_idx : N; it_koff : N }.

(** [DbXxxIterMut::new]: snapshot of bucket count and item count *)
Definition iter_new (s : store) : iter_st := IterSt (count (hx s)) (nb (hx s)) 0 0.

Definition size_hint (st : iter_st) : N := it_rem st.

(** the inner [while key_offset.is_zero() && buckets_idx < buckets_size] loop *)
Fixpoint bucket_loop (fuel : nat) (s : store) (n idx : N) : res (N * N) :=
  match fuel with
  | O => OutOfFuel
  | S f =>
    if idx <? n then
      let* (idx', off) := next_nonempty (hx s) n idx in
      if off =? 0 then bucket_loop f s n idx' else Ok (idx', off)
    else Ok (idx, 0)
  end.

(** [next_piece_offset] *)
Definition iter_next_off (s : store) (st : iter_st) : res (iter_st * option N) :=
  let* k1 := (if it_koff st =? 0 then Ok 0
              else let* r := read_krec s (it_koff st) in Ok (k_next r)) in
  let* (idx2, k2) := (if k1 =? 0 then bucket_loop (S (N.to_nat (it_n st))) s (it_n st) (it_idx st)
                      else Ok (it_idx st, k1)) in
  if (k2 =? 0) || (it_rem st =? 0) then Ok (IterSt (it_rem st) (it_n st) idx2 k2, None)
  else Ok (IterSt (it_rem st - 1) (it_n st) idx2 k2, Some k2).

(** [Iterator::next] of [DbXxxIterMut] *)
Definition iter_next (s : store) (st : iter_st) : res (iter_st * option (bytes * bytes)) :=
  let* (st', o) := iter_next_off s st in
  match o with
  | None => Ok (st', None)
  | Some koff =>
    let* r := read_krec s koff in
    let* v := read_val s (k_voff r) in
    Ok (st', Some (k_key r, v))
  end.

(** run to the first [None]: the items with the size hint seen before each step *)
Fixpoint iter_collect (fuel : nat) (s : store) (st : iter_st) (acc : list (N * (bytes * bytes)))
  : res (list (N * (bytes * bytes)) * iter_st) :=
  match fuel with
  | O => OutOfFuel
  | S f =>
    let* (st', o) := iter_next s st in
    match o with
    | None => Ok (rev acc, st')
    | Some kv => iter_collect f s st' ((size_hint st, kv) :: acc)
    end
  end.

Fixpoint iter_extra (n : nat) (s : store) (st : iter_st) : res (list (option (bytes * bytes))) :=
  match n with
  | O => Ok []
  | S n' =>
    let* (st', o) := iter_next s st in
    let* rest := iter_extra n' s st' in
    Ok (o :: rest)
  end.

(** a complete traversal as the runner observes it: items with hints, the hint at the end,
    and what two further [next] calls return *)
Definition iter_run (s : store) : res (list (N * (bytes * bytes)) * N * list (option (bytes * bytes))) :=
  let* (items, st) := iter_collect (S (S (N.to_nat (count (hx s))))) s (iter_new s) [] in
  let* ex := iter_extra 2 s st in
  Ok (items, size_hint st, ex).

Definition iter_all (s : store) : res (list (bytes * bytes)) :=
  let* (items, _) := iter_collect (S (S (N.to_nat (count (hx s))))) s (iter_new s) [] in
  Ok (map snd items).
