(** * Io_world_w: the directory of several maps ([Io_world]) with sessions whose histories also contain
    full traversals and statistics calls ([Io_wrun]).

    Same directory, same file names, same creation and open; a session runs [Io_wrun.wio_run].
    Proved: the frame (only the three files of the map of the session change); every session -
    on a map of the directory or on a new name - returns, call by call, the results of the
    record-level run, which are what the ideal map of that moment says (a traversal: a permutation
    of it with exact hints); any interleaving of sessions keeps the directory [render] of each
    map's own state. *)
From Coq Require Import Lia ZifyN ZifyNat ZifyBool.
From Aby Require Import Base Vu64 Hash KeyTypes Consts Sizing Alloc AllocInv Htx Store Iter Stats Spec Refine Refine_all Layout Load Load_all
  Cache Io Io_base Io_htx Io_run Io_create Io_proofs Io_open Io_wrun Names Io_world.
Import Io.
#[local] Open Scope N_scope.

Definition wsession (d : dir) (name : bytes) (t : ktype) (n : N) (bk bv bh : bufkind) (ops : list wop) : res (dir * list wout) :=
  match d !! fname name FHtx, d !! fname name FKey, d !! fname name FVal with
  | None, None, None =>
    let* m0 := create t n bk bv bh in
    let* (m1, outs) := wio_run m0 ops in
    Ok (dir_put d name m1, outs)
  | Some h, Some k, Some v =>
    let* (o, _) := open_existing t (reopen_st k v h bk bv bh) in
    match o with
    | Opened m0 => let* (m1, outs) := wio_run m0 ops in Ok (dir_put d name m1, outs)
    | RejectedAt _ => Panic BadSig
    | FreshFile _ => Panic Unimplemented
    end
  | _, _, _ => Panic Unimplemented
  end.

(** without traversals and statistics it is [Io_world.session] *)
Lemma wio_run_calls ops : forall m,
  wio_run m (map WCall ops) = (let* (m', outs) := io_run m ops in Ok (m', map WRes outs)).
Proof.
  induction ops as [|o ops IH]; intros m; cbn [map wio_run io_run]; [reflexivity|].
  cbn [wio_step]. destruct (io_step m o) as [[m1 r]| | |]; cbn [rbind]; try reflexivity.
  rewrite IH. destruct (io_run m1 ops) as [[m2 rs]| | |]; reflexivity.
Qed.

Theorem wsession_of_calls d name t n bk bv bh ops :
  wsession d name t n bk bv bh (map WCall ops) =
  (let* (d', outs) := session d name t n bk bv bh ops in Ok (d', map WRes outs)).
Proof.
  unfold wsession, session.
  destruct (d !! fname name FHtx) as [h|], (d !! fname name FKey) as [k|], (d !! fname name FVal) as [v|]; try reflexivity.
  - destruct (open_existing t (reopen_st k v h bk bv bh)) as [[o st1]| | |]; cbn [rbind]; try reflexivity.
    destruct o as [m0|f|f]; try reflexivity.
    rewrite wio_run_calls. destruct (io_run m0 ops) as [[m1 o1]| | |]; reflexivity.
  - destruct (create t n bk bv bh) as [m0| | |]; cbn [rbind]; try reflexivity.
    rewrite wio_run_calls. destruct (io_run m0 ops) as [[m1 o1]| | |]; reflexivity.
Qed.

Theorem wsession_frame d name t n bk bv bh ops d' outs :
  wsession d name t n bk bv bh ops = Ok (d', outs) ->
  forall fn, (forall f, fn <> fname name f) -> d' !! fn = d !! fn.
Proof.
  unfold wsession. intros H fn Hfn.
  destruct (d !! fname name FHtx) as [h|], (d !! fname name FKey) as [k|], (d !! fname name FVal) as [v|]; try discriminate H.
  - destruct (open_existing t (reopen_st k v h bk bv bh)) as [[o st1]| | |]; cbn [rbind] in H; try discriminate H.
    destruct o as [m0|f|f]; try discriminate H.
    destruct (wio_run m0 ops) as [[m1 o1]| | |]; cbn [rbind] in H; try discriminate H.
    injection H as <- _. apply dir_put_other. exact Hfn.
  - destruct (create t n bk bv bh) as [m0| | |]; cbn [rbind] in H; try discriminate H.
    destruct (wio_run m0 ops) as [[m1 o1]| | |]; cbn [rbind] in H; try discriminate H.
    injection H as <- _. apply dir_put_other. exact Hfn.
Qed.

Lemma DRep_put d g name m s' :
  DRep d g -> wf_state s' -> render s' = Ok (images m) -> DRep (dir_put d name m) (<[name := s']> g).
Proof.
  intros HD Hwf' Hr' name'. destruct (decide (name' = name)) as [->|Hne].
  - rewrite lookup_insert. split; [exact Hwf'|]. apply holds_put. exact Hr'.
  - rewrite lookup_insert_ne by congruence. pose proof (HD name') as Hn'.
    assert (Hfr : forall f, dir_put d name m !! fname name' f = d !! fname name' f).
    { intros f. apply dir_put_other. intros f' E. destruct (fname_inj _ _ _ _ E) as [E' _]. exact (Hne E'). }
    destruct (g !! name') as [s0|].
    + destruct Hn' as [A B]. split; [exact A|]. exact (holds_frame _ _ _ _ Hfr B).
    + intros f. rewrite Hfr. apply Hn'.
Qed.

Theorem wsession_on_existing d g name s sp bk bv bh n ops :
  DRep d g -> g !! name = Some s -> represents s sp ->
  Forall (wop_wf (kt s)) ops -> wsized s ops ->
  exists s' d' outs,
    wstore_run s ops = Ok (s', outs) /\
    wsession d name (kt s) n bk bv bh ops = Ok (d', outs) /\
    wagree_run sp ops outs /\
    represents s' (wspec_run sp ops) /\ kt s' = kt s /\
    DRep d' (<[name := s']> g).
Proof.
  intros HD Hg Hrep Hops Hsz.
  pose proof (HD name) as Hn. rewrite Hg in Hn. destruct Hn as (Hwf & h & k & v & Hr & Eh & Ek & Ev).
  destruct (Io_reopen_then_whistory s sp h k v (reopen_st k v h bk bv bh) ops Hwf Hrep Hr eq_refl
              ltac:(cbn [reopen_st get_file s_key fcs]; apply chunk_of_pos; vm_compute; reflexivity)
              ltac:(cbn [reopen_st get_file s_val fcs]; apply chunk_of_pos; vm_compute; reflexivity)
              Hops Hsz)
    as (m & st1 & s' & m' & outs & Eo & Hrun & Hio & (Hr' & _) & Hwf' & Hrep' & Hag).
  exists s', (dir_put d name m'), outs.
  split; [exact Hrun|].
  split; [unfold wsession; rewrite Eh, Ek, Ev, Eo; cbn [rbind]; rewrite Hio; reflexivity|].
  split; [exact Hag|]. split; [exact Hrep'|].
  split.
  { pose proof Hwf as (HI & _).
    destruct (wsized_here _ _ Hsz) as [H64 _].
    destruct (Io_open_same_type s h k v (reopen_st k v h bk bv bh) Hwf H64 Hr eq_refl) as (m2 & st2 & E2 & _ & Hkt2 & Hn2 & Him2 & Hst2 & Hcs2).
    assert (Hsim : simg s m2).
    { unfold simg. rewrite Him2. split; [exact Hr|]. split; [exact Hkt2|]. split; [exact Hn2|].
      rewrite Hst2, !Hcs2. cbn [reopen_st get_file s_key s_val fcs]. split; apply chunk_of_pos; vm_compute; reflexivity. }
    destruct (wio_run_refines ops s sp m2 Hwf Hrep Hsim Hops Hsz) as (s2 & _ & outs2 & Hrun2 & _ & _ & _ & _ & Hkt & _).
    rewrite Hrun in Hrun2. injection Hrun2 as <- _. exact Hkt. }
  apply DRep_put; assumption.
Qed.

Theorem wsession_on_new d g name t n bk bv bh ops :
  DRep d g -> g !! name = None -> 1 <= n ->
  Forall (wop_wf t) ops -> wsized (Store.create t n) ops ->
  exists s' d' outs,
    wstore_run (Store.create t n) ops = Ok (s', outs) /\
    wsession d name t n bk bv bh ops = Ok (d', outs) /\
    wagree_run ∅ ops outs /\
    represents s' (wspec_run ∅ ops) /\ kt s' = t /\
    DRep d' (<[name := s']> g).
Proof.
  intros HD Hg Hn Hops Hsz.
  pose proof (HD name) as Hab. rewrite Hg in Hab.
  destruct (Io_create t n bk bv bh Hn) as (m0 & Hc & Hr0 & Hkt0 & Hn0 & Hcs0).
  destruct (create_closed t n Hn) as [HI0 HR0].
  pose proof (wf_state_create t n Hn) as Hwf0.
  assert (Hsim : simg (Store.create t n) m0).
  { unfold simg. split; [exact Hr0|]. split; [exact Hkt0|]. split; [rewrite Hn0; reflexivity|]. split; apply Hcs0. }
  assert (Hops' : Forall (wop_wf (kt (Store.create t n))) ops) by exact Hops.
  destruct (wio_run_refines ops _ ∅ m0 Hwf0 HR0 Hsim Hops' Hsz) as (s' & m' & outs & Hrun & Hio & (Hr' & _) & Hwf' & Hrep' & Hkt & _).
  exists s', (dir_put d name m'), outs.
  split; [exact Hrun|].
  split; [unfold wsession; rewrite (Hab FHtx), (Hab FKey), (Hab FVal), Hc; cbn [rbind]; rewrite Hio; reflexivity|].
  split; [exact (wstore_run_agrees ops _ ∅ s' outs Hwf0 HR0 Hops' Hsz Hrun)|].
  split; [exact Hrep'|]. split; [exact Hkt|].
  apply DRep_put; assumption.
Qed.

(** ** any interleaving of sessions *)
Record wreq := WReq { w_name : bytes; w_kt : ktype; w_n : N; w_bk : bufkind; w_bv : bufkind; w_bh : bufkind; w_ops : list wop }.

Fixpoint wdir_run (d : dir) (qs : list wreq) : res (dir * list (list wout)) :=
  match qs with
  | [] => Ok (d, [])
  | q :: qs' =>
    let* (d1, o) := wsession d (w_name q) (w_kt q) (w_n q) (w_bk q) (w_bv q) (w_bh q) (w_ops q) in
    let* (d2, os) := wdir_run d1 qs' in
    Ok (d2, o :: os)
  end.

(** the ideal world after the sessions, and what every result has to be in it *)
Fixpoint wideal_run (iw : ideal) (qs : list wreq) : ideal :=
  match qs with
  | [] => iw
  | q :: qs' => wideal_run (<[w_name q := wspec_run (default ∅ (iw !! w_name q)) (w_ops q)]> iw) qs'
  end.
Fixpoint wagree_sessions (iw : ideal) (qs : list wreq) (outs : list (list wout)) : Prop :=
  match qs, outs with
  | [], [] => True
  | q :: qs', o :: outs' =>
    wagree_run (default ∅ (iw !! w_name q)) (w_ops q) o /\
    wagree_sessions (<[w_name q := wspec_run (default ∅ (iw !! w_name q)) (w_ops q)]> iw) qs' outs'
  | _, _ => False
  end.

Fixpoint wreqs_ok (g : gmap bytes store) (qs : list wreq) : Prop :=
  match qs with
  | [] => True
  | q :: qs' =>
    let s := default (Store.create (w_kt q) (w_n q)) (g !! w_name q) in
    kt s = w_kt q /\ 1 <= w_n q /\ Forall (wop_wf (w_kt q)) (w_ops q) /\ wsized s (w_ops q) /\
    forall s' outs, wstore_run s (w_ops q) = Ok (s', outs) -> wreqs_ok (<[w_name q := s']> g) qs'
  end.

Theorem wsessions_refine_ideal_maps qs : forall d g iw,
  DRep d g -> GRep g iw -> wreqs_ok g qs ->
  exists d' g' outs, wdir_run d qs = Ok (d', outs) /\ wagree_sessions iw qs outs /\ DRep d' g' /\ GRep g' (wideal_run iw qs).
Proof.
  induction qs as [|q qs IH]; intros d g iw HD HG Hok.
  - exists d, g, []. cbn. auto.
  - cbn [wreqs_ok] in Hok. destruct Hok as (Hkt & Hn & Hops & Hsz & Hnext).
    cbn [wdir_run wideal_run wagree_sessions].
    pose proof (HG (w_name q)) as Hgn.
    destruct (g !! w_name q) as [s|] eqn:Eg.
    + destruct (iw !! w_name q) as [sp|] eqn:Ei; [|destruct Hgn]. cbn [default from_option] in *; unfold id in *.
      rewrite <- Hkt in Hops.
      destruct (wsession_on_existing d g (w_name q) s sp (w_bk q) (w_bv q) (w_bh q) (w_n q) (w_ops q) HD Eg Hgn Hops Hsz)
        as (s' & d1 & o & Hrun & Hs & Hag & Hrep' & _ & HD1).
      rewrite Hkt in Hs. rewrite Hs. cbn [rbind].
      assert (HG1 : GRep (<[w_name q := s']> g) (<[w_name q := wspec_run sp (w_ops q)]> iw)).
      { intros nm. destruct (decide (nm = w_name q)) as [->|Hne]; [rewrite lookup_insert, lookup_insert; exact Hrep'|].
        rewrite lookup_insert_ne, lookup_insert_ne by congruence. apply HG. }
      destruct (IH d1 _ _ HD1 HG1 (Hnext _ _ Hrun)) as (d' & g' & outs & Hr & Hags & HD' & HG').
      exists d', g', (o :: outs). rewrite Hr. cbn [rbind]. auto.
    + destruct (iw !! w_name q) as [sp|] eqn:Ei; [destruct Hgn|]. cbn [default from_option] in *; unfold id in *.
      destruct (wsession_on_new d g (w_name q) (w_kt q) (w_n q) (w_bk q) (w_bv q) (w_bh q) (w_ops q) HD Eg Hn Hops Hsz)
        as (s' & d1 & o & Hrun & Hs & Hag & Hrep' & _ & HD1).
      rewrite Hs. cbn [rbind].
      assert (HG1 : GRep (<[w_name q := s']> g) (<[w_name q := wspec_run ∅ (w_ops q)]> iw)).
      { intros nm. destruct (decide (nm = w_name q)) as [->|Hne]; [rewrite lookup_insert, lookup_insert; exact Hrep'|].
        rewrite lookup_insert_ne, lookup_insert_ne by congruence. apply HG. }
      destruct (IH d1 _ _ HD1 HG1 (Hnext _ _ Hrun)) as (d' & g' & outs & Hr & Hags & HD' & HG').
      exists d', g', (o :: outs). rewrite Hr. cbn [rbind]. auto.
Qed.

Print Assumptions wsessions_refine_ideal_maps.
Print Assumptions wsession_frame.
Print Assumptions wsession_of_calls.
