(** * Vu64: the prefix-length varint of the [vu64] crate (dependency, modelled).

    | first byte | total bytes | payload bits |
    | 0xxxxxxx   | 1 | 7  |   10xxxxxx | 2 | 14 |  ...  | 11111110 | 8 | 56 | 11111111 | 9 | 64 |

    For 2 <= L <= 7 the first byte is [L-1] one bits, a zero bit and the low [8-L] bits of the
    value; the remaining bits follow little endian in [L-1] bytes.  [decode] rejects redundant
    (non-minimal) encodings exactly as the crate does. *)
From Aby Require Import Base.

Definition enc_len (v : N) : N :=
  if v <? 128 then 1                        (* 2^7  *)
  else if v <? 16384 then 2                 (* 2^14 *)
  else if v <? 2097152 then 3               (* 2^21 *)
  else if v <? 268435456 then 4             (* 2^28 *)
  else if v <? 34359738368 then 5           (* 2^35 *)
  else if v <? 4398046511104 then 6         (* 2^42 *)
  else if v <? 562949953421312 then 7       (* 2^49 *)
  else if v <? 72057594037927936 then 8     (* 2^56 *)
  else 9.

Definition encode (v : N) : bytes :=
  let L := enc_len v in
  if L =? 1 then [v]
  else if L <=? 7 then
    (256 - 2 ^ (9 - L) + v mod 2 ^ (8 - L)) :: le_bytes (N.to_nat (L - 1)) (v / 2 ^ (8 - L))
  else if L =? 8 then 254 :: le_bytes 7 v
  else 255 :: le_bytes 8 v.

(** total length announced by a first byte: number of leading one bits + 1 *)
Definition dec_len (b0 : N) : N :=
  if b0 <? 128 then 1
  else if b0 <? 192 then 2
  else if b0 <? 224 then 3
  else if b0 <? 240 then 4
  else if b0 <? 248 then 5
  else if b0 <? 252 then 6
  else if b0 <? 254 then 7
  else if b0 <? 255 then 8
  else 9.

(** [decode bs] reads one varint from the front of [bs]: value and remaining bytes.
    [None]: truncated input or redundant encoding. *)
Definition decode (bs : bytes) : option (N * bytes) :=
  match bs with
  | [] => None
  | b0 :: rest =>
    let L := dec_len b0 in
    let fl := N.to_nat (L - 1) in
    if Nat.ltb (length rest) fl then None
    else
      let follow := le_decode (take fl rest) in
      let v :=
        if L =? 1 then b0
        else if L <=? 7 then follow * 2 ^ (8 - L) + b0 mod 2 ^ (8 - L)
        else follow in
      if (L =? 1) || (2 ^ (7 * (L - 1)) <=? v) then Some (v, drop fl rest) else None
  end.
