(** * Io_open_any: opening ANY files - short, foreign, garbage - at byte level.

    [Io_open.open_existing_spec] holds for every state: the outcome of the open is a pure function
    of the three byte strings, whatever they are, and the open is a read-only step.  This file
    draws the consequences for files that are not images of a map: a file that is not empty and
    whose first 16 bytes (as far as they exist; what is beyond the end reads as zero, as with the
    real buffered file) are not signature1 followed by the signature of the requested key type is
    refused at that file, and nothing is written - for every length, in particular for files
    shorter than their header. *)
From Aby Require Import Base Vu64 KeyTypes KeyTypes_proofs Consts Sizing Alloc Htx Store Layout Open Open_proofs Cache Io Io_base Io_htx Io_open.
Import Io.

Definition foreign_hdr (sg1 sg2 b : bytes) : Prop :=
  blen b <> 0 /\ (fld b 0 <> sg1 \/ fld b 8 <> sg2).

Lemma hdr_pure_foreign sg1 sg2 ok b : foreign_hdr sg1 sg2 b -> hdr_pure sg1 sg2 ok b = HdrBad.
Proof.
  intros [Hn Hd]. unfold hdr_pure.
  destruct (blen b =? 0) eqn:E; [apply N.eqb_eq in E; contradiction|].
  destruct Hd as [Hd|Hd].
  - rewrite (bytes_eqb_neq _ _ Hd). reflexivity.
  - destruct (bytes_eqb (fld b 0) sg1); [|reflexivity]. cbn [negb].
    rewrite (bytes_eqb_neq _ _ Hd). reflexivity.
Qed.

(** which file of the three is looked at *)
Definition passes_before (t : ktype) (s : st) (f : fid) : Prop :=
  match f with
  | FKey => True
  | FVal => key_verdict t (fb (s_key s)) = HdrOk
  | FHtx => key_verdict t (fb (s_key s)) = HdrOk /\ val_verdict t (fb (s_val s)) = HdrOk
  end.

Definition sig1_of (f : fid) : bytes :=
  match f with FKey => sig1 key_cfg | FVal => sig1 val_cfg | FHtx => htx_signature end.

Theorem open_any_foreign_rejected t s f :
  passes_before t s f -> foreign_hdr (sig1_of f) (sig_of t) (fb (get_file s f)) ->
  exists s', open_existing t s = Ok (RejectedAt f, s') /\ ro_step s s' /\ st_images s' = st_images s.
Proof.
  intros Hp Hf. destruct (open_existing_spec t s) as (s' & E & R).
  exists s'. split; [|split; [exact R|apply ro_step_images; exact R]].
  rewrite E. f_equal. f_equal. unfold open_pure, st_images.
  destruct f; cbn [passes_before get_file sig1_of] in Hp, Hf.
  - unfold key_verdict. rewrite (hdr_pure_foreign _ _ _ _ Hf). reflexivity.
  - rewrite Hp. unfold val_verdict. rewrite (hdr_pure_foreign _ _ _ _ Hf). reflexivity.
  - destruct Hp as [Hk Hv]. rewrite Hk, Hv. unfold htx_verdict. rewrite (hdr_pure_foreign _ _ _ _ Hf). reflexivity.
Qed.

(** an accepted open saw the right 16 bytes in all three files, and a bucket count that is not zero *)
Theorem open_any_accepted_has_signatures t s m s' :
  open_existing t s = Ok (Opened m, s') ->
  forall f, blen (fb (get_file s f)) <> 0 /\ fld (fb (get_file s f)) 0 = sig1_of f /\ fld (fb (get_file s f)) 8 = sig_of t.
Proof.
  intros H. destruct (open_existing_spec t s) as (s1 & E & _). rewrite E in H.
  injection H as Ho _. unfold open_pure, st_images in Ho.
  assert (A : forall sg1 sg2 ok b, hdr_pure sg1 sg2 ok b = HdrOk -> blen b <> 0 /\ fld b 0 = sg1 /\ fld b 8 = sg2).
  { intros sg1 sg2 ok b. unfold hdr_pure.
    destruct (blen b =? 0) eqn:Ez; [discriminate|]. apply N.eqb_neq in Ez.
    destruct (bytes_eqb (fld b 0) sg1) eqn:E1; [|discriminate]. cbn [negb].
    destruct (bytes_eqb (fld b 8) sg2) eqn:E2; [|discriminate]. cbn [negb].
    intros _. apply bytes_eqb_eq in E1, E2. auto. }
  destruct (key_verdict t (fb (s_key s))) eqn:Ek; try discriminate Ho.
  destruct (val_verdict t (fb (s_val s))) eqn:Ev; try discriminate Ho.
  destruct (htx_verdict t (fb (s_htx s))) eqn:Eh; try discriminate Ho.
  intros [| |]; cbn [get_file sig1_of]; eapply A; eassumption.
Qed.

(** a table file cut to its first 16 bytes and opened as another key type: refused at the table
    file, nothing written (the seeded change C13d made the crate treat such a file as new) *)
Example ex_short_foreign_table :
  (let* m := ex_map in
   let '(h, k, v) := Io.images m in
   let h16 := htx_signature ++ sig_of KString in
   let* (o, s1) := open_existing KBytes (reopen_st k v h16 BufAuto BufAuto BufAuto) in
   let '(h', k', v') := st_images s1 in
   Ok (blen h16, match o with RejectedAt f => Some f | _ => None end,
       bytes_eqb h' h16 && bytes_eqb k' k && bytes_eqb v' v))
  = Ok (16, Some FHtx, true).
Proof. vm_compute. reflexivity. Qed.

Print Assumptions open_any_foreign_rejected.
Print Assumptions open_any_accepted_has_signatures.
