(** * AllocInv: the allocator invariant of a piece file and the specifications of the
    allocator operations (statements; the proofs are in AllocInv_proofs.v).

    [alloc_inv c f frees]: the slots tile [hdr_size, fend) without gaps or overlaps, each slot has
    a size the allocator can produce, free list [i] is exactly the list [frees i] of free slots
    whose size belongs to class [i], no slot is on two lists or twice on one, and every free slot
    is on a list.  [used f] is the abstract view the layers above work with: offset -> payload. *)
From Aby Require Import Base Vu64 Consts Sizing Alloc.

Section inv.
Context {P : Type}.
Variable c : pcfg.

(** the offsets of free list [head], in list order *)
Inductive flist (f : pfile P) : N -> list N -> Prop :=
| fl_nil : flist f 0 []
| fl_cons off sz nxt l :
    off <> 0 -> slots f !! off = Some (Free sz nxt) -> flist f nxt l -> flist f off (off :: l).

(** the sequential slot walk from [off] to the end of the file *)
Inductive tiles (f : pfile P) : N -> list N -> Prop :=
| t_nil : tiles f (fend f) []
| t_cons off s l :
    slots f !! off = Some s -> valid_slot_size c (slot_size s) ->
    tiles f (off + slot_size s) l -> tiles f off (off :: l).

Definition nclasses : nat := length (free_off c).

Record alloc_inv (f : pfile P) (frees : nat -> list N) : Prop := {
  ai_heads : length (heads f) = nclasses;
  ai_tiles : exists l, tiles f (hdr_size c) l /\ (forall off, is_Some (slots f !! off) <-> off ∈ l);
  ai_lists : forall i, (i < nclasses)%nat -> flist f (head_of f i) (frees i);
  ai_class : forall i off, (i < nclasses)%nat -> off ∈ frees i ->
             exists sz nxt, slots f !! off = Some (Free sz nxt) /\ class_idx c sz = Ok i;
  ai_nodup : NoDup (concat (map frees (seq 0 nclasses)));
  ai_listed : forall off sz nxt, slots f !! off = Some (Free sz nxt) ->
              exists i, (i < nclasses)%nat /\ off ∈ frees i;
  ai_fend : hdr_size c <= fend f }.

Definition AInv (f : pfile P) : Prop := exists frees, alloc_inv f frees.

(** offset -> payload of the slots in use *)
Definition used (f : pfile P) : gmap N P :=
  omap (fun s => match s with Used _ p => Some p | Free _ _ => None end) (slots f).

(** no free slot could serve a request of (rounded) size [nsz] *)
Definition no_suitable_free (f : pfile P) (nsz : N) : Prop :=
  forall off sz nxt, slots f !! off = Some (Free sz nxt) ->
    if is_large c nsz then sz < nsz else sz <> nsz.

(** ** Specifications (proved in AllocInv_proofs.v) *)

Definition create_spec : Prop :=
  AInv (pf_create c) /\ used (pf_create c) = ∅.

(** a new piece: never fails, lands on an offset that was not in use, everything else is kept;
    the file grows exactly when no free slot is suitable *)
Definition write_new_spec : Prop :=
  forall f need p, AInv f -> 0 < need ->
  exists f' off sz,
    write_piece c need f None p = Ok (f', off, sz) /\
    AInv f' /\
    used f' = <[off := p]> (used f) /\ used f !! off = None /\
    off <> 0 /\ off mod 8 = 0 /\ hdr_size c <= off /\
    slots f' !! off = Some (Used sz p) /\
    roundup c need <= sz /\ valid_slot_size c sz /\
    (fend f < fend f' <-> no_suitable_free f (roundup c need)) /\
    (fend f' = fend f \/ (off = fend f /\ fend f' = fend f + roundup c need)) /\
    (forall o sz0 q, o <> off -> slots f !! o = Some (Used sz0 q) -> slots f' !! o = Some (Used sz0 q)).

(** rewriting the piece at [off]: in place when the rounded need fits the old slot, else the
    old slot is freed and a new one allocated *)
Definition write_old_spec : Prop :=
  forall f need off p0 p, AInv f -> 0 < need -> used f !! off = Some p0 ->
  exists f' off' sz,
    write_piece c need f (Some off) p = Ok (f', off', sz) /\
    AInv f' /\
    used f' = <[off' := p]> (delete off (used f)) /\
    (off' = off \/ used f !! off' = None) /\
    off' <> 0 /\ off' mod 8 = 0 /\ hdr_size c <= off' /\
    slots f' !! off' = Some (Used sz p) /\
    roundup c need <= sz /\ valid_slot_size c sz /\
    (off' = off <-> (exists osz, slots f !! off = Some (Used osz p0) /\ roundup c need <= osz)) /\
    (forall o sz0 q, o <> off -> o <> off' -> slots f !! o = Some (Used sz0 q) -> slots f' !! o = Some (Used sz0 q)).

Definition delete_spec : Prop :=
  forall f off p0, AInv f -> used f !! off = Some p0 ->
  exists f',
    delete_piece c f off = Ok f' /\
    AInv f' /\ used f' = delete off (used f) /\ fend f' = fend f /\
    (forall o sz0 q, o <> off -> slots f !! o = Some (Used sz0 q) -> slots f' !! o = Some (Used sz0 q)).

(** facts about the invariant the layers above need *)
Definition used_facts : Prop :=
  forall f, AInv f ->
    (forall off p, used f !! off = Some p <-> exists sz, slots f !! off = Some (Used sz p)) /\
    (forall off p, used f !! off = Some p -> off <> 0 /\ off mod 8 = 0 /\ hdr_size c <= off /\ off < fend f) /\
    (size (used f) <= size (slots f))%nat /\
    (forall off sz p, slots f !! off = Some (Used sz p) -> valid_slot_size c sz /\ off + sz <= fend f).

(** C06: every slot is in use or on exactly one free list, never both; the slots tile the file;
    the statistics walks terminate with the exact figures *)
Definition partition_spec : Prop :=
  forall f frees, alloc_inv f frees ->
    (forall off s, slots f !! off = Some s ->
       match s with
       | Used _ _ => forall i, (i < nclasses)%nat -> off ∉ frees i
       | Free _ _ => exists i, (i < nclasses)%nat /\ off ∈ frees i /\
                     (forall j, (j < nclasses)%nat -> off ∈ frees j -> j = i) /\
                     length (filter (fun o => o = off) (frees i)) = 1%nat
       end).

Definition walk_spec : Prop :=
  forall f, AInv f ->
    exists l, all_slots c f = Ok l /\
      (forall off s, (off, s) ∈ l <-> slots f !! off = Some s) /\ NoDup (map fst l) /\
      tiles f (hdr_size c) (map fst l).

Definition count_free_spec : Prop :=
  forall f frees sz i, alloc_inv f frees -> class_idx c sz = Ok i -> (i < nclasses)%nat ->
    count_free_list c f sz = Ok (N.of_nat (length (frees i))).

End inv.
