(** * Io_world: a DIRECTORY of several maps at byte level (C11).

    [Io] models the I/O of one map on three flat files.  A database directory holds the files of
    many maps; which file belongs to which map is decided by the file NAME alone
    ([Names.file_name]: [name ++ ".htx"], [".key"], [".val"]).  Here a directory is a finite map
    from file names to byte strings, and a SESSION on the map called [name] is what the crate
    does between the first lookup of that name and the drop of its last handle:

    - look the three file names up; none exists: create the three files ([Io.create]);
      all three exist: open them ([Io.open_existing] - the header checks);
    - run the calls with their real seeks, reads and writes ([Io_run.io_run]);
    - leave the three byte strings in the directory under the three names.

    (A directory holding only one or two of the three files of a name is not modelled: the crate
    would write fresh headers into the missing ones; [session] answers [Panic Unimplemented] and
    the theorems assume it away.)

    Proved: (1) FRAME - a session on [name] changes no file of the directory other than the
    three files of [name]; in particular every file of every map called otherwise is byte for byte
    what it was - whatever bytes the names contain ([Names.file_name_inj]); (2) REFINEMENT - in a
    directory that holds, for each name of a ghost table [g], [render] of a well-formed
    record-level state, a session on any name (present in [g]: opened; absent: created) returns
    what the record-level model and the ideal map return for that map, and the new directory
    holds [render] of the new state under that name and of the OLD states under all the others;
    (3) hence any interleaving of sessions on several maps behaves, map by map, like independent
    ideal maps. *)
From Coq Require Import Lia ZifyN ZifyNat ZifyBool.
From Aby Require Import Base Vu64 Hash KeyTypes Consts Sizing Alloc AllocInv Htx Store Iter Stats Spec Refine Refine_all Layout Load Load_all
  Cache Io Io_base Io_htx Io_run Io_create Io_proofs Io_open Names.
Import Io.
#[local] Open Scope N_scope.

Notation dir := (gmap bytes bytes).

Definition kind_of (f : fid) : fkind := match f with FKey => KKey | FVal => KVal | FHtx => KHtx end.
Definition fname (name : bytes) (f : fid) : bytes := file_name name (kind_of f).

(** the files a session leaves *)
Definition dir_put (d : dir) (name : bytes) (m : mp) : dir :=
  <[fname name FHtx := fb (s_htx (m_st m))]>
  (<[fname name FKey := fb (s_key (m_st m))]>
  (<[fname name FVal := fb (s_val (m_st m))]> d)).

Definition session (d : dir) (name : bytes) (t : ktype) (n : N) (bk bv bh : bufkind) (ops : list dop) : res (dir * list dout) :=
  match d !! fname name FHtx, d !! fname name FKey, d !! fname name FVal with
  | None, None, None =>
    let* m0 := create t n bk bv bh in
    let* (m1, outs) := io_run m0 ops in
    Ok (dir_put d name m1, outs)
  | Some h, Some k, Some v =>
    let* (o, _) := open_existing t (reopen_st k v h bk bv bh) in
    match o with
    | Opened m0 => let* (m1, outs) := io_run m0 ops in Ok (dir_put d name m1, outs)
    | RejectedAt _ => Panic BadSig
    | FreshFile _ => Panic Unimplemented
    end
  | _, _, _ => Panic Unimplemented
  end.

(** ** 1. frame *)

Lemma fname_inj n1 f1 n2 f2 : fname n1 f1 = fname n2 f2 -> n1 = n2 /\ f1 = f2.
Proof.
  unfold fname. intros H. destruct (file_name_inj _ _ _ _ H) as [Hn Hk]. split; [exact Hn|].
  destruct f1, f2; cbn in Hk; try reflexivity; discriminate Hk.
Qed.

Lemma dir_put_other d name m fn : (forall f, fn <> fname name f) -> dir_put d name m !! fn = d !! fn.
Proof.
  intros H. unfold dir_put.
  rewrite !lookup_insert_ne; [reflexivity| | |]; intros E; symmetry in E; exact (H _ E).
Qed.

Lemma dir_put_own d name m f : dir_put d name m !! fname name f = Some (fb (get_file (m_st m) f)).
Proof.
  unfold dir_put. destruct f; cbn [get_file].
  - rewrite lookup_insert_ne; [|intros E; destruct (fname_inj _ _ _ _ E) as [_ E']; discriminate E'].
    rewrite lookup_insert. reflexivity.
  - rewrite lookup_insert_ne; [|intros E; destruct (fname_inj _ _ _ _ E) as [_ E']; discriminate E'].
    rewrite lookup_insert_ne; [|intros E; destruct (fname_inj _ _ _ _ E) as [_ E']; discriminate E'].
    rewrite lookup_insert. reflexivity.
  - rewrite lookup_insert. reflexivity.
Qed.

Theorem session_frame d name t n bk bv bh ops d' outs :
  session d name t n bk bv bh ops = Ok (d', outs) ->
  forall fn, (forall f, fn <> fname name f) -> d' !! fn = d !! fn.
Proof.
  unfold session. intros H fn Hfn.
  destruct (d !! fname name FHtx) as [h|], (d !! fname name FKey) as [k|], (d !! fname name FVal) as [v|]; try discriminate H.
  - destruct (open_existing t (reopen_st k v h bk bv bh)) as [[o st1]| | |]; cbn [rbind] in H; try discriminate H.
    destruct o as [m0|f|f]; try discriminate H.
    destruct (io_run m0 ops) as [[m1 o1]| | |]; cbn [rbind] in H; try discriminate H.
    injection H as <- _. apply dir_put_other. exact Hfn.
  - destruct (create t n bk bv bh) as [m0| | |]; cbn [rbind] in H; try discriminate H.
    destruct (io_run m0 ops) as [[m1 o1]| | |]; cbn [rbind] in H; try discriminate H.
    injection H as <- _. apply dir_put_other. exact Hfn.
Qed.

(** ... in the terms of the property: the files of a map called otherwise are untouched *)
Corollary session_leaves_other_maps d name t n bk bv bh ops d' outs name' :
  session d name t n bk bv bh ops = Ok (d', outs) -> name' <> name ->
  forall f, d' !! fname name' f = d !! fname name' f.
Proof.
  intros H Hne f. apply (session_frame _ _ _ _ _ _ _ _ _ _ H).
  intros f' E. destruct (fname_inj _ _ _ _ E) as [E' _]. exact (Hne E').
Qed.

(** ** 2. refinement: the directory against a ghost table of record-level states *)

(** the three files of [name] are exactly [render s] *)
Definition holds (d : dir) (name : bytes) (s : store) : Prop :=
  exists h k v, render s = Ok (h, k, v) /\
    d !! fname name FHtx = Some h /\ d !! fname name FKey = Some k /\ d !! fname name FVal = Some v.

Definition absent (d : dir) (name : bytes) : Prop := forall f, d !! fname name f = None.

(** every map of the ghost table is in the directory, well formed; no other name has a file *)
Definition DRep (d : dir) (g : gmap bytes store) : Prop :=
  forall name, match g !! name with
               | Some s => wf_state s /\ holds d name s
               | None => absent d name
               end.

Lemma holds_frame d d' name s : (forall f, d' !! fname name f = d !! fname name f) -> holds d name s -> holds d' name s.
Proof. intros H (h & k & v & Hr & A & B & C). exists h, k, v. rewrite !H. auto. Qed.

Lemma holds_put d name m s : render s = Ok (images m) -> holds (dir_put d name m) name s.
Proof.
  intros Hr. exists (fb (s_htx (m_st m))), (fb (s_key (m_st m))), (fb (s_val (m_st m))).
  split; [exact Hr|]. split; [exact (dir_put_own d name m FHtx)|]. split; [exact (dir_put_own d name m FKey)|exact (dir_put_own d name m FVal)].
Qed.

Lemma chunk_of_pos own b : 0 < own -> 0 < chunk_of own b.
Proof. intros H. destruct b; cbn [chunk_of]; [vm_compute; reflexivity|exact H]. Qed.

(** a session on a map that EXISTS in the directory *)
Theorem session_on_existing d g name s sp bk bv bh n ops :
  DRep d g -> g !! name = Some s -> represents s sp ->
  Forall (op_wf (kt s)) ops -> sized s ops ->
  exists s' d',
    store_run s ops = Ok (s', snd (spec_run sp ops)) /\
    session d name (kt s) n bk bv bh ops = Ok (d', snd (spec_run sp ops)) /\
    represents s' (fst (spec_run sp ops)) /\
    DRep d' (<[name := s']> g).
Proof.
  intros HD Hg Hrep Hops Hsz.
  pose proof (HD name) as Hn. rewrite Hg in Hn. destruct Hn as (Hwf & h & k & v & Hr & Eh & Ek & Ev).
  pose proof Hwf as (HI & _).
  destruct (run_refines s sp ops HI Hrep Hops) as (s' & Hrun & _).
  destruct (Io_reopen_then_history s sp h k v (reopen_st k v h bk bv bh) ops s' _ Hwf Hrep Hr
              eq_refl
              ltac:(cbn [reopen_st get_file s_key fcs]; apply chunk_of_pos; vm_compute; reflexivity)
              ltac:(cbn [reopen_st get_file s_val fcs]; apply chunk_of_pos; vm_compute; reflexivity)
              Hops Hsz Hrun)
    as (m & st1 & m' & Eo & _ & Hio & (Hr' & _) & Hwf' & Hrep' & Houts).
  exists s', (dir_put d name m').
  split; [exact Hrun|].
  split.
  { unfold session. rewrite Eh, Ek, Ev, Eo. cbn [rbind]. rewrite Hio. reflexivity. }
  split; [exact Hrep'|].
  intros name'. destruct (decide (name' = name)) as [->|Hne].
  - rewrite lookup_insert. split; [exact Hwf'|]. apply holds_put. exact Hr'.
  - rewrite lookup_insert_ne by congruence. pose proof (HD name') as Hn'.
    assert (Hfr : forall f, dir_put d name m' !! fname name' f = d !! fname name' f).
    { intros f. apply dir_put_other. intros f' E. destruct (fname_inj _ _ _ _ E) as [E' _]. exact (Hne E'). }
    destruct (g !! name') as [s0|].
    + destruct Hn' as [A B]. split; [exact A|]. exact (holds_frame _ _ _ _ Hfr B).
    + intros f. rewrite Hfr. apply Hn'.
Qed.

(** a session on a name that has NO file yet: the three files are created *)
Theorem session_on_new d g name t n bk bv bh ops :
  DRep d g -> g !! name = None -> 1 <= n ->
  Forall (op_wf t) ops -> sized (Store.create t n) ops ->
  exists s' d',
    store_run (Store.create t n) ops = Ok (s', snd (spec_run ∅ ops)) /\
    session d name t n bk bv bh ops = Ok (d', snd (spec_run ∅ ops)) /\
    represents s' (fst (spec_run ∅ ops)) /\ kt s' = t /\
    DRep d' (<[name := s']> g).
Proof.
  intros HD Hg Hn Hops Hsz.
  pose proof (HD name) as Hab. rewrite Hg in Hab.
  destruct (Io_history_from_create t n bk bv bh ops Hn Hops Hsz) as (m0 & m' & s' & Hc & Hrun & Hio & Hr & Hwf & Hrep).
  exists s', (dir_put d name m').
  split; [exact Hrun|].
  split.
  { unfold session. rewrite (Hab FHtx), (Hab FKey), (Hab FVal), Hc. cbn [rbind]. rewrite Hio. reflexivity. }
  split; [exact Hrep|].
  split.
  { destruct (create_closed t n Hn) as [HI0 HR0].
    destruct (run_refines (Store.create t n) ∅ ops HI0 HR0 Hops) as (s3 & Hr3 & _ & _ & K & _).
    rewrite Hrun in Hr3. injection Hr3 as <-. exact K. }
  intros name'. destruct (decide (name' = name)) as [->|Hne].
  - rewrite lookup_insert. split; [exact Hwf|]. apply holds_put. exact Hr.
  - rewrite lookup_insert_ne by congruence. pose proof (HD name') as Hn'.
    assert (Hfr : forall f, dir_put d name m' !! fname name' f = d !! fname name' f).
    { intros f. apply dir_put_other. intros f' E. destruct (fname_inj _ _ _ _ E) as [E' _]. exact (Hne E'). }
    destruct (g !! name') as [s0|].
    + destruct Hn' as [A B]. split; [exact A|]. exact (holds_frame _ _ _ _ Hfr B).
    + intros f. rewrite Hfr. apply Hn'.
Qed.

(** the empty directory represents the empty table *)
Lemma DRep_empty : DRep ∅ ∅.
Proof. intros name. rewrite lookup_empty. intros f. apply lookup_empty. Qed.

(** ** 3. what a map of the directory holds is not touched by sessions on other maps: the contents read back from the files *)
Theorem other_maps_keep_their_contents d g name t n bk bv bh ops d' outs name' s0 :
  DRep d g -> session d name t n bk bv bh ops = Ok (d', outs) -> name' <> name -> g !! name' = Some s0 ->
  holds d' name' s0.
Proof.
  intros HD Hs Hne Hg. pose proof (HD name') as Hn. rewrite Hg in Hn. destruct Hn as [_ Hh].
  apply (holds_frame d d' name' s0); [|exact Hh].
  intros f. exact (session_leaves_other_maps _ _ _ _ _ _ _ _ _ _ _ Hs Hne f).
Qed.

(** a session that asks for a map under ANOTHER key type (other than the one pair of the known finding D6) is refused with the
    signature panic before anything is run - it returns no directory: the one there is stays as it is (C13 in a directory) *)
Theorem session_wrong_type_refused d g name s t n bk bv bh ops :
  DRep d g -> g !! name = Some s -> fits64 s -> t <> kt s -> ~ Open.Known13 t (kt s) ->
  session d name t n bk bv bh ops = Panic BadSig.
Proof.
  intros HD Hg H64 Hne Hk.
  pose proof (HD name) as Hn. rewrite Hg in Hn. destruct Hn as (Hwf & h & k & v & Hr & Eh & Ek & Ev).
  destruct (Io_open_other_type_rejected s t h k v (reopen_st k v h bk bv bh) Hwf H64 Hr eq_refl Hne Hk) as (st1 & E & _).
  unfold session. rewrite Eh, Ek, Ev, E. reflexivity.
Qed.

(** ** 4. any interleaving of sessions on several maps

    A session request: (map name, key type, bucket count and buffer kinds used if the map has to be
    created, the calls).  [dir_run] runs them one after the other on the directory; [ghost_run] is
    the record-level model map by map, [ideal_run] the ideal maps (name -> contents). *)
Record sreq := SReq { q_name : bytes; q_kt : ktype; q_n : N; q_bk : bufkind; q_bv : bufkind; q_bh : bufkind; q_ops : list dop }.

Fixpoint dir_run (d : dir) (qs : list sreq) : res (dir * list (list dout)) :=
  match qs with
  | [] => Ok (d, [])
  | q :: qs' =>
    let* (d1, o) := session d (q_name q) (q_kt q) (q_n q) (q_bk q) (q_bv q) (q_bh q) (q_ops q) in
    let* (d2, os) := dir_run d1 qs' in
    Ok (d2, o :: os)
  end.

Notation ideal := (gmap bytes spec).
Fixpoint ideal_run (iw : ideal) (qs : list sreq) : ideal * list (list dout) :=
  match qs with
  | [] => (iw, [])
  | q :: qs' =>
    let sp := default ∅ (iw !! q_name q) in
    let r := ideal_run (<[q_name q := fst (spec_run sp (q_ops q))]> iw) qs' in
    (fst r, snd (spec_run sp (q_ops q)) :: snd r)
  end.

(** the ghost table represents the ideal world *)
Definition GRep (g : gmap bytes store) (iw : ideal) : Prop :=
  forall name, match g !! name, iw !! name with
               | Some s, Some sp => represents s sp
               | None, None => True
               | _, _ => False
               end.

(** what is asked of the requests, state by state: the key type of an existing map is the one it was created with (another
    one is refused - C13), a new map gets at least one bucket, the calls are well formed and the sizes stay below 2^64 *)
Fixpoint reqs_ok (g : gmap bytes store) (qs : list sreq) : Prop :=
  match qs with
  | [] => True
  | q :: qs' =>
    let s := default (Store.create (q_kt q) (q_n q)) (g !! q_name q) in
    kt s = q_kt q /\ 1 <= q_n q /\ Forall (op_wf (q_kt q)) (q_ops q) /\ sized s (q_ops q) /\
    forall s' outs, store_run s (q_ops q) = Ok (s', outs) -> reqs_ok (<[q_name q := s']> g) qs'
  end.

Theorem sessions_refine_ideal_maps qs : forall d g iw,
  DRep d g -> GRep g iw -> reqs_ok g qs ->
  exists d' g', dir_run d qs = Ok (d', snd (ideal_run iw qs)) /\ DRep d' g' /\ GRep g' (fst (ideal_run iw qs)).
Proof.
  induction qs as [|q qs IH]; intros d g iw HD HG Hok.
  - exists d, g. cbn. auto.
  - cbn [reqs_ok] in Hok. destruct Hok as (Hkt & Hn & Hops & Hsz & Hnext).
    cbn [dir_run ideal_run fst snd].
    pose proof (HG (q_name q)) as Hgn.
    destruct (g !! q_name q) as [s|] eqn:Eg.
    + destruct (iw !! q_name q) as [sp|] eqn:Ei; [|destruct Hgn]. cbn [default from_option] in *; unfold id in *.
      rewrite <- Hkt in Hops.
      destruct (session_on_existing d g (q_name q) s sp (q_bk q) (q_bv q) (q_bh q) (q_n q) (q_ops q) HD Eg Hgn Hops Hsz)
        as (s' & d1 & Hrun & Hs & Hrep' & HD1).
      rewrite Hkt in Hs. rewrite Hs. cbn [rbind].
      assert (HG1 : GRep (<[q_name q := s']> g) (<[q_name q := fst (spec_run sp (q_ops q))]> iw)).
      { intros nm. destruct (decide (nm = q_name q)) as [->|Hne]; [rewrite lookup_insert, lookup_insert; exact Hrep'|].
        rewrite lookup_insert_ne, lookup_insert_ne by congruence. apply HG. }
      destruct (IH d1 _ _ HD1 HG1 (Hnext _ _ Hrun)) as (d' & g' & Hr & HD' & HG').
      exists d', g'. rewrite Hr. cbn [rbind]. auto.
    + destruct (iw !! q_name q) as [sp|] eqn:Ei; [destruct Hgn|]. cbn [default from_option] in *; unfold id in *.
      destruct (session_on_new d g (q_name q) (q_kt q) (q_n q) (q_bk q) (q_bv q) (q_bh q) (q_ops q) HD Eg Hn Hops Hsz)
        as (s' & d1 & Hrun & Hs & Hrep' & _ & HD1).
      rewrite Hs. cbn [rbind].
      assert (HG1 : GRep (<[q_name q := s']> g) (<[q_name q := fst (spec_run ∅ (q_ops q))]> iw)).
      { intros nm. destruct (decide (nm = q_name q)) as [->|Hne]; [rewrite lookup_insert, lookup_insert; exact Hrep'|].
        rewrite lookup_insert_ne, lookup_insert_ne by congruence. apply HG. }
      destruct (IH d1 _ _ HD1 HG1 (Hnext _ _ Hrun)) as (d' & g' & Hr & HD' & HG').
      exists d', g'. rewrite Hr. cbn [rbind]. auto.
Qed.

Corollary sessions_from_the_empty_directory qs :
  reqs_ok ∅ qs ->
  exists d' g', dir_run ∅ qs = Ok (d', snd (ideal_run ∅ qs)) /\ DRep d' g' /\ GRep g' (fst (ideal_run ∅ qs)).
Proof.
  apply sessions_refine_ideal_maps; [exact DRep_empty|].
  intros name. rewrite !lookup_empty. exact I.
Qed.

(** ... and the directory holds nothing but the files of its maps: three per map *)
Definition DOnly (d : dir) (g : gmap bytes store) : Prop :=
  forall fn, is_Some (d !! fn) -> exists name f, fn = fname name f /\ is_Some (g !! name).

Lemma dir_put_only d g name m s' : DOnly d g -> DOnly (dir_put d name m) (<[name := s']> g).
Proof.
  intros H fn Hfn.
  assert (Hcase : (exists f, fn = fname name f) \/ (forall f, fn <> fname name f)).
  { destruct (decide (fn = fname name FHtx)) as [->|N1]; [left; eauto|].
    destruct (decide (fn = fname name FKey)) as [->|N2]; [left; eauto|].
    destruct (decide (fn = fname name FVal)) as [->|N3]; [left; eauto|].
    right. intros [| |]; assumption. }
  destruct Hcase as [[f ->]|Hno].
  - exists name, f. split; [reflexivity|]. rewrite lookup_insert. eauto.
  - rewrite dir_put_other in Hfn by exact Hno.
    destruct (H fn Hfn) as (nm & f & -> & Hg). exists nm, f. split; [reflexivity|].
    destruct (decide (nm = name)) as [->|Hne]; [rewrite lookup_insert; eauto|rewrite lookup_insert_ne by congruence; exact Hg].
Qed.

Lemma session_only d g name t n bk bv bh ops d' outs s' :
  DOnly d g -> session d name t n bk bv bh ops = Ok (d', outs) -> DOnly d' (<[name := s']> g).
Proof.
  unfold session. intros HO H.
  destruct (d !! fname name FHtx) as [h|], (d !! fname name FKey) as [k|], (d !! fname name FVal) as [v|]; try discriminate H.
  - destruct (open_existing t (reopen_st k v h bk bv bh)) as [[o st1]| | |]; cbn [rbind] in H; try discriminate H.
    destruct o as [m0|f|f]; try discriminate H.
    destruct (io_run m0 ops) as [[m1 o1]| | |]; cbn [rbind] in H; try discriminate H.
    injection H as <- _. apply dir_put_only. exact HO.
  - destruct (create t n bk bv bh) as [m0| | |]; cbn [rbind] in H; try discriminate H.
    destruct (io_run m0 ops) as [[m1 o1]| | |]; cbn [rbind] in H; try discriminate H.
    injection H as <- _. apply dir_put_only. exact HO.
Qed.

Theorem sessions_leave_only_map_files qs : forall d g iw,
  DRep d g -> GRep g iw -> DOnly d g -> reqs_ok g qs ->
  exists d' g', dir_run d qs = Ok (d', snd (ideal_run iw qs)) /\ DRep d' g' /\ GRep g' (fst (ideal_run iw qs)) /\ DOnly d' g' /\
    (forall name, is_Some (g' !! name) <-> is_Some ((fst (ideal_run iw qs)) !! name)).
Proof.
  induction qs as [|q qs IH]; intros d g iw HD HG HO Hok.
  - exists d, g. cbn. split; [reflexivity|]. split; [exact HD|]. split; [exact HG|]. split; [exact HO|].
    intros nm. pose proof (HG nm) as H. destruct (g !! nm), (iw !! nm); try destruct H; split; intros [? E]; try discriminate E; eauto.
  - cbn [reqs_ok] in Hok. destruct Hok as (Hkt & Hn & Hops & Hsz & Hnext).
    cbn [dir_run ideal_run fst snd].
    pose proof (HG (q_name q)) as Hgn.
    destruct (g !! q_name q) as [s|] eqn:Eg.
    + destruct (iw !! q_name q) as [sp|] eqn:Ei; [|destruct Hgn]. cbn [default from_option] in *; unfold id in *.
      rewrite <- Hkt in Hops.
      destruct (session_on_existing d g (q_name q) s sp (q_bk q) (q_bv q) (q_bh q) (q_n q) (q_ops q) HD Eg Hgn Hops Hsz)
        as (s' & d1 & Hrun & Hs & Hrep' & HD1).
      rewrite Hkt in Hs. pose proof (session_only _ _ _ _ _ _ _ _ _ _ _ s' HO Hs) as HO1. rewrite Hs. cbn [rbind].
      assert (HG1 : GRep (<[q_name q := s']> g) (<[q_name q := fst (spec_run sp (q_ops q))]> iw)).
      { intros nm. destruct (decide (nm = q_name q)) as [->|Hne]; [rewrite lookup_insert, lookup_insert; exact Hrep'|].
        rewrite lookup_insert_ne, lookup_insert_ne by congruence. apply HG. }
      destruct (IH d1 _ _ HD1 HG1 HO1 (Hnext _ _ Hrun)) as (d' & g' & Hr & HD' & HG' & HO' & Hdom).
      exists d', g'. rewrite Hr. cbn [rbind]. auto 10.
    + destruct (iw !! q_name q) as [sp|] eqn:Ei; [destruct Hgn|]. cbn [default from_option] in *; unfold id in *.
      destruct (session_on_new d g (q_name q) (q_kt q) (q_n q) (q_bk q) (q_bv q) (q_bh q) (q_ops q) HD Eg Hn Hops Hsz)
        as (s' & d1 & Hrun & Hs & Hrep' & _ & HD1).
      pose proof (session_only _ _ _ _ _ _ _ _ _ _ _ s' HO Hs) as HO1. rewrite Hs. cbn [rbind].
      assert (HG1 : GRep (<[q_name q := s']> g) (<[q_name q := fst (spec_run ∅ (q_ops q))]> iw)).
      { intros nm. destruct (decide (nm = q_name q)) as [->|Hne]; [rewrite lookup_insert, lookup_insert; exact Hrep'|].
        rewrite lookup_insert_ne, lookup_insert_ne by congruence. apply HG. }
      destruct (IH d1 _ _ HD1 HG1 HO1 (Hnext _ _ Hrun)) as (d' & g' & Hr & HD' & HG' & HO' & Hdom).
      exists d', g'. rewrite Hr. cbn [rbind]. auto 10.
Qed.

(** ** 5. by computation: two maps whose names are equal up to the last dot ("v1.users", "v1.orders"), a third one called "v1";
    sessions interleaved; each answers from its own contents, and the directory holds nine files *)
Definition ex_users : bytes := [118; 49; 46; 117; 115; 101; 114; 115].
Definition ex_orders : bytes := [118; 49; 46; 111; 114; 100; 101; 114; 115].
Definition ex_v1 : bytes := [118; 49].
Definition ex_reqs : list sreq :=
  [SReq ex_users KBytes 4 BufAuto BufAuto BufAuto [Put [1] [10]; Put [2] [20]];
   SReq ex_orders KBytes 8 BufSized BufAuto BufSized [Put [1] [77]; Len];
   SReq ex_v1 KString 4 BufAuto BufSized BufAuto [Put [1] [55]];
   SReq ex_users KBytes 64 BufSized BufSized BufSized [Get [1]; Get [2]; Len; Del [1]];
   SReq ex_orders KBytes 4 BufAuto BufAuto BufAuto [Get [1]; Get [2]; Len];
   SReq ex_v1 KString 4 BufAuto BufAuto BufAuto [Get [1]; Len]].

Example ex_sessions :
  (let* (d, outs) := dir_run ∅ ex_reqs in Ok (N.of_nat (size d), outs)) =
  Ok (9, [[DUnit; DUnit]; [DUnit; DNum 1]; [DUnit];
          [DOpt (Some [10]); DOpt (Some [20]); DNum 2; DOpt (Some [10])];
          [DOpt (Some [77]); DOpt None; DNum 1];
          [DOpt (Some [55]); DNum 1]]).
Proof. vm_compute. reflexivity. Qed.

Print Assumptions sessions_refine_ideal_maps.
Print Assumptions sessions_leave_only_map_files.
Print Assumptions session_wrong_type_refused.
Print Assumptions session_frame.
Print Assumptions session_on_existing.
Print Assumptions session_on_new.
