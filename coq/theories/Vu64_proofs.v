(** * Vu64_proofs: round trip, canonicity and prefix freedom of the varint codec. *)
From Coq Require Import Lia.
From Aby Require Import Base Vu64.

(** [lia] extended with [/] and [mod] by literals.  The global [Zify.zify_post_hook] is left
    alone on purpose (redefining it, even with [#[local]], leaks to every importer). *)
Ltac dlia := Zify.zify; Z.to_euclidean_division_equations; lia.

(** ** little endian bytes *)

Lemma le_bytes_length n v : length (le_bytes n v) = n.
Proof.
  revert v; induction n as [|n IH]; intros v; cbn [le_bytes length].
  - reflexivity.
  - now rewrite IH.
Qed.

Lemma le_bytes_ok n v : bytes_ok (le_bytes n v).
Proof.
  revert v; induction n as [|n IH]; intros v; cbn [le_bytes].
  - constructor.
  - constructor; [|apply IH]. unfold byte_ok. apply N.mod_lt. discriminate.
Qed.

Lemma pow256_succ n : 256 ^ N.of_nat (S n) = 256 * 256 ^ N.of_nat n.
Proof. rewrite Nat2N.inj_succ. apply N.pow_succ_r'. Qed.

Lemma le_decode_le_bytes n v : v < 256 ^ N.of_nat n -> le_decode (le_bytes n v) = v.
Proof.
  revert v; induction n as [|n IH]; intros v Hv.
  - cbn [le_bytes le_decode]. change (256 ^ N.of_nat 0) with 1 in Hv. dlia.
  - cbn [le_bytes le_decode]. rewrite pow256_succ in Hv.
    rewrite IH.
    + pose proof (N.div_mod v 256) as Hdm. dlia.
    + apply N.div_lt_upper_bound; [discriminate | exact Hv].
Qed.

Lemma le_bytes_le_decode bs : bytes_ok bs -> le_bytes (length bs) (le_decode bs) = bs.
Proof.
  induction 1 as [|b bs Hb Hbs IH]; cbn [length le_bytes le_decode].
  - reflexivity.
  - unfold byte_ok in Hb.
    set (x := le_decode bs) in *.
    assert ((b + 256 * x) mod 256 = b) as -> by dlia.
    assert ((b + 256 * x) / 256 = x) as -> by dlia.
    now rewrite IH.
Qed.

Lemma le_decode_bound bs : bytes_ok bs -> le_decode bs < 256 ^ N.of_nat (length bs).
Proof.
  induction 1 as [|b bs Hb Hbs IH]; cbn [length le_decode].
  - change (256 ^ N.of_nat 0) with 1. dlia.
  - rewrite pow256_succ. unfold byte_ok in Hb.
    set (x := le_decode bs) in *. set (P := 256 ^ N.of_nat (length bs)) in *. dlia.
Qed.

Lemma le_decode_take_app n v rest :
  v < 256 ^ N.of_nat n -> le_decode (take n (le_bytes n v ++ rest)) = v.
Proof.
  intros Hv. rewrite take_app_alt by (now rewrite le_bytes_length).
  now apply le_decode_le_bytes.
Qed.

Lemma drop_le_bytes_app n v rest : drop n (le_bytes n v ++ rest) = rest.
Proof. apply drop_app_alt. now rewrite le_bytes_length. Qed.

(** ** [enc_len] *)

Ltac split_ltb :=
  repeat match goal with
  | |- context [?a <? ?b] => destruct (N.ltb_spec a b); cbv iota
  end.

Lemma enc_len_cases v :
  (enc_len v = 1 /\ v < 128) \/
  (enc_len v = 2 /\ 128 <= v < 16384) \/
  (enc_len v = 3 /\ 16384 <= v < 2097152) \/
  (enc_len v = 4 /\ 2097152 <= v < 268435456) \/
  (enc_len v = 5 /\ 268435456 <= v < 34359738368) \/
  (enc_len v = 6 /\ 34359738368 <= v < 4398046511104) \/
  (enc_len v = 7 /\ 4398046511104 <= v < 562949953421312) \/
  (enc_len v = 8 /\ 562949953421312 <= v < 72057594037927936) \/
  (enc_len v = 9 /\ 72057594037927936 <= v).
Proof. unfold enc_len. split_ltb; dlia. Qed.

Lemma enc_len_range v : 1 <= enc_len v <= 9.
Proof. pose proof (enc_len_cases v) as H. dlia. Qed.

Lemma enc_len_mono a b : a <= b -> enc_len a <= enc_len b.
Proof.
  intros Hab. pose proof (enc_len_cases a) as Ha. pose proof (enc_len_cases b) as Hb. dlia.
Qed.

Lemma enc_len_spec v L : 1 <= L <= 8 -> (enc_len v <= L <-> v < 2 ^ (7 * L)).
Proof.
  intros HL. pose proof (enc_len_cases v) as Hv.
  assert (L = 1 \/ L = 2 \/ L = 3 \/ L = 4 \/ L = 5 \/ L = 6 \/ L = 7 \/ L = 8) as HL' by dlia.
  destruct HL' as [->|[->|[->|[->|[->|[->|[->| ->]]]]]]].
  - change (2 ^ (7 * 1)) with 128. dlia.
  - change (2 ^ (7 * 2)) with 16384. dlia.
  - change (2 ^ (7 * 3)) with 2097152. dlia.
  - change (2 ^ (7 * 4)) with 268435456. dlia.
  - change (2 ^ (7 * 5)) with 34359738368. dlia.
  - change (2 ^ (7 * 6)) with 4398046511104. dlia.
  - change (2 ^ (7 * 7)) with 562949953421312. dlia.
  - change (2 ^ (7 * 8)) with 72057594037927936. dlia.
Qed.

(** ** [encode]: one closed form per width *)

Lemma encode_eq v :
  (enc_len v = 1 /\ v < 128 /\ encode v = [v]) \/
  (enc_len v = 2 /\ 128 <= v < 16384 /\ encode v = (128 + v mod 64) :: le_bytes 1 (v / 64)) \/
  (enc_len v = 3 /\ 16384 <= v < 2097152 /\ encode v = (192 + v mod 32) :: le_bytes 2 (v / 32)) \/
  (enc_len v = 4 /\ 2097152 <= v < 268435456 /\ encode v = (224 + v mod 16) :: le_bytes 3 (v / 16)) \/
  (enc_len v = 5 /\ 268435456 <= v < 34359738368 /\ encode v = (240 + v mod 8) :: le_bytes 4 (v / 8)) \/
  (enc_len v = 6 /\ 34359738368 <= v < 4398046511104 /\ encode v = (248 + v mod 4) :: le_bytes 5 (v / 4)) \/
  (enc_len v = 7 /\ 4398046511104 <= v < 562949953421312 /\ encode v = (252 + v mod 2) :: le_bytes 6 (v / 2)) \/
  (enc_len v = 8 /\ 562949953421312 <= v < 72057594037927936 /\ encode v = 254 :: le_bytes 7 v) \/
  (enc_len v = 9 /\ 72057594037927936 <= v /\ encode v = 255 :: le_bytes 8 v).
Proof.
  unfold encode.
  destruct (enc_len_cases v) as [[-> H]|[[-> H]|[[-> H]|[[-> H]|[[-> H]|[[-> H]|[[-> H]|[[-> H]|[-> H]]]]]]]]].
  - left. repeat split; trivial.
  - right; left. repeat split; try apply H.
  - do 2 right; left. repeat split; try apply H.
  - do 3 right; left. repeat split; try apply H.
  - do 4 right; left. repeat split; try apply H.
  - do 5 right; left. repeat split; try apply H.
  - do 6 right; left. repeat split; try apply H.
  - do 7 right; left. repeat split; try apply H.
  - do 8 right. repeat split; try apply H.
Qed.

Ltac encode_cases v HL Hr He :=
  destruct (encode_eq v) as
    [(HL & Hr & He)|[(HL & Hr & He)|[(HL & Hr & He)|[(HL & Hr & He)|[(HL & Hr & He)
    |[(HL & Hr & He)|[(HL & Hr & He)|[(HL & Hr & He)|(HL & Hr & He)]]]]]]]].

Lemma encode_length' v : blen (encode v) = enc_len v.
Proof.
  encode_cases v HL Hr He; rewrite He, HL; unfold blen; cbn [length];
    rewrite ?le_bytes_length; reflexivity.
Qed.

Lemma encode_length v : v < 2 ^ 64 -> blen (encode v) = enc_len v.
Proof. intros _. apply encode_length'. Qed.

Lemma encode_ok v : v < 2 ^ 64 -> bytes_ok (encode v).
Proof.
  change (2 ^ 64) with 18446744073709551616. intros Hv.
  encode_cases v HL Hr He; rewrite He; (constructor; [unfold byte_ok | try apply le_bytes_ok]); try dlia.
  constructor.
Qed.

(** ** [decode] *)

Lemma dec_len_cases b :
  (dec_len b = 1 /\ b < 128) \/
  (dec_len b = 2 /\ 128 <= b < 192) \/
  (dec_len b = 3 /\ 192 <= b < 224) \/
  (dec_len b = 4 /\ 224 <= b < 240) \/
  (dec_len b = 5 /\ 240 <= b < 248) \/
  (dec_len b = 6 /\ 248 <= b < 252) \/
  (dec_len b = 7 /\ 252 <= b < 254) \/
  (dec_len b = 8 /\ b = 254) \/
  (dec_len b = 9 /\ 255 <= b).
Proof. unfold dec_len. split_ltb; dlia. Qed.

Lemma decode_eq b0 rest L k :
  dec_len b0 = L -> N.to_nat (L - 1) = k -> (k <= length rest)%nat ->
  decode (b0 :: rest) =
    (let follow := le_decode (take k rest) in
     let v := if L =? 1 then b0
              else if L <=? 7 then follow * 2 ^ (8 - L) + b0 mod 2 ^ (8 - L)
              else follow in
     if (L =? 1) || (2 ^ (7 * (L - 1)) <=? v) then Some (v, drop k rest) else None).
Proof.
  intros <- <- Hk. unfold decode.
  destruct (Nat.ltb_spec (length rest) (N.to_nat (dec_len b0 - 1))) as [Hlt|Hge].
  - dlia.
  - reflexivity.
Qed.

Lemma decode_short b0 rest L k :
  dec_len b0 = L -> N.to_nat (L - 1) = k -> (length rest < k)%nat -> decode (b0 :: rest) = None.
Proof.
  intros <- <- Hk. unfold decode.
  destruct (Nat.ltb_spec (length rest) (N.to_nat (dec_len b0 - 1))) as [Hlt|Hge].
  - reflexivity.
  - dlia.
Qed.

(** width 1 *)
Lemma decode_one b0 rest : dec_len b0 = 1 -> decode (b0 :: rest) = Some (b0, rest).
Proof.
  intros HL. rewrite (decode_eq b0 rest 1 0 HL eq_refl) by (cbn [length]; dlia).
  reflexivity.
Qed.

(** widths 2..7, the numeric parameters being supplied as closed facts *)
Lemma decode_mid L k m lo b0 rest :
  (L =? 1) = false -> (L <=? 7) = true -> N.to_nat (L - 1) = k ->
  2 ^ (8 - L) = m -> 2 ^ (7 * (L - 1)) = lo ->
  dec_len b0 = L -> (k <= length rest)%nat ->
  decode (b0 :: rest) =
    (let v := le_decode (take k rest) * m + b0 mod m in
     if lo <=? v then Some (v, drop k rest) else None).
Proof.
  intros H1 H7 Hk Hm Hlo HL Hlen.
  rewrite (decode_eq b0 rest L k HL Hk Hlen). cbv zeta.
  rewrite H1, H7, Hm, Hlo. reflexivity.
Qed.

(** widths 8 and 9 *)
Lemma decode_hi L k lo b0 rest :
  (L =? 1) = false -> (L <=? 7) = false -> N.to_nat (L - 1) = k ->
  2 ^ (7 * (L - 1)) = lo ->
  dec_len b0 = L -> (k <= length rest)%nat ->
  decode (b0 :: rest) =
    (let v := le_decode (take k rest) in
     if lo <=? v then Some (v, drop k rest) else None).
Proof.
  intros H1 H7 Hk Hlo HL Hlen.
  rewrite (decode_eq b0 rest L k HL Hk Hlen). cbv zeta.
  rewrite H1, H7, Hlo. reflexivity.
Qed.

Ltac norm_pow256 :=
  repeat match goal with
  | |- context [256 ^ N.of_nat ?k] =>
      let x := eval vm_compute in (256 ^ N.of_nat k) in change (256 ^ N.of_nat k) with x
  end.

Ltac dec_len_solve :=
  match goal with
  | |- dec_len ?b = _ => pose proof (dec_len_cases b); dlia
  end.

Ltac app_len_solve :=
  rewrite app_length, le_bytes_length; dlia.

Ltac enc_mid L k m lo :=
  rewrite (decode_mid L k m lo); [ | reflexivity | reflexivity | reflexivity | reflexivity | reflexivity | dec_len_solve | app_len_solve ];
  cbv zeta;
  rewrite le_decode_take_app by (norm_pow256; dlia);
  rewrite drop_le_bytes_app;
  match goal with
  | |- (if ?lo' <=? ?x then _ else _) = Some (?v, _) =>
      replace x with v by dlia;
      destruct (N.leb_spec lo' v); [reflexivity | dlia]
  end.

Ltac enc_hi L k lo :=
  rewrite (decode_hi L k lo); [ | reflexivity | reflexivity | reflexivity | reflexivity | dec_len_solve | app_len_solve ];
  cbv zeta;
  rewrite le_decode_take_app by (norm_pow256; dlia);
  rewrite drop_le_bytes_app;
  match goal with
  | |- (if ?lo' <=? ?v then _ else _) = _ =>
      destruct (N.leb_spec lo' v); [reflexivity | dlia]
  end.

Theorem decode_encode v rest : v < 2 ^ 64 -> decode (encode v ++ rest) = Some (v, rest).
Proof.
  change (2 ^ 64) with 18446744073709551616. intros Hv.
  encode_cases v HL Hr He; rewrite He; cbn [app].
  - apply decode_one. dec_len_solve.
  - enc_mid 2 1%nat 64 128.
  - enc_mid 3 2%nat 32 16384.
  - enc_mid 4 3%nat 16 2097152.
  - enc_mid 5 4%nat 8 268435456.
  - enc_mid 6 5%nat 4 34359738368.
  - enc_mid 7 6%nat 2 4398046511104.
  - enc_hi 8 7%nat 562949953421312.
  - enc_hi 9 8%nat 72057594037927936.
Qed.

(** ** every accepted byte string is the canonical encoding of its value *)

Lemma take_facts k (rest : bytes) :
  bytes_ok rest -> (k <= length rest)%nat ->
  le_decode (take k rest) < 256 ^ N.of_nat k /\
  le_bytes k (le_decode (take k rest)) = take k rest.
Proof.
  intros Hok Hk.
  assert (length (take k rest) = k) as Hl by (rewrite take_length; dlia).
  assert (bytes_ok (take k rest)) as Hok' by (apply Forall_take; exact Hok).
  pose proof (le_decode_bound _ Hok') as Hb.
  pose proof (le_bytes_le_decode _ Hok') as He.
  rewrite Hl in Hb, He. split; assumption.
Qed.

Ltac norm_pow256_in H :=
  repeat match type of H with
  | context [256 ^ N.of_nat ?k] =>
      let x := eval vm_compute in (256 ^ N.of_nat k) in change (256 ^ N.of_nat k) with x in H
  end.

Ltac canon_mid L k m lo b0 rest0 HL Hd Hrest0 :=
  let Hk := fresh "Hk" in let HF := fresh "HF" in let HFb := fresh "HFb" in
  let F := fresh "F" in let Hlo := fresh "Hlo" in
  let HL' := fresh "HL'" in let Hr' := fresh "Hr'" in let He' := fresh "He'" in
  destruct (Nat.le_gt_cases k (length rest0)) as [Hk|Hk];
    [| rewrite (decode_short b0 rest0 L k HL eq_refl Hk) in Hd; discriminate];
  rewrite (decode_mid L k m lo b0 rest0 eq_refl eq_refl eq_refl eq_refl eq_refl HL Hk) in Hd;
  cbv zeta in Hd;
  destruct (take_facts k rest0 Hrest0 Hk) as [HF HFb];
  norm_pow256_in HF;
  set (F := le_decode (take k rest0)) in *;
  destruct (N.leb_spec lo (F * m + b0 mod m)) as [Hlo|Hlo]; [|discriminate];
  injection Hd as <- <-;
  split; [|dlia];
  encode_cases (F * m + b0 mod m) HL' Hr' He'; try dlia;
  match type of He' with
  | _ = (?b :: le_bytes _ ?q) =>
      replace b with b0 in He' by dlia; replace q with F in He' by dlia
  end;
  rewrite He', HFb; cbn [app]; rewrite take_drop; reflexivity.

Ltac canon_hi L k lo b0 rest0 HL Hd Hrest0 :=
  let Hk := fresh "Hk" in let HF := fresh "HF" in let HFb := fresh "HFb" in
  let F := fresh "F" in let Hlo := fresh "Hlo" in
  let HL' := fresh "HL'" in let Hr' := fresh "Hr'" in let He' := fresh "He'" in
  destruct (Nat.le_gt_cases k (length rest0)) as [Hk|Hk];
    [| rewrite (decode_short b0 rest0 L k HL eq_refl Hk) in Hd; discriminate];
  rewrite (decode_hi L k lo b0 rest0 eq_refl eq_refl eq_refl eq_refl HL Hk) in Hd;
  cbv zeta in Hd;
  destruct (take_facts k rest0 Hrest0 Hk) as [HF HFb];
  norm_pow256_in HF;
  set (F := le_decode (take k rest0)) in *;
  destruct (N.leb_spec lo F) as [Hlo|Hlo]; [|discriminate];
  injection Hd as <- <-;
  split; [|dlia];
  encode_cases F HL' Hr' He'; try dlia;
  rewrite He', HFb; cbn [app]; rewrite take_drop; reflexivity.

Theorem decode_canonical bs v rest :
  bytes_ok bs -> decode bs = Some (v, rest) -> bs = encode v ++ rest /\ v < 2 ^ 64.
Proof.
  change (2 ^ 64) with 18446744073709551616. intros Hok Hd.
  destruct bs as [|b0 rest0]; [discriminate|].
  inversion Hok as [|? ? Hb0 Hrest0]; subst. unfold byte_ok in Hb0.
  destruct (dec_len_cases b0) as
    [[HL Hr]|[[HL Hr]|[[HL Hr]|[[HL Hr]|[[HL Hr]|[[HL Hr]|[[HL Hr]|[[HL Hr]|[HL Hr]]]]]]]]].
  - rewrite (decode_one _ _ HL) in Hd. injection Hd as <- <-. split; [|dlia].
    encode_cases b0 HL' Hr' He'; try dlia. rewrite He'. reflexivity.
  - canon_mid 2 1%nat 64 128 b0 rest0 HL Hd Hrest0.
  - canon_mid 3 2%nat 32 16384 b0 rest0 HL Hd Hrest0.
  - canon_mid 4 3%nat 16 2097152 b0 rest0 HL Hd Hrest0.
  - canon_mid 5 4%nat 8 268435456 b0 rest0 HL Hd Hrest0.
  - canon_mid 6 5%nat 4 34359738368 b0 rest0 HL Hd Hrest0.
  - canon_mid 7 6%nat 2 4398046511104 b0 rest0 HL Hd Hrest0.
  - subst b0. canon_hi 8 7%nat 562949953421312 254 rest0 HL Hd Hrest0.
  - assert (b0 = 255) as -> by dlia. canon_hi 9 8%nat 72057594037927936 255 rest0 HL Hd Hrest0.
Qed.

Corollary encode_prefix_free a b ra rb :
  a < 2 ^ 64 -> b < 2 ^ 64 -> encode a ++ ra = encode b ++ rb -> a = b /\ ra = rb.
Proof.
  intros Ha Hb Heq.
  pose proof (decode_encode a ra Ha) as Hda.
  rewrite Heq, (decode_encode b rb Hb) in Hda.
  injection Hda as -> ->. split; reflexivity.
Qed.

Corollary encode_inj a b : a < 2 ^ 64 -> b < 2 ^ 64 -> encode a = encode b -> a = b.
Proof.
  intros Ha Hb Heq.
  apply (encode_prefix_free a b [] [] Ha Hb). now rewrite Heq.
Qed.
