(** * Io_durable: a flush makes the current state durable, at byte level, over ANY buffer setting.

    [Durable.v] proves C03 over the abstract buffered files of [Buf.v] (chunks of the images, a
    fault oracle).  Here the same conclusion is drawn for the CONCRETE models: the byte-level I/O
    of the map layer ([Io]) issued against the executable model of rabuf's BufFile ([Cache.Rabuf])
    in front of each of the three files, in any configuration.  After creation and any history,
    when each buffer is flushed the three files on the disk are exactly [render] of the current
    record-level state, and the independent reader [Load.load] reads the ideal map's contents back
    from them.  (No fault oracle here: this is the all-calls-succeed branch of C03.) *)
From Coq Require Import Lia ZifyN ZifyNat ZifyBool.
From Aby Require Import Base Vu64 Hash KeyTypes Consts Sizing Alloc Htx Store Iter Stats Layout Load Spec Refine Refine_all
  Load_all Cache Cache_proofs Flatx Cache_x Io Io_base Io_htx Io_run Io_create Io_proofs Io_flat Io_flat_ro Io_cache Io_flat_upd.
Import Io Rabuf.
#[local] Open Scope N_scope.

(** running the calls of file [f] through a cache and flushing it *)
Definition flushed_disk (fuel : nat) (c : cache) (calls : list call) : res bytes :=
  let* (c1, _) := crun fuel c (map call_op calls) in
  let* c2 := flush c1 in
  Ok (k_disk c2).

Lemma served_flushed s s' f calls c fuel :
  served_by_cache s s' f calls -> backs c (get_file s f) ->
  (xrun_fuel (k_cs c) (flat_of (get_file s f)) (map call_op calls) <= fuel)%nat ->
  flushed_disk fuel c calls = Ok (fb (get_file s' f)).
Proof.
  intros Hs Hb Hf. destruct (Hs c fuel Hb Hf) as (c' & Ec & _ & _ & c'' & Ef & Hd).
  unfold flushed_disk. rewrite Ec. cbn [rbind]. rewrite Ef. cbn [rbind]. rewrite Hd. reflexivity.
Qed.

Theorem flush_durable_over_any_buffer t n bk bv bh ops :
  1 <= n -> pow2 n -> Forall (op_wf t) ops -> sized (Store.create t n) ops ->
  exists s' (cf : fid -> list call),
    store_run (Store.create t n) ops = Ok (s', snd (spec_run ∅ ops)) /\
    forall ck cv ch fuel,
      backs ck (get_file (empty_st bk bv bh) FKey) ->
      backs cv (get_file (empty_st bk bv bh) FVal) ->
      backs ch (get_file (empty_st bk bv bh) FHtx) ->
      (forall f c, In (f, c) [(FKey, ck); (FVal, cv); (FHtx, ch)] ->
         (xrun_fuel (k_cs c) (flat_of (get_file (empty_st bk bv bh) f)) (map call_op (cf f)) <= fuel)%nat) ->
      exists dk dv dh,
        flushed_disk fuel ck (cf FKey) = Ok dk /\
        flushed_disk fuel cv (cf FVal) = Ok dv /\
        flushed_disk fuel ch (cf FHtx) = Ok dh /\
        render s' = Ok (dh, dk, dv) /\
        exists s'' l, load t (dh, dk, dv) = Ok s'' /\ contents s'' = Ok l /\
                      l ≡ₚ map_to_list (fst (spec_run ∅ ops)).
Proof.
  intros Hn Hp Hops Hsz.
  destruct (history_over_any_cache t n bk bv bh ops Hn Hp Hops Hsz) as (m0 & m' & s' & Hc & Hrun & Hio & Hr & cf & Hs).
  destruct (Io_history_from_create t n bk bv bh ops Hn Hops Hsz) as (m0' & m'' & s2 & Hc' & Hrun' & Hio' & Hr' & Hwf & Hrep).
  rewrite Hc in Hc'. injection Hc' as <-. rewrite Hrun in Hrun'. injection Hrun' as <-.
  rewrite Hio in Hio'. injection Hio' as <-.
  exists s', cf. split; [exact Hrun|].
  intros ck cv ch fuel Bk Bv Bh Hfuel.
  exists (fb (get_file (m_st m') FKey)), (fb (get_file (m_st m') FVal)), (fb (get_file (m_st m') FHtx)).
  split; [apply (served_flushed _ _ _ _ _ _ (Hs FKey) Bk); apply (Hfuel FKey ck); cbn; auto|].
  split; [apply (served_flushed _ _ _ _ _ _ (Hs FVal) Bv); apply (Hfuel FVal cv); cbn; auto|].
  split; [apply (served_flushed _ _ _ _ _ _ (Hs FHtx) Bh); apply (Hfuel FHtx ch); cbn; auto|].
  assert (Him : Io.images m' = (fb (get_file (m_st m') FHtx), fb (get_file (m_st m') FKey), fb (get_file (m_st m') FVal))) by reflexivity.
  rewrite Him in Hr. split; [exact Hr|].
  pose proof (sized_final _ _ _ _ Hsz Hrun) as H64.
  assert (Hkt : kt s' = t).
  { destruct (create_closed t n Hn) as [HI0 HR0].
    destruct (run_refines (Store.create t n) ∅ ops HI0 HR0 Hops) as (s3 & Hr3 & _ & _ & K & _).
    rewrite Hrun in Hr3. injection Hr3 as <-. exact K. }
  destruct (load_contents_closed s' _ _ Hwf H64 Hrep Hr) as (s'' & l & Hl & Hcn & Hperm).
  rewrite Hkt in Hl. exists s'', l. split; [exact Hl|]. split; [exact Hcn|exact Hperm].
Qed.

Print Assumptions flush_durable_over_any_buffer.

(** ** the same with FAILED flushes in between (C16 at byte level over the concrete buffer).
    After creation and any history the buffer of each file may be flushed any number of times
    under file-size limits that come and go ([Cache_fault.flush_f]: refused writes, partial
    writes); whatever these attempts reported, the buffer still represents the file, and a flush
    without limit then puts exactly [render] of the current state on the disk. *)
From Aby Require Import Cache_fault.

Definition flush_attempts (lims : list (option N)) (c : cache) : cache :=
  fold_left (fun c lim => match flush_f lim c with FOk c' | FErr c' => c' | FStop _ => c end) lims c.

Lemma flush_attempts_keep lims : forall c f,
  cache_invf c -> R c f -> cache_invf (flush_attempts lims c) /\ R (flush_attempts lims c) f /\
  k_cs (flush_attempts lims c) = k_cs c.
Proof.
  induction lims as [|lim rest IH]; intros c f I HR; [cbn; auto|].
  cbn [flush_attempts fold_left].
  destruct (flush_f_view_intact lim c f I HR) as (c' & ok & E & R' & I' & Hcs & _).
  rewrite E. assert (Hn : match fpack c' ok with FOk c'0 | FErr c'0 => c'0 | FStop _ => c end = c') by (destruct ok; reflexivity).
  rewrite Hn. fold (flush_attempts rest c'). destruct (IH c' f I' R') as (A & B & C). split; [exact A|]. split; [exact B|congruence].
Qed.

Theorem failed_flushes_then_recovery_over_any_buffer t n bk bv bh ops :
  1 <= n -> pow2 n -> Forall (op_wf t) ops -> sized (Store.create t n) ops ->
  exists s' m' (cf : fid -> list call),
    store_run (Store.create t n) ops = Ok (s', snd (spec_run ∅ ops)) /\
    render s' = Ok (Io.images m') /\
    forall f c fuel lims,
      backs c (get_file (empty_st bk bv bh) f) ->
      (xrun_fuel (k_cs c) (flat_of (get_file (empty_st bk bv bh) f)) (map call_op (cf f)) <= fuel)%nat ->
      exists c1 outs,
        crun fuel c (map call_op (cf f)) = Ok (c1, outs) /\
        (* any flush attempts under any limits: the view is intact ... *)
        R (flush_attempts lims c1) (flat_of (get_file (m_st m') f)) /\
        (* ... and the flush without limit makes the file durable *)
        exists c3, flush_f None (flush_attempts lims c1) = FOk c3 /\ k_disk c3 = fb (get_file (m_st m') f).
Proof.
  intros Hn Hp Hops Hsz.
  destruct (history_over_any_cache t n bk bv bh ops Hn Hp Hops Hsz) as (m0 & m' & s' & Hc & Hrun & Hio & Hr & cf & Hs).
  exists s', m', cf. split; [exact Hrun|]. split; [exact Hr|].
  intros f c fuel lims Hb Hfuel.
  destruct (Hs f c fuel Hb Hfuel) as (c1 & Ec & (I1 & R1 & _) & _ & _).
  eexists c1, _. split; [exact Ec|].
  destruct (flush_attempts_keep lims c1 _ I1 R1) as (I2 & R2 & _).
  split; [exact R2|].
  destruct (flush_f_recovery _ _ I2 R2) as (c3 & E3 & Hd & _). exists c3. split; [exact E3|exact Hd].
Qed.

Print Assumptions failed_flushes_then_recovery_over_any_buffer.
