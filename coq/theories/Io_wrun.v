(** * Io_wrun: histories with TRAVERSALS and STATISTICS calls at byte level.

    [Io_run.io_run] runs histories of put / get / delete / includes_key / len / is_empty on the
    byte-level map.  Here a history may also contain a full traversal ([Io.iter_run]: the iterator
    created, driven to its end and two calls beyond) and the statistics calls ([Io.stats_of]),
    each performed with its real seeks and reads.  [wio_run] refines the record-level run
    [wstore_run] call by call: same results, the three byte strings stay [render] of the
    record-level state - and the read-only calls leave them unchanged.  On every state the
    record-level traversal returns a permutation of the ideal map with exact hints
    ([Iter_proofs.iter_run_spec]) and the statistics call terminates with the true figures
    ([Stats_proofs.stats_of_spec]); so neither can fail in a history. *)
From Coq Require Import Lia ZifyN ZifyNat ZifyBool.
From Aby Require Import Base Vu64 Hash KeyTypes Consts Sizing Alloc AllocInv Htx Store Iter Iter_proofs Stats Stats_proofs Spec Refine Refine_all
  Layout Load Load_all Cache Io Io_base Io_htx Io_run Io_proofs Io_open.
Import Io.
#[local] Open Scope N_scope.

Inductive wop := WCall (o : dop) | WIter | WStats.
Inductive wout :=
| WRes (r : dout)
| WItems (items : list (N * (bytes * bytes))) (hint : N) (extras : list (option (bytes * bytes)))
| WFigures (st : stats).

Definition wstore_step (s : store) (o : wop) : res (store * wout) :=
  match o with
  | WCall o => let* (s', r) := store_step s o in Ok (s', WRes r)
  | WIter => let* (ih, ex) := Iter.iter_run s in Ok (s, WItems (fst ih) (snd ih) ex)
  | WStats => let* st := Stats.stats_of s in Ok (s, WFigures st)
  end.

Definition wio_step (m : mp) (o : wop) : res (mp * wout) :=
  match o with
  | WCall o => let* (m', r) := io_step m o in Ok (m', WRes r)
  | WIter => let* (ihe, m') := Io.iter_run m in Ok (m', WItems (fst (fst ihe)) (snd (fst ihe)) (snd ihe))
  | WStats => let* (st, m') := Io.stats_of m in Ok (m', WFigures st)
  end.

Fixpoint wstore_run (s : store) (ops : list wop) : res (store * list wout) :=
  match ops with
  | [] => Ok (s, [])
  | o :: ops' =>
    let* (s1, r) := wstore_step s o in
    let* (s2, rs) := wstore_run s1 ops' in
    Ok (s2, r :: rs)
  end.

Fixpoint wio_run (m : mp) (ops : list wop) : res (mp * list wout) :=
  match ops with
  | [] => Ok (m, [])
  | o :: ops' =>
    let* (m1, r) := wio_step m o in
    let* (m2, rs) := wio_run m1 ops' in
    Ok (m2, r :: rs)
  end.

Definition wop_wf (t : ktype) (o : wop) : Prop := match o with WCall o => op_wf t o | _ => True end.

(** the ideal map under a history: only the plain calls change it *)
Definition wspec_step (sp : spec) (o : wop) : spec := match o with WCall o => fst (spec_step sp o) | _ => sp end.
Definition wspec_run (sp : spec) (ops : list wop) : spec := fold_left wspec_step ops sp.

(** the 64-bit headroom at every state of the history *)
Fixpoint wsized (s : store) (ops : list wop) : Prop :=
  fits64 s /\ room s /\
  match ops with
  | [] => True
  | o :: ops' => forall s1 r, wstore_step s o = Ok (s1, r) -> wsized s1 ops'
  end.

Lemma wsized_here s ops : wsized s ops -> fits64 s /\ room s.
Proof. destruct ops; cbn [wsized]; tauto. Qed.

(** what a result says about the ideal map *)
Definition wagrees (sp : spec) (o : wop) (r : wout) : Prop :=
  match o, r with
  | WCall o, WRes r => r = snd (spec_step sp o)
  | WIter, WItems items hint extras =>
    exists kvs, items = combine (hints_down (length kvs)) kvs /\ kvs ≡ₚ map_to_list sp /\ hint = 0 /\ extras = [None; None]
  | WStats, WFigures _ => True
  | _, _ => False
  end.

Lemma wio_step_refines s sp m o s1 r :
  wf_state s -> represents s sp -> simg s m -> wop_wf (kt s) o -> fits64 s -> room s ->
  wstore_step s o = Ok (s1, r) ->
  exists m1, wio_step m o = Ok (m1, r) /\ simg s1 m1 /\
    wf_state s1 /\ represents s1 (wspec_step sp o) /\ kt s1 = kt s /\ wagrees sp o r /\
    (match o with WCall _ => True | _ => s1 = s /\ Io.images m1 = Io.images m end).
Proof.
  intros Hwf HR Hsim Hw H64 Hroom Hs.
  destruct o as [o| |]; cbn [wstore_step wio_step wop_wf wspec_step wagrees] in *.
  - destruct (store_step s o) as [[s' r0]| | |] eqn:E; cbn [rbind] in Hs; try discriminate. injection Hs as <- <-.
    destruct (io_step_refines s sp m o s' r0 Hwf HR Hsim Hw H64 Hroom E) as (m1 & Hio & Hsim1 & Hwf1 & HR1 & Hkt1 & Hr).
    exists m1. rewrite Hio. cbn [rbind]. auto 10.
  - destruct (Iter.iter_run s) as [[[items h] ex]| | |] eqn:E; cbn [rbind] in Hs; try discriminate. injection Hs as <- <-.
    cbn [fst snd].
    destruct Hsim as (Hr & Hkt & Hn & Hck & Hcv).
    destruct (images_eta m) as (hi & ki & vi & Him). rewrite Him in Hr.
    destruct (Io_d_iter_run s hi ki vi m Hwf H64 Hr Him items h ex E) as (m' & Hg & Hro & Hi').
    exists m'. rewrite Hg. cbn [rbind fst snd]. split; [reflexivity|].
    assert (m_kt m' = m_kt m /\ m_n m' = m_n m) as [Ek En] by (apply (iter_run_looks m _ m' Hg)).
    split.
    { unfold simg. rewrite Hi', Him, Ek, En, !(ro_fcs _ _ _ Hro). auto. }
    split; [exact Hwf|]. split; [exact HR|]. split; [reflexivity|].
    split.
    { pose proof Hwf as (HI & _). destruct (iter_run_spec s sp HI HR) as (kvs & Hrun & Hperm & _).
      rewrite E in Hrun. injection Hrun as -> -> ->. exists kvs. auto. }
    split; [reflexivity|exact Hi'].
  - destruct (Stats.stats_of s) as [st| | |] eqn:E; cbn [rbind] in Hs; try discriminate. injection Hs as <- <-.
    destruct Hsim as (Hr & Hkt & Hn & Hck & Hcv).
    destruct (images_eta m) as (hi & ki & vi & Him). rewrite Him in Hr.
    destruct (Io_d_stats s hi ki vi m Hwf H64 Hr Hn Him st E) as (m' & Hg & Hro & Hi').
    exists m'. rewrite Hg. cbn [rbind]. split; [reflexivity|].
    assert (m_kt m' = m_kt m /\ m_n m' = m_n m) as [Ek En] by (apply (stats_of_looks m _ m' Hg)).
    split.
    { unfold simg. rewrite Hi', Him, Ek, En, !(ro_fcs _ _ _ Hro). auto. }
    split; [exact Hwf|]. split; [exact HR|]. split; [reflexivity|]. split; [exact I|].
    split; [reflexivity|exact Hi'].
Qed.

(** the record-level run of a well-formed history never fails: traversals and statistics terminate on every state *)
Lemma wstore_step_total s sp o :
  wf_state s -> represents s sp -> wop_wf (kt s) o -> exists s1 r, wstore_step s o = Ok (s1, r).
Proof.
  intros Hwf HR Hw. pose proof Hwf as (HI & _).
  destruct o as [o| |]; cbn [wstore_step wop_wf] in *.
  - destruct (step_refines s sp o HI HR Hw) as (s1 & Hs & _). rewrite Hs. cbn [rbind]. eauto.
  - destruct (iter_run_spec s sp HI HR) as (kvs & Hrun & _). rewrite Hrun. cbn [rbind]. eauto.
  - destruct (stats_of_spec s sp HI HR) as (st & frk & frv & Hst & _). rewrite Hst. cbn [rbind]. eauto.
Qed.

Theorem wio_run_refines ops : forall s sp m,
  wf_state s -> represents s sp -> simg s m -> Forall (wop_wf (kt s)) ops -> wsized s ops ->
  exists s' m' outs,
    wstore_run s ops = Ok (s', outs) /\ wio_run m ops = Ok (m', outs) /\ simg s' m' /\ wf_state s' /\
    represents s' (wspec_run sp ops) /\ kt s' = kt s /\ length outs = length ops.
Proof.
  induction ops as [|o ops IH]; intros s sp m Hwf HR Hsim Hw Hsz.
  - exists s, m, []. cbn. auto 10.
  - inversion Hw as [|? ? Ho Hops]; subst.
    destruct (wsized_here _ _ Hsz) as [H64 Hroom].
    destruct (wstore_step_total s sp o Hwf HR Ho) as (s1 & r & E1).
    destruct (wio_step_refines s sp m o s1 r Hwf HR Hsim Ho H64 Hroom E1) as (m1 & Hio & Hsim1 & Hwf1 & HR1 & Hkt1 & _).
    assert (Hsz1 : wsized s1 ops) by (cbn [wsized] in Hsz; destruct Hsz as (_ & _ & H); exact (H s1 r E1)).
    rewrite <- Hkt1 in Hops.
    destruct (IH s1 _ m1 Hwf1 HR1 Hsim1 Hops Hsz1) as (s2 & m2 & rs & Hrun2 & Hio2 & Hsim2 & Hwf2 & HR2 & Hkt2 & Hlen).
    exists s2, m2, (r :: rs). cbn [wstore_run wio_run]. rewrite E1, Hio. cbn [rbind]. rewrite Hrun2, Hio2. cbn [rbind].
    split; [reflexivity|]. split; [reflexivity|]. split; [exact Hsim2|]. split; [exact Hwf2|].
    split; [exact HR2|]. split; [congruence|]. cbn [length]. congruence.
Qed.

(** ... call by call: every result is what the ideal map of that moment says *)
Fixpoint wagree_run (sp : spec) (ops : list wop) (outs : list wout) : Prop :=
  match ops, outs with
  | [], [] => True
  | o :: ops', r :: outs' => wagrees sp o r /\ wagree_run (wspec_step sp o) ops' outs'
  | _, _ => False
  end.

Theorem wstore_run_agrees ops : forall s sp s' outs,
  wf_state s -> represents s sp -> Forall (wop_wf (kt s)) ops -> wsized s ops ->
  wstore_run s ops = Ok (s', outs) -> wagree_run sp ops outs.
Proof.
  induction ops as [|o ops IH]; intros s sp s' outs Hwf HR Hw Hsz Hrun.
  - cbn in Hrun. injection Hrun as <- <-. exact I.
  - cbn [wstore_run] in Hrun.
    destruct (wstore_step s o) as [[s1 r]| | |] eqn:E1; cbn [rbind] in Hrun; try discriminate.
    destruct (wstore_run s1 ops) as [[s2 rs]| | |] eqn:E2; cbn [rbind] in Hrun; try discriminate.
    injection Hrun as <- <-. inversion Hw as [|? ? Ho Hops]; subst.
    destruct (wsized_here _ _ Hsz) as [H64 Hroom].
    (* any byte-level map holding the images will do to use the step lemma; none is needed for the record-level facts *)
    pose proof Hwf as (HI & _).
    assert (Hstep : wf_state s1 /\ represents s1 (wspec_step sp o) /\ kt s1 = kt s /\ wagrees sp o r).
    { destruct o as [o| |]; cbn [wstore_step wop_wf wspec_step wagrees] in *.
      - destruct (store_step s o) as [[sa ra]| | |] eqn:E; cbn [rbind] in E1; try discriminate. injection E1 as <- <-.
        destruct (step_refines s sp o HI HR Ho) as (s1' & Hs' & _ & HR1 & Hkt1 & _).
        rewrite E in Hs'. injection Hs' as <- Hrr.
        assert (Hrun1 : store_run s [o] = Ok (sa, [ra])) by (cbn [store_run]; rewrite E; reflexivity).
        pose proof (wf_state_run s sp [o] sa [ra] Hwf HR (Forall_cons_2 _ _ _ Ho (Forall_nil_2 _)) Hrun1) as (A & _ & C).
        cbn [spec_run] in C. destruct (spec_step sp o) as [sp1 r0]. cbn [fst snd] in *. injection C as ->. auto.
      - destruct (Iter.iter_run s) as [[[items h] ex]| | |] eqn:E; cbn [rbind] in E1; try discriminate. injection E1 as <- <-.
        cbn [fst snd]. split; [exact Hwf|]. split; [exact HR|]. split; [reflexivity|].
        destruct (iter_run_spec s sp HI HR) as (kvs & Hrun & Hperm & _).
        rewrite E in Hrun. injection Hrun as -> -> ->. exists kvs. auto.
      - destruct (Stats.stats_of s) as [st| | |] eqn:E; cbn [rbind] in E1; try discriminate. injection E1 as <- <-. auto. }
    destruct Hstep as (Hwf1 & HR1 & Hkt1 & Hag).
    assert (Hsz1 : wsized s1 ops) by (cbn [wsized] in Hsz; destruct Hsz as (_ & _ & H); exact (H s1 r E1)).
    rewrite <- Hkt1 in Hops.
    cbn [wagree_run]. split; [exact Hag|]. exact (IH s1 _ s2 rs Hwf1 HR1 Hops Hsz1 E2).
Qed.

(** the read-only calls of a history leave the three byte strings as they are *)
Theorem wio_readonly_history_keeps_the_files ops : forall s sp m,
  wf_state s -> represents s sp -> simg s m -> wsized s ops ->
  Forall (fun o => match o with WCall o => match o with Put _ _ | Del _ => False | _ => op_wf (kt s) (o) end | _ => True end) ops ->
  exists m' outs, wio_run m ops = Ok (m', outs) /\ Io.images m' = Io.images m.
Proof.
  induction ops as [|o ops IH]; intros s sp m Hwf HR Hsim Hsz Hro.
  - exists m, []. split; reflexivity.
  - inversion Hro as [|? ? Ho Hops]; subst.
    destruct (wsized_here _ _ Hsz) as [H64 Hroom].
    assert (Hw : wop_wf (kt s) o).
    { destruct o as [o| |]; cbn [wop_wf]; [|exact I|exact I]. destruct o; tauto. }
    destruct (wstore_step_total s sp o Hwf HR Hw) as (s1 & r & E1).
    destruct (wio_step_refines s sp m o s1 r Hwf HR Hsim Hw H64 Hroom E1) as (m1 & Hio & Hsim1 & Hwf1 & HR1 & Hkt1 & _ & Hsame).
    assert (Hs1 : s1 = s /\ Io.images m1 = Io.images m).
    { destruct o as [o| |]; [|exact Hsame|exact Hsame].
      cbn [wstore_step] in E1. destruct (store_step s o) as [[sa ra]| | |] eqn:E; cbn [rbind] in E1; try discriminate.
      injection E1 as <- <-.
      assert (sa = s).
      { destruct o as [k v|k|k|k| |]; cbn [store_step] in E; try tauto.
        - destruct (Store.get s k); cbn [rbind] in E; try discriminate. injection E as <- _. reflexivity.
        - destruct (Store.has s k); cbn [rbind] in E; try discriminate. injection E as <- _. reflexivity.
        - injection E as <- _. reflexivity.
        - injection E as <- _. reflexivity. }
      subst sa. split; [reflexivity|].
      destruct Hsim as (Hr & _). destruct Hsim1 as (Hr1 & _). congruence. }
    destruct Hs1 as [-> Him1].
    assert (Hsz1 : wsized s ops) by (cbn [wsized] in Hsz; destruct Hsz as (_ & _ & H); exact (H s r E1)).
    destruct (IH s (wspec_step sp o) m1 Hwf1 HR1 Hsim1 Hsz1 Hops) as (m2 & rs & Hio2 & Him2).
    exists m2, (r :: rs). cbn [wio_run]. rewrite Hio. cbn [rbind]. rewrite Hio2. cbn [rbind].
    split; [reflexivity|congruence].
Qed.

(** after a reopen: the files a session left, opened again (any buffer kinds), then any such history *)
Theorem Io_reopen_then_whistory s sp h k v st0 ops :
  wf_state s -> represents s sp -> render s = Ok (h, k, v) -> st_images st0 = (h, k, v) ->
  0 < fcs (get_file st0 FKey) -> 0 < fcs (get_file st0 FVal) ->
  Forall (wop_wf (kt s)) ops -> wsized s ops ->
  exists m st1 s' m' outs,
    open_existing (kt s) st0 = Ok (Opened m, st1) /\
    wstore_run s ops = Ok (s', outs) /\ wio_run m ops = Ok (m', outs) /\
    simg s' m' /\ wf_state s' /\ represents s' (wspec_run sp ops) /\ wagree_run sp ops outs.
Proof.
  intros Hwf Hrep Hr Himg Hck Hcv Hops Hsz.
  destruct (wsized_here _ _ Hsz) as [H64 _].
  destruct (Io_open_same_type s h k v st0 Hwf H64 Hr Himg) as (m & st1 & E & R & Hkt & Hn & Him & Hst & Hcs).
  assert (Hsim : simg s m).
  { unfold simg. rewrite Him. split; [exact Hr|]. split; [exact Hkt|]. split; [exact Hn|].
    rewrite Hst, !Hcs. split; assumption. }
  destruct (wio_run_refines ops s sp m Hwf Hrep Hsim Hops Hsz) as (s' & m' & outs & Hrun & Hio & Hsim' & Hwf' & Hrep' & _ & _).
  exists m, st1, s', m', outs. split; [exact E|]. split; [exact Hrun|]. split; [exact Hio|]. split; [exact Hsim'|].
  split; [exact Hwf'|]. split; [exact Hrep'|]. exact (wstore_run_agrees ops s sp s' outs Hwf Hrep Hops Hsz Hrun).
Qed.

(** non-vacuity, by computation: puts, a traversal, the statistics, a delete, a traversal *)
Definition same_images (r : res (bytes * bytes * bytes)) (i : bytes * bytes * bytes) : bool :=
  match r with
  | Ok (h, k, v) => let '(h', k', v') := i in bytes_eqb h h' && bytes_eqb k k' && bytes_eqb v v'
  | _ => false
  end.
Definition ex_wops : list wop :=
  [WCall (Put [1; 2] [3; 4; 5]); WCall (Put [7] [8]); WIter; WStats; WCall (Del [1; 2]); WIter; WCall Len].

Example ex_wrun :
  (let* m0 := Io.create KBytes 4 BufAuto BufSized BufAuto in
   let* (m1, outs) := wio_run m0 ex_wops in
   let* (s1, outs') := wstore_run (Store.create KBytes 4) ex_wops in
   Ok (nth 2 outs (WRes DUnit), nth 5 outs (WRes DUnit), nth 6 outs (WRes DUnit), same_images (render s1) (Io.images m1))) =
  Ok (WItems [(2, ([7], [8])); (1, ([1; 2], [3; 4; 5]))] 0 [None; None], WItems [(1, ([7], [8]))] 0 [None; None], WRes (DNum 1), true) \/
  (let* m0 := Io.create KBytes 4 BufAuto BufSized BufAuto in
   let* (m1, outs) := wio_run m0 ex_wops in
   let* (s1, outs') := wstore_run (Store.create KBytes 4) ex_wops in
   Ok (nth 2 outs (WRes DUnit), nth 5 outs (WRes DUnit), nth 6 outs (WRes DUnit), same_images (render s1) (Io.images m1))) =
  Ok (WItems [(2, ([1; 2], [3; 4; 5])); (1, ([7], [8]))] 0 [None; None], WItems [(1, ([7], [8]))] 0 [None; None], WRes (DNum 1), true).
Proof. vm_compute. first [left; reflexivity | right; reflexivity]. Qed.

(** decidable form of the headroom, for examples *)
Fixpoint wsizedb (s : store) (ops : list wop) : bool :=
  fits64b s && roomb s &&
  match ops with
  | [] => true
  | o :: ops' => match wstore_step s o with Ok (s1, _) => wsizedb s1 ops' | _ => true end
  end.

Lemma wsizedb_ok ops : forall s, wsizedb s ops = true -> wsized s ops.
Proof.
  induction ops as [|o ops IH]; intros s H; cbn [wsizedb wsized] in *.
  - apply andb_prop in H as [H _]. apply andb_prop in H as [H1 H2].
    destruct (sizedb_ok [] s) as (A & B & _); [cbn [sizedb]; rewrite H1, H2; reflexivity|]. auto.
  - apply andb_prop in H as [H H3]. apply andb_prop in H as [H1 H2].
    destruct (sizedb_ok [] s) as (A & B & _); [cbn [sizedb]; rewrite H1, H2; reflexivity|].
    split; [exact A|]. split; [exact B|].
    intros s1 r E. rewrite E in H3. apply IH. exact H3.
Qed.

(** the hypotheses of the theorems above are satisfiable: the example history from a freshly created map *)
Example whistory_hypotheses :
  1 <= 4 /\ Forall (wop_wf KBytes) ex_wops /\ wsized (Store.create KBytes 4) ex_wops.
Proof.
  split; [lia|]. split; [repeat constructor; cbn; try lia; try discriminate|].
  apply wsizedb_ok. vm_compute. reflexivity.
Qed.

Print Assumptions wio_run_refines.
Print Assumptions Io_reopen_then_whistory.
Print Assumptions wstore_run_agrees.
Print Assumptions wio_readonly_history_keeps_the_files.
