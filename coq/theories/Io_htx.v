(** * Io_htx: the byte-level table-file operations of [Io] on the image [render_htx sig h].

    On [render_htx sig h] with [htx_wf h], [bitmap_ok h]: the byte-level bucket read returns
    [head_at], the bucket write gives [render_htx sig (write_head h i off)], the item count
    likewise, and the byte-level three-stage scan returns what [Htx.next_nonempty] returns, never
    seeks beyond the end of the file and emits no write event (the C15/C18 seeded bug as a theorem). *)
From Coq Require Import Lia ZifyN ZifyNat ZifyBool.
From Aby Require Import Base Vu64 Vu64_proofs Hash KeyTypes Consts Sizing Alloc Htx Htx_proofs Store Stats
  Layout Load Load_htx_proofs Cache Cache_proofs Io Io_base.
Import Io.

#[local] Open Scope N_scope.

(** a step that only looked: every file keeps its bytes and chunk size, and the events it appended
    are reads and seeks to positions inside the file *)
Definition ev_quiet (s : st) (e : ev) : Prop :=
  match e with
  | EvRead _ _ _ => True
  | EvSeek f t => t <= fend (get_file s f)
  | _ => False
  end.

Definition ro_step (s s' : st) : Prop :=
  (forall f, fb (get_file s' f) = fb (get_file s f) /\ fcs (get_file s' f) = fcs (get_file s f)) /\
  exists evs, appended s s' evs /\ Forall (ev_quiet s) evs.

Lemma ev_quiet_ext s s' e : (forall f, fb (get_file s' f) = fb (get_file s f)) -> ev_quiet s e -> ev_quiet s' e.
Proof. intros H. destruct e; cbn; auto. unfold fend. rewrite H. auto. Qed.

Lemma ro_step_refl s : ro_step s s.
Proof. split; [auto|]. exists []. split; [apply appended_refl|constructor]. Qed.

Lemma ro_step_trans s1 s2 s3 : ro_step s1 s2 -> ro_step s2 s3 -> ro_step s1 s3.
Proof.
  intros [H1 (e1 & A1 & Q1)] [H2 (e2 & A2 & Q2)]. split.
  - intros f. destruct (H1 f) as [a b], (H2 f) as [c d]. split; congruence.
  - exists (e2 ++ e1). split; [eapply appended_trans; eassumption|].
    apply Forall_app. split; [|exact Q1].
    eapply Forall_impl; [exact Q2|]. intros e He. eapply ev_quiet_ext; [|exact He].
    intros f. symmetry. apply H1.
Qed.

Lemma ro_step_seek f t s : t <= fend (get_file s f) -> ro_step s (seek_to f t s).
Proof.
  intros Hle. destruct (seek_to_inside f t s Hle) as [Hf Ho]. destruct (seek_to_spec f t s) as [_ Ha].
  split.
  - intros g. destruct (fid_eq_dec g f) as [->|Hg].
    + rewrite Hf. auto.
    + rewrite Ho by exact Hg. auto.
  - exists [EvSeek f t]. split; [exact Ha|]. constructor; [exact Hle|constructor].
Qed.

(** from the frame facts of the reading lemmas of [Io_base] *)
Lemma ro_step_of_reads s s' f p evs :
  upd_file s s' f (fb (get_file s f)) p -> appended s s' evs -> Forall (is_read_on f) evs -> ro_step s s'.
Proof.
  intros [Hf Ho] Ha Hev. split.
  - intros g. destruct (fid_eq_dec g f) as [->|Hg].
    + rewrite Hf. auto.
    + rewrite Ho by exact Hg. auto.
  - exists evs. split; [exact Ha|]. eapply Forall_impl; [exact Hev|].
    intros e (q & l & ->). exact I.
Qed.


(** ** reads as lists of [getb] *)
Lemma getb_nth (l : bytes) p : getb l p = nth (N.to_nat p) l 0.
Proof. reflexivity. Qed.

Lemma read_raw_getb x n : read_raw x n = map (fun k => getb (fb x) (fp x + k)) (seqN' 0 (N.to_nat n)).
Proof.
  unfold read_raw. apply bytes_ext.
  - rewrite blen_app, blen_zeros, blen_sub. unfold blen at 3. rewrite map_length, seqN'_length. lia.
  - intros p Hp. rewrite blen_app, blen_zeros, blen_sub in Hp.
    rewrite getb_app, blen_sub, getb_sub, getb_zeros.
    rewrite (getb_nth (map _ _)).
    rewrite (nth_map_seqN' (fun k => getb (fb x) (fp x + k))) by lia. rewrite N2Nat.id.
    destruct (N.ltb_spec p (N.min n (blen (fb x) - fp x))) as [H|H].
    + destruct (N.ltb_spec p n); [reflexivity|lia].
    + symmetry. apply getb_ge. lia.
Qed.

Lemma le_decode_zero (l : bytes) : le_decode l = 0 <-> Forall (fun b => b = 0) l.
Proof.
  induction l as [|b l IH]; cbn [le_decode].
  - split; [constructor|reflexivity].
  - split.
    + intros H. assert (b = 0 /\ le_decode l = 0) as [-> Hl] by lia. constructor; [reflexivity|apply IH; exact Hl].
    + intros H. inversion H as [|? ? -> Hl]; subst. apply IH in Hl. lia.
Qed.

Lemma read_le_spec f n s :
  exists s', read_le f n s = Ok (le_decode (map (fun k => getb (fb (get_file s f)) (fp (get_file s f) + k)) (seqN' 0 (N.to_nat n))), s') /\
    upd_file s s' f (fb (get_file s f)) (fp (get_file s f) + n) /\
    appended s s' [EvRead f (fp (get_file s f)) n].
Proof.
  unfold read_le, read_n. cbn [rbind]. rewrite read_raw_getb. eexists. split; [reflexivity|].
  split.
  - split.
    + rewrite get_emit, get_set_same. reflexivity.
    + intros g Hg. rewrite get_emit, get_set_other by congruence. reflexivity.
  - unfold appended. rewrite log_emit, log_set_file. reflexivity.
Qed.

Lemma ro_step_read f s s' p n :
  upd_file s s' f (fb (get_file s f)) p -> appended s s' [EvRead f (fp (get_file s f)) n] -> ro_step s s'.
Proof.
  intros Hu Ha. eapply ro_step_of_reads; [exact Hu|exact Ha|].
  constructor; [|constructor]. eexists _, _. reflexivity.
Qed.

(** ** bytes and bits *)
Lemma byte_ext a b : a < 256 -> b < 256 -> (forall t, t < 8 -> N.testbit a t = N.testbit b t) -> a = b.
Proof.
  intros Ha Hb H. apply N.bits_inj. intros t. destruct (N.lt_ge_cases t 8) as [Ht|Ht]; [apply H; exact Ht|].
  assert (Hhi : forall x, x < 256 -> N.testbit x t = false).
  { intros x Hx. destruct (N.eq_dec x 0) as [->|Hne]; [apply N.bits_0|].
    apply N.bits_above_log2. assert (N.log2 x < 8); [|lia].
    apply N.log2_lt_pow2; [lia|]. exact Hx. }
  rewrite (Hhi a Ha), (Hhi b Hb). reflexivity.
Qed.

Definition set_bit_table_ok : bool :=
  forallb (fun byte => forallb (fun bit => forallb (fun on =>
     (set_bit byte bit on <? 256) &&
     forallb (fun t => Bool.eqb (N.testbit (set_bit byte bit on) t) (if t =? bit then on else N.testbit byte t))
             (seqN' 0 8)) [true; false]) (seqN' 0 8)) (seqN' 0 256).

Lemma set_bit_table : set_bit_table_ok = true.
Proof. vm_compute. reflexivity. Qed.

Lemma set_bit_spec byte bit on : byte < 256 -> bit < 8 ->
  set_bit byte bit on < 256 /\
  forall t, t < 8 -> N.testbit (set_bit byte bit on) t = if t =? bit then on else N.testbit byte t.
Proof.
  intros Hb Hbit. pose proof set_bit_table as H. unfold set_bit_table_ok in H.
  rewrite forallb_forall in H. specialize (H byte ltac:(apply in_seqN'; lia)).
  rewrite forallb_forall in H. specialize (H bit ltac:(apply in_seqN'; lia)).
  rewrite forallb_forall in H. specialize (H on ltac:(destruct on; cbn; auto)).
  apply andb_prop in H as [H1 H2]. split; [apply N.ltb_lt; exact H1|].
  intros t Ht. rewrite forallb_forall in H2. apply Bool.eqb_prop. apply H2. apply in_seqN'. lia.
Qed.

Section image.
Context (sig2 : bytes) (h : htx).
Hypothesis Hsig : length sig2 = 8%nat.
Hypothesis Hwf : htx_wf h.
Hypothesis Hheads : forall i, head_at h i < 2 ^ 64.
Hypothesis Hnb : nb h < 2 ^ 64.
Hypothesis Hcnt : count h < 2 ^ 64.

Let img := render_htx sig2 h.

Lemma img_blen : blen img = hend h.
Proof. apply render_htx_blen; [exact Hsig|]. destruct Hwf as (_ & H & _). lia. Qed.

Lemma hend_ge : htx_header_size + 8 * nb h + nb h / 8 <= hend h.
Proof. destruct Hwf as (_ & H & _). exact H. Qed.

(** the state holds the image in its table file *)
Definition holds (s : st) : Prop := fb (s_htx s) = img.

Lemma holds_ro s s' : holds s -> ro_step s s' -> holds s'.
Proof. unfold holds. intros H [Hb _]. destruct (Hb FHtx) as [E _]. cbn in E. congruence. Qed.

Lemma holds_fend s : holds s -> fend (get_file s FHtx) = hend h.
Proof. unfold holds, fend. cbn. intros ->. apply img_blen. Qed.

(** [read_key_piece_offset] returns the bucket head *)
Theorem read_key_piece_offset_render s i : holds s -> i < nb h ->
  exists s', read_key_piece_offset i s = Ok (head_at h i, s') /\ ro_step s s'.
Proof.
  intros Hh Hi. unfold read_key_piece_offset, seek_from_start. cbn [rbind].
  assert (Hin : htx_header_size + 8 * i <= fend (get_file s FHtx)).
  { rewrite (holds_fend s Hh). pose proof hend_ge. lia. }
  pose proof (view_seek_inside FHtx _ s Hin) as Hv. cbn [get_file] in Hv. rewrite Hh in Hv.
  unfold img in Hv. rewrite render_htx_split in Hv by exact Hsig.
  pose proof (hdr_blen sig2 h Hsig) as Hhb.
  match type of Hhb with blen ?x = _ => set (hd := x) in * end.
  rewrite <- Hhb in Hv. rewrite (heads_at (head_at h)) in Hv by lia. rewrite Hhb in Hv.
  destruct (read_u64_view FHtx _ _ _ (Hheads i) Hv) as (s' & Hr & Hf & Ho & _ & Ha).
  exists s'. split; [exact Hr|].
  eapply ro_step_trans; [apply ro_step_seek; exact Hin|].
  eapply ro_step_of_reads; [split; [exact Hf|exact Ho]|exact Ha|].
  constructor; [|constructor]. eexists _, _. reflexivity.
Qed.

(** [read_item_count] / [read_hash_buckets_size] return the header fields *)
Lemma view_header_field s off (pre : bytes) v rest :
  holds s -> img = pre ++ le_bytes 8 v ++ rest -> blen pre = off -> v < 2 ^ 64 ->
  exists s', (let* (_, a) := seek_from_start FHtx off s in read_u64 FHtx a) = Ok (v, s') /\ ro_step s s'.
Proof.
  intros Hh Himg Hpre Hv. unfold seek_from_start. cbn [rbind].
  assert (Hin : off <= fend (get_file s FHtx)).
  { unfold fend. cbn [get_file]. rewrite Hh, Himg, blen_app. lia. }
  pose proof (view_seek_inside FHtx _ s Hin) as Hview. cbn [get_file] in Hview.
  rewrite Hh, Himg, (at_off_app' _ _ _ Hpre) in Hview.
  destruct (read_u64_view FHtx _ _ _ Hv Hview) as (s' & Hr & Hf & Ho & _ & Ha).
  exists s'. split; [exact Hr|].
  eapply ro_step_trans; [apply ro_step_seek; exact Hin|].
  eapply ro_step_of_reads; [split; [exact Hf|exact Ho]|exact Ha|].
  constructor; [|constructor]. eexists _, _. reflexivity.
Qed.

Theorem read_hash_buckets_size_render s : holds s ->
  exists s', read_hash_buckets_size s = Ok (nb h, s') /\ ro_step s s'.
Proof.
  intros Hh. unfold read_hash_buckets_size.
  apply (view_header_field s htx_size_offset (htx_signature ++ sig2) (nb h)
           (le_bytes 8 (count h) ++ zeros (htx_header_size - 32) ++
            concat (map (fun i => le_bytes 8 (head_at h i)) (seqN' 0 (N.to_nat (nb h)))) ++
            map (bitmap_byte h) (seqN' 0 (N.to_nat (hend h - (htx_header_size + 8 * nb h)))))); try assumption.
  - unfold img, render_htx. rewrite <- !app_assoc. reflexivity.
  - unfold blen. rewrite app_length, Hsig. reflexivity.
Qed.

Theorem read_item_count_render s : holds s ->
  exists s', read_item_count s = Ok (count h, s') /\ ro_step s s'.
Proof.
  intros Hh. unfold read_item_count.
  apply (view_header_field s htx_count_offset (htx_signature ++ sig2 ++ le_bytes 8 (nb h)) (count h)
           (zeros (htx_header_size - 32) ++
            concat (map (fun i => le_bytes 8 (head_at h i)) (seqN' 0 (N.to_nat (nb h)))) ++
            map (bitmap_byte h) (seqN' 0 (N.to_nat (hend h - (htx_header_size + 8 * nb h)))))); try assumption.
  - unfold img, render_htx. rewrite <- !app_assoc. reflexivity.
  - unfold blen. rewrite !app_length, le_bytes_length, Hsig. reflexivity.
Qed.

(** ** the bitmap bytes of the image; bytes beyond the end read as zero, and no bit is set there *)
Let base := htx_header_size + 8 * nb h.

Lemma bitmap_byte_zero j : bitmap_byte h j = 0 <-> forall t, t < 8 -> 8 * j + t ∉ bitmap h.
Proof.
  split.
  - intros Hz t Ht Hin. pose proof (testbit_bitmap_byte h j t Ht) as Hb. rewrite Hz, N.bits_0 in Hb.
    symmetry in Hb. apply bool_decide_eq_false in Hb. contradiction.
  - intros Hn. apply byte_ext; [apply bitmap_byte_lt|lia|]. intros t Ht.
    rewrite testbit_bitmap_byte by exact Ht. rewrite N.bits_0. apply bool_decide_eq_false. apply Hn. exact Ht.
Qed.

Lemma getb_img_bm j : getb img (base + j) = bitmap_byte h j.
Proof.
  destruct (N.lt_ge_cases (base + j) (hend h)) as [Hlt|Hge].
  - rewrite getb_nth. unfold img, base. apply render_htx_bm_byte; [exact Hsig|exact Hlt].
  - rewrite getb_ge by (rewrite img_blen; exact Hge). symmetry. apply bitmap_byte_zero.
    intros t Ht Hin. destruct Hwf as (_ & _ & H3). specialize (H3 _ Hin).
    replace ((8 * j + t) / 8) with j in H3; [unfold base in Hge; lia|].
    apply (N.div_unique _ 8 j t); [exact Ht|reflexivity].
Qed.

Lemma bm_any_false_iff idx len :
  bm_any h idx len = false <-> forall b, idx <= b < idx + N.of_nat len -> b ∉ bitmap h.
Proof.
  split; [apply bm_any_false|]. intros Hn. destruct (bm_any h idx len) eqn:E; [|reflexivity].
  apply bm_any_spec in E as (b & Hb & Hin). exfalso. exact (Hn b Hb Hin).
Qed.

(** what a read of [k] bitmap bytes at the byte of bucket [idx] (a multiple of 8) sees *)
Lemma bm_read_zero (k : nat) idx : idx mod 8 = 0 ->
  (le_decode (map (fun q => getb img (base + idx / 8 + q)) (seqN' 0 k)) =? 0) = negb (bm_any h idx (8 * k)).
Proof.
  intros Hm.
  assert (Hidx : idx = 8 * (idx / 8)) by (pose proof (N.div_mod idx 8); lia).
  destruct (bm_any h idx (8 * k)) eqn:E; cbn [negb].
  - apply N.eqb_neq. intros Hz. apply le_decode_zero in Hz.
    apply bm_any_spec in E as (b & Hb & Hin).
    rewrite List.Forall_forall in Hz.
    set (q := b / 8 - idx / 8).
    assert (Hq : q < N.of_nat k).
    { subst q. assert (b / 8 < idx / 8 + N.of_nat k); [|lia].
      apply N.div_lt_upper_bound; lia. }
    assert (Hz' : getb img (base + idx / 8 + q) = 0).
    { apply Hz. apply in_map_iff. exists q. split; [reflexivity|]. apply in_seqN'. lia. }
    rewrite <- N.add_assoc, getb_img_bm in Hz'.
    apply bitmap_byte_zero with (t := b mod 8) in Hz'; [|apply N.mod_lt; lia].
    apply Hz'. replace (8 * (idx / 8 + q) + b mod 8) with b; [exact Hin|].
    subst q. pose proof (N.div_mod b 8). assert (idx / 8 <= b / 8) by (apply N.div_le_mono; lia). lia.
  - apply N.eqb_eq. apply le_decode_zero. apply List.Forall_forall. intros x Hx.
    apply in_map_iff in Hx as (q & <- & Hq). apply in_seqN' in Hq.
    rewrite <- N.add_assoc, getb_img_bm. apply bitmap_byte_zero. intros t Ht.
    rewrite bm_any_false_iff in E. apply E. lia.
Qed.

(** the position of the table file *)
Definition hpos (s : st) : N := fp (get_file s FHtx).

(** *** the [u64] stride *)
Lemma scan64_refines fuel : forall idx s i1,
  holds s -> idx mod 8 = 0 -> hpos s = base + idx / 8 ->
  stage64 fuel h (nb h) idx = Ok i1 ->
  exists s', scan64 fuel (nb h) idx s = Ok (i1, s') /\ ro_step s s' /\ hpos s' = base + i1 / 8 /\
    i1 mod 8 = 0 /\ (i1 = idx \/ (idx + 64 <= i1 /\ i1 - 64 + 8 < nb h)).
Proof.
  induction fuel as [|fu IH]; intros idx s i1 Hh Hm Hp Hs; [discriminate|].
  cbn [stage64] in Hs. cbn [scan64].
  destruct (idx + 8 <? nb h) eqn:E.
  - apply N.ltb_lt in E.
    destruct (read_le_spec FHtx 8 s) as (s1 & Hr & Hu & Ha). rewrite Hr. cbn [rbind].
    change (N.to_nat 8) with 8%nat. unfold hpos in Hp. cbn [get_file] in *. rewrite Hh, Hp.
    rewrite (bm_read_zero 8 idx Hm). change (8 * 8)%nat with 64%nat.
    assert (Hro : ro_step s s1) by (exact (ro_step_read FHtx s s1 _ 8 Hu Ha)).
    assert (Hp1 : hpos s1 = base + (idx + 64) / 8).
    { unfold hpos. destruct Hu as [Hu _]. cbn [get_file] in Hu |- *. rewrite Hu. cbn [fp]. rewrite Hp.
      replace (idx + 64) with (idx + 8 * 8) by lia. rewrite N.div_add by lia. lia. }
    assert (Hm1 : (idx + 64) mod 8 = 0).
    { replace (idx + 64) with (idx + 8 * 8) by lia. rewrite N.mod_add by lia. exact Hm. }
    destruct (bm_any h idx 64) eqn:B; cbn [negb].
    + injection Hs as <-. exists s1. split; [reflexivity|]. split; [exact Hro|]. split; [exact Hp1|].
      split; [exact Hm1|]. right. lia.
    + destruct (IH (idx + 64) s1 i1 (holds_ro _ _ Hh Hro) Hm1 Hp1 Hs) as (s' & Hsc & Hro' & Hp' & Hm' & Hb).
      exists s'. split; [exact Hsc|]. split; [eapply ro_step_trans; eassumption|]. split; [exact Hp'|].
      split; [exact Hm'|]. right. lia.
  - injection Hs as <-. exists s. split; [reflexivity|]. split; [apply ro_step_refl|]. split; [exact Hp|].
    split; [exact Hm|]. left. reflexivity.
Qed.

(** *** the byte stride *)
Lemma scan8_refines fuel : forall idx s i3,
  holds s -> idx mod 8 = 0 -> hpos s = base + idx / 8 ->
  stage8 fuel h (nb h) idx = Ok i3 ->
  exists s', scan8 fuel (nb h) idx s = Ok (i3, s') /\ ro_step s s' /\
    (idx < nb h -> 8 <= i3 /\ i3 - 8 < nb h).
Proof.
  induction fuel as [|fu IH]; intros idx s i3 Hh Hm Hp Hs; [discriminate|].
  cbn [stage8] in Hs. cbn [scan8].
  destruct (idx <? nb h) eqn:E.
  - apply N.ltb_lt in E.
    destruct (read_le_spec FHtx 1 s) as (s1 & Hr & Hu & Ha). rewrite Hr. cbn [rbind].
    change (N.to_nat 1) with 1%nat. unfold hpos in Hp. cbn [get_file] in *. rewrite Hh, Hp.
    rewrite (bm_read_zero 1 idx Hm). change (8 * 1)%nat with 8%nat.
    assert (Hro : ro_step s s1) by (exact (ro_step_read FHtx s s1 _ 1 Hu Ha)).
    assert (Hp1 : hpos s1 = base + (idx + 8) / 8).
    { unfold hpos. destruct Hu as [Hu _]. cbn [get_file] in Hu |- *. rewrite Hu. cbn [fp]. rewrite Hp.
      replace (idx + 8) with (idx + 1 * 8) by lia. rewrite N.div_add by lia. lia. }
    assert (Hm1 : (idx + 8) mod 8 = 0).
    { replace (idx + 8) with (idx + 1 * 8) by lia. rewrite N.mod_add by lia. exact Hm. }
    destruct (bm_any h idx 8) eqn:B; cbn [negb].
    + injection Hs as <-. exists s1. split; [reflexivity|]. split; [exact Hro|]. intros _. lia.
    + destruct (IH (idx + 8) s1 i3 (holds_ro _ _ Hh Hro) Hm1 Hp1 Hs) as (s' & Hsc & Hro' & Hb).
      exists s'. split; [exact Hsc|]. split; [eapply ro_step_trans; eassumption|]. intros _.
      destruct (N.lt_ge_cases (idx + 8) (nb h)) as [Hlt|Hge]; [specialize (Hb Hlt); lia|].
      (* the loop stops at once: i3 = idx + 8 *)
      destruct fu as [|fu']; [discriminate|]. cbn [stage8] in Hs.
      destruct (N.ltb_spec (idx + 8) (nb h)); [lia|]. injection Hs as <-. lia.
  - injection Hs as <-. exists s. split; [reflexivity|]. split; [apply ro_step_refl|]. apply N.ltb_ge in E. lia.
Qed.

(** the view of the bucket array *)
Lemma view_head s i : holds s -> hpos s = htx_header_size + 8 * i -> i < nb h ->
  exists rest, view s FHtx = le_bytes 8 (head_at h i) ++ rest.
Proof.
  intros Hh Hp Hi. unfold view. cbn [get_file]. unfold hpos in Hp. cbn [get_file] in Hp. rewrite Hh, Hp.
  unfold img. rewrite render_htx_split by exact Hsig.
  pose proof (hdr_blen sig2 h Hsig) as Hhb.
  match type of Hhb with blen ?x = _ => set (hd := x) in * end.
  rewrite <- Hhb. rewrite (heads_at (head_at h)) by lia. eexists. reflexivity.
Qed.

(** *** the bucket stride *)
Lemma scan1_refines fuel : forall idx s j off,
  holds s -> hpos s = htx_header_size + 8 * idx ->
  stage1 fuel h (nb h) idx = Ok (j, off) ->
  exists s', scan1 fuel (nb h) idx s = Ok (j, off, s') /\ ro_step s s'.
Proof.
  induction fuel as [|fu IH]; intros idx s j off Hh Hp Hs; [discriminate|].
  cbn [stage1] in Hs. cbn [scan1].
  destruct (idx <? nb h) eqn:E.
  - apply N.ltb_lt in E. cbv zeta in Hs.
    destruct (view_head s idx Hh Hp E) as [rest Hv].
    destruct (read_u64_view FHtx s _ _ (Hheads idx) Hv) as (s1 & Hr & Hf & Ho & _ & Ha).
    rewrite Hr. cbn [rbind].
    assert (Hro : ro_step s s1).
    { eapply ro_step_read; [split; [exact Hf|exact Ho]|exact Ha]. }
    destruct (head_at h idx =? 0) eqn:Z.
    + assert (Hp1 : hpos s1 = htx_header_size + 8 * (idx + 1)).
      { unfold hpos in *. rewrite Hf. cbn [fp]. lia. }
      destruct (IH (idx + 1) s1 j off (holds_ro _ _ Hh Hro) Hp1 Hs) as (s' & Hsc & Hro').
      exists s'. split; [exact Hsc|]. eapply ro_step_trans; eassumption.
    + injection Hs as <- <-. exists s1. split; [reflexivity|exact Hro].
  - injection Hs as <- <-. exists s. split; [reflexivity|apply ro_step_refl].
Qed.

Lemma hdr_ge8 : 8 <= htx_header_size.
Proof. apply N.leb_le. reflexivity. Qed.

Lemma seek_htx s t : holds s -> t <= hend h ->
  ro_step s (seek_to FHtx t s) /\ holds (seek_to FHtx t s) /\ hpos (seek_to FHtx t s) = t.
Proof.
  intros Hh Ht. assert (Hin : t <= fend (get_file s FHtx)) by (rewrite (holds_fend s Hh); exact Ht).
  pose proof (ro_step_seek FHtx t s Hin) as Hro. split; [exact Hro|]. split; [exact (holds_ro _ _ Hh Hro)|].
  unfold hpos. destruct (seek_to_inside FHtx t s Hin) as [Hf _]. rewrite Hf. reflexivity.
Qed.

(** THE SCAN: on the image of a well-formed table the byte-level [next_key_piece_offset] returns
    what [Htx.next_nonempty] returns; it changes no byte, emits no write event and never seeks
    beyond the end of the file ([ro_step]). *)
Theorem next_key_piece_offset_refines s idx j off :
  holds s -> idx < nb h ->
  next_nonempty h (nb h) idx = Ok (j, off) ->
  exists s', next_key_piece_offset (nb h) idx s = Ok (j, off, s') /\ ro_step s s'.
Proof.
  intros Hh Hidx Hn. unfold next_nonempty in Hn. unfold next_key_piece_offset.
  pose proof hend_ge as Hend. pose proof hdr_ge8 as Hh8.
  set (fuel := S (N.to_nat (nb h))) in *.
  (* the index the bucket stride starts from *)
  assert (Hpre : forall idx', 
     (if htx_bitmap then
        if idx mod 8 =? 0 then
          let* i1 := stage64 fuel h (nb h) idx in
          let i2 := if idx <? i1 then i1 - 64 else i1 in
          let* i3 := stage8 fuel h (nb h) i2 in
          if i3 <? 8 then Panic Overflow else Ok (i3 - 8)
        else Ok idx
      else Ok idx) = Ok idx' ->
     exists s', 
       (if htx_bitmap then
          if idx mod 8 =? 0 then
            let* (_, s1) := seek_from_start FHtx (htx_header_size + nb h * 8 + idx / 8) s in
            let* (i1, s2) := scan64 fuel (nb h) idx s1 in
            let* (i2, s3) := (if idx <? i1 then let* (_, a) := seek_cur FHtx true 8 s2 in Ok (i1 - 64, a)
                              else Ok (i1, s2)) in
            let* (i3, s4) := scan8 fuel (nb h) i2 s3 in
            if i3 <? 8 then Panic Overflow else Ok (i3 - 8, s4)
          else Ok (idx, s)
        else Ok (idx, s)) = Ok (idx', s') /\ ro_step s s' /\ holds s' /\ idx' < nb h).
  { intros idx' Hpre.
    destruct htx_bitmap; [|injection Hpre as <-; exists s; split; [reflexivity|]; split; [apply ro_step_refl|]; split; assumption].
    destruct (idx mod 8 =? 0) eqn:M; [|injection Hpre as <-; exists s; split; [reflexivity|]; split; [apply ro_step_refl|]; split; assumption].
    apply N.eqb_eq in M.
    destruct (stage64 fuel h (nb h) idx) as [i1| | |] eqn:S64; cbn [rbind] in Hpre; try discriminate.
    cbv zeta in Hpre.
    destruct (stage8 fuel h (nb h) (if idx <? i1 then i1 - 64 else i1)) as [i3| | |] eqn:S8; cbn [rbind] in Hpre; try discriminate.
    unfold seek_from_start. cbn [rbind].
    replace (htx_header_size + nb h * 8 + idx / 8) with (base + idx / 8) by (unfold base; lia).
    assert (Hd : idx / 8 <= nb h / 8) by (apply N.div_le_mono; lia).
    destruct (seek_htx s (base + idx / 8) Hh) as (Hro1 & Hh1 & Hp1); [unfold base; lia|].
    set (s1 := seek_to FHtx (base + idx / 8) s) in *.
    destruct (scan64_refines fuel idx s1 i1 Hh1 M Hp1 S64) as (s2 & Hsc & Hro2 & Hp2 & Hm2 & Hb2).
    rewrite Hsc. cbn [rbind].
    pose proof (holds_ro _ _ Hh1 Hro2) as Hh2.
    (* the step back *)
    assert (Hback : exists s3, 
       (if idx <? i1 then let* (_, a) := seek_cur FHtx true 8 s2 in Ok (i1 - 64, a) else Ok (i1, s2))
         = Ok ((if idx <? i1 then i1 - 64 else i1), s3) /\ ro_step s2 s3 /\ holds s3 /\
       hpos s3 = base + (if idx <? i1 then i1 - 64 else i1) / 8 /\
       (if idx <? i1 then i1 - 64 else i1) mod 8 = 0 /\ (if idx <? i1 then i1 - 64 else i1) < nb h).
    { destruct (N.ltb_spec idx i1) as [Hlt|Hge].
      - destruct Hb2 as [->|[Hb2 Hb3]]; [lia|].
        assert (Hdiv : i1 / 8 = (i1 - 64) / 8 + 8).
        { replace i1 with ((i1 - 64) + 8 * 8) at 1 by lia. rewrite N.div_add by lia. reflexivity. }
        assert (Hmod : (i1 - 64) mod 8 = 0).
        { replace i1 with ((i1 - 64) + 8 * 8) in Hm2 by lia. rewrite N.mod_add in Hm2 by lia. exact Hm2. }
        unfold seek_cur. fold (hpos s2). rewrite Hp2.
        destruct (N.ltb_spec (base + i1 / 8) 8); [unfold base in *; lia|]. cbn [rbind].
        replace (base + i1 / 8 - 8) with (base + (i1 - 64) / 8) by lia.
        assert (Hd2 : (i1 - 64) / 8 <= nb h / 8) by (apply N.div_le_mono; lia).
        destruct (seek_htx s2 (base + (i1 - 64) / 8) Hh2) as (Hro3 & Hh3 & Hp3); [unfold base; lia|].
        eexists. split; [reflexivity|]. split; [exact Hro3|]. split; [exact Hh3|]. split; [exact Hp3|].
        split; [exact Hmod|lia].
      - destruct Hb2 as [->|[Hb2 Hb3]]; [|lia].
        exists s2. split; [reflexivity|]. split; [apply ro_step_refl|]. split; [exact Hh2|]. split; [exact Hp2|].
        split; [exact M|exact Hidx]. }
    destruct Hback as (s3 & Hbk & Hro3 & Hh3 & Hp3 & Hm3 & Hlt3).
    rewrite Hbk. cbn [rbind].
    destruct (scan8_refines fuel _ s3 i3 Hh3 Hm3 Hp3 S8) as (s4 & Hsc8 & Hro4 & Hb4).
    rewrite Hsc8. cbn [rbind]. specialize (Hb4 Hlt3).
    destruct (i3 <? 8); [discriminate|]. injection Hpre as <-.
    exists s4. split; [reflexivity|]. split.
    - eapply ro_step_trans; [exact Hro1|]. eapply ro_step_trans; [exact Hro2|].
      eapply ro_step_trans; [exact Hro3|exact Hro4].
    - split; [exact (holds_ro _ _ Hh3 Hro4)|lia]. }
  match type of Hn with (let* idx' := ?e in _) = _ => destruct e as [idx'| | |] eqn:Epre end;
    cbn [rbind] in Hn; try discriminate.
  destruct (Hpre idx' eq_refl) as (s' & Hgo & Hro & Hh' & Hlt').
  rewrite Hgo. cbn [rbind]. unfold seek_from_start. cbn [rbind].
  destruct (seek_htx s' (htx_header_size + 8 * idx') Hh') as (Hro5 & Hh5 & Hp5); [lia|].
  destruct (scan1_refines fuel idx' _ j off Hh5 Hp5 Hn) as (s6 & Hsc1 & Hro6).
  exists s6. split; [exact Hsc1|].
  eapply ro_step_trans; [exact Hro|]. eapply ro_step_trans; [exact Hro5|exact Hro6].
Qed.

(** ** every byte of the image *)
Let hdr := htx_signature ++ sig2 ++ le_bytes 8 (nb h) ++ le_bytes 8 (count h) ++ zeros (htx_header_size - 32).

Lemma getb_at_off (l : bytes) a b : getb (at_off l a) b = getb l (a + b).
Proof. unfold at_off. apply getb_drop. Qed.

Lemma getb_img_hdr x : x < htx_header_size -> getb img x = getb hdr x.
Proof.
  intros Hx. unfold img. rewrite render_htx_split by exact Hsig. fold hdr.
  rewrite getb_app. pose proof (hdr_blen sig2 h Hsig) as Hb. fold hdr in Hb. rewrite Hb.
  destruct (N.ltb_spec x htx_header_size); [reflexivity|lia].
Qed.

Lemma getb_img_head i r : i < nb h -> r < 8 ->
  getb img (htx_header_size + 8 * i + r) = getb (le_bytes 8 (head_at h i)) r.
Proof.
  intros Hi Hr. rewrite <- getb_at_off. unfold img. rewrite render_htx_split by exact Hsig.
  pose proof (hdr_blen sig2 h Hsig) as Hhb.
  match type of Hhb with blen ?x = _ => set (hd := x) in * end.
  rewrite <- Hhb. rewrite (heads_at (head_at h)) by lia.
  rewrite getb_app, blen_le_bytes. change (N.of_nat 8) with 8.
  destruct (N.ltb_spec r 8); [reflexivity|lia].
Qed.

Lemma getb_img_bm' x : base <= x -> getb img x = bitmap_byte h (x - base).
Proof. intros Hx. replace x with (base + (x - base)) at 1 by lia. apply getb_img_bm. Qed.

End image.

(** ** the writers *)

Lemma bitmap_byte_write_head h i off j :
  bitmap_byte (write_head h i off) j =
  if j =? i / 8 then set_bit (bitmap_byte h j) (i mod 8) (negb (off =? 0)) else bitmap_byte h j.
Proof.
  assert (Hi : i = 8 * (i / 8) + i mod 8) by (apply N.div_mod; lia).
  assert (Hm : i mod 8 < 8) by (apply N.mod_lt; lia).
  destruct (N.eqb_spec j (i / 8)) as [->|Hne].
  - destruct (set_bit_spec (bitmap_byte h (i / 8)) (i mod 8) (negb (off =? 0)) (bitmap_byte_lt _ _) Hm) as [Hlt Hbits].
    apply byte_ext; [apply bitmap_byte_lt|exact Hlt|]. intros t Ht.
    rewrite Hbits by exact Ht. rewrite !testbit_bitmap_byte by exact Ht.
    unfold write_head. cbn [bitmap].
    destruct (N.eqb_spec t (i mod 8)) as [->|Hnt].
    + rewrite <- Hi. destruct (off =? 0); cbn [negb].
      * apply bool_decide_eq_false. set_solver.
      * apply bool_decide_eq_true. set_solver.
    + assert (8 * (i / 8) + t <> i) by lia.
      destruct (off =? 0); apply bool_decide_ext; set_solver.
  - apply byte_ext; [apply bitmap_byte_lt|apply bitmap_byte_lt|]. intros t Ht.
    rewrite !testbit_bitmap_byte by exact Ht. unfold write_head. cbn [bitmap].
    assert (8 * j + t <> i).
    { intros E. apply Hne. rewrite <- E. apply (N.div_unique _ 8 j t); [exact Ht|reflexivity]. }
    destruct (off =? 0); apply bool_decide_ext; set_solver.
Qed.

(** a step on one file: its bytes and position afterwards, the other files untouched, all
    appended events on that file *)
Definition ev_file (e : ev) : fid :=
  match e with EvSeek f _ | EvRead f _ _ | EvWrite f _ _ | EvSetLen f _ | EvFlush f => f end.

Definition fstep (f : fid) (s s' : st) (b' : bytes) (p' : N) : Prop :=
  upd_file s s' f b' p' /\ exists evs, appended s s' evs /\ Forall (fun e => ev_file e = f) evs.

Lemma fstep_trans f s1 s2 s3 b2 p2 b3 p3 : fstep f s1 s2 b2 p2 -> fstep f s2 s3 b3 p3 -> fstep f s1 s3 b3 p3.
Proof.
  intros [U1 (e1 & A1 & F1)] [U2 (e2 & A2 & F2)]. split; [eapply upd_file_trans; eassumption|].
  exists (e2 ++ e1). split; [eapply appended_trans; eassumption|]. apply Forall_app. split; assumption.
Qed.

Lemma fstep_seek f t s : fstep f s (seek_to f t s) (pad_to (fb (get_file s f)) t) t.
Proof.
  destruct (seek_to_spec f t s) as [U A]. split; [exact U|]. exists [EvSeek f t]. split; [exact A|].
  constructor; [reflexivity|constructor].
Qed.

Lemma fstep_seek_inside f t s : t <= fend (get_file s f) -> fstep f s (seek_to f t s) (fb (get_file s f)) t.
Proof. intros H. pose proof (fstep_seek f t s) as F. rewrite pad_to_le in F by exact H. exact F. Qed.

Lemma fstep_write f d s :
  fstep f s (write_n f d s) (splice (fb (get_file s f)) (fp (get_file s f)) d) (fp (get_file s f) + blen d).
Proof.
  destruct (write_n_spec f d s) as [U A]. split; [exact U|]. eexists. split; [exact A|].
  constructor; [reflexivity|constructor].
Qed.

Lemma fstep_read_le f n s :
  exists s', read_le f n s = Ok (le_decode (map (fun k => getb (fb (get_file s f)) (fp (get_file s f) + k)) (seqN' 0 (N.to_nat n))), s') /\
    fstep f s s' (fb (get_file s f)) (fp (get_file s f) + n).
Proof.
  destruct (read_le_spec f n s) as (s' & Hr & U & A). exists s'. split; [exact Hr|]. split; [exact U|].
  eexists. split; [exact A|]. constructor; [reflexivity|constructor].
Qed.

Lemma fstep_file f s s' b p : fstep f s s' b p -> get_file s' f = File b p (fcs (get_file s f)).
Proof. intros [[H _] _]. exact H. Qed.

Section writers.
Context (sig2 : bytes) (h : htx).
Hypothesis Hsig : length sig2 = 8%nat.
Hypothesis Hwf : htx_wf h.
Hypothesis Hheads : forall i, head_at h i < 2 ^ 64.
Hypothesis Hnb : nb h < 2 ^ 64.
Hypothesis Hcnt : count h < 2 ^ 64.

Let img := render_htx sig2 h.
Let Hfend := holds_fend sig2 h Hsig Hwf Hnb Hcnt.

(** a step that touched the table file only: the other files and all chunk sizes are kept, and
    every appended event is on the table file *)
Definition htx_step (s s' : st) (b' : bytes) : Prop :=
  fb (get_file s' FHtx) = b' /\ fcs (get_file s' FHtx) = fcs (get_file s FHtx) /\
  (forall g, g <> FHtx -> get_file s' g = get_file s g) /\
  exists evs, appended s s' evs /\ Forall (fun e => ev_file e = FHtx) evs.

(** [write_item_count] *)
Theorem write_item_count_render s v : holds sig2 h s -> v < 2 ^ 64 ->
  exists s', write_item_count v s = Ok s' /\
    htx_step s s' (render_htx sig2 (Htx (nb h) (buckets h) (bitmap h) v (hend h))).
Proof.
  intros Hh Hv. unfold write_item_count, seek_from_start, write_u64. cbn [rbind].
  eexists. split; [reflexivity|].
  assert (Hend : htx_count_offset + 8 <= hend h).
  { pose proof Hwf as (_ & H & _). assert (htx_count_offset + 8 <= htx_header_size) by (apply N.leb_le; reflexivity). lia. }
  assert (Hin : htx_count_offset <= fend (get_file s FHtx)) by (rewrite (Hfend s Hh); lia).
  destruct (seek_to_inside FHtx htx_count_offset s Hin) as [Hf Ho].
  destruct (seek_to_spec FHtx htx_count_offset s) as [_ Ha].
  set (s1 := seek_to FHtx htx_count_offset s) in *.
  destruct (write_n_spec FHtx (le_bytes 8 v) s1) as [[Hw Ho2] Ha2].
  rewrite Hf in Hw, Ha2. cbn [fb fp fcs] in Hw, Ha2.
  split; [|split; [|split]].
  - rewrite Hw. cbn [fb get_file]. unfold holds in Hh. rewrite Hh.
    unfold render_htx. cbn [nb count buckets bitmap hend head_at].
    set (pre := htx_signature ++ sig2 ++ le_bytes 8 (nb h)).
    set (post := zeros (htx_header_size - 32) ++
       concat (map (fun i => le_bytes 8 (head_at h i)) (seqN' 0 (N.to_nat (nb h)))) ++
       map (bitmap_byte h) (seqN' 0 (N.to_nat (hend h - (htx_header_size + 8 * nb h))))).
    assert (Hpre : blen pre = htx_count_offset).
    { unfold pre, blen. rewrite !app_length, le_bytes_length, Hsig. reflexivity. }
    replace (htx_signature ++ sig2 ++ le_bytes 8 (nb h) ++ le_bytes 8 (count h) ++ post)
      with (pre ++ le_bytes 8 (count h) ++ post) by (unfold pre; rewrite <- !app_assoc; reflexivity).
    transitivity (pre ++ le_bytes 8 v ++ post).
    + unfold splice. rewrite <- Hpre. rewrite pad_to_le by (rewrite blen_app; lia).
      unfold blen at 1. rewrite Nat2N.id, take_app. f_equal. f_equal.
      rewrite blen_le_bytes. replace (blen pre + N.of_nat 8) with (blen (pre ++ le_bytes 8 (count h))) by (rewrite blen_app, blen_le_bytes; reflexivity).
      rewrite app_assoc. unfold blen. rewrite Nat2N.id. apply drop_app.
    + unfold pre, post. rewrite <- !app_assoc. reflexivity.
  - rewrite Hw. reflexivity.
  - intros g Hg. rewrite Ho2, Ho by exact Hg. reflexivity.
  - exists ([EvWrite FHtx htx_count_offset (blen (le_bytes 8 v))] ++ [EvSeek FHtx htx_count_offset]).
    split; [eapply appended_trans; eassumption|]. repeat constructor.
Qed.

Lemma htx_step_of_fstep s s' b p : fstep FHtx s s' b p -> htx_step s s' b.
Proof.
  intros [[Hf Ho] (evs & A & F)]. split; [rewrite Hf; reflexivity|]. split; [rewrite Hf; reflexivity|].
  split; [exact Ho|]. exists evs. split; [exact A|exact F].
Qed.

(** [write_key_piece_offset]: the bitmap byte is read, changed and written back, then the bucket
    head is written; the file is then the image of [write_head h i off] (one byte longer when
    the bitmap byte lay at the end of the file) *)
Theorem write_key_piece_offset_render s i off : holds sig2 h s -> i < nb h -> off < 2 ^ 64 ->
  exists s', write_key_piece_offset (nb h) i off s = Ok s' /\
    htx_step s s' (render_htx sig2 (write_head h i off)).
Proof.
  intros Hh Hi Hoff. unfold write_key_piece_offset.
  assert (Hbm : htx_bitmap = true) by reflexivity. rewrite Hbm.
  unfold seek_from_start, write_u64. cbn [rbind].
  pose proof (hend_ge h Hwf) as Hend.
  set (base := htx_header_size + 8 * nb h) in *.
  set (p := htx_header_size + nb h * 8 + i / 8).
  set (q := htx_header_size + 8 * i).
  assert (Hd : i / 8 <= nb h / 8) by (apply N.div_le_mono; lia).
  assert (Hp : p = base + i / 8) by (unfold p, base; lia).
  unfold holds in Hh. cbn [get_file] in Hh.
  assert (Himg : blen img = hend h) by (apply img_blen; assumption).
  (* 1. seek to the bitmap byte *)
  assert (F1 : fstep FHtx s (seek_to FHtx p s) img p).
  { pose proof (fstep_seek_inside FHtx p s) as F. cbn [get_file] in F. unfold fend in F. rewrite Hh in F.
    apply F. fold img. lia. }
  set (s1 := seek_to FHtx p s) in *.
  (* 2. read it *)
  destruct (fstep_read_le FHtx 1 s1) as (s2 & Hr & F2).
  rewrite (fstep_file _ _ _ _ _ F1) in Hr, F2. cbn [fb fp] in Hr, F2.
  change (N.to_nat 1) with 1%nat in Hr. cbn [seqN' map seq le_decode] in Hr.
  replace (getb img (p + (0 + N.of_nat 0)) + 256 * 0) with (bitmap_byte h (i / 8)) in Hr.
  2:{ replace (p + (0 + N.of_nat 0)) with (base + i / 8) by lia. unfold img, base.
      rewrite getb_img_bm by assumption. lia. }
  rewrite Hr. cbn [rbind].
  (* 3. seek back, write the byte *)
  pose proof (fstep_trans _ _ _ _ _ _ _ _ F1 F2) as F12.
  assert (F3 : fstep FHtx s2 (seek_to FHtx p s2) img p).
  { pose proof (fstep_seek_inside FHtx p s2) as F. rewrite (fstep_file _ _ _ _ _ F12) in F. unfold fend in F. cbn [fb] in F.
    apply F. lia. }
  set (s3 := seek_to FHtx p s2) in *.
  set (b' := set_bit (bitmap_byte h (i / 8)) (i mod 8) (negb (off =? 0))).
  pose proof (fstep_write FHtx [b'] s3) as F4.
  pose proof (fstep_trans _ _ _ _ _ _ _ _ F12 F3) as F13.
  rewrite (fstep_file _ _ _ _ _ F13) in F4. cbn [fb fp] in F4.
  set (s4 := write_n FHtx [b'] s3) in *.
  pose proof (fstep_trans _ _ _ _ _ _ _ _ F13 F4) as F14.
  (* 4. seek to the bucket head, write it *)
  set (img1 := splice img p [b']) in *.
  assert (Hb1 : blen img1 = N.max (hend h) (p + 1)).
  { unfold img1. rewrite blen_splice, Himg. reflexivity. }
  assert (F5 : fstep FHtx s4 (seek_to FHtx q s4) img1 q).
  { pose proof (fstep_seek_inside FHtx q s4) as F. rewrite (fstep_file _ _ _ _ _ F14) in F. unfold fend in F. cbn [fb] in F.
    apply F. unfold q. lia. }
  set (s5 := seek_to FHtx q s4) in *.
  pose proof (fstep_trans _ _ _ _ _ _ _ _ F14 F5) as F15.
  pose proof (fstep_write FHtx (le_bytes 8 off) s5) as F6.
  rewrite (fstep_file _ _ _ _ _ F15) in F6. cbn [fb fp] in F6.
  pose proof (fstep_trans _ _ _ _ _ _ _ _ F15 F6) as F16.
  eexists. split; [reflexivity|].
  (* the bytes *)
  set (h' := write_head h i off).
  assert (Hwf' : htx_wf h') by (apply htx_wf_write_head; assumption).
  assert (Hheads' : forall j, head_at h' j < 2 ^ 64).
  { intros j. unfold h'. rewrite write_head_head_at. destruct (j =? i); [exact Hoff|apply Hheads]. }
  assert (Himg' : blen (render_htx sig2 h') = N.max (hend h) (p + 1)).
  { rewrite img_blen by assumption. unfold h', write_head. cbn [hend nb]. fold p. reflexivity. }
  replace (render_htx sig2 h') with (splice img1 q (le_bytes 8 off)); [apply htx_step_of_fstep in F16; exact F16|].
  apply bytes_ext.
  - rewrite blen_splice, Hb1, Himg', blen_le_bytes. unfold q. change (N.of_nat 8) with 8. lia.
  - intros x Hx. rewrite blen_splice, Hb1, blen_le_bytes in Hx. change (N.of_nat 8) with 8 in Hx.
    rewrite getb_splice, blen_le_bytes. change (N.of_nat 8) with 8. unfold img1. rewrite getb_splice. change (blen [b']) with 1.
    destruct (N.lt_ge_cases x htx_header_size) as [Hx1|Hx1].
    + (* header *)
      destruct (N.ltb_spec x q); [|unfold q in *; lia]. destruct (N.ltb_spec x p); [|unfold p in *; lia].
      unfold img. rewrite !getb_img_hdr by assumption. reflexivity.
    + destruct (N.lt_ge_cases x base) as [Hx2|Hx2].
      * (* bucket heads *)
        destruct (N.ltb_spec x p); [|unfold p, base in *; lia].
        set (jx := (x - htx_header_size) / 8). set (r := (x - htx_header_size) mod 8).
        assert (Hxd : x = htx_header_size + 8 * jx + r) by (pose proof (N.div_mod (x - htx_header_size) 8); unfold jx, r; lia).
        assert (Hr8 : r < 8) by (apply N.mod_lt; lia).
        assert (Hjx : jx < nb h) by (unfold base in Hx2; lia).
        assert (Hnew : getb (render_htx sig2 h') x = getb (le_bytes 8 (head_at h' jx)) r).
        { transitivity (getb (render_htx sig2 h') (htx_header_size + 8 * jx + r)); [f_equal; exact Hxd|].
          apply getb_img_head; assumption. }
        assert (Hold : getb img x = getb (le_bytes 8 (head_at h jx)) r).
        { transitivity (getb img (htx_header_size + 8 * jx + r)); [f_equal; exact Hxd|].
          apply getb_img_head; assumption. }
        rewrite Hnew. unfold h' at 1. rewrite write_head_head_at.
        destruct (N.eqb_spec jx i) as [Heq|Hneq].
        -- destruct (N.ltb_spec x q); [unfold q in *; lia|]. destruct (N.ltb_spec x (q + 8)); [|unfold q in *; lia].
           f_equal. unfold q. lia.
        -- assert (x < q \/ q + 8 <= x) as Hout by (unfold q; lia).
           destruct (N.ltb_spec x q); [|destruct (N.ltb_spec x (q + 8)); [lia|]]; exact Hold.
      * (* bitmap *)
        destruct (N.ltb_spec x q); [unfold q, base in *; lia|]. destruct (N.ltb_spec x (q + 8)); [unfold q, base in *; lia|].
        assert (Hnew : getb (render_htx sig2 h') x = bitmap_byte h' (x - base)).
        { apply (getb_img_bm' sig2 h'); try assumption. }
        assert (Hold : getb img x = bitmap_byte h (x - base)).
        { apply (getb_img_bm' sig2 h); try assumption. }
        rewrite Hnew. unfold h'. rewrite bitmap_byte_write_head.
        destruct (N.eqb_spec (x - base) (i / 8)) as [Heq|Hneq].
        -- destruct (N.ltb_spec x p); [lia|]. destruct (N.ltb_spec x (p + 1)); [|lia].
           replace (x - p) with 0 by lia. rewrite Heq. reflexivity.
        -- destruct (N.ltb_spec x p); [|destruct (N.ltb_spec x (p + 1)); [lia|]]; exact Hold.
Qed.

(** [read_item_count] once more, with the frame facts a writer needs *)
Lemma read_item_count_fstep s : holds sig2 h s ->
  exists s', read_item_count s = Ok (count h, s') /\ fstep FHtx s s' img (htx_count_offset + 8).
Proof.
  intros Hh. unfold read_item_count, seek_from_start. cbn [rbind].
  assert (Hend : htx_count_offset + 8 <= hend h).
  { pose proof Hwf as (_ & H & _). assert (htx_count_offset + 8 <= htx_header_size) by (apply N.leb_le; reflexivity). lia. }
  assert (Hin : htx_count_offset <= fend (get_file s FHtx)) by (rewrite (Hfend s Hh); lia).
  pose proof (fstep_seek_inside FHtx _ s Hin) as F1. unfold holds in Hh. cbn [get_file] in Hh, F1. rewrite Hh in F1.
  set (s1 := seek_to FHtx htx_count_offset s) in *.
  assert (Hv : view s1 FHtx = le_bytes 8 (count h) ++ (zeros (htx_header_size - 32) ++
            concat (map (fun i => le_bytes 8 (head_at h i)) (seqN' 0 (N.to_nat (nb h)))) ++
            map (bitmap_byte h) (seqN' 0 (N.to_nat (hend h - (htx_header_size + 8 * nb h)))))).
  { unfold view. rewrite (fstep_file _ _ _ _ _ F1). cbn [fb fp].
    unfold render_htx. rewrite (app_assoc sig2), (app_assoc htx_signature).
    apply at_off_app'. unfold blen. rewrite !app_length, le_bytes_length, Hsig. reflexivity. }
  destruct (read_u64_view FHtx s1 _ _ Hcnt Hv) as (s2 & Hr & Hf & Ho & _ & Ha).
  exists s2. split; [exact Hr|]. eapply fstep_trans; [exact F1|].
  rewrite (fstep_file _ _ _ _ _ F1) in Hf. cbn [fb fp fcs] in Hf.
  split; [split; [rewrite Hf, (fstep_file _ _ _ _ _ F1); reflexivity|exact Ho]|].
  eexists. split; [exact Ha|]. constructor; [reflexivity|constructor].
Qed.

End writers.

Lemma htx_step_trans s1 s2 s3 b2 b3 : htx_step s1 s2 b2 -> htx_step s2 s3 b3 -> htx_step s1 s3 b3.
Proof.
  intros (B1 & C1 & O1 & e1 & A1 & F1) (B2 & C2 & O2 & e2 & A2 & F2).
  split; [exact B2|]. split; [congruence|]. split.
  - intros g Hg. rewrite O2, O1 by exact Hg. reflexivity.
  - exists (e2 ++ e1). split; [eapply appended_trans; eassumption|]. apply Forall_app. split; assumption.
Qed.

(** [write_item_count_up] / [write_item_count_down] give the images of [count_up] / [count_down] *)
Theorem write_item_count_up_render sig2 h s :
  length sig2 = 8%nat -> htx_wf h -> (forall i, head_at h i < 2 ^ 64) -> nb h < 2 ^ 64 -> count h + 1 < 2 ^ 64 ->
  holds sig2 h s ->
  exists s', write_item_count_up s = Ok s' /\ htx_step s s' (render_htx sig2 (count_up h)).
Proof.
  intros Hsig Hwf Hheads Hnb Hcnt Hh. assert (Hc : count h < 2 ^ 64) by lia.
  unfold write_item_count_up.
  destruct (read_item_count_fstep sig2 h Hsig Hwf Hnb Hc s Hh) as (s1 & Hr & F1). rewrite Hr. cbn [rbind].
  assert (Hh1 : holds sig2 h s1) by (unfold holds; pose proof (fstep_file _ _ _ _ _ F1) as E; cbn [get_file] in E; rewrite E; reflexivity).
  destruct (write_item_count_render sig2 h Hsig Hwf Hheads Hnb Hc s1 (count h + 1) Hh1 Hcnt) as (s2 & Hw & Hst).
  exists s2. split; [exact Hw|]. eapply htx_step_trans; [eapply htx_step_of_fstep; exact F1|exact Hst].
Qed.

Theorem write_item_count_down_render sig2 h s :
  length sig2 = 8%nat -> htx_wf h -> (forall i, head_at h i < 2 ^ 64) -> nb h < 2 ^ 64 -> count h < 2 ^ 64 ->
  holds sig2 h s ->
  exists s', write_item_count_down s = Ok s' /\ htx_step s s' (render_htx sig2 (count_down h)).
Proof.
  intros Hsig Hwf Hheads Hnb Hc Hh. unfold write_item_count_down.
  destruct (read_item_count_fstep sig2 h Hsig Hwf Hnb Hc s Hh) as (s1 & Hr & F1). rewrite Hr. cbn [rbind].
  assert (Hh1 : holds sig2 h s1) by (unfold holds; pose proof (fstep_file _ _ _ _ _ F1) as E; cbn [get_file] in E; rewrite E; reflexivity).
  unfold count_down. destruct (0 <? count h) eqn:E.
  - destruct (write_item_count_render sig2 h Hsig Hwf Hheads Hnb Hc s1 (count h - 1) Hh1 ltac:(lia)) as (s2 & Hw & Hst).
    exists s2. split; [exact Hw|]. eapply htx_step_trans; [eapply htx_step_of_fstep; exact F1|exact Hst].
  - exists s1. split; [reflexivity|]. eapply htx_step_of_fstep in F1.
    replace (Htx (nb h) (buckets h) (bitmap h) (count h) (hend h)) with h by (destruct h; reflexivity). exact F1.
Qed.

(** the scan is total on a consistent table: with [Htx_proofs.next_nonempty_spec] *)
Corollary next_key_piece_offset_total sig2 h s idx :
  length sig2 = 8%nat -> htx_wf h -> bitmap_ok h -> (forall i, head_at h i < 2 ^ 64) -> nb h < 2 ^ 64 -> count h < 2 ^ 64 ->
  holds sig2 h s -> idx < nb h ->
  exists j off s', next_nonempty h (nb h) idx = Ok (j, off) /\
    next_key_piece_offset (nb h) idx s = Ok (j, off, s') /\ ro_step s s'.
Proof.
  intros Hsig Hwf Hok Hheads Hnb Hc Hh Hidx.
  destruct (next_nonempty_spec h idx Hok ltac:(lia) Hidx) as (j & off & Hn & _).
  destruct (next_key_piece_offset_refines sig2 h Hsig Hwf Hheads Hnb Hc s idx j off Hh Hidx Hn) as (s' & Hgo & Hro).
  exists j, off, s'. auto.
Qed.

Print Assumptions read_key_piece_offset_render.
Print Assumptions write_key_piece_offset_render.
Print Assumptions next_key_piece_offset_refines.
Print Assumptions next_key_piece_offset_total.
Print Assumptions write_item_count_up_render.
Print Assumptions write_item_count_down_render.
