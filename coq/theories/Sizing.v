(** * Sizing: slot size classes and record encoders (piece.rs, key.rs, val.rs).

    [roundup] searches the first [len-1] classes and uses [((x+128)/128)*128] above; the size
    estimate uses [enc_len off] where the writer emits [enc_len (off/8)] - exactly as the code. *)
From Aby Require Import Base Vu64 Consts.

(** per-file constants (key file / value file), from the regenerated [Consts] *)
Record pcfg := PCfg { hdr_size : N; sig1 : bytes; size_ary : list N; free_off : list N }.

Definition key_cfg : pcfg := PCfg key_header_size key_signature key_size_ary key_free_offset.
Definition val_cfg : pcfg := PCfg val_header_size val_signature val_size_ary val_free_offset.

Definition roundup (c : pcfg) (x : N) : N :=
  match List.find (fun a => x <=? a) (removelast (size_ary c)) with
  | Some a => a
  | None => ((x + 128) / 128) * 128
  end.

Definition last_class (c : pcfg) : N := List.last (size_ary c) 0.
Definition second_last_class (c : pcfg) : N := List.last (removelast (size_ary c)) 0.

Definition is_large (c : pcfg) (sz : N) : bool := last_class c <=? sz.

Fixpoint index_of (x : N) (l : list N) (i : nat) : option nat :=
  match l with
  | [] => None
  | a :: l' => if a =? x then Some i else index_of x l' (S i)
  end.

(** [free_piece_list_offset_of_header]: index of the free list a slot size belongs to.
    Sizes that are no class go to the last list; the dev profile asserts they exceed the
    second last class. *)
Definition class_idx (c : pcfg) (sz : N) : res nat :=
  if sz =? 0 then Panic DebugAssert
  else match index_of sz (size_ary c) 0 with
       | Some i => Ok i
       | None =>
         if second_last_class c <? sz then Ok (length (free_off c) - 1)%nat
         else Panic DebugAssert
       end.

(** [is_valid_key] / [is_valid_value] (debug assertions on slot sizes read back) *)
Definition valid_size (c : pcfg) (sz : N) : bool :=
  (negb (sz =? 0)) && (existsb (N.eqb sz) (size_ary c) || (second_last_class c <? sz)).

(** [ValuePiece::encoded_piece_size]: (size field estimate) + (length field + payload) *)
Definition val_need (len : N) : N :=
  let pl := enc_len len + len in
  enc_len ((pl + 7) / 8) + pl.

(** [KeyPiece::encoded_piece_size] *)
Definition key_need (klen voff noff : N) : N :=
  let pl := enc_len klen + klen + enc_len voff + enc_len noff in
  enc_len ((pl + 7) / 8) + pl.

(** what is really written *)
Definition val_body (v : bytes) : bytes := encode (blen v) ++ v.
Definition key_body (k : bytes) (voff noff : N) : bytes :=
  encode (blen k) ++ k ++ encode (voff / 8) ++ encode (noff / 8).
Definition free_body (next : N) : bytes := [0] ++ le_bytes 8 next.

(** a slot image: size field, body, zero padding up to the slot size
    ([write_zero_to_offset] silently writes nothing if the body already passed the end) *)
Definition slot_bytes (size : N) (body : bytes) : bytes :=
  let b := encode (size / 8) ++ body in
  b ++ zeros (size - blen b).

Definition val_real_len (size len : N) : N := enc_len (size / 8) + enc_len len + len.
Definition key_real_len (size klen voff noff : N) : N :=
  enc_len (size / 8) + enc_len klen + klen + enc_len (voff / 8) + enc_len (noff / 8).

(** a slot size the allocator can produce: a class, or a multiple of 128 above the last class *)
Definition valid_slot_size (c : pcfg) (S : N) : Prop :=
  In S (size_ary c) \/ (last_class c < S /\ S mod 128 = 0).

Definition cfg_ok (c : pcfg) : Prop := c = key_cfg \/ c = val_cfg.
