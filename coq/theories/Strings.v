(** * Strings: the [*_string] convenience calls of the API (C14), as a layer over [Db.step].

    src/lib.rs: [get_string], [delete_string], [bulk_get_string], [bulk_delete_string] call the byte
    variant and pass every returned value through [String::from_utf8_lossy]; [put_string] and
    [bulk_put_string] store the bytes of the given [&str] (a Rust string is well-formed UTF-8: the
    encoding of a list of Unicode scalar values).  The layer: an operation is a byte call of [Db]
    or the string variant of one ([SStr]); the string variant runs the byte call and maps
    [Utf8.lossy] over the values it returns ([str_out]).  The correspondence runner executes
    [sstep] (extracted) for the `getstr`, `delstr`, `bulkgetstr`, `bulkdelstr` lines of every
    history, so what the crate's string calls return is compared with [Utf8.lossy] itself.

    Definitions only.  Proved in Strings_proofs.v: the string variants change the world exactly as their byte variants; inside the
    domain of the world-level refinement theorem every string call returns [lossy] of what the
    ideal map holds; a value that was stored from a Rust string ([Utf8_proofs.encode] of scalar
    values - what [put_string] stores) is returned unchanged by the string variants. *)
From Aby Require Import Base Vu64 KeyTypes Consts Sizing Alloc Htx Store Iter Stats Layout Bulk Db Utf8.

Definition str_out (r : out) : out :=
  match r with
  | ROpt o => ROpt (lossy <$> o)
  | RVec l => RVec (map (fmap lossy) l)
  | _ => r
  end.

Inductive sop := SPlain (o : op) | SStr (o : op).

Definition plain (o : sop) : op := match o with SPlain o | SStr o => o end.
Definition post (o : sop) (r : out) : out := match o with SPlain _ => r | SStr _ => str_out r end.

Definition sstep (w : world) (o : sop) : world * out :=
  let '(w', r) := step w (plain o) in (w', post o r).

Fixpoint srun_outs (w : world) (ops : list sop) : list out :=
  match ops with
  | [] => []
  | o :: ops' => snd (sstep w o) :: srun_outs (fst (sstep w o)) ops'
  end.
Definition sworld_run (w : world) (ops : list sop) : world := fold_left (fun w o => fst (sstep w o)) ops w.

