(** * Probe: model-side measurements of what an update did.  Used only by the correspondence
    runner to report, in the evidence, which paths of the model the generated histories exercised
    (new key / in-place overwrite / value moved / key record moved / how many records a re-link
    cascade moved / chain position / file extended or free slot re-used). *)
From Aby Require Import Base Vu64 KeyTypes Consts Sizing Alloc Htx Store Iter Stats Layout Bulk Db.

Definition store_at (w : world) (m : N) : option store :=
  match mids w !! m with
  | Some (mk, _) => files w !! mk
  | None => None
  end.

Definition key_of_handle (w : world) (m : N) (x : Z) : bytes := of_int (handle_type w m) x.

(** (offset, predecessor, next link, value offset) of the record holding [k] *)
Definition find_at (s : store) (k : bytes) : option (N * N * N * N) :=
  match find s k with
  | Ok (Some (off, prev)) =>
    match read_krec s off with
    | Ok r => Some (off, prev, k_next r, k_voff r)
    | _ => None
    end
  | _ => None
  end.

Definition used_offsets {P} (f : pfile P) : list N :=
  omap (fun os : N * slot P => match snd os with Used _ _ => Some (fst os) | Free _ _ => None end)
       (map_to_list (slots f)).
Definition free_count {P} (f : pfile P) : N :=
  N.of_nat (length (List.filter (fun os : N * slot P => match snd os with Free _ _ => true | _ => false end)
                           (map_to_list (slots f)))).

Record shape := Shape { sh_koffs : list N; sh_kfend : N; sh_vfend : N; sh_kfree : N; sh_vfree : N }.
Definition shape_of (s : store) : shape :=
  Shape (used_offsets (keyf s)) (fend (keyf s)) (fend (valf s)) (free_count (keyf s)) (free_count (valf s)).

(** number of key records of [a] that are at another offset (or gone) in [b] *)
Definition moved (a b : list N) : N :=
  N.of_nat (length (List.filter (fun o => negb (existsb (N.eqb o) b)) a)).
