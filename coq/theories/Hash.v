(** * Hash: the placement hash ([HashValue::hash_value] with [MyHasher], src/lib.rs).

    [derive(Hash)] on the key newtype feeds the hasher first the length of the byte vector as
    8 native-endian bytes (64-bit little-endian target: fixed here, see DESIGN.md section 8) and
    then the bytes.  Each [write] folds its input 8 bytes at a time, big endian:
    [state := xorshift64 (state + chunk)] with wrap-around at 2^64. *)
From Aby Require Import Base.

Definition wrap64 (x : N) : N := x mod two64.

Definition xorshift (a : N) : N :=
  let x := a in
  let x := N.lxor x (N.shiftr x 12) in
  let x := N.lxor x (wrap64 (N.shiftl x 25)) in
  let x := N.lxor x (N.shiftr x 27) in
  x.

(** [bytes.chunks(8)] *)
Fixpoint chunks8 (fuel : nat) (bs : bytes) : list bytes :=
  match fuel with
  | O => []
  | S f =>
    match bs with
    | [] => []
    | _ => take 8 bs :: chunks8 f (drop 8 bs)
    end
  end.

Definition hwrite (st : N) (bs : bytes) : N :=
  fold_left (fun s c => xorshift (wrap64 (s + be_decode c))) (chunks8 (length bs) bs) st.

Definition hash_value (k : bytes) : N :=
  hwrite (hwrite 0 (le_bytes 8 (blen k))) k.

Definition bucket_of (k : bytes) (n : N) : N := hash_value k mod n.
