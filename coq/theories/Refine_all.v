(** * Refine_all: the closed refinement theorems (allocator specs, key comparison and the
    operation lemmas put together) and the run-level statement of property C01. *)
From Aby Require Import Base Vu64 Vu64_proofs Hash KeyTypes KeyTypes_proofs Consts Sizing Alloc AllocInv
  AllocInv_proofs Htx Htx_proofs Store Spec Refine Refine_relink Refine_ops.

Lemma key_cfg_ok : cfg_ok key_cfg. Proof. left; reflexivity. Qed.
Lemma val_cfg_ok : cfg_ok val_cfg. Proof. right; reflexivity. Qed.

(** key comparison on well-formed keys decides byte equality *)
Theorem cmp_eq_wf : cmp_eq_wf_stmt.
Proof.
  intros t a b Ha Hb.
  destruct (decide (t = KVu64)) as [-> | Hne].
  - destruct Ha as (_ & _ & Ha). destruct (Ha eq_refl) as (x & Hx & ->).
    destruct Hb as (_ & _ & Hb). destruct (Hb eq_refl) as (y & Hy & ->).
    change (encode x) with (of_vu64 x). change (encode y) with (of_vu64 y).
    rewrite C10_vu64_same by assumption. f_equal.
    destruct (N.eqb_spec x y) as [-> | Hxy].
    + symmetry. apply bool_decide_eq_true. reflexivity.
    + symmetry. apply bool_decide_eq_false. intros Heq. apply Hxy.
      apply of_vu64_inj; assumption.
  - destruct (C10_bytes_total t a b Hne) as [r Hr]. rewrite Hr. f_equal.
    destruct r.
    + symmetry. apply bool_decide_eq_true. apply (C10_bytes_identity t a b Hne). exact Hr.
    + symmetry. apply bool_decide_eq_false. intros Heq.
      apply (C10_bytes_identity t a b Hne) in Heq. rewrite Heq in Hr. discriminate.
Qed.

Definition Kfacts := @used_facts_ok krec key_cfg key_cfg_ok.
Definition Knew := @write_new_ok krec key_cfg key_cfg_ok.
Definition Kold := @write_old_ok krec key_cfg key_cfg_ok.
Definition Kdel := @delete_ok krec key_cfg key_cfg_ok.
Definition Vnew := @write_new_ok bytes val_cfg val_cfg_ok.
Definition Vold := @write_old_ok bytes val_cfg val_cfg_ok.
Definition Vdel := @delete_ok bytes val_cfg val_cfg_ok.

Theorem find_closed : find_stmt.
Proof. exact (find_ok Kfacts cmp_eq_wf). Qed.
Theorem get_closed : get_stmt.
Proof. exact (get_ok Kfacts cmp_eq_wf). Qed.
Theorem len_closed : len_stmt.
Proof. exact len_ok. Qed.
Theorem create_closed : create_inv_stmt.
Proof.
  exact (Refine_relink.create_ok (@AllocInv_proofs.create_ok krec key_cfg key_cfg_ok)
                                 (@AllocInv_proofs.create_ok bytes val_cfg val_cfg_ok)).
Qed.
Theorem find_prev_closed : find_prev_stmt.
Proof. exact find_prev_ok. Qed.
Theorem relink_closed : relink_stmt.
Proof. exact (relink_ok Kold Kfacts). Qed.
Theorem put_closed : put_stmt.
Proof. exact (put_ok Knew Kold Kfacts Vnew Vold find_closed relink_closed). Qed.
Theorem del_closed : del_stmt.
Proof.
  exact (del_ok Kold Kdel Kfacts Vdel find_closed find_prev_closed
                (Refine_relink.relink_orph_ok Kold Kfacts)).
Qed.

(** ** Histories *)

Definition op_wf (t : ktype) (o : dop) : Prop :=
  match o with
  | Put k v => key_wf t k /\ val_wf v
  | Get k | Del k | Has k => key_wf t k
  | Len | IsEmpty => True
  end.

(** one API call on one map, as [Db.step] performs it *)
Definition store_step (s : store) (o : dop) : res (store * dout) :=
  match o with
  | Put k v => let* s' := put s k v in Ok (s', DUnit)
  | Get k => let* r := get s k in Ok (s, DOpt r)
  | Del k => let* (s', r) := del s k in Ok (s', DOpt r)
  | Has k => let* b := has s k in Ok (s, DBool b)
  | Len => Ok (s, DNum (len s))
  | IsEmpty => Ok (s, DBool (len s =? 0))
  end.

Fixpoint store_run (s : store) (ops : list dop) : res (store * list dout) :=
  match ops with
  | [] => Ok (s, [])
  | o :: ops' =>
    let* (s1, r) := store_step s o in
    let* (s2, rs) := store_run s1 ops' in
    Ok (s2, r :: rs)
  end.

Lemma step_refines s m o : Inv s -> represents s m -> op_wf (kt s) o ->
  exists s', store_step s o = Ok (s', snd (spec_step m o)) /\ Inv s' /\
             represents s' (fst (spec_step m o)) /\ kt s' = kt s /\ nb (hx s') = nb (hx s).
Proof.
  intros HI HR Hw. destruct o as [k v | k | k | k | |]; cbn [op_wf] in Hw.
  - destruct Hw as [Hk Hv].
    destruct (put_closed s m k v HI HR Hk Hv) as (s' & Hp & HI' & HR' & Ht & Hn).
    exists s'. cbn [store_step spec_step fst snd]. rewrite Hp. cbn [rbind]. auto.
  - destruct (get_closed s m k HI HR Hw) as [Hg _].
    exists s. cbn [store_step spec_step fst snd]. rewrite Hg. cbn [rbind]. auto.
  - destruct (del_closed s m k HI HR Hw) as (s' & Hd & HI' & HR' & Ht & Hn).
    exists s'. cbn [store_step spec_step fst snd]. rewrite Hd. cbn [rbind]. auto.
  - destruct (get_closed s m k HI HR Hw) as [_ Hh].
    exists s. cbn [store_step spec_step fst snd]. rewrite Hh. cbn [rbind]. auto.
  - exists s. cbn [store_step spec_step fst snd]. rewrite (len_closed s m HI HR). auto.
  - exists s. cbn [store_step spec_step fst snd]. rewrite (len_closed s m HI HR).
    replace (N.of_nat (size m) =? 0) with (bool_decide (size m = 0%nat)); [auto|].
    destruct (size m) as [|n] eqn:E.
    + rewrite bool_decide_eq_true_2 by reflexivity. reflexivity.
    + rewrite bool_decide_eq_false_2 by discriminate. symmetry. apply N.eqb_neq. lia.
Qed.

Theorem run_refines s m ops : Inv s -> represents s m -> Forall (op_wf (kt s)) ops ->
  exists s', store_run s ops = Ok (s', snd (spec_run m ops)) /\ Inv s' /\
             represents s' (fst (spec_run m ops)) /\ kt s' = kt s /\ nb (hx s') = nb (hx s).
Proof.
  revert s m. induction ops as [|o ops IH]; intros s m HI HR Hw.
  - exists s. cbn. auto.
  - inversion Hw as [|? ? Ho Hops]; subst.
    destruct (step_refines s m o HI HR Ho) as (s1 & Hs & HI1 & HR1 & Ht1 & Hn1).
    assert (Hops' : Forall (op_wf (kt s1)) ops) by (rewrite Ht1; exact Hops).
    destruct (IH s1 _ HI1 HR1 Hops') as (s2 & Hr & HI2 & HR2 & Ht2 & Hn2).
    exists s2. cbn [store_run spec_run].
    destruct (spec_step m o) as [m1 r] eqn:E1. cbn [fst snd] in *.
    destruct (spec_run m1 ops) as [m2 rs] eqn:E2. cbn [fst snd] in *.
    rewrite Hs. cbn [rbind]. rewrite Hr. cbn [rbind].
    split; [reflexivity|]. split; [exact HI2|]. split; [exact HR2|].
    split; [rewrite Ht2; exact Ht1 | rewrite Hn2; exact Hn1].
Qed.

(** a freshly created map of any key type and any table size *)
Theorem run_from_create t n ops : 1 <= n -> Forall (op_wf t) ops ->
  exists s', store_run (create t n) ops = Ok (s', snd (spec_run ∅ ops)) /\ Inv s' /\
             represents s' (fst (spec_run ∅ ops)).
Proof.
  intros Hn Hw. destruct (create_closed t n Hn) as [HI HR].
  destruct (run_refines (create t n) ∅ ops HI HR Hw) as (s' & Hr & HI' & HR' & _ & _).
  exists s'. auto.
Qed.
