(** * Io_flat: every operation of the byte-level I/O model [Io] is, file by file, a run of
    canonical buffer calls whose events are exactly the logged ones.

    Cache_x.v proves that the buffer cache ([Rabuf], Cache.v) refines the flat reference [xrun]
    (Flatx.v) inside its domain.  This file is the other half:

    A. [call]: the four canonical calls a [VarFile] primitive of Io.v makes on its buffered file;
       [tstep] is what the primitive does to (position, bytes) - total -, [call_ev] the event it
       logs; [calls_between s s']: between the two states every file went through a list of
       calls, and the events appended to the log are, file by file, the events of those calls;
    B. every function of Io.v that returns a state satisfies [calls_between] whenever it returns
       [Ok] (by construction), and so do the histories [io_run] of Io_run.v;
    C. [call_ok] / [calls_ok]: the domain of [xstep] as a decidable predicate; inside it the
       [xrun] of the calls is [trun] and its results are the ones the primitives computed
       ([calls_ok_xrun]); the same predicate computed from the events alone ([evs_ok]);
    D. (stretch) is in Io_flat_ro.v: the calls of the read-only operations on the images of a
       well-formed state are inside that domain;
    E. an example by computation. *)
From Coq Require Import Lia ZifyN ZifyNat ZifyBool.
From Aby Require Import Base Vu64 Hash KeyTypes Consts Sizing Alloc Htx Store Stats Cache Cache_proofs Flatx
  Io Io_base Io_htx Io_reads Io_run.
Import Io.

#[local] Open Scope N_scope.

(** ** A. calls *)
Inductive call := CSeek (t : N) | CRead (n : N) | CWrite (d : bytes) | CSetLen (n : N).

(** the canonical rabuf call *)
Definition call_op (c : call) : Rabuf.op :=
  match c with
  | CSeek t => OSeek (SeekStart t)
  | CRead n => ORead n
  | CWrite d => OWrite d
  | CSetLen n => OSetLen n
  end.

Definition flat_of (x : Io.file) : Rabuf.flat := Flat (fp x) (fb x).

(** exactly what [Io.seek_to] / [read_n] / [write_n] / [set_len] do to (position, bytes) *)
Definition tstep (x : flat) (c : call) : flat :=
  match c with
  | CSeek t => Flat t (pad_to (f_bytes x) t)
  | CRead n => Flat (f_pos x + n) (f_bytes x)
  | CWrite d => Flat (f_pos x + blen d) (splice (f_bytes x) (f_pos x) d)
  | CSetLen n => Flat (N.min (f_pos x) n) (resize (f_bytes x) n)
  end.

(** the event the primitive logs *)
Definition call_ev (f : fid) (x : flat) (c : call) : ev :=
  match c with
  | CSeek t => EvSeek f t
  | CRead n => EvRead f (f_pos x) n
  | CWrite d => EvWrite f (f_pos x) (blen d)
  | CSetLen n => EvSetLen f n
  end.

(** the result the primitive computes: the position arrived at, the bytes read *)
Definition call_out (x : flat) (c : call) : out :=
  match c with
  | CSeek t => RPos t
  | CRead n => RData (snd (xread x n))
  | CWrite _ | CSetLen _ => RUnitC
  end.

Fixpoint trun (x : flat) (cs : list call) : flat :=
  match cs with [] => x | c :: r => trun (tstep x c) r end.

(** oldest first *)
Fixpoint tevs (f : fid) (x : flat) (cs : list call) : list ev :=
  match cs with [] => [] | c :: r => call_ev f x c :: tevs f (tstep x c) r end.

Fixpoint touts (x : flat) (cs : list call) : list out :=
  match cs with [] => [] | c :: r => call_out x c :: touts (tstep x c) r end.

Definition fid_eqb (a b : fid) : bool :=
  match a, b with FKey, FKey | FVal, FVal | FHtx, FHtx => true | _, _ => false end.

Lemma fid_eqb_refl f : fid_eqb f f = true.
Proof. destruct f; reflexivity. Qed.
Lemma fid_eqb_eq a b : fid_eqb a b = true <-> a = b.
Proof. destruct a, b; cbn; split; congruence. Qed.
Lemma fid_eqb_neq a b : a <> b -> fid_eqb a b = false.
Proof. destruct a, b; cbn; congruence. Qed.

(** the events on file [f] ([ev_file]: Io_htx.v), in order *)
Definition evs_on (f : fid) (evs : list ev) : list ev := List.filter (fun e => fid_eqb (ev_file e) f) evs.

Lemma evs_on_app f a b : evs_on f (a ++ b) = evs_on f a ++ evs_on f b.
Proof. apply List.filter_app. Qed.

(** between [s] and [s'] every file went through a list of calls, its chunk size is kept, and the
    events appended to the log ([evs], oldest first; the log is kept newest first) are, file by
    file, the events of those calls *)
Definition calls_between (s s' : st) : Prop :=
  exists cf : fid -> list call,
    (forall f, trun (flat_of (get_file s f)) (cf f) = flat_of (get_file s' f) /\
               fcs (get_file s' f) = fcs (get_file s f)) /\
    exists evs, s_log s' = rev evs ++ s_log s /\
      forall f, evs_on f evs = tevs f (flat_of (get_file s f)) (cf f).

Lemma trun_app x a b : trun x (a ++ b) = trun (trun x a) b.
Proof. revert x. induction a as [|c a IH]; intros x; cbn [trun app]; [reflexivity|apply IH]. Qed.
Lemma tevs_app f x a b : tevs f x (a ++ b) = tevs f x a ++ tevs f (trun x a) b.
Proof.
  revert x. induction a as [|c a IH]; intros x; cbn [trun tevs app]; [reflexivity|]. rewrite IH. reflexivity.
Qed.
Lemma touts_app x a b : touts x (a ++ b) = touts x a ++ touts (trun x a) b.
Proof.
  revert x. induction a as [|c a IH]; intros x; cbn [trun touts app]; [reflexivity|]. rewrite IH. reflexivity.
Qed.

Lemma tevs_on f x l : evs_on f (tevs f x l) = tevs f x l.
Proof.
  revert x. induction l as [|c l IH]; intros x; [reflexivity|]. cbn [tevs]. unfold evs_on in *. cbn [List.filter].
  replace (ev_file (call_ev f x c)) with f by (destruct c; reflexivity).
  rewrite fid_eqb_refl, IH. reflexivity.
Qed.

(** ** B. every function of Io.v is a run of calls *)

Lemma cb_refl s : calls_between s s.
Proof.
  exists (fun _ => []). split; [intros f; split; reflexivity|]. exists []. split; reflexivity.
Qed.

Lemma cb_trans s1 s2 s3 : calls_between s1 s2 -> calls_between s2 s3 -> calls_between s1 s3.
Proof.
  intros (c1 & H1 & e1 & A1 & F1) (c2 & H2 & e2 & A2 & F2).
  exists (fun f => c1 f ++ c2 f). split.
  - intros f. destruct (H1 f) as [a b], (H2 f) as [c d]. rewrite trun_app, a. split; [exact c|congruence].
  - exists (e1 ++ e2). split.
    + rewrite A2, A1, rev_app_distr, app_assoc. reflexivity.
    + intros f. rewrite evs_on_app, tevs_app, F1, F2. destruct (H1 f) as [a _]. rewrite a. reflexivity.
Qed.

(** one call on file [f] *)
Lemma cb_one f c s s' :
  flat_of (get_file s' f) = tstep (flat_of (get_file s f)) c ->
  fcs (get_file s' f) = fcs (get_file s f) ->
  (forall g, g <> f -> get_file s' g = get_file s g) ->
  s_log s' = call_ev f (flat_of (get_file s f)) c :: s_log s ->
  calls_between s s'.
Proof.
  intros Hf Hc Ho Hl.
  exists (fun g => if fid_eq_dec g f then [c] else []). split.
  - intros g. destruct (fid_eq_dec g f) as [->|Hg]; cbn [trun].
    + split; [symmetry; exact Hf|exact Hc].
    + rewrite (Ho g Hg). split; reflexivity.
  - exists [call_ev f (flat_of (get_file s f)) c]. split; [exact Hl|].
    intros g. unfold evs_on. cbn [List.filter].
    replace (ev_file (call_ev f (flat_of (get_file s f)) c)) with f by (destruct c; reflexivity).
    destruct (fid_eq_dec g f) as [->|Hg].
    + rewrite fid_eqb_refl. reflexivity.
    + rewrite fid_eqb_neq by congruence. reflexivity.
Qed.

(** *** the primitives *)
Lemma seek_to_calls f t s : calls_between s (seek_to f t s).
Proof.
  apply (cb_one f (CSeek t)); unfold seek_to.
  - rewrite get_emit, get_set_same. reflexivity.
  - rewrite get_emit, get_set_same. reflexivity.
  - intros g Hg. rewrite get_emit, get_set_other by congruence. reflexivity.
  - rewrite log_emit, log_set_file. reflexivity.
Qed.

Lemma write_n_calls f d s : calls_between s (write_n f d s).
Proof.
  apply (cb_one f (CWrite d)); unfold write_n.
  - rewrite get_emit, get_set_same. reflexivity.
  - rewrite get_emit, get_set_same. reflexivity.
  - intros g Hg. rewrite get_emit, get_set_other by congruence. reflexivity.
  - rewrite log_emit, log_set_file. reflexivity.
Qed.

Lemma set_len_calls f n s : calls_between s (Io.set_len f n s).
Proof.
  apply (cb_one f (CSetLen n)); unfold Io.set_len.
  - rewrite get_emit, get_set_same. reflexivity.
  - rewrite get_emit, get_set_same. reflexivity.
  - intros g Hg. rewrite get_emit, get_set_other by congruence. reflexivity.
  - rewrite log_emit, log_set_file. reflexivity.
Qed.

Lemma read_n_calls f n s r s' : read_n f n s = Ok (r, s') -> calls_between s s'.
Proof.
  unfold read_n. intros [= _ <-]. apply (cb_one f (CRead n)).
  - rewrite get_emit, get_set_same. reflexivity.
  - rewrite get_emit, get_set_same. reflexivity.
  - intros g Hg. rewrite get_emit, get_set_other by congruence. reflexivity.
  - rewrite log_emit, log_set_file. reflexivity.
Qed.

Lemma seek_from_start_calls f off s r s' : seek_from_start f off s = Ok (r, s') -> calls_between s s'.
Proof. unfold seek_from_start. intros [= _ <-]. apply seek_to_calls. Qed.

Lemma seek_cur_calls f neg x s r s' : seek_cur f neg x s = Ok (r, s') -> calls_between s s'.
Proof.
  unfold seek_cur. destruct neg; [destruct (_ <? _); [discriminate|]|]; intros [= _ <-]; apply seek_to_calls.
Qed.

Lemma seek_position_calls f s r s' : seek_position f s = Ok (r, s') -> calls_between s s'.
Proof. apply seek_cur_calls. Qed.

Lemma seek_to_end_calls f s r s' : seek_to_end f s = Ok (r, s') -> calls_between s s'.
Proof. unfold seek_to_end. intros [= _ <-]. apply seek_to_calls. Qed.

(** the results of the primitives are the results of the calls ([call_out]): a seek returns the
    position it arrived at (the [t] of its [CSeek t]), a read the bytes of [xread] *)
Lemma read_raw_xread x n : read_raw x n = snd (xread (flat_of x) n).
Proof. reflexivity. Qed.

Lemma prim_results f s :
  (forall off r s', seek_from_start f off s = Ok (r, s') -> r = off /\ s' = seek_to f r s) /\
  (forall neg x r s', seek_cur f neg x s = Ok (r, s') -> s' = seek_to f r s) /\
  (forall r s', seek_position f s = Ok (r, s') -> s' = seek_to f r s) /\
  (forall r s', seek_to_end f s = Ok (r, s') -> s' = seek_to f r s) /\
  (forall n r s', read_n f n s = Ok (r, s') ->
     call_out (flat_of (get_file s f)) (CRead n) = RData r).
Proof.
  split; [intros off r s'; unfold seek_from_start; intros [= <- <-]; auto|].
  assert (Hc : forall neg x r s', seek_cur f neg x s = Ok (r, s') -> s' = seek_to f r s).
  { intros neg x r s'. unfold seek_cur.
    destruct neg; [destruct (_ <? _); [discriminate|]|]; intros [= <- <-]; reflexivity. }
  split; [exact Hc|]. split; [intros r s'; apply Hc|].
  split; [intros r s'; unfold seek_to_end; intros [= <- <-]; reflexivity|].
  intros n r s'. unfold read_n. intros [= <- _]. reflexivity.
Qed.

Create HintDb cb.
#[export] Hint Resolve seek_from_start_calls seek_cur_calls seek_position_calls seek_to_end_calls read_n_calls : cb.

(** stepping through [let*] binds: [cb_step] peels one bind / one test (as [lk_one] of Io_reads.v,
    but a bind is inverted by a lemma, not by a [destruct] of the bound computation: the terms stay
    small); then every equation [g .. s = Ok (.., s1)] left becomes [calls_between s s1] by the
    lemma of [g]; then the facts are chained *)
Lemma rbind_ok {A B} (m : res A) (f : A -> res B) b : rbind m f = Ok b -> exists a, m = Ok a /\ f a = Ok b.
Proof. destruct m; cbn [rbind]; intros H; try discriminate. eauto. Qed.

Ltac cb_step :=
  match goal with
  | H : Panic _ = Ok _ |- _ => discriminate H
  | H : IoErr = Ok _ |- _ => discriminate H
  | H : OutOfFuel = Ok _ |- _ => discriminate H
  | H : Ok _ = Ok _ |- _ => injection H as H; subst
  | H : (_, _) = (_, _) |- _ => injection H as ?; subst
  | H : rbind ?m _ = Ok _ |- _ =>
      let a := fresh "a" in let E := fresh "E" in apply rbind_ok in H as (a & E & H); cbv beta in H
  | H : (if ?c then _ else _) = Ok _ |- _ => destruct c eqn:?
  | H : match ?o with Some _ => _ | None => _ end = Ok _ |- _ => destruct o
  | H : context [match ?p with pair _ _ => _ end] |- _ => is_var p; destruct p
  end.

Ltac cb_facts :=
  repeat match goal with
  | E : _ ?s = Ok (_, ?s1) |- _ =>
      let L := fresh "L" in assert (L : calls_between s s1) by (eauto 3 with cb); clear E
  | E : _ ?s = Ok ?s1 |- _ =>
      let L := fresh "L" in assert (L : calls_between s s1) by (eauto 3 with cb); clear E
  end.

Ltac cb_chain :=
  repeat match goal with
  | |- calls_between ?s ?s => apply cb_refl
  | H : calls_between ?s ?s1 |- calls_between ?s ?s2 => first [exact H | apply (cb_trans _ _ _ H); clear H]
  | H : calls_between (seek_to ?f ?t ?s) _ |- calls_between ?s _ => apply (cb_trans _ _ _ (seek_to_calls f t s))
  | H : calls_between (write_n ?f ?d ?s) _ |- calls_between ?s _ => apply (cb_trans _ _ _ (write_n_calls f d s))
  | H : calls_between (Io.set_len ?f ?n ?s) _ |- calls_between ?s _ => apply (cb_trans _ _ _ (set_len_calls f n s))
  | |- calls_between ?s (seek_to ?f ?t ?s) => apply seek_to_calls
  | |- calls_between ?s (write_n ?f ?d ?s) => apply write_n_calls
  | |- calls_between ?s (Io.set_len ?f ?n ?s) => apply set_len_calls
  | |- calls_between ?s (seek_to ?f ?t ?s1) => apply (cb_trans s s1); [|apply seek_to_calls]
  | |- calls_between ?s (write_n ?f ?d ?s1) => apply (cb_trans s s1); [|apply write_n_calls]
  | |- calls_between ?s (Io.set_len ?f ?n ?s1) => apply (cb_trans s s1); [|apply set_len_calls]
  end.

Ltac cb := repeat cb_step; cb_facts; cb_chain.

Lemma read_le_calls f n s r s' : read_le f n s = Ok (r, s') -> calls_between s s'.
Proof. unfold read_le. intros H. cb. Qed.
#[export] Hint Resolve read_le_calls : cb.

Lemma write_all_calls fuel : forall f d s s', write_all fuel f d s = Ok s' -> calls_between s s'.
Proof.
  induction fuel as [|fu IH]; intros f d s s' H; destruct d as [|b d']; cbn [write_all] in H.
  - injection H as <-. apply cb_refl.
  - discriminate.
  - injection H as <-. apply cb_refl.
  - apply IH in H. eapply cb_trans; [apply write_n_calls|exact H].
Qed.
Lemma write_all_bytes_calls f d s s' : write_all_bytes f d s = Ok s' -> calls_between s s'.
Proof. apply write_all_calls. Qed.
#[export] Hint Resolve write_all_calls write_all_bytes_calls : cb.

(** *** fields *)
Lemma read_vu64_calls f s r s' : read_vu64 f s = Ok (r, s') -> calls_between s s'.
Proof. unfold read_vu64. intros H. cb. Qed.
Lemma write_vu64_calls f v s s' : write_vu64 f v s = Ok s' -> calls_between s s'.
Proof. unfold write_vu64. intros H. cb. Qed.
#[export] Hint Resolve read_vu64_calls write_vu64_calls : cb.

Lemma read_piece_size_calls f s r s' : read_piece_size f s = Ok (r, s') -> calls_between s s'.
Proof. unfold read_piece_size. intros H. cb. Qed.
Lemma write_piece_size_calls f sz s s' : write_piece_size f sz s = Ok s' -> calls_between s s'.
Proof. unfold write_piece_size. intros H. cb. Qed.
Lemma read_piece_offset_calls f s r s' : read_piece_offset f s = Ok (r, s') -> calls_between s s'.
Proof. unfold read_piece_offset. intros H. cb. Qed.
Lemma write_piece_offset_calls f off s s' : write_piece_offset f off s = Ok s' -> calls_between s s'.
Proof. unfold write_piece_offset. intros H. cb. Qed.
Lemma read_u64_calls f s r s' : read_u64 f s = Ok (r, s') -> calls_between s s'.
Proof. unfold read_u64. intros H. cb. Qed.
Lemma write_u64_calls f v s s' : write_u64 f v s = Ok s' -> calls_between s s'.
Proof. unfold write_u64. intros H. cb. Qed.
#[export] Hint Resolve read_piece_size_calls write_piece_size_calls read_piece_offset_calls write_piece_offset_calls
  read_u64_calls write_u64_calls : cb.

Lemma write_zero_to_offset_calls f off s s' : write_zero_to_offset f off s = Ok s' -> calls_between s s'.
Proof. unfold write_zero_to_offset. intros H. cb. Qed.
#[export] Hint Resolve write_zero_to_offset_calls : cb.

Lemma write_piece_clear_calls f off size s s' : write_piece_clear f off size s = Ok s' -> calls_between s s'.
Proof. unfold write_piece_clear. intros H. cb. Qed.
#[export] Hint Resolve write_piece_clear_calls : cb.

(** *** free lists *)
Lemma read_free_on_header_calls c f sz s r s' : read_free_on_header c f sz s = Ok (r, s') -> calls_between s s'.
Proof. unfold read_free_on_header. intros H. cb. Qed.
Lemma write_free_on_header_calls c f sz off s s' : write_free_on_header c f sz off s = Ok s' -> calls_between s s'.
Proof. unfold write_free_on_header. intros H. cb. Qed.
Lemma read_free_fields_calls f s r s' : read_free_fields f s = Ok (r, s') -> calls_between s s'.
Proof. unfold read_free_fields. intros H. cb. Qed.
#[export] Hint Resolve read_free_on_header_calls write_free_on_header_calls read_free_fields_calls : cb.
Lemma read_free_piece_size_next_calls f off s r s' : read_free_piece_size_next f off s = Ok (r, s') -> calls_between s s'.
Proof. unfold read_free_piece_size_next. intros H. cb. Qed.
#[export] Hint Resolve read_free_piece_size_next_calls : cb.

Lemma count_free_loop_calls fuel : forall f off acc s r s', count_free_loop fuel f off acc s = Ok (r, s') -> calls_between s s'.
Proof. induction fuel as [|fu IH]; intros f off acc s r s' H; cbn [count_free_loop] in H; cb. Qed.
#[export] Hint Resolve count_free_loop_calls : cb.
Lemma count_of_free_piece_list_calls c f sz s r s' : count_of_free_piece_list c f sz s = Ok (r, s') -> calls_between s s'.
Proof. unfold count_of_free_piece_list. intros H. cb. Qed.
#[export] Hint Resolve count_of_free_piece_list_calls : cb.

Lemma push_free_calls c f off sz s s' : push_free c f off sz s = Ok s' -> calls_between s s'.
Proof. unfold push_free. intros H. cb. Qed.
#[export] Hint Resolve push_free_calls : cb.

Lemma pop_large_calls fuel : forall c f nsz prev curr s r s',
  pop_large fuel c f nsz prev curr s = Ok (r, s') -> calls_between s s'.
Proof. induction fuel as [|fu IH]; intros c f nsz prev curr s r s' H; cbn [pop_large] in H; cb. Qed.
#[export] Hint Resolve pop_large_calls : cb.

Lemma pop_free_calls c f nsz s r s' : pop_free c f nsz s = Ok (r, s') -> calls_between s s'.
Proof. unfold pop_free. intros H. cb. Qed.
#[export] Hint Resolve pop_free_calls : cb.

(** *** records *)
Lemma val_write_one_calls v off size s s' : val_write_one v off size s = Ok s' -> calls_between s s'.
Proof. unfold val_write_one. intros H. cb. Qed.
Lemma key_write_one_calls k voff noff off size s s' : key_write_one k voff noff off size s = Ok s' -> calls_between s s'.
Proof. unfold key_write_one. intros H. cb. Qed.
#[export] Hint Resolve val_write_one_calls key_write_one_calls : cb.

Lemma add_new_calls c f nsz wr :
  (forall a b s s', wr a b s = Ok s' -> calls_between s s') ->
  forall s r s', add_new c f nsz wr s = Ok (r, s') -> calls_between s s'.
Proof. intros Hwr s r s' H. unfold add_new in H. cb. Qed.

Lemma write_piece_calls c f need wr old :
  (forall a b s s', wr a b s = Ok s' -> calls_between s s') ->
  forall s r s', write_piece c f need wr old s = Ok (r, s') -> calls_between s s'.
Proof.
  intros Hwr s r s' H. unfold write_piece in H. pose proof (add_new_calls c f (roundup c need) wr Hwr) as Ha. cb.
Qed.

Lemma val_write_piece_calls v old s r s' : val_write_piece v old s = Ok (r, s') -> calls_between s s'.
Proof. unfold val_write_piece. apply write_piece_calls. intros a b. apply val_write_one_calls. Qed.
Lemma key_write_piece_calls k voff noff old s r s' : key_write_piece k voff noff old s = Ok (r, s') -> calls_between s s'.
Proof. unfold key_write_piece. apply write_piece_calls. intros a b. apply key_write_one_calls. Qed.
#[export] Hint Resolve val_write_piece_calls key_write_piece_calls : cb.

Lemma delete_piece_calls c f off s s' : delete_piece c f off s = Ok s' -> calls_between s s'.
Proof. unfold delete_piece. intros H. cb. Qed.
#[export] Hint Resolve delete_piece_calls : cb.

Lemma seek_skip_to_piece_calls f off s r s' : seek_skip_to_piece f off s = Ok (r, s') -> calls_between s s'.
Proof. unfold seek_skip_to_piece. intros H. cb. Qed.
#[export] Hint Resolve seek_skip_to_piece_calls : cb.

Lemma key_read_piece_calls off s r s' : key_read_piece off s = Ok (r, s') -> calls_between s s'.
Proof. unfold key_read_piece. intros H. cb. Qed.
Lemma read_piece_only_size_calls f off s r s' : read_piece_only_size f off s = Ok (r, s') -> calls_between s s'.
Proof. unfold read_piece_only_size. intros H. cb. Qed.
Lemma read_piece_only_length_calls f off s r s' : read_piece_only_length f off s = Ok (r, s') -> calls_between s s'.
Proof. unfold read_piece_only_length. intros H. cb. Qed.
Lemma read_piece_only_payload_calls f off s r s' : read_piece_only_payload f off s = Ok (r, s') -> calls_between s s'.
Proof. unfold read_piece_only_payload. intros H. cb. Qed.
Lemma read_piece_only_value_offset_calls off s r s' :
  read_piece_only_value_offset off s = Ok (r, s') -> calls_between s s'.
Proof. unfold read_piece_only_value_offset. intros H. cb. Qed.
Lemma read_piece_only_bucket_next_offset_calls off s r s' :
  read_piece_only_bucket_next_offset off s = Ok (r, s') -> calls_between s s'.
Proof. unfold read_piece_only_bucket_next_offset. intros H. cb. Qed.
Lemma val_read_piece_calls off s r s' : val_read_piece off s = Ok (r, s') -> calls_between s s'.
Proof. unfold val_read_piece. intros H. cb. Qed.
#[export] Hint Resolve key_read_piece_calls read_piece_only_size_calls read_piece_only_length_calls
  read_piece_only_payload_calls read_piece_only_value_offset_calls read_piece_only_bucket_next_offset_calls
  val_read_piece_calls : cb.

(** *** the table file *)
Lemma read_hash_buckets_size_calls s r s' : read_hash_buckets_size s = Ok (r, s') -> calls_between s s'.
Proof. unfold read_hash_buckets_size. intros H. cb. Qed.
Lemma read_item_count_calls s r s' : read_item_count s = Ok (r, s') -> calls_between s s'.
Proof. unfold read_item_count. intros H. cb. Qed.
Lemma write_item_count_calls v s s' : write_item_count v s = Ok s' -> calls_between s s'.
Proof. unfold write_item_count. intros H. cb. Qed.
#[export] Hint Resolve read_hash_buckets_size_calls read_item_count_calls write_item_count_calls : cb.
Lemma write_item_count_up_calls s s' : write_item_count_up s = Ok s' -> calls_between s s'.
Proof. unfold write_item_count_up. intros H. cb. Qed.
Lemma write_item_count_down_calls s s' : write_item_count_down s = Ok s' -> calls_between s s'.
Proof. unfold write_item_count_down. intros H. cb. Qed.
Lemma read_key_piece_offset_calls i s r s' : read_key_piece_offset i s = Ok (r, s') -> calls_between s s'.
Proof. unfold read_key_piece_offset. intros H. cb. Qed.
Lemma write_key_piece_offset_calls n idx off s s' : write_key_piece_offset n idx off s = Ok s' -> calls_between s s'.
Proof. unfold write_key_piece_offset. intros H. cb. Qed.
#[export] Hint Resolve write_item_count_up_calls write_item_count_down_calls read_key_piece_offset_calls
  write_key_piece_offset_calls : cb.

Lemma scan64_calls fuel : forall n idx s r s', scan64 fuel n idx s = Ok (r, s') -> calls_between s s'.
Proof. induction fuel as [|fu IH]; intros n idx s r s' H; cbn [scan64] in H; cb. Qed.
Lemma scan8_calls fuel : forall n idx s r s', scan8 fuel n idx s = Ok (r, s') -> calls_between s s'.
Proof. induction fuel as [|fu IH]; intros n idx s r s' H; cbn [scan8] in H; cb. Qed.
Lemma scan1_calls fuel : forall n idx s r s', scan1 fuel n idx s = Ok (r, s') -> calls_between s s'.
Proof. induction fuel as [|fu IH]; intros n idx s r s' H; cbn [scan1] in H; cb. Qed.
#[export] Hint Resolve scan64_calls scan8_calls scan1_calls : cb.

Lemma next_key_piece_offset_calls n idx s r s' : next_key_piece_offset n idx s = Ok (r, s') -> calls_between s s'.
Proof. unfold next_key_piece_offset. intros H. cb. Qed.
#[export] Hint Resolve next_key_piece_offset_calls : cb.

Lemma filling_loop_calls cnt : forall idx acc s r s', filling_loop cnt idx acc s = Ok (r, s') -> calls_between s s'.
Proof. induction cnt as [|c IH]; intros idx acc s r s' H; cbn [filling_loop] in H; cb. Qed.
#[export] Hint Resolve filling_loop_calls : cb.
Lemma filling_calls n s r s' : filling n s = Ok (r, s') -> calls_between s s'.
Proof. unfold filling. intros H. cb. Qed.
#[export] Hint Resolve filling_calls : cb.

(** *** the map operations *)
Lemma find_loop_calls fuel : forall t key prev off s r s', find_loop fuel t key prev off s = Ok (r, s') -> calls_between s s'.
Proof. induction fuel as [|fu IH]; intros t key prev off s r s' H; cbn [find_loop] in H; cb. Qed.
#[export] Hint Resolve find_loop_calls : cb.
Lemma find_calls m key s r s' : find m key s = Ok (r, s') -> calls_between s s'.
Proof. unfold find. intros H. cb. Qed.
Lemma load_value_calls koff s r s' : load_value koff s = Ok (r, s') -> calls_between s s'.
Proof. unfold load_value. intros H. cb. Qed.
#[export] Hint Resolve find_calls load_value_calls : cb.

Ltac cb_top := repeat cb_step; cbn [with_st m_st m_kt m_n]; cb_facts; cb_chain.

Theorem get_calls m key r m' : Io.get m key = Ok (r, m') -> calls_between (m_st m) (m_st m').
Proof. unfold Io.get. intros H. cb_top. Qed.

Theorem has_calls m key r m' : Io.has m key = Ok (r, m') -> calls_between (m_st m) (m_st m').
Proof. unfold Io.has. intros H. cb_top. Qed.

Theorem len_calls m r m' : Io.len m = Ok (r, m') -> calls_between (m_st m) (m_st m').
Proof. unfold Io.len. intros H. cb_top. Qed.

Lemma find_prev_loop_calls fuel : forall target prev curr s r s',
  find_prev_loop fuel target prev curr s = Ok (r, s') -> calls_between s s'.
Proof. induction fuel as [|fu IH]; intros target prev curr s r s' H; cbn [find_prev_loop] in H; cb. Qed.
#[export] Hint Resolve find_prev_loop_calls : cb.
Lemma find_prev_calls m b target s r s' : find_prev m b target s = Ok (r, s') -> calls_between s s'.
Proof. unfold find_prev. intros H. cb. Qed.
#[export] Hint Resolve find_prev_calls : cb.

Lemma relink_calls fuel : forall m b prev newoff s s', relink fuel m b prev newoff s = Ok s' -> calls_between s s'.
Proof. induction fuel as [|fu IH]; intros m b prev newoff s s' H; cbn [relink] in H; cb. Qed.
#[export] Hint Resolve relink_calls : cb.

Theorem put_calls m key v m' : Io.put m key v = Ok m' -> calls_between (m_st m) (m_st m').
Proof. unfold Io.put. intros H. cbv zeta in H. cb_top. Qed.

Theorem del_calls m key r m' : Io.del m key = Ok (r, m') -> calls_between (m_st m) (m_st m').
Proof. unfold Io.del. intros H. cbv zeta in H. cb_top. Qed.

(** *** the iterator *)
Lemma iter_new_calls s r s' : iter_new s = Ok (r, s') -> calls_between s s'.
Proof. unfold iter_new. intros H. cb. Qed.
#[export] Hint Resolve iter_new_calls : cb.

Lemma bucket_loop_calls fuel : forall n idx s r s', bucket_loop fuel n idx s = Ok (r, s') -> calls_between s s'.
Proof. induction fuel as [|fu IH]; intros n idx s r s' H; cbn [bucket_loop] in H; cb. Qed.
#[export] Hint Resolve bucket_loop_calls : cb.

Lemma iter_next_off_calls it s r s' : iter_next_off it s = Ok (r, s') -> calls_between s s'.
Proof. unfold iter_next_off. intros H. cb. Qed.
#[export] Hint Resolve iter_next_off_calls : cb.

Lemma iter_next_calls it s r s' : iter_next it s = Ok (r, s') -> calls_between s s'.
Proof. unfold iter_next. intros H. cb. Qed.
#[export] Hint Resolve iter_next_calls : cb.

Lemma iter_collect_calls fuel : forall it acc s r s', iter_collect fuel it acc s = Ok (r, s') -> calls_between s s'.
Proof. induction fuel as [|fu IH]; intros it acc s r s' H; cbn [iter_collect] in H; cb. Qed.
Lemma iter_extra_calls n : forall it s r s', iter_extra n it s = Ok (r, s') -> calls_between s s'.
Proof. induction n as [|n IH]; intros it s r s' H; cbn [iter_extra] in H; cb. Qed.
#[export] Hint Resolve iter_collect_calls iter_extra_calls : cb.

Theorem iter_run_calls m r m' : Io.iter_run m = Ok (r, m') -> calls_between (m_st m) (m_st m').
Proof. unfold Io.iter_run. intros H. cb_top. Qed.

(** *** statistics *)
Lemma count_frees_calls c f szs : forall s r s', count_frees c f szs s = Ok (r, s') -> calls_between s s'.
Proof. induction szs as [|sz rest IH]; intros s r s' H; cbn [count_frees] in H; cb. Qed.
#[export] Hint Resolve count_frees_calls : cb.

Lemma piece_walk_calls c f visit :
  (forall off acc s r s', visit off acc s = Ok (r, s') -> calls_between s s') ->
  forall fuel off e acc s r s', piece_walk c f visit fuel off e acc s = Ok (r, s') -> calls_between s s'.
Proof.
  intros Hv. induction fuel as [|fu IH]; intros off e acc s r s' H; cbn [piece_walk] in H; cb.
Qed.

Lemma piece_stats_calls c f visit :
  (forall off acc s r s', visit off acc s = Ok (r, s') -> calls_between s s') ->
  forall s r s', piece_stats c f visit s = Ok (r, s') -> calls_between s s'.
Proof.
  intros Hv s r s' H. unfold piece_stats in H. pose proof (piece_walk_calls c f visit Hv) as Hw. cb.
Qed.

Lemma size_visit_calls f off acc s r s' : size_visit f off acc s = Ok (r, s') -> calls_between s s'.
Proof. unfold size_visit. intros H. cb. Qed.
Lemma len_visit_calls f off acc s r s' : len_visit f off acc s = Ok (r, s') -> calls_between s s'.
Proof. unfold len_visit. intros H. cb. Qed.

Lemma piece_stats_size_calls c f g s r s' : piece_stats c f (size_visit g) s = Ok (r, s') -> calls_between s s'.
Proof. apply piece_stats_calls. apply size_visit_calls. Qed.
Lemma piece_stats_len_calls c f g s r s' : piece_stats c f (len_visit g) s = Ok (r, s') -> calls_between s s'.
Proof. apply piece_stats_calls. apply len_visit_calls. Qed.
#[export] Hint Resolve piece_stats_size_calls piece_stats_len_calls : cb.

Theorem stats_of_calls m r m' : Io.stats_of m = Ok (r, m') -> calls_between (m_st m) (m_st m').
Proof. unfold Io.stats_of. intros H. cbv zeta in H. cb_top. Qed.

(** *** creation and open *)
Lemma init_pheader_calls c f sig2 s s' : init_pheader c f sig2 s = Ok s' -> calls_between s s'.
Proof. unfold init_pheader. intros H. cb. Qed.
Lemma init_htx_calls sig2 n s s' : init_htx sig2 n s = Ok s' -> calls_between s s'.
Proof. unfold init_htx. intros H. cbv zeta in H. cb. Qed.
#[export] Hint Resolve init_pheader_calls init_htx_calls : cb.

Theorem create_calls t n bk bv bh m : Io.create t n bk bv bh = Ok m -> calls_between (empty_st bk bv bh) (m_st m).
Proof. unfold Io.create. intros H. cbv zeta in H. cb_top. Qed.

Lemma open_check_calls f sg1 sg2 third_ok s r s' : open_check f sg1 sg2 third_ok s = Ok (r, s') -> calls_between s s'.
Proof. unfold open_check. intros H. cb. Qed.
#[export] Hint Resolve open_check_calls : cb.

Theorem open_existing_calls t s o s' : Io.open_existing t s = Ok (o, s') -> calls_between s s'.
Proof.
  unfold Io.open_existing. intros H. cbv zeta in H.
  repeat first [cb_step | match goal with H : match ?v with HdrOk => _ | HdrBad => _ | HdrFresh => _ end = Ok _ |- _ => destruct v end];
    cb_facts; cb_chain.
Qed.

(** *** histories ([io_step] / [io_run]: Io_run.v) *)
Lemma io_step_calls m o m' r : io_step m o = Ok (m', r) -> calls_between (m_st m) (m_st m').
Proof.
  destruct o as [k v | k | k | k | |]; cbn [io_step]; intros H; repeat cb_step;
    eauto using put_calls, get_calls, del_calls, has_calls, len_calls.
Qed.

Theorem io_run_calls ops : forall m m' outs, io_run m ops = Ok (m', outs) -> calls_between (m_st m) (m_st m').
Proof.
  induction ops as [|o ops IH]; intros m m' outs H; cbn [io_run] in H; repeat cb_step; [apply cb_refl|].
  eapply cb_trans; [eapply io_step_calls; eassumption|eapply IH; eassumption].
Qed.

(** ** C. the domain of the cache theorem *)

(** inside this domain [xstep] (Flatx.v) is defined on the canonical call and agrees with [tstep] *)
Definition call_ok (cs : N) (x : flat) (c : call) : bool :=
  match c with
  | CSeek _ => true
  | CRead n => xread_ok cs x n
  | CWrite _ => f_pos x <=? f_end x
  | CSetLen n => (f_pos x <=? f_end x) && (f_end x <=? n)
  end.

Fixpoint calls_ok (cs : N) (x : flat) (l : list call) : bool :=
  match l with [] => true | c :: r => call_ok cs x c && calls_ok cs (tstep x c) r end.

Lemma calls_ok_app cs x a b : calls_ok cs x (a ++ b) = calls_ok cs x a && calls_ok cs (trun x a) b.
Proof.
  revert x. induction a as [|c a IH]; intros x; cbn [calls_ok trun app]; [reflexivity|].
  rewrite IH, andb_assoc. reflexivity.
Qed.

Lemma resize_grow (l : bytes) n : blen l <= n -> resize l n = pad_to l n.
Proof.
  intros H. unfold resize. apply take_ge. pose proof (blen_pad_to l n) as E. unfold blen in *. lia.
Qed.

Lemma call_ok_xstep cs x c : call_ok cs x c = true ->
  xstep cs x (call_op c) = Some (tstep x c, call_out x c).
Proof.
  destruct c as [t|n|d|n]; cbn [call_ok call_op xstep tstep call_out]; intros H.
  - reflexivity.
  - unfold xread_out. rewrite H. reflexivity.
  - rewrite H. reflexivity.
  - apply andb_prop in H as [H1 H2]. rewrite H1. cbn [Rabuf.fstep]. unfold flat_set_len.
    apply N.leb_le in H1, H2.
    destruct (N.ltb_spec n (f_end x)) as [|_]; [lia|]. cbn [mbind option_bind].
    rewrite N.min_l by lia. rewrite resize_grow by exact H2. reflexivity.
Qed.

(** inside the domain the flat reference run of the calls is [trun], with the results the
    primitives computed ([touts]: [RPos t] for [CSeek t], [RData] of the bytes [read_n] returned -
    [prim_results] -, [RUnitC] for a write / set_len) *)
Theorem calls_ok_xrun cs x l : calls_ok cs x l = true ->
  exists outs, xrun cs x (map call_op l) = Some (trun x l, outs) /\ outs = touts x l.
Proof.
  intros H. exists (touts x l). split; [|reflexivity]. revert x H.
  induction l as [|c l IH]; intros x H; cbn [calls_ok map xrun trun touts] in *; [reflexivity|].
  apply andb_prop in H as [H1 H2]. rewrite (call_ok_xstep cs x c H1). cbn [mbind option_bind].
  rewrite (IH _ H2). reflexivity.
Qed.

(** the canonical call of a seek is [SeekStart] of the position arrived at; the primitives
    [seek_cur] / [seek_position] ([SeekFrom::Current]) and [seek_to_end] ([SeekFrom::End(0)]) are
    logged by that position.  Nothing is lost: the cache and the flat reference compute the
    target first and then do what [SeekStart target] does *)
Definition seek_target (pos end_ : N) (sf : seekfrom) : option N :=
  match sf with
  | SeekStart x => Some x
  | SeekEnd _ x => if end_ <? x then None else Some (end_ - x)
  | SeekCur true x => if pos <? x then None else Some (pos - x)
  | SeekCur false x => Some (pos + x)
  end.

Lemma seek_canonical_cache c sf t : seek_target (k_pos c) (k_end c) sf = Some t ->
  Rabuf.seek c sf = Rabuf.seek c (SeekStart t).
Proof.
  unfold seek_target, Rabuf.seek. destruct sf as [x|neg x|[|] x].
  - intros [= ->]. reflexivity.
  - destruct (k_end c <? x); [discriminate|]. intros [= <-]. reflexivity.
  - destruct (k_pos c <? x); [discriminate|]. intros [= <-]. reflexivity.
  - intros [= <-]. reflexivity.
Qed.

Lemma seek_canonical_flat cs x sf t : seek_target (f_pos x) (f_end x) sf = Some t ->
  xstep cs x (OSeek sf) = xstep cs x (OSeek (SeekStart t)).
Proof.
  unfold seek_target. cbn [xstep Rabuf.fstep]. unfold flat_seek. destruct sf as [y|neg y|[|] y].
  - intros [= ->]. reflexivity.
  - destruct (f_end x <? y); [discriminate|]. intros [= <-]. reflexivity.
  - destruct (f_pos x <? y); [discriminate|]. intros [= <-]. reflexivity.
  - intros [= <-]. reflexivity.
Qed.

(** the same predicate from the EVENTS of file [f] alone (no data), tracking position and end:
    a seek arriving beyond the end extends; a write extends to [max end (pos + len)]; set_len sets
    the end; a read moves the position.  Events of other files are skipped.  (The position an
    event of a read / write carries is compared with the tracked one.) *)
Fixpoint evs_ok (cs : N) (f : fid) (pos end_ : N) (evs : list ev) : bool :=
  match evs with
  | [] => true
  | e :: r =>
    if fid_eqb (ev_file e) f then
      match e with
      | EvSeek _ t => evs_ok cs f t (N.max end_ t) r
      | EvRead _ p n => (p =? pos) && (chunk_off cs (pos + (n - 1)) <=? end_) && evs_ok cs f (pos + n) end_ r
      | EvWrite _ p n => (p =? pos) && (pos <=? end_) && evs_ok cs f (pos + n) (N.max end_ (pos + n)) r
      | EvSetLen _ n => (pos <=? end_) && (end_ <=? n) && evs_ok cs f (N.min pos n) n r
      | EvFlush _ => (pos <=? end_) && evs_ok cs f pos end_ r
      end
    else evs_ok cs f pos end_ r
  end.

Lemma evs_ok_on cs f pos end_ evs : evs_ok cs f pos end_ (evs_on f evs) = evs_ok cs f pos end_ evs.
Proof.
  revert pos end_. induction evs as [|e r IH]; intros pos end_; [reflexivity|].
  unfold evs_on in *. cbn [List.filter evs_ok].
  destruct (fid_eqb (ev_file e) f) eqn:E; [|apply IH].
  cbn [evs_ok]. rewrite E. destruct e; rewrite ?IH; reflexivity.
Qed.

Lemma evs_ok_calls cs f x l : evs_ok cs f (f_pos x) (f_end x) (tevs f x l) = calls_ok cs x l.
Proof.
  revert x. induction l as [|c l IH]; intros x; [reflexivity|].
  cbn [tevs calls_ok evs_ok].
  replace (ev_file (call_ev f x c)) with f by (destruct c; reflexivity). rewrite fid_eqb_refl.
  rewrite <- IH.
  destruct c as [t|n|d|n]; cbn [call_ev call_ok tstep f_pos f_bytes]; unfold f_end; cbn [f_bytes].
  - rewrite blen_pad_to. reflexivity.
  - rewrite N.eqb_refl. unfold xread_ok, f_end. reflexivity.
  - rewrite N.eqb_refl, blen_splice. reflexivity.
  - rewrite blen_resize. reflexivity.
Qed.

(** the two halves meet here: the events a step appended to the log decide, file by file, whether
    its calls are inside the domain *)
Theorem calls_between_evs s s' : calls_between s s' ->
  exists (cf : fid -> list call) evs,
    s_log s' = rev evs ++ s_log s /\
    (forall f, trun (flat_of (get_file s f)) (cf f) = flat_of (get_file s' f) /\
               fcs (get_file s' f) = fcs (get_file s f)) /\
    (forall f, evs_on f evs = tevs f (flat_of (get_file s f)) (cf f)) /\
    forall f cs, evs_ok cs f (fp (get_file s f)) (fend (get_file s f)) evs = calls_ok cs (flat_of (get_file s f)) (cf f).
Proof.
  intros (cf & H & evs & A & F). exists cf, evs. split; [exact A|]. split; [exact H|]. split; [exact F|].
  intros f cs. rewrite <- evs_ok_on, F. apply (evs_ok_calls cs f (flat_of (get_file s f))).
Qed.

(** ... and then the flat reference run of the calls of file [f] ends in the file of [s'] *)
Corollary calls_between_xrun s s' : calls_between s s' ->
  exists (cf : fid -> list call) evs,
    s_log s' = rev evs ++ s_log s /\
    (forall f, evs_on f evs = tevs f (flat_of (get_file s f)) (cf f)) /\
    forall f cs, evs_ok cs f (fp (get_file s f)) (fend (get_file s f)) evs = true ->
      xrun cs (flat_of (get_file s f)) (map call_op (cf f)) =
        Some (flat_of (get_file s' f), touts (flat_of (get_file s f)) (cf f)).
Proof.
  intros H. destruct (calls_between_evs s s' H) as (cf & evs & A & T & F & K).
  exists cf, evs. split; [exact A|]. split; [exact F|]. intros f cs Hok. rewrite K in Hok.
  destruct (calls_ok_xrun cs _ _ Hok) as (outs & R & ->). rewrite R. destruct (T f) as [-> _]. reflexivity.
Qed.

(** from an empty log the events are the whole log: [evs_ok] on the drained trace of a session
    decides [calls_ok] of its calls, and inside the domain the flat reference run of the canonical
    calls of file [f] is defined, ends in the file of [s'] and returns what the primitives returned *)
Corollary session_calls s s' : calls_between s s' -> s_log s = [] ->
  exists cf : fid -> list call,
    (forall f, tevs f (flat_of (get_file s f)) (cf f) = evs_on f (rev (s_log s'))) /\
    (forall f cs, calls_ok cs (flat_of (get_file s f)) (cf f) =
                  evs_ok cs f (fp (get_file s f)) (fend (get_file s f)) (rev (s_log s'))) /\
    (forall f cs, evs_ok cs f (fp (get_file s f)) (fend (get_file s f)) (rev (s_log s')) = true ->
       xrun cs (flat_of (get_file s f)) (map call_op (cf f)) =
         Some (flat_of (get_file s' f), touts (flat_of (get_file s f)) (cf f))).
Proof.
  intros H Hl. destruct (calls_between_evs s s' H) as (cf & evs & A & T & F & K).
  rewrite Hl, app_nil_r in A. rewrite A, rev_involutive. exists cf.
  split; [intros f; symmetry; apply F|]. split; [intros f cs; symmetry; apply K|].
  intros f cs Hok. rewrite K in Hok. destruct (calls_ok_xrun cs _ _ Hok) as (outs & R & ->).
  rewrite R. destruct (T f) as [-> _]. reflexivity.
Qed.

(** ** E. non-vacuity: a session by computation

    [create] (16 buckets, all three buffers [BufAuto]: chunk size 4096), two [put]s, a [get], a
    complete traversal, the statistics and a [del].  The traversal's 8-byte stride over the 2-byte
    bitmap reads [EvRead FHtx 256 8] on a table file of 258 bytes: 6 bytes beyond the end. *)
Definition ex_session : res mp :=
  let* m0 := Io.create KBytes 16 BufAuto BufAuto BufAuto in
  let* m1 := Io.put m0 [1; 2] [3; 4; 5] in
  let* m2 := Io.put m1 [7] [8] in
  let* (_, m3) := Io.get m2 [1; 2] in
  let* (_, m4) := Io.iter_run m3 in
  let* (_, m5) := Io.stats_of m4 in
  let* (_, m6) := Io.del m5 [7] in
  Ok m6.

Lemma ex_session_calls m : ex_session = Ok m -> calls_between (empty_st BufAuto BufAuto BufAuto) (m_st m).
Proof.
  unfold ex_session. intros H. repeat cb_step.
  eapply cb_trans; [eapply create_calls; eassumption|].
  eapply cb_trans; [eapply put_calls; eassumption|].
  eapply cb_trans; [eapply put_calls; eassumption|].
  eapply cb_trans; [eapply get_calls; eassumption|].
  eapply cb_trans; [eapply iter_run_calls; eassumption|].
  eapply cb_trans; [eapply stats_of_calls; eassumption|].
  eapply del_calls; eassumption.
Qed.

Example ex_session_in_domain :
  exists m, ex_session = Ok m /\ length (s_log (m_st m)) = 406%nat /\
    existsb (fun e => match e with EvRead FHtx 256 8 => true | _ => false end) (s_log (m_st m)) = true /\
    (* every file: the trace is inside the domain for chunks of 4096 bytes ... *)
    (forall f, evs_ok 4096 f 0 0 (rev (s_log (m_st m))) = true) /\
    (* ... (the predicate does say something: with chunks of 4 bytes the read beyond the end is outside) *)
    evs_ok 4 FHtx 0 0 (rev (s_log (m_st m))) = false /\
    (* ... and so the calls of the session, file by file, are a defined flat reference run from the
       empty file to the file the session left *)
    exists cf : fid -> list call, forall f,
      tevs f (Flat 0 []) (cf f) = evs_on f (rev (s_log (m_st m))) /\
      calls_ok 4096 (Flat 0 []) (cf f) = true /\
      xrun 4096 (Flat 0 []) (map call_op (cf f)) = Some (flat_of (get_file (m_st m) f), touts (Flat 0 []) (cf f)).
Proof.
  destruct ex_session as [m| | |] eqn:E; try (vm_compute in E; discriminate E).
  pose proof (ex_session_calls m E) as Hcb.
  destruct (session_calls _ _ Hcb eq_refl) as (cf & F & K & X).
  assert (Hok : forall f, evs_ok 4096 f 0 0 (rev (s_log (m_st m))) = true).
  { vm_compute in E. injection E as <-. intros []; vm_compute; reflexivity. }
  exists m. split; [reflexivity|].
  split; [vm_compute in E; injection E as <-; vm_compute; reflexivity|].
  split; [vm_compute in E; injection E as <-; vm_compute; reflexivity|].
  split; [exact Hok|].
  split; [vm_compute in E; injection E as <-; vm_compute; reflexivity|].
  exists cf. intros f.
  assert (E0 : flat_of (get_file (empty_st BufAuto BufAuto BufAuto) f) = Flat 0 []) by (destruct f; reflexivity).
  assert (E1 : fp (get_file (empty_st BufAuto BufAuto BufAuto) f) = 0) by (destruct f; reflexivity).
  assert (E2 : fend (get_file (empty_st BufAuto BufAuto BufAuto) f) = 0) by (destruct f; reflexivity).
  assert (E3 : fcs (get_file (empty_st BufAuto BufAuto BufAuto) f) = 4096) by (destruct f; reflexivity).
  specialize (F f). specialize (K f 4096). specialize (X f 4096). rewrite E0 in F, K, X. rewrite E1, E2 in K, X.
  split; [exact F|]. split; [rewrite K; apply Hok|apply X; apply Hok].
Qed.

Print Assumptions cb_trans.
Print Assumptions get_calls.
Print Assumptions has_calls.
Print Assumptions len_calls.
Print Assumptions put_calls.
Print Assumptions del_calls.
Print Assumptions iter_run_calls.
Print Assumptions stats_of_calls.
Print Assumptions create_calls.
Print Assumptions open_existing_calls.
Print Assumptions io_run_calls.
Print Assumptions seek_canonical_cache.
Print Assumptions seek_canonical_flat.
Print Assumptions calls_ok_xrun.
Print Assumptions evs_ok_calls.
Print Assumptions calls_between_evs.
Print Assumptions calls_between_xrun.
Print Assumptions session_calls.
Print Assumptions ex_session_in_domain.
