(** * Io_updates: the byte-level [Io.put] and [Io.del] refine [Store.put] / [Store.del].

    If the record-level operation on a well-formed state [s] returns [Ok], the byte-level operation
    on a map holding [render s] returns [Ok] (with the same result) and then holds [render s'].

    The simulation is per FILE: each of the three files keeps its own invariant ([kfile_ok],
    [vfile_ok], [hfile_ok]: the allocator invariant, "every record fits its slot", 64-bit bounds,
    the fields of every key record are aligned offsets) across every step, also across the
    intermediate states of an overwrite or delete whose chains are broken until the re-link is
    done.  [sim sg h kf vf x]: the state [x] holds the images of [h], [kf], [vf].  One lemma per
    kind of step; [relink] / [find_prev] by induction on the record-level fuel. *)
From Coq Require Import Lia ZifyN ZifyNat ZifyBool.
From Aby Require Import Base Vu64 Vu64_proofs Hash KeyTypes Consts Sizing Sizing_proofs Alloc AllocInv AllocInv_proofs
  Htx Htx_proofs Store Stats Spec Refine Refine_relink Refine_ops Refine_all Layout Load Load_proofs Load_htx_proofs
  Load_all Bounded Cache Cache_proofs Io Io_base Io_htx Io_pieces Io_reads.
Import Io.
#[local] Open Scope N_scope.

(** ** 1. the invariants of the three files *)

(** the fields of a key record as the byte-level readers and writers need them *)
Definition krec_ok (r : krec) : Prop :=
  blen (k_key r) < 2 ^ 31 /\ k_voff r mod 8 = 0 /\ k_voff r < 2 ^ 64 /\ k_next r mod 8 = 0 /\ k_next r < 2 ^ 64.

Record kfile_ok (kf : pfile krec) : Prop := {
  ko_inv : AInv key_cfg kf;
  ko_fit : slot_fits kfit kf;
  ko_fend : Alloc.fend kf < 2 ^ 64;
  ko_rec : forall o r, used kf !! o = Some r -> krec_ok r }.

Record vfile_ok (vf : pfile bytes) : Prop := {
  vo_inv : AInv val_cfg vf;
  vo_fit : slot_fits vfit vf;
  vo_fend : Alloc.fend vf < 2 ^ 64;
  vo_rec : forall o v, used vf !! o = Some v -> blen v < 2 ^ 31 }.

Record hfile_ok (h : htx) : Prop := {
  ho_wf : htx_wf h;
  ho_heads : forall i, head_at h i < 2 ^ 64;
  ho_heads8 : forall i, head_at h i mod 8 = 0;
  ho_nb : nb h < 2 ^ 64;
  ho_cnt : count h < 2 ^ 64 }.

Lemma kf_lens kf : AInv key_cfg kf -> slot_fits kfit kf -> lens kslot_bytes kf.
Proof.
  intros [frees Hi] Hf o sl Hs. destruct (inv_slot key_cfg kc_ok _ _ _ _ Hi Hs) as (_ & _ & Hv & _).
  destruct (AllocInv_proofs.valid_slot_size_facts key_cfg kc_ok _ Hv) as [H16 _].
  destruct sl as [sz r|sz nxt]; cbn [kslot_bytes slot_size] in *.
  - apply slot_bytes_length_gen. rewrite blen_key_body.
    pose proof (Hf _ _ _ Hs) as F. unfold kfit, key_real_len in F. lia.
  - apply free_slot_len. exact H16.
Qed.

Lemma vf_lens vf : AInv val_cfg vf -> slot_fits vfit vf -> lens vslot_bytes vf.
Proof.
  intros [frees Hi] Hf o sl Hs. destruct (inv_slot val_cfg vc_ok _ _ _ _ Hi Hs) as (_ & _ & Hv & _).
  destruct (AllocInv_proofs.valid_slot_size_facts val_cfg vc_ok _ Hv) as [H16 _].
  destruct sl as [sz r|sz nxt]; cbn [vslot_bytes slot_size] in *.
  - apply slot_bytes_length_gen. rewrite blen_val_body.
    pose proof (Hf _ _ _ Hs) as F. unfold vfit, val_real_len in F. lia.
  - apply free_slot_len. exact H16.
Qed.

Section sims.
Context (sg : bytes) (Hsg : length sg = 8%nat).

Lemma kfile_good kf : kfile_ok kf -> good key_cfg kslot_bytes kf.
Proof.
  intros [[frees Hi] Hf He _]. apply (good_of_inv key_cfg kc_ok kslot_bytes sg Hsg kf frees Hi); [|exact He].
  apply kf_lens; [eexists; exact Hi|exact Hf].
Qed.

Lemma vfile_good vf : vfile_ok vf -> good val_cfg vslot_bytes vf.
Proof.
  intros [[frees Hi] Hf He _]. apply (good_of_inv val_cfg vc_ok vslot_bytes sg Hsg vf frees Hi); [|exact He].
  apply vf_lens; [eexists; exact Hi|exact Hf].
Qed.

(** ** 2. the three-file relation *)
Definition sim (h : htx) (kf : pfile krec) (vf : pfile bytes) (x : st) : Prop :=
  Io_htx.holds sg h x /\
  hold key_cfg kslot_bytes sg FKey x kf /\ hold val_cfg vslot_bytes sg FVal x vf /\
  0 < fcs (get_file x FKey) /\ 0 < fcs (get_file x FVal).

Lemma sim_ro h kf vf x x' : sim h kf vf x -> ro_step x x' -> sim h kf vf x'.
Proof.
  intros (A & B & C & D & E) R. pose proof R as [Hb _].
  destruct (Hb FHtx) as [b1 c1], (Hb FKey) as [b2 c2], (Hb FVal) as [b3 c3].
  unfold sim, Io_htx.holds, hold in *. cbn [get_file] in *.
  rewrite b1, b2, b3, c2, c3. auto.
Qed.

Lemma sim_kstep h kf vf x x' kf' : sim h kf vf x -> frame FKey x x' ->
  hold key_cfg kslot_bytes sg FKey x' kf' -> sim h kf' vf x'.
Proof.
  intros (A & B & C & D & E) [Fc Fo] H'.
  pose proof (Fo FHtx ltac:(discriminate)) as E1. pose proof (Fo FVal ltac:(discriminate)) as E2.
  unfold sim, Io_htx.holds, hold in *. cbn [get_file] in *. rewrite E1, E2, Fc. auto.
Qed.

Lemma sim_vstep h kf vf x x' vf' : sim h kf vf x -> frame FVal x x' ->
  hold val_cfg vslot_bytes sg FVal x' vf' -> sim h kf vf' x'.
Proof.
  intros (A & B & C & D & E) [Fc Fo] H'.
  pose proof (Fo FHtx ltac:(discriminate)) as E1. pose proof (Fo FKey ltac:(discriminate)) as E2.
  unfold sim, Io_htx.holds, hold in *. cbn [get_file] in *. rewrite E1, E2, Fc. auto.
Qed.

Lemma sim_hstep h kf vf x x' h' : sim h kf vf x -> htx_step x x' (render_htx sg h') -> sim h' kf vf x'.
Proof.
  intros (A & B & C & D & E) (Hb & _ & Fo & _).
  pose proof (Fo FKey ltac:(discriminate)) as E1. pose proof (Fo FVal ltac:(discriminate)) as E2.
  unfold sim, Io_htx.holds, hold in *. cbn [get_file] in *. rewrite E1, E2. auto.
Qed.

(** ** 3. reading steps on the image of a key / value file *)
Lemma kslot_image kf x o sz r : kfile_ok kf -> hold key_cfg kslot_bytes sg FKey x kf ->
  slots kf !! o = Some (Used sz r) ->
  (exists rest, at_off (fb (get_file x FKey)) o = slot_bytes sz (key_body (k_key r) (k_voff r) (k_next r)) ++ rest) /\
  o <> 0 /\ o mod 8 = 0 /\ o < 2 ^ 64 /\ sz mod 8 = 0 /\ sz < 2 ^ 64 /\ valid_size key_cfg sz = true /\ krec_ok r.
Proof.
  intros Hk Hh Hs. pose proof (kfile_good kf Hk) as Hg.
  destruct (good_image key_cfg kc_ok kslot_bytes sg Hsg kf _ Hg Hh) as (_ & _ & _ & Hat).
  destruct (good_slot key_cfg kc_ok kslot_bytes sg Hsg kf o _ Hg Hs) as (_ & Ho8 & Hv & _ & _ & H8 & Hlt & Holt & Hnz).
  cbn [slot_size] in *. split; [exact (Hat o _ Hs)|].
  repeat (split; [assumption|]). split.
  - apply AllocInv_proofs.valid_slot_size_valid_size; [exact kc_ok|exact Hv].
  - apply (ko_rec kf Hk o). apply used_lookup. eauto.
Qed.

Lemma key_read_piece_sim kf x o sz r : kfile_ok kf -> hold key_cfg kslot_bytes sg FKey x kf ->
  slots kf !! o = Some (Used sz r) ->
  exists x', key_read_piece o x = Ok (sz, k_key r, k_voff r, k_next r, x') /\ ro_step x x'.
Proof.
  intros Hk Hh Hs.
  destruct (kslot_image kf x o sz r Hk Hh Hs) as ([rest Hat] & Hnz & _ & _ & H8 & Hlt & Hvs & Hk1 & Hv8 & Hv & Hn8 & Hn).
  pose proof pow31_lt_pow64. eapply key_read_piece_image; try eassumption. lia.
Qed.

Lemma key_next_sim kf x o sz r : kfile_ok kf -> hold key_cfg kslot_bytes sg FKey x kf ->
  slots kf !! o = Some (Used sz r) ->
  exists x', read_piece_only_bucket_next_offset o x = Ok (k_next r, x') /\ ro_step x x'.
Proof.
  intros Hk Hh Hs.
  destruct (kslot_image kf x o sz r Hk Hh Hs) as ([rest Hat] & Hnz & _ & _ & H8 & Hlt & Hvs & Hk1 & Hv8 & Hv & Hn8 & Hn).
  pose proof pow31_lt_pow64. eapply read_piece_only_bucket_next_offset_image; try eassumption. lia.
Qed.

Lemma vslot_image vf x o sz v : vfile_ok vf -> hold val_cfg vslot_bytes sg FVal x vf ->
  slots vf !! o = Some (Used sz v) ->
  (exists rest, at_off (fb (get_file x FVal)) o = slot_bytes sz (val_body v) ++ rest) /\
  o <> 0 /\ o mod 8 = 0 /\ o < 2 ^ 64 /\ sz mod 8 = 0 /\ sz < 2 ^ 64 /\ valid_size val_cfg sz = true /\ blen v < 2 ^ 31.
Proof.
  intros Hk Hh Hs. pose proof (vfile_good vf Hk) as Hg.
  destruct (good_image val_cfg vc_ok vslot_bytes sg Hsg vf _ Hg Hh) as (_ & _ & _ & Hat).
  destruct (good_slot val_cfg vc_ok vslot_bytes sg Hsg vf o _ Hg Hs) as (_ & Ho8 & Hv & _ & _ & H8 & Hlt & Holt & Hnz).
  cbn [slot_size] in *. split; [exact (Hat o _ Hs)|].
  repeat (split; [assumption|]). split.
  - apply AllocInv_proofs.valid_slot_size_valid_size; [exact vc_ok|exact Hv].
  - apply (vo_rec vf Hk o). apply used_lookup. eauto.
Qed.

Lemma val_read_piece_sim vf x o sz v : vfile_ok vf -> hold val_cfg vslot_bytes sg FVal x vf ->
  slots vf !! o = Some (Used sz v) ->
  exists x', val_read_piece o x = Ok (sz, v, x') /\ ro_step x x'.
Proof.
  intros Hk Hh Hs.
  destruct (vslot_image vf x o sz v Hk Hh Hs) as ([rest Hat] & Hnz & _ & _ & H8 & Hlt & Hvs & Hvl).
  pose proof pow31_lt_pow64. eapply val_read_piece_image; try eassumption. lia.
Qed.

Lemma val_payload_sim vf x o sz v : vfile_ok vf -> hold val_cfg vslot_bytes sg FVal x vf ->
  slots vf !! o = Some (Used sz v) ->
  exists x', read_piece_only_payload FVal o x = Ok (v, x') /\ ro_step x x'.
Proof.
  intros Hk Hh Hs.
  destruct (vslot_image vf x o sz v Hk Hh Hs) as ([rest Hat] & Hnz & _ & _ & H8 & Hlt & Hvs & Hvl).
  pose proof pow31_lt_pow64. eapply read_piece_only_payload_val_image; try eassumption. lia.
Qed.


(** ** 4. writing steps *)

(** what the record level knows after [write_piece] (AllocInv_proofs, Load_proofs, Bounded) *)
Lemma wp_facts {P} c (Hc : Sizing.cfg_ok c) (fit : N -> P -> Prop) (f : pfile P) need old p f' off sz :
  AInv c f -> 0 < need -> slot_fits fit f ->
  (forall o, old = Some o -> exists p0, used f !! o = Some p0) ->
  Alloc.write_piece c need f old p = Ok (f', off, sz) ->
  (forall sz', valid_slot_size c sz' -> roundup c need <= sz' -> fit sz' p) ->
  AInv c f' /\ slot_fits fit f' /\
  (Alloc.fend f' = Alloc.fend f \/ Alloc.fend f' = Alloc.fend f + roundup c need) /\
  slots f' !! off = Some (Used sz p) /\
  (forall o q, used f' !! o = Some q -> (o = off /\ q = p) \/ used f !! o = Some q).
Proof.
  intros HA Hn Hf Hold Hw Hp. destruct old as [o|].
  - destruct (Hold o eq_refl) as [p0 Hp0].
    destruct (wp_old_fits c Hc fit f need o p0 p f' off sz HA Hn Hf Hp0 Hw Hp) as [HA' Hf'].
    destruct (write_old_counts c Hc f need o p0 p f' off sz HA Hn Hp0 Hw) as (Hfe & _).
    destruct (write_old_ok c Hc f need o p0 p HA Hn Hp0)
      as (f1 & off1 & sz1 & Hw1 & _ & Hu & _ & _ & _ & _ & Hs & _).
    rewrite Hw in Hw1. injection Hw1 as <- <- <-.
    split; [exact HA'|]. split; [exact Hf'|]. split; [exact Hfe|]. split; [exact Hs|].
    intros o' q Hq. rewrite Hu in Hq. apply lookup_insert_Some in Hq as [[<- <-]|[_ Hq]]; [left; auto|].
    apply lookup_delete_Some in Hq as [_ Hq]. right. exact Hq.
  - destruct (wp_new_fits c Hc fit f need p f' off sz HA Hn Hf Hw Hp) as [HA' Hf'].
    destruct (write_new_counts c Hc f need p f' off sz HA Hn Hw) as (Hfe & _).
    destruct (write_new_ok c Hc f need p HA Hn)
      as (f1 & off1 & sz1 & Hw1 & _ & Hu & _ & _ & _ & _ & Hs & _).
    rewrite Hw in Hw1. injection Hw1 as <- <- <-.
    split; [exact HA'|]. split; [exact Hf'|]. split; [exact Hfe|]. split; [exact Hs|].
    intros o' q Hq. rewrite Hu in Hq. apply lookup_insert_Some in Hq as [[<- <-]|[_ Hq]]; [left; auto|].
    right. exact Hq.
Qed.

Lemma pow_31_32 : 2 ^ 31 + 164 <= 2 ^ 32.
Proof. apply N.leb_le. reflexivity. Qed.

Lemma key_write_step h kf vf x k vo no old kf' off sz :
  sim h kf vf x -> kfile_ok kf ->
  blen k < 2 ^ 31 -> vo mod 8 = 0 -> vo < 2 ^ 64 -> no mod 8 = 0 -> no < 2 ^ 64 ->
  Alloc.fend kf + 2 ^ 32 < 2 ^ 64 ->
  (forall o, old = Some o -> exists r0, used kf !! o = Some r0) ->
  Alloc.write_piece key_cfg (krec_need (KRec k vo no)) kf old (KRec k vo no) = Ok (kf', off, sz) ->
  exists x', key_write_piece k vo no old x = Ok (off, sz, x') /\ sim h kf' vf x' /\ kfile_ok kf' /\
    Alloc.fend kf <= Alloc.fend kf' <= Alloc.fend kf + 2 ^ 32 /\
    off mod 8 = 0 /\ off < 2 ^ 64 /\ off <> 0 /\ slots kf' !! off = Some (Used sz (KRec k vo no)).
Proof.
  intros Hsim Hk Hkl Hvo8 Hvo Hno8 Hno Hroom Hold Hw.
  pose proof Hk as [HA Hf He Hr]. pose proof HA as [frees Hi].
  pose proof (key_nsz_le (2 ^ 31) (KRec k vo no) Hkl) as Hnsz. pose proof pow_31_32 as H32.
  destruct (wp_facts key_cfg kc_ok kfit kf _ old _ kf' off sz HA (krec_need_pos _) Hf Hold Hw
              (kfit_new (KRec k vo no))) as (HA' & Hf' & Hfe & Hs' & Hu').
  pose proof Hsim as (_ & Hh & _ & Hcs & _).
  destruct (key_write_piece_image sg Hsg kf frees x k vo no old kf' off sz Hvo8 Hno8 Hi
              (kf_lens kf HA Hf) Hh Hcs) as (x' & Hr' & Hh' & Hfr & Hg'); [| |exact Hw|].
  { unfold krec_need in Hnsz. cbn [k_key k_voff k_next] in Hnsz. lia. }
  { intros o Ho. destruct (Hold o Ho) as [r0 H0]. apply used_lookup in H0 as [osz H0]. eauto. }
  exists x'. split; [exact Hr'|]. split; [eapply sim_kstep; eassumption|].
  destruct (good_slot key_cfg kc_ok kslot_bytes sg Hsg kf' off _ Hg' Hs') as (_ & Ho8 & _ & _ & _ & _ & _ & Holt & Hnz).
  assert (Hfe' : Alloc.fend kf <= Alloc.fend kf' <= Alloc.fend kf + 2 ^ 32) by lia.
  split; [|auto].
  constructor; [exact HA'|exact Hf'|lia|].
  intros o q Hq. destruct (Hu' o q Hq) as [[-> ->]|Hq0]; [|exact (Hr o q Hq0)].
  unfold krec_ok. cbn [k_key k_voff k_next]. auto.
Qed.

Lemma val_write_step h kf vf x v old vf' off sz :
  sim h kf vf x -> vfile_ok vf -> blen v < 2 ^ 31 ->
  Alloc.fend vf + 2 ^ 32 < 2 ^ 64 ->
  (forall o, old = Some o -> exists v0, used vf !! o = Some v0) ->
  Alloc.write_piece val_cfg (val_need (blen v)) vf old v = Ok (vf', off, sz) ->
  exists x', val_write_piece v old x = Ok (off, sz, x') /\ sim h kf vf' x' /\ vfile_ok vf' /\
    off mod 8 = 0 /\ off < 2 ^ 64 /\ off <> 0 /\ slots vf' !! off = Some (Used sz v).
Proof.
  intros Hsim Hk Hvl Hroom Hold Hw.
  pose proof Hk as [HA Hf He Hr]. pose proof HA as [frees Hi].
  pose proof (val_nsz_le (2 ^ 31) v Hvl) as Hnsz. pose proof pow_31_32 as H32.
  destruct (wp_facts val_cfg vc_ok vfit vf _ old _ vf' off sz HA (val_need_pos _) Hf Hold Hw
              (vfit_new v)) as (HA' & Hf' & Hfe & Hs' & Hu').
  pose proof Hsim as (_ & _ & Hh & _ & Hcs).
  destruct (val_write_piece_image sg Hsg vf frees x v old vf' off sz Hi
              (vf_lens vf HA Hf) Hh Hcs) as (x' & Hr' & Hh' & Hfr & Hg'); [| |exact Hw|].
  { lia. }
  { intros o Ho. destruct (Hold o Ho) as [r0 H0]. apply used_lookup in H0 as [osz H0]. eauto. }
  exists x'. split; [exact Hr'|]. split; [eapply sim_vstep; eassumption|].
  destruct (good_slot val_cfg vc_ok vslot_bytes sg Hsg vf' off _ Hg' Hs') as (_ & Ho8 & _ & _ & _ & _ & _ & Holt & Hnz).
  split; [|auto].
  constructor; [exact HA'|exact Hf'|lia|].
  intros o q Hq. destruct (Hu' o q Hq) as [[-> ->]|Hq0]; [exact Hvl|exact (Hr o q Hq0)].
Qed.

Lemma key_delete_step h kf vf x o kf' :
  sim h kf vf x -> kfile_ok kf -> Alloc.delete_piece key_cfg kf o = Ok kf' ->
  exists x', delete_piece key_cfg FKey o x = Ok x' /\ sim h kf' vf x'.
Proof.
  intros Hsim Hk Hd. pose proof Hsim as (_ & Hh & _ & Hcs & _).
  destruct (key_delete_piece_image sg Hsg kf x o kf' (kfile_good kf Hk) Hh Hcs Hd) as (x' & Hr' & Hh' & Hfr & _).
  exists x'. split; [exact Hr'|]. eapply sim_kstep; eassumption.
Qed.

Lemma val_delete_step h kf vf x o vf' :
  sim h kf vf x -> vfile_ok vf -> Alloc.delete_piece val_cfg vf o = Ok vf' ->
  exists x', delete_piece val_cfg FVal o x = Ok x' /\ sim h kf vf' x'.
Proof.
  intros Hsim Hk Hd. pose proof Hsim as (_ & _ & Hh & _ & Hcs).
  destruct (val_delete_piece_image sg Hsg vf x o vf' (vfile_good vf Hk) Hh Hcs Hd) as (x' & Hr' & Hh' & Hfr & _).
  exists x'. split; [exact Hr'|]. eapply sim_vstep; eassumption.
Qed.

(** the table file *)
Lemma head_read_step h kf vf x i : sim h kf vf x -> hfile_ok h -> i < nb h ->
  exists x', read_key_piece_offset i x = Ok (head_at h i, x') /\ ro_step x x'.
Proof.
  intros (Hh & _) [Hw Hhd _ Hn Hc] Hi.
  exact (read_key_piece_offset_render sg h Hsg Hw Hhd Hn Hc x i Hh Hi).
Qed.

Lemma hfile_write_head h i off : hfile_ok h -> i < nb h -> off < 2 ^ 64 -> off mod 8 = 0 ->
  hfile_ok (write_head h i off).
Proof.
  intros [Hw Hhd Hhd8 Hn Hc] Hi Ho Ho8. constructor.
  - apply htx_wf_write_head; assumption.
  - intros j. rewrite write_head_head_at. destruct (j =? i); [exact Ho|apply Hhd].
  - intros j. rewrite write_head_head_at. destruct (j =? i); [exact Ho8|apply Hhd8].
  - exact Hn.
  - exact Hc.
Qed.

Lemma head_write_step h kf vf x i off : sim h kf vf x -> hfile_ok h -> i < nb h -> off < 2 ^ 64 ->
  exists x', write_key_piece_offset (nb h) i off x = Ok x' /\ sim (write_head h i off) kf vf x'.
Proof.
  intros Hsim [Hw Hhd _ Hn Hc] Hi Ho. pose proof Hsim as (Hh & _).
  destruct (write_key_piece_offset_render sg h Hsg Hw Hhd Hn Hc x i off Hh Hi Ho) as (x' & Hr & Hst).
  exists x'. split; [exact Hr|]. eapply sim_hstep; eassumption.
Qed.

Lemma count_up_step h kf vf x : sim h kf vf x -> hfile_ok h -> count h + 1 < 2 ^ 64 ->
  exists x', write_item_count_up x = Ok x' /\ sim (count_up h) kf vf x'.
Proof.
  intros Hsim [Hw Hhd _ Hn Hc] Hc1. pose proof Hsim as (Hh & _).
  destruct (write_item_count_up_render sg h x Hsg Hw Hhd Hn Hc1 Hh) as (x' & Hr & Hst).
  exists x'. split; [exact Hr|]. eapply sim_hstep; eassumption.
Qed.

Lemma count_down_step h kf vf x : sim h kf vf x -> hfile_ok h ->
  exists x', write_item_count_down x = Ok x' /\ sim (count_down h) kf vf x'.
Proof.
  intros Hsim [Hw Hhd _ Hn Hc]. pose proof Hsim as (Hh & _).
  destruct (write_item_count_down_render sg h x Hsg Hw Hhd Hn Hc Hh) as (x' & Hr & Hst).
  exists x'. split; [exact Hr|]. eapply sim_hstep; eassumption.
Qed.

(** ** 5. the re-link cascade *)
Lemma chain_fuel_le kf x : kfile_ok kf -> hold key_cfg kslot_bytes sg FKey x kf ->
  (S (size (slots kf)) <= chain_fuel x)%nat.
Proof.
  intros Hk Hh. pose proof (kfile_good kf Hk) as Hg.
  unfold chain_fuel, walk_fuel.
  rewrite (hold_fend key_cfg kc_ok kslot_bytes sg Hsg FKey kf x Hg Hh).
  pose proof (slots_count key_cfg kc_ok kslot_bytes sg Hsg kfree_image kused_image kf Hg). lia.
Qed.

Lemma find_prev_sim : forall fuelS fuelI s target prev curr x pp,
  (fuelS <= fuelI)%nat -> sim (hx s) (keyf s) (valf s) x -> kfile_ok (keyf s) ->
  Store.find_prev fuelS s target prev curr = Ok pp ->
  exists x', find_prev_loop fuelI target prev curr x = Ok (pp, x') /\ ro_step x x'.
Proof.
  induction fuelS as [|fuelS IH]; intros fuelI s target prev curr x pp Hfu Hsim Hk Hp; [discriminate Hp|].
  destruct fuelI as [|fuelI]; [lia|]. cbn [Store.find_prev find_prev_loop] in *.
  destruct ((curr =? 0) || (curr =? target)).
  - injection Hp as <-. exists x. split; [reflexivity|apply ro_step_refl].
  - destruct (read_krec s curr) as [r| | |] eqn:Hrd; cbn [rbind] in Hp; try discriminate Hp.
    apply read_krec_inv in Hrd. apply used_lookup in Hrd as [sz Hs].
    pose proof Hsim as (_ & Hh & _).
    destruct (key_next_sim (keyf s) x curr sz r Hk Hh Hs) as (x1 & -> & R1). cbn [rbind].
    destruct (IH fuelI s target curr (k_next r) x1 pp ltac:(lia) (sim_ro _ _ _ _ _ Hsim R1) Hk Hp) as (x2 & E2 & R2).
    exists x2. split; [exact E2|]. eapply ro_step_trans; eassumption.
Qed.

Lemma relink_sim (m : mp) : forall fuelS fuelI s b prev newoff x s',
  (fuelS <= fuelI)%nat -> m_n m = nb (hx s) ->
  sim (hx s) (keyf s) (valf s) x -> kfile_ok (keyf s) -> hfile_ok (hx s) ->
  b < nb (hx s) -> newoff mod 8 = 0 -> newoff < 2 ^ 64 ->
  Alloc.fend (keyf s) + N.of_nat fuelS * 2 ^ 32 < 2 ^ 64 ->
  Store.relink fuelS s b prev newoff = Ok s' ->
  exists x', relink fuelI m b prev newoff x = Ok x' /\ sim (hx s') (keyf s') (valf s') x' /\
    kfile_ok (keyf s') /\ hfile_ok (hx s') /\ valf s' = valf s /\ kt s' = kt s /\
    nb (hx s') = nb (hx s) /\ count (hx s') = count (hx s).
Proof.
  induction fuelS as [|fuelS IH]; intros fuelI s b prev newoff x s' Hfu Hmn Hsim Hk Hh Hb Hn8 Hn Hroom Hp;
    [discriminate Hp|].
  destruct fuelI as [|fuelI]; [lia|]. cbn [Store.relink relink] in *.
  destruct (prev =? 0).
  - injection Hp as <-. rewrite Hmn.
    destruct (head_write_step (hx s) (keyf s) (valf s) x b newoff Hsim Hh Hb Hn) as (x' & -> & Hsim').
    exists x'. split; [reflexivity|]. cbn [set_hx hx keyf valf kt]. split; [exact Hsim'|]. split; [exact Hk|].
    split; [apply hfile_write_head; assumption|]. auto.
  - destruct (read_krec s prev) as [r| | |] eqn:Hrd; cbn [rbind] in Hp; try discriminate Hp.
    apply read_krec_inv in Hrd. pose proof Hrd as Hu. apply used_lookup in Hrd as [sz Hs].
    pose proof Hsim as (_ & Hhk & _).
    destruct (key_read_piece_sim (keyf s) x prev sz r Hk Hhk Hs) as (x1 & -> & R1). cbn [rbind].
    destruct (ko_rec _ Hk prev r Hu) as (Hkl & Hv8 & Hv & _).
    set (r' := KRec (k_key r) (k_voff r) newoff) in *.
    destruct (Alloc.write_piece key_cfg (krec_need r') (keyf s) (Some prev) r') as [[[kf poff] ksz]| | |] eqn:Hw;
      cbn [rbind] in Hp; try discriminate Hp.
    destruct (key_write_step (hx s) (keyf s) (valf s) x1 (k_key r) (k_voff r) newoff (Some prev) kf poff ksz
                (sim_ro _ _ _ _ _ Hsim R1) Hk Hkl Hv8 Hv Hn8 Hn) as (x2 & -> & Hsim2 & Hk2 & Hfe2 & Hp8 & Hplt & Hpnz & Hs2).
    { lia. }
    { intros o [= <-]. eauto. }
    { exact Hw. }
    cbn [rbind].
    destruct (poff =? prev).
    + injection Hp as <-. exists x2. split; [reflexivity|]. cbn [set_keyf hx keyf valf kt]. auto 10.
    + cbn [set_keyf hx keyf valf kt] in Hp.
      destruct (Store.find_prev (Store.chain_fuel (set_keyf s kf)) (set_keyf s kf) prev 0 (head_at (hx s) b))
        as [pp| | |] eqn:Hfp; cbn [rbind] in Hp; try discriminate Hp.
      unfold find_prev.
      destruct (head_read_step (hx s) kf (valf s) x2 b Hsim2 Hh Hb) as (x3 & -> & R3). cbn [rbind].
      pose proof (sim_ro _ _ _ _ _ Hsim2 R3) as Hsim3.
      destruct (find_prev_sim (Store.chain_fuel (set_keyf s kf)) (chain_fuel x3) (set_keyf s kf) prev 0
                  (head_at (hx s) b) x3 pp) as (x4 & -> & R4); try assumption.
      { unfold Store.chain_fuel. cbn [set_keyf keyf]. apply chain_fuel_le; [exact Hk2|apply Hsim3]. }
      cbn [rbind].
      destruct (IH fuelI (set_keyf s kf) b pp poff x4 s' ltac:(lia) Hmn (sim_ro _ _ _ _ _ Hsim3 R4) Hk2 Hh Hb Hp8 Hplt)
        as (x5 & E5 & H5); [cbn [set_keyf keyf]; lia|exact Hp|].
      exists x5. split; [exact E5|exact H5].
Qed.

(** the unlink step of [del] *)
Lemma unlink_sim (m : mp) s b r prev x s1 :
  m_n m = nb (hx s) ->
  sim (hx s) (keyf s) (valf s) x -> kfile_ok (keyf s) -> hfile_ok (hx s) ->
  b < nb (hx s) -> k_next r mod 8 = 0 -> k_next r < 2 ^ 64 ->
  (let F := Alloc.fend (keyf s) + 2 ^ 32 in F + (F / 8 + 2) * 2 ^ 32 < 2 ^ 64) ->
  unlink0 s b r prev = Ok s1 ->
  exists x',
    (if prev =? 0 then write_key_piece_offset (m_n m) b (k_next r) x
     else
       let* (_, pk, pvo, _, a1) := key_read_piece prev x in
       let* (poff, _, a2) := key_write_piece pk pvo (k_next r) (Some prev) a1 in
       if poff =? prev then Ok a2
       else
         let* (pp, a3) := find_prev m b prev a2 in
         relink (chain_fuel a3) m b pp poff a3) = Ok x' /\
    sim (hx s1) (keyf s1) (valf s1) x' /\
    kfile_ok (keyf s1) /\ hfile_ok (hx s1) /\ valf s1 = valf s /\ kt s1 = kt s /\
    nb (hx s1) = nb (hx s) /\ count (hx s1) = count (hx s).
Proof.
  intros Hmn Hsim Hk Hh Hb Hn8 Hn Hroom Hp. cbv zeta in Hroom. unfold unlink0 in Hp.
  set (F := Alloc.fend (keyf s) + 2 ^ 32) in *.
  destruct (prev =? 0).
  - injection Hp as <-. rewrite Hmn.
    destruct (head_write_step (hx s) (keyf s) (valf s) x b (k_next r) Hsim Hh Hb Hn) as (x' & -> & Hsim').
    exists x'. split; [reflexivity|]. cbn [set_hx hx keyf valf kt]. split; [exact Hsim'|]. split; [exact Hk|].
    split; [apply hfile_write_head; assumption|]. auto.
  - destruct (read_krec s prev) as [pr| | |] eqn:Hrd; cbn [rbind] in Hp; try discriminate Hp.
    apply read_krec_inv in Hrd. pose proof Hrd as Hu. apply used_lookup in Hrd as [sz Hs].
    pose proof Hsim as (_ & Hhk & _).
    destruct (key_read_piece_sim (keyf s) x prev sz pr Hk Hhk Hs) as (x1 & -> & R1). cbn [rbind].
    destruct (ko_rec _ Hk prev pr Hu) as (Hkl & Hv8 & Hv & _).
    set (r' := KRec (k_key pr) (k_voff pr) (k_next r)) in *.
    destruct (Alloc.write_piece key_cfg (krec_need r') (keyf s) (Some prev) r') as [[[kf poff] ksz]| | |] eqn:Hw;
      cbn [rbind] in Hp; try discriminate Hp.
    assert (HF : F + 2 ^ 32 <= 2 ^ 64) by (unfold F in *; lia).
    destruct (key_write_step (hx s) (keyf s) (valf s) x1 (k_key pr) (k_voff pr) (k_next r) (Some prev) kf poff ksz
                (sim_ro _ _ _ _ _ Hsim R1) Hk Hkl Hv8 Hv Hn8 Hn) as (x2 & -> & Hsim2 & Hk2 & Hfe2 & Hp8 & Hplt & Hpnz & Hs2).
    { unfold F in *. lia. }
    { intros o [= <-]. eauto. }
    { exact Hw. }
    cbn [rbind].
    destruct (poff =? prev).
    + injection Hp as <-. exists x2. split; [reflexivity|]. cbn [set_keyf hx keyf valf kt]. auto 10.
    + cbn [set_keyf hx keyf valf kt] in Hp.
      destruct (Store.find_prev (Store.chain_fuel (set_keyf s kf)) (set_keyf s kf) prev 0 (head_at (hx s) b))
        as [pp| | |] eqn:Hfp; cbn [rbind] in Hp; try discriminate Hp.
      unfold find_prev.
      destruct (head_read_step (hx s) kf (valf s) x2 b Hsim2 Hh Hb) as (x3 & -> & R3). cbn [rbind].
      pose proof (sim_ro _ _ _ _ _ Hsim2 R3) as Hsim3.
      pose proof (chain_fuel_le kf x3 Hk2 (proj1 (proj2 Hsim3))) as Hfu.
      destruct (find_prev_sim (Store.chain_fuel (set_keyf s kf)) (chain_fuel x3) (set_keyf s kf) prev 0
                  (head_at (hx s) b) x3 pp) as (x4 & -> & R4); try assumption.
      cbn [rbind].
      pose proof (sim_ro _ _ _ _ _ Hsim3 R4) as Hsim4.
      pose proof (chain_fuel_le kf x4 Hk2 (proj1 (proj2 Hsim4))) as Hfu4.
      destruct (relink_sim m (Store.chain_fuel (set_keyf s kf)) (chain_fuel x4) (set_keyf s kf) b pp poff x4 s1)
        as (x5 & E5 & H5); try assumption.
      { cbn [set_keyf keyf]. unfold Store.chain_fuel. cbn [set_keyf keyf].
        pose proof (slots_count key_cfg kc_ok kslot_bytes sg Hsg kfree_image kused_image kf (kfile_good kf Hk2)) as Hcnt.
        assert (Hd : Alloc.fend kf / 8 <= F / 8) by (apply N.div_le_mono; unfold F; lia).
        assert (Hm : N.of_nat (S (size (slots kf))) * 2 ^ 32 <= (F / 8 + 1) * 2 ^ 32)
          by (apply N.mul_le_mono_r; lia).
        unfold F in *. lia. }
      exists x5. split; [exact E5|exact H5].
Qed.

End sims.

(** ** 6. the operations *)

(** the headroom: every intermediate file length and every new offset stays below 2^64.  A key
    or value record takes less than 2^32 bytes; a re-link cascade rewrites at most one record per
    slot of the key file (at most [fend / 8] slots). *)
Definition room (s : store) : Prop :=
  (let F := Alloc.fend (keyf s) + 2 ^ 32 in F + (F / 8 + 2) * 2 ^ 32 < 2 ^ 64) /\
  Alloc.fend (valf s) + 2 ^ 32 < 2 ^ 64 /\ count (hx s) + 1 < 2 ^ 64.

Lemma sim_render s' x :
  sim (sig_of (kt s')) (hx s') (keyf s') (valf s') x ->
  render s' = Ok (fb (s_htx x), fb (s_key x), fb (s_val x)).
Proof.
  intros (A & B & C & _). unfold Io_htx.holds, hold in *. cbn [get_file] in *.
  unfold render. cbv zeta. rewrite B. cbn [rbind]. rewrite C. cbn [rbind]. rewrite A. reflexivity.
Qed.

Section top.
Context (s : store) (m : mp) (himg kimg vimg : bytes).
Hypothesis Hwf : wf_state s.
Hypothesis H64 : fits64 s.
Hypothesis Hr : render s = Ok (himg, kimg, vimg).
Hypothesis Hkt : m_kt m = kt s.
Hypothesis Hmn : m_n m = nb (hx s).
Hypothesis Him : Io.images m = (himg, kimg, vimg).
Hypothesis Hcsk : 0 < fcs (get_file (m_st m) FKey).
Hypothesis Hcsv : 0 < fcs (get_file (m_st m) FVal).

Let sg := sig_of (kt s).
Let Hsg : length sg = 8%nat := sig_len (kt s).

Lemma top_setup : exists ch kfr vfr,
  sinv s ch /\ alloc_inv key_cfg (keyf s) kfr /\ alloc_inv val_cfg (valf s) vfr /\
  render_pfile key_cfg kslot_bytes sg (keyf s) = Ok kimg /\
  render_pfile val_cfg vslot_bytes sg (valf s) = Ok vimg /\
  himg = render_htx sg (hx s) /\
  kfile_ok (keyf s) /\ vfile_ok (valf s) /\ hfile_ok (hx s) /\
  sim sg (hx s) (keyf s) (valf s) (m_st m) /\ holds3 s kimg vimg (m_st m).
Proof.
  destruct Hwf as (HI & Hfit & Hhwf).
  destruct (refine_setup s himg kimg vimg HI Hr) as (ch & kfr & vfr & Hinv & Hki & Hvi & Hrk & Hrv & Hh).
  exists ch, kfr, vfr. pose proof Hinv as [Hcore Hlinks].
  pose proof H64 as (Hnb & Hcnt & _ & Hkfe & Hvfe).
  assert (Hslot : forall off r, kheap s !! off = Some r -> krec_ok r /\ off mod 8 = 0).
  { intros off r Hrr.
    destruct (key_slot_at s ch Hinv Hfit H64 kfr vfr Hki Hvi kimg vimg Hrk Hrv off r Hrr)
      as (sz & rest & Hs & _ & _ & _ & _ & _ & Hv8 & Hv & Hn8 & Hn & _).
    destruct (co_kwf _ _ _ Hcore _ _ Hrr) as (_ & Hk & _).
    destruct (inv_slot key_cfg kc_ok _ _ _ _ Hki Hs) as (_ & Ho8 & _).
    unfold krec_ok. auto 10. }
  split; [exact Hinv|]. split; [exact Hki|]. split; [exact Hvi|]. split; [exact Hrk|]. split; [exact Hrv|].
  split; [exact Hh|].
  assert (HK : kfile_ok (keyf s)).
  { constructor; [eexists; exact Hki|exact (proj1 Hfit)|exact Hkfe|]. intros o r Hu. apply (Hslot o r Hu). }
  assert (HV : vfile_ok (valf s)).
  { constructor; [eexists; exact Hvi|exact (proj2 Hfit)|exact Hvfe|].
    intros o v Hu. destruct (co_vwf _ _ _ Hcore o v Hu) as [_ Hl]. exact Hl. }
  assert (HH : hfile_ok (hx s)).
  { constructor; [exact Hhwf| | |exact Hnb|exact Hcnt].
    - exact (heads_lt s ch Hinv Hfit Hhwf H64 kfr Hki kimg Hrk).
    - intros i. unfold head_at. destruct (buckets (hx s) !! i) as [v|] eqn:E; [|reflexivity].
      destruct (proj1 Hhwf _ _ E) as [Hnz Hi]. pose proof (Hlinks _ Hi) as Hl.
      unfold links_ok, chain, head_at in Hl. rewrite E in Hl. change (default 0 (Some v)) with v in *.
      destruct (ch i) as [|o l]; [apply seg_nil_inv in Hl; congruence|].
      apply seg_cons_inv in Hl as (-> & _ & r & Hrr & _). apply (Hslot _ _ Hrr). }
  split; [exact HK|]. split; [exact HV|]. split; [exact HH|].
  unfold Io.images in Him. injection Him as A B C.
  split.
  - unfold sim, Io_htx.holds, hold. cbn [get_file]. rewrite A, B, C. subst himg. auto.
  - unfold holds3. cbn [get_file]. subst himg. auto.
Qed.

Lemma bucket_eq key : Io.bucket m key = Store.bucket s key.
Proof. unfold Io.bucket, Store.bucket, bucket_of. rewrite Hmn. reflexivity. Qed.

Lemma images_with x : Io.images (with_st m x) = (fb (s_htx x), fb (s_key x), fb (s_val x)).
Proof. reflexivity. Qed.

Lemma fin_sim s' x : sim (sig_of (kt s')) (hx s') (keyf s') (valf s') x ->
  render s' = Ok (Io.images (with_st m x)) /\ Io.images (with_st m x) = Io.images (with_st m x) /\
  m_kt (with_st m x) = m_kt m /\ m_n (with_st m x) = m_n m /\
  0 < fcs (get_file (m_st (with_st m x)) FKey) /\ 0 < fcs (get_file (m_st (with_st m x)) FVal).
Proof.
  intros H. split; [rewrite images_with; apply sim_render; exact H|].
  destruct H as (_ & _ & _ & A & B). cbn [with_st m_st m_kt m_n]. auto.
Qed.

(** *** [put] *)
Theorem put0_refines key v s' :
  room s -> blen key < 2 ^ 31 -> blen v < 2 ^ 31 ->
  put0 s key v = Ok s' ->
  exists m' imgs', Io.put m key v = Ok m' /\ render s' = Ok imgs' /\ Io.images m' = imgs' /\
    m_kt m' = m_kt m /\ m_n m' = m_n m /\
    0 < fcs (get_file (m_st m') FKey) /\ 0 < fcs (get_file (m_st m') FVal).
Proof.
  intros (Hroomk & Hroomv & Hroomc) Hkl Hvl Hput. cbv zeta in Hroomk.
  destruct top_setup as (ch & kfr & vfr & Hinv & Hki & Hvi & Hrk & Hrv & Hh & HK & HV & HH & Hsim & H3).
  destruct Hwf as (HI & Hfit & Hhwf). pose proof Hinv as [Hcore Hlinks].
  assert (Hb : Store.bucket s key < nb (hx s)) by (apply (home_lt s key (co_n _ _ _ Hcore))).
  set (F := Alloc.fend (keyf s) + 2 ^ 32) in *.
  assert (HF1 : Alloc.fend (keyf s) + 2 ^ 32 < 2 ^ 64) by (unfold F in *; lia).
  unfold put0 in Hput. unfold Io.put. cbv zeta. rewrite bucket_eq.
  destruct (Store.find s key) as [o| | |] eqn:Hf; cbn [rbind] in Hput; try discriminate Hput.
  destruct (find_refines_st s ch Hinv Hfit Hhwf H64 kfr vfr Hki Hvi kimg vimg Hrk Hrv m Hkt Hmn key o (m_st m) H3 Hf)
    as (x1 & -> & R1). cbn [rbind].
  pose proof (sim_ro sg _ _ _ _ _ Hsim R1) as Hsim1.
  destruct o as [[koff prev]|].
  - (* the key is present *)
    destruct (read_krec s koff) as [r| | |] eqn:Hrd; cbn [rbind] in Hput; try discriminate Hput.
    apply read_krec_inv in Hrd. pose proof Hrd as Hu. apply used_lookup in Hrd as [ksz Hs].
    destruct (read_val s (k_voff r)) as [v0| | |] eqn:Hrv0; cbn [rbind] in Hput; try discriminate Hput.
    apply read_val_inv in Hrv0. pose proof Hrv0 as Huv. apply used_lookup in Hrv0 as [vsz Hsv].
    destruct (ko_rec _ HK koff r Hu) as (Hrk1 & Hv8 & Hv & Hn8 & Hn).
    destruct (key_read_piece_sim sg Hsg (keyf s) x1 koff ksz r HK (proj1 (proj2 Hsim1)) Hs) as (x2 & -> & R2). cbn [rbind].
    pose proof (sim_ro sg _ _ _ _ _ Hsim1 R2) as Hsim2.
    destruct (val_read_piece_sim sg Hsg (valf s) x2 _ vsz v0 HV (proj1 (proj2 (proj2 Hsim2))) Hsv) as (x3 & -> & R3). cbn [rbind].
    pose proof (sim_ro sg _ _ _ _ _ Hsim2 R3) as Hsim3.
    destruct (Alloc.write_piece val_cfg (val_need (blen v)) (valf s) (Some (k_voff r)) v) as [[[vf voff] vsz']| | |] eqn:Hwv;
      cbn [rbind] in Hput; try discriminate Hput.
    destruct (val_write_step sg Hsg (hx s) (keyf s) (valf s) x3 v (Some (k_voff r)) vf voff vsz' Hsim3 HV Hvl Hroomv)
      as (x4 & -> & Hsim4 & HV4 & Hvo8 & Hvolt & Hvonz & Hsv4); [intros o [= <-]; eauto|exact Hwv|].
    cbn [rbind].
    destruct (voff =? k_voff r).
    + injection Hput as <-. do 2 eexists. split; [reflexivity|]. apply fin_sim. cbn [set_valf kt hx keyf valf]. exact Hsim4.
    + cbn [set_valf keyf] in Hput.
      set (r' := KRec (k_key r) voff (k_next r)) in *.
      destruct (Alloc.write_piece key_cfg (krec_need r') (keyf s) (Some koff) r') as [[[kf koff'] ksz']| | |] eqn:Hwk;
        cbn [rbind] in Hput; try discriminate Hput.
      destruct (key_write_step sg Hsg (hx s) (keyf s) vf x4 (k_key r) voff (k_next r) (Some koff) kf koff' ksz'
                  Hsim4 HK Hrk1 Hvo8 Hvolt Hn8 Hn HF1)
        as (x5 & -> & Hsim5 & HK5 & Hfe5 & Hko8 & Hkolt & Hkonz & Hs5); [intros o [= <-]; eauto|exact Hwk|].
      cbn [rbind].
      destruct (koff' =? koff).
      * injection Hput as <-. do 2 eexists. split; [reflexivity|]. apply fin_sim. cbn [set_keyf set_valf kt hx keyf valf]. exact Hsim5.
      * set (s2 := set_keyf (set_valf s vf) kf) in *.
        destruct (relink_sim sg Hsg m (Store.chain_fuel s2) (chain_fuel x5) s2 (Store.bucket s key) prev koff' x5 s')
          as (x6 & -> & Hsim6 & _ & _ & _ & Hkt6 & _); try assumption.
        { unfold Store.chain_fuel, s2. cbn [set_keyf keyf]. apply (chain_fuel_le sg Hsg); [exact HK5|apply Hsim5]. }
        { unfold Store.chain_fuel, s2. cbn [set_keyf set_valf keyf].
          pose proof (slots_count key_cfg kc_ok kslot_bytes sg Hsg kfree_image kused_image kf (kfile_good sg Hsg kf HK5)) as Hcnt.
          assert (Hd : Alloc.fend kf / 8 <= F / 8) by (apply N.div_le_mono; unfold F; lia).
          assert (Hm : N.of_nat (S (size (slots kf))) * 2 ^ 32 <= (F / 8 + 1) * 2 ^ 32)
            by (apply N.mul_le_mono_r; lia).
          unfold F in *. lia. }
        cbn [rbind]. do 2 eexists. split; [reflexivity|]. apply fin_sim. rewrite Hkt6. exact Hsim6.
  - (* a new key *)
    destruct (Alloc.write_piece val_cfg (val_need (blen v)) (valf s) None v) as [[[vf voff] vsz']| | |] eqn:Hwv;
      cbn [rbind] in Hput; try discriminate Hput.
    set (nxt := head_at (hx s) (Store.bucket s key)) in *.
    destruct (Alloc.write_piece key_cfg (krec_need (KRec key voff nxt)) (keyf s) None (KRec key voff nxt))
      as [[[kf koff] ksz']| | |] eqn:Hwk; cbn [rbind] in Hput; try discriminate Hput.
    injection Hput as <-.
    destruct (head_read_step sg Hsg (hx s) (keyf s) (valf s) x1 _ Hsim1 HH Hb) as (x2 & -> & R2). cbn [rbind].
    fold nxt.
    pose proof (sim_ro sg _ _ _ _ _ Hsim1 R2) as Hsim2.
    destruct (val_write_step sg Hsg (hx s) (keyf s) (valf s) x2 v None vf voff vsz' Hsim2 HV Hvl Hroomv)
      as (x3 & -> & Hsim3 & HV3 & Hvo8 & Hvolt & Hvonz & Hsv3); [intros o [= ]|exact Hwv|].
    cbn [rbind].
    destruct (key_write_step sg Hsg (hx s) (keyf s) vf x3 key voff nxt None kf koff ksz'
                Hsim3 HK Hkl Hvo8 Hvolt (ho_heads8 _ HH _) (ho_heads _ HH _) HF1)
      as (x4 & -> & Hsim4 & HK4 & Hfe4 & Hko8 & Hkolt & Hkonz & Hs4); [intros o [= ]|exact Hwk|].
    cbn [rbind].
    destruct (head_write_step sg Hsg (hx s) kf vf x4 _ koff Hsim4 HH Hb Hkolt) as (x5 & E5 & Hsim5).
    rewrite <- Hmn in E5. rewrite E5. cbn [rbind].
    destruct (count_up_step sg Hsg _ kf vf x5 Hsim5 (hfile_write_head _ _ _ HH Hb Hkolt Hko8) Hroomc) as (x6 & -> & Hsim6).
    cbn [rbind]. do 2 eexists. split; [reflexivity|]. apply fin_sim. cbn [kt hx keyf valf]. exact Hsim6.
Qed.

(** *** [del] *)
Theorem del0_refines key s' r :
  room s -> del0 s key = Ok (s', r) ->
  exists m' imgs', Io.del m key = Ok (r, m') /\ render s' = Ok imgs' /\ Io.images m' = imgs' /\
    m_kt m' = m_kt m /\ m_n m' = m_n m /\
    0 < fcs (get_file (m_st m') FKey) /\ 0 < fcs (get_file (m_st m') FVal).
Proof.
  intros (Hroomk & Hroomv & Hroomc) Hdel.
  destruct top_setup as (ch & kfr & vfr & Hinv & Hki & Hvi & Hrk & Hrv & Hh & HK & HV & HH & Hsim & H3).
  destruct Hwf as (HI & Hfit & Hhwf). pose proof Hinv as [Hcore Hlinks].
  assert (Hb : Store.bucket s key < nb (hx s)) by (apply (home_lt s key (co_n _ _ _ Hcore))).
  unfold del0 in Hdel. unfold Io.del. cbv zeta. rewrite bucket_eq.
  destruct (Store.find s key) as [o| | |] eqn:Hf; cbn [rbind] in Hdel; try discriminate Hdel.
  destruct (find_refines_st s ch Hinv Hfit Hhwf H64 kfr vfr Hki Hvi kimg vimg Hrk Hrv m Hkt Hmn key o (m_st m) H3 Hf)
    as (x1 & -> & R1). cbn [rbind].
  pose proof (sim_ro sg _ _ _ _ _ Hsim R1) as Hsim1.
  destruct o as [[koff prev]|].
  - destruct (read_krec s koff) as [rk| | |] eqn:Hrd; cbn [rbind] in Hdel; try discriminate Hdel.
    apply read_krec_inv in Hrd. pose proof Hrd as Hu. apply used_lookup in Hrd as [ksz Hs].
    destruct (read_val s (k_voff rk)) as [v0| | |] eqn:Hrv0; cbn [rbind] in Hdel; try discriminate Hdel.
    apply read_val_inv in Hrv0. pose proof Hrv0 as Huv. apply used_lookup in Hrv0 as [vsz Hsv].
    destruct (ko_rec _ HK koff rk Hu) as (Hrk1 & Hv8 & Hv & Hn8 & Hn).
    destruct (key_read_piece_sim sg Hsg (keyf s) x1 koff ksz rk HK (proj1 (proj2 Hsim1)) Hs) as (x2 & -> & R2). cbn [rbind].
    pose proof (sim_ro sg _ _ _ _ _ Hsim1 R2) as Hsim2.
    destruct (val_payload_sim sg Hsg (valf s) x2 _ vsz v0 HV (proj1 (proj2 (proj2 Hsim2))) Hsv) as (x3 & -> & R3). cbn [rbind].
    pose proof (sim_ro sg _ _ _ _ _ Hsim2 R3) as Hsim3.
    destruct (unlink0 s (Store.bucket s key) rk prev) as [s1| | |] eqn:Hun; cbn [rbind] in Hdel; try discriminate Hdel.
    destruct (unlink_sim sg Hsg m s _ rk prev x3 s1 Hmn Hsim3 HK HH Hb Hn8 Hn Hroomk Hun)
      as (x4 & -> & Hsim4 & HK4 & HH4 & Hvf4 & Hkt4 & Hnb4 & Hcnt4).
    cbn [rbind].
    destruct (Alloc.delete_piece val_cfg (valf s1) (k_voff rk)) as [vf| | |] eqn:Hdv; cbn [rbind] in Hdel; try discriminate Hdel.
    destruct (Alloc.delete_piece key_cfg (keyf s1) koff) as [kf| | |] eqn:Hdk; cbn [rbind] in Hdel; try discriminate Hdel.
    injection Hdel as <- <-.
    assert (HV4 : vfile_ok (valf s1)) by (rewrite Hvf4; exact HV).
    destruct (val_delete_step sg Hsg _ _ _ x4 _ vf Hsim4 HV4 Hdv) as (x5 & -> & Hsim5). cbn [rbind].
    destruct (key_delete_step sg Hsg _ _ _ x5 _ kf Hsim5 HK4 Hdk) as (x6 & -> & Hsim6). cbn [rbind].
    destruct (count_down_step sg Hsg _ kf vf x6 Hsim6 HH4) as (x7 & -> & Hsim7). cbn [rbind].
    do 2 eexists. split; [reflexivity|]. apply fin_sim. cbn [kt hx keyf valf]. rewrite Hkt4. exact Hsim7.
  - injection Hdel as <- <-. do 2 eexists. split; [reflexivity|]. apply fin_sim. exact Hsim1.
Qed.

End top.

(** ** 7. the statements on [Store.put] / [Store.del] ([touch] is invisible to [render]) *)
Lemma wf_state_touch s : wf_state s -> wf_state (touch s).
Proof.
  intros ((ch & Hs) & Hf & Hw). split; [exists ch; apply sinvo_touch; exact Hs|]. split; [exact Hf|exact Hw].
Qed.

Theorem put_refines s m himg kimg vimg key v s' :
  wf_state s -> fits64 s -> render s = Ok (himg, kimg, vimg) ->
  m_kt m = kt s -> m_n m = nb (hx s) -> Io.images m = (himg, kimg, vimg) ->
  0 < fcs (get_file (m_st m) FKey) -> 0 < fcs (get_file (m_st m) FVal) ->
  room s -> blen key < 2 ^ 31 -> blen v < 2 ^ 31 ->
  Store.put s key v = Ok s' ->
  exists m' imgs', Io.put m key v = Ok m' /\ render s' = Ok imgs' /\ Io.images m' = imgs' /\
    m_kt m' = m_kt m /\ m_n m' = m_n m /\
    0 < fcs (get_file (m_st m') FKey) /\ 0 < fcs (get_file (m_st m') FVal).
Proof.
  intros Hwf H64 Hr Hkt Hmn Him Hck Hcv Hroom Hkl Hvl Hput. rewrite put_put0 in Hput.
  apply (put0_refines (touch s) m himg kimg vimg (wf_state_touch s Hwf) H64 Hr Hkt Hmn Him Hck Hcv key v s' Hroom Hkl Hvl Hput).
Qed.

Theorem del_refines s m himg kimg vimg key s' r :
  wf_state s -> fits64 s -> render s = Ok (himg, kimg, vimg) ->
  m_kt m = kt s -> m_n m = nb (hx s) -> Io.images m = (himg, kimg, vimg) ->
  0 < fcs (get_file (m_st m) FKey) -> 0 < fcs (get_file (m_st m) FVal) ->
  room s ->
  Store.del s key = Ok (s', r) ->
  exists m' imgs', Io.del m key = Ok (r, m') /\ render s' = Ok imgs' /\ Io.images m' = imgs' /\
    m_kt m' = m_kt m /\ m_n m' = m_n m /\
    0 < fcs (get_file (m_st m') FKey) /\ 0 < fcs (get_file (m_st m') FVal).
Proof.
  intros Hwf H64 Hr Hkt Hmn Him Hck Hcv Hroom Hdel. rewrite del_del0 in Hdel.
  apply (del0_refines (touch s) m himg kimg vimg (wf_state_touch s Hwf) H64 Hr Hkt Hmn Him Hck Hcv key s' r Hroom Hdel).
Qed.

Print Assumptions find_prev_sim.
Print Assumptions relink_sim.
Print Assumptions unlink_sim.
Print Assumptions put0_refines.
Print Assumptions del0_refines.
Print Assumptions put_refines.
Print Assumptions del_refines.
