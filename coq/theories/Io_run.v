(** * Io_run: histories.  The byte-level model, run on any history of API calls, returns what the
    record-level model returns (hence, by [Refine_all.run_refines], what the ideal map returns) and
    its three files are [Layout.render] of the record-level state after every call - as long as
    the sizes stay inside the 64-bit headroom [sized] asks for (files grow: no invariant can say so). *)
From Coq Require Import Lia ZifyN ZifyNat ZifyBool.
From Aby Require Import Base Vu64 Hash KeyTypes Consts Sizing Alloc AllocInv Htx Htx_proofs Store Spec Refine Refine_all
  Layout Load Load_proofs Load_htx_proofs Load_all Cache Io Io_base Io_htx Io_reads Io_reads2 Io_pieces Io_updates.
Import Io.

#[local] Open Scope N_scope.

(** one API call on the byte-level map, with the outputs of [Refine_all.store_step] *)
Definition io_step (m : mp) (o : dop) : res (mp * dout) :=
  match o with
  | Put k v => let* m' := Io.put m k v in Ok (m', DUnit)
  | Get k => let* (r, m') := Io.get m k in Ok (m', DOpt r)
  | Del k => let* (r, m') := Io.del m k in Ok (m', DOpt r)
  | Has k => let* (b, m') := Io.has m k in Ok (m', DBool b)
  | Len => let* (c, m') := Io.len m in Ok (m', DNum c)
  | IsEmpty => let* (c, m') := Io.len m in Ok (m', DBool (c =? 0))
  end.

Fixpoint io_run (m : mp) (ops : list dop) : res (mp * list dout) :=
  match ops with
  | [] => Ok (m, [])
  | o :: ops' =>
    let* (m1, r) := io_step m o in
    let* (m2, rs) := io_run m1 ops' in
    Ok (m2, r :: rs)
  end.

(** the map [m] holds the images of [s] *)
Definition simg (s : store) (m : mp) : Prop :=
  render s = Ok (Io.images m) /\ m_kt m = kt s /\ m_n m = nb (hx s) /\
  0 < fcs (get_file (m_st m) FKey) /\ 0 < fcs (get_file (m_st m) FVal).

(** the 64-bit headroom at every state of the history *)
Fixpoint sized (s : store) (ops : list dop) : Prop :=
  fits64 s /\ room s /\
  match ops with
  | [] => True
  | o :: ops' => forall s1 r, store_step s o = Ok (s1, r) -> sized s1 ops'
  end.

(** decidable form of the headroom, for examples *)
Definition fits64b (s : store) : bool :=
  (nb (hx s) <? 2 ^ 64) && (count (hx s) <? 2 ^ 64) && (hend (hx s) <? 2 ^ 64) &&
  (Alloc.fend (keyf s) <? 2 ^ 64) && (Alloc.fend (valf s) <? 2 ^ 64).
Definition roomb (s : store) : bool :=
  (let F := Alloc.fend (keyf s) + 2 ^ 32 in F + (F / 8 + 2) * 2 ^ 32 <? 2 ^ 64) &&
  (Alloc.fend (valf s) + 2 ^ 32 <? 2 ^ 64) && (count (hx s) + 1 <? 2 ^ 64).
Fixpoint sizedb (s : store) (ops : list dop) : bool :=
  fits64b s && roomb s &&
  match ops with
  | [] => true
  | o :: ops' => match store_step s o with Ok (s1, _) => sizedb s1 ops' | _ => true end
  end.

Lemma sizedb_ok ops : forall s, sizedb s ops = true -> sized s ops.
Proof.
  induction ops as [|o ops IH]; intros s H; cbn [sizedb sized] in *.
  - apply andb_prop in H as [H _]. apply andb_prop in H as [H1 H2].
    unfold fits64b in H1. unfold roomb in H2. unfold fits64, room.
    repeat (apply andb_prop in H1 as [H1 ?]). repeat (apply andb_prop in H2 as [H2 ?]).
    repeat split; try (apply N.ltb_lt; assumption); auto.
  - apply andb_prop in H as [H H3]. apply andb_prop in H as [H1 H2].
    unfold fits64b in H1. unfold roomb in H2. unfold fits64, room.
    repeat (apply andb_prop in H1 as [H1 ?]). repeat (apply andb_prop in H2 as [H2 ?]).
    repeat split; try (apply N.ltb_lt; assumption).
    intros s1 r E. rewrite E in H3. apply IH. exact H3.
Qed.

Lemma sized_here s ops : sized s ops -> fits64 s /\ room s.
Proof. destruct ops; cbn [sized]; tauto. Qed.

Lemma images_eta m : exists h k v, Io.images m = (h, k, v).
Proof. destruct (Io.images m) as [[h k] v]. eauto. Qed.

Lemma ro_fcs x x' f : ro_step x x' -> fcs (get_file x' f) = fcs (get_file x f).
Proof. intros [H _]. apply H. Qed.

Lemma io_step_refines s sp m o s1 r :
  wf_state s -> represents s sp -> simg s m -> op_wf (kt s) o -> fits64 s -> room s ->
  store_step s o = Ok (s1, r) ->
  exists m1, io_step m o = Ok (m1, r) /\ simg s1 m1 /\
    wf_state s1 /\ represents s1 (fst (spec_step sp o)) /\ kt s1 = kt s /\ r = snd (spec_step sp o).
Proof.
  intros Hwf HR (Hr & Hkt & Hn & Hck & Hcv) Hw H64 Hroom Hs.
  (* the record level: what is known about [s1] *)
  pose proof Hwf as (HI & _).
  destruct (step_refines s sp o HI HR Hw) as (s1' & Hs' & _ & HR1 & Hkt1 & Hn1).
  rewrite Hs in Hs'. injection Hs' as <- Hrr.
  assert (Hwf1 : wf_state s1).
  { assert (Hrun : store_run s [o] = Ok (s1, [r])) by (cbn [store_run]; rewrite Hs; reflexivity).
    exact (proj1 (wf_state_run s sp [o] s1 [r] Hwf HR (Forall_cons_2 _ _ _ Hw (Forall_nil_2 _)) Hrun)). }
  assert (Hrest : wf_state s1 /\ represents s1 (fst (spec_step sp o)) /\ kt s1 = kt s /\ r = snd (spec_step sp o))
    by auto.
  destruct (images_eta m) as (hi & ki & vi & Him). rewrite Him in Hr.
  destruct o as [k v | k | k | k | |]; cbn [store_step] in Hs; cbn [io_step op_wf] in *.
  - destruct (Store.put s k v) as [s'| | |] eqn:E; cbn [rbind] in Hs; try discriminate. injection Hs as <- <-.
    destruct Hw as [(_ & Hkl & _) (_ & Hvl)].
    destruct (put_refines s m hi ki vi k v s' Hwf H64 Hr Hkt Hn Him Hck Hcv Hroom Hkl Hvl E)
      as (m' & imgs' & Hp & Hr' & Hi' & Hkt' & Hn' & Hck' & Hcv').
    exists m'. rewrite Hp. cbn [rbind]. split; [reflexivity|]. split; [|exact Hrest].
    unfold simg. rewrite Hi', Hkt', Hn', Hkt1, Hn1. auto.
  - destruct (Store.get s k) as [rr| | |] eqn:E; cbn [rbind] in Hs; try discriminate. injection Hs as <- <-.
    destruct (get_refines_wf s hi ki vi m Hwf H64 Hr Hkt Hn Him k rr E) as (m' & Hg & Hro & Hi').
    exists m'. rewrite Hg. cbn [rbind]. split; [reflexivity|]. split; [|exact Hrest].
    unfold simg. rewrite Hi', Him, !(ro_fcs _ _ _ Hro).
    assert (m_kt m' = m_kt m /\ m_n m' = m_n m) as [-> ->] by (apply (get_looks m k rr m' Hg)). auto.
  - destruct (Store.del s k) as [[s' rr]| | |] eqn:E; cbn [rbind] in Hs; try discriminate. injection Hs as <- <-.
    destruct (del_refines s m hi ki vi k s' rr Hwf H64 Hr Hkt Hn Him Hck Hcv Hroom E)
      as (m' & imgs' & Hp & Hr' & Hi' & Hkt' & Hn' & Hck' & Hcv').
    exists m'. rewrite Hp. cbn [rbind]. split; [reflexivity|]. split; [|exact Hrest].
    unfold simg. rewrite Hi', Hkt', Hn', Hkt1, Hn1. auto.
  - destruct (Store.has s k) as [b| | |] eqn:E; cbn [rbind] in Hs; try discriminate. injection Hs as <- <-.
    destruct (has_refines_wf s hi ki vi m Hwf H64 Hr Hkt Hn Him k b E) as (m' & Hg & Hro & Hi').
    exists m'. rewrite Hg. cbn [rbind]. split; [reflexivity|]. split; [|exact Hrest].
    unfold simg. rewrite Hi', Him, !(ro_fcs _ _ _ Hro).
    assert (m_kt m' = m_kt m /\ m_n m' = m_n m) as [-> ->] by (apply (has_looks m k b m' Hg)). auto.
  - injection Hs as <- <-.
    destruct (len_refines_wf s hi ki vi m Hwf H64 Hr Him) as (m' & Hg & Hro & Hi').
    exists m'. rewrite Hg. cbn [rbind]. split; [reflexivity|]. split; [|exact Hrest].
    unfold simg. rewrite Hi', Him, !(ro_fcs _ _ _ Hro).
    assert (m_kt m' = m_kt m /\ m_n m' = m_n m) as [-> ->] by (apply (len_looks m _ m' Hg)). auto.
  - injection Hs as <- <-.
    destruct (len_refines_wf s hi ki vi m Hwf H64 Hr Him) as (m' & Hg & Hro & Hi').
    exists m'. rewrite Hg. cbn [rbind]. split; [reflexivity|]. split; [|exact Hrest].
    unfold simg. rewrite Hi', Him, !(ro_fcs _ _ _ Hro).
    assert (m_kt m' = m_kt m /\ m_n m' = m_n m) as [-> ->] by (apply (len_looks m _ m' Hg)). auto.
Qed.

(** HISTORIES: from any well-formed state whose images the byte-level map holds *)
Theorem io_run_refines ops : forall s sp m s' outs,
  wf_state s -> represents s sp -> simg s m -> Forall (op_wf (kt s)) ops -> sized s ops ->
  store_run s ops = Ok (s', outs) ->
  exists m', io_run m ops = Ok (m', outs) /\ simg s' m' /\ wf_state s' /\
    represents s' (fst (spec_run sp ops)) /\ outs = snd (spec_run sp ops).
Proof.
  induction ops as [|o ops IH]; intros s sp m s' outs Hwf HR Hsim Hw Hsz Hrun.
  - cbn [store_run] in Hrun. injection Hrun as <- <-. exists m. cbn. auto.
  - cbn [store_run] in Hrun.
    destruct (store_step s o) as [[s1 r]| | |] eqn:E1; cbn [rbind] in Hrun; try discriminate.
    destruct (store_run s1 ops) as [[s2 rs]| | |] eqn:E2; cbn [rbind] in Hrun; try discriminate.
    injection Hrun as <- <-.
    inversion Hw as [|? ? Ho Hops]; subst.
    destruct (sized_here _ _ Hsz) as [H64 Hroom].
    destruct (io_step_refines s sp m o s1 r Hwf HR Hsim Ho H64 Hroom E1) as (m1 & Hio & Hsim1 & Hwf1 & HR1 & Hkt1 & Hr).
    assert (Hsz1 : sized s1 ops) by (cbn [sized] in Hsz; destruct Hsz as (_ & _ & H); exact (H s1 r E1)).
    rewrite <- Hkt1 in Hops.
    destruct (IH s1 _ m1 s2 rs Hwf1 HR1 Hsim1 Hops Hsz1 E2) as (m2 & Hio2 & Hsim2 & Hwf2 & HR2 & Hrs).
    exists m2. cbn [io_run spec_run]. rewrite Hio. cbn [rbind]. rewrite Hio2. cbn [rbind].
    destruct (spec_step sp o) as [sp1 r0] eqn:Es. cbn [fst snd] in *.
    destruct (spec_run sp1 ops) as [sp2 rs0] eqn:Er. cbn [fst snd] in *.
    subst. auto.
Qed.

Print Assumptions io_run_refines.
