(** * Store: one map = bucket table + key file + value file (dbxxx.rs, as of the tree with
    the D1..D5, D7 repairs): find, get, put, delete, includes_key, len, flush/sync. *)
From Aby Require Import Base Vu64 Hash KeyTypes Consts Sizing Alloc Htx.

Record krec := KRec { k_key : bytes; k_voff : N; k_next : N }.

(** [dirty] is the in-memory flag of [FileDbXxxInner]; [synced] is ghost state of the model:
    "the disk images equal the logical images" (see Buf.v for the buffered-file model that
    justifies it: a successful flush of all three files establishes it, any update voids it). *)
Record store := Store {
  kt : ktype; hx : htx; keyf : pfile krec; valf : pfile bytes; dirty : bool; synced : bool }.

Definition set_hx (s : store) (h : htx) : store := Store (kt s) h (keyf s) (valf s) (dirty s) (synced s).
Definition set_keyf (s : store) (f : pfile krec) : store := Store (kt s) (hx s) f (valf s) (dirty s) (synced s).
Definition set_valf (s : store) (f : pfile bytes) : store := Store (kt s) (hx s) (keyf s) f (dirty s) (synced s).
Definition touch (s : store) : store := Store (kt s) (hx s) (keyf s) (valf s) true false.

(** creation: the three headers are written into the buffers, nothing is on disk yet *)
Definition create (t : ktype) (n : N) : store :=
  Store t (htx_create n) (pf_create key_cfg) (pf_create val_cfg) true false.

Definition krec_need (r : krec) : N := key_need (blen (k_key r)) (k_voff r) (k_next r).

Definition read_krec (s : store) (off : N) : res krec :=
  match slots (keyf s) !! off with
  | Some (Used _ r) => Ok r
  | _ => Panic Corrupt
  end.

Definition read_val (s : store) (off : N) : res bytes :=
  match slots (valf s) !! off with
  | Some (Used _ v) => Ok v
  | _ => Panic Corrupt
  end.

Definition chain_fuel (s : store) : nat := S (size (slots (keyf s))).

(** [find_in_hash_buckets_kt]: (offset of the key record, offset of its predecessor or 0) *)
Fixpoint find_chain (fuel : nat) (s : store) (key : bytes) (prev off : N) : res (option (N * N)) :=
  match fuel with
  | O => OutOfFuel
  | S f =>
    if off =? 0 then Ok None
    else
      let* r := read_krec s off in
      let* e := cmp_eq (kt s) key (k_key r) in
      if e then Ok (Some (off, prev)) else find_chain f s key off (k_next r)
  end.

Definition bucket (s : store) (key : bytes) : N := bucket_of key (nb (hx s)).

Definition find (s : store) (key : bytes) : res (option (N * N)) :=
  find_chain (chain_fuel s) s key 0 (head_at (hx s) (bucket s key)).

Definition get (s : store) (key : bytes) : res (option bytes) :=
  let* o := find s key in
  match o with
  | Some (koff, _) => let* r := read_krec s koff in let* v := read_val s (k_voff r) in Ok (Some v)
  | None => Ok None
  end.

Definition has (s : store) (key : bytes) : res bool :=
  let* o := find s key in Ok (match o with Some _ => true | None => false end).

Definition len (s : store) : N := count (hx s).

(** [find_prev_key_offset]: the record whose link is [target] (0: the bucket head) *)
Fixpoint find_prev (fuel : nat) (s : store) (target prev curr : N) : res N :=
  match fuel with
  | O => OutOfFuel
  | S f =>
    if (curr =? 0) || (curr =? target) then Ok prev
    else let* r := read_krec s curr in find_prev f s target curr (k_next r)
  end.

(** [relink_key_piece]: make [prev] (0: bucket head [b]) link to [newoff]; a predecessor that
    moves because its link grew is re-linked in turn. *)
Fixpoint relink (fuel : nat) (s : store) (b prev newoff : N) : res store :=
  match fuel with
  | O => OutOfFuel
  | S f =>
    if prev =? 0 then Ok (set_hx s (write_head (hx s) b newoff))
    else
      let* r := read_krec s prev in
      let r' := KRec (k_key r) (k_voff r) newoff in
      let* (kf, poff, _) := write_piece key_cfg (krec_need r') (keyf s) (Some prev) r' in
      let s' := set_keyf s kf in
      if poff =? prev then Ok s'
      else
        let* pp := find_prev (chain_fuel s') s' prev 0 (head_at (hx s') b) in
        relink f s' b pp poff
  end.

(** [put_kt] *)
Definition put (s0 : store) (key v : bytes) : res store :=
  let s := touch s0 in
  let* o := find s key in
  match o with
  | Some (koff, prev) =>
    (* store_value_on_insert *)
    let* r := read_krec s koff in
    let* _ := read_val s (k_voff r) in
    let* (vf, voff, _) := write_piece val_cfg (val_need (blen v)) (valf s) (Some (k_voff r)) v in
    let s1 := set_valf s vf in
    if voff =? k_voff r then Ok s1
    else
      let r' := KRec (k_key r) voff (k_next r) in
      let* (kf, koff', _) := write_piece key_cfg (krec_need r') (keyf s1) (Some koff) r' in
      let s2 := set_keyf s1 kf in
      if koff' =? koff then Ok s2
      else relink (chain_fuel s2) s2 (bucket s key) prev koff'
  | None =>
    let b := bucket s key in
    let nxt := head_at (hx s) b in
    let* (vf, voff, _) := write_piece val_cfg (val_need (blen v)) (valf s) None v in
    let r := KRec key voff nxt in
    let* (kf, koff, _) := write_piece key_cfg (krec_need r) (keyf s) None r in
    Ok (Store (kt s) (count_up (write_head (hx s) b koff)) kf vf (dirty s) (synced s))
  end.

(** [del_kt] *)
Definition del (s0 : store) (key : bytes) : res (store * option bytes) :=
  let s := touch s0 in
  let* o := find s key in
  match o with
  | None => Ok (s, None)
  | Some (koff, prev) =>
    let* r := read_krec s koff in
    let* v := read_val s (k_voff r) in
    let b := bucket s key in
    let* s1 := (if prev =? 0 then Ok (set_hx s (write_head (hx s) b (k_next r)))
          else
            let* pr := read_krec s prev in
            let pr' := KRec (k_key pr) (k_voff pr) (k_next r) in
            let* (kf, poff, _) := write_piece key_cfg (krec_need pr') (keyf s) (Some prev) pr' in
            let s' := set_keyf s kf in
            if poff =? prev then Ok s'
            else
              let* pp := find_prev (chain_fuel s') s' prev 0 (head_at (hx s') b) in
              relink (chain_fuel s') s' b pp poff) in
    let* vf := delete_piece val_cfg (valf s1) (k_voff r) in
    let* kf := delete_piece key_cfg (keyf s1) koff in
    Ok (Store (kt s1) (count_down (hx s1)) kf vf (dirty s1) (synced s1), Some v)
  end.

(** [flush] / [sync_all] / [sync_data] without faults: "if dirty, flush the value, key and
    table file, clear the flag".  Faults are in Buf.v. *)
Definition flush (s : store) : store :=
  if dirty s then Store (kt s) (hx s) (keyf s) (valf s) false true else s.

(** dropping the last handle: rabuf's [Drop] flushes every buffer *)
Definition close (s : store) : store := Store (kt s) (hx s) (keyf s) (valf s) false true.
