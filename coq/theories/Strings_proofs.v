(** * Strings_proofs: the [*_string] calls are the byte calls composed with [Utf8.lossy] (C14). *)
From Coq Require Import Lia.
From Aby Require Import Base Vu64 KeyTypes Consts Sizing Alloc Htx Store Iter Stats Layout Bulk Db Db_proofs World_refine Utf8 Utf8_proofs Strings.

Lemma sstep_world w o : fst (sstep w o) = fst (step w (plain o)).
Proof. unfold sstep. destruct (step w (plain o)). reflexivity. Qed.

Lemma sstep_out w o : snd (sstep w o) = post o (snd (step w (plain o))).
Proof. unfold sstep. destruct (step w (plain o)). reflexivity. Qed.

(** the string variants change the world - contents, files, flags, handles - exactly as the byte variants *)
Theorem string_variants_same_world ops : forall w, sworld_run w ops = world_run w (map plain ops).
Proof.
  induction ops as [|o ops IH]; intros w; [reflexivity|].
  unfold sworld_run, world_run in *. cbn [fold_left map]. rewrite sstep_world. apply IH.
Qed.

(** ... and return, call by call, the result of the byte variant with every value passed through [lossy] *)
Fixpoint zip_post (ops : list sop) (rs : list out) : list out :=
  match ops, rs with
  | o :: ops', r :: rs' => post o r :: zip_post ops' rs'
  | _, _ => []
  end.

Theorem string_variants_outputs ops : forall w, srun_outs w ops = zip_post ops (run_outs w (map plain ops)).
Proof.
  induction ops as [|o ops IH]; intros w; [reflexivity|].
  cbn [srun_outs map run_outs zip_post]. rewrite sstep_out, sstep_world, IH. reflexivity.
Qed.

(** [lossy] on results leaves everything but values alone *)
Lemma str_out_not_value r : (forall o, r <> ROpt o) -> (forall l, r <> RVec l) -> str_out r = r.
Proof. destruct r; intros H1 H2; try reflexivity; [destruct (H1 o) | destruct (H2 l)]; reflexivity. Qed.

(** inside the domain of the world-level theorem: every call of a history with string variants returns
    [post] of what the ideal maps return; no call runs out of fuel or reports an I/O error *)
Definition sagrees (o : sop) (r : out) (ir : option out) : Prop :=
  (forall x, ir = Some x -> r = post o x) /\ r <> RFuel /\ r <> RErr.

Lemma post_not_fuel o r : r <> RFuel -> r <> RErr -> post o r <> RFuel /\ post o r <> RErr.
Proof. destruct o; cbn [post]; [auto|]. destruct r; cbn [str_out]; intros; split; congruence. Qed.

Theorem string_history_refines w iw ops :
  wrep w iw -> ops_ok w (map plain ops) ->
  wrep (sworld_run w ops) (irun w iw (map plain ops)).1 /\
  Forall2 (fun '(o, r) ir => sagrees o r ir) (zip ops (srun_outs w ops)) (irun w iw (map plain ops)).2.
Proof.
  intros Hw Hok. rewrite string_variants_same_world.
  destruct (world_run_refines w iw (map plain ops) Hw Hok) as [H1 H2]. split; [exact H1|].
  rewrite string_variants_outputs. clear H1 Hw Hok.
  remember (run_outs w (map plain ops)) as rs eqn:Ers. remember ((irun w iw (map plain ops)).2) as irs eqn:Eirs.
  assert (Hlen : length rs = length ops) by (subst rs; clear; revert w; induction ops as [|o ops IH]; intros w; cbn; [reflexivity|f_equal; apply IH]).
  clear Ers Eirs. revert ops Hlen. induction H2 as [|r ir rs irs Ha _ IH]; intros ops Hlen.
  - destruct ops; [constructor|discriminate].
  - destruct ops as [|o ops]; [discriminate|]. cbn [zip_post zip zip_with]. constructor.
    + destruct Ha as (A & _ & B & C). split; [intros x E; rewrite (A x E); reflexivity|]. apply post_not_fuel; assumption.
    + apply IH. cbn in Hlen. lia.
Qed.

(** what [put_string] stores comes back unchanged through the string variants: [lossy] is the identity on the
    encoding of a Rust string *)
Theorem string_value_round_trip s : Forall scalar s ->
  str_out (ROpt (Some (encode s))) = ROpt (Some (encode s)) /\
  (forall l, In (Some (encode s)) l -> In (Some (encode s)) (match str_out (RVec l) with RVec l' => l' | _ => [] end)).
Proof.
  intros Hs. cbn [str_out fmap option_fmap option_map]. rewrite (string_round_trip s Hs). split; [reflexivity|].
  intros l Hin. apply in_map_iff. exists (Some (encode s)). split; [|exact Hin].
  cbn [fmap option_fmap option_map]. rewrite (string_round_trip s Hs). reflexivity.
Qed.

(** the string variant of a call that returns no value is the call itself *)
Example str_out_examples :
  str_out (ROpt (Some [104; 233])) = ROpt (Some [104; 239; 191; 189]) /\
  str_out (RVec [Some [195; 169]; None; Some [226; 130]]) = RVec [Some [195; 169]; None; Some [239; 191; 189]] /\
  str_out (RNum 3) = RNum 3 /\ str_out RUnit = RUnit.
Proof. vm_compute. repeat split; reflexivity. Qed.

Print Assumptions string_history_refines.
Print Assumptions string_variants_same_world.
Print Assumptions string_value_round_trip.
