(** * Db: a database directory with several named maps, handles, and the operation language
    of the correspondence runner ([step]).  A handle is a name for (directory, map name, type);
    the files of a map are the [store] registered under (directory, map name). *)
From Aby Require Import Base Vu64 KeyTypes Consts Sizing Alloc Htx Store Iter Stats Layout Bulk.

Inductive bufparam := BSize (v : N) | BPerMille (p : N) | BAuto.
Record params := Params { p_buckets : bparam; p_val : bufparam; p_key : bufparam; p_htx : bufparam }.

Definition mapkey := (bytes * bytes)%type.       (* (directory, map name) *)

Record world := World {
  files : gmap mapkey store;
  dbs : gmap N bytes;                            (* database handle -> directory *)
  mids : gmap N (mapkey * ktype);                (* map handle -> files, type it was opened as *)
  opened : gset mapkey }.                        (* maps whose files are currently open *)

Definition world0 : world := World ∅ ∅ ∅ ∅.

Inductive flavour := FIter | FIterMut | FIntoIter | FRefIntoIter | FMutIntoIter | FKeys | FValues.

Inductive op :=
| ODb (d : N) (dir : bytes) | ODbClone (nd d : N)
| OMap (m d : N) (t : ktype) (name : bytes) (p : params) | OMapClone (nm m : N)
| ODrop (m : N) | ODropDb (d : N) | OCloseAll
| OPut (m : N) (k v : bytes) | OGet (m : N) (k : bytes) | ODel (m : N) (k : bytes) | OHas (m : N) (k : bytes)
| OLen (m : N) | OEmpty (m : N) | OFlush (m : N) | OSyncAll (m : N) | OSyncData (m : N) | OFill (m : N)
| ODbSync (d : N) | ODirty (m : N)
| OIter (m : N) (f : flavour) | OStats (m : N)
| OBulkGet (m : N) (ks : list bytes) | OBulkDel (m : N) (ks : list bytes)
| OBulkPut (m : N) (kvs : list (bytes * bytes)) | OPutIter (m : N) (kvs : list (bytes * bytes))
| OPutInt (m : N) (x : Z) (v : bytes) | OGetInt (m : N) (x : Z) | ODelInt (m : N) (x : Z) | OHasInt (m : N) (x : Z)
| OSnap (dir : bytes) | OCpDir (src dst : bytes).

Inductive out :=
| RUnit | RPanic (t : tag) | RErr | RFuel | RNoHandle
| ROpt (o : option bytes) | RBool (b : bool) | RNum (n : N)
| RIter (items : list (N * (bytes * bytes))) (last_hint : N) (extras : list (option (bytes * bytes)))
| RStats (st : stats)
| RVec (l : list (option bytes))
| RSnap (l : list (bytes * option (bytes * bytes * bytes))).

Definition out_of_res {A} (r : res A) (f : A -> out) : out :=
  match r with Ok a => f a | Panic t => RPanic t | IoErr => RErr | OutOfFuel => RFuel end.

Definition set_files (w : world) (fs : gmap mapkey store) : world := World fs (dbs w) (mids w) (opened w).

(** [dirty] is set when the files are opened *)
Definition reopen (s : store) : store := Store (kt s) (hx s) (keyf s) (valf s) true (synced s).

Definition of_int (t : ktype) (x : Z) : bytes :=
  match t with
  | KI64 => of_i64 x
  | KU64 => of_u64 (Z.to_N x)
  | KVu64 => of_vu64 (Z.to_N x)
  | KString | KBytes => of_u64_be (Z.to_N x)
  end.

(** [FileDbXxxInner::open_with_params]: create when absent, else check the type signature of the
    stored files against the requested type (the parameters are ignored) *)
Definition open_map (w : world) (mk : mapkey) (t : ktype) (p : params) : res world :=
  match files w !! mk with
  | Some s =>
    if bytes_eqb (sig_of (kt s)) (sig_of t) then
      if bool_decide (mk ∈ opened w) then Ok w
      else Ok (World (<[mk := reopen s]> (files w)) (dbs w) (mids w) ({[mk]} ∪ opened w))
    else Panic BadSig
  | None =>
    let* n := buckets_of_param (p_buckets p) in
    Ok (World (<[mk := create t n]> (files w)) (dbs w) (mids w) ({[mk]} ∪ opened w))
  end.

(** run [f] on the store behind map handle [m] *)
Definition with_map (w : world) (m : N) (f : mapkey -> store -> world * out) : world * out :=
  match mids w !! m with
  | Some (mk, _) =>
    match files w !! mk with
    | Some s => f mk s
    | None => (w, RNoHandle)
    end
  | None => (w, RNoHandle)
  end.

Definition upd (w : world) (mk : mapkey) (r : res store) : world * out :=
  match r with
  | Ok s' => (set_files w (<[mk := s']> (files w)), RUnit)
  | Panic t => (w, RPanic t)
  | IoErr => (w, RErr)
  | OutOfFuel => (w, RFuel)
  end.

Definition handle_type (w : world) (m : N) : ktype :=
  match mids w !! m with Some (_, t) => t | None => KBytes end.

(** are all handles gone?  then every buffer has been dropped, i.e. flushed *)
Definition close_unreferenced (w : world) : world :=
  if bool_decide (dbs w = ∅) && bool_decide (mids w = ∅)
  then World (close <$> files w) (dbs w) (mids w) ∅ else w.

Definition step (w : world) (o : op) : world * out :=
  match o with
  | ODb d dir => (World (files w) (<[d := dir]> (dbs w)) (mids w) (opened w), RUnit)
  | ODbClone nd d =>
    match dbs w !! d with
    | Some dir => (World (files w) (<[nd := dir]> (dbs w)) (mids w) (opened w), RUnit)
    | None => (w, RNoHandle)
    end
  | OMap m d t name p =>
    match dbs w !! d with
    | Some dir =>
      match open_map w (dir, name) t p with
      | Ok w' => (World (files w') (dbs w') (<[m := ((dir, name), t)]> (mids w')) (opened w'), RUnit)
      | Panic tg => (w, RPanic tg)
      | IoErr => (w, RErr)
      | OutOfFuel => (w, RFuel)
      end
    | None => (w, RNoHandle)
    end
  | OMapClone nm m =>
    match mids w !! m with
    | Some h => (World (files w) (dbs w) (<[nm := h]> (mids w)) (opened w), RUnit)
    | None => (w, RNoHandle)
    end
  | ODrop m => (close_unreferenced (World (files w) (dbs w) (delete m (mids w)) (opened w)), RUnit)
  | ODropDb d => (close_unreferenced (World (files w) (delete d (dbs w)) (mids w) (opened w)), RUnit)
  | OCloseAll => (close_unreferenced (World (files w) ∅ ∅ (opened w)), RUnit)
  | OPut m k v => with_map w m (fun mk s => upd w mk (put s k v))
  | OGet m k => with_map w m (fun mk s => (w, out_of_res (get s k) ROpt))
  | ODel m k =>
    with_map w m (fun mk s =>
      match del s k with
      | Ok (s', r) => (set_files w (<[mk := s']> (files w)), ROpt r)
      | Panic t => (w, RPanic t) | IoErr => (w, RErr) | OutOfFuel => (w, RFuel)
      end)
  | OHas m k => with_map w m (fun mk s => (w, out_of_res (has s k) RBool))
  | OLen m => with_map w m (fun mk s => (w, RNum (len s)))
  | OEmpty m => with_map w m (fun mk s => (w, RBool (len s =? 0)))
  | OFlush m | OSyncAll m | OSyncData m => with_map w m (fun mk s => upd w mk (Ok (flush s)))
  | OFill m => with_map w m (fun mk s => (w, RUnit))
  | ODbSync d =>
    (* applies to every map opened through this database object; in the model: every map of the directory *)
    match dbs w !! d with
    | Some dir => (set_files w (map_imap (fun mk s => Some (if bytes_eqb (fst mk) dir then flush s else s)) (files w)), RUnit)
    | None => (w, RNoHandle)
    end
  | ODirty m => with_map w m (fun mk s => (w, RBool (dirty s)))
  | OIter m f => with_map w m (fun mk s =>
      (w, out_of_res (iter_run s) (fun r => let '(items, h, ex) := r in RIter items h ex)))
  | OStats m => with_map w m (fun mk s => (w, out_of_res (stats_of s) RStats))
  | OBulkGet m ks => with_map w m (fun mk s => (w, out_of_res (bulk_get key_sorter s ks) RVec))
  | OBulkDel m ks =>
    with_map w m (fun mk s =>
      match bulk_delete key_sorter s ks with
      | Ok (s', r) => (set_files w (<[mk := s']> (files w)), RVec r)
      | Panic t => (w, RPanic t) | IoErr => (w, RErr) | OutOfFuel => (w, RFuel)
      end)
  | OBulkPut m kvs => with_map w m (fun mk s => upd w mk (bulk_put kv_sorter s kvs))
  | OPutIter m kvs => with_map w m (fun mk s => upd w mk (put_from_iter s kvs))
  | OPutInt m x v => with_map w m (fun mk s => upd w mk (put s (of_int (handle_type w m) x) v))
  | OGetInt m x => with_map w m (fun mk s => (w, out_of_res (get s (of_int (handle_type w m) x)) ROpt))
  | ODelInt m x =>
    with_map w m (fun mk s =>
      match del s (of_int (handle_type w m) x) with
      | Ok (s', r) => (set_files w (<[mk := s']> (files w)), ROpt r)
      | Panic t => (w, RPanic t) | IoErr => (w, RErr) | OutOfFuel => (w, RFuel)
      end)
  | OHasInt m x => with_map w m (fun mk s => (w, out_of_res (has s (of_int (handle_type w m) x)) RBool))
  | OSnap dir =>
    (w, RSnap (omap (fun ms : mapkey * store =>
                       let '(mk, s) := ms in
                       if bytes_eqb (fst mk) dir then
                         Some (snd mk, if synced s then match render s with Ok r => Some r | _ => None end else None)
                       else None) (map_to_list (files w))))
  | OCpDir src dst =>
    (* a copy of the directory taken from outside: determinate for the maps whose disk image
       equals the logical image (synced); the others are left out of the copy *)
    let copies := omap (fun ms : mapkey * store =>
                          let '(mk, s) := ms in
                          if bytes_eqb (fst mk) src && synced s then Some ((dst, snd mk), close s) else None)
                       (map_to_list (files w)) in
    (set_files w (fold_right (fun c fs => <[fst c := snd c]> fs) (files w) copies), RUnit)
  end.
