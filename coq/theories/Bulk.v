(** * Bulk: bulk_get / bulk_delete / bulk_put / put_from_iter (src/lib.rs).

    The crate sorts the batch by key ([sort_unstable_by] / [sort_by]), applies the calls in that
    order and restores the input order by index.  The order in which the calls are made is a
    section variable: the theorems (Bulk_proofs.v) hold for any permutation. *)
From Aby Require Import Base KeyTypes Store.

Fixpoint insert_by {A} (lt : A -> A -> bool) (x : A) (l : list A) : list A :=
  match l with
  | [] => [x]
  | y :: l' => if lt x y then x :: l else y :: insert_by lt x l'
  end.
Definition isort {A} (lt : A -> A -> bool) (l : list A) : list A := fold_right (insert_by lt) [] l.

Fixpoint bytes_ltb (a b : bytes) : bool :=
  match a, b with
  | _, [] => false
  | [], _ :: _ => true
  | x :: a', y :: b' => (x <? y) || ((x =? y) && bytes_ltb a' b')
  end.

Definition indexed {A} (l : list A) : list (nat * A) := combine (seq 0 (length l)) l.

(** [result.sort_by(|a, b| a.0.cmp(&b.0))] then drop the index *)
Definition restore {A} (l : list (nat * A)) : list A :=
  map snd (isort (fun a b => Nat.ltb (fst a) (fst b)) l).

Section bulk.
Variable sorter : list (nat * bytes) -> list (nat * bytes).
Variable sorter2 : list (bytes * bytes) -> list (bytes * bytes).

Fixpoint get_seq (s : store) (l : list (nat * bytes)) : res (list (nat * option bytes)) :=
  match l with
  | [] => Ok []
  | (i, k) :: l' =>
    let* r := get s k in
    let* rest := get_seq s l' in
    Ok ((i, r) :: rest)
  end.

Definition bulk_get (s : store) (ks : list bytes) : res (list (option bytes)) :=
  let* rs := get_seq s (sorter (indexed ks)) in
  Ok (restore rs).

Fixpoint del_seq (s : store) (l : list (nat * bytes)) : res (store * list (nat * option bytes)) :=
  match l with
  | [] => Ok (s, [])
  | (i, k) :: l' =>
    let* (s1, r) := del s k in
    let* (s2, rest) := del_seq s1 l' in
    Ok (s2, (i, r) :: rest)
  end.

Definition bulk_delete (s : store) (ks : list bytes) : res (store * list (option bytes)) :=
  let* (s', rs) := del_seq s (sorter (indexed ks)) in
  Ok (s', restore rs).

Fixpoint put_seq (s : store) (l : list (bytes * bytes)) : res store :=
  match l with
  | [] => Ok s
  | (k, v) :: l' => let* s1 := put s k v in put_seq s1 l'
  end.

Definition bulk_put (s : store) (kvs : list (bytes * bytes)) : res store := put_seq s (sorter2 kvs).
Definition put_from_iter (s : store) (kvs : list (bytes * bytes)) : res store := put_seq s kvs.
End bulk.

(** the order the standard sorts produce on a batch (ascending by key; ties: input order for
    the stable [sort_by] of bulk_put read from the back) - used by the executable runner only *)
Definition key_sorter (l : list (nat * bytes)) : list (nat * bytes) :=
  isort (fun a b => bytes_ltb (snd a) (snd b)) l.
Definition kv_sorter (l : list (bytes * bytes)) : list (bytes * bytes) :=
  isort (fun a b => bytes_ltb (fst a) (fst b)) l.
