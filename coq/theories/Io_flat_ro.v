(** * Io_flat_ro: the calls of the read-only operations lie in the domain of the cache theorem.

    Io_flat.v: every operation of [Io] is, file by file, a run of canonical buffer calls
    ([calls_between]), and [calls_ok] / [evs_ok] decide whether such a run is inside the domain of
    [Flatx.xrun].  This file discharges [calls_ok] for [get] / [has] / [len] / [iter_run] /
    [stats_of] on the images of a well-formed state.

    The existing proofs (Io_htx.v, Io_reads.v, Io_reads2.v) conclude [Io_htx.ro_step], whose event
    predicate [ev_quiet] says nothing about the length of a read.  Here [ev_quiet] is STRENGTHENED:
    a read ends at most [slack f] bytes beyond the end of file [f] (7 for the table file - the
    8-byte stride of [scan64] over the bitmap and the 1-byte bitmap reads of a table with fewer
    than 8 buckets -, 0 for the key and value files), and the proofs of the three files are
    replayed for the strengthened [ro_step]: PART 2 below is a copy of their text (the section
    [image] of Io_htx.v, D2-D3 of Io_reads.v, all of Io_reads2.v), unchanged except for the seven
    places where a read event is produced (marked "tight:").  If [Io_htx.ev_quiet] is
    strengthened in place one day, PART 2 can be deleted.

    PART 0 (record level): the table file never grows beyond one byte after the end [create] gave
    it ([hend_reachable]; the invariance proofs of Load_htx_proofs.v section 5 replayed for the
    two-sided bound).

    PART 3: a step whose events are tight is inside the domain ([tight_calls_ok],
    [ro_step_in_domain]) for every buffer whose chunks do not start within [slack f] bytes after the
    end of the file ([chunk_free]); for the table file of a map with a power of two of buckets and
    a chunk size that is a power of two >= 128 (the crate: 4096 or 131072) that is so
    ([table_end_chunk_free]).  [readonly_calls_in_domain]: the five read-only operations on the
    images of a well-formed state; [history_then_readonly_in_domain]: the same after [create] and
    any history, with nothing assumed but the 64-bit headroom [sized].

    (This file is generated: notes/ioflat_gen/gen_ro.py (kept in /verif/notes for reference) pastes the line ranges of the
    three files between head.v and tail.v and applies the seven patches.) *)
From Coq Require Import Lia ZifyN ZifyNat ZifyBool.
From Aby Require Import Base Vu64 Vu64_proofs Hash KeyTypes Consts Sizing Sizing_proofs Alloc AllocInv AllocInv_proofs
  Htx Htx_proofs Store Iter Stats Layout Load Load_proofs Load_htx_proofs Cache Cache_proofs Refine Refine_relink
  Spec Open_proofs Refine_all Flatx Io Io_base Io_htx Io_reads Io_reads2 Io_run Io_create Io_flat.
From Aby Require Load_all.
#[local] Open Scope N_scope.

(** ** PART 0 (record level). the table file never grows beyond one byte after the end [create]
    gave it

    [htx_wf] says [table_end (nb h) <= hend h]; here the other side: [hend h <= table_end (nb h) + 1]
    ([write_head] writes the bitmap byte of bucket [i] at [.. + i / 8], at most the byte at the
    end - for fewer than 8 buckets).  The invariance proofs are those of Load_htx_proofs.v section
    5, replayed for the conjunction [hwfe]. *)
Definition table_end (n : N) : N := htx_header_size + 8 * n + n / 8.

Definition hwfe (h : htx) : Prop := htx_wf h /\ hend h <= table_end (nb h) + 1.

Lemma hwfe_create n : 1 <= n -> hwfe (htx_create n).
Proof. intros Hn. split; [apply htx_wf_create; exact Hn|]. unfold table_end, htx_create. cbn [hend nb]. lia. Qed.

Lemma hwfe_write_head h i off : hwfe h -> i < nb h -> hwfe (write_head h i off).
Proof.
  intros [Hw He] Hi. split; [apply htx_wf_write_head; assumption|].
  unfold table_end, write_head in *. cbn [hend nb].
  assert (i / 8 <= nb h / 8) by (apply N.div_le_mono; lia). lia.
Qed.

Lemma hwfe_count_up h : hwfe h -> hwfe (count_up h).
Proof. intros H. exact H. Qed.

Lemma hwfe_count_down h : hwfe h -> hwfe (count_down h).
Proof. intros H. exact H. Qed.

Lemma bucket_lt s k : 1 <= nb (hx s) -> bucket s k < nb (hx s).
Proof. intros Hn. unfold bucket, bucket_of. apply N.mod_lt. lia. Qed.

(** "well-formed with the same number of buckets" *)
Definition wfe_same (h h' : htx) : Prop := hwfe h' /\ nb h' = nb h.

Lemma wfe_same_write_head h i off : hwfe h -> i < nb h -> wfe_same h (write_head h i off).
Proof. intros Hw Hi. split; [now apply hwfe_write_head | apply write_head_nb]. Qed.

Lemma hwfe_relink fuel s b prev newoff s' :
  relink fuel s b prev newoff = Ok s' -> hwfe (hx s) -> b < nb (hx s) ->
  hwfe (hx s') /\ nb (hx s') = nb (hx s).
Proof.
  revert s prev newoff. induction fuel as [|f IH]; intros s prev newoff Hr Hw Hb; [discriminate|].
  cbn [relink] in Hr. destruct (prev =? 0) eqn:Ep.
  - injection Hr as <-. cbn [set_hx hx]. now apply wfe_same_write_head.
  - destruct (read_krec s prev) as [r| | |] eqn:Er; cbn [rbind] in Hr; try discriminate.
    destruct (write_piece key_cfg _ (keyf s) (Some prev) _) as [[[kf poff] x]| | |] eqn:Ew;
      cbn [rbind] in Hr; try discriminate.
    destruct (poff =? prev) eqn:Eq.
    + injection Hr as <-. cbn [set_keyf hx]. split; [exact Hw | reflexivity].
    + destruct (find_prev _ _ prev 0 _) as [pp| | |] eqn:Ef; cbn [rbind] in Hr; try discriminate.
      apply IH in Hr; cbn [set_keyf hx] in *; assumption.
Qed.

Lemma hwfe_put_same s k v s' : 1 <= nb (hx s) -> hwfe (hx s) -> put s k v = Ok s' ->
  hwfe (hx s') /\ nb (hx s') = nb (hx s).
Proof.
  intros Hn Hw Hp. unfold put in Hp.
  pose proof (bucket_lt (touch s) k Hn) as Hbk.
  destruct (find (touch s) k) as [o| | |] eqn:Ef; cbn [rbind] in Hp; try discriminate.
  destruct o as [[koff prev]|].
  - destruct (read_krec (touch s) koff) as [r| | |] eqn:Er; cbn [rbind] in Hp; try discriminate.
    destruct (read_val (touch s) (k_voff r)) as [v0| | |] eqn:Ev; cbn [rbind] in Hp; try discriminate.
    destruct (write_piece val_cfg _ (valf (touch s)) _ v) as [[[vf voff] x]| | |] eqn:Ew;
      cbn [rbind] in Hp; try discriminate.
    destruct (voff =? k_voff r) eqn:E1.
    + injection Hp as <-. cbn [set_valf touch hx]. split; [exact Hw | reflexivity].
    + destruct (write_piece key_cfg _ _ (Some koff) _) as [[[kf koff'] y]| | |] eqn:Ew2;
        cbn [rbind] in Hp; try discriminate.
      destruct (koff' =? koff) eqn:E2.
      * injection Hp as <-. cbn [set_keyf set_valf touch hx]. split; [exact Hw | reflexivity].
      * apply hwfe_relink in Hp; cbn [set_keyf set_valf touch hx] in *; assumption.
  - destruct (write_piece val_cfg _ (valf (touch s)) None v) as [[[vf voff] x]| | |] eqn:Ew;
      cbn [rbind] in Hp; try discriminate.
    destruct (write_piece key_cfg _ (keyf (touch s)) None _) as [[[kf koff] y]| | |] eqn:Ew2;
      cbn [rbind] in Hp; try discriminate.
    injection Hp as <-. cbn [hx touch] in *.
    split.
    + apply hwfe_count_up. now apply hwfe_write_head.
    + cbn [count_up nb]. apply write_head_nb.
Qed.

Theorem hwfe_put s k v s' : 1 <= nb (hx s) -> hwfe (hx s) -> put s k v = Ok s' -> hwfe (hx s').
Proof. intros Hn Hw Hp. exact (proj1 (hwfe_put_same s k v s' Hn Hw Hp)). Qed.

Lemma hwfe_del_same s k s' r : 1 <= nb (hx s) -> hwfe (hx s) -> del s k = Ok (s', r) ->
  hwfe (hx s') /\ nb (hx s') = nb (hx s).
Proof.
  intros Hn Hw Hd. unfold del in Hd.
  pose proof (bucket_lt (touch s) k Hn) as Hbk.
  destruct (find (touch s) k) as [o| | |] eqn:Ef; cbn [rbind] in Hd; try discriminate.
  destruct o as [[koff prev]|].
  2:{ injection Hd as <- <-. cbn [touch hx]. split; [exact Hw | reflexivity]. }
  destruct (read_krec (touch s) koff) as [rk| | |] eqn:Er; cbn [rbind] in Hd; try discriminate.
  destruct (read_val (touch s) (k_voff rk)) as [v0| | |] eqn:Ev; cbn [rbind] in Hd; try discriminate.
  match type of Hd with rbind ?M _ = _ => destruct M as [s1| | |] eqn:E1 end;
    cbn [rbind] in Hd; try discriminate.
  assert (H1 : hwfe (hx s1) /\ nb (hx s1) = nb (hx s)).
  { clear Hd. destruct (prev =? 0) eqn:Ep.
    - injection E1 as <-. cbn [set_hx touch hx] in *. now apply wfe_same_write_head.
    - destruct (read_krec (touch s) prev) as [pr| | |] eqn:Er2; cbn [rbind] in E1; try discriminate.
      destruct (write_piece key_cfg _ (keyf (touch s)) (Some prev) _) as [[[kf poff] x]| | |] eqn:Ew;
        cbn [rbind] in E1; try discriminate.
      destruct (poff =? prev) eqn:Eq.
      + injection E1 as <-. cbn [set_keyf touch hx]. split; [exact Hw | reflexivity].
      + destruct (find_prev _ _ prev 0 _) as [pp| | |] eqn:Efp; cbn [rbind] in E1; try discriminate.
        apply hwfe_relink in E1; cbn [set_keyf touch hx] in *; assumption. }
  destruct (delete_piece val_cfg (valf s1) (k_voff rk)) as [vf| | |] eqn:Ed1; cbn [rbind] in Hd; try discriminate.
  destruct (delete_piece key_cfg (keyf s1) koff) as [kf| | |] eqn:Ed2; cbn [rbind] in Hd; try discriminate.
  injection Hd as <- <-. cbn [hx]. destruct H1 as [H1 H2].
  split; [now apply hwfe_count_down | exact H2].
Qed.

Theorem hwfe_del s k s' r : 1 <= nb (hx s) -> hwfe (hx s) -> del s k = Ok (s', r) -> hwfe (hx s').
Proof. intros Hn Hw Hd. exact (proj1 (hwfe_del_same s k s' r Hn Hw Hd)). Qed.

Lemma hwfe_step s o s' out : 1 <= nb (hx s) -> hwfe (hx s) -> store_step s o = Ok (s', out) ->
  hwfe (hx s') /\ nb (hx s') = nb (hx s).
Proof.
  intros Hn Hw Hs. destruct o as [k v | k | k | k | |]; cbn [store_step] in Hs.
  - destruct (put s k v) as [s1| | |] eqn:E; cbn [rbind] in Hs; try discriminate.
    injection Hs as <- <-. exact (hwfe_put_same s k v s1 Hn Hw E).
  - destruct (get s k) as [r| | |] eqn:E; cbn [rbind] in Hs; try discriminate.
    injection Hs as <- <-. split; [exact Hw | reflexivity].
  - destruct (del s k) as [[s1 r]| | |] eqn:E; cbn [rbind] in Hs; try discriminate.
    injection Hs as <- <-. exact (hwfe_del_same s k s1 r Hn Hw E).
  - destruct (has s k) as [r| | |] eqn:E; cbn [rbind] in Hs; try discriminate.
    injection Hs as <- <-. split; [exact Hw | reflexivity].
  - injection Hs as <- <-. split; [exact Hw | reflexivity].
  - injection Hs as <- <-. split; [exact Hw | reflexivity].
Qed.

Theorem hwfe_run s ops s' outs : 1 <= nb (hx s) -> hwfe (hx s) -> store_run s ops = Ok (s', outs) ->
  hwfe (hx s') /\ nb (hx s') = nb (hx s).
Proof.
  revert s outs. induction ops as [|o ops IH]; intros s outs Hn Hw Hr; cbn [store_run] in Hr.
  - injection Hr as <- <-. split; [exact Hw | reflexivity].
  - destruct (store_step s o) as [[s1 r]| | |] eqn:E1; cbn [rbind] in Hr; try discriminate.
    destruct (store_run s1 ops) as [[s2 rs]| | |] eqn:E2; cbn [rbind] in Hr; try discriminate.
    injection Hr as <- <-.
    destruct (hwfe_step s o s1 r Hn Hw E1) as [Hw1 Hn1].
    destruct (IH s1 rs) as [Hw2 Hn2]; [rewrite Hn1; exact Hn | exact Hw1 | exact E2 |].
    split; [exact Hw2 | rewrite Hn2; exact Hn1].
Qed.

Corollary hwfe_reachable t n ops s' outs : 1 <= n -> store_run (create t n) ops = Ok (s', outs) -> hwfe (hx s').
Proof.
  intros Hn Hr.
  apply (hwfe_run (create t n) ops s' outs) in Hr; [exact (proj1 Hr) | exact Hn |].
  cbn [create hx]. now apply hwfe_create.
Qed.


Theorem hend_reachable t n ops s' outs : 1 <= n -> store_run (create t n) ops = Ok (s', outs) ->
  table_end (nb (hx s')) <= hend (hx s') <= table_end (nb (hx s')) + 1.
Proof.
  intros Hn Hr. destruct (hwfe_reachable t n ops s' outs Hn Hr) as [(_ & H & _) He]. unfold table_end in *. lia.
Qed.

Import Io.

(** ** PART 1. the strengthened step *)

(** how far beyond the end of file [f] a read of a read-only operation may end *)
Definition slack (f : fid) : N := match f with FHtx => 7 | _ => 0 end.

Definition ev_quiet (s : st) (e : ev) : Prop :=
  match e with
  | EvRead f p n => p + n <= fend (get_file s f) + slack f
  | EvSeek f t => t <= fend (get_file s f)
  | _ => False
  end.

Definition ro_step (s s' : st) : Prop :=
  (forall f, fb (get_file s' f) = fb (get_file s f) /\ fcs (get_file s' f) = fcs (get_file s f)) /\
  exists evs, appended s s' evs /\ Forall (ev_quiet s) evs.

Lemma ev_quiet_weaken s e : ev_quiet s e -> Io_htx.ev_quiet s e.
Proof. destruct e; cbn; auto. Qed.

(** it is a strengthening *)
Lemma ro_step_weaken s s' : ro_step s s' -> Io_htx.ro_step s s'.
Proof.
  intros [H (evs & A & F)]. split; [exact H|]. exists evs. split; [exact A|].
  eapply Forall_impl; [exact F|]. apply ev_quiet_weaken.
Qed.

Lemma ev_quiet_ext s s' e : (forall f, fb (get_file s' f) = fb (get_file s f)) -> ev_quiet s e -> ev_quiet s' e.
Proof. intros H. destruct e; cbn; auto; unfold fend; rewrite H; auto. Qed.

Lemma ro_step_refl s : ro_step s s.
Proof. split; [auto|]. exists []. split; [apply appended_refl|constructor]. Qed.

Lemma ro_step_trans s1 s2 s3 : ro_step s1 s2 -> ro_step s2 s3 -> ro_step s1 s3.
Proof.
  intros [H1 (e1 & A1 & Q1)] [H2 (e2 & A2 & Q2)]. split.
  - intros f. destruct (H1 f) as [a b], (H2 f) as [c d]. split; congruence.
  - exists (e2 ++ e1). split; [eapply appended_trans; eassumption|].
    apply Forall_app. split; [|exact Q1].
    eapply Forall_impl; [exact Q2|]. intros e He. eapply ev_quiet_ext; [|exact He].
    intros f. symmetry. apply H1.
Qed.

Lemma ro_step_seek f t s : t <= fend (get_file s f) -> ro_step s (seek_to f t s).
Proof.
  intros Hle. destruct (seek_to_inside f t s Hle) as [Hf Ho]. destruct (seek_to_spec f t s) as [_ Ha].
  split.
  - intros g. destruct (fid_eq_dec g f) as [->|Hg].
    + rewrite Hf. auto.
    + rewrite Ho by exact Hg. auto.
  - exists [EvSeek f t]. split; [exact Ha|]. constructor; [exact Hle|constructor].
Qed.

(** tight: one read, ending at most [slack f] bytes beyond the end *)
Lemma ro_step_read f s s' p n :
  upd_file s s' f (fb (get_file s f)) p -> appended s s' [EvRead f (fp (get_file s f)) n] ->
  fp (get_file s f) + n <= fend (get_file s f) + slack f -> ro_step s s'.
Proof.
  intros [Hf Ho] Ha Hb. split.
  - intros g. destruct (fid_eq_dec g f) as [->|Hg].
    + rewrite Hf. auto.
    + rewrite Ho by exact Hg. auto.
  - eexists. split; [exact Ha|]. constructor; [exact Hb|constructor].
Qed.

Lemma view_room s f (d rest : bytes) : view s f = d ++ rest -> d <> [] ->
  fp (get_file s f) + blen d <= fend (get_file s f).
Proof.
  intros Hv Hd. apply (f_equal blen) in Hv. unfold view in Hv. rewrite blen_at_off, blen_app in Hv.
  assert (0 < blen d) by (destruct d; [congruence|rewrite blen_cons; lia]). unfold fend. lia.
Qed.

(** tight: a read of the 8 bytes the view begins with *)
Lemma ro_step_read8 f s s' p v (rest : bytes) :
  upd_file s s' f (fb (get_file s f)) p -> appended s s' [EvRead f (fp (get_file s f)) 8] ->
  view s f = le_bytes 8 v ++ rest -> ro_step s s'.
Proof.
  intros Hu Ha Hv. apply (ro_step_read f s s' p 8 Hu Ha).
  pose proof (view_room s f _ _ Hv ltac:(discriminate)) as Hb. rewrite blen_le_bytes in Hb.
  change (N.of_nat 8) with 8 in Hb. lia.
Qed.

(** ** PART 2. the proofs of Io_htx.v / Io_reads.v / Io_reads2.v, replayed *)

(** *** Io_htx.v, section [image] *)
Section image.
Context (sig2 : bytes) (h : htx).
Hypothesis Hsig : length sig2 = 8%nat.
Hypothesis Hwf : htx_wf h.
Hypothesis Hheads : forall i, head_at h i < 2 ^ 64.
Hypothesis Hnb : nb h < 2 ^ 64.
Hypothesis Hcnt : count h < 2 ^ 64.

Let img := render_htx sig2 h.

Lemma img_blen : blen img = hend h.
Proof. apply render_htx_blen; [exact Hsig|]. destruct Hwf as (_ & H & _). lia. Qed.

Lemma hend_ge : htx_header_size + 8 * nb h + nb h / 8 <= hend h.
Proof. destruct Hwf as (_ & H & _). exact H. Qed.

(** the state holds the image in its table file *)
Definition holds (s : st) : Prop := fb (s_htx s) = img.

Lemma holds_ro s s' : holds s -> ro_step s s' -> holds s'.
Proof. unfold holds. intros H [Hb _]. destruct (Hb FHtx) as [E _]. cbn in E. congruence. Qed.

Lemma holds_fend s : holds s -> fend (get_file s FHtx) = hend h.
Proof. unfold holds, fend. cbn. intros ->. apply img_blen. Qed.

(** [read_key_piece_offset] returns the bucket head *)
Theorem read_key_piece_offset_render s i : holds s -> i < nb h ->
  exists s', read_key_piece_offset i s = Ok (head_at h i, s') /\ ro_step s s'.
Proof.
  intros Hh Hi. unfold read_key_piece_offset, seek_from_start. cbn [rbind].
  assert (Hin : htx_header_size + 8 * i <= fend (get_file s FHtx)).
  { rewrite (holds_fend s Hh). pose proof hend_ge. lia. }
  pose proof (view_seek_inside FHtx _ s Hin) as Hv. cbn [get_file] in Hv. rewrite Hh in Hv.
  unfold img in Hv. rewrite render_htx_split in Hv by exact Hsig.
  pose proof (hdr_blen sig2 h Hsig) as Hhb.
  match type of Hhb with blen ?x = _ => set (hd := x) in * end.
  rewrite <- Hhb in Hv. rewrite (heads_at (head_at h)) in Hv by lia. rewrite Hhb in Hv.
  destruct (read_u64_view FHtx _ _ _ (Hheads i) Hv) as (s' & Hr & Hf & Ho & _ & Ha).
  exists s'. split; [exact Hr|].
  eapply ro_step_trans; [apply ro_step_seek; exact Hin|].
  (* tight: *) exact (ro_step_read8 FHtx _ _ _ _ _ (conj Hf Ho) Ha Hv).
Qed.

(** [read_item_count] / [read_hash_buckets_size] return the header fields *)
Lemma view_header_field s off (pre : bytes) v rest :
  holds s -> img = pre ++ le_bytes 8 v ++ rest -> blen pre = off -> v < 2 ^ 64 ->
  exists s', (let* (_, a) := seek_from_start FHtx off s in read_u64 FHtx a) = Ok (v, s') /\ ro_step s s'.
Proof.
  intros Hh Himg Hpre Hv. unfold seek_from_start. cbn [rbind].
  assert (Hin : off <= fend (get_file s FHtx)).
  { unfold fend. cbn [get_file]. rewrite Hh, Himg, blen_app. lia. }
  pose proof (view_seek_inside FHtx _ s Hin) as Hview. cbn [get_file] in Hview.
  rewrite Hh, Himg, (at_off_app' _ _ _ Hpre) in Hview.
  destruct (read_u64_view FHtx _ _ _ Hv Hview) as (s' & Hr & Hf & Ho & _ & Ha).
  exists s'. split; [exact Hr|].
  eapply ro_step_trans; [apply ro_step_seek; exact Hin|].
  (* tight: *) exact (ro_step_read8 FHtx _ _ _ _ _ (conj Hf Ho) Ha Hview).
Qed.

Theorem read_hash_buckets_size_render s : holds s ->
  exists s', read_hash_buckets_size s = Ok (nb h, s') /\ ro_step s s'.
Proof.
  intros Hh. unfold read_hash_buckets_size.
  apply (view_header_field s htx_size_offset (htx_signature ++ sig2) (nb h)
           (le_bytes 8 (count h) ++ zeros (htx_header_size - 32) ++
            concat (map (fun i => le_bytes 8 (head_at h i)) (seqN' 0 (N.to_nat (nb h)))) ++
            map (bitmap_byte h) (seqN' 0 (N.to_nat (hend h - (htx_header_size + 8 * nb h)))))); try assumption.
  - unfold img, render_htx. rewrite <- !app_assoc. reflexivity.
  - unfold blen. rewrite app_length, Hsig. reflexivity.
Qed.

Theorem read_item_count_render s : holds s ->
  exists s', read_item_count s = Ok (count h, s') /\ ro_step s s'.
Proof.
  intros Hh. unfold read_item_count.
  apply (view_header_field s htx_count_offset (htx_signature ++ sig2 ++ le_bytes 8 (nb h)) (count h)
           (zeros (htx_header_size - 32) ++
            concat (map (fun i => le_bytes 8 (head_at h i)) (seqN' 0 (N.to_nat (nb h)))) ++
            map (bitmap_byte h) (seqN' 0 (N.to_nat (hend h - (htx_header_size + 8 * nb h)))))); try assumption.
  - unfold img, render_htx. rewrite <- !app_assoc. reflexivity.
  - unfold blen. rewrite !app_length, le_bytes_length, Hsig. reflexivity.
Qed.

(** ** the bitmap bytes of the image; bytes beyond the end read as zero, and no bit is set there *)
Let base := htx_header_size + 8 * nb h.

Lemma bitmap_byte_zero j : bitmap_byte h j = 0 <-> forall t, t < 8 -> 8 * j + t ∉ bitmap h.
Proof.
  split.
  - intros Hz t Ht Hin. pose proof (testbit_bitmap_byte h j t Ht) as Hb. rewrite Hz, N.bits_0 in Hb.
    symmetry in Hb. apply bool_decide_eq_false in Hb. contradiction.
  - intros Hn. apply byte_ext; [apply bitmap_byte_lt|lia|]. intros t Ht.
    rewrite testbit_bitmap_byte by exact Ht. rewrite N.bits_0. apply bool_decide_eq_false. apply Hn. exact Ht.
Qed.

Lemma getb_img_bm j : getb img (base + j) = bitmap_byte h j.
Proof.
  destruct (N.lt_ge_cases (base + j) (hend h)) as [Hlt|Hge].
  - rewrite getb_nth. unfold img, base. apply render_htx_bm_byte; [exact Hsig|exact Hlt].
  - rewrite getb_ge by (rewrite img_blen; exact Hge). symmetry. apply bitmap_byte_zero.
    intros t Ht Hin. destruct Hwf as (_ & _ & H3). specialize (H3 _ Hin).
    replace ((8 * j + t) / 8) with j in H3; [unfold base in Hge; lia|].
    apply (N.div_unique _ 8 j t); [exact Ht|reflexivity].
Qed.

Lemma bm_any_false_iff idx len :
  bm_any h idx len = false <-> forall b, idx <= b < idx + N.of_nat len -> b ∉ bitmap h.
Proof.
  split; [apply bm_any_false|]. intros Hn. destruct (bm_any h idx len) eqn:E; [|reflexivity].
  apply bm_any_spec in E as (b & Hb & Hin). exfalso. exact (Hn b Hb Hin).
Qed.

(** what a read of [k] bitmap bytes at the byte of bucket [idx] (a multiple of 8) sees *)
Lemma bm_read_zero (k : nat) idx : idx mod 8 = 0 ->
  (le_decode (map (fun q => getb img (base + idx / 8 + q)) (seqN' 0 k)) =? 0) = negb (bm_any h idx (8 * k)).
Proof.
  intros Hm.
  assert (Hidx : idx = 8 * (idx / 8)) by (pose proof (N.div_mod idx 8); lia).
  destruct (bm_any h idx (8 * k)) eqn:E; cbn [negb].
  - apply N.eqb_neq. intros Hz. apply le_decode_zero in Hz.
    apply bm_any_spec in E as (b & Hb & Hin).
    rewrite List.Forall_forall in Hz.
    set (q := b / 8 - idx / 8).
    assert (Hq : q < N.of_nat k).
    { subst q. assert (b / 8 < idx / 8 + N.of_nat k); [|lia].
      apply N.div_lt_upper_bound; lia. }
    assert (Hz' : getb img (base + idx / 8 + q) = 0).
    { apply Hz. apply in_map_iff. exists q. split; [reflexivity|]. apply in_seqN'. lia. }
    rewrite <- N.add_assoc, getb_img_bm in Hz'.
    apply bitmap_byte_zero with (t := b mod 8) in Hz'; [|apply N.mod_lt; lia].
    apply Hz'. replace (8 * (idx / 8 + q) + b mod 8) with b; [exact Hin|].
    subst q. pose proof (N.div_mod b 8). assert (idx / 8 <= b / 8) by (apply N.div_le_mono; lia). lia.
  - apply N.eqb_eq. apply le_decode_zero. apply List.Forall_forall. intros x Hx.
    apply in_map_iff in Hx as (q & <- & Hq). apply in_seqN' in Hq.
    rewrite <- N.add_assoc, getb_img_bm. apply bitmap_byte_zero. intros t Ht.
    rewrite bm_any_false_iff in E. apply E. lia.
Qed.

(** the position of the table file *)
Definition hpos (s : st) : N := fp (get_file s FHtx).

(** *** the [u64] stride *)
Lemma scan64_refines fuel : forall idx s i1,
  holds s -> idx mod 8 = 0 -> hpos s = base + idx / 8 ->
  stage64 fuel h (nb h) idx = Ok i1 ->
  exists s', scan64 fuel (nb h) idx s = Ok (i1, s') /\ ro_step s s' /\ hpos s' = base + i1 / 8 /\
    i1 mod 8 = 0 /\ (i1 = idx \/ (idx + 64 <= i1 /\ i1 - 64 + 8 < nb h)).
Proof.
  induction fuel as [|fu IH]; intros idx s i1 Hh Hm Hp Hs; [discriminate|].
  cbn [stage64] in Hs. cbn [scan64].
  destruct (idx + 8 <? nb h) eqn:E.
  - apply N.ltb_lt in E.
    destruct (read_le_spec FHtx 8 s) as (s1 & Hr & Hu & Ha). rewrite Hr. cbn [rbind].
    change (N.to_nat 8) with 8%nat. unfold hpos in Hp. cbn [get_file] in *. rewrite Hh, Hp.
    rewrite (bm_read_zero 8 idx Hm). change (8 * 8)%nat with 64%nat.
    assert (Hro : ro_step s s1).
    { (* tight: the stride ends at most 6 bytes beyond the end *)
      apply (ro_step_read FHtx s s1 _ 8 Hu Ha). unfold slack, fend. cbn [get_file]. rewrite Hh, Hp, img_blen.
      pose proof hend_ge as Hge. assert (Hd : (idx + 1 * 8) / 8 <= nb h / 8) by (apply N.div_le_mono; lia).
      rewrite N.div_add in Hd by lia. unfold base. lia. }
    assert (Hp1 : hpos s1 = base + (idx + 64) / 8).
    { unfold hpos. destruct Hu as [Hu _]. cbn [get_file] in Hu |- *. rewrite Hu. cbn [fp]. rewrite Hp.
      replace (idx + 64) with (idx + 8 * 8) by lia. rewrite N.div_add by lia. lia. }
    assert (Hm1 : (idx + 64) mod 8 = 0).
    { replace (idx + 64) with (idx + 8 * 8) by lia. rewrite N.mod_add by lia. exact Hm. }
    destruct (bm_any h idx 64) eqn:B; cbn [negb].
    + injection Hs as <-. exists s1. split; [reflexivity|]. split; [exact Hro|]. split; [exact Hp1|].
      split; [exact Hm1|]. right. lia.
    + destruct (IH (idx + 64) s1 i1 (holds_ro _ _ Hh Hro) Hm1 Hp1 Hs) as (s' & Hsc & Hro' & Hp' & Hm' & Hb).
      exists s'. split; [exact Hsc|]. split; [eapply ro_step_trans; eassumption|]. split; [exact Hp'|].
      split; [exact Hm'|]. right. lia.
  - injection Hs as <-. exists s. split; [reflexivity|]. split; [apply ro_step_refl|]. split; [exact Hp|].
    split; [exact Hm|]. left. reflexivity.
Qed.

(** *** the byte stride *)
Lemma scan8_refines fuel : forall idx s i3,
  holds s -> idx mod 8 = 0 -> hpos s = base + idx / 8 ->
  stage8 fuel h (nb h) idx = Ok i3 ->
  exists s', scan8 fuel (nb h) idx s = Ok (i3, s') /\ ro_step s s' /\
    (idx < nb h -> 8 <= i3 /\ i3 - 8 < nb h).
Proof.
  induction fuel as [|fu IH]; intros idx s i3 Hh Hm Hp Hs; [discriminate|].
  cbn [stage8] in Hs. cbn [scan8].
  destruct (idx <? nb h) eqn:E.
  - apply N.ltb_lt in E.
    destruct (read_le_spec FHtx 1 s) as (s1 & Hr & Hu & Ha). rewrite Hr. cbn [rbind].
    change (N.to_nat 1) with 1%nat. unfold hpos in Hp. cbn [get_file] in *. rewrite Hh, Hp.
    rewrite (bm_read_zero 1 idx Hm). change (8 * 1)%nat with 8%nat.
    assert (Hro : ro_step s s1).
    { (* tight: with fewer than 8 buckets the bitmap byte read lies at the end of the file *)
      apply (ro_step_read FHtx s s1 _ 1 Hu Ha). unfold slack, fend. cbn [get_file]. rewrite Hh, Hp, img_blen.
      pose proof hend_ge as Hge. assert (Hd : idx / 8 <= nb h / 8) by (apply N.div_le_mono; lia).
      unfold base. lia. }
    assert (Hp1 : hpos s1 = base + (idx + 8) / 8).
    { unfold hpos. destruct Hu as [Hu _]. cbn [get_file] in Hu |- *. rewrite Hu. cbn [fp]. rewrite Hp.
      replace (idx + 8) with (idx + 1 * 8) by lia. rewrite N.div_add by lia. lia. }
    assert (Hm1 : (idx + 8) mod 8 = 0).
    { replace (idx + 8) with (idx + 1 * 8) by lia. rewrite N.mod_add by lia. exact Hm. }
    destruct (bm_any h idx 8) eqn:B; cbn [negb].
    + injection Hs as <-. exists s1. split; [reflexivity|]. split; [exact Hro|]. intros _. lia.
    + destruct (IH (idx + 8) s1 i3 (holds_ro _ _ Hh Hro) Hm1 Hp1 Hs) as (s' & Hsc & Hro' & Hb).
      exists s'. split; [exact Hsc|]. split; [eapply ro_step_trans; eassumption|]. intros _.
      destruct (N.lt_ge_cases (idx + 8) (nb h)) as [Hlt|Hge]; [specialize (Hb Hlt); lia|].
      (* the loop stops at once: i3 = idx + 8 *)
      destruct fu as [|fu']; [discriminate|]. cbn [stage8] in Hs.
      destruct (N.ltb_spec (idx + 8) (nb h)); [lia|]. injection Hs as <-. lia.
  - injection Hs as <-. exists s. split; [reflexivity|]. split; [apply ro_step_refl|]. apply N.ltb_ge in E. lia.
Qed.

(** the view of the bucket array *)
Lemma view_head s i : holds s -> hpos s = htx_header_size + 8 * i -> i < nb h ->
  exists rest, view s FHtx = le_bytes 8 (head_at h i) ++ rest.
Proof.
  intros Hh Hp Hi. unfold view. cbn [get_file]. unfold hpos in Hp. cbn [get_file] in Hp. rewrite Hh, Hp.
  unfold img. rewrite render_htx_split by exact Hsig.
  pose proof (hdr_blen sig2 h Hsig) as Hhb.
  match type of Hhb with blen ?x = _ => set (hd := x) in * end.
  rewrite <- Hhb. rewrite (heads_at (head_at h)) by lia. eexists. reflexivity.
Qed.

(** *** the bucket stride *)
Lemma scan1_refines fuel : forall idx s j off,
  holds s -> hpos s = htx_header_size + 8 * idx ->
  stage1 fuel h (nb h) idx = Ok (j, off) ->
  exists s', scan1 fuel (nb h) idx s = Ok (j, off, s') /\ ro_step s s'.
Proof.
  induction fuel as [|fu IH]; intros idx s j off Hh Hp Hs; [discriminate|].
  cbn [stage1] in Hs. cbn [scan1].
  destruct (idx <? nb h) eqn:E.
  - apply N.ltb_lt in E. cbv zeta in Hs.
    destruct (view_head s idx Hh Hp E) as [rest Hv].
    destruct (read_u64_view FHtx s _ _ (Hheads idx) Hv) as (s1 & Hr & Hf & Ho & _ & Ha).
    rewrite Hr. cbn [rbind].
    assert (Hro : ro_step s s1).
    { (* tight: *) exact (ro_step_read8 FHtx _ _ _ _ _ (conj Hf Ho) Ha Hv). }
    destruct (head_at h idx =? 0) eqn:Z.
    + assert (Hp1 : hpos s1 = htx_header_size + 8 * (idx + 1)).
      { unfold hpos in *. rewrite Hf. cbn [fp]. lia. }
      destruct (IH (idx + 1) s1 j off (holds_ro _ _ Hh Hro) Hp1 Hs) as (s' & Hsc & Hro').
      exists s'. split; [exact Hsc|]. eapply ro_step_trans; eassumption.
    + injection Hs as <- <-. exists s1. split; [reflexivity|exact Hro].
  - injection Hs as <- <-. exists s. split; [reflexivity|apply ro_step_refl].
Qed.

Lemma hdr_ge8 : 8 <= htx_header_size.
Proof. apply N.leb_le. reflexivity. Qed.

Lemma seek_htx s t : holds s -> t <= hend h ->
  ro_step s (seek_to FHtx t s) /\ holds (seek_to FHtx t s) /\ hpos (seek_to FHtx t s) = t.
Proof.
  intros Hh Ht. assert (Hin : t <= fend (get_file s FHtx)) by (rewrite (holds_fend s Hh); exact Ht).
  pose proof (ro_step_seek FHtx t s Hin) as Hro. split; [exact Hro|]. split; [exact (holds_ro _ _ Hh Hro)|].
  unfold hpos. destruct (seek_to_inside FHtx t s Hin) as [Hf _]. rewrite Hf. reflexivity.
Qed.

(** THE SCAN: on the image of a well-formed table the byte-level [next_key_piece_offset] returns
    what [Htx.next_nonempty] returns; it changes no byte, emits no write event and never seeks
    beyond the end of the file ([ro_step]). *)
Theorem next_key_piece_offset_refines s idx j off :
  holds s -> idx < nb h ->
  next_nonempty h (nb h) idx = Ok (j, off) ->
  exists s', next_key_piece_offset (nb h) idx s = Ok (j, off, s') /\ ro_step s s'.
Proof.
  intros Hh Hidx Hn. unfold next_nonempty in Hn. unfold next_key_piece_offset.
  pose proof hend_ge as Hend. pose proof hdr_ge8 as Hh8.
  set (fuel := S (N.to_nat (nb h))) in *.
  (* the index the bucket stride starts from *)
  assert (Hpre : forall idx', 
     (if htx_bitmap then
        if idx mod 8 =? 0 then
          let* i1 := stage64 fuel h (nb h) idx in
          let i2 := if idx <? i1 then i1 - 64 else i1 in
          let* i3 := stage8 fuel h (nb h) i2 in
          if i3 <? 8 then Panic Overflow else Ok (i3 - 8)
        else Ok idx
      else Ok idx) = Ok idx' ->
     exists s', 
       (if htx_bitmap then
          if idx mod 8 =? 0 then
            let* (_, s1) := seek_from_start FHtx (htx_header_size + nb h * 8 + idx / 8) s in
            let* (i1, s2) := scan64 fuel (nb h) idx s1 in
            let* (i2, s3) := (if idx <? i1 then let* (_, a) := seek_cur FHtx true 8 s2 in Ok (i1 - 64, a)
                              else Ok (i1, s2)) in
            let* (i3, s4) := scan8 fuel (nb h) i2 s3 in
            if i3 <? 8 then Panic Overflow else Ok (i3 - 8, s4)
          else Ok (idx, s)
        else Ok (idx, s)) = Ok (idx', s') /\ ro_step s s' /\ holds s' /\ idx' < nb h).
  { intros idx' Hpre.
    destruct htx_bitmap; [|injection Hpre as <-; exists s; split; [reflexivity|]; split; [apply ro_step_refl|]; split; assumption].
    destruct (idx mod 8 =? 0) eqn:M; [|injection Hpre as <-; exists s; split; [reflexivity|]; split; [apply ro_step_refl|]; split; assumption].
    apply N.eqb_eq in M.
    destruct (stage64 fuel h (nb h) idx) as [i1| | |] eqn:S64; cbn [rbind] in Hpre; try discriminate.
    cbv zeta in Hpre.
    destruct (stage8 fuel h (nb h) (if idx <? i1 then i1 - 64 else i1)) as [i3| | |] eqn:S8; cbn [rbind] in Hpre; try discriminate.
    unfold seek_from_start. cbn [rbind].
    replace (htx_header_size + nb h * 8 + idx / 8) with (base + idx / 8) by (unfold base; lia).
    assert (Hd : idx / 8 <= nb h / 8) by (apply N.div_le_mono; lia).
    destruct (seek_htx s (base + idx / 8) Hh) as (Hro1 & Hh1 & Hp1); [unfold base; lia|].
    set (s1 := seek_to FHtx (base + idx / 8) s) in *.
    destruct (scan64_refines fuel idx s1 i1 Hh1 M Hp1 S64) as (s2 & Hsc & Hro2 & Hp2 & Hm2 & Hb2).
    rewrite Hsc. cbn [rbind].
    pose proof (holds_ro _ _ Hh1 Hro2) as Hh2.
    (* the step back *)
    assert (Hback : exists s3, 
       (if idx <? i1 then let* (_, a) := seek_cur FHtx true 8 s2 in Ok (i1 - 64, a) else Ok (i1, s2))
         = Ok ((if idx <? i1 then i1 - 64 else i1), s3) /\ ro_step s2 s3 /\ holds s3 /\
       hpos s3 = base + (if idx <? i1 then i1 - 64 else i1) / 8 /\
       (if idx <? i1 then i1 - 64 else i1) mod 8 = 0 /\ (if idx <? i1 then i1 - 64 else i1) < nb h).
    { destruct (N.ltb_spec idx i1) as [Hlt|Hge].
      - destruct Hb2 as [->|[Hb2 Hb3]]; [lia|].
        assert (Hdiv : i1 / 8 = (i1 - 64) / 8 + 8).
        { replace i1 with ((i1 - 64) + 8 * 8) at 1 by lia. rewrite N.div_add by lia. reflexivity. }
        assert (Hmod : (i1 - 64) mod 8 = 0).
        { replace i1 with ((i1 - 64) + 8 * 8) in Hm2 by lia. rewrite N.mod_add in Hm2 by lia. exact Hm2. }
        unfold seek_cur. fold (hpos s2). rewrite Hp2.
        destruct (N.ltb_spec (base + i1 / 8) 8); [unfold base in *; lia|]. cbn [rbind].
        replace (base + i1 / 8 - 8) with (base + (i1 - 64) / 8) by lia.
        assert (Hd2 : (i1 - 64) / 8 <= nb h / 8) by (apply N.div_le_mono; lia).
        destruct (seek_htx s2 (base + (i1 - 64) / 8) Hh2) as (Hro3 & Hh3 & Hp3); [unfold base; lia|].
        eexists. split; [reflexivity|]. split; [exact Hro3|]. split; [exact Hh3|]. split; [exact Hp3|].
        split; [exact Hmod|lia].
      - destruct Hb2 as [->|[Hb2 Hb3]]; [|lia].
        exists s2. split; [reflexivity|]. split; [apply ro_step_refl|]. split; [exact Hh2|]. split; [exact Hp2|].
        split; [exact M|exact Hidx]. }
    destruct Hback as (s3 & Hbk & Hro3 & Hh3 & Hp3 & Hm3 & Hlt3).
    rewrite Hbk. cbn [rbind].
    destruct (scan8_refines fuel _ s3 i3 Hh3 Hm3 Hp3 S8) as (s4 & Hsc8 & Hro4 & Hb4).
    rewrite Hsc8. cbn [rbind]. specialize (Hb4 Hlt3).
    destruct (i3 <? 8); [discriminate|]. injection Hpre as <-.
    exists s4. split; [reflexivity|]. split.
    - eapply ro_step_trans; [exact Hro1|]. eapply ro_step_trans; [exact Hro2|].
      eapply ro_step_trans; [exact Hro3|exact Hro4].
    - split; [exact (holds_ro _ _ Hh3 Hro4)|lia]. }
  match type of Hn with (let* idx' := ?e in _) = _ => destruct e as [idx'| | |] eqn:Epre end;
    cbn [rbind] in Hn; try discriminate.
  destruct (Hpre idx' eq_refl) as (s' & Hgo & Hro & Hh' & Hlt').
  rewrite Hgo. cbn [rbind]. unfold seek_from_start. cbn [rbind].
  destruct (seek_htx s' (htx_header_size + 8 * idx') Hh') as (Hro5 & Hh5 & Hp5); [lia|].
  destruct (scan1_refines fuel idx' _ j off Hh5 Hp5 Hn) as (s6 & Hsc1 & Hro6).
  exists s6. split; [exact Hsc1|].
  eapply ro_step_trans; [exact Hro|]. eapply ro_step_trans; [exact Hro5|exact Hro6].
Qed.

(** ** every byte of the image *)
Let hdr := htx_signature ++ sig2 ++ le_bytes 8 (nb h) ++ le_bytes 8 (count h) ++ zeros (htx_header_size - 32).

Lemma getb_at_off (l : bytes) a b : getb (at_off l a) b = getb l (a + b).
Proof. unfold at_off. apply getb_drop. Qed.

Lemma getb_img_hdr x : x < htx_header_size -> getb img x = getb hdr x.
Proof.
  intros Hx. unfold img. rewrite render_htx_split by exact Hsig. fold hdr.
  rewrite getb_app. pose proof (hdr_blen sig2 h Hsig) as Hb. fold hdr in Hb. rewrite Hb.
  destruct (N.ltb_spec x htx_header_size); [reflexivity|lia].
Qed.

Lemma getb_img_head i r : i < nb h -> r < 8 ->
  getb img (htx_header_size + 8 * i + r) = getb (le_bytes 8 (head_at h i)) r.
Proof.
  intros Hi Hr. rewrite <- getb_at_off. unfold img. rewrite render_htx_split by exact Hsig.
  pose proof (hdr_blen sig2 h Hsig) as Hhb.
  match type of Hhb with blen ?x = _ => set (hd := x) in * end.
  rewrite <- Hhb. rewrite (heads_at (head_at h)) by lia.
  rewrite getb_app, blen_le_bytes. change (N.of_nat 8) with 8.
  destruct (N.ltb_spec r 8); [reflexivity|lia].
Qed.

Lemma getb_img_bm' x : base <= x -> getb img x = bitmap_byte h (x - base).
Proof. intros Hx. replace x with (base + (x - base)) at 1 by lia. apply getb_img_bm. Qed.

End image.

(** the scan is total on a consistent table: with [Htx_proofs.next_nonempty_spec] *)
Corollary next_key_piece_offset_total sig2 h s idx :
  length sig2 = 8%nat -> htx_wf h -> bitmap_ok h -> (forall i, head_at h i < 2 ^ 64) -> nb h < 2 ^ 64 -> count h < 2 ^ 64 ->
  holds sig2 h s -> idx < nb h ->
  exists j off s', next_nonempty h (nb h) idx = Ok (j, off) /\
    next_key_piece_offset (nb h) idx s = Ok (j, off, s') /\ ro_step s s'.
Proof.
  intros Hsig Hwf Hok Hheads Hnb Hc Hh Hidx.
  destruct (next_nonempty_spec h idx Hok ltac:(lia) Hidx) as (j & off & Hn & _).
  destruct (next_key_piece_offset_refines sig2 h Hsig Hwf Hheads Hnb Hc s idx j off Hh Hidx Hn) as (s' & Hgo & Hro).
  exists j, off, s'. auto.
Qed.

(** *** Io_reads.v, D2 - D3 *)
Lemma ro_step_fend s s' f : ro_step s s' -> fend (get_file s' f) = fend (get_file s f).
Proof. intros [H _]. unfold fend. destruct (H f) as [-> _]. reflexivity. Qed.

Lemma ro_step_fb s s' f : ro_step s s' -> fb (get_file s' f) = fb (get_file s f).
Proof. intros [H _]. apply H. Qed.

(** seek to an offset inside the file *)
Lemma rd_seek f off s : off <= fend (get_file s f) ->
  exists s', seek_from_start f off s = Ok (off, s') /\ ro_step s s' /\
    vw s' f (at_off (fb (get_file s f)) off) /\ fp (get_file s' f) = off.
Proof.
  intros Hin. exists (seek_to f off s). split; [reflexivity|]. split; [apply ro_step_seek; exact Hin|].
  destruct (seek_to_inside f off s Hin) as [Hf _]. split; [split|].
  - unfold fend. rewrite Hf. cbn [fb fp]. exact Hin.
  - apply view_seek_inside. exact Hin.
  - rewrite Hf. reflexivity.
Qed.

Lemma rd_n f s (d rest : bytes) : vw s f (d ++ rest) ->
  exists s', read_n f (blen d) s = Ok (d, s') /\ ro_step s s' /\ vw s' f rest /\
    fp (get_file s' f) = fp (get_file s f) + blen d.
Proof.
  intros Hvw. pose proof (vw_room _ _ _ _ Hvw) as Hroom. destruct Hvw as [Hp Hv].
  destruct (read_n_view f s d rest Hv) as (s' & Hr & Hf & Ho & Hv' & Ha).
  exists s'. split; [exact Hr|]. split; [|split; [split|]].
  - (* tight: *) apply (ro_step_read f s s' _ (blen d) (conj Hf Ho) Ha). unfold slack. destruct f; lia.
  - unfold fend. rewrite Hf. cbn [fb fp]. exact Hroom.
  - exact Hv'.
  - rewrite Hf. reflexivity.
Qed.

Lemma rd_byte f s b0 (rest : bytes) : vw s f (b0 :: rest) ->
  exists s', read_le f 1 s = Ok (b0, s') /\ ro_step s s' /\ vw s' f rest /\
    fp (get_file s' f) = fp (get_file s f) + 1.
Proof.
  intros Hvw. destruct (rd_n f s [b0] rest Hvw) as (s' & Hr & H).
  change (blen [b0]) with 1 in *. exists s'. unfold read_le. rewrite Hr. cbn [rbind le_decode].
  rewrite N.mul_0_r, N.add_0_r. split; [reflexivity|exact H].
Qed.

Lemma rd_vu64 f s v (rest : bytes) : v < 2 ^ 64 -> vw s f (encode v ++ rest) ->
  exists s', read_vu64 f s = Ok (v, s') /\ ro_step s s' /\ vw s' f rest /\
    fp (get_file s' f) = fp (get_file s f) + enc_len v.
Proof.
  (* tight: the first byte, then the follow bytes, each inside the file; the value is the one
     [Io_base.read_vu64_view] computes *)
  intros Hv Hvw. pose proof Hvw as [Hp Hview].
  destruct (read_vu64_view f s v rest Hv Hview) as (s' & evs & Hr & _).
  destruct (encode_first v Hv) as (b0 & r & He & Hd & Hbr).
  rewrite He in Hvw. cbn [app] in Hvw.
  destruct (rd_byte f s b0 (r ++ rest) Hvw) as (s1 & E1 & R1 & V1 & P1).
  unfold read_vu64 in Hr |- *. rewrite E1 in *. cbn [rbind] in *.
  destruct (b0 <? 128) eqn:Hb.
  - injection Hr as -> <-. apply N.ltb_lt in Hb. rewrite (dec_len_lt128 _ Hb) in Hd.
    assert (r = []) by (destruct r; [reflexivity|rewrite blen_cons in Hbr; lia]). subst r. cbn [app] in V1.
    exists s1. split; [reflexivity|]. split; [exact R1|]. split; [exact V1|lia].
  - destruct (rd_n f s1 r rest V1) as (s2 & E2 & R2 & V2 & P2).
    replace (dec_len b0 - 1) with (blen r) in * by lia.
    unfold read_le in Hr |- *. rewrite E2 in *. cbn [rbind] in *.
    destruct (vu64_of_parts b0 (le_decode r)) as [v0|]; [|discriminate Hr]. injection Hr as -> <-.
    pose proof (enc_len_range v).
    exists s2. split; [reflexivity|]. split; [eapply ro_step_trans; eassumption|]. split; [exact V2|lia].
Qed.

Lemma rd_u64 f s v (rest : bytes) : v < 2 ^ 64 -> vw s f (le_bytes 8 v ++ rest) ->
  exists s', read_u64 f s = Ok (v, s') /\ ro_step s s' /\ vw s' f rest /\
    fp (get_file s' f) = fp (get_file s f) + 8.
Proof.
  intros Hv Hvw. destruct (rd_n f s _ rest Hvw) as (s' & Hr & H).
  rewrite blen_le_bytes in *. change (N.of_nat 8) with 8 in *.
  exists s'. unfold read_u64, read_le. rewrite Hr. cbn [rbind]. rewrite le_decode_le_bytes8 by exact Hv.
  split; [reflexivity|exact H].
Qed.

Lemma rd_piece_size f s sz (rest : bytes) : sz mod 8 = 0 -> sz < 2 ^ 64 -> vw s f (encode (sz / 8) ++ rest) ->
  exists s', read_piece_size f s = Ok (sz, s') /\ ro_step s s' /\ vw s' f rest /\
    fp (get_file s' f) = fp (get_file s f) + enc_len (sz / 8).
Proof.
  intros H8 Hlt Hvw. destruct (rd_vu64 f s _ rest (div8_lt _ Hlt) Hvw) as (s' & Hr & H).
  exists s'. unfold read_piece_size. rewrite Hr. cbn [rbind]. rewrite div8_mul8 by exact H8.
  split; [reflexivity|exact H].
Qed.

Lemma rd_piece_offset f s o (rest : bytes) : o mod 8 = 0 -> o < 2 ^ 64 -> vw s f (encode (o / 8) ++ rest) ->
  exists s', read_piece_offset f s = Ok (o, s') /\ ro_step s s' /\ vw s' f rest /\
    fp (get_file s' f) = fp (get_file s f) + enc_len (o / 8).
Proof. apply rd_piece_size. Qed.

(** skip [d] by a relative seek *)
Lemma rd_skip f s (d rest : bytes) : vw s f (d ++ rest) ->
  exists s', seek_cur f false (blen d) s = Ok (fp (get_file s f) + blen d, s') /\ ro_step s s' /\ vw s' f rest /\
    fp (get_file s' f) = fp (get_file s f) + blen d.
Proof.
  intros Hvw. pose proof (vw_room _ _ _ _ Hvw) as Hroom. destruct Hvw as [Hp Hv].
  exists (seek_to f (fp (get_file s f) + blen d) s). split; [reflexivity|].
  split; [apply ro_step_seek; exact Hroom|].
  destruct (seek_to_inside f _ s Hroom) as [Hf _]. split; [split|].
  - unfold fend. rewrite Hf. cbn [fb fp]. exact Hroom.
  - rewrite view_seek_inside by exact Hroom. rewrite at_off_add. unfold view in Hv. rewrite Hv.
    unfold at_off. apply drop_blen_app.
  - rewrite Hf. reflexivity.
Qed.

Lemma rd_position f s (l : bytes) : vw s f l ->
  exists s', seek_position f s = Ok (fp (get_file s f), s') /\ ro_step s s' /\ vw s' f l /\
    fp (get_file s' f) = fp (get_file s f).
Proof.
  intros Hvw. destruct (rd_skip f s [] l Hvw) as (s' & Hr & H).
  change (blen []) with 0 in *. rewrite N.add_0_r in *. exists s'. split; [exact Hr|exact H].
Qed.

(** [seek_skip_to_piece] lands behind the size field *)
Lemma rd_skip_to_piece f s off v (rest : bytes) : v < 2 ^ 64 ->
  at_off (fb (get_file s f)) off = encode v ++ rest ->
  exists s', seek_skip_to_piece f off s = Ok (off + enc_len v, s') /\ ro_step s s' /\ vw s' f rest /\
    fp (get_file s' f) = off + enc_len v.
Proof.
  intros Hv Himg.
  assert (Hin : off <= fend (get_file s f)).
  { apply (f_equal blen) in Himg. rewrite blen_at_off, blen_app, blen_encode in Himg.
    pose proof (enc_len_range v). unfold fend. lia. }
  destruct (encode_first v Hv) as (b0 & r & He & Hd & Hr).
  unfold seek_skip_to_piece.
  destruct (rd_seek f off s Hin) as (s1 & E1 & R1 & V1 & P1). rewrite E1. cbn [rbind].
  rewrite Himg, He in V1. cbn [app] in V1.
  destruct (rd_byte f s1 b0 _ V1) as (s2 & E2 & R2 & V2 & P2). rewrite E2. cbn [rbind].
  rewrite Hd.
  destruct (N.ltb_spec 1 (enc_len v)) as [HL|HL].
  - destruct (rd_skip f s2 r rest V2) as (s3 & E3 & R3 & V3 & P3). rewrite Hr in E3. rewrite E3. cbn [rbind].
    destruct (rd_position f s3 rest V3) as (s4 & E4 & R4 & V4 & P4). rewrite E4.
    exists s4. split; [f_equal; f_equal; lia|]. split; [|split; [exact V4|lia]].
    eauto using ro_step_trans.
  - assert (r = []) by (destruct r; [reflexivity|rewrite blen_cons in Hr; lia]). subst r. cbn [app] in V2.
    cbn [rbind].
    destruct (rd_position f s2 rest V2) as (s4 & E4 & R4 & V4 & P4). rewrite E4.
    pose proof (enc_len_range v).
    exists s4. split; [f_equal; f_equal; lia|]. split; [|split; [exact V4|lia]].
    eauto using ro_step_trans.
Qed.

Ltac rd_with L :=
  let s' := fresh "s" in let E := fresh "E" in let R := fresh "R" in let V := fresh "V" in let P := fresh "P" in
  destruct L as (s' & E & R & V & P); [try eassumption ..|]; rewrite E; cbn [rbind].

Lemma img_off_inside (img : bytes) off (d rest : bytes) : at_off img off = d ++ rest -> d <> [] ->
  off + blen d <= blen img.
Proof.
  intros H Hd. apply (f_equal blen) in H. rewrite blen_at_off, blen_app in H.
  assert (0 < blen d) by (destruct d; [congruence|rewrite blen_cons; lia]). lia.
Qed.

Lemma encode_nonnil v : encode v <> [].
Proof.
  intros E. pose proof (blen_encode v) as H. rewrite E in H. pose proof (enc_len_range v). change (blen []) with 0 in H. lia.
Qed.

(** *** a key record *)
Section kslot.
Context (s : st) (off sz : N) (k : bytes) (voff noff : N) (rest : bytes).
Hypothesis Himg : at_off (fb (get_file s FKey)) off = slot_bytes sz (key_body k voff noff) ++ rest.
Hypothesis Hoff : off <> 0.
Hypothesis Hs8 : sz mod 8 = 0.
Hypothesis Hsz : sz < 2 ^ 64.
Hypothesis Hk : blen k < 2 ^ 64.
Hypothesis Hv8 : voff mod 8 = 0.
Hypothesis Hv : voff < 2 ^ 64.
Hypothesis Hn8 : noff mod 8 = 0.
Hypothesis Hn : noff < 2 ^ 64.

Let tail : bytes := zeros (sz - blen (encode (sz / 8) ++ key_body k voff noff)) ++ rest.

Lemma kslot_flat : at_off (fb (get_file s FKey)) off =
  encode (sz / 8) ++ encode (blen k) ++ k ++ encode (voff / 8) ++ encode (noff / 8) ++ tail.
Proof. rewrite Himg, slot_bytes_app. unfold key_body, tail. rewrite <- !app_assoc. reflexivity. Qed.

Lemma kslot_inside : off + blen (slot_bytes sz (key_body k voff noff)) <= fend (get_file s FKey).
Proof.
  apply (img_off_inside _ _ _ _ Himg). unfold slot_bytes. cbv zeta. intros E.
  apply app_eq_nil in E as [E _]. apply app_eq_nil in E as [E _]. exact (encode_nonnil _ E).
Qed.

Lemma kslot_off_inside : off <= fend (get_file s FKey).
Proof. pose proof kslot_inside. lia. Qed.

Lemma off_neq0 : (off =? 0) = false.
Proof. apply N.eqb_neq. exact Hoff. Qed.

Theorem key_read_piece_image : valid_size key_cfg sz = true ->
  exists s', key_read_piece off s = Ok (sz, k, voff, noff, s') /\ ro_step s s'.
Proof.
  intros Hvs. unfold key_read_piece. rewrite off_neq0.
  rd_with (rd_seek FKey off s kslot_off_inside). rewrite kslot_flat in V.
  rd_with (rd_piece_size FKey s0 sz _ Hs8 Hsz V). rewrite Hvs. cbn [negb].
  rd_with (rd_vu64 FKey s1 (blen k) _ Hk V0).
  rd_with (rd_n FKey s2 k _ V1).
  rd_with (rd_piece_offset FKey s3 voff _ Hv8 Hv V2).
  rd_with (rd_piece_offset FKey s4 noff _ Hn8 Hn V3).
  eexists. split; [reflexivity|]. eauto 10 using ro_step_trans.
Qed.

Theorem read_piece_only_size_key_image :
  exists s', read_piece_only_size FKey off s = Ok (sz, s') /\ ro_step s s'.
Proof.
  unfold read_piece_only_size. rewrite off_neq0.
  rd_with (rd_seek FKey off s kslot_off_inside). rewrite kslot_flat in V.
  destruct (rd_piece_size FKey s0 sz _ Hs8 Hsz V) as (s' & E' & R' & _).
  exists s'. split; [exact E'|]. eauto using ro_step_trans.
Qed.

Theorem read_piece_only_length_key_image :
  exists s', read_piece_only_length FKey off s = Ok (blen k, s') /\ ro_step s s'.
Proof.
  unfold read_piece_only_length. rewrite off_neq0.
  rd_with (rd_skip_to_piece FKey s off (sz / 8) _ (div8_lt _ Hsz) kslot_flat).
  destruct (rd_vu64 FKey s0 (blen k) _ Hk V) as (s' & E' & R' & _).
  exists s'. split; [exact E'|]. eauto using ro_step_trans.
Qed.

Theorem read_piece_only_payload_key_image :
  exists s', read_piece_only_payload FKey off s = Ok (k, s') /\ ro_step s s'.
Proof.
  unfold read_piece_only_payload. rewrite off_neq0.
  rd_with (rd_skip_to_piece FKey s off (sz / 8) _ (div8_lt _ Hsz) kslot_flat).
  rd_with (rd_vu64 FKey s0 (blen k) _ Hk V).
  destruct (rd_n FKey s1 k _ V0) as (s' & E' & R' & _).
  exists s'. split; [exact E'|]. eauto using ro_step_trans.
Qed.

Theorem read_piece_only_value_offset_image :
  exists s', read_piece_only_value_offset off s = Ok (voff, s') /\ ro_step s s'.
Proof.
  unfold read_piece_only_value_offset. rewrite off_neq0.
  rd_with (rd_skip_to_piece FKey s off (sz / 8) _ (div8_lt _ Hsz) kslot_flat).
  rd_with (rd_vu64 FKey s0 (blen k) _ Hk V).
  rd_with (rd_skip FKey s1 k _ V0).
  destruct (rd_piece_offset FKey s2 voff _ Hv8 Hv V1) as (s' & E' & R' & _).
  exists s'. split; [exact E'|]. eauto 6 using ro_step_trans.
Qed.

Theorem read_piece_only_bucket_next_offset_image :
  exists s', read_piece_only_bucket_next_offset off s = Ok (noff, s') /\ ro_step s s'.
Proof.
  unfold read_piece_only_bucket_next_offset. rewrite off_neq0.
  rd_with (rd_skip_to_piece FKey s off (sz / 8) _ (div8_lt _ Hsz) kslot_flat).
  rd_with (rd_vu64 FKey s0 (blen k) _ Hk V).
  rd_with (rd_skip FKey s1 k _ V0).
  rd_with (rd_piece_offset FKey s2 voff _ Hv8 Hv V1).
  destruct (rd_piece_offset FKey s3 noff _ Hn8 Hn V2) as (s' & E' & R' & _).
  exists s'. split; [exact E'|]. eauto 7 using ro_step_trans.
Qed.

(** where [seek_skip_to_piece] lands *)
Theorem seek_skip_to_piece_key_image :
  exists s', seek_skip_to_piece FKey off s = Ok (off + enc_len (sz / 8), s') /\ ro_step s s' /\
    vw s' FKey (key_body k voff noff ++ tail).
Proof.
  destruct (rd_skip_to_piece FKey s off (sz / 8) _ (div8_lt _ Hsz) kslot_flat) as (s' & E & R & V & _).
  exists s'. split; [exact E|]. split; [exact R|]. unfold key_body. rewrite <- !app_assoc. exact V.
Qed.
End kslot.

(** *** a value record *)
Section vslot.
Context (s : st) (off sz : N) (v rest : bytes).
Hypothesis Himg : at_off (fb (get_file s FVal)) off = slot_bytes sz (val_body v) ++ rest.
Hypothesis Hoff : off <> 0.
Hypothesis Hs8 : sz mod 8 = 0.
Hypothesis Hsz : sz < 2 ^ 64.
Hypothesis Hvl : blen v < 2 ^ 64.

Let tail : bytes := zeros (sz - blen (encode (sz / 8) ++ val_body v)) ++ rest.

Lemma vslot_flat : at_off (fb (get_file s FVal)) off = encode (sz / 8) ++ encode (blen v) ++ v ++ tail.
Proof. rewrite Himg, slot_bytes_app. unfold val_body, tail. rewrite <- !app_assoc. reflexivity. Qed.

Lemma vslot_inside : off + blen (slot_bytes sz (val_body v)) <= fend (get_file s FVal).
Proof.
  apply (img_off_inside _ _ _ _ Himg). unfold slot_bytes. cbv zeta. intros E.
  apply app_eq_nil in E as [E _]. apply app_eq_nil in E as [E _]. exact (encode_nonnil _ E).
Qed.

Lemma vslot_off_inside : off <= fend (get_file s FVal).
Proof. pose proof vslot_inside. lia. Qed.

Theorem val_read_piece_image : valid_size val_cfg sz = true ->
  exists s', val_read_piece off s = Ok (sz, v, s') /\ ro_step s s'.
Proof.
  intros Hvs. unfold val_read_piece. rewrite (off_neq0 off Hoff).
  rd_with (rd_seek FVal off s vslot_off_inside). rewrite vslot_flat in V.
  rd_with (rd_piece_size FVal s0 sz _ Hs8 Hsz V). rewrite Hvs. cbn [negb].
  rd_with (rd_vu64 FVal s1 (blen v) _ Hvl V0).
  rd_with (rd_n FVal s2 v _ V1).
  eexists. split; [reflexivity|]. eauto 10 using ro_step_trans.
Qed.

Theorem read_piece_only_size_val_image :
  exists s', read_piece_only_size FVal off s = Ok (sz, s') /\ ro_step s s'.
Proof.
  unfold read_piece_only_size. rewrite (off_neq0 off Hoff).
  rd_with (rd_seek FVal off s vslot_off_inside). rewrite vslot_flat in V.
  destruct (rd_piece_size FVal s0 sz _ Hs8 Hsz V) as (s' & E' & R' & _).
  exists s'. split; [exact E'|]. eauto using ro_step_trans.
Qed.

Theorem read_piece_only_length_val_image :
  exists s', read_piece_only_length FVal off s = Ok (blen v, s') /\ ro_step s s'.
Proof.
  unfold read_piece_only_length. rewrite (off_neq0 off Hoff).
  rd_with (rd_skip_to_piece FVal s off (sz / 8) _ (div8_lt _ Hsz) vslot_flat).
  destruct (rd_vu64 FVal s0 (blen v) _ Hvl V) as (s' & E' & R' & _).
  exists s'. split; [exact E'|]. eauto using ro_step_trans.
Qed.

Theorem read_piece_only_payload_val_image :
  exists s', read_piece_only_payload FVal off s = Ok (v, s') /\ ro_step s s'.
Proof.
  unfold read_piece_only_payload. rewrite (off_neq0 off Hoff).
  rd_with (rd_skip_to_piece FVal s off (sz / 8) _ (div8_lt _ Hsz) vslot_flat).
  rd_with (rd_vu64 FVal s0 (blen v) _ Hvl V).
  destruct (rd_n FVal s1 v _ V0) as (s' & E' & R' & _).
  exists s'. split; [exact E'|]. eauto using ro_step_trans.
Qed.
End vslot.

(** ** D3. the read-only operations on the images of a record-level state *)

Lemma kc_ok : Sizing.cfg_ok key_cfg. Proof. left; reflexivity. Qed.
Lemma vc_ok : Sizing.cfg_ok val_cfg. Proof. right; reflexivity. Qed.
Lemma sig_len t : length (sig_of t) = 8%nat.
Proof. destruct t; reflexivity. Qed.

(** distinct multiples of 8 in [8, B): at most B / 8 of them *)
Lemma mult8_count (l : list N) B :
  NoDup l -> (forall o, o ∈ l -> o mod 8 = 0 /\ o <> 0 /\ o + 8 <= B) -> (length l <= N.to_nat (B / 8))%nat.
Proof.
  intros Hnd Hl.
  assert (Hnd' : NoDup (map (fun o => o / 8) l)).
  { apply NoDup_fmap_2_strong; [|exact Hnd]. intros x y Hx Hy E.
    destruct (Hl x Hx) as (Hx8 & _), (Hl y Hy) as (Hy8 & _).
    pose proof (N.div_mod x 8). pose proof (N.div_mod y 8). lia. }
  assert (Hsub : map (fun o => o / 8) l ⊆+ seqN' 0 (N.to_nat (B / 8))).
  { apply NoDup_submseteq; [exact Hnd'|]. intros x Hx. apply elem_of_map in Hx as (o & -> & Ho).
    apply elem_of_seqN'. destruct (Hl o Ho) as (Ho8 & Hnz & Hle).
    rewrite N2Nat.id. apply N.div_lt_upper_bound; [lia|].
    pose proof (N.div_mod B 8). pose proof (N.mod_lt B 8). pose proof (N.div_mod o 8). lia. }
  apply submseteq_length in Hsub. rewrite map_length, seqN'_length in Hsub. exact Hsub.
Qed.

Section ops.
Context (s : store) (ch : N -> list N) (Hinv : sinv s ch) (Hfit : fits_ok s) (Hhwf : htx_wf (hx s)) (H64 : fits64 s).
Context (kfr vfr : nat -> list N)
  (Hki : alloc_inv key_cfg (keyf s) kfr) (Hvi : alloc_inv val_cfg (valf s) vfr).
Context (kimg vimg : bytes).
Hypothesis Hrk : render_pfile key_cfg kslot_bytes (sig_of (kt s)) (keyf s) = Ok kimg.
Hypothesis Hrv : render_pfile val_cfg vslot_bytes (sig_of (kt s)) (valf s) = Ok vimg.

Let himg : bytes := render_htx (sig_of (kt s)) (hx s).
Let Hcore : core s ch None := proj1 Hinv.
Let Hsg : length (sig_of (kt s)) = 8%nat := sig_len (kt s).

(** an Io state that holds the three images *)
Definition holds3 (x : st) : Prop :=
  fb (get_file x FHtx) = himg /\ fb (get_file x FKey) = kimg /\ fb (get_file x FVal) = vimg.

Lemma holds3_ro x x' : holds3 x -> ro_step x x' -> holds3 x'.
Proof.
  intros (A & B & C) R. unfold holds3. rewrite !(ro_step_fb _ _ _ R). auto.
Qed.

Lemma heads_lt i : head_at (hx s) i < 2 ^ 64.
Proof.
  unfold head_at. destruct (buckets (hx s) !! i) as [v|] eqn:E; [|reflexivity].
  exact (st_buckets_lt s ch Hinv Hfit H64 kfr Hki kimg Hrk i v Hhwf E).
Qed.

Lemma holds3_htx x : holds3 x -> holds (sig_of (kt s)) (hx s) x.
Proof. intros (A & _). exact A. Qed.

Lemma read_item_count_refines x : holds3 x ->
  exists x', read_item_count x = Ok (Store.len s, x') /\ ro_step x x'.
Proof.
  intros H. apply (read_item_count_render (sig_of (kt s)) (hx s) Hsg heads_lt); [apply H64|apply H64|].
  apply holds3_htx. exact H.
Qed.

Lemma read_head_refines x i : holds3 x -> i < nb (hx s) ->
  exists x', read_key_piece_offset i x = Ok (head_at (hx s) i, x') /\ ro_step x x'.
Proof.
  intros H Hi. apply (read_key_piece_offset_render (sig_of (kt s)) (hx s) Hsg Hhwf heads_lt); [apply H64|apply H64| |exact Hi].
  apply holds3_htx. exact H.
Qed.

(** a key record of the heap, as the key file image holds it *)
Lemma key_slot_at off r : kheap s !! off = Some r -> exists sz rest,
  slots (keyf s) !! off = Some (Used sz r) /\
  at_off kimg off = slot_bytes sz (key_body (k_key r) (k_voff r) (k_next r)) ++ rest /\
  off <> 0 /\ sz mod 8 = 0 /\ sz < 2 ^ 64 /\ blen (k_key r) < 2 ^ 64 /\
  k_voff r mod 8 = 0 /\ k_voff r < 2 ^ 64 /\ k_next r mod 8 = 0 /\ k_next r < 2 ^ 64 /\
  valid_size key_cfg sz = true.
Proof.
  intros Hr. destruct (st_kheap s off r Hr) as [sz Hs].
  destruct (@pc_at krec key_cfg kc_ok kslot_bytes (keyf s) kfr Hki (sig_of (kt s)) Hsg kimg Hrk
              (kslot_len_ok s Hfit kfr Hki) off _ Hs) as [rest Hat].
  destruct (@pc_slot krec key_cfg kc_ok kslot_bytes (keyf s) kfr Hki (sig_of (kt s)) Hsg kimg Hrk (st_kfe s H64)
              (kslot_len_ok s Hfit kfr Hki) kfree_eq off _ Hs) as (_ & _ & _ & H8 & Hlt).
  destruct (@inv_slot krec key_cfg kc_ok _ _ _ _ Hki Hs) as (H192 & _ & Hvs & _).
  destruct (st_next_ok s ch Hinv Hfit H64 kfr Hki kimg Hrk off r Hr) as [Hn8 Hn].
  destruct (st_voff_ok s ch Hinv Hfit H64 vfr Hvi vimg Hrv off r Hr) as (Hv8 & Hv & _).
  destruct (co_kwf _ _ _ Hcore _ _ Hr) as (_ & Hk & _).
  cbn [kslot_bytes slot_size] in *.
  exists sz, rest. pose proof pow31_lt_pow64.
  repeat (split; [first [assumption|lia]|]).
  apply Sizing_proofs.valid_slot_size_valid_size; [exact kc_ok|exact Hvs].
Qed.

Lemma val_slot_at vo sz v : slots (valf s) !! vo = Some (Used sz v) -> exists rest,
  at_off vimg vo = slot_bytes sz (val_body v) ++ rest /\
  vo <> 0 /\ sz mod 8 = 0 /\ sz < 2 ^ 64 /\ blen v < 2 ^ 64 /\ valid_size val_cfg sz = true.
Proof.
  intros Hs.
  destruct (@pc_at bytes val_cfg vc_ok vslot_bytes (valf s) vfr Hvi (sig_of (kt s)) Hsg vimg Hrv
              (vslot_len_ok s Hfit vfr Hvi) vo _ Hs) as [rest Hat].
  destruct (@pc_slot bytes val_cfg vc_ok vslot_bytes (valf s) vfr Hvi (sig_of (kt s)) Hsg vimg Hrv (st_vfe s H64)
              (vslot_len_ok s Hfit vfr Hvi) vfree_eq vo _ Hs) as (_ & _ & _ & H8 & Hlt).
  destruct (@inv_slot bytes val_cfg vc_ok _ _ _ _ Hvi Hs) as (H192 & _ & Hvs & _).
  assert (Hv : vheap s !! vo = Some v) by (apply Refine_relink.used_lookup; eauto).
  destruct (co_vwf _ _ _ Hcore _ _ Hv) as (_ & Hk).
  cbn [vslot_bytes slot_size] in *.
  exists rest. pose proof pow31_lt_pow64.
  repeat (split; [first [assumption|lia]|]).
  apply Sizing_proofs.valid_slot_size_valid_size; [exact vc_ok|exact Hvs].
Qed.

Lemma key_payload_refines x off r : holds3 x -> kheap s !! off = Some r ->
  exists x', read_piece_only_payload FKey off x = Ok (k_key r, x') /\ ro_step x x'.
Proof.
  intros (_ & HK & _) Hr.
  destruct (key_slot_at off r Hr) as (sz & rest & _ & Hat & Hnz & H8 & Hlt & Hk & Hv8 & Hv & Hn8 & Hn & _).
  rewrite <- HK in Hat.
  exact (read_piece_only_payload_key_image x off sz _ _ _ rest Hat Hnz Hlt Hk).
Qed.
Lemma key_next_refines x off r : holds3 x -> kheap s !! off = Some r ->
  exists x', read_piece_only_bucket_next_offset off x = Ok (k_next r, x') /\ ro_step x x'.
Proof.
  intros (_ & HK & _) Hr.
  destruct (key_slot_at off r Hr) as (sz & rest & _ & Hat & Hnz & H8 & Hlt & Hk & Hv8 & Hv & Hn8 & Hn & _).
  rewrite <- HK in Hat. eapply read_piece_only_bucket_next_offset_image; eassumption.
Qed.

Lemma key_voff_refines x off r : holds3 x -> kheap s !! off = Some r ->
  exists x', read_piece_only_value_offset off x = Ok (k_voff r, x') /\ ro_step x x'.
Proof.
  intros (_ & HK & _) Hr.
  destruct (key_slot_at off r Hr) as (sz & rest & _ & Hat & Hnz & H8 & Hlt & Hk & Hv8 & Hv & Hn8 & Hn & _).
  rewrite <- HK in Hat. eapply read_piece_only_value_offset_image; eassumption.
Qed.

Lemma key_read_piece_refines x off sz r : holds3 x -> slots (keyf s) !! off = Some (Used sz r) ->
  exists x', key_read_piece off x = Ok (sz, k_key r, k_voff r, k_next r, x') /\ ro_step x x'.
Proof.
  intros (_ & HK & _) Hs.
  assert (Hr : kheap s !! off = Some r) by (apply Refine_relink.used_lookup; eauto).
  destruct (key_slot_at off r Hr) as (sz' & rest & Hs' & Hat & Hnz & H8 & Hlt & Hk & Hv8 & Hv & Hn8 & Hn & Hvs).
  rewrite Hs in Hs'. injection Hs' as <-.
  rewrite <- HK in Hat. eapply key_read_piece_image; eassumption.
Qed.

Lemma val_payload_refines x vo sz v : holds3 x -> slots (valf s) !! vo = Some (Used sz v) ->
  exists x', read_piece_only_payload FVal vo x = Ok (v, x') /\ ro_step x x'.
Proof.
  intros (_ & _ & HV) Hs.
  destruct (val_slot_at vo sz v Hs) as (rest & Hat & Hnz & H8 & Hlt & Hvl & _).
  rewrite <- HV in Hat. eapply read_piece_only_payload_val_image; eassumption.
Qed.

Lemma val_read_piece_refines x vo sz v : holds3 x -> slots (valf s) !! vo = Some (Used sz v) ->
  exists x', val_read_piece vo x = Ok (sz, v, x') /\ ro_step x x'.
Proof.
  intros (_ & _ & HV) Hs.
  destruct (val_slot_at vo sz v Hs) as (rest & Hat & Hnz & H8 & Hlt & Hvl & Hvs).
  rewrite <- HV in Hat. eapply val_read_piece_image; eassumption.
Qed.

(** the Io fuel is enough for every chain *)
Lemma chain_len b : b < nb (hx s) -> (length (ch b) <= N.to_nat (blen kimg / 8))%nat.
Proof.
  intros Hb. apply mult8_count; [exact (co_nodup _ _ _ Hcore _ Hb)|].
  intros o Ho. destruct (co_in _ _ _ Hcore _ _ Hb Ho) as [r Hr].
  destruct (st_kheap s o r Hr) as [sz Hs].
  destruct (@inv_slot krec key_cfg kc_ok _ _ _ _ Hki Hs) as (H192 & H8 & Hvs & Hle).
  destruct (AllocInv_proofs.valid_slot_size_facts key_cfg kc_ok _ Hvs) as [H16 _].
  rewrite (@pc_blen krec key_cfg kc_ok kslot_bytes (keyf s) kfr Hki (sig_of (kt s)) Hsg kimg Hrk
              (kslot_len_ok s Hfit kfr Hki)).
  cbn [slot_size] in *. lia.
Qed.

(** the chain walk *)
Lemma find_loop_refines key : forall l h prev f1 f2 o x,
  seg (kheap s) h l 0 -> (length l < f2)%nat ->
  Store.find_chain f1 s key prev h = Ok o -> holds3 x ->
  exists x', find_loop f2 (kt s) key prev h x = Ok (o, x') /\ ro_step x x'.
Proof.
  induction l as [|o1 l IH]; intros h prev f1 f2 o x Hseg Hf2 Hfc Hx.
  - apply seg_nil_inv in Hseg. subst h. destruct f1 as [|f1]; [discriminate|].
    destruct f2 as [|f2]; [lia|]. cbn [Store.find_chain find_loop] in *.
    change (0 =? 0) with true in *. cbv iota in *. injection Hfc as <-.
    exists x. split; [reflexivity|apply ro_step_refl].
  - apply seg_cons_inv in Hseg as (-> & Hnz & r & Hr & Hseg).
    destruct f1 as [|f1]; [discriminate|]. destruct f2 as [|f2]; [cbn [length] in Hf2; lia|].
    cbn [Store.find_chain find_loop] in *.
    rewrite (proj2 (N.eqb_neq _ _) Hnz) in *.
    unfold read_krec in Hfc. destruct (st_kheap s _ _ Hr) as [sz Hs]. rewrite Hs in Hfc. cbn [rbind] in Hfc.
    destruct (key_payload_refines x o1 r Hx Hr) as (x1 & E1 & R1). rewrite E1. cbn [rbind].
    destruct (cmp_eq (kt s) key (k_key r)) as [e| | |]; cbn [rbind] in *; try discriminate Hfc.
    destruct e.
    + injection Hfc as <-. exists x1. split; [reflexivity|exact R1].
    + pose proof (holds3_ro _ _ Hx R1) as Hx1.
      destruct (key_next_refines x1 o1 r Hx1 Hr) as (x2 & E2 & R2). rewrite E2. cbn [rbind].
      pose proof (holds3_ro _ _ Hx1 R2) as Hx2.
      destruct (IH (k_next r) o1 f1 f2 o x2 Hseg ltac:(cbn [length] in Hf2; lia) Hfc Hx2) as (x3 & E3 & R3).
      exists x3. split; [exact E3|]. eauto using ro_step_trans.
Qed.
(** *** the operations of a map whose key type and bucket count are those of the state *)
Context (m : mp) (Hkt : m_kt m = kt s) (Hn : m_n m = nb (hx s)).

Lemma find_refines_st key o x : holds3 x -> Store.find s key = Ok o ->
  exists x', Io.find m key x = Ok (o, x') /\ ro_step x x'.
Proof.
  intros Hx Hf. unfold Io.find, Store.find in *.
  assert (Hb : Io.bucket m key = Store.bucket s key)
    by (unfold Io.bucket, Store.bucket, bucket_of; rewrite Hn; reflexivity).
  rewrite Hb, Hkt.
  assert (Hlt : Store.bucket s key < nb (hx s)) by (apply (home_lt s key (co_n _ _ _ Hcore))).
  destruct (read_head_refines x _ Hx Hlt) as (x1 & E1 & R1). rewrite E1. cbn [rbind].
  pose proof (holds3_ro _ _ Hx R1) as Hx1.
  destruct (find_loop_refines key (ch (Store.bucket s key)) _ 0 (Store.chain_fuel s) (chain_fuel x1) o x1 (proj2 Hinv _ Hlt))
    as (x2 & E2 & R2); [| exact Hf | exact Hx1 |].
  - unfold chain_fuel, walk_fuel, Io.fend. destruct Hx1 as (_ & -> & _). pose proof (chain_len _ Hlt). lia.
  - exists x2. split; [exact E2|]. eauto using ro_step_trans.
Qed.

Lemma load_value_refines x koff r v : holds3 x ->
  read_krec s koff = Ok r -> read_val s (k_voff r) = Ok v ->
  exists x', load_value koff x = Ok (v, x') /\ ro_step x x'.
Proof.
  intros Hx Hk Hv. unfold read_krec in Hk. unfold read_val in Hv.
  destruct (slots (keyf s) !! koff) as [[sz r'|]|] eqn:Hs; try discriminate Hk. injection Hk as ->.
  destruct (slots (valf s) !! k_voff r) as [[szv v'|]|] eqn:Hsv; try discriminate Hv. injection Hv as ->.
  assert (Hr : kheap s !! koff = Some r) by (apply Refine_relink.used_lookup; eauto).
  destruct (key_slot_at koff r Hr) as (_ & _ & _ & _ & Hnz & _).
  unfold load_value. rewrite (proj2 (N.eqb_neq _ _) Hnz).
  destruct (key_voff_refines x koff r Hx Hr) as (x1 & E1 & R1). rewrite E1. cbn [rbind].
  pose proof (holds3_ro _ _ Hx R1) as Hx1.
  destruct (val_payload_refines x1 _ _ _ Hx1 Hsv) as (x2 & E2 & R2).
  exists x2. split; [exact E2|]. eauto using ro_step_trans.
Qed.

Lemma images_ro x x' : ro_step x x' ->
  (fb (s_htx x'), fb (s_key x'), fb (s_val x')) = (fb (s_htx x), fb (s_key x), fb (s_val x)).
Proof.
  intros R. pose proof (ro_step_fb _ _ FHtx R) as A. pose proof (ro_step_fb _ _ FKey R) as B.
  pose proof (ro_step_fb _ _ FVal R) as C. cbn [get_file] in *. congruence.
Qed.

Lemma get_refines_st key r : holds3 (m_st m) -> Store.get s key = Ok r ->
  exists m', Io.get m key = Ok (r, m') /\ ro_step (m_st m) (m_st m') /\ Io.images m' = Io.images m /\
    m_kt m' = m_kt m /\ m_n m' = m_n m.
Proof.
  intros Hx Hg. unfold Store.get in Hg. unfold Io.get.
  destruct (Store.find s key) as [o| | |] eqn:Hf; cbn [rbind] in Hg; try discriminate Hg.
  destruct (find_refines_st key o _ Hx Hf) as (x1 & E1 & R1). rewrite E1. cbn [rbind].
  pose proof (holds3_ro _ _ Hx R1) as Hx1.
  destruct o as [[koff pv]|].
  - destruct (read_krec s koff) as [rk| | |] eqn:Hk; cbn [rbind] in Hg; try discriminate Hg.
    destruct (read_val s (k_voff rk)) as [v| | |] eqn:Hv; cbn [rbind] in Hg; try discriminate Hg.
    injection Hg as <-.
    destruct (load_value_refines x1 koff rk v Hx1 Hk Hv) as (x2 & E2 & R2). rewrite E2. cbn [rbind].
    assert (R : ro_step (m_st m) x2) by eauto using ro_step_trans.
    eexists. split; [reflexivity|]. cbn [with_st m_st m_kt m_n]. split; [exact R|].
    split; [|auto]. unfold Io.images. cbn [m_st]. apply images_ro. exact R.
  - injection Hg as <-. eexists. split; [reflexivity|]. cbn [with_st m_st m_kt m_n]. split; [exact R1|].
    split; [|auto]. unfold Io.images. cbn [m_st]. apply images_ro. exact R1.
Qed.

Lemma has_refines_st key r : holds3 (m_st m) -> Store.has s key = Ok r ->
  exists m', Io.has m key = Ok (r, m') /\ ro_step (m_st m) (m_st m') /\ Io.images m' = Io.images m /\
    m_kt m' = m_kt m /\ m_n m' = m_n m.
Proof.
  intros Hx Hg. unfold Store.has in Hg. unfold Io.has.
  destruct (Store.find s key) as [o| | |] eqn:Hf; cbn [rbind] in Hg; try discriminate Hg.
  destruct (find_refines_st key o _ Hx Hf) as (x1 & E1 & R1). rewrite E1. cbn [rbind].
  injection Hg as <-. eexists. split; [reflexivity|]. cbn [with_st m_st m_kt m_n]. split; [exact R1|].
  split; [|auto]. unfold Io.images. cbn [m_st]. apply images_ro. exact R1.
Qed.

Lemma len_refines_st : holds3 (m_st m) ->
  exists m', Io.len m = Ok (Store.len s, m') /\ ro_step (m_st m) (m_st m') /\ Io.images m' = Io.images m /\
    m_kt m' = m_kt m /\ m_n m' = m_n m.
Proof.
  intros Hx. unfold Io.len.
  destruct (read_item_count_refines _ Hx) as (x1 & E1 & R1). rewrite E1. cbn [rbind].
  eexists. split; [reflexivity|]. cbn [with_st m_st m_kt m_n]. split; [exact R1|].
  split; [|auto]. unfold Io.images. cbn [m_st]. apply images_ro. exact R1.
Qed.
End ops.

(** *** the statements on [render s] *)
Lemma refine_setup s himg kimg vimg : Inv s -> render s = Ok (himg, kimg, vimg) ->
  exists ch kfr vfr, sinv s ch /\ alloc_inv key_cfg (keyf s) kfr /\ alloc_inv val_cfg (valf s) vfr /\
    render_pfile key_cfg kslot_bytes (sig_of (kt s)) (keyf s) = Ok kimg /\
    render_pfile val_cfg vslot_bytes (sig_of (kt s)) (valf s) = Ok vimg /\
    himg = render_htx (sig_of (kt s)) (hx s).
Proof.
  intros (ch & Hinv) Hr. pose proof Hinv as [Hcore _].
  destruct (co_k _ _ _ Hcore) as [kfr Hki]. destruct (co_v _ _ _ Hcore) as [vfr Hvi].
  unfold render in Hr. cbv zeta in Hr.
  destruct (render_pfile key_cfg kslot_bytes (sig_of (kt s)) (keyf s)) as [ki| | |] eqn:Hrk;
    cbn [rbind] in Hr; try discriminate Hr.
  destruct (render_pfile val_cfg vslot_bytes (sig_of (kt s)) (valf s)) as [vi| | |] eqn:Hrv;
    cbn [rbind] in Hr; try discriminate Hr.
  injection Hr as <- <- <-. exists ch, kfr, vfr. auto 10.
Qed.

Section refines.
Context (s : store) (himg kimg vimg : bytes) (m : mp).
Hypothesis HI : Inv s.
Hypothesis Hfit : fits_ok s.
Hypothesis Hhwf : htx_wf (hx s).
Hypothesis H64 : fits64 s.
Hypothesis Hr : render s = Ok (himg, kimg, vimg).
Hypothesis Hkt : m_kt m = kt s.
Hypothesis Hn : m_n m = nb (hx s).
Hypothesis Him : Io.images m = (himg, kimg, vimg).

Theorem len_refines :
  exists m', Io.len m = Ok (Store.len s, m') /\ ro_step (m_st m) (m_st m') /\ Io.images m' = Io.images m /\
    m_kt m' = m_kt m /\ m_n m' = m_n m.
Proof.
  destruct (refine_setup s himg kimg vimg HI Hr) as (ch & kfr & vfr & Hinv & Hki & Hvi & Hrk & Hrv & ->).
  eapply len_refines_st; try eassumption.
  unfold Io.images in Him. injection Him as A B C. unfold holds3. cbn [get_file]. auto.
Qed.

Theorem find_refines key o : Store.find s key = Ok o ->
  exists st', Io.find m key (m_st m) = Ok (o, st') /\ ro_step (m_st m) st'.
Proof.
  intros Hf.
  destruct (refine_setup s himg kimg vimg HI Hr) as (ch & kfr & vfr & Hinv & Hki & Hvi & Hrk & Hrv & ->).
  eapply find_refines_st; try eassumption.
  unfold Io.images in Him. injection Him as A B C. unfold holds3. cbn [get_file]. auto.
Qed.

Theorem get_refines key r : Store.get s key = Ok r ->
  exists m', Io.get m key = Ok (r, m') /\ ro_step (m_st m) (m_st m') /\ Io.images m' = Io.images m /\
    m_kt m' = m_kt m /\ m_n m' = m_n m.
Proof.
  intros Hg.
  destruct (refine_setup s himg kimg vimg HI Hr) as (ch & kfr & vfr & Hinv & Hki & Hvi & Hrk & Hrv & ->).
  eapply get_refines_st; try eassumption.
  unfold Io.images in Him. injection Him as A B C. unfold holds3. cbn [get_file]. auto.
Qed.

Theorem has_refines key r : Store.has s key = Ok r ->
  exists m', Io.has m key = Ok (r, m') /\ ro_step (m_st m) (m_st m') /\ Io.images m' = Io.images m /\
    m_kt m' = m_kt m /\ m_n m' = m_n m.
Proof.
  intros Hg.
  destruct (refine_setup s himg kimg vimg HI Hr) as (ch & kfr & vfr & Hinv & Hki & Hvi & Hrk & Hrv & ->).
  eapply has_refines_st; try eassumption.
  unfold Io.images in Him. injection Him as A B C. unfold holds3. cbn [get_file]. auto.
Qed.
End refines.
Section refines_wf.
Context (s : store) (himg kimg vimg : bytes) (m : mp).
Hypothesis Hwf : Load_all.wf_state s.
Hypothesis H64 : fits64 s.
Hypothesis Hr : render s = Ok (himg, kimg, vimg).
Hypothesis Hkt : m_kt m = kt s.
Hypothesis Hn : m_n m = nb (hx s).
Hypothesis Him : Io.images m = (himg, kimg, vimg).

Theorem len_refines_wf :
  exists m', Io.len m = Ok (Store.len s, m') /\ ro_step (m_st m) (m_st m') /\ Io.images m' = Io.images m.
Proof.
  destruct Hwf as (HI & Hf & Hw).
  destruct (len_refines s himg kimg vimg m HI Hf Hw H64 Hr Him) as (m' & A & B & C & _). eauto.
Qed.

Theorem find_refines_wf key o : Store.find s key = Ok o ->
  exists st', Io.find m key (m_st m) = Ok (o, st') /\ ro_step (m_st m) st'.
Proof. destruct Hwf as (HI & Hf & Hw). exact (find_refines s himg kimg vimg m HI Hf Hw H64 Hr Hkt Hn Him key o). Qed.

Theorem get_refines_wf key r : Store.get s key = Ok r ->
  exists m', Io.get m key = Ok (r, m') /\ ro_step (m_st m) (m_st m') /\ Io.images m' = Io.images m.
Proof.
  intros Hg. destruct Hwf as (HI & Hf & Hw).
  destruct (get_refines s himg kimg vimg m HI Hf Hw H64 Hr Hkt Hn Him key r Hg) as (m' & A & B & C & _). eauto.
Qed.

Theorem has_refines_wf key r : Store.has s key = Ok r ->
  exists m', Io.has m key = Ok (r, m') /\ ro_step (m_st m) (m_st m') /\ Io.images m' = Io.images m.
Proof.
  intros Hg. destruct Hwf as (HI & Hf & Hw).
  destruct (has_refines s himg kimg vimg m HI Hf Hw H64 Hr Hkt Hn Him key r Hg) as (m' & A & B & C & _). eauto.
Qed.
End refines_wf.

(** *** Io_reads2.v *)
Section ops2.
Context (s : store) (ch : N -> list N) (Hinv : sinv s ch) (Hfit : fits_ok s) (Hhwf : htx_wf (hx s)) (H64 : fits64 s).
Context (kfr vfr : nat -> list N)
  (Hki : alloc_inv key_cfg (keyf s) kfr) (Hvi : alloc_inv val_cfg (valf s) vfr).
Context (kimg vimg : bytes).
Hypothesis Hrk : render_pfile key_cfg kslot_bytes (sig_of (kt s)) (keyf s) = Ok kimg.
Hypothesis Hrv : render_pfile val_cfg vslot_bytes (sig_of (kt s)) (valf s) = Ok vimg.

Let Hcore : core s ch None := proj1 Hinv.
Let Hsg : length (sig_of (kt s)) = 8%nat := sig_len (kt s).
Let Hheads := heads_lt s ch Hinv Hfit Hhwf H64 kfr Hki kimg Hrk.
Let H3 := holds3 s kimg vimg.
Let H3ro : forall x x', H3 x -> ro_step x x' -> H3 x' := holds3_ro s kimg vimg.
Let Knext := key_next_refines s ch Hinv Hfit H64 kfr vfr Hki Hvi kimg vimg Hrk Hrv.
Let Kpay := key_payload_refines s ch Hinv Hfit H64 kfr vfr Hki Hvi kimg vimg Hrk Hrv.
Let Lval := load_value_refines s ch Hinv Hfit H64 kfr vfr Hki Hvi kimg vimg Hrk Hrv.
Let Kslot := key_slot_at s ch Hinv Hfit H64 kfr vfr Hki Hvi kimg vimg Hrk Hrv.
Let Rcnt := read_item_count_refines s ch Hinv Hfit Hhwf H64 kfr Hki kimg vimg Hrk.
Let Rhead := read_head_refines s ch Hinv Hfit Hhwf H64 kfr Hki kimg vimg Hrk.

Lemma H3_htx x : H3 x -> holds (sig_of (kt s)) (hx s) x.
Proof. apply holds3_htx. Qed.

(** ** E1. the iterator *)

Lemma iter_new_refines_st x : H3 x ->
  exists x', Io.iter_new x = Ok (to_io (Iter.iter_new s), x') /\ ro_step x x'.
Proof.
  intros Hx. unfold Io.iter_new.
  destruct (read_hash_buckets_size_render (sig_of (kt s)) (hx s) Hsg Hheads ltac:(apply H64) ltac:(apply H64) x (H3_htx x Hx))
    as (x1 & E1 & R1). rewrite E1. cbn [rbind].
  destruct (Rcnt x1 (H3ro _ _ Hx R1)) as (x2 & E2 & R2). rewrite E2. cbn [rbind].
  exists x2. split; [reflexivity|]. eauto using ro_step_trans.
Qed.

Lemma bucket_loop_refines fuel : forall idx j off x, H3 x ->
  Iter.bucket_loop fuel s (nb (hx s)) idx = Ok (j, off) ->
  exists x', Io.bucket_loop fuel (nb (hx s)) idx x = Ok (j, off, x') /\ ro_step x x'.
Proof.
  induction fuel as [|fu IH]; intros idx j off x Hx Hb; [discriminate|].
  cbn [Iter.bucket_loop Io.bucket_loop] in *.
  destruct (N.ltb_spec idx (nb (hx s))) as [Hlt|Hge].
  - destruct (next_nonempty (hx s) (nb (hx s)) idx) as [[j1 o1]| | |] eqn:En; cbn [rbind] in Hb; try discriminate Hb.
    destruct (next_key_piece_offset_refines (sig_of (kt s)) (hx s) Hsg Hhwf Hheads ltac:(apply H64) ltac:(apply H64)
                x idx j1 o1 (H3_htx x Hx) Hlt En) as (x1 & E1 & R1).
    rewrite E1. cbn [rbind].
    destruct (o1 =? 0) eqn:Eo.
    + destruct (IH j1 j off x1 (H3ro _ _ Hx R1) Hb) as (x2 & E2 & R2).
      exists x2. split; [exact E2|]. eauto using ro_step_trans.
    + injection Hb as <- <-. exists x1. split; [reflexivity|exact R1].
  - injection Hb as <- <-. exists x. split; [reflexivity|apply ro_step_refl].
Qed.

Lemma read_krec_heap koff r : read_krec s koff = Ok r -> kheap s !! koff = Some r.
Proof.
  unfold read_krec. destruct (slots (keyf s) !! koff) as [[sz r'|]|] eqn:Hs; try discriminate. intros [= ->].
  apply Refine_relink.used_lookup. eauto.
Qed.

Lemma iter_next_off_n a a' o : Iter.iter_next_off s a = Ok (a', o) -> Iter.it_n a' = Iter.it_n a.
Proof.
  unfold Iter.iter_next_off. intros H.
  destruct (if Iter.it_koff a =? 0 then _ else _) as [k1| | |]; cbn [rbind] in H; try discriminate H.
  destruct (if k1 =? 0 then _ else _) as [[i2 k2]| | |]; cbn [rbind] in H; try discriminate H.
  destruct (_ || _); injection H as <- _; reflexivity.
Qed.

Lemma iter_next_off_refines a a' o x : Iter.it_n a = nb (hx s) -> H3 x ->
  Iter.iter_next_off s a = Ok (a', o) ->
  exists x', Io.iter_next_off (to_io a) x = Ok (to_io a', o, x') /\ ro_step x x'.
Proof.
  intros Hn Hx H. unfold Iter.iter_next_off in H. unfold Io.iter_next_off.
  destruct a as [rem n idx koff]. cbn [Iter.it_rem Iter.it_n Iter.it_idx Iter.it_koff to_io
    Io.it_rem Io.it_n Io.it_idx Io.it_koff] in *. subst n.
  assert (Hk1 : exists k1 x1, (if koff =? 0 then Ok 0 else let* r := read_krec s koff in Ok (k_next r)) = Ok k1 /\
            (if koff =? 0 then Ok (0, x) else read_piece_only_bucket_next_offset koff x) = Ok (k1, x1) /\ ro_step x x1).
  { destruct (koff =? 0).
    - exists 0, x. split; [reflexivity|]. split; [reflexivity|apply ro_step_refl].
    - destruct (read_krec s koff) as [r| | |] eqn:Er; cbn [rbind] in H; try discriminate H.
      destruct (Knext x koff r Hx (read_krec_heap _ _ Er)) as (x1 & E1 & R1).
      exists (k_next r), x1. cbn [rbind]. auto. }
  destruct Hk1 as (k1 & x1 & Ek & E1 & R1). rewrite Ek in H. rewrite E1. cbn [rbind] in *.
  pose proof (H3ro _ _ Hx R1) as Hx1.
  assert (Hk2 : exists i2 k2 x2,
            (if k1 =? 0 then Iter.bucket_loop (S (N.to_nat (nb (hx s)))) s (nb (hx s)) idx else Ok (idx, k1)) = Ok (i2, k2) /\
            (if k1 =? 0 then Io.bucket_loop (S (N.to_nat (nb (hx s)))) (nb (hx s)) idx x1 else Ok (idx, k1, x1)) = Ok (i2, k2, x2) /\
            ro_step x1 x2).
  { destruct (k1 =? 0).
    - destruct (Iter.bucket_loop _ s _ idx) as [[i2 k2]| | |] eqn:Eb; cbn [rbind] in H; try discriminate H.
      destruct (bucket_loop_refines _ idx i2 k2 x1 Hx1 Eb) as (x2 & E2 & R2). exists i2, k2, x2. auto.
    - exists idx, k1, x1. split; [reflexivity|]. split; [reflexivity|apply ro_step_refl]. }
  destruct Hk2 as (i2 & k2 & x2 & Eb & E2 & R2). rewrite Eb in H. rewrite E2. cbn [rbind] in *.
  exists x2. split; [|eauto using ro_step_trans].
  destruct ((k2 =? 0) || (rem =? 0)); injection H as <- <-; reflexivity.
Qed.

Lemma iter_next_refines a a' o x : Iter.it_n a = nb (hx s) -> H3 x ->
  Iter.iter_next s a = Ok (a', o) ->
  exists x', Io.iter_next (to_io a) x = Ok (to_io a', o, x') /\ ro_step x x'.
Proof.
  intros Hn Hx H. unfold Iter.iter_next in H. unfold Io.iter_next.
  destruct (Iter.iter_next_off s a) as [[a1 o1]| | |] eqn:En; cbn [rbind] in H; try discriminate H.
  destruct (iter_next_off_refines a a1 o1 x Hn Hx En) as (x1 & E1 & R1). rewrite E1. cbn [rbind].
  pose proof (H3ro _ _ Hx R1) as Hx1.
  destruct o1 as [koff|].
  - destruct (read_krec s koff) as [r| | |] eqn:Er; cbn [rbind] in H; try discriminate H.
    destruct (read_val s (k_voff r)) as [v| | |] eqn:Ev; cbn [rbind] in H; try discriminate H.
    injection H as <- <-.
    pose proof (read_krec_heap _ _ Er) as Hr.
    destruct (Kslot koff r Hr) as (_ & _ & _ & _ & Hnz & _).
    rewrite (proj2 (N.eqb_neq _ _) Hnz).
    destruct (Kpay x1 koff r Hx1 Hr) as (x2 & E2 & R2). rewrite E2. cbn [rbind].
    destruct (Lval x2 koff r v (H3ro _ _ Hx1 R2) Er Ev) as (x3 & E3 & R3). rewrite E3. cbn [rbind].
    exists x3. split; [reflexivity|]. eauto using ro_step_trans.
  - injection H as <- <-. exists x1. split; [reflexivity|exact R1].
Qed.

Lemma iter_next_n a a' o : Iter.iter_next s a = Ok (a', o) -> Iter.it_n a' = Iter.it_n a.
Proof.
  unfold Iter.iter_next. intros H.
  destruct (Iter.iter_next_off s a) as [[a1 o1]| | |] eqn:En; cbn [rbind] in H; try discriminate H.
  apply iter_next_off_n in En. destruct o1 as [koff|].
  - destruct (read_krec s koff) as [r| | |]; cbn [rbind] in H; try discriminate H.
    destruct (read_val s (k_voff r)) as [v| | |]; cbn [rbind] in H; try discriminate H.
    injection H as <- _. exact En.
  - injection H as <- _. exact En.
Qed.

Lemma iter_collect_refines fuel : forall a acc items a' x, Iter.it_n a = nb (hx s) -> H3 x ->
  Iter.iter_collect fuel s a acc = Ok (items, a') ->
  exists x', Io.iter_collect fuel (to_io a) acc x = Ok (items, to_io a', x') /\ ro_step x x' /\
    Iter.it_n a' = nb (hx s).
Proof.
  induction fuel as [|fu IH]; intros a acc items a' x Hn Hx H; [discriminate|].
  cbn [Iter.iter_collect Io.iter_collect] in *.
  destruct (Iter.iter_next s a) as [[a1 o1]| | |] eqn:En; cbn [rbind] in H; try discriminate H.
  destruct (iter_next_refines a a1 o1 x Hn Hx En) as (x1 & E1 & R1). rewrite E1. cbn [rbind].
  pose proof (iter_next_n _ _ _ En) as Hn1. rewrite Hn in Hn1.
  destruct o1 as [kv|].
  - destruct (IH a1 _ items a' x1 Hn1 (H3ro _ _ Hx R1) H) as (x2 & E2 & R2 & Hn2).
    exists x2. split; [exact E2|]. split; [eauto using ro_step_trans|exact Hn2].
  - injection H as <- <-. exists x1. split; [reflexivity|]. split; [exact R1|exact Hn1].
Qed.

Lemma iter_extra_refines n : forall a ex x, Iter.it_n a = nb (hx s) -> H3 x ->
  Iter.iter_extra n s a = Ok ex ->
  exists x', Io.iter_extra n (to_io a) x = Ok (ex, x') /\ ro_step x x'.
Proof.
  induction n as [|n IH]; intros a ex x Hn Hx H; cbn [Iter.iter_extra Io.iter_extra] in *.
  - injection H as <-. exists x. split; [reflexivity|apply ro_step_refl].
  - destruct (Iter.iter_next s a) as [[a1 o1]| | |] eqn:En; cbn [rbind] in H; try discriminate H.
    destruct (iter_next_refines a a1 o1 x Hn Hx En) as (x1 & E1 & R1). rewrite E1. cbn [rbind].
    pose proof (iter_next_n _ _ _ En) as Hn1. rewrite Hn in Hn1.
    destruct (Iter.iter_extra n s a1) as [rest| | |] eqn:Ee; cbn [rbind] in H; try discriminate H.
    injection H as <-.
    destruct (IH a1 rest x1 Hn1 (H3ro _ _ Hx R1) Ee) as (x2 & E2 & R2). rewrite E2. cbn [rbind].
    exists x2. split; [reflexivity|]. eauto using ro_step_trans.
Qed.

Lemma iter_run_refines_st m items h ex : H3 (m_st m) -> Iter.iter_run s = Ok (items, h, ex) ->
  exists m', Io.iter_run m = Ok (items, h, ex, m') /\ ro_step (m_st m) (m_st m') /\ Io.images m' = Io.images m /\
    m_kt m' = m_kt m /\ m_n m' = m_n m.
Proof.
  intros Hx H. unfold Iter.iter_run in H. unfold Io.iter_run.
  destruct (iter_new_refines_st _ Hx) as (x1 & E1 & R1). rewrite E1. cbn [rbind].
  destruct (Iter.iter_collect _ s (Iter.iter_new s) []) as [[its a1]| | |] eqn:Ec; cbn [rbind] in H; try discriminate H.
  destruct (iter_collect_refines _ (Iter.iter_new s) _ _ _ x1 eq_refl (H3ro _ _ Hx R1) Ec) as (x2 & E2 & R2 & Hn2).
  change (Io.it_rem (to_io (Iter.iter_new s))) with (count (hx s)). rewrite E2. cbn [rbind].
  destruct (Iter.iter_extra 2 s a1) as [ex1| | |] eqn:Ee; cbn [rbind] in H; try discriminate H.
  injection H as <- <- <-.
  destruct (iter_extra_refines 2 a1 ex1 x2 Hn2 (H3ro _ _ (H3ro _ _ Hx R1) R2) Ee) as (x3 & E3 & R3).
  rewrite E3. cbn [rbind].
  assert (R : ro_step (m_st m) x3) by eauto using ro_step_trans.
  eexists. split; [reflexivity|]. cbn [with_st m_st m_kt m_n]. split; [exact R|].
  split; [|auto]. unfold Io.images. cbn [m_st]. apply images_ro. exact R.
Qed.
(** ** E2. statistics: the filling rate *)
Lemma seqN'_S a n : seqN' a (S n) = a :: seqN' (a + 1) n.
Proof.
  unfold seqN'. cbn [seq map]. f_equal; [lia|]. rewrite <- seq_shift, map_map. apply map_ext. intros; lia.
Qed.

Lemma filling_loop_refines cnt : forall idx acc x, H3 x -> idx + N.of_nat cnt <= nb (hx s) ->
  exists x', filling_loop cnt idx acc x =
    Ok (acc + N.of_nat (length (filter (fun i => negb (head_at (hx s) i =? 0)) (seqN' idx cnt))), x') /\ ro_step x x'.
Proof.
  induction cnt as [|c IH]; intros idx acc x Hx Hle.
  - exists x. cbn [filling_loop seqN' seq map]. rewrite filter_nil. cbn [length]. rewrite N.add_0_r.
    split; [reflexivity|apply ro_step_refl].
  - cbn [filling_loop]. destruct (Rhead x idx Hx ltac:(lia)) as (x1 & E1 & R1). rewrite E1. cbn [rbind].
    destruct (IH (idx + 1) (if head_at (hx s) idx =? 0 then acc else acc + 1) x1 (H3ro _ _ Hx R1) ltac:(lia))
      as (x2 & E2 & R2).
    exists x2. split; [|eauto using ro_step_trans]. rewrite E2. f_equal. f_equal.
    rewrite seqN'_S, filter_cons. destruct (head_at (hx s) idx =? 0); cbn [negb].
    + destruct (decide _) as [H|H]; [destruct H|]. reflexivity.
    + destruct (decide _) as [H|H]; [|destruct H; exact I]. cbn [length]. lia.
Qed.

Lemma filling_refines_st x : H3 x ->
  exists x', Io.filling (nb (hx s)) x = Ok (fst (Htx.filling (hx s)), snd (Htx.filling (hx s)), x') /\ ro_step x x'.
Proof.
  intros Hx. unfold Io.filling.
  destruct (filling_loop_refines (N.to_nat (nb (hx s))) 0 0 x Hx ltac:(lia)) as (x1 & E1 & R1).
  rewrite E1. cbn [rbind]. exists x1. split; [|exact R1]. rewrite N.add_0_l. reflexivity.
Qed.
End ops2.

(** ** E2. statistics: a rendered piece file (key file or value file) *)
Lemma index_of_lt x l : forall i0 i, index_of x l i0 = Some i -> (i < i0 + length l)%nat.
Proof.
  induction l as [|a l IH]; intros i0 i H; cbn [index_of] in H; [discriminate|].
  destruct (a =? x); [injection H as <-; cbn [length]; lia|].
  apply IH in H. cbn [length]. lia.
Qed.

Lemma class_idx_lt c sz i : Sizing.cfg_ok c -> class_idx c sz = Ok i -> (i < 16)%nat.
Proof.
  intros Hc H. unfold class_idx in H. destruct (sz =? 0); [discriminate|].
  destruct (index_of sz (size_ary c) 0) as [j|] eqn:E.
  - injection H as <-. apply index_of_lt in E. destruct Hc as [-> | ->]; cbn in E; lia.
  - destruct (_ <? _); [|discriminate]. injection H as <-. destruct Hc as [-> | ->]; cbn; lia.
Qed.

Ltac rd_as L s' E R V :=
  destruct L as (s' & E & R & V & _); [try eassumption ..|]; rewrite E; cbn [rbind].

Lemma encode_0 : encode 0 = [0].
Proof. reflexivity. Qed.

Section piece2.
Context {P : Type} (c : pcfg) (Hc : Sizing.cfg_ok c) (sb : slot P -> bytes) (len : slot P -> N) (f : pfile P)
  (frees : nat -> list N) (Hi : alloc_inv c f frees)
  (sig2 : bytes) (Hs : length sig2 = 8%nat) (img : bytes)
  (Hr : render_pfile c sb sig2 f = Ok img) (Hfe : Alloc.fend f < 2 ^ 64)
  (Hsb : forall o s, slots f !! o = Some s -> blen (sb s) = slot_size s)
  (Hfree : forall sz nxt, sb (Free sz nxt) = slot_bytes sz (free_body nxt))
  (Hlen : forall o s, slots f !! o = Some s ->
     len s < 2 ^ 64 /\ exists rest, sb s = encode (slot_size s / 8) ++ encode (len s) ++ rest).
Context (fd : fid).

Definition holdsF (x : st) : Prop := fb (get_file x fd) = img.

Lemma holdsF_ro x x' : holdsF x -> ro_step x x' -> holdsF x'.
Proof. unfold holdsF. intros H R. rewrite (ro_step_fb _ _ _ R). exact H. Qed.

Let HA : AInv c f := ex_intro _ frees Hi.
Let Hat := render_pfile_at c Hc sb f Hsb sig2 img HA Hs Hr.
Let Pat := @pc_at P c Hc sb f frees Hi sig2 Hs img Hr Hsb.
Let Pslot := @pc_slot P c Hc sb f frees Hi sig2 Hs img Hr Hfe Hsb Hfree.
Let Pblen : blen img = Alloc.fend f := proj1 Hat.

Lemma free_next_lt off sz nxt : slots f !! off = Some (Free sz nxt) -> nxt < 2 ^ 64.
Proof.
  intros Hs'. destruct (@pc_free_listed P c Hc f frees Hi _ _ _ Hs') as (i & Hlt' & Hin).
  rewrite <- (nclasses_eq c Hc) in Hlt'.
  destruct (flist_next_ok _ _ _ (ai_lists _ _ _ Hi i Hlt') _ _ _ Hin Hs') as [-> | [s' Hs2]]; [reflexivity|].
  apply (Pslot _ _ Hs2).
Qed.

Lemma free_view off sz nxt : slots f !! off = Some (Free sz nxt) ->
  exists rest, at_off img off = encode (sz / 8) ++ encode 0 ++ le_bytes 8 nxt ++ rest /\
    off <> 0 /\ sz mod 8 = 0 /\ sz < 2 ^ 64 /\ nxt < 2 ^ 64.
Proof.
  intros Hs'. destruct (Pat _ _ Hs') as [rest E]. rewrite Hfree, slot_bytes_app in E.
  unfold free_body in E. rewrite <- !app_assoc in E.
  destruct (Pslot _ _ Hs') as (_ & _ & _ & H8 & Hlt). cbn [slot_size] in *.
  destruct (inv_slot c Hc _ _ _ _ Hi Hs') as (H192 & _).
  eexists. split; [exact E|]. pose proof (free_next_lt _ _ _ Hs'). repeat split; try assumption; lia.
Qed.

Lemma view_inside x off (d rest : bytes) : holdsF x -> at_off img off = d ++ rest -> d <> [] ->
  off <= Io.fend (get_file x fd).
Proof.
  intros Hx E Hd. unfold Io.fend. rewrite Hx. pose proof (img_off_inside _ _ _ _ E Hd). lia.
Qed.

Lemma read_free_refines x off sz nxt : holdsF x -> slots f !! off = Some (Free sz nxt) ->
  exists x', read_free_piece_size_next fd off x = Ok (sz, nxt, x') /\ ro_step x x'.
Proof.
  intros Hx Hs'. destruct (free_view _ _ _ Hs') as (rest & E & Hnz & H8 & Hlt & Hn).
  unfold read_free_piece_size_next, read_free_fields.
  rd_as (rd_seek fd off x (view_inside x off _ _ Hx E (encode_nonnil _))) x0 E0 R0 V0. rewrite Hx, E in V0.
  rd_as (rd_piece_size fd x0 sz _ H8 Hlt V0) x1 E1 R1 V1.
  rd_as (rd_vu64 fd x1 0 _ ltac:(lia) V1) x2 E2 R2 V2. change (negb (0 =? 0)) with false. cbv iota.
  rd_as (rd_u64 fd x2 nxt _ Hn V2) x3 E3 R3 V3.
  eexists. split; [reflexivity|]. eauto 6 using ro_step_trans.
Qed.

Lemma le8_nonnil v : le_bytes 8 v <> [].
Proof. discriminate. Qed.

Lemma head_view i : (i < 16)%nat ->
  exists rest, at_off img (nth i (free_off c) 0) = le_bytes 8 (head_of f i) ++ rest.
Proof.
  intros Hlt. pose proof Hat as (_ & (bd & Hbd) & _). destruct (cfg_hdr_facts c Hc) as (H1 & H2 & H3 & H4).
  pose proof (@pc_heads_len P c Hc f frees Hi) as Hhl.
  set (free0 := List.hd 0 (free_off c)) in *.
  assert (Hnth : nth i (free_off c) 0 = free0 + 8 * N.of_nat i).
  { rewrite H4. rewrite (nth_indep _ 0 (free0 + 8 * N.of_nat 0)) by (rewrite map_length, seq_length; exact Hlt).
    rewrite (map_nth (fun i => free0 + 8 * N.of_nat i)), seq_nth by exact Hlt. reflexivity. }
  rewrite Hnth, Hbd. unfold render_pheader. cbv zeta. fold free0.
  set (tail := zeros (hdr_size c - (free0 + 8 * N.of_nat (length (heads f)))) ++ bd).
  replace ((sig1 c ++ sig2 ++ zeros (free0 - 16) ++ concat (map (le_bytes 8) (heads f))
            ++ zeros (hdr_size c - (free0 + 8 * N.of_nat (length (heads f))))) ++ bd)
    with ((sig1 c ++ sig2 ++ zeros (free0 - 16)) ++ (concat (map (le_bytes 8) (heads f)) ++ tail))
    by (unfold tail; rewrite <- !app_assoc; reflexivity).
  assert (Hb : blen (sig1 c ++ sig2 ++ zeros (free0 - 16)) = free0)
    by (rewrite !blen_app, blen_zeros; unfold blen; rewrite H1, Hs; lia).
  set (pre := sig1 c ++ sig2 ++ zeros (free0 - 16)) in *.
  replace (free0 + 8 * N.of_nat i) with (blen pre + 8 * N.of_nat i) by (rewrite Hb; reflexivity).
  rewrite at_off_app_add. apply concat_le8_at. rewrite Hhl. exact Hlt.
Qed.

Lemma read_free_on_header_refines x sz i : holdsF x -> class_idx c sz = Ok i ->
  exists x', read_free_on_header c fd sz x = Ok (head_of f i, x') /\ ro_step x x'.
Proof.
  intros Hx Hci. pose proof (class_idx_lt c sz i Hc Hci) as Hlt.
  destruct (head_view i Hlt) as (rest & E).
  unfold read_free_on_header, free_hdr_off. rewrite Hci. cbn [rbind].
  rd_as (rd_seek fd _ x (view_inside x _ _ _ Hx E (le8_nonnil _))) x0 E0 R0 V0. rewrite Hx, E in V0.
  destruct (rd_u64 fd x0 (head_of f i) _ (@pc_head_lt P c Hc sb f frees Hi sig2 Hs img Hr Hfe Hsb Hfree i Hlt) V0)
    as (x' & E' & R' & _).
  exists x'. split; [exact E'|]. eauto using ro_step_trans.
Qed.

(** the free-list walk *)
Lemma count_free_loop_refines : forall l h, flist f h l -> forall f1 f2 acc n x, (length l < f2)%nat ->
  count_free_from f1 f h acc = Ok n -> holdsF x ->
  exists x', count_free_loop f2 fd h acc x = Ok (n, x') /\ ro_step x x'.
Proof.
  intros l h Hl. induction Hl as [|off sz nxt l Hnz Hs' Hl IH]; intros f1 f2 acc n x Hf2 Hc1 Hx.
  - destruct f1 as [|f1]; [discriminate|]. destruct f2 as [|f2]; [lia|].
    cbn [count_free_from count_free_loop] in *. change (0 =? 0) with true in *. cbv iota in *.
    injection Hc1 as <-. exists x. split; [reflexivity|apply ro_step_refl].
  - destruct f1 as [|f1]; [discriminate|]. destruct f2 as [|f2]; [cbn [length] in Hf2; lia|].
    cbn [count_free_from count_free_loop] in *. rewrite (proj2 (N.eqb_neq _ _) Hnz) in *.
    unfold read_free in Hc1. rewrite Hs' in Hc1. cbn [rbind] in Hc1.
    destruct (read_free_refines x off sz nxt Hx Hs') as (x1 & E1 & R1). rewrite E1. cbn [rbind].
    destruct (IH f1 f2 (acc + 1) n x1 ltac:(cbn [length] in Hf2; lia) Hc1 (holdsF_ro _ _ Hx R1)) as (x2 & E2 & R2).
    exists x2. split; [exact E2|]. eauto using ro_step_trans.
Qed.

Lemma frees_len i : (i < 16)%nat -> (length (frees i) <= N.to_nat (blen img / 8))%nat.
Proof.
  intros Hlt. apply mult8_count.
  - pose proof (ai_nodup _ _ _ Hi) as Hnd. apply (inv_nodup_iff c Hc) in Hnd as [Hnd _]. apply Hnd. exact Hlt.
  - intros o Ho. destruct (inv_free_elem c Hc _ _ _ _ Hi Hlt Ho) as (Hnz & sz & nxt & E & _ & Hv).
    destruct (inv_slot c Hc _ _ _ _ Hi E) as (H192 & H8 & _ & Hle).
    destruct (valid_slot_size_facts c Hc _ Hv) as [H16 _]. cbn [slot_size] in *. rewrite Pblen. lia.
Qed.

Lemma count_of_free_piece_list_refines x sz n : holdsF x -> count_free_list c f sz = Ok n ->
  exists x', count_of_free_piece_list c fd sz x = Ok (n, x') /\ ro_step x x'.
Proof.
  intros Hx H. unfold count_free_list in H. unfold count_of_free_piece_list.
  destruct (class_idx c sz) as [i| | |] eqn:Hci; cbn [rbind] in H; try discriminate H.
  pose proof (class_idx_lt c sz i Hc Hci) as Hlt.
  destruct (read_free_on_header_refines x sz i Hx Hci) as (x1 & E1 & R1). rewrite E1. cbn [rbind].
  pose proof (holdsF_ro _ _ Hx R1) as Hx1.
  assert (Hlt' : (i < nclasses c)%nat) by (rewrite (nclasses_eq c Hc); exact Hlt).
  destruct (count_free_loop_refines _ _ (ai_lists _ _ _ Hi i Hlt') (S (size (slots f))) (walk_fuel x1 fd) 0 n x1)
    as (x2 & E2 & R2); [|exact H|exact Hx1|].
  - unfold walk_fuel, Io.fend. rewrite Hx1. pose proof (frees_len i Hlt). lia.
  - exists x2. split; [exact E2|]. eauto using ro_step_trans.
Qed.

Lemma count_frees_refines szs : forall x r, holdsF x -> Stats.count_frees c f szs = Ok r ->
  exists x', Io.count_frees c fd szs x = Ok (r, x') /\ ro_step x x'.
Proof.
  induction szs as [|sz rest IH]; intros x r Hx H; cbn [Stats.count_frees Io.count_frees] in *.
  - injection H as <-. exists x. split; [reflexivity|apply ro_step_refl].
  - destruct (count_free_list c f sz) as [n| | |] eqn:E; cbn [rbind] in H; try discriminate H.
    destruct (Stats.count_frees c f rest) as [r1| | |] eqn:Er; cbn [rbind] in H; try discriminate H.
    injection H as <-.
    destruct (count_of_free_piece_list_refines x sz n Hx E) as (x1 & E1 & R1). rewrite E1. cbn [rbind].
    destruct (IH x1 r1 (holdsF_ro _ _ Hx R1) eq_refl) as (x2 & E2 & R2). rewrite E2. cbn [rbind].
    exists x2. split; [reflexivity|]. eauto using ro_step_trans.
Qed.
(** *** the sequential slot walk *)
Lemma slot_view o sl : slots f !! o = Some sl -> exists rest,
  at_off img o = encode (slot_size sl / 8) ++ encode (len sl) ++ rest /\
  o <> 0 /\ slot_size sl mod 8 = 0 /\ slot_size sl < 2 ^ 64 /\ len sl < 2 ^ 64.
Proof.
  intros Hs'. destruct (Pat _ _ Hs') as [rest0 E]. destruct (Hlen _ _ Hs') as (Hl & rest1 & E1).
  rewrite E1, <- !app_assoc in E.
  destruct (Pslot _ _ Hs') as (_ & _ & _ & H8 & Hlt).
  destruct (inv_slot c Hc _ _ _ _ Hi Hs') as (H192 & _).
  eexists. split; [exact E|]. repeat split; try assumption; lia.
Qed.

Lemma advance_refines x o sl : holdsF x -> slots f !! o = Some sl ->
  exists x', (let* (_, a1) := seek_from_start fd o x in read_piece_size fd a1) = Ok (slot_size sl, x') /\ ro_step x x'.
Proof.
  intros Hx Hs'. destruct (slot_view _ _ Hs') as (rest & E & Hnz & H8 & Hlt & Hl).
  rd_as (rd_seek fd o x (view_inside x o _ _ Hx E (encode_nonnil _))) x0 E0 R0 V0. rewrite Hx, E in V0.
  destruct (rd_piece_size fd x0 _ _ H8 Hlt V0) as (x1 & E1 & R1 & _).
  exists x1. split; [exact E1|]. eauto using ro_step_trans.
Qed.

Lemma only_size_refines x o sl : holdsF x -> slots f !! o = Some sl ->
  exists x', read_piece_only_size fd o x = Ok (slot_size sl, x') /\ ro_step x x'.
Proof.
  intros Hx Hs'. destruct (slot_view _ _ Hs') as (_ & _ & Hnz & _).
  unfold read_piece_only_size. rewrite (proj2 (N.eqb_neq _ _) Hnz). apply advance_refines; assumption.
Qed.

Lemma only_length_refines x o sl : holdsF x -> slots f !! o = Some sl ->
  exists x', read_piece_only_length fd o x = Ok (len sl, x') /\ ro_step x x'.
Proof.
  intros Hx Hs'. destruct (slot_view _ _ Hs') as (rest & E & Hnz & H8 & Hlt & Hl).
  unfold read_piece_only_length. rewrite (proj2 (N.eqb_neq _ _) Hnz). rewrite <- Hx in E.
  rd_as (rd_skip_to_piece fd x o (slot_size sl / 8) _ (div8_lt _ Hlt) E) x0 E0 R0 V0.
  destruct (rd_vu64 fd x0 (len sl) _ Hl V0) as (x1 & E1 & R1 & _).
  exists x1. split; [exact E1|]. eauto using ro_step_trans.
Qed.

Definition g_size (h : list (N * N)) (os : N * slot P) : list (N * N) :=
  if len (snd os) =? 0 then h else touch_hist h (slot_size (snd os)).
Definition g_len (h : list (N * N)) (os : N * slot P) : list (N * N) :=
  if len (snd os) =? 0 then h else touch_hist h (len (snd os)).

Lemma size_visit_refines x o sl acc : holdsF x -> slots f !! o = Some sl ->
  exists x', size_visit fd o acc x = Ok (g_size acc (o, sl), x') /\ ro_step x x'.
Proof.
  intros Hx Hs'. unfold size_visit.
  destruct (only_size_refines x o sl Hx Hs') as (x1 & E1 & R1). rewrite E1. cbn [rbind].
  destruct (only_length_refines x1 o sl (holdsF_ro _ _ Hx R1) Hs') as (x2 & E2 & R2). rewrite E2. cbn [rbind].
  exists x2. split; [reflexivity|]. eauto using ro_step_trans.
Qed.

Lemma len_visit_refines x o sl acc : holdsF x -> slots f !! o = Some sl ->
  exists x', len_visit fd o acc x = Ok (g_len acc (o, sl), x') /\ ro_step x x'.
Proof.
  intros Hx Hs'. unfold len_visit.
  destruct (only_length_refines x o sl Hx Hs') as (x2 & E2 & R2). rewrite E2. cbn [rbind].
  exists x2. split; [reflexivity|exact R2].
Qed.

Lemma walk_len fuel : forall off l, walk_slots fuel f off = Ok l ->
  off + 8 * N.of_nat (length l) <= N.max off (Alloc.fend f).
Proof.
  induction fuel as [|fu IH]; intros off l H; [discriminate|]. cbn [walk_slots] in H.
  destruct (N.ltb_spec off (Alloc.fend f)) as [Hlt|Hge].
  - destruct (slots f !! off) as [sl|] eqn:Hs'; [|discriminate].
    destruct (slot_size sl =? 0); [discriminate|].
    destruct (walk_slots fu f (off + slot_size sl)) as [rest| | |] eqn:Er; cbn [rbind] in H; try discriminate H.
    injection H as <-. apply IH in Er. cbn [length].
    destruct (inv_slot c Hc _ _ _ _ Hi Hs') as (_ & _ & Hv & Hle).
    destruct (valid_slot_size_facts c Hc _ Hv) as [H16 _]. lia.
  - injection H as <-. cbn [length]. lia.
Qed.

Section walk2.
Context (visit : N -> list (N * N) -> st -> res (list (N * N) * st)) (g : list (N * N) -> N * slot P -> list (N * N)).
Hypothesis Hvisit : forall x o sl acc, holdsF x -> slots f !! o = Some sl ->
  exists x', visit o acc x = Ok (g acc (o, sl), x') /\ ro_step x x'.

Lemma piece_walk_refines f1 : forall nxt l, walk_slots f1 f nxt = Ok l ->
  forall f2 prev acc x, (length l < f2)%nat -> holdsF x ->
  (prev = 0 /\ nxt = hdr_size c) \/ (exists sl, slots f !! prev = Some sl /\ nxt = prev + slot_size sl) ->
  exists x', piece_walk c fd visit f2 prev (Alloc.fend f) acc x = Ok (fold_left g l acc, x') /\ ro_step x x'.
Proof.
  induction f1 as [|f1 IH]; intros nxt l H f2 prev acc x Hf2 Hx Hprev; [discriminate|].
  destruct f2 as [|f2]; [lia|]. cbn [walk_slots piece_walk] in *.
  assert (Hn : exists x1, (if prev =? 0 then Ok (hdr_size c, x)
                           else let* (_, a1) := seek_from_start fd prev x in
                                let* (sz, a2) := read_piece_size fd a1 in Ok (prev + sz, a2)) = Ok (nxt, x1) /\
                          ro_step x x1).
  { destruct Hprev as [[-> ->] | (sl & Hs' & ->)].
    - exists x. split; [reflexivity|apply ro_step_refl].
    - destruct (inv_slot c Hc _ _ _ _ Hi Hs') as (H192 & _).
      rewrite (proj2 (N.eqb_neq prev 0)) by lia.
      destruct (advance_refines x prev sl Hx Hs') as (x1 & E1 & R1).
      unfold seek_from_start in *. cbn [rbind] in *.
      destruct (read_piece_size fd (seek_to fd prev x)) as [[sz a2]| | |]; try discriminate E1.
      injection E1 as -> ->. cbn [rbind]. exists x1. split; [reflexivity|exact R1]. }
  destruct Hn as (x1 & En & R1). rewrite En. cbn [rbind]. pose proof (holdsF_ro _ _ Hx R1) as Hx1.
  destruct (nxt <? Alloc.fend f).
  - destruct (slots f !! nxt) as [sl|] eqn:Hs'; [|discriminate].
    destruct (slot_size sl =? 0); [discriminate|].
    destruct (walk_slots f1 f (nxt + slot_size sl)) as [rest| | |] eqn:Er; cbn [rbind] in H; try discriminate H.
    injection H as <-. cbn [length] in Hf2.
    destruct (Hvisit x1 nxt sl acc Hx1 Hs') as (x2 & E2 & R2). rewrite E2. cbn [rbind].
    destruct (IH _ rest Er f2 nxt (g acc (nxt, sl)) x2 ltac:(lia) (holdsF_ro _ _ Hx1 R2)) as (x3 & E3 & R3).
    { right. exists sl. auto. }
    exists x3. split; [exact E3|]. eauto using ro_step_trans.
  - injection H as <-. exists x1. split; [reflexivity|exact R1].
Qed.

Lemma piece_stats_refines x l : holdsF x -> all_slots c f = Ok l ->
  exists x', piece_stats c fd visit x = Ok (fold_left g l [], x') /\ ro_step x x'.
Proof.
  intros Hx H. unfold all_slots in H. unfold piece_stats, seek_to_end. cbn [rbind].
  assert (Hfe' : Io.fend (get_file x fd) = Alloc.fend f) by (unfold Io.fend; rewrite Hx; exact Pblen).
  assert (R1 : ro_step x (seek_to fd (Io.fend (get_file x fd)) x)) by (apply ro_step_seek; lia).
  set (x1 := seek_to fd (Io.fend (get_file x fd)) x) in *.
  pose proof (holdsF_ro _ _ Hx R1) as Hx1.
  rewrite Hfe'.
  destruct (piece_walk_refines _ _ _ H (S (walk_fuel x1 fd)) 0 [] x1) as (x2 & E2 & R2); [|exact Hx1|left; auto|].
  - apply walk_len in H. pose proof (ai_fend _ _ _ Hi) as Hge.
    unfold walk_fuel, Io.fend. rewrite Hx1, Pblen.
    assert (N.of_nat (length l) <= Alloc.fend f / 8) by (apply N.div_le_lower_bound; lia). lia.
  - exists x2. split; [exact E2|]. eauto using ro_step_trans.
Qed.
End walk2.

Lemma piece_stats_size_refines x l : holdsF x -> all_slots c f = Ok l ->
  exists x', piece_stats c fd (size_visit fd) x = Ok (size_hist len l, x') /\ ro_step x x'.
Proof. apply (piece_stats_refines (size_visit fd) g_size). intros. apply size_visit_refines; assumption. Qed.

Lemma piece_stats_len_refines x l : holdsF x -> all_slots c f = Ok l ->
  exists x', piece_stats c fd (len_visit fd) x = Ok (len_hist len l, x') /\ ro_step x x'.
Proof. apply (piece_stats_refines (len_visit fd) g_len). intros. apply len_visit_refines; assumption. Qed.
End piece2.

(** ** E2. the statistics of a map *)
Section ops3.
Context (s : store) (ch : N -> list N) (Hinv : sinv s ch) (Hfit : fits_ok s) (Hhwf : htx_wf (hx s)) (H64 : fits64 s).
Context (kfr vfr : nat -> list N)
  (Hki : alloc_inv key_cfg (keyf s) kfr) (Hvi : alloc_inv val_cfg (valf s) vfr).
Context (kimg vimg : bytes).
Hypothesis Hrk : render_pfile key_cfg kslot_bytes (sig_of (kt s)) (keyf s) = Ok kimg.
Hypothesis Hrv : render_pfile val_cfg vslot_bytes (sig_of (kt s)) (valf s) = Ok vimg.

Let Hcore : core s ch None := proj1 Hinv.
Let Hsg : length (sig_of (kt s)) = 8%nat := sig_len (kt s).
Let H3 := holds3 s kimg vimg.
Let H3ro : forall x x', H3 x -> ro_step x x' -> H3 x' := holds3_ro s kimg vimg.

Lemma kslot_hdr o sl : slots (keyf s) !! o = Some sl ->
  kslot_len sl < 2 ^ 64 /\ exists rest, kslot_bytes sl = encode (slot_size sl / 8) ++ encode (kslot_len sl) ++ rest.
Proof.
  intros Hs. destruct sl as [sz r|sz nxt]; cbn [kslot_len kslot_bytes slot_size].
  - assert (Hr : kheap s !! o = Some r) by (apply Refine_relink.used_lookup; eauto).
    destruct (co_kwf _ _ _ Hcore _ _ Hr) as (_ & Hk & _). pose proof pow31_lt_pow64.
    split; [lia|]. unfold slot_bytes, key_body. cbv zeta. rewrite <- !app_assoc. eexists. reflexivity.
  - split; [reflexivity|]. unfold slot_bytes, free_body. cbv zeta. rewrite <- !app_assoc.
    change (encode 0) with [0]. eexists. reflexivity.
Qed.

Lemma vslot_hdr o sl : slots (valf s) !! o = Some sl ->
  vslot_len sl < 2 ^ 64 /\ exists rest, vslot_bytes sl = encode (slot_size sl / 8) ++ encode (vslot_len sl) ++ rest.
Proof.
  intros Hs. destruct sl as [sz v|sz nxt]; cbn [vslot_len vslot_bytes slot_size].
  - assert (Hv : vheap s !! o = Some v) by (apply Refine_relink.used_lookup; eauto).
    destruct (co_vwf _ _ _ Hcore _ _ Hv) as (_ & Hk). pose proof pow31_lt_pow64.
    split; [lia|]. unfold slot_bytes, val_body. cbv zeta. rewrite <- !app_assoc. eexists. reflexivity.
  - split; [reflexivity|]. unfold slot_bytes, free_body. cbv zeta. rewrite <- !app_assoc.
    change (encode 0) with [0]. eexists. reflexivity.
Qed.

Lemma H3_key x : H3 x -> holdsF kimg FKey x.
Proof. intros (_ & A & _). exact A. Qed.
Lemma H3_val x : H3 x -> holdsF vimg FVal x.
Proof. intros (_ & _ & A). exact A. Qed.

Local Notation KP L := (L krec key_cfg kc_ok kslot_bytes kslot_len (keyf s) kfr Hki (sig_of (kt s)) Hsg kimg Hrk (st_kfe s H64)
     (kslot_len_ok s Hfit kfr Hki) kfree_eq kslot_hdr FKey).
Local Notation VP L := (L bytes val_cfg vc_ok vslot_bytes vslot_len (valf s) vfr Hvi (sig_of (kt s)) Hsg vimg Hrv (st_vfe s H64)
     (vslot_len_ok s Hfit vfr Hvi) vfree_eq vslot_hdr FVal).

Lemma stats_of_refines_st m r : H3 (m_st m) -> m_n m = nb (hx s) -> Stats.stats_of s = Ok r ->
  exists m', Io.stats_of m = Ok (r, m') /\ ro_step (m_st m) (m_st m') /\ Io.images m' = Io.images m /\
    m_kt m' = m_kt m /\ m_n m' = m_n m.
Proof.
  intros Hx Hn H. unfold Stats.stats_of in H. unfold Io.stats_of. cbv zeta. rewrite Hn.
  destruct (Stats.count_frees key_cfg (keyf s) (size_ary key_cfg)) as [fk| | |] eqn:Efk; cbn [rbind] in H; try discriminate H.
  destruct (Stats.count_frees val_cfg (valf s) (size_ary val_cfg)) as [fv| | |] eqn:Efv; cbn [rbind] in H; try discriminate H.
  destruct (all_slots key_cfg (keyf s)) as [ks| | |] eqn:Eks; cbn [rbind] in H; try discriminate H.
  destruct (all_slots val_cfg (valf s)) as [vs| | |] eqn:Evs; cbn [rbind] in H; try discriminate H.
  injection H as <-.
  destruct (filling_refines_st s ch Hinv Hfit Hhwf H64 kfr vfr Hki Hvi kimg vimg Hrk Hrv _ Hx) as (x0 & E0 & R0).
  rewrite E0. cbn [rbind]. pose proof (H3ro _ _ Hx R0) as Hx0.
  destruct (KP (@count_frees_refines) _ x0 fk (H3_key _ Hx0) Efk) as (x1 & E1 & R1).
  rewrite E1. cbn [rbind]. pose proof (H3ro _ _ Hx0 R1) as Hx1.
  destruct (VP (@count_frees_refines) _ x1 fv (H3_val _ Hx1) Efv) as (x2 & E2 & R2).
  rewrite E2. cbn [rbind]. pose proof (H3ro _ _ Hx1 R2) as Hx2.
  destruct (KP (@piece_stats_size_refines) x2 ks (H3_key _ Hx2) Eks) as (x3 & E3 & R3).
  rewrite E3. cbn [rbind]. pose proof (H3ro _ _ Hx2 R3) as Hx3.
  destruct (VP (@piece_stats_size_refines) x3 vs (H3_val _ Hx3) Evs) as (x4 & E4 & R4).
  rewrite E4. cbn [rbind]. pose proof (H3ro _ _ Hx3 R4) as Hx4.
  destruct (KP (@piece_stats_len_refines) x4 ks (H3_key _ Hx4) Eks) as (x5 & E5 & R5).
  rewrite E5. cbn [rbind]. pose proof (H3ro _ _ Hx4 R5) as Hx5.
  destruct (VP (@piece_stats_len_refines) x5 vs (H3_val _ Hx5) Evs) as (x6 & E6 & R6).
  rewrite E6. cbn [rbind].
  assert (R : ro_step (m_st m) x6) by eauto 10 using ro_step_trans.
  eexists. split; [reflexivity|]. cbn [with_st m_st m_kt m_n]. split; [exact R|].
  split; [|auto]. unfold Io.images. cbn [m_st]. apply images_ro. exact R.
Qed.
End ops3.

(** ** the statements on [render s] *)
Section refines2.
Context (s : store) (himg kimg vimg : bytes).
Hypothesis HI : Inv s.
Hypothesis Hfit : fits_ok s.
Hypothesis Hhwf : htx_wf (hx s).
Hypothesis H64 : fits64 s.
Hypothesis Hr : render s = Ok (himg, kimg, vimg).

(** an Io state whose three files hold the images *)
Definition on_images (x : st) : Prop := (fb (s_htx x), fb (s_key x), fb (s_val x)) = (himg, kimg, vimg).

Lemma on_images_ro x x' : on_images x -> ro_step x x' -> on_images x'.
Proof. unfold on_images. intros H R. rewrite (images_ro _ _ R). exact H. Qed.

Ltac setup Hx :=
  destruct (refine_setup s himg kimg vimg HI Hr) as (ch & kfr & vfr & Hinv & Hki & Hvi & Hrk & Hrv & Eh);
  assert (Hx3 : holds3 s kimg vimg _) by
    (unfold on_images in Hx; injection Hx as A B C; unfold holds3; cbn [get_file]; rewrite <- Eh; eauto).

Theorem iter_new_refines x : on_images x ->
  exists x', Io.iter_new x = Ok (to_io (Iter.iter_new s), x') /\ ro_step x x'.
Proof. intros Hx. setup Hx. eapply iter_new_refines_st; eassumption. Qed.

Theorem bucket_loop_refines' fuel idx j off x : on_images x ->
  Iter.bucket_loop fuel s (nb (hx s)) idx = Ok (j, off) ->
  exists x', Io.bucket_loop fuel (nb (hx s)) idx x = Ok (j, off, x') /\ ro_step x x'.
Proof. intros Hx H. setup Hx. eapply bucket_loop_refines; eassumption. Qed.

Theorem iter_next_off_refines' a a' o x : Iter.it_n a = nb (hx s) -> on_images x ->
  Iter.iter_next_off s a = Ok (a', o) ->
  exists x', Io.iter_next_off (to_io a) x = Ok (to_io a', o, x') /\ ro_step x x' /\ Iter.it_n a' = nb (hx s).
Proof.
  intros Hn Hx H. setup Hx. pose proof (iter_next_off_n s _ _ _ H) as Hn'. rewrite Hn in Hn'.
  destruct (iter_next_off_refines s ch Hinv Hfit Hhwf H64 kfr vfr Hki Hvi kimg vimg Hrk Hrv a a' o x Hn Hx3 H)
    as (x' & E & R). eauto.
Qed.

Theorem iter_next_refines' a a' o x : Iter.it_n a = nb (hx s) -> on_images x ->
  Iter.iter_next s a = Ok (a', o) ->
  exists x', Io.iter_next (to_io a) x = Ok (to_io a', o, x') /\ ro_step x x' /\ Iter.it_n a' = nb (hx s).
Proof.
  intros Hn Hx H. setup Hx. pose proof (iter_next_n s _ _ _ H) as Hn'. rewrite Hn in Hn'.
  destruct (iter_next_refines s ch Hinv Hfit Hhwf H64 kfr vfr Hki Hvi kimg vimg Hrk Hrv a a' o x Hn Hx3 H)
    as (x' & E & R). eauto.
Qed.

Theorem filling_refines x : on_images x ->
  exists x', Io.filling (nb (hx s)) x = Ok (fst (Htx.filling (hx s)), snd (Htx.filling (hx s)), x') /\ ro_step x x'.
Proof. intros Hx. setup Hx. eapply filling_refines_st; eassumption. Qed.

Theorem count_frees_key_refines szs r x : on_images x -> Stats.count_frees key_cfg (keyf s) szs = Ok r ->
  exists x', Io.count_frees key_cfg FKey szs x = Ok (r, x') /\ ro_step x x'.
Proof.
  intros Hx H. setup Hx.
  exact (@count_frees_refines krec key_cfg kc_ok kslot_bytes kslot_len (keyf s) kfr Hki (sig_of (kt s)) (sig_len _) kimg Hrk
           (st_kfe s H64) (kslot_len_ok s Hfit kfr Hki) kfree_eq (kslot_hdr s ch Hinv) FKey szs x r (proj1 (proj2 Hx3)) H).
Qed.

Theorem count_frees_val_refines szs r x : on_images x -> Stats.count_frees val_cfg (valf s) szs = Ok r ->
  exists x', Io.count_frees val_cfg FVal szs x = Ok (r, x') /\ ro_step x x'.
Proof.
  intros Hx H. setup Hx.
  exact (@count_frees_refines bytes val_cfg vc_ok vslot_bytes vslot_len (valf s) vfr Hvi (sig_of (kt s)) (sig_len _) vimg Hrv
           (st_vfe s H64) (vslot_len_ok s Hfit vfr Hvi) vfree_eq (vslot_hdr s ch Hinv) FVal szs x r (proj2 (proj2 Hx3)) H).
Qed.

Theorem piece_stats_key_refines l x : on_images x -> all_slots key_cfg (keyf s) = Ok l ->
  (exists x', piece_stats key_cfg FKey (size_visit FKey) x = Ok (size_hist kslot_len l, x') /\ ro_step x x') /\
  (exists x', piece_stats key_cfg FKey (len_visit FKey) x = Ok (len_hist kslot_len l, x') /\ ro_step x x').
Proof.
  intros Hx H. setup Hx. split.
  - exact (@piece_stats_size_refines krec key_cfg kc_ok kslot_bytes kslot_len (keyf s) kfr Hki (sig_of (kt s)) (sig_len _) kimg Hrk
           (st_kfe s H64) (kslot_len_ok s Hfit kfr Hki) kfree_eq (kslot_hdr s ch Hinv) FKey x l (proj1 (proj2 Hx3)) H).
  - exact (@piece_stats_len_refines krec key_cfg kc_ok kslot_bytes kslot_len (keyf s) kfr Hki (sig_of (kt s)) (sig_len _) kimg Hrk
           (st_kfe s H64) (kslot_len_ok s Hfit kfr Hki) kfree_eq (kslot_hdr s ch Hinv) FKey x l (proj1 (proj2 Hx3)) H).
Qed.

Theorem piece_stats_val_refines l x : on_images x -> all_slots val_cfg (valf s) = Ok l ->
  (exists x', piece_stats val_cfg FVal (size_visit FVal) x = Ok (size_hist vslot_len l, x') /\ ro_step x x') /\
  (exists x', piece_stats val_cfg FVal (len_visit FVal) x = Ok (len_hist vslot_len l, x') /\ ro_step x x').
Proof.
  intros Hx H. setup Hx. split.
  - exact (@piece_stats_size_refines bytes val_cfg vc_ok vslot_bytes vslot_len (valf s) vfr Hvi (sig_of (kt s)) (sig_len _) vimg Hrv
           (st_vfe s H64) (vslot_len_ok s Hfit vfr Hvi) vfree_eq (vslot_hdr s ch Hinv) FVal x l (proj2 (proj2 Hx3)) H).
  - exact (@piece_stats_len_refines bytes val_cfg vc_ok vslot_bytes vslot_len (valf s) vfr Hvi (sig_of (kt s)) (sig_len _) vimg Hrv
           (st_vfe s H64) (vslot_len_ok s Hfit vfr Hvi) vfree_eq (vslot_hdr s ch Hinv) FVal x l (proj2 (proj2 Hx3)) H).
Qed.

(** the API *)
Context (m : mp).
Hypothesis Hkt : m_kt m = kt s.
Hypothesis Hn : m_n m = nb (hx s).
Hypothesis Him : Io.images m = (himg, kimg, vimg).

Theorem iter_run_refines items h ex : Iter.iter_run s = Ok (items, h, ex) ->
  exists m', Io.iter_run m = Ok (items, h, ex, m') /\ ro_step (m_st m) (m_st m') /\ Io.images m' = Io.images m /\
    m_kt m' = m_kt m /\ m_n m' = m_n m.
Proof.
  intros H. assert (Hx : on_images (m_st m)) by exact Him. setup Hx.
  eapply iter_run_refines_st; eassumption.
Qed.

Theorem stats_of_refines r : Stats.stats_of s = Ok r ->
  exists m', Io.stats_of m = Ok (r, m') /\ ro_step (m_st m) (m_st m') /\ Io.images m' = Io.images m /\
    m_kt m' = m_kt m /\ m_n m' = m_n m.
Proof.
  intros H. assert (Hx : on_images (m_st m)) by exact Him. setup Hx.
  eapply stats_of_refines_st; eassumption.
Qed.
End refines2.

(** ** PART 3. a tight step is inside the domain of the cache theorem *)

Lemma chunk_off_le cs y : chunk_off cs y <= y.
Proof.
  unfold chunk_off. destruct (N.eq_dec cs 0) as [->|Hz].
  - rewrite N.mul_0_r. lia.
  - rewrite N.mul_comm. apply N.mul_div_le. exact Hz.
Qed.

(** no chunk starts within [k] bytes after [e] *)
Definition chunk_free_at (cs e k : N) : Prop := forall j, j <= k -> chunk_off cs (e + j) <= e.

Lemma chunk_free_at_0 cs e : chunk_free_at cs e 0.
Proof. intros j Hj. replace (e + j) with e by lia. apply chunk_off_le. Qed.

Lemma chunk_free_at_le cs e k y : chunk_free_at cs e k -> y <= e + k -> chunk_off cs y <= e.
Proof.
  intros H Hy. destruct (N.le_gt_cases y e) as [Hle|Hgt].
  - pose proof (chunk_off_le cs y). lia.
  - replace y with (e + (y - e)) by lia. apply H. lia.
Qed.

(** the calls of file [f] whose events are all quiet (in the strengthened sense) are inside the
    domain, and they leave the bytes alone *)
Lemma tight_calls_ok (s : st) cs f : chunk_free_at cs (fend (get_file s f)) (slack f) ->
  forall l x, f_end x = fend (get_file s f) -> Forall (ev_quiet s) (tevs f x l) ->
  calls_ok cs x l = true /\ f_bytes (trun x l) = f_bytes x.
Proof.
  intros Hcf. induction l as [|c l IH]; intros x He Hq; [split; reflexivity|].
  cbn [tevs] in Hq. apply Forall_cons in Hq as [Hc Hq]. cbn [calls_ok trun].
  destruct c as [t|n|d|n]; cbn [call_ev ev_quiet] in Hc; try contradiction.
  - (* a seek inside the file *)
    assert (Hb : f_bytes (tstep x (CSeek t)) = f_bytes x).
    { cbn [tstep f_bytes]. apply pad_to_le. unfold f_end in He. lia. }
    destruct (IH (tstep x (CSeek t))) as [A B]; [unfold f_end in *; rewrite Hb; exact He|exact Hq|].
    cbn [call_ok]. rewrite A, B, Hb. split; reflexivity.
  - (* a read ending at most [slack f] bytes beyond the end *)
    destruct (IH (tstep x (CRead n))) as [A B]; [exact He|exact Hq|].
    cbn [call_ok]. rewrite A, B. split; [|reflexivity]. rewrite andb_true_r.
    unfold xread_ok. apply N.leb_le. rewrite He. apply (chunk_free_at_le _ _ _ _ Hcf). lia.
Qed.

(** the domain statement for a step [s -> s']: file by file the step is a run of calls with
    exactly the logged events, all of them inside the domain of [xrun] for the chunk size of the
    file - as calls ([calls_ok]) and as read off the events ([evs_ok]) - so that the flat reference
    run of the canonical calls is defined and ends in the file of [s'] *)
Definition in_domain (s s' : st) : Prop :=
  exists (cf : fid -> list call) evs,
    s_log s' = rev evs ++ s_log s /\
    (forall f, trun (flat_of (get_file s f)) (cf f) = flat_of (get_file s' f) /\
               fcs (get_file s' f) = fcs (get_file s f)) /\
    (forall f, evs_on f evs = tevs f (flat_of (get_file s f)) (cf f)) /\
    (forall f, calls_ok (fcs (get_file s f)) (flat_of (get_file s f)) (cf f) = true) /\
    (forall f, evs_ok (fcs (get_file s f)) f (fp (get_file s f)) (fend (get_file s f)) evs = true) /\
    (forall f, xrun (fcs (get_file s f)) (flat_of (get_file s f)) (map call_op (cf f)) =
               Some (flat_of (get_file s' f), touts (flat_of (get_file s f)) (cf f))).

(** no chunk of any of the three buffers starts within [slack] bytes after the end of its file *)
Definition chunk_free (s : st) : Prop :=
  forall f, chunk_free_at (fcs (get_file s f)) (fend (get_file s f)) (slack f).

Lemma chunk_free_ro s s' : ro_step s s' -> chunk_free s -> chunk_free s'.
Proof.
  intros [H _] Hc f. specialize (Hc f). destruct (H f) as [Hb Hs]. unfold fend. rewrite Hb, Hs. exact Hc.
Qed.

Lemma Forall_filter_list {A} (P : A -> Prop) (g : A -> bool) l : Forall P l -> Forall P (List.filter g l).
Proof.
  intros H. induction H as [|a l Ha Hl IH]; cbn [List.filter]; [constructor|].
  destruct (g a); [constructor; assumption|exact IH].
Qed.

Theorem ro_step_in_domain s s' : chunk_free s -> ro_step s s' -> calls_between s s' -> in_domain s s'.
Proof.
  intros Hcf [_ (evs' & A' & Q)] Hcb.
  destruct (calls_between_evs s s' Hcb) as (cf & evs & A & T & F & K).
  assert (evs' = rev evs) as -> by (unfold appended in A'; rewrite A in A'; apply app_inv_tail in A'; congruence).
  assert (Qf : forall f, Forall (ev_quiet s) (tevs f (flat_of (get_file s f)) (cf f))).
  { intros f. rewrite <- F. unfold evs_on. apply Forall_filter_list.
    apply List.Forall_rev in Q. rewrite rev_involutive in Q. exact Q. }
  assert (Hok : forall f, calls_ok (fcs (get_file s f)) (flat_of (get_file s f)) (cf f) = true).
  { intros f. apply (tight_calls_ok s _ f (Hcf f) (cf f) (flat_of (get_file s f)) eq_refl (Qf f)). }
  exists cf, evs. split; [exact A|]. split; [exact T|]. split; [exact F|]. split; [exact Hok|].
  split; [intros f; rewrite K; apply Hok|].
  intros f. destruct (calls_ok_xrun _ _ _ (Hok f)) as (outs & R & ->). rewrite R. destruct (T f) as [-> _]. reflexivity.
Qed.

(** *** D. the read-only operations of a map on the images of a well-formed state *)
Section readonly_domain.
Context (s : store) (himg kimg vimg : bytes) (m : mp).
Hypothesis Hwf : Load_all.wf_state s.
Hypothesis H64 : fits64 s.
Hypothesis Hr : render s = Ok (himg, kimg, vimg).
Hypothesis Hkt : m_kt m = kt s.
Hypothesis Hn : m_n m = nb (hx s).
Hypothesis Him : Io.images m = (himg, kimg, vimg).
Hypothesis Hcf : chunk_free (m_st m).

Theorem get_in_domain key r : Store.get s key = Ok r ->
  exists m', Io.get m key = Ok (r, m') /\ in_domain (m_st m) (m_st m') /\ Io.images m' = Io.images m.
Proof.
  intros H. destruct (get_refines_wf s himg kimg vimg m Hwf H64 Hr Hkt Hn Him key r H) as (m' & E & R & I).
  exists m'. split; [exact E|]. split; [|exact I]. exact (ro_step_in_domain _ _ Hcf R (get_calls _ _ _ _ E)).
Qed.

Theorem has_in_domain key r : Store.has s key = Ok r ->
  exists m', Io.has m key = Ok (r, m') /\ in_domain (m_st m) (m_st m') /\ Io.images m' = Io.images m.
Proof.
  intros H. destruct (has_refines_wf s himg kimg vimg m Hwf H64 Hr Hkt Hn Him key r H) as (m' & E & R & I).
  exists m'. split; [exact E|]. split; [|exact I]. exact (ro_step_in_domain _ _ Hcf R (has_calls _ _ _ _ E)).
Qed.

Theorem len_in_domain :
  exists m', Io.len m = Ok (Store.len s, m') /\ in_domain (m_st m) (m_st m') /\ Io.images m' = Io.images m.
Proof.
  destruct (len_refines_wf s himg kimg vimg m Hwf H64 Hr Him) as (m' & E & R & I).
  exists m'. split; [exact E|]. split; [|exact I]. exact (ro_step_in_domain _ _ Hcf R (len_calls _ _ _ E)).
Qed.

Theorem iter_run_in_domain items h ex : Iter.iter_run s = Ok (items, h, ex) ->
  exists m', Io.iter_run m = Ok (items, h, ex, m') /\ in_domain (m_st m) (m_st m') /\ Io.images m' = Io.images m.
Proof.
  intros H. destruct Hwf as (HI & Hf & Hw).
  destruct (iter_run_refines s himg kimg vimg HI Hf Hw H64 Hr m Him items h ex H) as (m' & E & R & I & _).
  exists m'. split; [exact E|]. split; [|exact I]. exact (ro_step_in_domain _ _ Hcf R (iter_run_calls _ _ _ E)).
Qed.

Theorem stats_of_in_domain r : Stats.stats_of s = Ok r ->
  exists m', Io.stats_of m = Ok (r, m') /\ in_domain (m_st m) (m_st m') /\ Io.images m' = Io.images m.
Proof.
  intros H. destruct Hwf as (HI & Hf & Hw).
  destruct (stats_of_refines s himg kimg vimg HI Hf Hw H64 Hr m Hn Him r H) as (m' & E & R & I & _).
  exists m'. split; [exact E|]. split; [|exact I]. exact (ro_step_in_domain _ _ Hcf R (stats_of_calls _ _ _ E)).
Qed.
End readonly_domain.

(** *** the table file of the crate is chunk free *)
Definition pow2 (n : N) : Prop := exists k, n = 2 ^ k.

(** the end of the table file of a power of two of buckets is at most 65 bytes after a multiple of 128 *)
Lemma table_end_mod n : pow2 n -> table_end n mod 128 <= 65.
Proof.
  intros [k ->]. unfold table_end. change htx_header_size with 128.
  destruct (N.lt_ge_cases k 10) as [Hlt|Hge].
  - assert (Hk : k = 0 \/ k = 1 \/ k = 2 \/ k = 3 \/ k = 4 \/ k = 5 \/ k = 6 \/ k = 7 \/ k = 8 \/ k = 9) by lia.
    repeat (destruct Hk as [-> | Hk]; [vm_compute; discriminate|]). subst k. vm_compute. discriminate.
  - replace k with (10 + (k - 10)) by lia. rewrite N.pow_add_r. set (q := 2 ^ (k - 10)).
    change (2 ^ 10) with (8 * 128). replace (8 * 128 * q / 8) with (128 * q).
    + replace (128 + 8 * (8 * 128 * q) + 128 * q) with ((1 + 65 * q) * 128) by lia.
      rewrite N.mod_mul by lia. lia.
    + symmetry. replace (8 * 128 * q) with (128 * q * 8) by lia. apply N.div_mul. lia.
Qed.

Lemma table_end_chunk_free n cs e : pow2 n -> pow2 cs -> 128 <= cs ->
  table_end n <= e <= table_end n + 1 -> chunk_free_at cs e 7.
Proof.
  intros Hn [j ->] Hcs He i Hi.
  assert (Hj : 7 <= j).
  { destruct (N.le_gt_cases 7 j) as [H|H]; [exact H|]. exfalso.
    assert (2 ^ j <= 2 ^ 6) by (apply N.pow_le_mono_r; lia). change (2 ^ 6) with 64 in *. lia. }
  replace j with (7 + (j - 7)) by lia. rewrite N.pow_add_r. change (2 ^ 7) with 128. set (q := 2 ^ (j - 7)).
  pose proof (table_end_mod n Hn) as Hm. pose proof (N.div_mod (table_end n) 128 ltac:(lia)) as Hd.
  set (E := table_end n) in *. set (a := E / 128) in *. set (b := E mod 128) in *.
  unfold chunk_off. set (t := (e + i) / (128 * q)).
  assert (Ht : 128 * q * t <= e + i) by (apply N.mul_div_le; subst q; pose proof (N.pow_nonzero 2 (j - 7)); lia).
  (* a multiple of 128 that is at most E + 8 is at most E *)
  destruct (N.le_gt_cases (q * t) a) as [Hle|Hgt]; [nia|]. exfalso. nia.
Qed.

(** ... so a map of the crate (a power of two of buckets; buffers with chunks of a power of two of
    at least 128 bytes - 4096 under [BufAuto], 131072 otherwise) is [chunk_free] whenever its
    table file ends where [create] put the end, or one byte later (fewer than 8 buckets: the
    bitmap byte, written by the first [put]) *)
Lemma chunk_free_table x n : pow2 n -> pow2 (fcs (get_file x FHtx)) -> 128 <= fcs (get_file x FHtx) ->
  table_end n <= fend (get_file x FHtx) <= table_end n + 1 -> chunk_free x.
Proof.
  intros Hn Hp Hc He f. destruct f; cbn [slack]; try apply chunk_free_at_0.
  exact (table_end_chunk_free n _ _ Hn Hp Hc He).
Qed.

Lemma chunk_free_images s himg kimg vimg m :
  htx_wf (hx s) -> render s = Ok (himg, kimg, vimg) -> Io.images m = (himg, kimg, vimg) -> m_n m = nb (hx s) ->
  pow2 (m_n m) -> pow2 (fcs (get_file (m_st m) FHtx)) -> 128 <= fcs (get_file (m_st m) FHtx) ->
  hend (hx s) <= table_end (nb (hx s)) + 1 -> chunk_free (m_st m).
Proof.
  intros Hw Hr Him Hn Hpn Hpc Hc He.
  apply (chunk_free_table _ (m_n m) Hpn Hpc Hc).
  assert (Hfe : fend (get_file (m_st m) FHtx) = hend (hx s)).
  { unfold Io.images in Him. injection Him as A _ _. unfold fend. cbn [get_file]. rewrite A.
    unfold render in Hr. cbv zeta in Hr.
    destruct (render_pfile key_cfg kslot_bytes (sig_of (kt s)) (keyf s)) as [ki| | |]; cbn [rbind] in Hr; try discriminate Hr.
    destruct (render_pfile val_cfg vslot_bytes (sig_of (kt s)) (valf s)) as [vi| | |]; cbn [rbind] in Hr; try discriminate Hr.
    injection Hr as <- _ _. apply render_htx_blen; [apply sig_len|]. destruct Hw as (_ & H & _). lia. }
  rewrite Hfe, Hn. destruct Hw as (_ & H & _). unfold table_end in *. lia.
Qed.

(** D, as asked: images of a well-formed state, table size a power of two, table-file chunk size a
    power of two >= 4096 (any >= 128 will do), table file of the length [create] gave it (or one
    more): the calls of the five read-only operations are inside the domain of the cache theorem *)
Theorem readonly_calls_in_domain s himg kimg vimg m :
  Load_all.wf_state s -> fits64 s -> render s = Ok (himg, kimg, vimg) ->
  m_kt m = kt s -> m_n m = nb (hx s) -> Io.images m = (himg, kimg, vimg) ->
  pow2 (m_n m) -> pow2 (fcs (get_file (m_st m) FHtx)) -> 4096 <= fcs (get_file (m_st m) FHtx) ->
  hend (hx s) <= table_end (nb (hx s)) + 1 ->
  (forall key r, Store.get s key = Ok r ->
     exists m', Io.get m key = Ok (r, m') /\ in_domain (m_st m) (m_st m') /\ Io.images m' = Io.images m) /\
  (forall key r, Store.has s key = Ok r ->
     exists m', Io.has m key = Ok (r, m') /\ in_domain (m_st m) (m_st m') /\ Io.images m' = Io.images m) /\
  (exists m', Io.len m = Ok (Store.len s, m') /\ in_domain (m_st m) (m_st m') /\ Io.images m' = Io.images m) /\
  (forall items h ex, Iter.iter_run s = Ok (items, h, ex) ->
     exists m', Io.iter_run m = Ok (items, h, ex, m') /\ in_domain (m_st m) (m_st m') /\ Io.images m' = Io.images m) /\
  (forall r, Stats.stats_of s = Ok r ->
     exists m', Io.stats_of m = Ok (r, m') /\ in_domain (m_st m) (m_st m') /\ Io.images m' = Io.images m).
Proof.
  intros Hwf H64 Hr Hkt Hn Him Hpn Hpc Hc He.
  assert (Hcf : chunk_free (m_st m))
    by (apply (chunk_free_images s himg kimg vimg m); try assumption; [apply Hwf|lia]).
  split; [intros key r; apply (get_in_domain s himg kimg vimg m); assumption|].
  split; [intros key r; apply (has_in_domain s himg kimg vimg m); assumption|].
  split; [apply (len_in_domain s himg kimg vimg m); assumption|].
  split; [intros items h ex; apply (iter_run_in_domain s himg kimg vimg m); assumption|].
  intros r; apply (stats_of_in_domain s himg kimg vimg m); assumption.
Qed.

(** *** after any history from [create]: the read-only operations are inside the domain *)
Lemma sized_final ops : forall s s' outs, sized s ops -> store_run s ops = Ok (s', outs) -> fits64 s'.
Proof.
  induction ops as [|o ops IH]; intros s s' outs Hsz Hrun; cbn [store_run] in Hrun.
  - injection Hrun as <- _. apply (sized_here _ _ Hsz).
  - destruct (store_step s o) as [[s1 r]| | |] eqn:E1; cbn [rbind] in Hrun; try discriminate.
    destruct (store_run s1 ops) as [[s2 rs]| | |] eqn:E2; cbn [rbind] in Hrun; try discriminate.
    injection Hrun as <- _. cbn [sized] in Hsz. destruct Hsz as (_ & _ & H). exact (IH s1 s2 rs (H s1 r E1) E2).
Qed.

Lemma pow2_chunk_of b : pow2 (chunk_of htx_chunk_size b) /\ 4096 <= chunk_of htx_chunk_size b.
Proof. destruct b; cbn [chunk_of]; (split; [|vm_compute; discriminate]); [exists 12|exists 17]; reflexivity. Qed.

Theorem history_then_readonly_in_domain t n bk bv bh ops :
  1 <= n -> pow2 n -> Forall (op_wf t) ops -> sized (Store.create t n) ops ->
  exists m0 m' s',
    Io.create t n bk bv bh = Ok m0 /\
    store_run (Store.create t n) ops = Ok (s', snd (spec_run ∅ ops)) /\
    io_run m0 ops = Ok (m', snd (spec_run ∅ ops)) /\
    render s' = Ok (Io.images m') /\
    calls_between (empty_st bk bv bh) (m_st m') /\
    chunk_free (m_st m') /\
    (forall key r, Store.get s' key = Ok r ->
       exists m2, Io.get m' key = Ok (r, m2) /\ in_domain (m_st m') (m_st m2) /\ Io.images m2 = Io.images m') /\
    (forall key r, Store.has s' key = Ok r ->
       exists m2, Io.has m' key = Ok (r, m2) /\ in_domain (m_st m') (m_st m2) /\ Io.images m2 = Io.images m') /\
    (exists m2, Io.len m' = Ok (Store.len s', m2) /\ in_domain (m_st m') (m_st m2) /\ Io.images m2 = Io.images m') /\
    (forall items h ex, Iter.iter_run s' = Ok (items, h, ex) ->
       exists m2, Io.iter_run m' = Ok (items, h, ex, m2) /\ in_domain (m_st m') (m_st m2) /\ Io.images m2 = Io.images m') /\
    (forall r, Stats.stats_of s' = Ok r ->
       exists m2, Io.stats_of m' = Ok (r, m2) /\ in_domain (m_st m') (m_st m2) /\ Io.images m2 = Io.images m').
Proof.
  intros Hn Hpn Hops Hsz.
  destruct (create_refines t n bk bv bh Hn) as (m0 & Hc & Hr & Hkt & Hmn & Hcs).
  destruct (run_from_create t n ops Hn Hops) as (s' & Hrun & _ & _).
  destruct (create_closed t n Hn) as [_ HR0].
  assert (Hsim : simg (Store.create t n) m0).
  { unfold simg. split; [exact Hr|]. split; [exact Hkt|]. split; [exact Hmn|]. split; apply Hcs. }
  destruct (io_run_refines ops (Store.create t n) ∅ m0 s' _ (Load_all.wf_state_create t n Hn) HR0 Hsim Hops Hsz Hrun)
    as (m' & Hio & (Hr' & Hkt' & Hn' & _) & Hwf' & _ & _).
  pose proof (sized_final _ _ _ _ Hsz Hrun) as H64.
  assert (Hcb : calls_between (empty_st bk bv bh) (m_st m')).
  { eapply cb_trans; [exact (create_calls _ _ _ _ _ _ Hc)|exact (io_run_calls _ _ _ _ Hio)]. }
  destruct (hwfe_run (Store.create t n) ops s' _ Hn (hwfe_create n Hn) Hrun) as [_ Hnb]. cbn [Store.create hx htx_create nb] in Hnb.
  pose proof (hend_reachable t n ops s' _ Hn Hrun) as He.
  assert (Hfcs : fcs (get_file (m_st m') FHtx) = chunk_of htx_chunk_size bh).
  { destruct Hcb as (cf & H & _). destruct (H FHtx) as [_ ->]. reflexivity. }
  destruct (pow2_chunk_of bh) as [Hp2 Hge].
  destruct (images_eta m') as (hi & ki & vi & Him). rewrite Him in Hr'.
  destruct (readonly_calls_in_domain s' hi ki vi m' Hwf' H64 Hr' Hkt' Hn' Him) as (A & B & C & D & E);
    [rewrite Hn', Hnb; exact Hpn|rewrite Hfcs; exact Hp2|rewrite Hfcs; exact Hge|lia|].
  assert (Hcf : chunk_free (m_st m')).
  { apply (chunk_free_images s' hi ki vi m'); try assumption;
      [apply Hwf'|rewrite Hn', Hnb; exact Hpn|rewrite Hfcs; exact Hp2|rewrite Hfcs; lia|lia]. }
  exists m0, m', s'. repeat (split; [first [assumption | rewrite Him; assumption]|]). exact E.
Qed.

Print Assumptions ro_step_in_domain.
Print Assumptions history_then_readonly_in_domain.
Print Assumptions table_end_chunk_free.
Print Assumptions readonly_calls_in_domain.
