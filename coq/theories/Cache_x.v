(** * Cache_x: the cache refines the flat reference extended to reads beyond the end ([Flatx]).

    - [fstep_xstep]: the extension is conservative;
    - [cache_invx]: [cache_inv] without [k_pos c <= k_end c]; the relation [R] is unchanged;
    - [cstep_refines_x], [cache_refines_xflat], [flush_disk_is_xflat]: the analogues of
      [cstep_refines], [cache_refines_flat], [flush_disk_is_flat] for [xstep]/[xrun];
    - [same_call], [xstep_same_call], [cache_refines_xflat_variants]: the variants of a call
      ([read_exact] / the small reads; [write_all] / the small writes / a [write] that fits;
      seeks arriving at the same position) have the same flat meaning;
    - non-vacuity examples by [vm_compute].

    Nothing of the model depends on the position except where it is read explicitly, so the
    position-free lemmas of Cache_proofs.v are transported with [set_pos] (section 1). *)
From Aby Require Import Base Cache Cache_proofs Flatx.
From Coq Require Import Lia ZifyN ZifyNat ZifyBool.

#[local] Open Scope N_scope.

(** ** 0. the extension is conservative *)
Lemma chunk_off_le cs p : chunk_off cs p <= p.
Proof.
  unfold chunk_off. destruct (N.eq_dec cs 0) as [->|H]; [lia|].
  rewrite N.mul_comm. apply N.mul_div_le. exact H.
Qed.

Lemma chunk_off_mono cs p q : p <= q -> chunk_off cs p <= chunk_off cs q.
Proof.
  intros H. unfold chunk_off. destruct (N.eq_dec cs 0) as [->|Hc]; [lia|].
  apply N.mul_le_mono_r. apply N.div_le_mono; [exact Hc|exact H].
Qed.

Lemma zeros_0 : zeros 0 = [].
Proof. reflexivity. Qed.

Lemma xread_in_domain f n :
  f_pos f + n <= f_end f -> xread f n = (Flat (f_pos f + n) (f_bytes f), sub (f_bytes f) (f_pos f) n).
Proof.
  intros H. unfold xread. f_equal. rewrite blen_sub. unfold f_end in H.
  replace (n - N.min n (blen (f_bytes f) - f_pos f)) with 0 by lia. rewrite zeros_0. apply app_nil_r.
Qed.

Lemma xread_out_in_domain cs f n :
  f_pos f + n <= f_end f ->
  xread_out cs f n = Some (Flat (f_pos f + n) (f_bytes f), RData (sub (f_bytes f) (f_pos f) n)).
Proof.
  intros H. unfold xread_out, xread_ok.
  pose proof (chunk_off_le cs (f_pos f + (n - 1))) as Hc.
  destruct (N.leb_spec (chunk_off cs (f_pos f + (n - 1))) (f_end f)) as [_|Hlt]; [|lia].
  rewrite (xread_in_domain f n H). reflexivity.
Qed.

Lemma fstep_xstep cs f o r :
  f_pos f <= f_end f -> 0 < cs -> fstep cs f o = Some r -> xstep cs f o = Some r.
Proof.
  intros Hp Hcs H. destruct o as [sf|n|n|chk need n|buf|buf|chk buf| |all|n|off| |];
    cbn [xstep]; try exact H;
    try (destruct (N.leb_spec (f_pos f) (f_end f)) as [_|Hlt]; [exact H|lia]).
  - cbn [fstep] in H. unfold flat_read_exact in H.
    destruct (N.leb_spec (f_pos f + n) (f_end f)) as [Hn|]; [|discriminate].
    cbn in H. injection H as <-. apply xread_out_in_domain. exact Hn.
  - cbn [fstep] in H. unfold flat_read, flat_read_exact in H.
    destruct (N.leb_spec (f_pos f + N.min n (to_boundary cs (f_pos f))) (f_end f)) as [Hn|]; [|discriminate].
    cbn in H. injection H as <-. apply xread_out_in_domain. exact Hn.
  - cbn [fstep] in H. destruct ((chk && (cs <? n)) || (need <? n)); [discriminate|].
    unfold flat_read_exact in H.
    destruct (N.leb_spec (f_pos f + n) (f_end f)) as [Hn|]; [|discriminate].
    cbn in H. injection H as <-. apply xread_out_in_domain. exact Hn.
Qed.

(** ** 1. the relaxed invariant; the model is parametric in the position *)
Record cache_invx (c : cache) : Prop := {
  invx_cs : 0 < k_cs c;
  invx_data : data_inv (k_cs c) (k_chunks c) (k_disk c) (k_end c);
  invx_fc : forall o i, k_fc c = Some (o, i) -> map c_off (k_chunks c) !! i = Some o;
  invx_len : nchunks c <= k_max c;
  invx_cfg : cfg_ok c }.

Lemma inv_invx c : cache_inv c -> cache_invx c.
Proof. intros [A B C D E F]. constructor; assumption. Qed.

Lemma invx_inv c : cache_invx c -> k_pos c <= k_end c -> cache_inv c.
Proof. intros [A B D E F] C. constructor; assumption. Qed.

Lemma inv_iff_invx c : cache_inv c <-> cache_invx c /\ k_pos c <= k_end c.
Proof.
  split; [intros I; split; [exact (inv_invx c I)|exact (inv_pos c I)]|intros [I H]; exact (invx_inv c I H)].
Qed.

Lemma invx_set_pos c p : cache_invx c -> cache_invx (set_pos c p).
Proof. intros [A B D E F]. constructor; assumption. Qed.

Lemma set_pos_set_pos c p q : set_pos (set_pos c p) q = set_pos c q.
Proof. reflexivity. Qed.

Lemma set_pos_id c : set_pos c (k_pos c) = c.
Proof. destruct c. reflexivity. Qed.

Definition rpos (p : N) (r : res cache) : res cache := let* c := r in Ok (set_pos c p).
Definition rposi {A} (p : N) (r : res (cache * A)) : res (cache * A) :=
  let* (c, i) := r in Ok (set_pos c p, i).

Lemma chunk_write_pos c p i : chunk_write (set_pos c p) i = rpos p (chunk_write c i).
Proof.
  unfold chunk_write, rpos. cbn [set_pos k_chunks k_end k_disk k_events].
  destruct (k_chunks c !! i) as [ch|]; [|reflexivity].
  destruct (negb (c_dirty ch)); [reflexivity|].
  destruct (k_end c <? c_off ch); reflexivity.
Qed.

Lemma flush_list_pos idxs : forall c p, flush_list idxs (set_pos c p) = rpos p (flush_list idxs c).
Proof.
  induction idxs as [|i rest IH]; intros c p; [reflexivity|].
  cbn [flush_list]. rewrite chunk_write_pos. unfold rpos at 1.
  destruct (chunk_write c i) as [c1| | |]; cbn [rbind]; try reflexivity. apply IH.
Qed.

Lemma flush_pos c p : flush (set_pos c p) = rpos p (flush c).
Proof. unfold flush. cbn [set_pos k_chunks]. apply flush_list_pos. Qed.

Lemma clear_pos c p : clear (set_pos c p) = rpos p (clear c).
Proof.
  unfold clear. rewrite flush_pos. unfold rpos.
  destruct (flush c) as [c1| | |]; cbn [rbind]; reflexivity.
Qed.

Lemma setup_auto_pos c p : setup_auto (set_pos c p) = set_pos (setup_auto c) p.
Proof.
  unfold setup_auto. cbn [set_pos k_auto k_cs k_end].
  destruct (k_auto c) as [pm|]; [|reflexivity].
  change (nchunks (set_pos c p)) with (nchunks c).
  destruct (nchunks c <? auto_chunks (k_cs c) pm (k_end c)); reflexivity.
Qed.

Lemma remove_chunks_pos c p : remove_chunks (set_pos c p) = rpos p (remove_chunks c).
Proof.
  unfold remove_chunks. rewrite clear_pos. unfold rpos.
  destruct (clear c) as [c1| | |]; cbn [rbind]; [|reflexivity..].
  rewrite setup_auto_pos. reflexivity.
Qed.

Lemma add_chunk_pos fuel : forall c p off, add_chunk fuel (set_pos c p) off = rposi p (add_chunk fuel c off).
Proof.
  induction fuel as [|fuel IH]; intros c p off; [reflexivity|].
  cbn [add_chunk]. change (nchunks (set_pos c p)) with (nchunks c). change (k_max (set_pos c p)) with (k_max c).
  set (c1 := if nchunks c =? k_max c then setup_auto c else c).
  replace (if nchunks c =? k_max c then setup_auto (set_pos c p) else set_pos c p) with (set_pos c1 p)
    by (unfold c1; destruct (nchunks c =? k_max c); [rewrite setup_auto_pos|]; reflexivity).
  change (set_fc (set_pos c1 p) None) with (set_pos (set_fc c1 None) p).
  change (nchunks (set_pos (set_fc c1 None) p)) with (nchunks (set_fc c1 None)).
  change (k_max (set_pos (set_fc c1 None) p)) with (k_max (set_fc c1 None)).
  destruct (nchunks (set_fc c1 None) <? k_max (set_fc c1 None)).
  - change (chunk_new (set_pos (set_fc c1 None) p) off) with (chunk_new (set_fc c1 None) off).
    destruct (chunk_new (set_fc c1 None) off) as [ch| | |]; reflexivity.
  - rewrite remove_chunks_pos. unfold rpos.
    destruct (remove_chunks (set_fc c1 None)) as [c3| | |]; cbn [rbind]; [|reflexivity..].
    apply IH.
Qed.

Lemma fetch_chunk_pos fuel c p q : fetch_chunk fuel (set_pos c p) q = rposi p (fetch_chunk fuel c q).
Proof.
  unfold fetch_chunk. cbn [set_pos k_cs k_chunks k_fc]. rewrite add_chunk_pos.
  assert (Hslow :
    match find_idx (chunk_off (k_cs c) q) (k_chunks c) with
    | Some i => Ok (set_fc (set_pos c p) (Some (chunk_off (k_cs c) q, i)), i)
    | None => let* (c1, i) := rposi p (add_chunk fuel c (chunk_off (k_cs c) q)) in
              Ok (set_fc c1 (Some (chunk_off (k_cs c) q, i)), i)
    end =
    rposi p match find_idx (chunk_off (k_cs c) q) (k_chunks c) with
            | Some i => Ok (set_fc c (Some (chunk_off (k_cs c) q, i)), i)
            | None => let* (c1, i) := add_chunk fuel c (chunk_off (k_cs c) q) in
                      Ok (set_fc c1 (Some (chunk_off (k_cs c) q, i)), i)
            end).
  { destruct (find_idx (chunk_off (k_cs c) q) (k_chunks c)) as [i|]; [reflexivity|].
    destruct (add_chunk fuel c (chunk_off (k_cs c) q)) as [[c1 i]| | |]; reflexivity. }
  destruct (k_fc c) as [[o i]|]; [|exact Hslow].
  destruct (o =? chunk_off (k_cs c) q); [reflexivity|exact Hslow].
Qed.

Lemma view_set_pos c p q : view (set_pos c p) q = view c q.
Proof. reflexivity. Qed.

(** [fetch_chunk] under the relaxed invariant *)
Lemma fetch_chunk_spec_x fuel c p :
  cache_invx c -> p <= k_end c -> (2 <= fuel)%nat ->
  exists c1 i ch, fetch_chunk fuel c p = Ok (c1, i) /\ cache_invx c1 /\ fr_rel c c1 /\
    k_chunks c1 !! i = Some ch /\ c_off ch = chunk_off (k_cs c) p.
Proof.
  intros I Hp Hf.
  assert (I0 : cache_inv (set_pos c 0)) by (apply invx_inv; [apply invx_set_pos; exact I|cbn; lia]).
  destruct (fetch_chunk_spec fuel (set_pos c 0) p I0 Hp Hf) as (c1 & i & ch & E & I1 & F1 & Hl & Ho).
  exists (set_pos c1 (k_pos c)), i, ch.
  split; [|split; [|split; [|split]]].
  - rewrite <- (set_pos_id c) at 1. rewrite <- (set_pos_set_pos c 0 (k_pos c)).
    rewrite fetch_chunk_pos, E. reflexivity.
  - apply invx_set_pos, inv_invx, I1.
  - destruct F1 as [A1 A2 A3 A4 A5]. constructor; try assumption; try reflexivity.
  - exact Hl.
  - exact Ho.
Qed.

(** [fetch_chunk] looks at the chunk offset of its argument only, so it is enough that the CHUNK
    starts at or below the end *)
Lemma chunk_off_idem cs p : 0 < cs -> chunk_off cs (chunk_off cs p) = chunk_off cs p.
Proof.
  intros H. rewrite <- (N.add_0_r (chunk_off cs p)) at 1.
  apply chunk_off_add; [exact H|apply chunk_off_mod; exact H|exact H].
Qed.

Lemma fetch_chunk_at_off fuel c p :
  0 < k_cs c -> fetch_chunk fuel c p = fetch_chunk fuel c (chunk_off (k_cs c) p).
Proof. intros H. unfold fetch_chunk. rewrite chunk_off_idem by exact H. reflexivity. Qed.

Lemma fetch_chunk_spec_xo fuel c p :
  cache_invx c -> chunk_off (k_cs c) p <= k_end c -> (2 <= fuel)%nat ->
  exists c1 i ch, fetch_chunk fuel c p = Ok (c1, i) /\ cache_invx c1 /\ fr_rel c c1 /\
    k_chunks c1 !! i = Some ch /\ c_off ch = chunk_off (k_cs c) p.
Proof.
  intros I Hp Hf. pose proof (invx_cs c I) as Hcs.
  destruct (fetch_chunk_spec_x fuel c (chunk_off (k_cs c) p) I Hp Hf) as (c1 & i & ch & E & I1 & F1 & Hl & Ho).
  exists c1, i, ch. rewrite fetch_chunk_at_off by exact Hcs.
  rewrite chunk_off_idem in Ho by exact Hcs.
  split; [exact E|]. split; [exact I1|]. split; [exact F1|]. split; [exact Hl|exact Ho].
Qed.

(** ** 2. seek: specified from any position; afterwards the position is at or below the end *)
Lemma R_set_pos0 c f : R c f -> R (set_pos c 0) (Flat 0 (f_bytes f)).
Proof. intros (R1 & R2 & R3). split; [reflexivity|]. split; [exact R2|exact R3]. Qed.

Lemma seek_set_len_pos c x :
  set_pos (set_len c x) x = set_pos (set_len (set_pos c 0) x) x.
Proof.
  unfold set_len. cbn [set_end set_pos k_pos k_cs k_max k_auto k_chunks k_fc k_end k_disk k_events].
  destruct (N.ltb_spec x 0) as [H|_]; [lia|]. destruct (x <? k_pos c); reflexivity.
Qed.

Lemma seek_spec_x c f sf f' np :
  cache_invx c -> R c f -> flat_seek f sf = Some (f', np) ->
  exists c', seek c sf = Ok (c', np) /\ cache_inv c' /\ R c' f' /\ k_cs c' = k_cs c /\ k_auto c' = k_auto c.
Proof.
  intros I HR Hfs. pose proof HR as (R1 & R2 & R3). unfold flat_seek in Hfs. unfold seek.
  assert (Hnp : exists x, match sf with
       | SeekStart x => Some x
       | SeekEnd _ x => if f_end f <? x then None else Some (f_end f - x)
       | SeekCur true x => if f_pos f <? x then None else Some (f_pos f - x)
       | SeekCur false x => Some (f_pos f + x) end = Some x /\
       match sf with
       | SeekStart x => Ok x
       | SeekEnd _ x => if k_end c <? x then Panic Overflow else Ok (k_end c - x)
       | SeekCur true x => if k_pos c <? x then Panic Overflow else Ok (k_pos c - x)
       | SeekCur false x => Ok (k_pos c + x) end = Ok x).
  { rewrite R1, R2. destruct sf as [x|neg x|[|] x].
    - exists x. split; reflexivity.
    - destruct (f_end f <? x); [discriminate|]. eexists. split; reflexivity.
    - destruct (f_pos f <? x); [discriminate|]. eexists. split; reflexivity.
    - eexists. split; reflexivity. }
  destruct Hnp as (x & Hx1 & Hx2). rewrite Hx1 in Hfs. cbn in Hfs. injection Hfs as <- <-.
  rewrite Hx2. cbn [rbind].
  assert (I0 : cache_inv (set_pos c 0)) by (apply invx_inv; [apply invx_set_pos; exact I|cbn; lia]).
  destruct (N.ltb_spec (k_end c) x) as [Hlt|Hge].
  - destruct (set_len_spec (set_pos c 0) _ x I0 (R_set_pos0 c f HR) ltac:(cbn; lia)) as (I1 & (S1 & S2 & S3) & C1 & A1).
    exists (set_pos (set_len c x) x). split; [reflexivity|]. rewrite seek_set_len_pos.
    split; [apply set_pos_inv; [exact I1|]|].
    { rewrite S2. unfold f_end. cbn [f_bytes]. rewrite blen_pad_to. lia. }
    split; [|split; assumption]. split; [reflexivity|]. split; [exact S2|]. exact S3.
  - exists (set_pos c x). split; [reflexivity|].
    split; [apply invx_inv; [apply invx_set_pos; exact I|exact Hge]|].
    split; [|split; reflexivity]. rewrite pad_to_le by (unfold f_end in R2; lia).
    split; [reflexivity|]. split; [exact R2|exact R3].
Qed.

(** ** 3. reads that may end beyond the end *)

(** [n] bytes at [pos], zeros beyond the end: the second component of [xread] *)
Definition xr (b : bytes) (pos n : N) : bytes := sub b pos n ++ zeros (n - blen (sub b pos n)).

Lemma xread_eq f n : xread f n = (Flat (f_pos f + n) (f_bytes f), xr (f_bytes f) (f_pos f) n).
Proof. reflexivity. Qed.

Lemma blen_xr b pos n : blen (xr b pos n) = n.
Proof. unfold xr. rewrite blen_app, blen_zeros, blen_sub. lia. Qed.

Lemma getb_xr b pos n q : getb (xr b pos n) q = if q <? n then getb b (pos + q) else 0.
Proof.
  unfold xr. rewrite getb_app, blen_sub, getb_sub, getb_zeros.
  destruct (N.ltb_spec q (N.min n (blen b - pos))) as [H|H]; destruct (N.ltb_spec q n) as [H1|H1];
    try reflexivity; try lia.
  symmetry. apply getb_ge. lia.
Qed.

Lemma xr_zero b pos : xr b pos 0 = [].
Proof. reflexivity. Qed.

Lemma xr_split b pos n1 n2 : xr b pos (n1 + n2) = xr b pos n1 ++ xr b (pos + n1) n2.
Proof.
  apply bytes_ext.
  - rewrite blen_app, !blen_xr. reflexivity.
  - intros q Hq. rewrite blen_xr in Hq. rewrite getb_app, !getb_xr, blen_xr.
    destruct (N.ltb_spec q (n1 + n2)); [|lia].
    destruct (N.ltb_spec q n1); [reflexivity|].
    destruct (N.ltb_spec (q - n1) n2); [|lia]. f_equal. lia.
Qed.

Lemma view_fetched_x c i ch q :
  cache_invx c -> k_chunks c !! i = Some ch -> q < k_cs c -> view c (c_off ch + q) = getb (c_data ch) q.
Proof.
  intros I Hl Hq. unfold view.
  apply (viewl_in_chunk _ _ _ (k_end c) i); [exact (invx_cs c I)|exact (invx_data c I)|exact Hl|exact Hq].
Qed.

(** the bytes of the chunk at the position are what [xread] returns *)
Lemma chunk_data_x c f i ch k :
  cache_invx c -> R c f -> k_chunks c !! i = Some ch -> c_off ch = chunk_off (k_cs c) (k_pos c) ->
  k_pos c - c_off ch + k <= k_cs c ->
  sub (c_data ch) (k_pos c - c_off ch) k = xr (f_bytes f) (f_pos f) k.
Proof.
  intros I (R1 & R2 & R3) Hl Ho Hk. pose proof (invx_cs c I) as Hcs.
  destruct (di_chunk _ _ _ _ (invx_data c I) i ch Hl) as (Hm & Hlen & Hoe).
  destruct (chunk_off_range (k_cs c) (k_pos c) Hcs) as [Hr1 Hr2].
  apply bytes_ext.
  - rewrite blen_sub, blen_xr, Hlen. lia.
  - intros q Hq. rewrite blen_sub, Hlen in Hq. rewrite getb_sub, getb_xr.
    destruct (N.ltb_spec q k); [|lia].
    destruct (N.lt_ge_cases (k_pos c + q) (k_end c)) as [Hin|Hout].
    + rewrite <- (view_fetched_x c i ch (k_pos c - c_off ch + q) I Hl) by lia.
      replace (c_off ch + (k_pos c - c_off ch + q)) with (k_pos c + q) by lia.
      rewrite <- R3 by exact Hin. rewrite R1. reflexivity.
    + rewrite (di_zero _ _ _ _ (invx_data c I) i ch Hl) by lia.
      symmetry. apply getb_ge. unfold f_end in R2. lia.
Qed.

(** [read] *)
Lemma read_spec_x fuel c f n :
  cache_invx c -> R c f -> (2 <= fuel)%nat -> chunk_off (k_cs c) (f_pos f) <= f_end f ->
  let k := N.min n (to_boundary (k_cs c) (f_pos f)) in
  exists c1, read fuel c n = Ok (c1, xr (f_bytes f) (f_pos f) k) /\ cache_invx c1 /\
    R c1 (Flat (f_pos f + k) (f_bytes f)) /\ k_cs c1 = k_cs c /\ k_auto c1 = k_auto c.
Proof.
  intros I HR Hf Hoff k. pose proof HR as (R1 & R2 & R3). pose proof (invx_cs c I) as Hcs.
  destruct (fetch_chunk_spec_xo fuel c (k_pos c) I ltac:(rewrite R1, R2; exact Hoff) Hf)
    as (c1 & i & ch & E & I1 & F1 & Hl & Ho).
  unfold read. rewrite E. cbn [rbind]. unfold get_chunk. rewrite Hl. cbn [rbind].
  pose proof (R_fr _ _ _ F1 HR) as HR1.
  destruct (di_chunk _ _ _ _ (invx_data c1 I1) i ch Hl) as (Hm & Hlen & Hoe).
  assert (Hst : k_pos c1 - c_off ch = f_pos f mod k_cs c).
  { rewrite (fr_pos _ _ F1), Ho, <- R1. apply chunk_off_sub_mod. exact Hcs. }
  assert (Hk' : N.min n (blen (c_data ch) - (k_pos c1 - c_off ch)) = k).
  { unfold k, to_boundary. rewrite Hlen, Hst, (fr_cs _ _ F1). reflexivity. }
  rewrite Hk'.
  pose proof (N.mod_lt (f_pos f) (k_cs c) ltac:(lia)) as Hml.
  rewrite (chunk_data_x c1 f i ch k I1 HR1 Hl).
  - eexists. split; [reflexivity|]. split; [apply invx_set_pos; exact I1|].
    split; [|split; [exact (fr_cs _ _ F1)|exact (fr_auto _ _ F1)]].
    destruct HR1 as (S1 & S2 & S3). split; [cbn; rewrite S1; reflexivity|]. split; [exact S2|exact S3].
  - rewrite (fr_cs _ _ F1), (fr_pos _ _ F1). exact Ho.
  - rewrite Hst, (fr_cs _ _ F1). unfold k, to_boundary. lia.
Qed.

(** [read_exact] *)
Lemma read_loop_spec_x fa fuel : forall c f n acc,
  cache_invx c -> R c f -> (2 <= fa)%nat -> (N.to_nat n < fuel)%nat ->
  (0 < n -> chunk_off (k_cs c) (f_pos f + (n - 1)) <= f_end f) ->
  exists c1, read_loop fa fuel c n acc = Ok (c1, acc ++ xr (f_bytes f) (f_pos f) n) /\ cache_invx c1 /\
    R c1 (Flat (f_pos f + n) (f_bytes f)) /\ k_cs c1 = k_cs c /\ k_auto c1 = k_auto c.
Proof.
  induction fuel as [|fuel IH]; intros c f n acc I HR Hfa Hfuel Hn; [lia|].
  cbn [read_loop]. destruct (N.eqb_spec n 0) as [->|Hn0].
  - exists c. rewrite xr_zero, app_nil_r. split; [reflexivity|]. split; [exact I|].
    split; [|split; reflexivity]. rewrite N.add_0_r. destruct f. exact HR.
  - pose proof (invx_cs c I) as Hcs. pose proof (to_boundary_pos (k_cs c) (f_pos f) Hcs) as Hb.
    specialize (Hn ltac:(lia)).
    set (k := N.min n (to_boundary (k_cs c) (f_pos f))).
    destruct (read_spec_x fa c f n I HR Hfa) as (c1 & E & I1 & R1 & C1 & A1).
    { pose proof (chunk_off_mono (k_cs c) (f_pos f) (f_pos f + (n - 1)) ltac:(lia)). lia. }
    fold k in E, R1. rewrite E. cbn [rbind]. rewrite blen_xr.
    destruct (N.eqb_spec k 0) as [Hk0|_]; [lia|].
    destruct (IH c1 (Flat (f_pos f + k) (f_bytes f)) (n - k) (acc ++ xr (f_bytes f) (f_pos f) k) I1 R1 Hfa)
      as (c2 & E2 & I2 & R2 & C2 & A2); [lia| |].
    { intros Hnk. cbn [f_pos f_end f_bytes]. rewrite C1.
      replace (f_pos f + k + (n - k - 1)) with (f_pos f + (n - 1)) by lia. exact Hn. }
    cbn [f_pos f_bytes] in E2, R2. exists c2. split.
    + rewrite E2. f_equal. f_equal. rewrite <- app_assoc. f_equal.
      replace n with (k + (n - k)) at 2 by lia. symmetry. apply xr_split.
    + split; [exact I2|]. split; [|split; congruence].
      replace (f_pos f + n) with (f_pos f + k + (n - k)) by lia. exact R2.
Qed.

Lemma read_exact_spec_x fuel c f n :
  cache_invx c -> R c f -> (N.to_nat n + 2 <= fuel)%nat ->
  (0 < n -> chunk_off (k_cs c) (f_pos f + (n - 1)) <= f_end f) ->
  exists c1, read_exact fuel c n = Ok (c1, xr (f_bytes f) (f_pos f) n) /\ cache_invx c1 /\
    R c1 (Flat (f_pos f + n) (f_bytes f)) /\ k_cs c1 = k_cs c /\ k_auto c1 = k_auto c.
Proof.
  intros I HR Hf Hn. unfold read_exact.
  destruct (read_loop_spec_x fuel fuel c f n [] I HR ltac:(lia) ltac:(lia) Hn) as (c1 & E & H).
  exists c1. split; [exact E|exact H].
Qed.

(** the [SmallRead] family *)
Lemma read_small_spec_x fuel c f chk need n :
  cache_invx c -> R c f -> (N.to_nat n + 2 <= fuel)%nat ->
  chunk_off (k_cs c) (f_pos f + (n - 1)) <= f_end f ->
  (chk && (k_cs c <? n)) || (need <? n) = false ->
  exists c1, read_small fuel c chk need n = Ok (c1, xr (f_bytes f) (f_pos f) n) /\ cache_invx c1 /\
    R c1 (Flat (f_pos f + n) (f_bytes f)) /\ k_cs c1 = k_cs c /\ k_auto c1 = k_auto c.
Proof.
  intros I HR Hf Hn Hdom. apply orb_false_elim in Hdom as [Hchk Hneed].
  pose proof HR as (R1 & R2 & R3). pose proof (invx_cs c I) as Hcs.
  unfold read_small. rewrite Hchk.
  destruct (fetch_chunk_spec_xo fuel c (k_pos c) I) as (c1 & i & ch & E & I1 & F1 & Hl & Ho); [|lia|].
  { rewrite R1, R2. pose proof (chunk_off_mono (k_cs c) (f_pos f) (f_pos f + (n - 1)) ltac:(lia)). lia. }
  rewrite E. cbn [rbind]. unfold get_chunk. rewrite Hl. cbn [rbind].
  pose proof (R_fr _ _ _ F1 HR) as HR1.
  destruct (di_chunk _ _ _ _ (invx_data c1 I1) i ch Hl) as (Hm & Hlen & Hoe).
  rewrite Hlen.
  destruct (N.leb_spec (k_pos c1 - c_off ch + need) (k_cs c1)) as [Hfast|Hslow].
  - apply N.ltb_ge in Hneed.
    rewrite (chunk_data_x c1 f i ch n I1 HR1 Hl).
    + eexists. split; [reflexivity|]. split; [apply invx_set_pos; exact I1|].
      split; [|split; [exact (fr_cs _ _ F1)|exact (fr_auto _ _ F1)]].
      destruct HR1 as (S1 & S2 & S3). split; [cbn; rewrite S1; reflexivity|]. split; [exact S2|exact S3].
    + rewrite (fr_cs _ _ F1), (fr_pos _ _ F1). exact Ho.
    + lia.
  - destruct (read_exact_spec_x fuel c1 f n I1 HR1 Hf) as (c2 & E2 & I2 & S2 & C2 & A2).
    { intros _. rewrite (fr_cs _ _ F1). exact Hn. }
    exists c2. split; [exact E2|]. split; [exact I2|]. split; [exact S2|].
    split; [rewrite C2; exact (fr_cs _ _ F1)|rewrite A2; exact (fr_auto _ _ F1)].
Qed.

(** ** 4. one operation *)

(** inside the domain of [fstep], with the position at or below the end: [cstep_refines] *)
Lemma cstep_refines_in fuel c f o f' r :
  cache_invx c -> R c f -> f_pos f <= f_end f -> fstep (k_cs c) f o = Some (f', r) ->
  (op_fuel f o <= fuel)%nat ->
  exists c', cstep fuel c o = Ok (c', r) /\ cache_invx c' /\ R c' f' /\ k_cs c' = k_cs c /\ k_auto c' = k_auto c.
Proof.
  intros I HR Hp Hstep Hfuel.
  assert (I' : cache_inv c).
  { apply invx_inv; [exact I|]. destruct HR as (R1 & R2 & _). rewrite R1, R2. exact Hp. }
  destruct (cstep_refines fuel c f o f' r I' HR Hstep Hfuel) as (c' & E & I1 & H).
  exists c'. split; [exact E|]. split; [exact (inv_invx c' I1)|exact H].
Qed.

Lemma xread_out_Some cs f n f' r :
  xread_out cs f n = Some (f', r) ->
  chunk_off cs (f_pos f + (n - 1)) <= f_end f /\ f' = Flat (f_pos f + n) (f_bytes f) /\
  r = RData (xr (f_bytes f) (f_pos f) n).
Proof.
  unfold xread_out, xread_ok. intros H.
  destruct (N.leb_spec (chunk_off cs (f_pos f + (n - 1))) (f_end f)) as [Hok|]; [|discriminate].
  rewrite xread_eq in H. injection H as <- <-. split; [exact Hok|]. split; reflexivity.
Qed.

Theorem cstep_refines_x fuel c f o f' r :
  cache_invx c -> R c f -> xstep (k_cs c) f o = Some (f', r) -> (op_fuel f o <= fuel)%nat ->
  exists c', cstep fuel c o = Ok (c', r) /\ cache_invx c' /\ R c' f' /\ k_cs c' = k_cs c /\ k_auto c' = k_auto c.
Proof.
  intros I HR Hstep Hfuel. destruct o as [sf|n|n|chk need n|buf|buf|chk buf| |all|n|off| |];
    try (cbn [xstep] in Hstep; destruct (N.leb_spec (f_pos f) (f_end f)) as [Hp|]; [|discriminate];
         exact (cstep_refines_in fuel c f _ f' r I HR Hp Hstep Hfuel)).
  - (* seek *)
    cbn [xstep fstep cstep] in *.
    destruct (flat_seek f sf) as [[f1 p]|] eqn:Es; [|discriminate]. cbn in Hstep. injection Hstep as <- <-.
    destruct (seek_spec_x c f sf f1 p I HR Es) as (c' & E & I1 & H). exists c'. rewrite E.
    split; [reflexivity|]. split; [exact (inv_invx c' I1)|exact H].
  - (* read_exact *)
    cbn [xstep cstep op_fuel] in *. apply xread_out_Some in Hstep as (Hok & -> & ->).
    destruct (read_exact_spec_x fuel c f n I HR Hfuel (fun _ => Hok)) as (c' & E & H).
    exists c'. rewrite E. split; [reflexivity|exact H].
  - (* read *)
    cbn [xstep cstep op_fuel] in *. apply xread_out_Some in Hstep as (Hok & -> & ->).
    destruct (read_spec_x fuel c f n I HR ltac:(lia)) as (c' & E & H).
    { pose proof (chunk_off_mono (k_cs c) (f_pos f)
                    (f_pos f + (N.min n (to_boundary (k_cs c) (f_pos f)) - 1)) ltac:(lia)). lia. }
    exists c'. rewrite E. split; [reflexivity|exact H].
  - (* small reads *)
    cbn [xstep cstep op_fuel] in *.
    destruct ((chk && (k_cs c <? n)) || (need <? n)) eqn:Hdom; [discriminate|].
    apply xread_out_Some in Hstep as (Hok & -> & ->).
    destruct (read_small_spec_x fuel c f chk need n I HR Hfuel Hok Hdom) as (c' & E & H).
    exists c'. rewrite E. split; [reflexivity|exact H].
Qed.

(** ** 5. any list of operations *)
Fixpoint xrun_fuel (cs : N) (f : flat) (ops : list op) : nat :=
  match ops with
  | [] => 0
  | o :: rest => Nat.max (op_fuel f o)
                   (match xstep cs f o with Some (f1, _) => xrun_fuel cs f1 rest | None => 0 end)
  end.

(** after a flush the disk is the flat byte string, wherever the position is *)
Theorem flush_disk_is_xflat c f :
  cache_invx c -> R c f ->
  exists c1, flush c = Ok c1 /\ cache_invx c1 /\ R c1 f /\ k_disk c1 = f_bytes f.
Proof.
  intros I HR.
  assert (I0 : cache_inv (set_pos c 0)) by (apply invx_inv; [apply invx_set_pos; exact I|cbn; lia]).
  destruct (flush_disk_is_flat (set_pos c 0) _ I0 (R_set_pos0 c f HR)) as (c1 & E & I1 & (S1 & S2 & S3) & Hd).
  exists (set_pos c1 (k_pos c)). split; [|split; [|split]].
  - rewrite <- (set_pos_id c) at 1. rewrite <- (set_pos_set_pos c 0 (k_pos c)).
    rewrite flush_pos, E. reflexivity.
  - apply invx_set_pos, inv_invx, I1.
  - destruct HR as (R1 & _). split; [exact R1|]. split; [exact S2|exact S3].
  - exact Hd.
Qed.

(** TRANSPARENCY for the extended reference: as [cache_refines_flat], with [xrun] for [frun] and
    the relaxed invariant (the run may end with the position beyond the end). *)
Theorem cache_refines_xflat ops : forall fuel c f f' outs,
  cache_invx c -> R c f -> xrun (k_cs c) f ops = Some (f', outs) -> (xrun_fuel (k_cs c) f ops <= fuel)%nat ->
  exists c', crun fuel c ops = Ok (c', outs) /\ cache_invx c' /\ R c' f' /\ logical c' = f_bytes f' /\
    exists c'', flush c' = Ok c'' /\ k_disk c'' = f_bytes f'.
Proof.
  induction ops as [|o rest IH]; intros fuel c f f' outs I HR Hrun Hfuel.
  - cbn in Hrun. injection Hrun as <- <-. exists c. split; [reflexivity|]. split; [exact I|]. split; [exact HR|].
    split; [exact (R_logical c f HR)|]. destruct (flush_disk_is_xflat c f I HR) as (c1 & E & _ & _ & Hd).
    exists c1. split; [exact E|exact Hd].
  - cbn [xrun] in Hrun. cbn [xrun_fuel] in Hfuel.
    destruct (xstep (k_cs c) f o) as [[f1 r]|] eqn:Es; [|discriminate]. cbn in Hrun.
    destruct (xrun (k_cs c) f1 rest) as [[f2 rs]|] eqn:Er; [|discriminate]. cbn in Hrun. injection Hrun as <- <-.
    destruct (cstep_refines_x fuel c f o f1 r I HR Es ltac:(lia)) as (c1 & E1 & I1 & R1 & C1 & A1).
    rewrite <- C1 in Er, Hfuel.
    destruct (IH fuel c1 f1 f2 rs I1 R1 Er ltac:(lia)) as (c2 & E2 & H2).
    exists c2. cbn [crun]. rewrite E1. cbn [rbind]. rewrite E2. cbn [rbind]. split; [reflexivity|exact H2].
Qed.

(** on the domain of [frun] the two references and their fuel bounds agree *)
Lemma fstep_pos_le cs f o f' r : f_pos f <= f_end f -> fstep cs f o = Some (f', r) -> f_pos f' <= f_end f'.
Proof.
  intros Hp H. destruct o as [sf|n|n|chk need n|buf|buf|chk buf| |all|n|off| |]; cbn [fstep] in H.
  - unfold flat_seek in H.
    destruct (match sf with
       | SeekStart x => Some x
       | SeekEnd _ x => if f_end f <? x then None else Some (f_end f - x)
       | SeekCur true x => if f_pos f <? x then None else Some (f_pos f - x)
       | SeekCur false x => Some (f_pos f + x) end) as [np|]; [|discriminate].
    cbn in H. injection H as <- <-. unfold f_end. cbn [f_pos f_bytes]. rewrite blen_pad_to. lia.
  - unfold flat_read_exact in H. destruct (N.leb_spec (f_pos f + n) (f_end f)); [|discriminate].
    cbn in H. injection H as <- <-. exact H0.
  - unfold flat_read, flat_read_exact in H.
    destruct (N.leb_spec (f_pos f + N.min n (to_boundary cs (f_pos f))) (f_end f)); [|discriminate].
    cbn in H. injection H as <- <-. exact H0.
  - destruct ((chk && (cs <? n)) || (need <? n)); [discriminate|].
    unfold flat_read_exact in H. destruct (N.leb_spec (f_pos f + n) (f_end f)); [|discriminate].
    cbn in H. injection H as <- <-. exact H0.
  - cbn in H. injection H as <- <-. unfold f_end. cbn [f_pos f_bytes]. rewrite blen_splice. lia.
  - unfold flat_write in H. cbn in H. injection H as <- <-. unfold f_end. cbn [f_pos f_bytes].
    rewrite blen_splice, blen_take. lia.
  - destruct (chk && (cs <? blen buf)); [discriminate|].
    cbn in H. injection H as <- <-. unfold f_end. cbn [f_pos f_bytes]. rewrite blen_splice. lia.
  - injection H as <- <-. exact Hp.
  - injection H as <- <-. exact Hp.
  - unfold flat_set_len in H. destruct (N.ltb_spec n (f_end f)); [discriminate|].
    cbn in H. injection H as <- <-. unfold f_end in *. cbn [f_pos f_bytes]. rewrite blen_pad_to. lia.
  - destruct (off <=? f_end f); [|discriminate]. injection H as <- <-. exact Hp.
  - injection H as <- <-. exact Hp.
  - injection H as <- <-. unfold f_end. cbn [f_pos f_bytes]. lia.
Qed.

Theorem frun_xrun cs ops : forall f r,
  f_pos f <= f_end f -> 0 < cs -> frun cs f ops = Some r ->
  xrun cs f ops = Some r /\ xrun_fuel cs f ops = run_fuel cs f ops.
Proof.
  induction ops as [|o rest IH]; intros f r Hp Hcs H; [split; [exact H|reflexivity]|].
  cbn [frun] in H. cbn [xrun xrun_fuel run_fuel].
  destruct (fstep cs f o) as [[f1 r1]|] eqn:Es; [|discriminate].
  rewrite (fstep_xstep cs f o _ Hp Hcs Es). cbn in H |- *.
  destruct (frun cs f1 rest) as [[f2 rs]|] eqn:Er; [|discriminate].
  destruct (IH f1 _ (fstep_pos_le cs f o f1 r1 Hp Es) Hcs Er) as [E1 E2].
  rewrite E1, E2. split; [exact H|reflexivity].
Qed.

(** ** 6. the variants of a call have the same flat meaning *)
Definition seek_target (f : flat) (sf : seekfrom) : option N :=
  match sf with
  | SeekStart x => Some x
  | SeekEnd _ x => if f_end f <? x then None else Some (f_end f - x)
  | SeekCur true x => if f_pos f <? x then None else Some (f_pos f - x)
  | SeekCur false x => Some (f_pos f + x)
  end.

Lemma flat_seek_target f sf :
  flat_seek f sf = np ← seek_target f sf; Some (Flat np (pad_to (f_bytes f) np), np).
Proof. reflexivity. Qed.

(** a [write] reports how much it wrote, [write_all] and the small writes report nothing *)
Definition norm_out (r : out) : out := match r with RCount _ => RUnitC | _ => r end.

(** calls with the same flat meaning in the state [f] (chunk size [cs]) *)
Inductive same_call (cs : N) (f : flat) : op -> op -> Prop :=
| sc_refl o : same_call cs f o o
| sc_sym o1 o2 : same_call cs f o1 o2 -> same_call cs f o2 o1
| sc_trans o1 o2 o3 : same_call cs f o1 o2 -> same_call cs f o2 o3 -> same_call cs f o1 o3
| sc_read_small chk need n :
    (chk && (cs <? n)) || (need <? n) = false -> same_call cs f (ORead n) (OReadSmall chk need n)
| sc_write_small chk buf :
    chk && (cs <? blen buf) = false -> same_call cs f (OWrite buf) (OWriteSmall chk buf)
| sc_write_part buf :
    blen buf <= to_boundary cs (f_pos f) -> same_call cs f (OWrite buf) (OWritePart buf)
| sc_seek sf1 sf2 :
    seek_target f sf1 = seek_target f sf2 -> same_call cs f (OSeek sf1) (OSeek sf2).

(** both outside the domain, or the same state and the same result up to [norm_out] *)
Definition xres_eq (a b : option (flat * out)) : Prop :=
  match a, b with
  | Some (f1, r1), Some (f2, r2) => f1 = f2 /\ norm_out r1 = norm_out r2
  | None, None => True
  | _, _ => False
  end.

Lemma xres_eq_refl a : xres_eq a a.
Proof. destruct a as [[f r]|]; cbn; [split; reflexivity|exact Logic.I]. Qed.

Lemma take_blen (buf : bytes) : take (N.to_nat (blen buf)) buf = buf.
Proof. unfold blen. rewrite Nat2N.id. apply firstn_all. Qed.

Theorem xstep_same_call_eq cs f o1 o2 : same_call cs f o1 o2 -> xres_eq (xstep cs f o1) (xstep cs f o2).
Proof.
  induction 1 as [o|o1 o2 _ IH|o1 o2 o3 _ IH1 _ IH2|chk need n Hg|chk buf Hg|buf Hb|sf1 sf2 Ht].
  - apply xres_eq_refl.
  - destruct (xstep cs f o1) as [[f1 r1]|], (xstep cs f o2) as [[f2 r2]|]; cbn in *; try tauto.
    destruct IH as [-> ->]. split; reflexivity.
  - destruct (xstep cs f o1) as [[f1 r1]|], (xstep cs f o2) as [[f2 r2]|], (xstep cs f o3) as [[f3 r3]|];
      cbn in *; try tauto.
    destruct IH1 as [-> ->]. exact IH2.
  - cbn [xstep]. rewrite Hg. apply xres_eq_refl.
  - cbn [xstep fstep]. rewrite Hg. apply xres_eq_refl.
  - cbn [xstep fstep]. destruct (f_pos f <=? f_end f); [|exact Logic.I].
    unfold flat_write. replace (N.min (blen buf) (to_boundary cs (f_pos f))) with (blen buf) by lia.
    rewrite take_blen. cbn. split; reflexivity.
  - cbn [xstep fstep]. rewrite !flat_seek_target, Ht. apply xres_eq_refl.
Qed.

Theorem xstep_same_call cs f o1 o2 f1 r1 :
  same_call cs f o1 o2 -> xstep cs f o1 = Some (f1, r1) ->
  exists r2, xstep cs f o2 = Some (f1, r2) /\ norm_out r2 = norm_out r1.
Proof.
  intros H E. pose proof (xstep_same_call_eq cs f o1 o2 H) as X. rewrite E in X.
  destruct (xstep cs f o2) as [[f2 r2]|]; cbn in X; [|contradiction].
  destruct X as [-> X]. exists r2. split; [reflexivity|symmetry; exact X].
Qed.

Lemma op_fuel_same_call cs f o1 o2 : same_call cs f o1 o2 -> op_fuel f o1 = op_fuel f o2.
Proof. induction 1; cbn [op_fuel]; congruence. Qed.

(** lists of calls: the relation is threaded through the flat states of the first list *)
Fixpoint same_calls (cs : N) (f : flat) (ops1 ops2 : list op) : Prop :=
  match ops1, ops2 with
  | [], [] => True
  | o1 :: r1, o2 :: r2 =>
    same_call cs f o1 o2 /\
    match xstep cs f o1 with Some (f1, _) => same_calls cs f1 r1 r2 | None => True end
  | _, _ => False
  end.

(** calls related in every state (the read and write variants, not [write] and not the seeks) *)
Lemma Forall2_same_calls cs ops1 ops2 :
  Forall2 (fun o1 o2 => forall f, same_call cs f o1 o2) ops1 ops2 -> forall f, same_calls cs f ops1 ops2.
Proof.
  induction 1 as [|o1 o2 r1 r2 H _ IH]; intros f; cbn [same_calls]; [exact Logic.I|].
  split; [apply H|]. destruct (xstep cs f o1) as [[f1 r]|]; [apply IH|exact Logic.I].
Qed.

Lemma xrun_same_calls cs ops1 : forall ops2 f f' outs,
  same_calls cs f ops1 ops2 -> xrun cs f ops1 = Some (f', outs) ->
  exists outs', xrun cs f ops2 = Some (f', outs') /\ map norm_out outs' = map norm_out outs /\
    xrun_fuel cs f ops2 = xrun_fuel cs f ops1.
Proof.
  induction ops1 as [|o1 r1 IH]; intros [|o2 r2] f f' outs S Hrun; cbn [same_calls] in S; try contradiction.
  - cbn in Hrun. injection Hrun as <- <-. exists []. repeat split; reflexivity.
  - destruct S as [S1 S2]. cbn [xrun xrun_fuel] in *.
    destruct (xstep cs f o1) as [[f1 x1]|] eqn:E1; [|discriminate]. cbn in Hrun.
    destruct (xrun cs f1 r1) as [[f2 rs]|] eqn:Er; [|discriminate]. cbn in Hrun. injection Hrun as <- <-.
    destruct (xstep_same_call cs f o1 o2 f1 x1 S1 E1) as (x2 & E2 & N2).
    destruct (IH r2 f1 f2 rs S2 Er) as (outs' & E3 & N3 & F3).
    exists (x2 :: outs'). rewrite E2. cbn. rewrite E3. cbn. split; [reflexivity|].
    split; [rewrite N2, N3; reflexivity|]. rewrite F3, (op_fuel_same_call cs f o1 o2 S1). reflexivity.
Qed.

(** the cached run of a variant list is the flat run of the canonical list *)
Theorem cache_refines_xflat_variants ops ops' fuel c f f' outs :
  cache_invx c -> R c f -> same_calls (k_cs c) f ops ops' ->
  xrun (k_cs c) f ops = Some (f', outs) -> (xrun_fuel (k_cs c) f ops <= fuel)%nat ->
  exists c' outs', crun fuel c ops' = Ok (c', outs') /\ map norm_out outs' = map norm_out outs /\
    cache_invx c' /\ R c' f' /\ logical c' = f_bytes f' /\
    exists c'', flush c' = Ok c'' /\ k_disk c'' = f_bytes f'.
Proof.
  intros I HR S Hrun Hfuel.
  destruct (xrun_same_calls _ ops ops' f f' outs S Hrun) as (outs' & E & Hn & Hf).
  destruct (cache_refines_xflat ops' fuel c f f' outs' I HR E ltac:(lia)) as (c' & Ec & H).
  exists c', outs'. split; [exact Ec|]. split; [exact Hn|exact H].
Qed.

Corollary cache_refines_xflat_variants_Forall2 ops ops' fuel c f f' outs :
  cache_invx c -> R c f -> Forall2 (fun o1 o2 => forall g, same_call (k_cs c) g o1 o2) ops ops' ->
  xrun (k_cs c) f ops = Some (f', outs) -> (xrun_fuel (k_cs c) f ops <= fuel)%nat ->
  exists c' outs', crun fuel c ops' = Ok (c', outs') /\ map norm_out outs' = map norm_out outs /\
    cache_invx c' /\ R c' f' /\ logical c' = f_bytes f' /\
    exists c'', flush c' = Ok c'' /\ k_disk c'' = f_bytes f'.
Proof.
  intros I HR S. apply cache_refines_xflat_variants; [exact I|exact HR|].
  apply Forall2_same_calls. exact S.
Qed.

(** ** 7. non-vacuity: concrete runs by [vm_compute] *)
Definition obsx (r : res (cache * list out)) :=
  match r with
  | Ok (c, o) => Some (o, k_pos c, k_end c, k_disk c, rev (k_events c))
  | _ => None
  end.

(** chunk size 8, two chunks, a file of 10 bytes.  A [read_exact] of 8 bytes at 5 ends 3 bytes
    beyond the end (chunk 1 starts at 8 <= 10); a small read and a [read] follow from beyond the
    end; a seek back by 14 (from 16 to 2), a write, a flush. *)
Definition xdisk : bytes := [1;2;3;4;5;6;7;8;9;10].
Definition xops : list op :=
  [OSeek (SeekStart 5); ORead 8; OReadSmall false 8 2; OReadPart 1; OSeek (SeekCur true 14);
   OWrite [170;187]; OFlush].
Definition ximg : bytes := [1;2;170;187;5;6;7;8;9;10].
Definition xouts : list out :=
  [RPos 5; RData [6;7;8;9;10;0;0;0]; RData [0;0]; RData [0]; RPos 2; RUnitC; RUnitC].

Example ex_xrun :
  xrun 8 (Flat 0 xdisk) xops = Some (Flat 4 ximg, xouts) /\ xrun_fuel 8 (Flat 0 xdisk) xops = 10%nat /\
  frun 8 (Flat 0 xdisk) xops = None.
Proof. vm_compute. repeat split; reflexivity. Qed.

Example ex_crun_x :
  (let* c := open_cap 8 2 xdisk in Ok (obsx (crun 10 c xops))) =
  Ok (Some (xouts, 4, 10, ximg, [EvWrite 0 8])).
Proof. vm_compute. reflexivity. Qed.

(** the position stays beyond the end and the file is not extended *)
Example ex_read_beyond :
  xrun 8 (Flat 0 xdisk) [OSeek (SeekStart 5); ORead 11] =
    Some (Flat 16 xdisk, [RPos 5; RData [6;7;8;9;10;0;0;0;0;0;0]]) /\
  (let* c := open_cap 8 2 xdisk in Ok (obsx (crun 13 c [OSeek (SeekStart 5); ORead 11]))) =
    Ok (Some ([RPos 5; RData [6;7;8;9;10;0;0;0;0;0;0]], 16, 10, xdisk, [])).
Proof. split; vm_compute; reflexivity. Qed.

(** the theorem applies to this run (its hypotheses are satisfiable) *)
Example ex_xtheorem_applies :
  exists c c', open_cap 8 2 xdisk = Ok c /\ crun 10 c xops = Ok (c', xouts) /\ cache_invx c' /\
    logical c' = ximg.
Proof.
  destruct (inv_open_cap 8 2 xdisk _ eq_refl ltac:(lia)) as (I & HR & _).
  destruct (cache_refines_xflat xops 10 _ _ _ _ (inv_invx _ I) HR (proj1 ex_xrun)) as (c' & E & I' & _ & L & _).
  { cbn [k_cs mk_cache]. rewrite (proj1 (proj2 ex_xrun)). lia. }
  eexists. exists c'. split; [reflexivity|]. split; [exact E|]. split; [exact I'|exact L].
Qed.

(** why [xread_ok]: a read of 12 bytes at 5 reaches chunk 2, which starts at 16 > 10;
    [Chunk::new] computes [end - offset] and panics *)
Example ex_xread_ok_needed :
  xrun 8 (Flat 0 xdisk) [OSeek (SeekStart 5); ORead 12] = None /\
  (let* c := open_cap 8 2 xdisk in crun 20 c [OSeek (SeekStart 5); ORead 12]) = Panic Overflow.
Proof. split; vm_compute; reflexivity. Qed.

(** variants: the small read for [read_exact], a [write] that fits and a small write for
    [write_all], another seek to the same place *)
Definition xops_v : list op :=
  [OSeek (SeekCur false 5); OReadSmall false 8 8; ORead 2; OReadPart 1; OSeek (SeekEnd false 8);
   OWritePart [170;187]; OFlush].

Example ex_variants_related : same_calls 8 (Flat 0 xdisk) xops xops_v.
Proof.
  cbn [same_calls xops xops_v].
  split; [apply sc_seek; reflexivity|]. vm_compute xstep. cbv iota.
  split; [apply sc_read_small; reflexivity|]. vm_compute xstep. cbv iota.
  split; [apply sc_sym, sc_read_small; reflexivity|]. vm_compute xstep. cbv iota.
  split; [apply sc_refl|]. vm_compute xstep. cbv iota.
  split; [apply sc_seek; reflexivity|]. vm_compute xstep. cbv iota.
  split; [apply sc_write_part; vm_compute; discriminate|]. vm_compute xstep. cbv iota.
  split; [apply sc_refl|]. vm_compute xstep. cbv iota. exact Logic.I.
Qed.

Example ex_crun_variants :
  (let* c := open_cap 8 2 xdisk in Ok (obsx (crun 10 c xops_v))) =
  Ok (Some ([RPos 5; RData [6;7;8;9;10;0;0;0]; RData [0;0]; RData [0]; RPos 2; RCount 2; RUnitC],
            4, 10, ximg, [EvWrite 0 8])).
Proof. vm_compute. reflexivity. Qed.

Print Assumptions fstep_xstep.
Print Assumptions cstep_refines_x.
Print Assumptions cache_refines_xflat.
Print Assumptions flush_disk_is_xflat.
Print Assumptions xstep_same_call.
Print Assumptions cache_refines_xflat_variants.
