(** * Iter_proofs: property C04 -- a complete traversal with the iterator of [Iter.v] yields
    every live entry exactly once, with exact size hints, and the iterator stays exhausted.

    Ghost traversal order: buckets ascending, each chain from head to tail ([order]).  The state
    of the iterator between two [next] calls is described by [ipos]: "positioned after offset
    [koff] of a chain, next bucket to scan is [idx], still to be yielded: [rest]". *)
From Coq Require Import Lia ZifyN ZifyNat ZifyBool.
From Aby Require Import Base Vu64 Vu64_proofs Hash KeyTypes KeyTypes_proofs Consts Sizing Alloc AllocInv
  AllocInv_proofs Htx Htx_proofs Store Iter Spec Refine Refine_relink Refine_ops Refine_all.

(** ** Size hints *)

(** [n; n-1; ...; 2; 1] *)
Definition hints_down (n : nat) : list N := map N.of_nat (rev (seq 1 n)).

Lemma hints_down_S n : hints_down (S n) = N.of_nat (S n) :: hints_down n.
Proof. unfold hints_down. rewrite seq_S, rev_app_distr. reflexivity. Qed.

Lemma hints_down_length n : length (hints_down n) = n.
Proof. unfold hints_down. rewrite map_length, rev_length, seq_length. reflexivity. Qed.

(** the hint seen before the [j]-th item (0-based) of [n] is [n - j] *)
Lemma hints_down_lookup n j : (j < n)%nat -> hints_down n !! j = Some (N.of_nat (n - j)).
Proof.
  revert j. induction n as [|n IH]; intros j Hj; [lia|].
  rewrite hints_down_S. destruct j as [|j].
  - reflexivity.
  - cbn [lookup list_lookup]. rewrite IH by lia. reflexivity.
Qed.

(** ** The ghost traversal order *)

(** the chains of buckets [idx, idx+1, ..., idx+cnt-1], concatenated *)
Fixpoint order_from (ch : N -> list N) (idx : N) (cnt : nat) : list N :=
  match cnt with
  | O => []
  | S c => ch idx ++ order_from ch (idx + 1) c
  end.

Definition order (s : store) (ch : N -> list N) : list N :=
  order_from ch 0 (N.to_nat (nb (hx s))).

Lemma order_from_app ch idx a c :
  order_from ch idx (a + c) = order_from ch idx a ++ order_from ch (idx + N.of_nat a) c.
Proof.
  revert idx. induction a as [|a IH]; intros idx.
  - cbn [order_from Nat.add app]. replace (idx + N.of_nat 0) with idx by lia. reflexivity.
  - cbn [Nat.add order_from]. rewrite IH, <- app_assoc.
    replace (idx + 1 + N.of_nat a) with (idx + N.of_nat (S a)) by lia. reflexivity.
Qed.

Lemma order_from_zeros ch idx cnt :
  (forall b, idx <= b < idx + N.of_nat cnt -> ch b = []) -> order_from ch idx cnt = [].
Proof.
  revert idx. induction cnt as [|c IH]; intros idx Hz; [reflexivity|].
  cbn [order_from]. rewrite (Hz idx) by lia. cbn [app]. apply IH.
  intros b Hb. apply Hz. lia.
Qed.

Lemma elem_of_order_from ch idx cnt o :
  o ∈ order_from ch idx cnt <-> exists b, idx <= b < idx + N.of_nat cnt /\ o ∈ ch b.
Proof.
  revert idx. induction cnt as [|c IH]; intros idx.
  - cbn [order_from]. split.
    + intros H. apply elem_of_nil in H. destruct H.
    + intros (b & Hb & _). lia.
  - cbn [order_from]. rewrite elem_of_app, IH. split.
    + intros [H | (b & Hb & H)].
      * exists idx. split; [lia|exact H].
      * exists b. split; [lia|exact H].
    + intros (b & Hb & H). destruct (N.eq_dec b idx) as [-> | Hne].
      * left. exact H.
      * right. exists b. split; [lia|exact H].
Qed.

Lemma NoDup_order_from ch idx cnt :
  (forall b, idx <= b < idx + N.of_nat cnt -> NoDup (ch b)) ->
  (forall b b' o, idx <= b < idx + N.of_nat cnt -> idx <= b' < idx + N.of_nat cnt ->
                  o ∈ ch b -> o ∈ ch b' -> b = b') ->
  NoDup (order_from ch idx cnt).
Proof.
  revert idx. induction cnt as [|c IH]; intros idx Hnd Hdisj.
  - cbn [order_from]. apply NoDup_nil_2.
  - cbn [order_from]. apply NoDup_app. split; [apply Hnd; lia|]. split.
    + intros o Ho Ho'. apply elem_of_order_from in Ho' as (b & Hb & Ho').
      assert (idx = b) as Heq by (apply (Hdisj idx b o); [lia|lia|exact Ho|exact Ho']). lia.
    + apply IH.
      * intros b Hb. apply Hnd. lia.
      * intros b b' o Hb Hb'. apply Hdisj; lia.
Qed.

(** ** Chains *)

Lemma chain_zero kh l : chain kh 0 l -> l = [].
Proof.
  unfold chain. intros Hs. destruct l as [|o l]; [reflexivity|].
  apply seg_cons_inv in Hs as (<- & Hnz & _). congruence.
Qed.

Lemma chain_nonzero kh h l :
  h <> 0 -> chain kh h l ->
  exists r l', l = h :: l' /\ kh !! h = Some r /\ chain kh (k_next r) l'.
Proof.
  unfold chain. intros Hnz Hs. destruct l as [|o l].
  - apply seg_nil_inv in Hs. congruence.
  - apply seg_cons_inv in Hs as (-> & _ & r & Hr & Hs). exists r, l. auto.
Qed.

(** ** The bucket loop: one bitmap-accelerated scan, then (at the end of the table) one more
    round that only tests the guard *)

Lemma bucket_loop_spec s fuel idx :
  bitmap_ok (hx s) -> 1 <= nb (hx s) -> idx <= nb (hx s) -> (2 <= fuel)%nat ->
  exists j off, bucket_loop fuel s (nb (hx s)) idx = Ok (j, off) /\
    ( (off <> 0 /\ idx < j /\ j <= nb (hx s) /\ head_at (hx s) (j - 1) = off /\
       (forall b, idx <= b < j - 1 -> head_at (hx s) b = 0))
   \/ (off = 0 /\ j = nb (hx s) /\ (forall b, idx <= b < nb (hx s) -> head_at (hx s) b = 0)) ).
Proof.
  intros Hbm Hn Hidx Hf. destruct fuel as [|[|f]]; [lia|lia|].
  cbn [bucket_loop]. destruct (idx <? nb (hx s)) eqn:E.
  - apply N.ltb_lt in E.
    destruct (next_nonempty_spec (hx s) idx Hbm Hn E) as (j & off & Hnn & Hcase).
    rewrite Hnn. cbn [rbind].
    destruct Hcase as [(H1 & H2 & H3 & H4 & H5) | (H1 & H2 & H3)].
    + rewrite (proj2 (N.eqb_neq off 0) H1). exists j, off. split; [reflexivity|]. left. auto.
    + subst off j. rewrite N.eqb_refl, N.ltb_irrefl.
      exists (nb (hx s)), 0. split; [reflexivity|]. right. auto.
  - apply N.ltb_ge in E. exists idx, 0. split; [reflexivity|]. right.
    split; [reflexivity|]. split; [lia|]. intros b Hb. lia.
Qed.

(** ** Iterator positions *)

Definition ipos (s : store) (ch : N -> list N) (koff idx : N) (rest : list N) : Prop :=
  idx <= nb (hx s) /\
  exists l2, rest = l2 ++ order_from ch idx (N.to_nat (nb (hx s) - idx)) /\
    ( (koff = 0 /\ l2 = [])
   \/ (koff <> 0 /\ exists r, kheap s !! koff = Some r /\ chain (kheap s) (k_next r) l2) ).

Lemma ipos_start s ch : ipos s ch 0 0 (order s ch).
Proof.
  split; [lia|]. exists []. split.
  - unfold order. rewrite N.sub_0_r. reflexivity.
  - left. auto.
Qed.

Lemma ipos_end s ch : ipos s ch 0 (nb (hx s)) [].
Proof.
  split; [lia|]. exists []. split.
  - rewrite N.sub_diag. reflexivity.
  - left. auto.
Qed.

Lemma empty_bucket s ch b :
  sinv s ch -> b < nb (hx s) -> head_at (hx s) b = 0 -> ch b = [].
Proof.
  intros (_ & Hl) Hb Hz. specialize (Hl b Hb). unfold links_ok in Hl. rewrite Hz in Hl.
  exact (chain_zero _ _ Hl).
Qed.

(** from the link [k1] read out of the current record: follow it, or scan for the next
    occupied bucket *)
Lemma advance s ch k1 idx l2 rest :
  sinv s ch -> idx <= nb (hx s) -> chain (kheap s) k1 l2 ->
  rest = l2 ++ order_from ch idx (N.to_nat (nb (hx s) - idx)) ->
  exists idx2 k2,
    (if k1 =? 0 then bucket_loop (S (N.to_nat (nb (hx s)))) s (nb (hx s)) idx
     else Ok (idx, k1)) = Ok (idx2, k2) /\
    match rest with
    | [] => idx2 = nb (hx s) /\ k2 = 0
    | o :: rest' => k2 = o /\ o <> 0 /\ ipos s ch o idx2 rest'
    end.
Proof.
  intros Hinv Hidx Hch ->. pose proof Hinv as (Hc & Hl).
  pose proof (co_n _ _ _ Hc) as Hn.
  destruct (N.eqb_spec k1 0) as [-> | Hnz].
  - apply chain_zero in Hch. subst l2. cbn [app].
    destruct (bucket_loop_spec s (S (N.to_nat (nb (hx s)))) idx (co_bm _ _ _ Hc) Hn Hidx)
      as (j & off & Hbl & Hcase); [lia|].
    exists j, off. split; [exact Hbl|].
    destruct Hcase as [(H1 & H2 & H3 & H4 & H5) | (H1 & H2 & H3)].
    + replace (N.to_nat (nb (hx s) - idx))
        with (N.to_nat (j - 1 - idx) + S (N.to_nat (nb (hx s) - j)))%nat by lia.
      rewrite order_from_app. rewrite order_from_zeros.
      2:{ intros b Hb. apply (empty_bucket s ch b Hinv); [lia|]. apply H5. lia. }
      cbn [app order_from].
      replace (idx + N.of_nat (N.to_nat (j - 1 - idx))) with (j - 1) by lia.
      assert (j - 1 < nb (hx s)) as Hj by lia.
      pose proof (Hl _ Hj) as Hlk. unfold links_ok in Hlk. rewrite H4 in Hlk.
      destruct (chain_nonzero _ _ _ H1 Hlk) as (r & l' & -> & Hr & Hch').
      cbn [app]. split; [reflexivity|]. split; [exact H1|]. split; [lia|].
      exists l'. split.
      * replace (j - 1 + 1) with j by lia. reflexivity.
      * right. split; [exact H1|]. exists r. auto.
    + subst off j. rewrite order_from_zeros; [split; reflexivity|].
      intros b Hb. apply (empty_bucket s ch b Hinv); [lia|]. apply H3. lia.
  - destruct (chain_nonzero _ _ _ Hnz Hch) as (r & l' & -> & Hr & Hch').
    exists idx, k1. split; [reflexivity|]. cbn [app].
    split; [reflexivity|]. split; [exact Hnz|]. split; [exact Hidx|].
    exists l'. split; [reflexivity|]. right. split; [exact Hnz|]. exists r. auto.
Qed.

(** one [next_piece_offset] *)
Lemma iter_next_off_spec s ch rem koff idx rest :
  sinv s ch -> ipos s ch koff idx rest ->
  match rest with
  | [] => iter_next_off s (IterSt rem (nb (hx s)) idx koff)
          = Ok (IterSt rem (nb (hx s)) (nb (hx s)) 0, None)
  | o :: rest' =>
    rem <> 0 ->
    exists idx2, iter_next_off s (IterSt rem (nb (hx s)) idx koff)
                 = Ok (IterSt (rem - 1) (nb (hx s)) idx2 o, Some o) /\
                 o <> 0 /\ ipos s ch o idx2 rest'
  end.
Proof.
  intros Hinv (Hidx & l2 & Hrest & Hpos).
  unfold iter_next_off. cbn [it_koff it_n it_idx it_rem].
  assert (exists k1, (if koff =? 0 then Ok 0
                      else let* r := read_krec s koff in Ok (k_next r)) = Ok k1 /\
                     chain (kheap s) k1 l2) as (k1 & Hk1 & Hch).
  { destruct Hpos as [(-> & ->) | (Hnz & r & Hr & Hch)].
    - exists 0. split; [reflexivity|]. constructor.
    - exists (k_next r). rewrite (proj2 (N.eqb_neq koff 0) Hnz).
      rewrite (read_krec_ok _ _ _ Hr). cbn [rbind]. split; [reflexivity|exact Hch]. }
  rewrite Hk1. cbn [rbind].
  destruct (advance s ch k1 idx l2 rest Hinv Hidx Hch Hrest) as (idx2 & k2 & Hadv & Hres).
  rewrite Hadv. cbn [rbind].
  destruct rest as [|o rest'].
  - destruct Hres as (-> & ->). rewrite N.eqb_refl. cbn [orb]. reflexivity.
  - destruct Hres as (-> & Hnz & Hip). intros Hrem.
    rewrite (proj2 (N.eqb_neq o 0) Hnz), (proj2 (N.eqb_neq rem 0) Hrem). cbn [orb].
    exists idx2. auto.
Qed.

(** the item a key record stands for *)
Definition kv_of (s : store) (o : N) : bytes * bytes :=
  match kheap s !! o with
  | Some r => (k_key r, default [] (vheap s !! k_voff r))
  | None => ([], [])
  end.

Lemma kv_of_eq s o r v :
  kheap s !! o = Some r -> vheap s !! k_voff r = Some v -> kv_of s o = (k_key r, v).
Proof.
  intros Hr Hv. unfold kv_of. rewrite Hr. cbv beta iota. f_equal.
  apply (f_equal (default [])) in Hv. exact Hv.
Qed.

Lemma ipos_some s ch o idx rest : ipos s ch o idx rest -> o <> 0 -> is_Some (kheap s !! o).
Proof.
  intros (_ & l2 & _ & [(-> & _) | (_ & r & Hr & _)]) Hnz; [congruence|]. exists r. exact Hr.
Qed.

(** one [Iterator::next] *)
Lemma iter_next_spec s ch rem koff idx rest :
  sinv s ch -> ipos s ch koff idx rest ->
  match rest with
  | [] => iter_next s (IterSt rem (nb (hx s)) idx koff)
          = Ok (IterSt rem (nb (hx s)) (nb (hx s)) 0, None)
  | o :: rest' =>
    rem <> 0 ->
    exists idx2, iter_next s (IterSt rem (nb (hx s)) idx koff)
                 = Ok (IterSt (rem - 1) (nb (hx s)) idx2 o, Some (kv_of s o)) /\
                 ipos s ch o idx2 rest'
  end.
Proof.
  intros Hinv Hpos. pose proof (iter_next_off_spec s ch rem koff idx rest Hinv Hpos) as Hoff.
  unfold iter_next. destruct rest as [|o rest'].
  - rewrite Hoff. cbn [rbind]. reflexivity.
  - intros Hrem. destruct (Hoff Hrem) as (idx2 & Hno & Hnz & Hip).
    rewrite Hno. cbn [rbind]. exists idx2. split; [|exact Hip].
    destruct (ipos_some _ _ _ _ _ Hip Hnz) as (r & Hr).
    destruct Hinv as (Hc & _). destruct (co_val _ _ _ Hc _ _ Hr) as (v & Hv).
    rewrite (read_krec_ok _ _ _ Hr). cbn [rbind].
    rewrite (read_val_ok _ _ _ Hv). cbn [rbind].
    rewrite (kv_of_eq s o r v Hr Hv). reflexivity.
Qed.

(** an exhausted iterator stays exhausted *)
Lemma iter_extra_exhausted s ch rem n :
  sinv s ch ->
  iter_extra n s (IterSt rem (nb (hx s)) (nb (hx s)) 0) = Ok (repeat None n).
Proof.
  intros Hinv. induction n as [|n IH]; [reflexivity|].
  cbn [iter_extra repeat].
  rewrite (iter_next_spec s ch rem 0 (nb (hx s)) [] Hinv (ipos_end s ch)). cbn [rbind].
  rewrite IH. cbn [rbind]. reflexivity.
Qed.

(** the traversal loop *)
Lemma iter_collect_spec s ch rest :
  sinv s ch ->
  forall fuel koff idx acc,
  ipos s ch koff idx rest -> (length rest < fuel)%nat ->
  iter_collect fuel s (IterSt (N.of_nat (length rest)) (nb (hx s)) idx koff) acc
  = Ok (rev acc ++ combine (hints_down (length rest)) (map (kv_of s) rest),
        IterSt 0 (nb (hx s)) (nb (hx s)) 0).
Proof.
  intros Hinv. induction rest as [|o rest IH]; intros fuel koff idx acc Hpos Hf.
  - destruct fuel as [|f]; [cbn in Hf; lia|]. cbn [iter_collect].
    rewrite (iter_next_spec s ch _ koff idx [] Hinv Hpos). cbn [rbind].
    cbn [length map hints_down]. rewrite app_nil_r. reflexivity.
  - destruct fuel as [|f]; [cbn in Hf; lia|]. cbn [iter_collect].
    pose proof (iter_next_spec s ch (N.of_nat (length (o :: rest))) koff idx (o :: rest) Hinv Hpos)
      as Hn. cbv beta iota in Hn.
    destruct Hn as (idx2 & Hn & Hip); [cbn [length]; lia|].
    rewrite Hn. cbn [rbind].
    replace (N.of_nat (length (o :: rest)) - 1) with (N.of_nat (length rest))
      by (cbn [length]; lia).
    rewrite (IH f o idx2 _ Hip) by (cbn [length] in Hf; lia).
    cbn [length map size_hint it_rem]. rewrite hints_down_S. cbn [combine rev].
    rewrite <- app_assoc. reflexivity.
Qed.

(** ** The order enumerates the key heap *)

Lemma order_nodup s ch : sinv s ch -> NoDup (order s ch).
Proof.
  intros (Hc & _). unfold order. apply NoDup_order_from.
  - intros b Hb. apply (co_nodup _ _ _ Hc). lia.
  - intros b b' o Hb Hb' Ho Ho'. apply (core_chain_disj s ch None b b' o Hc); [lia|lia|exact Ho|exact Ho'].
Qed.

Lemma order_elem s ch o : sinv s ch -> o ∈ order s ch <-> is_Some (kheap s !! o).
Proof.
  intros (Hc & _). unfold order. rewrite elem_of_order_from. split.
  - intros (b & Hb & Ho). apply (co_in _ _ _ Hc b); [lia|exact Ho].
  - intros (r & Hr). destruct (co_reach _ _ _ Hc _ _ Hr) as [Hin | Ho]; [|discriminate].
    exists (home s (k_key r)). split; [|exact Hin].
    pose proof (home_lt s (k_key r) (co_n _ _ _ Hc)). lia.
Qed.

Lemma order_length s ch : sinv s ch -> N.of_nat (length (order s ch)) = count (hx s).
Proof.
  intros Hinv. pose proof Hinv as (Hc & _). rewrite (co_count _ _ _ Hc). f_equal.
  rewrite <- (size_list_to_set (C:=gset N) _ (order_nodup s ch Hinv)).
  rewrite <- (size_dom (D:=gset N) (kheap s)). f_equal.
  apply set_eq. intros o. rewrite elem_of_list_to_set, elem_of_dom. apply order_elem. exact Hinv.
Qed.

(** the items are the entries of the ideal map *)
Lemma order_items s ch m :
  sinv s ch -> represents s m -> map (kv_of s) (order s ch) ≡ₚ map_to_list m.
Proof.
  intros Hinv Hrep. pose proof Hinv as (Hc & _). unfold spec in *.
  apply NoDup_Permutation.
  - apply (NoDup_fmap_2_strong (kv_of s)); [|apply order_nodup; exact Hinv].
    intros o1 o2 H1 H2 Heq.
    apply (order_elem s ch o1 Hinv) in H1 as (r1 & Hr1).
    apply (order_elem s ch o2 Hinv) in H2 as (r2 & Hr2).
    unfold kv_of in Heq. rewrite Hr1, Hr2 in Heq. injection Heq as Hk _.
    exact (co_uniq _ _ _ Hc _ _ _ _ Hr1 Hr2 Hk).
  - apply NoDup_map_to_list.
  - intros [k v]. rewrite elem_of_map_to_list.
    change (map (kv_of s) (order s ch)) with (kv_of s <$> order s ch).
    rewrite elem_of_list_fmap. split.
    + intros (o & Hkv & Ho). apply (order_elem s ch o Hinv) in Ho as (r & Hr).
      destruct (co_val _ _ _ Hc _ _ Hr) as (v' & Hv').
      rewrite (kv_of_eq s o r v' Hr Hv') in Hkv.
      injection Hkv as -> ->. apply Hrep. exists (k_voff r). split; [|exact Hv'].
      exists o, r. auto.
    + intros Hm. apply Hrep in Hm as (vo & (o & r & Hr & Hk & Hvo) & Hv).
      exists o. split.
      * subst vo. rewrite (kv_of_eq s o r v Hr Hv), Hk. reflexivity.
      * apply (order_elem s ch o Hinv). exists r. exact Hr.
Qed.

(** ** C04 *)

(** the whole traversal in terms of the ghost order *)
Lemma iter_collect_order s ch :
  sinv s ch ->
  iter_collect (S (S (N.to_nat (count (hx s))))) s (iter_new s) []
  = Ok (combine (hints_down (length (order s ch))) (map (kv_of s) (order s ch)),
        IterSt 0 (nb (hx s)) (nb (hx s)) 0).
Proof.
  intros Hinv. unfold iter_new. rewrite <- (order_length s ch Hinv).
  rewrite (iter_collect_spec s ch (order s ch) Hinv _ 0 0 [] (ipos_start s ch)) by lia.
  reflexivity.
Qed.

Theorem iter_run_spec s m : Inv s -> represents s m ->
  exists kvs : list (bytes * bytes),
    iter_run s = Ok (combine (hints_down (length kvs)) kvs, 0, [None; None]) /\
    kvs ≡ₚ map_to_list m /\
    N.of_nat (length kvs) = len s.
Proof.
  intros (ch & Hinv) Hrep. exists (map (kv_of s) (order s ch)).
  split; [|split].
  - unfold iter_run. rewrite (iter_collect_order s ch Hinv). cbn [rbind].
    rewrite (iter_extra_exhausted s ch 0 2 Hinv). cbn [rbind size_hint it_rem repeat].
    rewrite map_length. reflexivity.
  - exact (order_items s ch m Hinv Hrep).
  - rewrite map_length. unfold len. exact (order_length s ch Hinv).
Qed.

Corollary iter_all_spec s m : Inv s -> represents s m ->
  exists kvs, iter_all s = Ok kvs /\ kvs ≡ₚ map_to_list m.
Proof.
  intros (ch & Hinv) Hrep. exists (map (kv_of s) (order s ch)). split.
  - unfold iter_all. rewrite (iter_collect_order s ch Hinv). cbn [rbind]. f_equal.
    change (@map (N * (bytes * bytes)) (bytes * bytes) snd) with (@fmap list _ (N * (bytes * bytes)) _ snd).
    apply snd_zip. rewrite hints_down_length, map_length. lia.
  - exact (order_items s ch m Hinv Hrep).
Qed.

(** after the traversal any number of further [next] calls return [None] *)
Theorem iter_stays_exhausted s m n : Inv s -> represents s m ->
  exists items st,
    iter_collect (S (S (N.to_nat (count (hx s))))) s (iter_new s) [] = Ok (items, st) /\
    size_hint st = 0 /\
    iter_extra n s st = Ok (repeat None n).
Proof.
  intros (ch & Hinv) _. eexists _, _. split; [exact (iter_collect_order s ch Hinv)|].
  split; [reflexivity|]. exact (iter_extra_exhausted s ch 0 n Hinv).
Qed.

(** the size hint seen before the [j]-th item is the number of items not yet yielded *)
Corollary iter_run_hints s m : Inv s -> represents s m ->
  exists items ex, iter_run s = Ok (items, 0, ex) /\
    N.of_nat (length items) = len s /\
    forall j h kv, items !! j = Some (h, kv) -> h = len s - N.of_nat j.
Proof.
  intros HI HR. destruct (iter_run_spec s m HI HR) as (kvs & Hrun & _ & Hlen).
  eexists _, _. split; [exact Hrun|].
  assert (length (combine (hints_down (length kvs)) kvs) = length kvs) as Hl
    by (rewrite combine_length, hints_down_length; lia).
  split; [rewrite Hl; exact Hlen|].
  intros j h kv Hj.
  change (combine (hints_down (length kvs)) kvs) with (zip (hints_down (length kvs)) kvs) in Hj.
  apply lookup_zip_with_Some in Hj as (h' & kv' & Heq & Hh & Hkv). injection Heq as -> ->.
  apply lookup_lt_Some in Hkv as Hlt. rewrite hints_down_lookup in Hh by exact Hlt.
  injection Hh as <-. lia.
Qed.

(** ** Non-vacuity: concrete stores reached by API histories (so [Inv] and [represents] hold
    by [run_from_create]) whose traversal is computed *)

Definition run_iter (t : ktype) (n : N) (ops : list dop) :=
  let* (s, _) := store_run (create t n) ops in iter_run s.

Ltac wf_bytes_ops :=
  repeat (apply Forall_cons; split);
  try apply Forall_nil;
  repeat match goal with
  | |- op_wf _ _ => cbn [op_wf]
  | |- _ /\ _ => split
  | |- key_wf _ _ => unfold key_wf
  | |- val_wf _ => unfold val_wf
  | |- bytes_ok _ => unfold bytes_ok, byte_ok; repeat constructor; lia
  | |- blen _ < _ => vm_compute; reflexivity
  | |- _ = KVu64 -> _ => discriminate
  | |- True => exact I
  end.

(** a computed history gives a store satisfying the hypotheses of [iter_run_spec], and the
    traversal of that store is the computed one *)
Lemma history_store t n ops out :
  1 <= n -> Forall (op_wf t) ops -> run_iter t n ops = Ok out ->
  exists s, Inv s /\ represents s (fst (spec_run ∅ ops)) /\ nb (hx s) = n /\ iter_run s = Ok out.
Proof.
  intros Hn Hw Hout.
  destruct (create_closed t n Hn) as [HI HR].
  destruct (run_refines (create t n) ∅ ops HI HR Hw) as (s & Hr & HI' & HR' & _ & Hnb).
  exists s. split; [exact HI'|]. split; [exact HR'|]. split; [exact Hnb|].
  unfold run_iter in Hout. rewrite Hr in Hout. cbn [rbind] in Hout. exact Hout.
Qed.

(** four buckets; updates, a delete, a re-put: three live entries, hints 3, 2, 1 *)
Definition ops_nb4 : list dop :=
  [Put [1] [10]; Put [2] [20]; Put [3] [30]; Put [4; 4] [40; 41]; Del [2]; Put [1] [11; 12]].

Example C04_nonvacuous_nb4 :
  exists s, Inv s /\ represents s (fst (spec_run ∅ ops_nb4)) /\ nb (hx s) = 4 /\
    iter_run s = Ok ([(3, ([4; 4], [40; 41])); (2, ([1], [11; 12])); (1, ([3], [30]))],
                     0, [None; None]).
Proof.
  apply (history_store KBytes 4 ops_nb4); [lia| |vm_compute; reflexivity].
  unfold ops_nb4. wf_bytes_ops.
Qed.

(** a single bucket: every entry on one chain *)
Definition ops_nb1 : list dop :=
  [Put [1] [10]; Put [2] [20]; Put [3] [30]; Del [2]; Put [7] []].

Example C04_nonvacuous_nb1 :
  exists s, Inv s /\ represents s (fst (spec_run ∅ ops_nb1)) /\ nb (hx s) = 1 /\
    iter_run s = Ok ([(3, ([7], [])); (2, ([3], [30])); (1, ([1], [10]))], 0, [None; None]).
Proof.
  apply (history_store KBytes 1 ops_nb1); [lia| |vm_compute; reflexivity].
  unfold ops_nb1. wf_bytes_ops.
Qed.

(** 128 buckets, sparse: occupied buckets 0, 62, 64, 91 (a chain of two), 113, 116 -- the scan
    crosses u64 and byte strides of the bitmap *)
Definition ops_nb128 : list dop :=
  [Put [15] [1]; Put [1; 1] [2]; Put [5; 0; 5] [3]; Put [3; 3] [4]; Put [3; 0; 3] [5];
   Put [14; 0; 14] [6]; Put [16; 0; 16] [7]; Put [8; 0; 8] [8]; Del [1; 1]; Put [3; 3] [44; 44]].

Example C04_nonvacuous_nb128 :
  exists s, Inv s /\ represents s (fst (spec_run ∅ ops_nb128)) /\ nb (hx s) = 128 /\
    iter_run s = Ok ([(7, ([15], [1])); (6, ([8; 0; 8], [8])); (5, ([16; 0; 16], [7]));
                      (4, ([3; 0; 3], [5])); (3, ([3; 3], [44; 44])); (2, ([14; 0; 14], [6]));
                      (1, ([5; 0; 5], [3]))], 0, [None; None]).
Proof.
  apply (history_store KBytes 128 ops_nb128); [lia| |vm_compute; reflexivity].
  unfold ops_nb128. wf_bytes_ops.
Qed.

Example C04_nb128_occupied_buckets :
  (let* (s, _) := store_run (create KBytes 128) ops_nb128 in
   Ok (filter (fun b => negb (head_at (hx s) b =? 0)) (seqN' 0 128)))
  = Ok [0; 62; 64; 91; 113; 116].
Proof. vm_compute. reflexivity. Qed.

(** the empty map: no item, hint 0, exhausted *)
Example C04_empty : iter_run (create KBytes 8) = Ok ([], 0, [None; None]).
Proof. vm_compute. reflexivity. Qed.

Print Assumptions iter_run_spec.
Print Assumptions iter_all_spec.
Print Assumptions iter_stays_exhausted.
Print Assumptions iter_run_hints.
Print Assumptions C04_nonvacuous_nb4.
Print Assumptions C04_nonvacuous_nb1.
Print Assumptions C04_nonvacuous_nb128.
