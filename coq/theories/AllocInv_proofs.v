(** * AllocInv_proofs: proofs of the allocator specifications of AllocInv.v *)
From Coq Require Import Lia ZifyN ZifyNat ZifyBool.
From Aby Require Import Base Vu64 Consts Sizing Alloc AllocInv.


(** ** generic list / map helpers *)

Lemma NoDup_concat_seq {A} (g : nat -> list A) n : forall a,
  NoDup (concat (map g (seq a n))) <->
  (forall i, (a <= i < a + n)%nat -> NoDup (g i)) /\
  (forall i j x, (a <= i < a + n)%nat -> (a <= j < a + n)%nat -> i <> j ->
     x ∈ g i -> x ∈ g j -> False).
Proof.
  induction n as [|n IH]; intros a.
  - cbn. split; [intros _; split; intros; lia | intros _; constructor].
  - cbn [seq map concat]. rewrite NoDup_app, IH. split.
    + intros (Ha & Hd & Hn & Hdis). split.
      * intros i Hi. destruct (decide (i = a)) as [-> | ?]; [done | apply Hn; lia].
      * intros i j x Hi Hj Hij Hxi Hxj.
        destruct (decide (i = a)) as [-> | ?]; destruct (decide (j = a)) as [-> | ?]; try lia.
        -- apply (Hd x Hxi). apply elem_of_list_In, in_concat. exists (g j).
           split; [ apply in_map, in_seq; lia | by apply elem_of_list_In ].
        -- apply (Hd x Hxj). apply elem_of_list_In, in_concat. exists (g i).
           split; [ apply in_map, in_seq; lia | by apply elem_of_list_In ].
        -- apply (Hdis i j x); auto; lia.
    + intros (Hn & Hdis). split; [apply Hn; lia|]. split; [|split].
      * intros x Hxa Hin. apply elem_of_list_In, in_concat in Hin.
        destruct Hin as (l & Hl & Hxl). apply in_map_iff in Hl. destruct Hl as (j & <- & Hj).
        apply in_seq in Hj. apply (Hdis a j x); auto; try lia. by apply elem_of_list_In.
      * intros i Hi. apply Hn; lia.
      * intros i j x Hi Hj. apply Hdis; lia.
Qed.

Lemma NoDup_length_size {A} (m : gmap N A) (l : list N) :
  NoDup l -> (forall x, x ∈ l -> is_Some (m !! x)) -> (length l <= size m)%nat.
Proof.
  intros Hnd Hin.
  rewrite <- (size_list_to_set (C := gset N) l) by done.
  rewrite <- (size_dom (D := gset N) m).
  apply subseteq_size. intros x Hx. apply elem_of_list_to_set in Hx.
  apply elem_of_dom. auto.
Qed.

(** ** size classes *)
Section sizing.
Context (c : pcfg) (Hc : cfg_ok c).

Definition sizes : list N := [16; 24; 32; 48; 64; 80; 96; 112; 128; 256; 384; 512; 640; 768; 896; 1024].

Lemma size_ary_eq : size_ary c = sizes.
Proof. destruct Hc as [-> | ->]; reflexivity. Qed.
Lemma hdr_size_eq : hdr_size c = 192.
Proof. destruct Hc as [-> | ->]; reflexivity. Qed.
Lemma nclasses_eq : nclasses c = 16%nat.
Proof. destruct Hc as [-> | ->]; reflexivity. Qed.
Lemma last_class_eq : last_class c = 1024.
Proof. destruct Hc as [-> | ->]; reflexivity. Qed.
Lemma second_last_class_eq : second_last_class c = 896.
Proof. destruct Hc as [-> | ->]; reflexivity. Qed.

Lemma is_large_eq sz : is_large c sz = (1024 <=? sz).
Proof. unfold is_large. by rewrite last_class_eq. Qed.

Lemma class_idx_eq sz :
  class_idx c sz =
  if sz =? 0 then Panic DebugAssert
  else match index_of sz sizes 0 with
       | Some i => Ok i
       | None => if 896 <? sz then Ok 15%nat else Panic DebugAssert
       end.
Proof.
  unfold class_idx. rewrite size_ary_eq, second_last_class_eq.
  replace (length (free_off c) - 1)%nat with 15%nat; [done|].
  destruct Hc as [-> | ->]; reflexivity.
Qed.

Lemma valid_slot_size_eq sz :
  valid_slot_size c sz <-> In sz sizes \/ (1024 < sz /\ sz mod 128 = 0).
Proof. unfold valid_slot_size. by rewrite size_ary_eq, last_class_eq. Qed.

Lemma index_of_nth x l : forall k i,
  index_of x l k = Some i -> (k <= i)%nat /\ (i - k < length l)%nat /\ nth (i - k) l 0 = x.
Proof.
  induction l as [|a l IH]; intros k i; cbn [index_of]; [done|].
  destruct (N.eqb_spec a x) as [-> | Hne].
  - intros [= ->]. replace (i - i)%nat with 0%nat by lia. cbn. split; [lia|]. split; [lia|done].
  - intros H. apply IH in H as (H1 & H2 & H3).
    replace (i - k)%nat with (S (i - S k)) by lia. cbn [nth length]. split; [lia|]. split; [lia|done].
Qed.

Lemma index_of_None x l : forall k, index_of x l k = None -> ~ In x l.
Proof.
  induction l as [|a l IH]; intros k; cbn [index_of In]; [tauto|].
  destruct (N.eqb_spec a x) as [-> | Hne]; [done|].
  intros H [? | ?]; [done|]. by eapply IH.
Qed.

Lemma index_of_In x l : forall k, In x l -> exists i, index_of x l k = Some i.
Proof.
  intros k Hin. destruct (index_of x l k) eqn:E; [eauto|].
  by apply index_of_None in E.
Qed.

(** a class index below the last one determines the size *)
Lemma class_idx_small sz i :
  class_idx c sz = Ok i -> (i < 15)%nat -> nth i sizes 0 = sz /\ sz < 1024 /\ In sz sizes.
Proof.
  rewrite class_idx_eq. destruct (sz =? 0); [done|].
  destruct (index_of sz sizes 0) as [j|] eqn:E.
  - intros [= ->] Hi. apply index_of_nth in E as (_ & _ & E).
    replace (i - 0)%nat with i in E by lia. split; [done|].
    do 15 (destruct i as [|i]; [cbn in E; subst sz; split; [lia | cbv; tauto] |]). lia.
  - destruct (896 <? sz); [|done]. intros [= <-]. lia.
Qed.

Lemma class_idx_large sz : 1024 <= sz -> class_idx c sz = Ok 15%nat.
Proof.
  intros H. rewrite class_idx_eq.
  destruct (N.eqb_spec sz 0); [lia|].
  destruct (N.eqb_spec sz 1024) as [-> | Hne]; [reflexivity|].
  destruct (index_of sz sizes 0) eqn:E.
  - apply index_of_nth in E as (_ & Hl & E). replace (n0 - 0)%nat with n0 in * by lia.
    cbn in Hl.
    do 16 (destruct n0 as [|n0]; [cbn in E; lia |]). lia.
  - destruct (N.ltb_spec 896 sz); [done | lia].
Qed.

Lemma class_idx_valid sz :
  valid_slot_size c sz -> exists i, class_idx c sz = Ok i /\ (i < 16)%nat /\
                                    (sz < 1024 -> (i < 15)%nat).
Proof.
  intros H. destruct (N.le_gt_cases 1024 sz) as [Hl | Hl].
  - exists 15%nat. split; [by apply class_idx_large|]. split; lia.
  - apply valid_slot_size_eq in H as [H | H]; [|lia].
    cbv [sizes In] in H.
    repeat (destruct H as [<- | H]; [eexists; split; [rewrite class_idx_eq; reflexivity|]; split; lia |]).
    all: try done.
Qed.

Lemma valid_slot_size_facts sz : valid_slot_size c sz -> 16 <= sz /\ sz mod 8 = 0.
Proof.
  intros H. apply valid_slot_size_eq in H as [H | [H1 H2]].
  - cbv [sizes In] in H.
    repeat (destruct H as [<- | H]; [split; [lia | reflexivity] |]). done.
  - split; lia.
Qed.

Lemma valid_slot_size_valid_size sz : valid_slot_size c sz -> valid_size c sz = true.
Proof.
  intros H. unfold valid_size. rewrite size_ary_eq, second_last_class_eq.
  apply valid_slot_size_eq in H as [H | [H1 H2]].
  - cbv [sizes In] in H.
    repeat (destruct H as [<- | H]; [reflexivity |]). done.
  - destruct (N.eqb_spec sz 0); [lia|]. destruct (N.ltb_spec 896 sz); [|lia].
    cbn [negb andb]. by rewrite orb_true_r.
Qed.

Lemma roundup_facts need : 0 < need -> valid_slot_size c (roundup c need) /\ need <= roundup c need.
Proof.
  intros Hn. rewrite valid_slot_size_eq. unfold roundup. rewrite size_ary_eq.
  cbv [sizes removelast find].
  repeat (match goal with |- context [need <=? ?a] => destruct (N.leb_spec need a) end;
    [split; [left; cbv; tauto | lia] |]).
  destruct (N.lt_ge_cases need 1024).
  - replace ((need + 128) / 128) with 8 by lia. split; [left; cbv; tauto | lia].
  - split; [right; split|]; lia.
Qed.

End sizing.

Section proofs.
Context {P : Type} (c : pcfg) (Hc : cfg_ok c).
Implicit Types (f : pfile P) (frees : nat -> list N).

(** ** the slot walk *)
Lemma tiles_le_fend f o l : tiles c f o l -> o <= fend f.
Proof. induction 1; lia. Qed.

Lemma tiles_elem f o l : tiles c f o l -> forall x, x ∈ l ->
  o <= x /\ exists s, slots f !! x = Some s /\ valid_slot_size c (slot_size s) /\
                      x + slot_size s <= fend f /\ (o mod 8 = 0 -> x mod 8 = 0).
Proof.
  induction 1 as [|off s l Hs Hv Ht IH]; intros x Hx.
  - by apply elem_of_nil in Hx.
  - apply elem_of_cons in Hx as [-> | Hx].
    + split; [lia|]. exists s. repeat split; auto. by apply tiles_le_fend in Ht.
    + destruct (IH x Hx) as (H1 & s' & H2 & H3 & H4 & H5). split; [lia|].
      exists s'. repeat split; auto.
      intros Ho. apply H5. pose proof (valid_slot_size_facts c Hc _ Hv). lia.
Qed.

Lemma tiles_NoDup f o l : tiles c f o l -> NoDup l.
Proof.
  induction 1 as [|off s l Hs Hv Ht IH]; constructor; [|done].
  intros Hin. apply (tiles_elem _ _ _ Ht) in Hin as [Hle _].
  pose proof (valid_slot_size_facts c Hc _ Hv). lia.
Qed.

Definition same_sizes f f' : Prop :=
  fend f' = fend f /\ forall o, slot_size <$> (slots f' !! o) = slot_size <$> (slots f !! o).

Lemma tiles_same_sizes f f' o l : same_sizes f f' -> tiles c f o l -> tiles c f' o l.
Proof.
  intros [Hfe Hss]. induction 1 as [|off s l Hs Hv Ht IH].
  - rewrite <- Hfe. constructor.
  - pose proof (Hss off) as e. rewrite Hs in e. cbn in e.
    destruct (slots f' !! off) as [s'|] eqn:E; [|done]. injection e as e.
    econstructor; eauto; rewrite e; auto.
Qed.

Lemma same_sizes_dom f f' o : same_sizes f f' -> is_Some (slots f' !! o) <-> is_Some (slots f !! o).
Proof.
  intros [_ Hss]. specialize (Hss o). rewrite <- !(fmap_is_Some slot_size), Hss. done.
Qed.

Lemma tiles_append f o l nsz p :
  tiles c f o l -> valid_slot_size c nsz ->
  tiles c (PFile (<[fend f := Used nsz p]> (slots f)) (heads f) (fend f + nsz)) o (l ++ [fend f]).
Proof.
  intros Ht Hv. induction Ht as [|off s l Hs Hv' Ht IH].
  - cbn [app]. eapply t_cons with (s := Used nsz p); [apply lookup_insert | done |].
    cbn [slot_size]. apply (t_nil c (PFile _ _ _)).
  - cbn [app]. econstructor; eauto. cbn [slots]. rewrite lookup_insert_ne; [done|].
    apply tiles_le_fend in Ht. pose proof (valid_slot_size_facts c Hc _ Hv'). lia.
Qed.

(** ** free lists *)
Lemma flist_frame f f' h l :
  flist f h l -> (forall o, o ∈ l -> slots f' !! o = slots f !! o) -> flist f' h l.
Proof.
  induction 1 as [|off sz nxt l Hn Hs Hl IH]; intros Hf; [constructor|].
  econstructor; eauto.
  - rewrite Hf; [eauto | left].
  - apply IH. intros; apply Hf; by right.
Qed.

Lemma flist_elem f h l x :
  flist f h l -> x ∈ l -> x <> 0 /\ exists sz nxt, slots f !! x = Some (Free sz nxt).
Proof.
  induction 1 as [|off sz nxt l Hn Hs Hl IH]; intros Hx.
  - by apply elem_of_nil in Hx.
  - apply elem_of_cons in Hx as [-> | Hx]; eauto.
Qed.

Lemma flist_inv f h l :
  flist f h l ->
  (h = 0 /\ l = []) \/
  (exists sz nxt l', h <> 0 /\ l = h :: l' /\ slots f !! h = Some (Free sz nxt) /\ flist f nxt l').
Proof. destruct 1; [by left | right; eauto 10]. Qed.

(** ** list heads *)
Lemma head_of_insert f f' i v :
  (i < length (heads f))%nat -> heads f' = <[i := v]> (heads f) -> head_of f' i = v.
Proof.
  intros Hi He. unfold head_of. rewrite He, nth_lookup, list_lookup_insert; done.
Qed.

Lemma head_of_insert_ne f f' i j v :
  i <> j -> heads f' = <[i := v]> (heads f) -> head_of f' j = head_of f j.
Proof.
  intros Hi He. unfold head_of. rewrite He, !nth_lookup, list_lookup_insert_ne; done.
Qed.

Lemma head_of_same f f' j : heads f' = heads f -> head_of f' j = head_of f j.
Proof. intros He. unfold head_of. by rewrite He. Qed.

Definition upd frees (i : nat) (l : list N) : nat -> list N :=
  fun j => if decide (j = i) then l else frees j.

Lemma upd_eq frees i l : upd frees i l i = l.
Proof. unfold upd. by rewrite decide_True. Qed.
Lemma upd_ne frees i j l : j <> i -> upd frees i l j = frees j.
Proof. intros. unfold upd. by rewrite decide_False. Qed.

(** ** the invariant, unfolded *)
Lemma inv_nodup_iff frees :
  NoDup (concat (map frees (seq 0 (nclasses c)))) <->
  (forall i, (i < 16)%nat -> NoDup (frees i)) /\
  (forall i j x, (i < 16)%nat -> (j < 16)%nat -> i <> j -> x ∈ frees i -> x ∈ frees j -> False).
Proof.
  rewrite (nclasses_eq c Hc), NoDup_concat_seq.
  split; intros [H1 H2]; (split; [intros; apply H1; lia | intros i j x ? ? ? ? ?; apply (H2 i j x); auto; lia]).
Qed.

Lemma inv_slot f frees o s :
  alloc_inv c f frees -> slots f !! o = Some s ->
  192 <= o /\ o mod 8 = 0 /\ valid_slot_size c (slot_size s) /\ o + slot_size s <= fend f.
Proof.
  intros [_ (l & Ht & Hl) _ _ _ _ _] Hs.
  assert (o ∈ l) as Hin by (apply Hl; eauto).
  destruct (tiles_elem _ _ _ Ht _ Hin) as (H1 & s' & H2 & H3 & H4 & H5).
  rewrite (hdr_size_eq c Hc) in *. rewrite Hs in H2. injection H2 as <-.
  repeat split; auto.
Qed.

Lemma inv_fend_none f frees : alloc_inv c f frees -> slots f !! fend f = None.
Proof.
  intros Hi. destruct (slots f !! fend f) as [s|] eqn:E; [|done].
  destruct (inv_slot _ _ _ _ Hi E) as (_ & _ & Hv & Hle).
  pose proof (valid_slot_size_facts c Hc _ Hv). lia.
Qed.

Lemma inv_free_elem f frees i x :
  alloc_inv c f frees -> (i < 16)%nat -> x ∈ frees i ->
  x <> 0 /\ exists sz nxt, slots f !! x = Some (Free sz nxt) /\ class_idx c sz = Ok i /\
                           valid_slot_size c sz.
Proof.
  intros Hi Hlt Hx. rewrite <- (nclasses_eq c Hc) in Hlt.
  destruct (ai_class _ _ _ Hi i x Hlt Hx) as (sz & nxt & Hs & Hci).
  split.
  - by destruct (flist_elem _ _ _ _ (ai_lists _ _ _ Hi i Hlt) Hx).
  - exists sz, nxt. repeat split; auto. by destruct (inv_slot _ _ _ _ Hi Hs) as (_ & _ & ? & _).
Qed.

Lemma inv_used_not_free f frees i x sz p :
  alloc_inv c f frees -> (i < 16)%nat -> slots f !! x = Some (Used sz p) -> x ∉ frees i.
Proof.
  intros Hi Hlt Hs Hx. destruct (inv_free_elem _ _ _ _ Hi Hlt Hx) as (_ & ? & ? & ? & _). congruence.
Qed.


Record inv16 f frees : Prop := {
  i_heads : length (heads f) = 16%nat;
  i_tiles : exists l, tiles c f 192 l /\ (forall off, is_Some (slots f !! off) <-> off ∈ l);
  i_lists : forall i, (i < 16)%nat -> flist f (head_of f i) (frees i);
  i_class : forall i off, (i < 16)%nat -> off ∈ frees i ->
            exists sz nxt, slots f !! off = Some (Free sz nxt) /\ class_idx c sz = Ok i;
  i_nd : forall i, (i < 16)%nat -> NoDup (frees i);
  i_disj : forall i j x, (i < 16)%nat -> (j < 16)%nat -> i <> j ->
           x ∈ frees i -> x ∈ frees j -> False;
  i_listed : forall off sz nxt, slots f !! off = Some (Free sz nxt) ->
             exists i, (i < 16)%nat /\ off ∈ frees i;
  i_fend : 192 <= fend f }.

Lemma inv16_iff f frees : alloc_inv c f frees <-> inv16 f frees.
Proof.
  split.
  - intros [H1 H2 H3 H4 H5 H6 H7]. rewrite inv_nodup_iff in H5. destruct H5.
    rewrite (nclasses_eq c Hc) in *. rewrite (hdr_size_eq c Hc) in *. by constructor.
  - intros [H1 H2 H3 H4 H5 H6 H7 H8].
    constructor; rewrite ?(nclasses_eq c Hc), ?(hdr_size_eq c Hc); auto.
    rewrite <- (nclasses_eq c Hc). apply inv_nodup_iff. auto.
Qed.

Lemma tiles_dom_same_sizes f f' : same_sizes f f' ->
  (exists l, tiles c f 192 l /\ (forall off, is_Some (slots f !! off) <-> off ∈ l)) ->
  (exists l, tiles c f' 192 l /\ (forall off, is_Some (slots f' !! off) <-> off ∈ l)).
Proof.
  intros Hss (l & Ht & Hl). exists l. split; [by eapply tiles_same_sizes|].
  intros off. rewrite (same_sizes_dom _ _ _ Hss). apply Hl.
Qed.

Definition pay (s : slot P) : option P := match s with Used _ p => Some p | Free _ _ => None end.
Lemma used_lookup f o : used f !! o = slots f !! o ≫= pay.
Proof. unfold used. by rewrite lookup_omap. Qed.

(** ** push on a free list *)
Lemma push_inv f frees off osz p0 i :
  alloc_inv c f frees -> slots f !! off = Some (Used osz p0) ->
  class_idx c osz = Ok i -> (i < 16)%nat ->
  alloc_inv c (PFile (<[off := Free osz (head_of f i)]> (slots f)) (<[i := off]> (heads f)) (fend f))
            (upd frees i (off :: frees i)).
Proof.
  intros Hi Hs Hci Hlt. pose proof Hi as Hi0.
  apply inv16_iff in Hi as [H1 H2 H3 H4 H5 H6 H7 H8]. apply inv16_iff.
  assert (Hnf : forall j, (j < 16)%nat -> off ∉ frees j)
    by (intros j Hj; eapply inv_used_not_free; eauto).
  match goal with |- inv16 ?g _ => set (f' := g) end.
  assert (Hfr : forall o, o <> off -> slots f' !! o = slots f !! o)
    by (intros; cbn; by rewrite lookup_insert_ne).
  assert (Hoff : slots f' !! off = Some (Free osz (head_of f i))) by apply lookup_insert.
  assert (Hhd : heads f' = <[i := off]> (heads f)) by done.
  constructor.
  - cbn. by rewrite insert_length.
  - apply (tiles_dom_same_sizes f); [|done]. split; [done|]. intros o.
    destruct (decide (o = off)) as [-> | Hne].
    + by rewrite Hoff, Hs.
    + by rewrite Hfr.
  - intros j Hj. destruct (decide (j = i)) as [-> | Hne].
    + rewrite upd_eq. rewrite (head_of_insert f f' i off) by (done || lia).
      econstructor.
      * destruct (inv_slot _ _ _ _ Hi0 Hs). lia.
      * exact Hoff.
      * eapply flist_frame; [apply H3; done|]. intros o Ho. apply Hfr. intros ->. by apply (Hnf i).
    + rewrite upd_ne by done. rewrite (head_of_insert_ne f f' i j off) by done.
      eapply flist_frame; [apply H3; done|]. intros o Ho. apply Hfr. intros ->. by apply (Hnf j).
  - intros j o Hj Ho. destruct (decide (j = i)) as [-> | Hne].
    + rewrite upd_eq in Ho. apply elem_of_cons in Ho as [-> | Ho]; [eauto|].
      rewrite Hfr; [eauto|]. intros ->; by apply (Hnf i).
    + rewrite upd_ne in Ho by done. rewrite Hfr; [eauto|]. intros ->; by apply (Hnf j).
  - intros j Hj. destruct (decide (j = i)) as [-> | Hne]; [rewrite upd_eq | rewrite upd_ne by done]; auto.
    constructor; auto.
  - intros j k x Hj Hk Hjk. unfold upd. repeat case_decide; subst; try done.
    + intros Hx Hx'. apply elem_of_cons in Hx as [-> | Hx]; [by apply (Hnf k)|]. by apply (H6 i k x).
    + intros Hx' Hx. apply elem_of_cons in Hx as [-> | Hx]; [by apply (Hnf j)|]. by apply (H6 j i x).
    + by apply (H6 j k x).
  - intros o sz nxt Ho. destruct (decide (o = off)) as [-> | Hne].
    + exists i. split; [done|]. rewrite upd_eq. left.
    + rewrite Hfr in Ho by done. destruct (H7 _ _ _ Ho) as (j & Hj & Hin). exists j. split; [done|].
      destruct (decide (j = i)) as [-> | ?]; [rewrite upd_eq; by right | by rewrite upd_ne].
  - done.
Qed.

(** ** extend the file *)
Lemma append_inv f frees nsz p :
  alloc_inv c f frees -> valid_slot_size c nsz ->
  alloc_inv c (PFile (<[fend f := Used nsz p]> (slots f)) (heads f) (fend f + nsz)) frees.
Proof.
  intros Hi Hv. pose proof (inv_fend_none _ _ Hi) as Hnone. pose proof Hi as Hi0.
  apply inv16_iff in Hi as [H1 H2 H3 H4 H5 H6 H7 H8]. apply inv16_iff.
  match goal with |- inv16 ?g _ => set (f' := g) end.
  assert (Hfr : forall o, o <> fend f -> slots f' !! o = slots f !! o)
    by (intros; cbn; by rewrite lookup_insert_ne).
  assert (Hoff : slots f' !! fend f = Some (Used nsz p)) by apply lookup_insert.
  assert (Hnf : forall j o, (j < 16)%nat -> o ∈ frees j -> o <> fend f).
  { intros j o Hj Ho ->. destruct (H4 j _ Hj Ho) as (? & ? & ? & _). congruence. }
  constructor; auto.
  - destruct H2 as (l & Ht & Hl). exists (l ++ [fend f]). split; [by apply tiles_append|].
    intros o. rewrite elem_of_app, elem_of_list_singleton, <- Hl.
    destruct (decide (o = fend f)) as [-> | Hne].
    + rewrite Hoff. split; eauto.
    + rewrite Hfr by done. split; [by left | by intros [? | ?]].
  - intros j Hj. rewrite (head_of_same f f') by done.
    eapply flist_frame; [by apply H3|]. intros o Ho. apply Hfr. eauto.
  - intros j o Hj Ho. rewrite Hfr by eauto. auto.
  - intros o sz nxt Ho. destruct (decide (o = fend f)) as [-> | Hne].
    + rewrite Hoff in Ho. done.
    + rewrite Hfr in Ho by done. eauto.
  - cbn. lia.
Qed.

(** ** unlink from a free list *)
Fixpoint lastp (prev : N) (l : list N) : N :=
  match l with [] => prev | a :: l' => lastp a l' end.

Lemma lastp_in a l : lastp a l ∈ a :: l.
Proof. revert a; induction l as [|b l IH]; intros a; cbn; [left | right; apply IH]. Qed.

Lemma flist_relink f f' a la x lb sz nxt :
  flist f a (a :: la ++ x :: lb) -> NoDup (a :: la ++ x :: lb) ->
  slots f !! x = Some (Free sz nxt) ->
  exists psz pn, slots f !! (lastp a la) = Some (Free psz pn) /\
    (slots f' !! (lastp a la) = Some (Free psz nxt) ->
     (forall o, o <> x -> o <> lastp a la -> slots f' !! o = slots f !! o) ->
     flist f' a (a :: la ++ lb)).
Proof.
  revert a. induction la as [|b la IH]; intros a Hfl Hnd Hx.
  - cbn [app lastp] in *.
    destruct (flist_inv _ _ _ Hfl) as [[_ ?] | (asz & anx & l' & Ha0 & Heq & Hsa & Hfl')]; [done|].
    injection Heq as <-.
    destruct (flist_inv _ _ _ Hfl') as [[_ ?] | (xsz & xnx & l'' & Hx0 & Heq & Hsx & Hfl'')]; [done|].
    injection Heq as <- <-. rewrite Hx in Hsx. injection Hsx as <- <-.
    exists asz, x. split; [done|]. intros Hpv Hfr.
    econstructor; eauto. eapply flist_frame; eauto. intros o Ho. apply Hfr.
    + intros ->. apply NoDup_cons in Hnd as [_ Hnd]. apply NoDup_cons in Hnd as [Hnd _]. done.
    + intros ->. apply NoDup_cons in Hnd as [Hnd _]. apply Hnd. by right.
  - cbn [app lastp] in *.
    destruct (flist_inv _ _ _ Hfl) as [[_ ?] | (asz & anx & l' & Ha0 & Heq & Hsa & Hfl')]; [done|].
    injection Heq as <-.
    assert (anx = b) as ->.
    { destruct (flist_inv _ _ _ Hfl') as [[_ ?] | (? & ? & ? & _ & Heq & _)]; [done|]. by injection Heq. }
    apply NoDup_cons in Hnd as [Hna Hnd].
    destruct (IH b Hfl' Hnd Hx) as (psz & pn & Hpv & Hrec).
    exists psz, pn. split; [done|]. intros Hpv' Hfr.
    econstructor; [done| |apply Hrec; auto].
    rewrite Hfr; [done|..].
    + intros ->. apply Hna. set_solver.
    + intros Heq. apply Hna. rewrite Heq. pose proof (lastp_in b la). set_solver.
Qed.


Lemma NoDup_remove_mid (la lb : list N) x :
  NoDup (la ++ x :: lb) -> NoDup (la ++ lb) /\ x ∉ la /\ x ∉ lb.
Proof.
  rewrite !NoDup_app, NoDup_cons. intros (H1 & H2 & H3 & H4). repeat split; auto.
  - intros y Hy Hy'. apply (H2 y Hy). by right.
  - intros Hx. apply (H2 x Hx). by left.
Qed.

Lemma reuse_inv f frees i la x lb sz nxt f' p :
  alloc_inv c f frees -> (i < 16)%nat -> frees i = la ++ x :: lb ->
  slots f !! x = Some (Free sz nxt) ->
  fend f' = fend f ->
  slots f' !! x = Some (Used sz p) ->
  (if lastp 0 la =? 0
   then heads f' = <[i := nxt]> (heads f) /\ forall o, o <> x -> slots f' !! o = slots f !! o
   else heads f' = heads f /\ exists psz pn, slots f !! (lastp 0 la) = Some (Free psz pn) /\
        slots f' !! (lastp 0 la) = Some (Free psz nxt) /\
        forall o, o <> x -> o <> lastp 0 la -> slots f' !! o = slots f !! o) ->
  alloc_inv c f' (upd frees i (la ++ lb)) /\ used f' = <[x := p]> (used f) /\
  (forall o sz0 q, o <> x -> slots f !! o = Some (Used sz0 q) -> slots f' !! o = Some (Used sz0 q)).
Proof.
  intros Hi Hlt Hfi Hx Hfe Hx' Hcase. pose proof Hi as Hi0.
  apply inv16_iff in Hi as [H1 H2 H3 H4 H5 H6 H7 H8].
  set (pv := lastp 0 la) in *.
  pose proof (H5 i Hlt) as Hnd. rewrite Hfi in Hnd.
  pose proof (H3 i Hlt) as Hfl. rewrite Hfi in Hfl.
  destruct (NoDup_remove_mid _ _ _ Hnd) as (Hnd' & Hxla & Hxlb).
  assert (Hxi : x ∈ frees i) by (rewrite Hfi; set_solver).
  assert (Hla : forall o, o ∈ la -> o ∈ frees i /\ o <> x /\ o <> 0).
  { intros o Ho. assert (o ∈ frees i) as Hoi by (rewrite Hfi; set_solver). split; [done|]. split.
    - by intros ->.
    - by destruct (inv_free_elem _ _ _ _ Hi0 Hlt Hoi). }
  assert (Hlb : forall o, o ∈ lb -> o ∈ frees i /\ o <> x).
  { intros o Ho. split; [rewrite Hfi; set_solver | by intros ->]. }
  assert (Hcommon :
     (forall o, o <> x -> slots f' !! o = slots f !! o \/
        (o = pv /\ pv ∈ la /\ exists psz pn, slots f !! o = Some (Free psz pn) /\
                                            slots f' !! o = Some (Free psz nxt))) /\
     length (heads f') = 16%nat /\
     (forall j, j <> i -> head_of f' j = head_of f j) /\
     flist f' (head_of f' i) (la ++ lb)).
  { destruct la as [|a la'].
    - cbn in pv. subst pv. change (0 =? 0) with true in Hcase. cbv iota in Hcase.
      destruct Hcase as [Hh Hfr].
      split; [auto|]. split; [by rewrite Hh, insert_length|].
      split; [intros; by eapply head_of_insert_ne|].
      cbn [app] in *.
      destruct (flist_inv _ _ _ Hfl) as [[_ ?] | (xsz & xnx & l'' & Hx0 & Heq & Hsx & Hfl'')]; [done|].
      injection Heq as Heq <-. rewrite <- Heq in Hsx. rewrite Hx in Hsx. injection Hsx as <- <-.
      rewrite (head_of_insert f f' i nxt) by (done || lia).
      eapply flist_frame; eauto. intros o Ho. apply Hfr. by apply Hlb.
    - assert (pv ∈ a :: la') as Hpin by exact (lastp_in a la').
      assert (pv <> 0) by (by apply Hla).
      destruct (N.eqb_spec pv 0); [done|]. destruct Hcase as (Hh & psz & pn & Hp1 & Hp2 & Hfr).
      split.
      { intros o Hox. destruct (decide (o = pv)) as [-> | Hne]; [right; eauto 10 | left; auto]. }
      split; [by rewrite Hh|]. split; [intros; by apply head_of_same|].
      rewrite (head_of_same f f') by done.
      cbn [app] in *.
      destruct (flist_inv _ _ _ Hfl) as [[_ ?] | (asz & anx & l'' & Ha0 & Heq & _)]; [done|].
      injection Heq as Heq _. rewrite <- Heq in Hfl |- *.
      destruct (flist_relink f f' a la' x lb sz nxt Hfl Hnd Hx) as (psz' & pn' & Hp1' & Hrec).
      change (lastp a la') with pv in Hp1', Hrec. rewrite Hp1 in Hp1'. injection Hp1' as <- <-. apply Hrec; auto. }
  destruct Hcommon as (Hslot & Hlen & Hhd & Hfli).
  assert (Helem : forall j o, (j < 16)%nat -> o ∈ upd frees i (la ++ lb) j -> o ∈ frees j /\ o <> x).
  { intros j o Hj. unfold upd. case_decide as Hji.
    - subst j. intros [Ho | Ho]%elem_of_app; [destruct (Hla o Ho) as (? & ? & _); done | by apply Hlb].
    - intros Ho. split; [done|]. intros ->. by apply (H6 i j x). }
  split.
  - apply inv16_iff. constructor.
    + done.
    + apply (tiles_dom_same_sizes f); [|done]. split; [done|]. intros o.
      destruct (decide (o = x)) as [-> | Hne]; [by rewrite Hx, Hx'|].
      destruct (Hslot o Hne) as [-> | (_ & _ & psz & pn & -> & ->)]; done.
    + intros j Hj. destruct (decide (j = i)) as [-> | Hne]; [by rewrite upd_eq|].
      rewrite upd_ne by done. rewrite Hhd by done.
      eapply flist_frame; [by apply H3|]. intros o Ho.
      assert (o <> x) as Hox by (intros ->; by apply (H6 i j x)).
      destruct (Hslot o Hox) as [-> | (-> & Hpl & _)]; [done|].
      exfalso. apply (H6 i j pv); auto. by apply Hla.
    + intros j o Hj Ho. destruct (Helem j o Hj Ho) as [Hoj Hox].
      destruct (H4 j o Hj Hoj) as (sz' & nxt' & Hso & Hcl).
      destruct (Hslot o Hox) as [-> | (_ & _ & psz & pn & Hs1 & ->)]; [eauto|].
      rewrite Hso in Hs1. injection Hs1 as <- <-. eauto.
    + intros j Hj. destruct (decide (j = i)) as [-> | Hne]; [by rewrite upd_eq|].
      rewrite upd_ne by done. auto.
    + intros j k o Hj Hk Hjk Ho1 Ho2. apply (H6 j k o); auto; by eapply Helem.
    + intros o s n Ho. assert (o <> x) as Hox by (intros ->; congruence).
      destruct (Hslot o Hox) as [He | (-> & Hpl & _)].
      * rewrite He in Ho. destruct (H7 _ _ _ Ho) as (j & Hj & Hin). exists j. split; [done|].
        destruct (decide (j = i)) as [-> | Hne]; [|by rewrite upd_ne].
        rewrite upd_eq. rewrite Hfi in Hin. set_solver.
      * exists i. split; [done|]. rewrite upd_eq. set_solver.
    + by rewrite Hfe.
  - split.
    + apply map_eq; intros o. rewrite used_lookup.
      destruct (decide (o = x)) as [-> | Hne].
      * by rewrite lookup_insert, Hx'.
      * rewrite lookup_insert_ne by done. rewrite used_lookup.
        destruct (Hslot o Hne) as [-> | (_ & _ & psz & pn & -> & ->)]; done.
    + intros o sz0 q Hne Ho. destruct (Hslot o Hne) as [-> | (_ & _ & psz & pn & Hs1 & _)]; [done|].
      congruence.
Qed.

Lemma lastp0_in la : lastp 0 la <> 0 -> lastp 0 la ∈ la.
Proof. destruct la as [|a la]; cbn [lastp]; [done|]. intros _. apply lastp_in. Qed.

(** ** first fit on the list of large slots *)
Definition small f nsz (o : N) : Prop :=
  forall sz nxt, slots f !! o = Some (Free sz nxt) -> sz < nsz.

Lemma read_free_Free f o sz nxt : slots f !! o = Some (Free sz nxt) -> read_free f o = Ok (sz, nxt).
Proof. intros H. unfold read_free. by rewrite H. Qed.

Lemma pop_large_spec f nsz i : forall l2 fuel prev curr,
  flist f curr l2 -> (length l2 < fuel)%nat ->
  (prev = 0 \/ exists psz pn, slots f !! prev = Some (Free psz pn)) ->
  (Forall (small f nsz) l2 /\ pop_large fuel f nsz i prev curr = Ok (f, 0, 0)) \/
  (exists la x lb sz nxt, l2 = la ++ x :: lb /\ Forall (small f nsz) la /\
     slots f !! x = Some (Free sz nxt) /\ nsz <= sz /\
     exists f1,
       (if lastp prev la =? 0 then f1 = set_head f i nxt
        else exists psz pn, slots f !! (lastp prev la) = Some (Free psz pn) /\
                            f1 = set_slot f (lastp prev la) (Free psz nxt)) /\
       pop_large fuel f nsz i prev curr = Ok (set_slot f1 x (Free sz 0), x, sz)).
Proof.
  intros l2; induction l2 as [|a l2 IH]; intros fuel prev curr Hfl Hfuel Hprev.
  - destruct (flist_inv _ _ _ Hfl) as [[-> _] | (? & ? & ? & _ & ? & _)]; [|done].
    destruct fuel as [|fuel]; [cbn in Hfuel; lia|]. left. split; [constructor|].
    cbn [pop_large]. by rewrite N.eqb_refl.
  - destruct (flist_inv _ _ _ Hfl) as [[_ ?] | (sz & nxt & l' & Ha0 & Heq & Hsa & Hfl')]; [done|].
    injection Heq as -> <-.
    destruct fuel as [|fuel]; [cbn in Hfuel; lia|]. cbn [pop_large].
    destruct (N.eqb_spec curr 0); [done|].
    rewrite (read_free_Free _ _ _ _ Hsa). cbn [rbind].
    destruct (N.leb_spec nsz sz) as [Hle | Hgt].
    + right. exists [], curr, l2, sz, nxt. cbn [lastp app].
      split; [done|]. split; [constructor|]. split; [done|]. split; [done|].
      destruct (N.eqb_spec prev 0) as [Hp | Hp].
      * eexists; split; [reflexivity|]. done.
      * destruct Hprev as [? | (psz & pn & Hps)]; [done|].
        rewrite (read_free_Free _ _ _ _ Hps). cbn [rbind].
        eexists; split; [|reflexivity]. eauto.
    + cbn [length] in Hfuel.
      destruct (IH fuel curr nxt Hfl' ltac:(lia) ltac:(right; eauto))
        as [[Hall Hr] | (la & x & lb & sz' & nxt' & -> & Hall & Hx & Hle & f1 & Hf1 & Hr)].
      * left. split; [|exact Hr]. constructor; [|done].
        intros sz0 nxt0. rewrite Hsa. intros [= <- <-]. done.
      * right. exists (curr :: la), x, lb, sz', nxt'. cbn [lastp app].
        split; [done|]. split; [|eauto].
        constructor; [|done]. intros sz0 nxt0. rewrite Hsa. intros [= <- <-]. done.
Qed.


(** ** alloc *)
Definition alloc_post f nsz p (f' : pfile P) (off sz : N) : Prop :=
  AInv c f' /\
  used f' = <[off := p]> (used f) /\
  slots f' !! off = Some (Used sz p) /\
  nsz <= sz /\
  ((exists nxt, slots f !! off = Some (Free sz nxt)) /\ fend f' = fend f /\
     ~ no_suitable_free c f nsz \/
   off = fend f /\ sz = nsz /\ fend f' = fend f + nsz /\ no_suitable_free c f nsz) /\
  (forall o sz0 q, o <> off -> slots f !! o = Some (Used sz0 q) -> slots f' !! o = Some (Used sz0 q)).

Lemma append_post f frees nsz p :
  alloc_inv c f frees -> valid_slot_size c nsz -> no_suitable_free c f nsz ->
  alloc_post f nsz p (PFile (<[fend f := Used nsz p]> (slots f)) (heads f) (fend f + nsz)) (fend f) nsz.
Proof.
  intros Hi Hv Hns. split; [eexists; by apply append_inv|].
  split; [unfold used; cbn [slots]; by apply omap_insert_Some|].
  split; [apply lookup_insert|]. split; [lia|]. split; [by right|].
  intros o sz0 q Hne Ho. cbn [slots]. by rewrite lookup_insert_ne.
Qed.

Lemma reuse_post f frees i la x lb sz nxt f' p nsz :
  alloc_inv c f frees -> (i < 16)%nat -> frees i = la ++ x :: lb ->
  slots f !! x = Some (Free sz nxt) ->
  fend f' = fend f ->
  slots f' !! x = Some (Used sz p) ->
  (if lastp 0 la =? 0
   then heads f' = <[i := nxt]> (heads f) /\ forall o, o <> x -> slots f' !! o = slots f !! o
   else heads f' = heads f /\ exists psz pn, slots f !! (lastp 0 la) = Some (Free psz pn) /\
        slots f' !! (lastp 0 la) = Some (Free psz nxt) /\
        forall o, o <> x -> o <> lastp 0 la -> slots f' !! o = slots f !! o) ->
  nsz <= sz -> ~ no_suitable_free c f nsz ->
  alloc_post f nsz p f' x sz.
Proof.
  intros Hi Hlt Hfi Hx Hfe Hx' Hcase Hle Hns.
  destruct (reuse_inv f frees i la x lb sz nxt f' p Hi Hlt Hfi Hx Hfe Hx' Hcase) as (H1 & H2 & H3).
  split; [by eexists|]. split; [done|]. split; [done|]. split; [done|].
  split; [left; eauto|]. done.
Qed.

Lemma alloc_ok f frees nsz p :
  alloc_inv c f frees -> valid_slot_size c nsz ->
  exists f' off sz, alloc c f nsz p = Ok (f', off, sz) /\ alloc_post f nsz p f' off sz.
Proof.
  intros Hi Hv. pose proof Hi as Hi0.
  apply inv16_iff in Hi as [H1 H2 H3 H4 H5 H6 H7 H8].
  destruct (class_idx_valid c Hc nsz Hv) as (i & Hci & Hi16 & Hi15).
  unfold alloc, pop_free. rewrite Hci. cbn [rbind]. rewrite (is_large_eq c Hc).
  destruct (N.leb_spec 1024 nsz) as [Hlarge | Hsmall]; cbn [negb].
  - (* large: first fit on list 15 *)
    rewrite (class_idx_large c Hc nsz Hlarge) in Hci. injection Hci as <-.
    assert (length (frees 15%nat) < S (size (slots f)))%nat as Hfuel.
    { apply Nat.lt_succ_r, NoDup_length_size; [by apply H5|].
      intros x Hx. destruct (H4 _ _ Hi16 Hx) as (? & ? & -> & _). eauto. }
    destruct (pop_large_spec f nsz 15 _ _ 0 _ (H3 15%nat Hi16) Hfuel ltac:(by left))
      as [[Hall ->] | (la & x & lb & sz & nxt & Hfi & Hall & Hx & Hle & f1 & Hf1 & ->)].
    + cbn [rbind]. change (0 =? 0) with true. cbv iota.
      do 3 eexists. split; [reflexivity|]. eapply append_post; eauto.
      intros off sz nxt Hs. rewrite (is_large_eq c Hc). destruct (N.leb_spec 1024 nsz); [|lia].
      destruct (N.lt_ge_cases sz nsz) as [|Hge]; [done|]. exfalso.
      destruct (H7 _ _ _ Hs) as (j & Hj & Hin).
      destruct (H4 _ _ Hj Hin) as (sz' & nxt' & Hs' & Hcl). rewrite Hs in Hs'. injection Hs' as <- <-.
      rewrite (class_idx_large c Hc sz) in Hcl by lia. injection Hcl as <-.
      rewrite Forall_forall in Hall. specialize (Hall _ Hin _ _ Hs). lia.
    + cbn [rbind].
      assert (x ∈ frees 15%nat) as Hxin by (rewrite Hfi; set_solver).
      destruct (inv_free_elem _ _ _ _ Hi0 Hi16 Hxin) as (Hx0 & _).
      destruct (N.eqb_spec x 0); [done|].
      replace (N.max sz nsz) with sz by lia.
      do 3 eexists. split; [reflexivity|].
      pose proof (H5 _ Hi16) as Hnd. rewrite Hfi in Hnd.
      destruct (NoDup_remove_mid _ _ _ Hnd) as (_ & Hxla & _).
      eapply (reuse_post f frees 15 la x lb sz nxt); eauto.
      * cbn [set_slot fend]. destruct (lastp 0 la =? 0).
        -- by subst f1.
        -- destruct Hf1 as (? & ? & _ & ->). done.
      * apply lookup_insert.
      * destruct (N.eqb_spec (lastp 0 la) 0) as [Hz | Hnz].
        -- subst f1. split; [done|]. intros o Ho. cbn [set_slot set_head slots].
           by rewrite !lookup_insert_ne.
        -- destruct Hf1 as (psz & pn & Hpv & ->). split; [done|]. exists psz, pn. split; [done|].
           assert (lastp 0 la <> x) as Hpx by (intros Heq; apply Hxla; rewrite <- Heq; by apply lastp0_in).
           cbn [set_slot slots]. split.
           ++ rewrite 2!lookup_insert_ne by congruence. apply lookup_insert.
           ++ intros o Ho1 Ho2. by rewrite !lookup_insert_ne.
      * intros Hns. specialize (Hns _ _ _ Hx). rewrite (is_large_eq c Hc) in Hns.
        destruct (N.leb_spec 1024 nsz); lia.
  - (* a class: pop the head of its list *)
    specialize (Hi15 Hsmall).
    destruct (class_idx_small c Hc _ _ Hci Hi15) as (Hnth & _ & _).
    destruct (flist_inv _ _ _ (H3 i Hi16)) as [[Hh Hfi] | (sz & nxt & lb & Hh0 & Hfi & Hsx & Hfl)].
    + rewrite Hh. change (0 =? 0) with true. cbv iota. cbn [rbind]. change (0 =? 0) with true. cbv iota.
      do 3 eexists. split; [reflexivity|]. eapply append_post; eauto.
      intros off sz nxt Hs. rewrite (is_large_eq c Hc). destruct (N.leb_spec 1024 nsz); [lia|].
      intros ->.
      destruct (H7 _ _ _ Hs) as (j & Hj & Hin).
      destruct (H4 _ _ Hj Hin) as (sz' & nxt' & Hs' & Hcl). rewrite Hs in Hs'. injection Hs' as <- <-.
      rewrite Hci in Hcl. injection Hcl as <-. rewrite Hfi in Hin. by apply elem_of_nil in Hin.
    + set (x := head_of f i) in *.
      destruct (N.eqb_spec x 0); [done|].
      rewrite (read_free_Free _ _ _ _ Hsx). cbn [rbind].
      destruct (N.eqb_spec x 0); [done|].
      assert (x ∈ frees i) as Hxin by (rewrite Hfi; set_solver).
      destruct (H4 _ _ Hi16 Hxin) as (sz' & nxt' & Hs' & Hcl). rewrite Hsx in Hs'. injection Hs' as <- <-.
      destruct (class_idx_small c Hc _ _ Hcl Hi15) as (Hnth' & _ & _).
      assert (sz = nsz) as -> by congruence.
      replace (N.max nsz nsz) with nsz by lia.
      do 3 eexists. split; [reflexivity|].
      eapply (reuse_post f frees i [] x lb nsz nxt); eauto.
      * apply lookup_insert.
      * cbn [lastp]. change (0 =? 0) with true. cbv iota. split; [done|].
        intros o Ho. cbn [set_slot slots]. by rewrite !lookup_insert_ne.
      * intros Hns. specialize (Hns _ _ _ Hsx). rewrite (is_large_eq c Hc) in Hns.
        destruct (N.leb_spec 1024 nsz); [lia | done].
Qed.


(** ** push_free, in-place rewrite *)
Lemma push_ok f frees off osz p0 :
  alloc_inv c f frees -> slots f !! off = Some (Used osz p0) ->
  exists f1 frees1 nx,
    push_free c f off osz = Ok f1 /\ alloc_inv c f1 frees1 /\
    used f1 = delete off (used f) /\ fend f1 = fend f /\
    slots f1 !! off = Some (Free osz nx) /\
    (forall o, o <> off -> slots f1 !! o = slots f !! o).
Proof.
  intros Hi Hs.
  destruct (inv_slot _ _ _ _ Hi Hs) as (Hoff & _ & Hv & _). cbn [slot_size] in Hv.
  destruct (class_idx_valid c Hc osz Hv) as (i & Hci & Hi16 & _).
  unfold push_free. destruct (N.eqb_spec off 0); [lia|]. rewrite Hci. cbn [rbind].
  do 3 eexists. split; [reflexivity|]. split; [eapply push_inv; eauto|].
  split; [unfold used; cbn [slots]; by apply omap_insert_None|]. split; [done|].
  cbn [slots]. split; [apply lookup_insert|]. intros o Ho. by rewrite lookup_insert_ne.
Qed.

Lemma replace_used_inv f frees off osz p0 p :
  alloc_inv c f frees -> slots f !! off = Some (Used osz p0) ->
  alloc_inv c (set_slot f off (Used osz p)) frees.
Proof.
  intros Hi Hs. pose proof Hi as Hi0.
  apply inv16_iff in Hi as [H1 H2 H3 H4 H5 H6 H7 H8]. apply inv16_iff.
  assert (Hnf : forall j, (j < 16)%nat -> off ∉ frees j)
    by (intros j Hj; eapply inv_used_not_free; eauto).
  set (f' := set_slot f off (Used osz p)).
  assert (Hfr : forall o, o <> off -> slots f' !! o = slots f !! o)
    by (intros; cbn; by rewrite lookup_insert_ne).
  assert (Hoff : slots f' !! off = Some (Used osz p)) by apply lookup_insert.
  constructor; auto.
  - apply (tiles_dom_same_sizes f); [|done]. split; [done|]. intros o.
    destruct (decide (o = off)) as [-> | Hne]; [by rewrite Hoff, Hs | by rewrite Hfr].
  - intros j Hj. rewrite (head_of_same f f') by done.
    eapply flist_frame; [by apply H3|]. intros o Ho. apply Hfr. intros ->. by apply (Hnf j).
  - intros j o Hj Ho. rewrite Hfr; [auto|]. intros ->. by apply (Hnf j).
  - intros o sz nxt Ho. destruct (decide (o = off)) as [-> | Hne]; [congruence|].
    rewrite Hfr in Ho by done. eauto.
Qed.

(** ** the specifications *)
Theorem create_ok : @create_spec P c.
Proof.
  split.
  - exists (fun _ => []). apply inv16_iff. unfold pf_create. constructor; cbn [heads slots fend].
    + rewrite repeat_length. apply (nclasses_eq c Hc).
    + exists []. split.
      * rewrite <- (hdr_size_eq c Hc). apply (t_nil c (PFile _ _ _)).
      * intros off. rewrite lookup_empty. split; [intros [? ?]; done | intros H; by apply elem_of_nil in H].
    + intros i Hi. unfold head_of. cbn [heads]. rewrite nth_repeat. constructor.
    + intros i off _ H. by apply elem_of_nil in H.
    + intros; constructor.
    + intros i j x _ _ _ H. by apply elem_of_nil in H.
    + intros off sz nxt H. rewrite lookup_empty in H. done.
    + rewrite (hdr_size_eq c Hc). lia.
  - unfold used, pf_create. cbn [slots]. apply omap_empty.
Qed.

Theorem used_facts_ok : @used_facts P c.
Proof.
  intros f [frees Hi]. split; [|split; [|split]].
  - intros off p. rewrite used_lookup. destruct (slots f !! off) as [[sz q|sz n]|]; cbn; split.
    + intros [= ->]. eauto.
    + intros (sz' & [= -> ->]). done.
    + done.
    + intros (? & ?). done.
    + done.
    + intros (? & ?). done.
  - intros off p. rewrite used_lookup. destruct (slots f !! off) as [s|] eqn:E; [|done]. intros _.
    destruct (inv_slot _ _ _ _ Hi E) as (A & B & C' & D). rewrite (hdr_size_eq c Hc).
    pose proof (valid_slot_size_facts c Hc _ C'). repeat split; lia.
  - rewrite <- (size_dom (D:=gset N) (used f)), <- (size_dom (D:=gset N) (slots f)).
    apply subseteq_size. intros x. rewrite !elem_of_dom, used_lookup.
    destruct (slots f !! x); cbn; [eauto | intros [? ?]; done].
  - intros off sz p Hs. destruct (inv_slot _ _ _ _ Hi Hs) as (_ & _ & ? & ?). done.
Qed.

Theorem write_new_ok : @write_new_spec P c.
Proof.
  intros f need p [frees Hi] Hneed. unfold write_piece.
  destruct (N.eqb_spec need 0); [lia|].
  destruct (roundup_facts c Hc need Hneed) as [Hv Hle].
  destruct (alloc_ok f frees _ p Hi Hv) as (f' & off & sz & -> & HA & HU & HS & HL & HD & HF).
  exists f', off, sz. destruct HA as [frees' Hi'].
  destruct (inv_slot _ _ _ _ Hi' HS) as (Hoff & Hmod & Hvs & _). cbn [slot_size] in Hvs.
  pose proof (valid_slot_size_facts c Hc _ Hv) as [Hn16 _].
  rewrite (hdr_size_eq c Hc).
  split; [done|]. split; [by eexists|]. split; [done|].
  split.
  { rewrite used_lookup. destruct HD as [((nxt & ->) & _) | (-> & _)]; [done|].
    by rewrite (inv_fend_none _ _ Hi). }
  split; [lia|]. split; [done|]. split; [done|]. split; [done|]. split; [done|]. split; [done|].
  split.
  { destruct HD as [(_ & -> & Hns) | (_ & _ & -> & Hns)]; split; auto; try lia. done. }
  split; [|done].
  destruct HD as [(_ & -> & _) | (-> & _ & -> & _)]; auto.
Qed.

Theorem delete_ok : @delete_spec P c.
Proof.
  intros f off p0 [frees Hi] Hu. rewrite used_lookup in Hu.
  destruct (slots f !! off) as [[osz q|]|] eqn:Hs; cbn in Hu; try done. injection Hu as ->.
  destruct (push_ok f frees off osz p0 Hi Hs) as (f1 & frees1 & nx & Hp & Hi1 & Hu1 & Hfe & Hs1 & Hfr).
  unfold delete_piece, read_size. rewrite Hs. cbn [rbind slot_size].
  exists f1. split; [done|]. split; [by eexists|]. split; [done|]. split; [done|].
  intros o sz0 q Hne Ho. by rewrite Hfr.
Qed.

Theorem write_old_ok : @write_old_spec P c.
Proof.
  intros f need off p0 p [frees Hi] Hneed Hu. rewrite used_lookup in Hu.
  destruct (slots f !! off) as [[osz q|]|] eqn:Hs; cbn in Hu; try done. injection Hu as ->.
  destruct (inv_slot _ _ _ _ Hi Hs) as (Hoff & Hmod & Hvo & _). cbn [slot_size] in Hvo.
  destruct (roundup_facts c Hc need Hneed) as [Hv Hle].
  unfold write_piece. destruct (N.eqb_spec need 0); [lia|].
  destruct (N.eqb_spec off 0); [lia|].
  unfold read_size. rewrite Hs. cbn [rbind slot_size].
  rewrite (valid_slot_size_valid_size c Hc _ Hvo). cbn [negb].
  rewrite (hdr_size_eq c Hc).
  destruct (N.leb_spec (roundup c need) osz) as [Hfit | Hnofit].
  - (* in place *)
    exists (set_slot f off (Used osz p)), off, osz.
    split; [done|]. split; [eexists; by eapply replace_used_inv|].
    split.
    { unfold used. cbn [set_slot slots]. rewrite insert_delete_insert. by apply omap_insert_Some. }
    split; [by left|]. split; [lia|]. split; [done|]. split; [done|].
    split; [apply lookup_insert|]. split; [done|]. split; [done|].
    split; [split; eauto|].
    intros o sz0 q Hne _ Ho. cbn [set_slot slots]. by rewrite lookup_insert_ne.
  - (* free the old slot, allocate *)
    destruct (push_ok f frees off osz p0 Hi Hs) as (f1 & frees1 & nx & -> & Hi1 & Hu1 & Hfe & Hs1 & Hfr).
    cbn [rbind].
    destruct (alloc_ok f1 frees1 _ p Hi1 Hv) as (f' & off' & sz & -> & HA & HU & HS & HL & HD & HF).
    exists f', off', sz. destruct HA as [frees' Hi'].
    destruct (inv_slot _ _ _ _ Hi' HS) as (Hoff' & Hmod' & Hvs & _). cbn [slot_size] in Hvs.
    assert (off' <> off) as Hne.
    { intros ->. destruct HD as [((nxt & Hfree) & _) | (-> & _)].
      - rewrite Hs1 in Hfree. injection Hfree as <- _. lia.
      - rewrite Hfe, (inv_fend_none _ _ Hi) in Hs. done. }
    assert (used f1 !! off' = None) as Hnone.
    { rewrite used_lookup. destruct HD as [((nxt & ->) & _) | (-> & _)]; [done|].
      by rewrite (inv_fend_none _ _ Hi1). }
    split; [done|]. split; [by eexists|]. split; [by rewrite HU, Hu1|].
    split.
    { right. rewrite Hu1, lookup_delete_ne in Hnone by done. done. }
    split; [lia|]. split; [done|]. split; [done|]. split; [done|]. split; [done|]. split; [done|].
    split.
    { split; [done|]. intros (osz' & [= <-] & Hle'). lia. }
    intros o sz0 q Ho1 Ho2 Ho. apply HF; [done|]. by rewrite Hfr.
Qed.


(** ** the statistics walks *)
Lemma walk_slots_tiles f l off : tiles c f off l -> forall fuel, (length l < fuel)%nat ->
  exists r, walk_slots fuel f off = Ok r /\ map fst r = l /\
            (forall o s, (o, s) ∈ r <-> o ∈ l /\ slots f !! o = Some s).
Proof.
  induction 1 as [|off s l Hs Hv Ht IH]; intros fuel Hfuel.
  - destruct fuel as [|fuel]; [cbn in Hfuel; lia|]. cbn [walk_slots]. rewrite N.ltb_irrefl.
    exists []. split; [done|]. split; [done|]. intros o s. split.
    + intros H. by apply elem_of_nil in H.
    + intros [H _]. by apply elem_of_nil in H.
  - destruct fuel as [|fuel]; [cbn in Hfuel; lia|]. cbn [walk_slots length] in *.
    pose proof (tiles_le_fend _ _ _ Ht). pose proof (valid_slot_size_facts c Hc _ Hv).
    destruct (N.ltb_spec off (fend f)); [|lia]. rewrite Hs.
    destruct (N.eqb_spec (slot_size s) 0); [lia|].
    destruct (IH fuel ltac:(lia)) as (r & -> & Hm & Hr). cbn [rbind].
    eexists. split; [reflexivity|]. split; [cbn [map fst]; by rewrite Hm|].
    intros o s'. rewrite !elem_of_cons, Hr. split.
    + intros [[= -> ->] | [? ?]]; auto.
    + intros [[-> | ?] Ho]; [left; congruence | right; auto].
Qed.

Theorem walk_ok : @walk_spec P c.
Proof.
  intros f [frees Hi]. destruct (ai_tiles _ _ _ Hi) as (l & Ht & Hl).
  pose proof (tiles_NoDup _ _ _ Ht) as Hnd.
  assert (length l < S (size (slots f)))%nat as Hfuel.
  { apply Nat.lt_succ_r, NoDup_length_size; [done|]. intros x Hx. by apply Hl. }
  destruct (walk_slots_tiles _ _ _ Ht _ Hfuel) as (r & Hr & Hm & Hrl).
  exists r. split; [done|]. rewrite Hm. split; [|done].
  intros off s. rewrite Hrl. split; [by intros [_ ?]|]. intros Hs. split; [|done]. apply Hl. eauto.
Qed.

Lemma count_free_from_flist f l h : flist f h l -> forall fuel acc, (length l < fuel)%nat ->
  count_free_from fuel f h acc = Ok (acc + N.of_nat (length l)).
Proof.
  induction 1 as [|off sz nxt l Hn Hs Hl IH]; intros fuel acc Hfuel.
  - destruct fuel as [|fuel]; [cbn in Hfuel; lia|]. cbn [count_free_from length]. rewrite N.eqb_refl.
    f_equal. lia.
  - destruct fuel as [|fuel]; [cbn in Hfuel; lia|]. cbn [count_free_from length] in *.
    destruct (N.eqb_spec off 0); [done|]. rewrite (read_free_Free _ _ _ _ Hs). cbn [rbind].
    rewrite IH by lia. f_equal. lia.
Qed.

Theorem count_free_ok : @count_free_spec P c.
Proof.
  intros f frees sz i Hi Hci Hlt. pose proof Hlt as Hlt'. rewrite (nclasses_eq c Hc) in Hlt'.
  apply inv16_iff in Hi as [H1 H2 H3 H4 H5 H6 H7 H8].
  unfold count_free_list. rewrite Hci. cbn [rbind].
  rewrite (count_free_from_flist f (frees i)); [f_equal; lia | by apply H3 |].
  apply Nat.lt_succ_r, NoDup_length_size; [by apply H5|].
  intros x Hx. destruct (H4 _ _ Hlt' Hx) as (? & ? & -> & _). eauto.
Qed.

Lemma filter_eq_notin (l : list N) x : x ∉ l -> filter (fun o => o = x) l = [].
Proof.
  induction l as [|a l IH]; [done|]. intros Hn. rewrite filter_cons.
  destruct (decide (a = x)) as [->|]; [exfalso; apply Hn; left|].
  apply IH. intros ?; apply Hn; by right.
Qed.

Lemma filter_eq_NoDup (l : list N) x :
  NoDup l -> x ∈ l -> length (filter (fun o => o = x) l) = 1%nat.
Proof.
  induction 1 as [|a l Ha Hnd IH]; intros Hx; [by apply elem_of_nil in Hx|].
  rewrite filter_cons. destruct (decide (a = x)) as [->|Hne].
  - cbn [length]. by rewrite filter_eq_notin.
  - apply elem_of_cons in Hx as [->|Hx]; [done|]. auto.
Qed.

Theorem partition_ok : @partition_spec P c.
Proof.
  intros f frees Hi off s Hs. pose proof Hi as Hi0.
  apply inv16_iff in Hi as [H1 H2 H3 H4 H5 H6 H7 H8].
  rewrite (nclasses_eq c Hc). destruct s as [sz p | sz nxt].
  - intros i Hi16. eapply inv_used_not_free; eauto.
  - destruct (H7 _ _ _ Hs) as (i & Hi16 & Hin). exists i.
    split; [done|]. split; [done|]. split.
    + intros j Hj Hinj. destruct (decide (j = i)); [done|]. exfalso. by apply (H6 j i off).
    + apply filter_eq_NoDup; auto.
Qed.

End proofs.

(** the statements, exactly as announced in AllocInv.v *)
Definition create_ok_stmt     : forall P c, cfg_ok c -> @create_spec P c     := @create_ok.
Definition used_facts_ok_stmt : forall P c, cfg_ok c -> @used_facts P c      := @used_facts_ok.
Definition write_new_ok_stmt  : forall P c, cfg_ok c -> @write_new_spec P c  := @write_new_ok.
Definition delete_ok_stmt     : forall P c, cfg_ok c -> @delete_spec P c     := @delete_ok.
Definition write_old_ok_stmt  : forall P c, cfg_ok c -> @write_old_spec P c  := @write_old_ok.
Definition walk_ok_stmt       : forall P c, cfg_ok c -> @walk_spec P c       := @walk_ok.
Definition count_free_ok_stmt : forall P c, cfg_ok c -> @count_free_spec P c := @count_free_ok.
Definition partition_ok_stmt  : forall P c, cfg_ok c -> @partition_spec P c  := @partition_ok.
