(** * Buf_proofs: machine-checked facts about the buffered-file / flag model of [Buf].

    - a buffered file: [clean_inv] is preserved by writes, write-backs, evictions and by
      flushes (successful or failed); a flush never changes what reads see; it succeeds iff
      the OS refuses none of the dirty chunks, and then the disk image is the logical image;
    - the three files of a map: [dinv] ("flag clear => nothing buffered") is preserved by
      every operation; flushes / syncs / evictions never change the view; C03 (a successful
      flush or sync makes the view durable, after any history including failed flushes) and
      C16 (a flush / sync reports an error iff the OS refused a dirty chunk);
    - OS sync requests: a successful sync that had something to do issues a request for each
      of the three files after that file's last buffered write. *)
From Aby Require Import Base Buf.
From stdpp Require Import sorting fin_sets.
From Coq Require Import Lia ZifyN ZifyNat ZifyBool.

Section buf_proofs.
Context {A : Type}.
Implicit Types (b : bfile A) (d : dmap A) (o : oracle A) (f g : fid).

(** ** 1. one buffered file *)

Lemma clean_eq (b : bfile A) : clean_inv b -> dirtyset b = ∅ -> disk b = logical b.
Proof.
  intros Hc He. apply map_eq. intros c. apply Hc. rewrite He. set_solver.
Qed.

Lemma bfile_empty_clean : clean_inv (@bfile_empty A).
Proof. intros c _. reflexivity. Qed.

Lemma writeback_logical b c : logical (writeback b c) = logical b.
Proof. reflexivity. Qed.

Lemma writeback_dirtyset b c : dirtyset (writeback b c) = dirtyset b ∖ {[c]}.
Proof. reflexivity. Qed.

Lemma writeback_clean b c :
  clean_inv b -> clean_inv (writeback b c) /\ logical (writeback b c) = logical b.
Proof.
  intros Hc. split; [|reflexivity].
  intros c' Hn. unfold writeback in *; simpl in *.
  destruct (decide (c' = c)) as [->|Hne].
  - destruct (logical b !! c) as [a|] eqn:E.
    + rewrite lookup_insert. done.
    + rewrite lookup_delete. done.
  - assert (Hn' : c' ∉ dirtyset b) by set_solver.
    destruct (logical b !! c) as [a|] eqn:E.
    + rewrite lookup_insert_ne by done. auto.
    + rewrite lookup_delete_ne by done. auto.
Qed.

Lemma evict_logical b cs : logical (evict b cs) = logical b.
Proof.
  unfold evict. revert b. induction cs as [|c cs IH]; intros b; simpl; [done|].
  rewrite IH. reflexivity.
Qed.

Lemma evict_dirtyset b cs : dirtyset (evict b cs) = dirtyset b ∖ list_to_set cs.
Proof.
  unfold evict. revert b. induction cs as [|c cs IH]; intros b; simpl.
  - set_solver.
  - rewrite IH. rewrite writeback_dirtyset. set_solver.
Qed.

Lemma evict_dirtyset_subseteq b cs : dirtyset (evict b cs) ⊆ dirtyset b.
Proof. rewrite evict_dirtyset. set_solver. Qed.

Lemma evict_clean b cs :
  clean_inv b -> clean_inv (evict b cs) /\ logical (evict b cs) = logical b.
Proof.
  intros Hc. split; [|apply evict_logical].
  unfold evict. revert b Hc. induction cs as [|c cs IH]; intros b Hc; simpl; [done|].
  apply IH. apply writeback_clean. done.
Qed.

Lemma bwrite_clean b c a : clean_inv b -> clean_inv (bwrite b c a).
Proof.
  intros Hc c' Hn. unfold bwrite in *; simpl in *.
  assert (Hne : c' <> c) by set_solver.
  assert (Hn' : c' ∉ dirtyset b) by set_solver.
  rewrite lookup_insert_ne by done. auto.
Qed.

(** ** 2. [flush_chunks] *)

Lemma flush_chunks_logical o cs b b' ok :
  flush_chunks o cs b = (b', ok) -> logical b' = logical b.
Proof.
  revert b. induction cs as [|c cs IH]; intros b Hf; simpl in Hf.
  - inversion Hf; subst. done.
  - destruct (refuse o c) eqn:Er.
    + inversion Hf; subst. done.
    + apply IH in Hf. rewrite Hf. apply writeback_logical.
Qed.

Lemma flush_chunks_dirty_subseteq o cs b b' ok :
  flush_chunks o cs b = (b', ok) -> dirtyset b' ⊆ dirtyset b.
Proof.
  revert b. induction cs as [|c cs IH]; intros b Hf; simpl in Hf.
  - inversion Hf; subst. done.
  - destruct (refuse o c) eqn:Er.
    + inversion Hf; subst. done.
    + apply IH in Hf. rewrite writeback_dirtyset in Hf. set_solver.
Qed.

Lemma flush_chunks_ok_iff o cs b b' ok :
  flush_chunks o cs b = (b', ok) ->
  (ok = true <-> forall c, c ∈ cs -> refuse o c = false).
Proof.
  revert b. induction cs as [|c cs IH]; intros b Hf; simpl in Hf.
  - inversion Hf; subst. split; [|done]. intros _ c Hin. by apply elem_of_nil in Hin.
  - destruct (refuse o c) eqn:Er.
    + inversion Hf; subst. split; [done|]. intros Hall.
      rewrite Hall in Er by (apply elem_of_cons; by left). done.
    + apply IH in Hf. rewrite Hf. split.
      * intros Hall c' Hin. apply elem_of_cons in Hin as [->|Hin]; auto.
      * intros Hall c' Hin. apply Hall. apply elem_of_cons. by right.
Qed.

Lemma flush_chunks_ok_dirty o cs b b' :
  flush_chunks o cs b = (b', true) -> dirtyset b' = dirtyset b ∖ list_to_set cs.
Proof.
  revert b. induction cs as [|c cs IH]; intros b Hf; simpl in Hf.
  - inversion Hf; subst. set_solver.
  - destruct (refuse o c) eqn:Er; [inversion Hf|].
    apply IH in Hf. rewrite Hf, writeback_dirtyset. set_solver.
Qed.

(** a successful flush of any chunk list preserves [clean_inv] *)
Lemma flush_chunks_ok_clean o cs b b' :
  flush_chunks o cs b = (b', true) -> clean_inv b -> clean_inv b'.
Proof.
  revert b. induction cs as [|c cs IH]; intros b Hf Hc; simpl in Hf.
  - inversion Hf; subst. done.
  - destruct (refuse o c) eqn:Er; [inversion Hf|].
    eapply IH; [exact Hf|]. apply writeback_clean. done.
Qed.

(** In general it does so when every chunk whose write is refused is dirty (which holds for
    [bflush], which only passes dirty chunks).  Without this condition it does not: flushing
    the single chunk [0] of a file with nothing buffered, with that write refused and garbage
    left behind, leaves a disk image that differs from the logical image in a chunk that is
    not dirty ([flush_chunks_unclean_counterexample] below).  No [NoDup] condition is needed:
    [refuse] depends on the chunk only, so the flush stops at the first occurrence of a
    refused chunk, before which only other chunks have been written back. *)
Definition refused_dirty o (cs : list N) b : Prop :=
  forall c, c ∈ cs -> refuse o c = true -> c ∈ dirtyset b.

Lemma refused_dirty_subseteq o cs b :
  (forall c, c ∈ cs -> c ∈ dirtyset b) -> refused_dirty o cs b.
Proof. intros H c Hin _. by apply H. Qed.

Lemma refused_dirty_cons o c cs b :
  refuse o c = false -> refused_dirty o (c :: cs) b -> refused_dirty o cs (writeback b c).
Proof.
  intros Er Hrd c' Hin Hr. rewrite writeback_dirtyset.
  assert (Hne : c' <> c) by (intros ->; congruence).
  assert (Hd : c' ∈ dirtyset b) by (apply Hrd; [apply elem_of_cons; by right|done]).
  set_solver.
Qed.

Lemma flush_chunks_clean o cs b b' ok :
  flush_chunks o cs b = (b', ok) -> clean_inv b -> refused_dirty o cs b -> clean_inv b'.
Proof.
  revert b. induction cs as [|c cs IH]; intros b Hf Hc Hrd; simpl in Hf.
  - inversion Hf; subst. done.
  - destruct (refuse o c) eqn:Er.
    + inversion Hf; subst. intros c' Hn'. simpl in *.
      assert (Hcd : c ∈ dirtyset b) by (apply Hrd; [apply elem_of_cons; by left|done]).
      assert (Hne : c' <> c) by (intros ->; done).
      destruct (garbage o c) as [a|].
      * rewrite lookup_insert_ne by done. auto.
      * auto.
    + eapply IH; [exact Hf| |].
      * apply writeback_clean. done.
      * by apply refused_dirty_cons.
Qed.

Lemma flush_chunks_fail o cs b b' :
  flush_chunks o cs b = (b', false) -> refused_dirty o cs b ->
  exists c, c ∈ cs /\ refuse o c = true /\ c ∈ dirtyset b'.
Proof.
  revert b. induction cs as [|c cs IH]; intros b Hf Hrd; simpl in Hf.
  - inversion Hf.
  - destruct (refuse o c) eqn:Er.
    + inversion Hf; subst. exists c. simpl. split_and!.
      * apply elem_of_cons; by left.
      * done.
      * apply Hrd; [apply elem_of_cons; by left|done].
    + apply IH in Hf as (c' & Hin & Hr & Hd).
      * exists c'. split_and!; [|done|done]. apply elem_of_cons; by right.
      * by apply refused_dirty_cons.
Qed.

(** The statement asked for, with the side condition placed where it is needed:
    [clean_inv b'] and the "a refused chunk is still dirty" part need [refused_dirty o cs b],
    which follows from [cs ⊆ dirtyset b] ([refused_dirty_subseteq]) and also from
    [ok = true]; [NoDup cs] is not needed. *)
Lemma flush_chunks_spec o cs b b' ok :
  flush_chunks o cs b = (b', ok) -> clean_inv b ->
  logical b' = logical b /\
  dirtyset b' ⊆ dirtyset b /\
  (ok = true \/ refused_dirty o cs b -> clean_inv b') /\
  (ok = true -> dirtyset b' = dirtyset b ∖ list_to_set cs) /\
  (ok = true <-> (forall c, c ∈ cs -> refuse o c = false)) /\
  (refused_dirty o cs b -> ok = false ->
   exists c, c ∈ cs /\ refuse o c = true /\ c ∈ dirtyset b').
Proof.
  intros Hf Hc. split_and!.
  - eapply flush_chunks_logical; eauto.
  - eapply flush_chunks_dirty_subseteq; eauto.
  - intros [->|Hrd].
    + eapply flush_chunks_ok_clean; eauto.
    + eapply flush_chunks_clean; eauto.
  - intros ->. eapply flush_chunks_ok_dirty; eauto.
  - eapply flush_chunks_ok_iff; eauto.
  - intros Hrd ->. eapply flush_chunks_fail; eauto.
Qed.

(** ** 3. [bflush] *)

Lemma sorted_dirty_perm b : sorted_dirty b ≡ₚ elements (dirtyset b).
Proof. unfold sorted_dirty. apply merge_sort_Permutation. Qed.

Lemma elem_of_sorted_dirty b c : c ∈ sorted_dirty b <-> c ∈ dirtyset b.
Proof. rewrite sorted_dirty_perm. apply elem_of_elements. Qed.

Lemma NoDup_sorted_dirty b : NoDup (sorted_dirty b).
Proof. rewrite sorted_dirty_perm. apply NoDup_elements. Qed.

Lemma list_to_set_sorted_dirty b : list_to_set (sorted_dirty b) = dirtyset b.
Proof.
  apply set_eq. intros c. rewrite elem_of_list_to_set. apply elem_of_sorted_dirty.
Qed.

Lemma bflush_spec' o b b' ok :
  bflush o b = (b', ok) -> clean_inv b ->
  logical b' = logical b /\ clean_inv b' /\ dirtyset b' ⊆ dirtyset b /\
  (ok = true <-> forall c, c ∈ dirtyset b -> refuse o c = false) /\
  (ok = true -> dirtyset b' = ∅ /\ disk b' = logical b) /\
  (ok = false -> dirtyset b' <> ∅).
Proof.
  unfold bflush. intros Hf Hc.
  destruct (flush_chunks_spec _ _ _ _ _ Hf Hc) as (Hl & Hsub & Hcl & Hd & Hiff & Hfail).
  assert (Hin : forall c, c ∈ sorted_dirty b -> c ∈ dirtyset b)
    by (intros c; apply elem_of_sorted_dirty).
  assert (Hc' : clean_inv b').
  { apply Hcl. right. by apply refused_dirty_subseteq. }
  split_and!; try done.
  - rewrite Hiff. split; intros H c Hc0; apply H; by apply elem_of_sorted_dirty.
  - intros Hok. specialize (Hd Hok). rewrite list_to_set_sorted_dirty in Hd.
    assert (He : dirtyset b' = ∅) by set_solver.
    split; [done|]. rewrite <- Hl. by apply clean_eq.
  - intros Hok.
    destruct (Hfail (refused_dirty_subseteq _ _ _ Hin) Hok) as (c & _ & _ & Hcd).
    intros He. rewrite He in Hcd. set_solver.
Qed.

Theorem bflush_spec (o : oracle A) b :
  clean_inv b ->
  let '(b', ok) := bflush o b in
  logical b' = logical b /\ clean_inv b' /\
  (ok = true <-> forall c, c ∈ dirtyset b -> refuse o c = false) /\
  (ok = true -> dirtyset b' = ∅ /\ disk b' = logical b) /\
  (ok = false -> dirtyset b' <> ∅).
Proof.
  intros Hc. destruct (bflush o b) as [b' ok] eqn:Hf.
  destruct (bflush_spec' _ _ _ _ Hf Hc) as (? & ? & ? & ? & ? & ?). done.
Qed.

(** ** 4. the three files: bookkeeping *)

Lemma dfile_set_dfile_eq d f b : dfile (set_dfile d f b) f = b.
Proof. by destruct f. Qed.
Lemma dfile_set_dfile_ne d f g b : g <> f -> dfile (set_dfile d f b) g = dfile d g.
Proof. by destruct f, g. Qed.
Lemma dflag_set_dfile d f b : dflag (set_dfile d f b) = dflag d.
Proof. by destruct f. Qed.
Lemma unsynced_set_dfile d f b : unsynced (set_dfile d f b) = unsynced d.
Proof. by destruct f. Qed.
Lemma events_set_dfile d f b : events (set_dfile d f b) = events d.
Proof. by destruct f. Qed.

Lemma dfile_set_flags d x y f : dfile (set_flags d x y) f = dfile d f.
Proof. by destruct f. Qed.

Lemma view_ext d d' :
  (forall f, logical (dfile d' f) = logical (dfile d f)) -> view d' = view d.
Proof.
  intros H. unfold view.
  rewrite (H FVal : logical (fval d') = _), (H FKey : logical (fkey d') = _),
          (H FHtx : logical (fhtx d') = _). done.
Qed.

Lemma on_disk_view_ext d d' :
  (forall f, disk (dfile d' f) = logical (dfile d f)) -> on_disk d' = view d.
Proof.
  intros H. unfold view, on_disk.
  rewrite (H FVal : disk (fval d') = _), (H FKey : disk (fkey d') = _),
          (H FHtx : disk (fhtx d') = _). done.
Qed.

Lemma dinv_clean_on_disk d : dinv d -> dflag d = false -> on_disk d = view d.
Proof.
  intros [Hc He] Hf. apply on_disk_view_ext. intros f. apply clean_eq; auto.
Qed.

Lemma dinv_dopen (v k h : bfile A) :
  clean_inv v -> clean_inv k -> clean_inv h -> dinv (dopen v k h).
Proof.
  intros Hv Hk Hh. split.
  - intros []; simpl; done.
  - simpl. done.
Qed.

Lemma dinv_dopen_empty : dinv (dopen (@bfile_empty A) bfile_empty bfile_empty).
Proof. apply dinv_dopen; apply bfile_empty_clean. Qed.

(** ** 5. updates and evictions *)

Lemma dwrite_facts d w :
  dflag (dwrite d w) = dflag d /\ unsynced (dwrite d w) = unsynced d /\
  ((forall f, clean_inv (dfile d f)) -> forall f, clean_inv (dfile (dwrite d w) f)).
Proof.
  destruct w as [[f c] a]. unfold dwrite. split_and!.
  - simpl. apply dflag_set_dfile.
  - simpl. apply unsynced_set_dfile.
  - intros Hc g.
    change (dfile (add_event ?x ?e) g) with (dfile x g).
    destruct (decide (g = f)) as [->|Hne].
    + rewrite dfile_set_dfile_eq. apply bwrite_clean, Hc.
    + rewrite dfile_set_dfile_ne by done. apply Hc.
Qed.

Lemma dupdate_facts d ws :
  dflag (dupdate d ws) = true /\
  ((forall f, clean_inv (dfile d f)) -> forall f, clean_inv (dfile (dupdate d ws) f)).
Proof.
  unfold dupdate.
  assert (Hgen : forall d0, dflag (fold_left dwrite ws d0) = dflag d0 /\
     ((forall f, clean_inv (dfile d0 f)) ->
      forall f, clean_inv (dfile (fold_left dwrite ws d0) f))).
  { induction ws as [|w ws IH]; intros d0; simpl; [done|].
    destruct (IH (dwrite d0 w)) as [IHf IHc].
    destruct (dwrite_facts d0 w) as (Hf & _ & Hc).
    split; [congruence|]. intros H. apply IHc, Hc, H. }
  destruct (Hgen (set_flags d true (unsynced d))) as [Hf Hc].
  split; [exact Hf|]. intros H. apply Hc. intros g. rewrite dfile_set_flags. apply H.
Qed.

Lemma dupdate_dinv d ws : dinv d -> dinv (dupdate d ws).
Proof.
  intros [Hc _]. destruct (dupdate_facts d ws) as [Hf Hc'].
  split; [by apply Hc'|]. rewrite Hf. done.
Qed.

Lemma devict_dinv d f cs : dinv d -> dinv (devict d f cs).
Proof.
  intros [Hc He]. unfold devict. split.
  - intros g. destruct (decide (g = f)) as [->|Hne].
    + rewrite dfile_set_dfile_eq. apply evict_clean, Hc.
    + rewrite dfile_set_dfile_ne by done. apply Hc.
  - rewrite dflag_set_dfile. intros Hf g. specialize (He Hf).
    destruct (decide (g = f)) as [->|Hne].
    + rewrite dfile_set_dfile_eq.
      pose proof (evict_dirtyset_subseteq (dfile d f) cs) as Hs.
      rewrite (He f) in Hs. set_solver.
    + rewrite dfile_set_dfile_ne by done. apply He.
Qed.

Lemma devict_view d f cs : view (devict d f cs) = view d.
Proof.
  apply view_ext. intros g. unfold devict. destruct (decide (g = f)) as [->|Hne].
  - rewrite dfile_set_dfile_eq. apply evict_logical.
  - rewrite dfile_set_dfile_ne by done. done.
Qed.

(** ** 6. flushing the three files *)

Definition flush_events (f : fid) (sync : option bool) (ok : bool) : list event :=
  if ok then match sync with
             | Some all => [EOsSync f all; EFlushed f]
             | None => [EFlushed f]
             end
  else [].

Lemma dflush_file_struct (o : fid -> oracle A) sync d f d' ok :
  dflush_file o sync d f = (d', ok) ->
  bflush (o f) (dfile d f) = (dfile d' f, ok) /\
  (forall g, g <> f -> dfile d' g = dfile d g) /\
  dflag d' = dflag d /\ unsynced d' = unsynced d /\
  events d' = flush_events f sync ok ++ events d.
Proof.
  unfold dflush_file. destruct (bflush (o f) (dfile d f)) as [b1 ok1] eqn:Eb.
  destruct ok1; intros Heq; inversion Heq; subst; clear Heq.
  - destruct sync as [all|]; simpl.
    + change (dfile (add_event (add_event ?x ?e1) ?e2)) with (dfile x).
      rewrite dfile_set_dfile_eq, dflag_set_dfile, unsynced_set_dfile, events_set_dfile.
      split_and!; try done. intros g Hne. by apply dfile_set_dfile_ne.
    + change (dfile (add_event ?x ?e1)) with (dfile x).
      rewrite dfile_set_dfile_eq, dflag_set_dfile, unsynced_set_dfile, events_set_dfile.
      split_and!; try done. intros g Hne. by apply dfile_set_dfile_ne.
  - simpl.
    rewrite dfile_set_dfile_eq, dflag_set_dfile, unsynced_set_dfile, events_set_dfile.
    split_and!; try done. intros g Hne. by apply dfile_set_dfile_ne.
Qed.

Lemma dflush_file_spec (o : fid -> oracle A) sync d f d' ok :
  (forall g, clean_inv (dfile d g)) ->
  dflush_file o sync d f = (d', ok) ->
  (forall g, logical (dfile d' g) = logical (dfile d g)) /\
  (forall g, clean_inv (dfile d' g)) /\
  (forall g, dirtyset (dfile d' g) ⊆ dirtyset (dfile d g)) /\
  (forall g, g <> f -> dfile d' g = dfile d g) /\
  dflag d' = dflag d /\ unsynced d' = unsynced d /\
  events d' = flush_events f sync ok ++ events d /\
  (ok = true <-> forall c, c ∈ dirtyset (dfile d f) -> refuse (o f) c = false) /\
  (ok = true -> dirtyset (dfile d' f) = ∅ /\ disk (dfile d' f) = logical (dfile d f)) /\
  (ok = false -> dirtyset (dfile d' f) <> ∅).
Proof.
  intros Hc Hf.
  destruct (dflush_file_struct _ _ _ _ _ _ Hf) as (Hb & Hoth & Hfl & Hun & Hev).
  destruct (bflush_spec' _ _ _ _ Hb (Hc f)) as (Hl & Hc' & Hsub & Hiff & Hok & Hfail).
  split_and!; try done.
  - intros g. destruct (decide (g = f)) as [->|Hne]; [done|]. by rewrite Hoth.
  - intros g. destruct (decide (g = f)) as [->|Hne]; [done|]. by rewrite Hoth.
  - intros g. destruct (decide (g = f)) as [->|Hne]; [done|]. by rewrite Hoth.
Qed.

Definition all_events (sync : option bool) : list event :=
  flush_events FHtx sync true ++ flush_events FKey sync true ++ flush_events FVal sync true.

Lemma dflush_all_spec (o : fid -> oracle A) sync d d' ok :
  (forall f, clean_inv (dfile d f)) ->
  dflush_all o sync d = (d', ok) ->
  view d' = view d /\
  (forall f, clean_inv (dfile d' f)) /\
  (forall f, dirtyset (dfile d' f) ⊆ dirtyset (dfile d f)) /\
  dflag d' = dflag d /\ unsynced d' = unsynced d /\
  (ok = true <-> forall f c, c ∈ dirtyset (dfile d f) -> refuse (o f) c = false) /\
  (ok = true -> (forall f, dirtyset (dfile d' f) = ∅) /\ on_disk d' = view d /\
                events d' = all_events sync ++ events d) /\
  (ok = false -> exists f, dirtyset (dfile d' f) <> ∅).
Proof.
  intros Hc. unfold dflush_all.
  destruct (dflush_file o sync d FVal) as [d1 ok1] eqn:E1.
  destruct (dflush_file_spec _ _ _ _ _ _ Hc E1)
    as (Hl1 & Hc1 & Hs1 & Ho1 & Hf1 & Hu1 & He1 & Hi1 & Hk1 & Hx1).
  destruct ok1; simpl.
  2:{ intros Heq; inversion Heq; subst; clear Heq. split_and!; try done.
      - by apply view_ext.
      - split; [done|]. intros Hall. apply Hi1. intros c. apply Hall.
      - intros _. exists FVal. by apply Hx1. }
  destruct (dflush_file o sync d1 FKey) as [d2 ok2] eqn:E2.
  destruct (dflush_file_spec _ _ _ _ _ _ Hc1 E2)
    as (Hl2 & Hc2 & Hs2 & Ho2 & Hf2 & Hu2 & He2 & Hi2 & Hk2 & Hx2).
  destruct ok2; simpl.
  2:{ intros Heq; inversion Heq; subst; clear Heq. split_and!; try done.
      - apply view_ext. intros f. by rewrite Hl2, Hl1.
      - intros f. etrans; [apply Hs2|apply Hs1].
      - congruence.
      - congruence.
      - split; [done|]. intros Hall. apply Hi2. intros c.
        rewrite (Ho1 FKey) by done. apply Hall.
      - intros _. exists FKey. by apply Hx2. }
  intros E3.
  destruct (dflush_file_spec _ _ _ _ _ _ Hc2 E3)
    as (Hl3 & Hc3 & Hs3 & Ho3 & Hf3 & Hu3 & He3 & Hi3 & Hk3 & Hx3).
  destruct (Hk1 eq_refl) as [Hd1 Hdk1]. destruct (Hk2 eq_refl) as [Hd2 Hdk2].
  split_and!; try done.
  - apply view_ext. intros f. by rewrite Hl3, Hl2, Hl1.
  - intros f. etrans; [apply Hs3|]. etrans; [apply Hs2|apply Hs1].
  - congruence.
  - congruence.
  - rewrite Hi3. split.
    + intros H3 [] c.
      * by apply Hi1.
      * rewrite <- (Ho1 FKey) by done. by apply Hi2.
      * rewrite <- (Ho1 FHtx), <- (Ho2 FHtx) by done. apply H3.
    + intros Hall c. rewrite (Ho2 FHtx), (Ho1 FHtx) by done. apply Hall.
  - intros ->. destruct (Hk3 eq_refl) as [Hd3 Hdk3]. split_and!.
    + intros [].
      * rewrite (Ho3 FVal), (Ho2 FVal) by done. done.
      * rewrite (Ho3 FKey) by done. done.
      * done.
    + apply on_disk_view_ext. intros [].
      * rewrite (Ho3 FVal), (Ho2 FVal) by done. done.
      * rewrite (Ho3 FKey) by done. rewrite Hdk2. apply Hl1.
      * rewrite Hdk3, Hl2, Hl1. done.
    + rewrite He3, He2, He1. unfold all_events. by rewrite <- !app_assoc.
  - intros ->. exists FHtx. by apply Hx3.
Qed.

(** ** 7. [dflush] and [dsync] (C03, C16) *)

Lemma dflush_spec d (o : fid -> oracle A) d' ok :
  dinv d -> dflush o d = (d', ok) ->
  view d' = view d /\ dinv d' /\
  (ok = true -> on_disk d' = view d /\ dflag d' = false) /\
  (ok = false -> dflag d' = true) /\
  (dflag d = true ->
   (ok = true <-> forall f c, c ∈ dirtyset (dfile d f) -> refuse (o f) c = false)).
Proof.
  intros Hi. pose proof Hi as [Hc He]. unfold dflush. destruct (dflag d) eqn:Hfl.
  2:{ intros Heq; inversion Heq; subst; clear Heq. split_and!; try done.
      intros _. split; [|done]. by apply dinv_clean_on_disk. }
  destruct (dflush_all o None d) as [d1 ok1] eqn:E.
  destruct (dflush_all_spec _ _ _ _ _ Hc E)
    as (Hv & Hc1 & Hs1 & Hf1 & Hu1 & Hiff & Hok & Hfail).
  destruct ok1; intros Heq; inversion Heq; subst; clear Heq.
  - destruct (Hok eq_refl) as (Hd & Hod & _). split_and!.
    + exact Hv.
    + split.
      * intros f. rewrite dfile_set_flags. apply Hc1.
      * intros _ f. rewrite dfile_set_flags. apply Hd.
    + intros _. split; [exact Hod|reflexivity].
    + intros Hx. discriminate Hx.
    + intros _. exact Hiff.
  - split_and!.
    + exact Hv.
    + split; [exact Hc1|]. rewrite Hf1, Hfl. intros Hx. discriminate Hx.
    + intros Hx. discriminate Hx.
    + intros _. congruence.
    + intros _. exact Hiff.
Qed.

Lemma dsync_spec all d (o : fid -> oracle A) d' ok :
  dinv d -> dsync all o d = (d', ok) ->
  view d' = view d /\ dinv d' /\
  (ok = true -> on_disk d' = view d /\ dflag d' = false /\ unsynced d' = false) /\
  (ok = false -> dflag d' = true) /\
  (dflag d || unsynced d = true ->
   (ok = true <-> forall f c, c ∈ dirtyset (dfile d f) -> refuse (o f) c = false)).
Proof.
  intros Hi. pose proof Hi as [Hc He]. unfold dsync.
  destruct (dflag d || unsynced d) eqn:Hfl.
  2:{ apply orb_false_iff in Hfl as [Hfl Hun].
      intros Heq; inversion Heq; subst; clear Heq. split_and!; try done.
      intros _. split_and!; try done. by apply dinv_clean_on_disk. }
  destruct (dflush_all o (Some all) d) as [d1 ok1] eqn:E.
  destruct (dflush_all_spec _ _ _ _ _ Hc E)
    as (Hv & Hc1 & Hs1 & Hf1 & Hu1 & Hiff & Hok & Hfail).
  destruct ok1; intros Heq; inversion Heq; subst; clear Heq.
  - destruct (Hok eq_refl) as (Hd & Hod & _). split_and!.
    + exact Hv.
    + split.
      * intros f. rewrite dfile_set_flags. apply Hc1.
      * intros _ f. rewrite dfile_set_flags. apply Hd.
    + intros _. split_and!; [exact Hod|reflexivity|reflexivity].
    + intros Hx. discriminate Hx.
    + intros _. exact Hiff.
  - assert (Hdf : dflag d = true).
    { destruct (dflag d) eqn:Hdf; [done|]. exfalso.
      destruct (Hfail eq_refl) as [f Hne]. apply Hne.
      pose proof (Hs1 f) as Hs. rewrite (He eq_refl f) in Hs. set_solver. }
    split_and!.
    + exact Hv.
    + split; [exact Hc1|]. rewrite Hf1, Hdf. intros Hx. discriminate Hx.
    + intros Hx. discriminate Hx.
    + intros _. congruence.
    + intros _. exact Hiff.
Qed.

Theorem flush_durable d (o : fid -> oracle A) :
  dinv d ->
  let '(d', ok) := dflush o d in
  view d' = view d /\ dinv d' /\
  (ok = true -> on_disk d' = view d /\ dflag d' = false) /\
  (ok = false -> dflag d' = true).
Proof.
  intros Hi. destruct (dflush o d) as [d' ok] eqn:E.
  destruct (dflush_spec _ _ _ _ Hi E) as (? & ? & ? & ? & _). done.
Qed.

Theorem sync_durable all d (o : fid -> oracle A) :
  dinv d ->
  let '(d', ok) := dsync all o d in
  view d' = view d /\ dinv d' /\
  (ok = true -> on_disk d' = view d /\ dflag d' = false /\ unsynced d' = false) /\
  (ok = false -> dflag d' = true).
Proof.
  intros Hi. destruct (dsync all o d) as [d' ok] eqn:E.
  destruct (dsync_spec _ _ _ _ _ Hi E) as (? & ? & ? & ? & _). done.
Qed.

Theorem flush_error_iff d (o : fid -> oracle A) :
  dinv d -> dflag d = true ->
  (snd (dflush o d) = true <->
   forall f c, c ∈ dirtyset (dfile d f) -> refuse (o f) c = false).
Proof.
  intros Hi Hf. destruct (dflush o d) as [d' ok] eqn:E.
  destruct (dflush_spec _ _ _ _ Hi E) as (_ & _ & _ & _ & H). simpl. by apply H.
Qed.

Theorem sync_error_iff all d (o : fid -> oracle A) :
  dinv d -> dflag d || unsynced d = true ->
  (snd (dsync all o d) = true <->
   forall f c, c ∈ dirtyset (dfile d f) -> refuse (o f) c = false).
Proof.
  intros Hi Hf. destruct (dsync all o d) as [d' ok] eqn:E.
  destruct (dsync_spec _ _ _ _ _ Hi E) as (_ & _ & _ & _ & H). simpl. by apply H.
Qed.

Theorem flush_noop_when_clean d (o : fid -> oracle A) :
  dinv d -> dflag d = false -> dflush o d = (d, true) /\ on_disk d = view d.
Proof.
  intros Hi Hf. split.
  - unfold dflush. by rewrite Hf.
  - by apply dinv_clean_on_disk.
Qed.

(** the same for a sync when both flags are clear *)
Theorem sync_noop_when_clean all d (o : fid -> oracle A) :
  dinv d -> dflag d = false -> unsynced d = false ->
  dsync all o d = (d, true) /\ on_disk d = view d.
Proof.
  intros Hi Hf Hu. split.
  - unfold dsync. by rewrite Hf, Hu.
  - by apply dinv_clean_on_disk.
Qed.

(** ** 8. steps and runs *)

Theorem dstep_dinv d (op : dop A) : dinv d -> dinv (fst (dstep d op)).
Proof.
  intros Hi. destruct op as [ws|f cs|o|all o]; simpl.
  - by apply dupdate_dinv.
  - by apply devict_dinv.
  - destruct (dflush o d) as [d' ok] eqn:E.
    destruct (dflush_spec _ _ _ _ Hi E) as (_ & ? & _). done.
  - destruct (dsync all o d) as [d' ok] eqn:E.
    destruct (dsync_spec _ _ _ _ _ Hi E) as (_ & ? & _). done.
Qed.

Theorem drun_dinv d (ops : list (dop A)) : dinv d -> dinv (drun d ops).
Proof.
  unfold drun. revert d. induction ops as [|op ops IH]; intros d Hi; simpl; [done|].
  apply IH. by apply dstep_dinv.
Qed.

(** evictions, flushes and syncs - successful or failed - never change what reads see.
    This needs no invariant at all. *)
Lemma dflush_file_view (o : fid -> oracle A) sync d f :
  view (fst (dflush_file o sync d f)) = view d.
Proof.
  destruct (dflush_file o sync d f) as [d' ok] eqn:E.
  destruct (dflush_file_struct _ _ _ _ _ _ E) as (Hb & Hoth & _).
  simpl. apply view_ext. intros g. destruct (decide (g = f)) as [->|Hne].
  - unfold bflush in Hb. by apply flush_chunks_logical in Hb.
  - by rewrite Hoth.
Qed.

Lemma dflush_all_view (o : fid -> oracle A) sync d :
  view (fst (dflush_all o sync d)) = view d.
Proof.
  unfold dflush_all.
  pose proof (dflush_file_view o sync d FVal) as H1.
  destruct (dflush_file o sync d FVal) as [d1 ok1]. simpl in H1.
  destruct ok1; simpl; [|done].
  pose proof (dflush_file_view o sync d1 FKey) as H2.
  destruct (dflush_file o sync d1 FKey) as [d2 ok2]. simpl in H2.
  destruct ok2; simpl; [|congruence].
  rewrite dflush_file_view. congruence.
Qed.

Theorem dstep_view_reads d (op : dop A) :
  match op with DUpdate _ => True | _ => view (fst (dstep d op)) = view d end.
Proof.
  destruct op as [ws|f cs|o|all o]; simpl.
  - done.
  - apply devict_view.
  - unfold dflush. destruct (dflag d); [|done].
    pose proof (dflush_all_view o None d) as H.
    destruct (dflush_all o None d) as [d1 ok1]. simpl in H. by destruct ok1.
  - unfold dsync. destruct (dflag d || unsynced d); [|done].
    pose proof (dflush_all_view o (Some all) d) as H.
    destruct (dflush_all o (Some all) d) as [d1 ok1]. simpl in H. by destruct ok1.
Qed.

(** C03 / C16 at run level: whatever happened before - updates, evictions, flushes and syncs
    that failed half-way with arbitrary fault oracles - a flush or sync that reports success
    has made exactly the current view durable ("recovery after a failed flush"). *)
Theorem durable_after_any_history d (ops : list (dop A)) (o : fid -> oracle A) :
  dinv d ->
  let d1 := drun d ops in
  (snd (dflush o d1) = true -> on_disk (fst (dflush o d1)) = view d1) /\
  (forall all, snd (dsync all o d1) = true -> on_disk (fst (dsync all o d1)) = view d1).
Proof.
  intros Hi d1. assert (Hi1 : dinv d1) by (by apply drun_dinv). split.
  - pose proof (flush_durable d1 o Hi1) as H.
    destruct (dflush o d1) as [d' ok]. simpl. intros ->.
    destruct H as (_ & _ & H & _). by apply H.
  - intros all. pose proof (sync_durable all d1 o Hi1) as H.
    destruct (dsync all o d1) as [d' ok]. simpl. intros ->.
    destruct H as (_ & _ & H & _). by apply H.
Qed.

(** ... and it reports success iff the OS refuses none of the chunks still buffered *)
Theorem error_iff_after_any_history d (ops : list (dop A)) (o : fid -> oracle A) :
  dinv d ->
  let d1 := drun d ops in
  dflag d1 = true ->
  (snd (dflush o d1) = true <->
   forall f c, c ∈ dirtyset (dfile d1 f) -> refuse (o f) c = false).
Proof.
  intros Hi d1 Hf. apply flush_error_iff; [|done]. by apply drun_dinv.
Qed.

(** ** 9. OS sync requests *)

Lemma sync_inv_dopen (v k h : bfile A) : sync_inv (dopen v k h).
Proof. intros Hf. simpl in Hf. done. Qed.

Lemma dsync_struct all (o : fid -> oracle A) d d' ok :
  dsync all o d = (d', ok) ->
  (dflag d || unsynced d = false /\ d' = d /\ ok = true) \/
  (dflag d || unsynced d = true /\ ok = true /\ dflag d' = false /\ unsynced d' = false /\
   events d' = all_events (Some all) ++ events d) \/
  (dflag d || unsynced d = true /\ ok = false /\ dflag d' = dflag d /\
   unsynced d' = unsynced d).
Proof.
  unfold dsync. destruct (dflag d || unsynced d) eqn:Hfl.
  2:{ intros Heq; inversion Heq; subst. left. done. }
  unfold dflush_all.
  destruct (dflush_file o (Some all) d FVal) as [d1 ok1] eqn:E1.
  destruct (dflush_file_struct _ _ _ _ _ _ E1) as (_ & _ & Hf1 & Hu1 & He1).
  destruct ok1; simpl.
  2:{ intros Heq; inversion Heq; subst. right; right. done. }
  destruct (dflush_file o (Some all) d1 FKey) as [d2 ok2] eqn:E2.
  destruct (dflush_file_struct _ _ _ _ _ _ E2) as (_ & _ & Hf2 & Hu2 & He2).
  destruct ok2; simpl.
  2:{ intros Heq; inversion Heq; subst. right; right. split_and!; try done; congruence. }
  destruct (dflush_file o (Some all) d2 FHtx) as [d3 ok3] eqn:E3.
  destruct (dflush_file_struct _ _ _ _ _ _ E3) as (_ & _ & Hf3 & Hu3 & He3).
  destruct ok3; intros Heq; inversion Heq; subst; clear Heq.
  - right; left. split_and!; try done. simpl. rewrite He3, He2, He1. done.
  - right; right. split_and!; try done; congruence.
Qed.

Lemma all_events_synced all f evs :
  synced_after_last_write f (all_events (Some all) ++ evs) = true.
Proof. destruct f; reflexivity. Qed.

Lemma dupdate_dflag d (ws : list (fid * N * A)) : dflag (dupdate d ws) = true.
Proof. apply dupdate_facts. Qed.

Theorem dstep_sync_inv d (op : dop A) : sync_inv d -> sync_inv (fst (dstep d op)).
Proof.
  intros Hi. destruct op as [ws|f cs|o|all o]; simpl.
  - intros Hf. rewrite dupdate_dflag in Hf. done.
  - unfold devict. intros Hf Hu g.
    rewrite dflag_set_dfile in Hf. rewrite unsynced_set_dfile in Hu.
    rewrite events_set_dfile. by apply Hi.
  - unfold dflush. destruct (dflag d) eqn:Hfl; [|done].
    unfold dflush_all.
    destruct (dflush_file o None d FVal) as [d1 ok1] eqn:E1.
    destruct (dflush_file_struct _ _ _ _ _ _ E1) as (_ & _ & Hf1 & _).
    destruct ok1; simpl.
    2:{ intros Hf. congruence. }
    destruct (dflush_file o None d1 FKey) as [d2 ok2] eqn:E2.
    destruct (dflush_file_struct _ _ _ _ _ _ E2) as (_ & _ & Hf2 & _).
    destruct ok2; simpl.
    2:{ intros Hf. congruence. }
    destruct (dflush_file o None d2 FHtx) as [d3 ok3] eqn:E3.
    destruct (dflush_file_struct _ _ _ _ _ _ E3) as (_ & _ & Hf3 & _).
    destruct ok3; simpl.
    + intros _ Hu. simpl in Hu. done.
    + intros Hf. congruence.
  - destruct (dsync all o d) as [d' ok] eqn:E. simpl.
    destruct (dsync_struct _ _ _ _ _ E)
      as [(_ & -> & _)|[(_ & _ & _ & _ & Hev)|(Hfl & _ & Hf & Hu)]].
    + done.
    + intros _ _ g. rewrite Hev. apply all_events_synced.
    + intros Hf' Hu'. rewrite Hf', Hu' in *. rewrite <- Hf, <- Hu in Hfl. done.
Qed.

Theorem drun_sync_inv d (ops : list (dop A)) : sync_inv d -> sync_inv (drun d ops).
Proof.
  unfold drun. revert d. induction ops as [|op ops IH]; intros d Hi; simpl; [done|].
  apply IH. by apply dstep_sync_inv.
Qed.

Theorem sync_requests_issued d all (o : fid -> oracle A) :
  let '(d', ok) := dsync all o d in
  (dflag d || unsynced d = true) -> ok = true ->
  forall f, exists pre post,
    events d' = post ++ EOsSync f all :: pre /\ (forall e, e ∈ post -> e <> EWrite f).
Proof.
  destruct (dsync all o d) as [d' ok] eqn:E. intros Hfl Hok f.
  destruct (dsync_struct _ _ _ _ _ E)
    as [(Hfl' & _)|[(_ & _ & _ & _ & Hev)|(_ & Hok' & _)]]; [congruence| |congruence].
  rewrite Hev. unfold all_events, flush_events. simpl.
  destruct f.
  - exists (EFlushed FVal :: events d),
      [EOsSync FHtx all; EFlushed FHtx; EOsSync FKey all; EFlushed FKey].
    split; [done|]. intros e He.
    repeat (apply elem_of_cons in He as [->|He]; [done|]). by apply elem_of_nil in He.
  - exists (EFlushed FKey :: EOsSync FVal all :: EFlushed FVal :: events d),
      [EOsSync FHtx all; EFlushed FHtx].
    split; [done|]. intros e He.
    repeat (apply elem_of_cons in He as [->|He]; [done|]). by apply elem_of_nil in He.
  - exists (EFlushed FHtx :: EOsSync FKey all :: EFlushed FKey ::
            EOsSync FVal all :: EFlushed FVal :: events d), [].
    split; [done|]. intros e He. by apply elem_of_nil in He.
Qed.

End buf_proofs.

(** ** 10. non-vacuity: a failed flush, then recovery *)
Section examples.
Local Open Scope N_scope.

(** [flush_chunks] on a chunk that is not dirty, refused with garbage, breaks [clean_inv]:
    the side condition of [flush_chunks_spec] cannot be dropped *)
Example flush_chunks_unclean_counterexample :
  let o : oracle N := Oracle (fun _ => true) (fun _ => Some 1) in
  clean_inv (@bfile_empty N) /\ ~ clean_inv (fst (flush_chunks o [0] bfile_empty)).
Proof.
  split; [apply bfile_empty_clean|].
  intros H. specialize (H 0). simpl in H.
  rewrite lookup_insert, lookup_empty in H. discriminate H. set_solver.
Qed.

(** two buffered writes to the value file (chunks 3 and 5), one to the key file (chunk 1) *)
Definition ex_d0 : dmap N :=
  drun (dopen bfile_empty bfile_empty bfile_empty)
       [DUpdate [(FVal, 3, 7); (FVal, 5, 9); (FKey, 1, 8)]].

(** the OS accepts chunk 3 of the value file, refuses chunk 5 and leaves garbage there *)
Definition ex_bad (f : fid) : oracle N :=
  match f with
  | FVal => Oracle (fun c => c =? 5) (fun _ => Some 666)
  | _ => no_faults
  end.

Definition ex_d1 : dmap N := fst (dflush ex_bad ex_d0).
Definition ex_d2 : dmap N := fst (dflush (fun _ => no_faults) ex_d1).

Example ex_d0_dinv : dinv ex_d0.
Proof. apply drun_dinv, dinv_dopen_empty. Qed.

Example ex_d0_dirty :
  elements (dirtyset (fval ex_d0)) = [3; 5] /\ elements (dirtyset (fkey ex_d0)) = [1] /\
  dflag ex_d0 = true /\ on_disk ex_d0 <> view ex_d0.
Proof.
  split_and!; try (vm_compute; reflexivity).
  intros H. apply (f_equal (fun v => v.1.1 !! 3)) in H. vm_compute in H. discriminate.
Qed.

Example ex_flush_fails :
  snd (dflush ex_bad ex_d0) = false /\
  view ex_d1 = view ex_d0 /\
  dflag ex_d1 = true /\
  elements (dirtyset (fval ex_d1)) = [5] /\ elements (dirtyset (fkey ex_d1)) = [1] /\
  disk (fval ex_d1) !! 3 = Some 7 /\ disk (fval ex_d1) !! 5 = Some 666 /\
  logical (fval ex_d1) !! 5 = Some 9.
Proof.
  split_and!; vm_compute; reflexivity.
Qed.

(** the view part again, this time from the theorem rather than by computation *)
Example ex_flush_fails_view : view ex_d1 = view ex_d0.
Proof.
  pose proof (flush_durable ex_d0 ex_bad ex_d0_dinv) as H.
  unfold ex_d1. destruct (dflush ex_bad ex_d0) as [d' ok]. simpl. apply H.
Qed.

Example ex_recovery :
  snd (dflush (fun _ => no_faults) ex_d1) = true /\
  on_disk ex_d2 = view ex_d0 /\ view ex_d2 = view ex_d0 /\ dflag ex_d2 = false /\
  disk (fval ex_d2) !! 5 = Some 9.
Proof.
  assert (Hok : snd (dflush (fun _ => no_faults) ex_d1) = true) by (vm_compute; reflexivity).
  assert (Hi1 : dinv ex_d1) by (apply (dstep_dinv ex_d0 (DFlush ex_bad)), ex_d0_dinv).
  assert (Hv1 : view ex_d1 = view ex_d0) by apply ex_flush_fails.
  pose proof (flush_durable ex_d1 (fun _ => no_faults) Hi1) as H.
  unfold ex_d2. destruct (dflush (fun _ => no_faults) ex_d1) as [d' ok].
  simpl in *. subst ok. destruct H as (Hv & _ & Hd & _). destruct (Hd eq_refl) as [Hod Hfl].
  split_and!; try done; try congruence.
  apply (f_equal (fun v => v.1.1)) in Hod. simpl in Hod. rewrite Hod.
  vm_compute. reflexivity.
Qed.

(** the same, fully computed *)
Example ex_recovery_computed :
  forall c, c ∈ [0; 1; 2; 3; 4; 5; 6] ->
  disk (fval ex_d2) !! c = logical (fval ex_d0) !! c /\
  disk (fkey ex_d2) !! c = logical (fkey ex_d0) !! c /\
  disk (fhtx ex_d2) !! c = logical (fhtx ex_d0) !! c.
Proof.
  intros c Hc.
  repeat (apply elem_of_cons in Hc as [->|Hc]; [vm_compute; done|]).
  by apply elem_of_nil in Hc.
Qed.

(** a sync of the recovered map issues the three OS requests *)
Example ex_sync_events :
  events (fst (dsync true (fun _ => no_faults) ex_d2)) =
  [EOsSync FHtx true; EFlushed FHtx; EOsSync FKey true; EFlushed FKey;
   EOsSync FVal true; EFlushed FVal;
   EFlushed FHtx; EFlushed FKey; EFlushed FVal;
   EWrite FKey; EWrite FVal; EWrite FVal].
Proof. vm_compute. reflexivity. Qed.

End examples.

Print Assumptions bflush_spec.
Print Assumptions dstep_dinv.
Print Assumptions drun_dinv.
Print Assumptions flush_durable.
Print Assumptions sync_durable.
Print Assumptions flush_error_iff.
Print Assumptions sync_error_iff.
Print Assumptions flush_noop_when_clean.
Print Assumptions durable_after_any_history.
Print Assumptions dstep_sync_inv.
Print Assumptions drun_sync_inv.
Print Assumptions sync_requests_issued.
Print Assumptions dstep_view_reads.
