(** * KeyTypes: the five key newtypes (src/filedb/dbmap/kt_*.rs). *)
From Aby Require Import Base Vu64 Consts.

Inductive ktype := KString | KBytes | KI64 | KU64 | KVu64.

#[global] Instance ktype_eq_dec : EqDecision ktype.
Proof. solve_decision. Defined.

Definition all_ktypes : list ktype := [KString; KBytes; KI64; KU64; KVu64].

(** [KT::signature()] : from the regenerated constants *)
Definition sig_of (kt : ktype) : bytes :=
  match kt with
  | KString => sig_string
  | KBytes => sig_bytes
  | KI64 => sig_i64
  | KU64 => sig_u64
  | KVu64 => sig_vu64
  end.

(** [cmp_u8 == Ordering::Equal].  Bytewise for four types; [DbVu64] decodes both sides
    ([vu64::decode(..).unwrap()]: a key that is not a varint panics). *)
Definition cmp_eq (kt : ktype) (mine stored : bytes) : res bool :=
  match kt with
  | KVu64 =>
    match decode mine, decode stored with
    | Some (x, _), Some (y, _) => Ok (x =? y)
    | _, _ => Panic Corrupt
    end
  | _ => Ok (bytes_eqb mine stored)
  end.

(** integer conversions *)
Definition of_u64 (x : N) : bytes := le_bytes 8 x.
Definition to_u64 (k : bytes) : N := le_decode (take 8 k).          (* shorter keys are zero extended *)

Definition of_i64 (z : Z) : bytes := le_bytes 8 (Z.to_N (z mod 18446744073709551616)%Z).
Definition to_i64 (k : bytes) : Z :=
  let u := le_decode (take 8 k) in
  if u <? two63 then Z.of_N u else (Z.of_N u - 18446744073709551616)%Z.

Definition of_vu64 (x : N) : bytes := encode x.
Definition to_vu64 (k : bytes) : option N := fst <$> decode k.      (* [None]: the crate panics *)

(** [From<u64>] of the string and byte key types: big endian *)
Definition of_u64_be (x : N) : bytes := be_bytes 8 x.

Definition of_uint (kt : ktype) (x : N) : bytes :=
  match kt with
  | KU64 => of_u64 x
  | KVu64 => of_vu64 x
  | KI64 => of_i64 (Z.of_N x)
  | KString | KBytes => of_u64_be x
  end.
