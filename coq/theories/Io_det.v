(** * Io_det: the files are a function of the update history, at byte level (C18).

    The read-only calls of a history ([Get], [Has], [Len], [IsEmpty]) return the store they were
    given ([Refine_all.store_step]), so the record-level state after a history is the state after
    its updating calls alone; the flat files of the byte-level I/O model are [render] of that state
    after either run ([Io_proofs.Io_histories]).  Hence: the three files the I/O of the map layer
    leaves are the same whether or not read-only calls were made in between. *)
From Coq Require Import Lia ZifyN ZifyNat ZifyBool.
From Aby Require Import Base Vu64 Hash KeyTypes Consts Sizing Alloc AllocInv Htx Store Iter Stats Layout Load Spec Refine Refine_all
  Load_all Cache Io Io_base Io_htx Io_run Io_proofs.
Import Io.
#[local] Open Scope N_scope.

Definition is_update (o : dop) : bool := match o with Put _ _ | Del _ => true | _ => false end.

Lemma read_only_step s o s1 r : is_update o = false -> store_step s o = Ok (s1, r) -> s1 = s.
Proof.
  destruct o as [k v|k|k|k| |]; cbn [is_update store_step]; intros Hu H; try discriminate Hu.
  - destruct (Store.get s k) as [x| | |]; cbn [rbind] in H; try discriminate. injection H as <- _. reflexivity.
  - destruct (Store.has s k) as [x| | |]; cbn [rbind] in H; try discriminate. injection H as <- _. reflexivity.
  - injection H as <- _. reflexivity.
  - injection H as <- _. reflexivity.
Qed.

Lemma store_run_updates ops : forall s s' outs, store_run s ops = Ok (s', outs) ->
  exists outs', store_run s (List.filter is_update ops) = Ok (s', outs').
Proof.
  induction ops as [|o ops IH]; intros s s' outs H; cbn [store_run List.filter] in *.
  - injection H as <- <-. exists []. reflexivity.
  - destruct (store_step s o) as [[s1 r]| | |] eqn:E1; cbn [rbind] in H; try discriminate.
    destruct (store_run s1 ops) as [[s2 rs]| | |] eqn:E2; cbn [rbind] in H; try discriminate.
    injection H as <- <-. destruct (IH _ _ _ E2) as (outs' & E3).
    destruct (is_update o) eqn:Eu.
    + cbn [store_run]. rewrite E1. cbn [rbind]. rewrite E3. cbn [rbind]. eexists. reflexivity.
    + rewrite (read_only_step s o s1 r Eu E1) in E3. exists outs'. exact E3.
Qed.

Lemma sized_updates ops : forall s s' outs, store_run s ops = Ok (s', outs) ->
  sized s ops -> sized s (List.filter is_update ops).
Proof.
  induction ops as [|o ops IH]; intros s s' outs Hrun H; cbn [List.filter]; [exact H|].
  cbn [store_run] in Hrun.
  destruct (store_step s o) as [[s1 r]| | |] eqn:E1; cbn [rbind] in Hrun; try discriminate.
  destruct (store_run s1 ops) as [[s2 rs]| | |] eqn:E2; cbn [rbind] in Hrun; try discriminate.
  destruct H as (H64 & Hroom & Hnext). pose proof (Hnext s1 r E1) as Hs1.
  pose proof (IH s1 s2 rs E2 Hs1) as Hf.
  destruct (is_update o) eqn:Eu.
  - cbn [sized]. split; [exact H64|]. split; [exact Hroom|]. intros s1' r' E'. rewrite E1 in E'. injection E' as <- _. exact Hf.
  - rewrite (read_only_step s o s1 r Eu E1) in Hf. exact Hf.
Qed.

Lemma Forall_filter_wf t ops : Forall (op_wf t) ops -> Forall (op_wf t) (List.filter is_update ops).
Proof.
  induction 1 as [|o ops Ho _ IH]; cbn [List.filter]; [constructor|].
  destruct (is_update o); [constructor; assumption|assumption].
Qed.

Theorem byte_level_images_function_of_updates s sp m ops s' outs :
  wf_state s -> represents s sp -> simg s m -> Forall (op_wf (kt s)) ops -> sized s ops ->
  store_run s ops = Ok (s', outs) ->
  exists m' m'' outs'',
    io_run m ops = Ok (m', outs) /\
    io_run m (List.filter is_update ops) = Ok (m'', outs'') /\
    Io.images m' = Io.images m''.
Proof.
  intros Hwf HR Hsim Hops Hsz Hrun.
  destruct (Io_histories ops s sp m s' outs Hwf HR Hsim Hops Hsz Hrun) as (m' & Hio & (Hr' & _) & _).
  destruct (store_run_updates ops s s' outs Hrun) as (outs'' & Hrun2).
  destruct (Io_histories _ s sp m s' outs'' Hwf HR Hsim (Forall_filter_wf _ _ Hops)
              (sized_updates ops s s' outs Hrun Hsz) Hrun2) as (m'' & Hio2 & (Hr'' & _) & _).
  exists m', m'', outs''. split; [exact Hio|]. split; [exact Hio2|].
  rewrite Hr' in Hr''. congruence.
Qed.

Print Assumptions byte_level_images_function_of_updates.
