(** * Durable: what a successful flush / sync makes durable IS the byte image of the current map
    (properties C03 and C16, end to end).

    [Buf] / [Buf_proofs] prove durability for abstract chunk maps; [Layout.render] gives the byte
    images of a store; [Load_all] proves that the independent reader maps those images back to the
    store and to the contents of the ideal map.  This file composes them:

    1. a byte image cut into chunks of a fixed size ([chunks]) and glued together again ([unchunks]);
    2. files never shrink ([put_grows], [del_grows]), hence the chunk domain never shrinks;
    3. the combined state (store + buffered files), the relation [tracks] ("reads from the buffers
       see exactly the byte images of the store") and its preservation by every operation;
    4. C03 / C16: after any history - failed flushes included - a flush or sync that reports
       success leaves on disk exactly [render] of the current store, and a copy of those files
       opens ([Load.load]) to the current state / the contents of the ideal map;
    5. a computed example with a failed flush in the middle. *)
From Coq Require Import Lia ZifyN ZifyNat ZifyBool.
From Aby Require Import Base Vu64 Hash KeyTypes KeyTypes_proofs Consts Sizing Sizing_proofs Alloc AllocInv
  AllocInv_proofs Htx Htx_proofs Store Spec Refine Refine_relink Refine_all Open_proofs Layout Load Load_proofs
  Load_htx_proofs Load_all Buf Buf_proofs.
From stdpp Require Import sorting fin_sets fin_map_dom.
Local Open Scope N_scope.

(** ** 1. chunking a byte image *)

(** number of chunks of size [csz] of an image: ceil(len / csz) *)
Definition nchunks (csz : N) (img : bytes) : N := (blen img + csz - 1) / csz.

(** chunk [i]: the bytes [i*csz, (i+1)*csz) - fewer in the last chunk *)
Definition piece (csz : N) (img : bytes) (i : N) : bytes :=
  take (N.to_nat csz) (drop (N.to_nat (i * csz)) img).

Definition chunks (csz : N) (img : bytes) : gmap N bytes :=
  list_to_map (map (fun i => (i, piece csz img i)) (seqN' 0 (N.to_nat (nchunks csz img)))).

(** concatenate chunks [i], [i+1], ... while present *)
Fixpoint unchunks_from (fuel : nat) (m : gmap N bytes) (i : N) : bytes :=
  match fuel with
  | O => []
  | S f => match @lookup N bytes (gmap N bytes) _ i m with
           | Some c => c ++ unchunks_from f m (i + 1)
           | None => []
           end
  end.

Definition unchunks (m : gmap N bytes) : bytes := unchunks_from (size m) m 0.

Lemma nchunks_lt csz img i : 0 < csz -> (i < nchunks csz img <-> i * csz < blen img).
Proof.
  intros Hc. unfold nchunks. generalize (blen img). intros len.
  pose proof (N.div_mod (len + csz - 1) csz) as Hd.
  pose proof (N.mod_lt (len + csz - 1) csz) as Hm.
  revert Hd Hm. generalize ((len + csz - 1) / csz) ((len + csz - 1) mod csz). intros q r Hd Hm.
  split; intros H; nia.
Qed.

Lemma fst_map_pair {A} (g : N -> A) (l : list N) : (map (fun i => (i, g i)) l).*1 = l.
Proof. induction l as [|x l IH]; [reflexivity|]. cbn. f_equal. exact IH. Qed.

Lemma NoDup_seqN' n : NoDup (seqN' 0 n).
Proof.
  unfold seqN'.
  assert (Hinj : Inj (=) (=) (fun i : nat => 0 + N.of_nat i)) by (intros a b Hab; lia).
  apply (NoDup_fmap_2 (fun i => 0 + N.of_nat i)). apply NoDup_seq.
Qed.

Lemma chunks_lookup csz img i : 0 < csz ->
  chunks csz img !! i = if i * csz <? blen img then Some (piece csz img i) else None.
Proof.
  intros Hc. unfold chunks. destruct (N.ltb_spec (i * csz) (blen img)) as [Hlt | Hge].
  - apply elem_of_list_to_map_1'.
    + intros y Hy. apply Load_proofs.elem_of_map in Hy as (x & Heq & _). injection Heq as <- ->. reflexivity.
    + apply Load_proofs.elem_of_map. exists i. split; [reflexivity|].
      apply elem_of_seqN'. apply (nchunks_lt csz img i Hc) in Hlt. lia.
  - apply not_elem_of_list_to_map_1. rewrite fst_map_pair. intros Hin.
    apply elem_of_seqN' in Hin. assert (Hi : i < nchunks csz img) by lia.
    apply (nchunks_lt csz img i Hc) in Hi. lia.
Qed.

Lemma chunks_dom csz img i : 0 < csz -> (i ∈ dom (chunks csz img) <-> i * csz < blen img).
Proof.
  intros Hc. rewrite elem_of_dom, (chunks_lookup csz img i Hc).
  destruct (N.ltb_spec (i * csz) (blen img)) as [Hlt | Hge].
  - split; [intros _; exact Hlt | intros _; eexists; reflexivity].
  - split; [intros [x Hx]; discriminate Hx | intros Hlt; lia].
Qed.

Lemma chunks_size csz img : size (chunks csz img) = N.to_nat (nchunks csz img).
Proof.
  unfold chunks. rewrite <- (size_dom (D := gset N)), dom_list_to_map_L, fst_map_pair.
  rewrite size_list_to_set by apply NoDup_seqN'. apply seqN'_length.
Qed.

(** an empty image has no chunk *)
Lemma chunks_nil csz : 0 < csz -> chunks csz [] = ∅.
Proof.
  intros Hc. apply map_eq. intros i. rewrite (chunks_lookup csz [] i Hc), lookup_empty.
  destruct (N.ltb_spec (i * csz) (blen [])) as [Hlt | Hge]; [|reflexivity].
  change (blen []) with 0 in Hlt. lia.
Qed.

Lemma unchunks_from_chunks csz img : 0 < csz -> forall fuel i,
  (N.to_nat (nchunks csz img - i) <= fuel)%nat ->
  unchunks_from fuel (chunks csz img) i = drop (N.to_nat (i * csz)) img.
Proof.
  intros Hc fuel. induction fuel as [|fuel IH]; intros i Hf.
  - cbn [unchunks_from]. symmetry. apply drop_ge.
    destruct (N.lt_ge_cases i (nchunks csz img)) as [Hlt | Hge]; [lia|].
    assert (Hn : ~ i * csz < blen img) by (intros H; apply (nchunks_lt csz img i Hc) in H; lia).
    unfold blen in Hn. lia.
  - cbn [unchunks_from]. rewrite (chunks_lookup csz img i Hc).
    destruct (N.ltb_spec (i * csz) (blen img)) as [Hlt | Hge].
    + rewrite IH by (apply (nchunks_lt csz img i Hc) in Hlt; lia).
      unfold piece. replace (N.to_nat ((i + 1) * csz)) with (N.to_nat (i * csz) + N.to_nat csz)%nat by lia.
      rewrite <- drop_drop. apply take_drop.
    + symmetry. apply drop_ge. unfold blen in Hge. lia.
Qed.

(** gluing the chunks of an image together gives the image back *)
Theorem unchunks_chunks csz img : 0 < csz -> unchunks (chunks csz img) = img.
Proof.
  intros Hc. unfold unchunks. rewrite (unchunks_from_chunks csz img Hc).
  - reflexivity.
  - rewrite chunks_size. lia.
Qed.

Theorem chunks_inj csz a b : 0 < csz -> chunks csz a = chunks csz b -> a = b.
Proof.
  intros Hc H. rewrite <- (unchunks_chunks csz a Hc), <- (unchunks_chunks csz b Hc), H. reflexivity.
Qed.

(** a longer image has at least the chunks of a shorter one *)
Lemma chunks_dom_mono csz a b : 0 < csz -> blen a <= blen b -> dom (chunks csz a) ⊆ dom (chunks csz b).
Proof.
  intros Hc Hle i Hi. apply (chunks_dom csz a i Hc) in Hi. apply (chunks_dom csz b i Hc). lia.
Qed.

(** ** 2. files never shrink *)

Section fend_mono.
Context {P : Type} (c : pcfg).

Lemma push_free_fend (f f' : pfile P) off sz : push_free c f off sz = Ok f' -> fend f' = fend f.
Proof.
  unfold push_free. destruct (off =? 0); [intros H; injection H as <-; reflexivity|].
  destruct (class_idx c sz) as [i| | |]; cbn [rbind]; intros H; try discriminate H.
  injection H as <-. reflexivity.
Qed.

Lemma pop_large_fend fuel : forall (f : pfile P) nsz i prev curr f' off sz,
  pop_large fuel f nsz i prev curr = Ok (f', off, sz) -> fend f' = fend f.
Proof.
  induction fuel as [|fuel IH]; intros f nsz i prev curr f' off sz H; cbn [pop_large] in H; [discriminate H|].
  destruct (curr =? 0). { injection H as <- _ _. reflexivity. }
  destruct (read_free f curr) as [[sz0 nxt]| | |]; cbn [rbind] in H; try discriminate H.
  destruct (nsz <=? sz0).
  - destruct (prev =? 0).
    + cbn [rbind] in H. injection H as <- _ _. reflexivity.
    + destruct (read_free f prev) as [[psz x]| | |]; cbn [rbind] in H; try discriminate H.
      injection H as <- _ _. reflexivity.
  - exact (IH _ _ _ _ _ _ _ _ H).
Qed.

Lemma pop_free_fend (f f' : pfile P) nsz off sz : pop_free c f nsz = Ok (f', off, sz) -> fend f' = fend f.
Proof.
  unfold pop_free. destruct (class_idx c nsz) as [i| | |]; cbn [rbind]; intros H; try discriminate H.
  destruct (negb (is_large c nsz)).
  - destruct (head_of f i =? 0). { injection H as <- _ _. reflexivity. }
    destruct (read_free f (head_of f i)) as [[sz0 nxt]| | |]; cbn [rbind] in H; try discriminate H.
    injection H as <- _ _. reflexivity.
  - exact (pop_large_fend _ _ _ _ _ _ _ _ _ H).
Qed.

Lemma alloc_fend (f f' : pfile P) nsz p off sz : alloc c f nsz p = Ok (f', off, sz) -> fend f <= fend f'.
Proof.
  unfold alloc. destruct (pop_free c f nsz) as [[[f2 foff] fsz]| | |] eqn:Hp; cbn [rbind]; intros H;
    try discriminate H.
  apply pop_free_fend in Hp. destruct (foff =? 0); injection H as <- _ _; cbn [fend set_slot]; lia.
Qed.

Lemma write_piece_fend need (f f' : pfile P) old p off sz :
  write_piece c need f old p = Ok (f', off, sz) -> fend f <= fend f'.
Proof.
  unfold write_piece. destruct (need =? 0); [intros H; discriminate H|].
  destruct old as [o|]; [|apply alloc_fend].
  destruct (o =? 0); [intros H; discriminate H|].
  destruct (read_size f o) as [osz| | |]; cbn [rbind]; intros H; try discriminate H.
  destruct (negb (valid_size c osz)); [discriminate H|].
  destruct (roundup c need <=? osz).
  - injection H as <- _ _. cbn [fend set_slot]. lia.
  - destruct (push_free c f o osz) as [f1| | |] eqn:Hp; cbn [rbind] in H; try discriminate H.
    apply push_free_fend in Hp. apply alloc_fend in H. lia.
Qed.

Lemma delete_piece_fend (f f' : pfile P) off : delete_piece c f off = Ok f' -> fend f' = fend f.
Proof.
  unfold delete_piece. destruct (read_size f off) as [osz| | |]; cbn [rbind]; intros H; try discriminate H.
  exact (push_free_fend _ _ _ _ H).
Qed.

End fend_mono.

Lemma write_head_hend h i off : hend h <= hend (write_head h i off).
Proof. unfold write_head. cbn [hend]. lia. Qed.

(** no file of [s'] is shorter than the same file of [s] *)
Definition grows (s s' : store) : Prop :=
  fend (keyf s) <= fend (keyf s') /\ fend (valf s) <= fend (valf s') /\ hend (hx s) <= hend (hx s').

Lemma grows_refl s : grows s s.
Proof. unfold grows. lia. Qed.

Lemma grows_trans s1 s2 s3 : grows s1 s2 -> grows s2 s3 -> grows s1 s3.
Proof. unfold grows. lia. Qed.

Lemma relink_grows fuel : forall s b prev newoff s', relink fuel s b prev newoff = Ok s' -> grows s s'.
Proof.
  induction fuel as [|fuel IH]; intros s b prev newoff s' Hr; cbn [relink] in Hr; [discriminate Hr|].
  destruct (prev =? 0).
  { injection Hr as <-. unfold grows. cbn [set_hx keyf valf hx]. pose proof (write_head_hend (hx s) b newoff). lia. }
  destruct (read_krec s prev) as [r| | |]; cbn [rbind] in Hr; try discriminate Hr.
  destruct (write_piece key_cfg _ (keyf s) (Some prev) _) as [[[kf poff] x]| | |] eqn:Ew;
    cbn [rbind] in Hr; try discriminate Hr.
  apply write_piece_fend in Ew.
  assert (Hg : grows s (set_keyf s kf)) by (unfold grows; cbn [set_keyf keyf valf hx]; lia).
  destruct (poff =? prev).
  { injection Hr as <-. exact Hg. }
  destruct (find_prev _ _ prev 0 _) as [pp| | |]; cbn [rbind] in Hr; try discriminate Hr.
  apply IH in Hr. exact (grows_trans _ _ _ Hg Hr).
Qed.

Theorem put_grows s k v s' : put s k v = Ok s' -> grows s s'.
Proof.
  intros Hp. change (grows (touch s) s'). unfold put in Hp. cbv zeta in Hp.
  revert Hp. generalize (touch s). clear s. intros s Hp.
  destruct (Store.find s k) as [[[koff prev]|]| | |]; cbn [rbind] in Hp; try discriminate Hp.
  - destruct (read_krec s koff) as [r| | |]; cbn [rbind] in Hp; try discriminate Hp.
    destruct (read_val s (k_voff r)) as [v0| | |]; cbn [rbind] in Hp; try discriminate Hp.
    destruct (write_piece val_cfg _ (valf s) _ v) as [[[vf voff] x]| | |] eqn:Ew;
      cbn [rbind] in Hp; try discriminate Hp.
    apply write_piece_fend in Ew.
    assert (Hg1 : grows s (set_valf s vf)) by (unfold grows; cbn [set_valf keyf valf hx]; lia).
    destruct (voff =? k_voff r).
    { injection Hp as <-. exact Hg1. }
    destruct (write_piece key_cfg _ _ (Some koff) _) as [[[kf koff'] y]| | |] eqn:Ew2;
      cbn [rbind] in Hp; try discriminate Hp.
    apply write_piece_fend in Ew2.
    assert (Hg2 : grows s (set_keyf (set_valf s vf) kf))
      by (unfold grows in *; cbn [set_keyf set_valf keyf valf hx] in *; lia).
    destruct (koff' =? koff).
    { injection Hp as <-. exact Hg2. }
    apply relink_grows in Hp. exact (grows_trans _ _ _ Hg2 Hp).
  - destruct (write_piece val_cfg _ (valf s) None v) as [[[vf voff] x]| | |] eqn:Ew;
      cbn [rbind] in Hp; try discriminate Hp.
    destruct (write_piece key_cfg _ (keyf s) None _) as [[[kf koff] y]| | |] eqn:Ew2;
      cbn [rbind] in Hp; try discriminate Hp.
    apply write_piece_fend in Ew. apply write_piece_fend in Ew2.
    injection Hp as <-. unfold grows. cbn [keyf valf hx count_up hend].
    pose proof (write_head_hend (hx s) (bucket s k) koff). lia.
Qed.

Theorem del_grows s k s' r : del s k = Ok (s', r) -> grows s s'.
Proof.
  intros Hd. change (grows (touch s) s'). unfold del in Hd. cbv zeta in Hd.
  revert Hd. generalize (touch s). clear s. intros s Hd.
  destruct (Store.find s k) as [[[koff prev]|]| | |]; cbn [rbind] in Hd; try discriminate Hd.
  2:{ injection Hd as <- _. apply grows_refl. }
  destruct (read_krec s koff) as [rk| | |]; cbn [rbind] in Hd; try discriminate Hd.
  destruct (read_val s (k_voff rk)) as [v0| | |]; cbn [rbind] in Hd; try discriminate Hd.
  match type of Hd with rbind ?M _ = _ => destruct M as [s1| | |] eqn:E1 end;
    cbn [rbind] in Hd; try discriminate Hd.
  assert (H1 : grows s s1).
  { clear Hd. destruct (prev =? 0).
    - injection E1 as <-. unfold grows. cbn [set_hx keyf valf hx].
      pose proof (write_head_hend (hx s) (bucket s k) (k_next rk)). lia.
    - destruct (read_krec s prev) as [pr| | |]; cbn [rbind] in E1; try discriminate E1.
      destruct (write_piece key_cfg _ (keyf s) (Some prev) _) as [[[kf poff] x]| | |] eqn:Ew;
        cbn [rbind] in E1; try discriminate E1.
      apply write_piece_fend in Ew.
      assert (Hg : grows s (set_keyf s kf)) by (unfold grows; cbn [set_keyf keyf valf hx]; lia).
      destruct (poff =? prev).
      + injection E1 as <-. exact Hg.
      + destruct (find_prev _ _ prev 0 _) as [pp| | |]; cbn [rbind] in E1; try discriminate E1.
        apply relink_grows in E1. exact (grows_trans _ _ _ Hg E1). }
  destruct (delete_piece val_cfg (valf s1) (k_voff rk)) as [vf| | |] eqn:Ed1; cbn [rbind] in Hd; try discriminate Hd.
  destruct (delete_piece key_cfg (keyf s1) koff) as [kf| | |] eqn:Ed2; cbn [rbind] in Hd; try discriminate Hd.
  apply delete_piece_fend in Ed1. apply delete_piece_fend in Ed2.
  injection Hd as <- _. unfold grows in *. cbn [keyf valf hx count_down hend]. lia.
Qed.

(** the lengths of the three byte images are the file lengths of the record-level state *)
Lemma render_lens s h k v : wf_state s -> render s = Ok (h, k, v) ->
  blen h = hend (hx s) /\ blen k = fend (keyf s) /\ blen v = fend (valf s).
Proof.
  intros ((chn & Hcore & _) & Hf & Hw) Hr.
  destruct (co_k _ _ _ Hcore) as [kfr Hki]. destruct (co_v _ _ _ Hcore) as [vfr Hvi].
  unfold render in Hr. cbv zeta in Hr.
  destruct (render_pfile key_cfg kslot_bytes (sig_of (kt s)) (keyf s)) as [kimg| | |] eqn:Hrk;
    cbn [rbind] in Hr; try discriminate Hr.
  destruct (render_pfile val_cfg vslot_bytes (sig_of (kt s)) (valf s)) as [vimg| | |] eqn:Hrv;
    cbn [rbind] in Hr; try discriminate Hr.
  injection Hr as <- <- <-.
  split; [|split].
  - apply render_htx_blen; [apply sig_of_length|]. destruct Hw as (_ & Hend & _). lia.
  - exact (proj1 (render_pfile_at key_cfg key_cfg_ok kslot_bytes (keyf s) (kslot_len_ok s Hf kfr Hki)
                    (sig_of (kt s)) kimg (ex_intro _ kfr Hki) (sig_of_length _) Hrk)).
  - exact (proj1 (render_pfile_at val_cfg val_cfg_ok vslot_bytes (valf s) (vslot_len_ok s Hf vfr Hvi)
                    (sig_of (kt s)) vimg (ex_intro _ vfr Hvi) (sig_of_length _) Hrv)).
Qed.

(** ... so an update never shortens an image *)
Lemma render_lens_mono s s' h k v h' k' v' :
  wf_state s -> wf_state s' -> grows s s' -> render s = Ok (h, k, v) -> render s' = Ok (h', k', v') ->
  blen h <= blen h' /\ blen k <= blen k' /\ blen v <= blen v'.
Proof.
  intros Hw Hw' (Hgk & Hgv & Hgh) Hr Hr'.
  destruct (render_lens s h k v Hw Hr) as (-> & -> & ->).
  destruct (render_lens s' h' k' v' Hw' Hr') as (-> & -> & ->). lia.
Qed.

(** ** 3. what a list of buffered writes does to the memory view *)

Section buf_writes.
Context {A : Type}.

Definition ins (m : gmap N A) (w : N * A) : gmap N A := <[fst w := snd w]> m.

(** the writes of [ws] that go to file [f] *)
Definition wr_file (f : fid) (ws : list (fid * N * A)) : list (N * A) :=
  omap (fun w : fid * N * A => if decide (fst (fst w) = f) then Some (snd (fst w), snd w) else None) ws.

(** every chunk of a chunk map, as writes to file [f] *)
Definition file_writes (f : fid) (m : gmap N A) : list (fid * N * A) :=
  map (fun ia : N * A => (f, fst ia, snd ia)) (map_to_list m).

Lemma dwrite_logical (d : dmap A) w f :
  logical (dfile (dwrite d w) f) = fold_left ins (wr_file f [w]) (logical (dfile d f)).
Proof. destruct w as [[f0 c] a]. destruct f0, f; reflexivity. Qed.

Lemma wr_file_app f a b : wr_file f (a ++ b) = wr_file f a ++ wr_file f b.
Proof. unfold wr_file. apply omap_app. Qed.

Lemma wr_file_cons f w ws : wr_file f (w :: ws) = wr_file f [w] ++ wr_file f ws.
Proof. exact (wr_file_app f [w] ws). Qed.

Lemma fold_dwrite_logical ws : forall (d : dmap A) f,
  logical (dfile (fold_left dwrite ws d) f) = fold_left ins (wr_file f ws) (logical (dfile d f)).
Proof.
  induction ws as [|w ws IH]; intros d f; [reflexivity|].
  cbn [fold_left]. rewrite IH, dwrite_logical, (wr_file_cons f w ws), fold_left_app. reflexivity.
Qed.

Lemma dupdate_logical (d : dmap A) ws f :
  logical (dfile (dupdate d ws) f) = fold_left ins (wr_file f ws) (logical (dfile d f)).
Proof. unfold dupdate. rewrite fold_dwrite_logical, dfile_set_flags. reflexivity. Qed.

Lemma fold_ins_notin l : forall (m : gmap N A) i, i ∉ l.*1 -> fold_left ins l m !! i = m !! i.
Proof.
  induction l as [|[j b] l IH]; intros m i Hn; [reflexivity|].
  cbn [fold_left]. cbn in Hn. apply not_elem_of_cons in Hn as [Hne Hn].
  rewrite (IH _ _ Hn). unfold ins. cbn [fst snd]. apply lookup_insert_ne. congruence.
Qed.

Lemma fold_ins_in l : forall (m : gmap N A) i a, NoDup l.*1 -> (i, a) ∈ l -> fold_left ins l m !! i = Some a.
Proof.
  induction l as [|[j b] l IH]; intros m i a Hnd Hin; [apply elem_of_nil in Hin; destruct Hin|].
  cbn in Hnd. apply NoDup_cons in Hnd as [Hj Hnd]. cbn [fold_left].
  apply elem_of_cons in Hin as [Heq | Hin].
  - injection Heq as <- <-. rewrite (fold_ins_notin _ _ _ Hj). unfold ins. cbn [fst snd]. apply lookup_insert.
  - exact (IH _ _ _ Hnd Hin).
Qed.

(** writing every chunk of [m'] over a view whose chunks all exist in [m'] gives exactly [m'] *)
Lemma fold_ins_map_to_list (m' m : gmap N A) : dom m ⊆ dom m' -> fold_left ins (map_to_list m') m = m'.
Proof.
  intros Hsub. apply map_eq. intros i. destruct (m' !! i) as [a|] eqn:E.
  - apply fold_ins_in; [apply NoDup_fst_map_to_list | apply elem_of_map_to_list; exact E].
  - rewrite fold_ins_notin.
    + apply not_elem_of_dom. intros Hi. apply Hsub in Hi. apply elem_of_dom in Hi as [x Hx]. congruence.
    + intros Hin. apply elem_of_list_fmap in Hin as ([i' a] & -> & Hin).
      apply elem_of_map_to_list in Hin. cbn [fst] in E. congruence.
Qed.

Lemma wr_file_file_writes_eq f (m : gmap N A) : wr_file f (file_writes f m) = map_to_list m.
Proof.
  unfold file_writes. induction (map_to_list m) as [|[i a] l IH]; [reflexivity|].
  cbn [map]. rewrite wr_file_cons, IH. unfold wr_file. cbn [omap list_omap fst snd app].
  destruct (decide (f = f)) as [_|Hn]; [reflexivity | contradiction].
Qed.

Lemma wr_file_file_writes_ne f g (m : gmap N A) : g <> f -> wr_file f (file_writes g m) = [].
Proof.
  intros Hne. unfold file_writes. induction (map_to_list m) as [|[i a] l IH]; [reflexivity|].
  cbn [map]. rewrite wr_file_cons, IH. unfold wr_file. cbn [omap list_omap fst snd app].
  destruct (decide (g = f)) as [He|_]; [contradiction | reflexivity].
Qed.

End buf_writes.

(** ** 4. the combined state: a store and the buffered files holding its byte images *)

Record cst := CSt { c_store : store; c_buf : dmap bytes }.

Inductive cop :=
| CPut (k v : bytes)
| CDel (k : bytes)
| CEvict (f : fid) (cs : list N)                    (* rabuf writes some chunks back, any time *)
| CFlush (o : fid -> oracle bytes)                  (* flush() with an arbitrary fault oracle *)
| CSync (all : bool) (o : fid -> oracle bytes).     (* sync_all() / sync_data() *)

Definition cop_wf (t : ktype) (op : cop) : Prop :=
  match op with
  | CPut k v => key_wf t k /\ val_wf v
  | CDel k => key_wf t k
  | _ => True
  end.
Definition cops_wf (t : ktype) (ops : list cop) : Prop := Forall (cop_wf t) ops.

(** the updates of the ideal map that a history contains *)
Definition update_of (op : cop) : option Spec.dop :=
  match op with
  | CPut k v => Some (Put k v)
  | CDel k => Some (Del k)
  | _ => None
  end.
Definition updates_of (ops : list cop) : list Spec.dop := omap update_of ops.

Definition cop_spec (m : spec) (op : cop) : spec :=
  match update_of op with Some o => fst (spec_step m o) | None => m end.

Definition is_flush (op : cop) : Prop :=
  match op with CFlush _ | CSync _ _ => True | _ => False end.

(** the three disk images, un-chunked, in [render]'s order (.htx, .key, .val) *)
Definition disk_imgs (d : dmap bytes) : bytes * bytes * bytes :=
  (unchunks (disk (fhtx d)), unchunks (disk (fkey d)), unchunks (disk (fval d))).

Lemma spec_run_fst_cons m o l : fst (spec_run m (o :: l)) = fst (spec_run (fst (spec_step m o)) l).
Proof.
  cbn [spec_run]. destruct (spec_step m o) as [m1 r]. cbn [fst].
  destruct (spec_run m1 l) as [m2 rs]. reflexivity.
Qed.

Lemma updates_of_cons m op ops :
  fst (spec_run m (updates_of (op :: ops))) = fst (spec_run (cop_spec m op) (updates_of ops)).
Proof.
  unfold updates_of, cop_spec. cbn [omap list_omap].
  destruct (update_of op) as [o|]; [apply spec_run_fst_cons | reflexivity].
Qed.

Lemma updates_of_app a b : updates_of (a ++ b) = updates_of a ++ updates_of b.
Proof. unfold updates_of. apply omap_app. Qed.

(** [wf_state] through one update (from the closed refinement theorems) *)
Lemma wf_state_put s m k v : wf_state s -> represents s m -> key_wf (kt s) k -> val_wf v ->
  exists s', put s k v = Ok s' /\ wf_state s' /\ represents s' (<[k := v]> m) /\ kt s' = kt s.
Proof.
  intros (HI & Hf & Hw) HR Hk Hv.
  destruct (put_closed s m k v HI HR Hk Hv) as (s' & Hp & HI' & HR' & Ht & _).
  exists s'. split; [exact Hp|]. split; [|split; [exact HR' | exact Ht]].
  destruct HI as (chn & Hcore & _).
  split; [exact HI'|]. split.
  - exact (fits_ok_put s k v s' (co_k _ _ _ Hcore) (co_v _ _ _ Hcore) Hf Hp).
  - exact (htx_wf_put s k v s' (co_n _ _ _ Hcore) Hw Hp).
Qed.

Lemma wf_state_del s m k : wf_state s -> represents s m -> key_wf (kt s) k ->
  exists s', del s k = Ok (s', m !! k) /\ wf_state s' /\ represents s' (delete k m) /\ kt s' = kt s.
Proof.
  intros (HI & Hf & Hw) HR Hk.
  destruct (del_closed s m k HI HR Hk) as (s' & Hd & HI' & HR' & Ht & _).
  exists s'. split; [exact Hd|]. split; [|split; [exact HR' | exact Ht]].
  destruct HI as (chn & Hcore & _).
  split; [exact HI'|]. split.
  - exact (fits_ok_del s k s' _ (co_k _ _ _ Hcore) (co_v _ _ _ Hcore) Hf Hd).
  - exact (htx_wf_del s k s' _ (co_n _ _ _ Hcore) Hw Hd).
Qed.

Lemma create_renders t n : 1 <= n -> exists imgs0, render (create t n) = Ok imgs0.
Proof. intros Hn. apply render_total. exact (proj1 (create_closed t n Hn)). Qed.

Lemma create_fits64 t n : n < 2 ^ 60 -> fits64 (create t n).
Proof.
  intros Hn. unfold fits64, create, htx_create. cbn [hx nb count hend keyf valf pf_create fend].
  assert (Hd : n / 8 <= n) by (apply N.div_le_upper_bound; lia).
  change (2 ^ 60) with 1152921504606846976 in Hn. change (2 ^ 64) with 18446744073709551616.
  repeat split; try reflexivity; try lia.
  change htx_header_size with 128. lia.
Qed.

Section durable.
(** chunk sizes of the value, key and table file buffers (4096 or 131072 in the crate) *)
Context (cv ck ch : N) (Hcv : 0 < cv) (Hck : 0 < ck) (Hch : 0 < ch).

(** [render] returns (.htx, .key, .val); [Buf.view] is (val, key, htx) *)
Definition imgs_view (imgs : bytes * bytes * bytes) : gmap N bytes * gmap N bytes * gmap N bytes :=
  let '(h, k, v) := imgs in (chunks cv v, chunks ck k, chunks ch h).

(** ALL chunks of the three images as buffered writes (writing an unchanged chunk again is harmless) *)
Definition all_writes (imgs : bytes * bytes * bytes) : list (fid * N * bytes) :=
  let '(h, k, v) := imgs in
  file_writes FVal (chunks cv v) ++ file_writes FKey (chunks ck k) ++ file_writes FHtx (chunks ch h).

(** reads through the buffers see exactly the byte images of the store *)
Definition tracks (c : cst) : Prop :=
  exists imgs, render (c_store c) = Ok imgs /\ view (c_buf c) = imgs_view imgs.

(** after an update of the store: the new images go into the buffers *)
Definition cwrite (s' : store) (d : dmap bytes) : res cst :=
  let* imgs := render s' in Ok (CSt s' (dupdate d (all_writes imgs))).

Definition cstep (c : cst) (op : cop) : res (cst * bool) :=
  match op with
  | CPut k v => let* s' := put (c_store c) k v in let* c' := cwrite s' (c_buf c) in Ok (c', true)
  | CDel k => let* (s', _) := del (c_store c) k in let* c' := cwrite s' (c_buf c) in Ok (c', true)
  | CEvict f cs => Ok (CSt (c_store c) (devict (c_buf c) f cs), true)
  | CFlush o => let '(d', ok) := dflush o (c_buf c) in Ok (CSt (c_store c) d', ok)
  | CSync all o => let '(d', ok) := dsync all o (c_buf c) in Ok (CSt (c_store c) d', ok)
  end.

(** a history; flushes and syncs in it may fail (their result is dropped here, kept in [crun_log]) *)
Fixpoint crun (c : cst) (ops : list cop) : res cst :=
  match ops with
  | [] => Ok c
  | op :: ops' => let* (c1, _) := cstep c op in crun c1 ops'
  end.

Fixpoint crun_log (c : cst) (ops : list cop) : res (cst * list bool) :=
  match ops with
  | [] => Ok (c, [])
  | op :: ops' => let* (c1, ok) := cstep c op in let* (c2, oks) := crun_log c1 ops' in Ok (c2, ok :: oks)
  end.

Lemma crun_log_crun ops : forall c c' oks, crun_log c ops = Ok (c', oks) -> crun c ops = Ok c'.
Proof.
  induction ops as [|op ops IH]; intros c c' oks H; cbn [crun_log crun] in *.
  - injection H as <- _. reflexivity.
  - destruct (cstep c op) as [[c1 ok]| | |]; cbn [rbind] in *; try discriminate H.
    destruct (crun_log c1 ops) as [[c2 oks2]| | |] eqn:E; cbn [rbind] in H; try discriminate H.
    injection H as <- _. exact (IH _ _ _ E).
Qed.

Lemma crun_app a : forall c b, crun c (a ++ b) = (let* c1 := crun c a in crun c1 b).
Proof.
  induction a as [|op a IH]; intros c b; [reflexivity|].
  cbn [app crun]. destruct (cstep c op) as [[c1 ok]| | |]; cbn [rbind]; try reflexivity. apply IH.
Qed.

(** *** the view after writing all chunks of the new images *)
Lemma view_dupdate_all_writes (d : dmap bytes) h k v :
  dom (logical (fval d)) ⊆ dom (chunks cv v) -> dom (logical (fkey d)) ⊆ dom (chunks ck k) ->
  dom (logical (fhtx d)) ⊆ dom (chunks ch h) ->
  view (dupdate d (all_writes (h, k, v))) = imgs_view (h, k, v).
Proof.
  intros Hv Hk Hh. unfold view, imgs_view, all_writes.
  set (d' := dupdate d _).
  change (logical (fval d'), logical (fkey d'), logical (fhtx d'))
    with (logical (dfile d' FVal), logical (dfile d' FKey), logical (dfile d' FHtx)).
  subst d'. rewrite !dupdate_logical, !wr_file_app, !wr_file_file_writes_eq.
  rewrite !wr_file_file_writes_ne by discriminate. rewrite !app_nil_r. cbn [app dfile].
  rewrite !fold_ins_map_to_list by assumption. reflexivity.
Qed.

(** the store moves to [s'] (no file shorter than before), the buffers get the images of [s'] *)
Lemma tracks_update c s' : wf_state (c_store c) -> wf_state s' -> grows (c_store c) s' -> tracks c ->
  exists c', cwrite s' (c_buf c) = Ok c' /\ c_store c' = s' /\ tracks c' /\ (dinv (c_buf c) -> dinv (c_buf c')).
Proof.
  intros Hw Hw' Hg (imgs & Hr & Hv).
  destruct (render_total s' (proj1 Hw')) as [imgs' Hr'].
  unfold cwrite. rewrite Hr'. cbn [rbind]. eexists. split; [reflexivity|]. cbn [c_store c_buf].
  split; [reflexivity|]. split; [|apply dupdate_dinv].
  exists imgs'. cbn [c_store c_buf]. split; [exact Hr'|].
  destruct imgs as [[h k] v], imgs' as [[h' k'] v'].
  destruct (render_lens_mono _ _ _ _ _ _ _ _ Hw Hw' Hg Hr Hr') as (Lh & Lk & Lv).
  unfold view, imgs_view in Hv. injection Hv as Ev Ek Eh.
  apply view_dupdate_all_writes; [rewrite Ev | rewrite Ek | rewrite Eh]; apply chunks_dom_mono; assumption.
Qed.

(** the invariant of the combined state *)
Definition cinv (c : cst) (m : spec) : Prop :=
  wf_state (c_store c) /\ tracks c /\ dinv (c_buf c) /\ represents (c_store c) m.

(** evictions, flushes, syncs: the store is untouched, the view is unchanged *)
Lemma cinv_same_view c m d' : cinv c m -> view d' = view (c_buf c) -> dinv d' -> cinv (CSt (c_store c) d') m.
Proof.
  intros (Hw & (imgs & Hr & Hv) & _ & HR) Hv' Hd'. unfold cinv. cbn [c_store c_buf].
  split; [exact Hw|]. split; [|split; [exact Hd' | exact HR]].
  exists imgs. cbn [c_store c_buf]. split; [exact Hr | rewrite Hv'; exact Hv].
Qed.

(** every step of a well-formed history returns Ok and keeps the invariant *)
Lemma cstep_ok c m op : cinv c m -> cop_wf (kt (c_store c)) op ->
  exists c' ok, cstep c op = Ok (c', ok) /\ cinv c' (cop_spec m op) /\ kt (c_store c') = kt (c_store c) /\
    (is_flush op -> c_store c' = c_store c /\ view (c_buf c') = view (c_buf c) /\
                    (ok = false -> dflag (c_buf c') = true)).
Proof.
  intros Hc Hop. pose proof Hc as (Hw & Ht & Hd & HR).
  destruct op as [k v|k|f cs|o|all o]; cbn [cop_wf] in Hop; unfold cop_spec; cbn [update_of spec_step fst].
  - destruct Hop as [Hk Hv]. destruct (wf_state_put _ m k v Hw HR Hk Hv) as (s' & Hp & Hw' & HR' & Hkt).
    destruct (tracks_update c s' Hw Hw' (put_grows _ _ _ _ Hp) Ht) as (c' & Hcw & Hs & Ht' & Hd').
    exists c', true. cbn [cstep]. rewrite Hp. cbn [rbind]. rewrite Hcw. cbn [rbind].
    split; [reflexivity|]. unfold cinv. rewrite Hs.
    split; [|split; [exact Hkt | intros []]]. split; [exact Hw'|]. split; [exact Ht'|]. split; [exact (Hd' Hd) | exact HR'].
  - destruct (wf_state_del _ m k Hw HR Hop) as (s' & Hp & Hw' & HR' & Hkt).
    destruct (tracks_update c s' Hw Hw' (del_grows _ _ _ _ Hp) Ht) as (c' & Hcw & Hs & Ht' & Hd').
    exists c', true. cbn [cstep]. rewrite Hp. cbn [rbind]. rewrite Hcw. cbn [rbind].
    split; [reflexivity|]. unfold cinv. rewrite Hs.
    split; [|split; [exact Hkt | intros []]]. split; [exact Hw'|]. split; [exact Ht'|]. split; [exact (Hd' Hd) | exact HR'].
  - exists (CSt (c_store c) (devict (c_buf c) f cs)), true. split; [reflexivity|].
    split; [|split; [reflexivity | intros []]].
    apply cinv_same_view; [exact Hc | apply devict_view | apply devict_dinv; exact Hd].
  - cbn [cstep]. destruct (dflush o (c_buf c)) as [d' ok] eqn:E.
    destruct (dflush_spec _ _ _ _ Hd E) as (Hv' & Hd' & _ & Hfail & _).
    exists (CSt (c_store c) d'), ok. split; [reflexivity|].
    split; [apply cinv_same_view; assumption|]. split; [reflexivity|]. intros _. cbn [c_store c_buf]. auto.
  - cbn [cstep]. destruct (dsync all o (c_buf c)) as [d' ok] eqn:E.
    destruct (dsync_spec _ _ _ _ _ Hd E) as (Hv' & Hd' & _ & Hfail & _).
    exists (CSt (c_store c) d'), ok. split; [reflexivity|].
    split; [apply cinv_same_view; assumption|]. split; [reflexivity|]. intros _. cbn [c_store c_buf]. auto.
Qed.

(** [tracks], [dinv], [wf_state] (and the refinement) are preserved by every step that returns Ok *)
Corollary cstep_preserves c m op c' ok : cinv c m -> cop_wf (kt (c_store c)) op -> cstep c op = Ok (c', ok) ->
  wf_state (c_store c') /\ tracks c' /\ dinv (c_buf c') /\ represents (c_store c') (cop_spec m op).
Proof.
  intros Hc Hop Hs. destruct (cstep_ok c m op Hc Hop) as (c1 & ok1 & Hs1 & Hc1 & _).
  rewrite Hs in Hs1. injection Hs1 as <- <-. exact Hc1.
Qed.

(** [tracks] and [dinv] alone, for ANY step that returns Ok (no condition on keys / values, no
    refinement): it is enough that the store before and after is well formed *)
Lemma tracks_same_view c d' : tracks c -> view d' = view (c_buf c) -> tracks (CSt (c_store c) d').
Proof.
  intros (imgs & Hr & Hv) Hv'. exists imgs. cbn [c_store c_buf]. split; [exact Hr | rewrite Hv'; exact Hv].
Qed.

Lemma cwrite_store s' d c' : cwrite s' d = Ok c' -> c_store c' = s'.
Proof.
  unfold cwrite. destruct (render s') as [imgs| | |]; cbn [rbind]; intros H; try discriminate H.
  injection H as <-. reflexivity.
Qed.

Lemma cstep_tracks_dinv c op c' ok :
  wf_state (c_store c) -> wf_state (c_store c') -> tracks c -> dinv (c_buf c) ->
  cstep c op = Ok (c', ok) -> tracks c' /\ dinv (c_buf c').
Proof.
  intros Hw Hw' Ht Hd Hs. destruct op as [k v|k|f cs|o|all o]; cbn [cstep] in Hs.
  - destruct (put (c_store c) k v) as [s'| | |] eqn:Hp; cbn [rbind] in Hs; try discriminate Hs.
    destruct (cwrite s' (c_buf c)) as [c1| | |] eqn:Hc; cbn [rbind] in Hs; try discriminate Hs.
    injection Hs as <- _. rewrite (cwrite_store _ _ _ Hc) in Hw'.
    destruct (tracks_update c s' Hw Hw' (put_grows _ _ _ _ Hp) Ht) as (c2 & Hc2 & _ & Ht2 & Hd2).
    rewrite Hc in Hc2. injection Hc2 as <-. auto.
  - destruct (del (c_store c) k) as [[s' r]| | |] eqn:Hp; cbn [rbind] in Hs; try discriminate Hs.
    destruct (cwrite s' (c_buf c)) as [c1| | |] eqn:Hc; cbn [rbind] in Hs; try discriminate Hs.
    injection Hs as <- _. rewrite (cwrite_store _ _ _ Hc) in Hw'.
    destruct (tracks_update c s' Hw Hw' (del_grows _ _ _ _ Hp) Ht) as (c2 & Hc2 & _ & Ht2 & Hd2).
    rewrite Hc in Hc2. injection Hc2 as <-. auto.
  - injection Hs as <- _. cbn [c_buf]. split; [apply tracks_same_view; [exact Ht | apply devict_view] | apply devict_dinv; exact Hd].
  - destruct (dflush o (c_buf c)) as [d' ok'] eqn:E. injection Hs as <- _.
    destruct (dflush_spec _ _ _ _ Hd E) as (Hv' & Hd' & _). cbn [c_buf].
    split; [apply tracks_same_view; assumption | exact Hd'].
  - destruct (dsync all o (c_buf c)) as [d' ok'] eqn:E. injection Hs as <- _.
    destruct (dsync_spec _ _ _ _ _ Hd E) as (Hv' & Hd' & _). cbn [c_buf].
    split; [apply tracks_same_view; assumption | exact Hd'].
Qed.

(** every well-formed history runs to completion (Ok) and keeps the invariant; the ideal map
    follows the updates *)
Lemma crun_ok ops : forall c m, cinv c m -> cops_wf (kt (c_store c)) ops ->
  exists c', crun c ops = Ok c' /\ cinv c' (fst (spec_run m (updates_of ops))) /\ kt (c_store c') = kt (c_store c).
Proof.
  induction ops as [|op ops IH]; intros c m Hc Hops.
  - exists c. split; [reflexivity|]. split; [exact Hc | reflexivity].
  - inversion Hops as [|? ? Hop Hops']; subst.
    destruct (cstep_ok c m op Hc Hop) as (c1 & ok & Hs & Hc1 & Hkt & _).
    destruct (IH c1 _ Hc1) as (c2 & Hr & Hc2 & Hkt2); [rewrite Hkt; exact Hops'|].
    exists c2. cbn [crun]. rewrite Hs. cbn [rbind]. split; [exact Hr|].
    rewrite updates_of_cons. split; [exact Hc2 | rewrite Hkt2; exact Hkt].
Qed.

(** the memory view tracks the store at every point of a history, whatever failed before *)
Corollary crun_tracks_everywhere c m opsa opsb c' : cinv c m -> cops_wf (kt (c_store c)) (opsa ++ opsb) ->
  crun c (opsa ++ opsb) = Ok c' ->
  exists ca, crun c opsa = Ok ca /\ tracks ca /\ dinv (c_buf ca) /\ wf_state (c_store ca) /\
    represents (c_store ca) (fst (spec_run m (updates_of opsa))) /\ crun ca opsb = Ok c'.
Proof.
  intros Hc Hops Hr. apply Forall_app in Hops as [Ha Hb].
  destruct (crun_ok opsa c m Hc Ha) as (ca & Hra & (Hw & Ht & Hd & HR) & _).
  exists ca. rewrite crun_app, Hra in Hr. cbn [rbind] in Hr. auto 10.
Qed.

(** ** 5. C03 / C16 end to end *)

(** "a copy of the directory taken now opens to exactly the current map state" *)
Definition durable_at (s : store) (m : spec) (d d2 : dmap bytes) : Prop :=
  exists imgs, render s = Ok imgs /\
    disk_imgs d2 = imgs /\
    view d2 = view d /\
    (fits64 s -> exists s'', load (kt s) imgs = Ok s'' /\ hx s'' = hx s /\ keyf s'' = keyf s /\ valf s'' = valf s) /\
    (fits64 s -> exists s'' l, load (kt s) imgs = Ok s'' /\ contents s'' = Ok l /\ l ≡ₚ map_to_list m).

Lemma durable_core c m d2 : cinv c m -> view d2 = view (c_buf c) -> on_disk d2 = view (c_buf c) ->
  durable_at (c_store c) m (c_buf c) d2.
Proof.
  intros (Hw & (imgs & Hr & Hv) & Hd & HR) Hv2 Hod. exists imgs. split; [exact Hr|]. split; [|split; [exact Hv2|split]].
  - rewrite Hv in Hod. destruct imgs as [[h k] v]. unfold on_disk, imgs_view in Hod.
    injection Hod as E1 E2 E3. unfold disk_imgs. rewrite E1, E2, E3.
    rewrite (unchunks_chunks ch h Hch), (unchunks_chunks ck k Hck), (unchunks_chunks cv v Hcv). reflexivity.
  - intros H64. destruct (load_render_closed _ imgs Hw H64 Hr) as (s'' & Hl & _ & H1 & H2 & H3).
    exists s''. auto.
  - intros H64. exact (load_contents_closed _ m imgs Hw H64 HR Hr).
Qed.

Lemma durable_after_flush c m (o : fid -> oracle bytes) d2 : cinv c m -> dflush o (c_buf c) = (d2, true) ->
  durable_at (c_store c) m (c_buf c) d2.
Proof.
  intros Hc E. pose proof Hc as (_ & _ & Hd & _).
  destruct (dflush_spec _ _ _ _ Hd E) as (Hv & _ & Hok & _). destruct (Hok eq_refl) as [Hod _].
  apply durable_core; assumption.
Qed.

Lemma durable_after_sync c m all (o : fid -> oracle bytes) d2 : cinv c m -> dsync all o (c_buf c) = (d2, true) ->
  durable_at (c_store c) m (c_buf c) d2.
Proof.
  intros Hc E. pose proof Hc as (_ & _ & Hd & _).
  destruct (dsync_spec _ _ _ _ _ Hd E) as (Hv & _ & Hok & _). destruct (Hok eq_refl) as [Hod _].
  apply durable_core; assumption.
Qed.

(** C03 (flush): after ANY history of updates, evictions, flushes and syncs - some of which may have
    FAILED half-way, leaving garbage - a flush that reports success has put exactly the byte images
    of the current store on disk; a copy of those files loads to the current record-level state and
    to the contents of the ideal map after the updates of the history. *)
Theorem C03_flush_makes_current_state_durable c ops c' (o : fid -> oracle bytes) d2 m :
  wf_state (c_store c) -> tracks c -> dinv (c_buf c) -> represents (c_store c) m -> cops_wf (kt (c_store c)) ops ->
  crun c ops = Ok c' ->
  dflush o (c_buf c') = (d2, true) ->
  exists imgs, render (c_store c') = Ok imgs /\
    disk_imgs d2 = imgs /\
    view d2 = view (c_buf c') /\
    (fits64 (c_store c') -> exists s'', load (kt (c_store c')) imgs = Ok s'' /\
        hx s'' = hx (c_store c') /\ keyf s'' = keyf (c_store c') /\ valf s'' = valf (c_store c')) /\
    (fits64 (c_store c') -> exists s'' l, load (kt (c_store c')) imgs = Ok s'' /\ contents s'' = Ok l /\
        l ≡ₚ map_to_list (fst (spec_run m (updates_of ops)))).
Proof.
  intros Hw Ht Hd HR Hops Hrun Hfl.
  destruct (crun_ok ops c m (conj Hw (conj Ht (conj Hd HR))) Hops) as (c1 & Hr1 & Hc1 & _).
  rewrite Hrun in Hr1. injection Hr1 as <-.
  exact (durable_after_flush c' _ o d2 Hc1 Hfl).
Qed.

(** C03 (sync_all / sync_data) *)
Theorem C03_sync_makes_current_state_durable c ops c' all (o : fid -> oracle bytes) d2 m :
  wf_state (c_store c) -> tracks c -> dinv (c_buf c) -> represents (c_store c) m -> cops_wf (kt (c_store c)) ops ->
  crun c ops = Ok c' ->
  dsync all o (c_buf c') = (d2, true) ->
  exists imgs, render (c_store c') = Ok imgs /\
    disk_imgs d2 = imgs /\
    view d2 = view (c_buf c') /\
    (fits64 (c_store c') -> exists s'', load (kt (c_store c')) imgs = Ok s'' /\
        hx s'' = hx (c_store c') /\ keyf s'' = keyf (c_store c') /\ valf s'' = valf (c_store c')) /\
    (fits64 (c_store c') -> exists s'' l, load (kt (c_store c')) imgs = Ok s'' /\ contents s'' = Ok l /\
        l ≡ₚ map_to_list (fst (spec_run m (updates_of ops)))).
Proof.
  intros Hw Ht Hd HR Hops Hrun Hfl.
  destruct (crun_ok ops c m (conj Hw (conj Ht (conj Hd HR))) Hops) as (c1 & Hr1 & Hc1 & _).
  rewrite Hrun in Hr1. injection Hr1 as <-.
  exact (durable_after_sync c' _ all o d2 Hc1 Hfl).
Qed.

(** *** a freshly created map: the three headers are written into the buffers, nothing is on disk *)
Definition created (t : ktype) (n : N) (imgs0 : bytes * bytes * bytes) : cst :=
  CSt (create t n) (dupdate (dopen bfile_empty bfile_empty bfile_empty) (all_writes imgs0)).

Lemma created_cinv t n imgs0 : 1 <= n -> render (create t n) = Ok imgs0 -> cinv (created t n imgs0) ∅.
Proof.
  intros Hn Hr. unfold cinv, created. cbn [c_store c_buf].
  split; [exact (wf_state_create t n Hn)|]. split; [|split].
  - exists imgs0. cbn [c_store c_buf]. split; [exact Hr|]. destruct imgs0 as [[h k] v].
    apply view_dupdate_all_writes; cbn [dopen fval fkey fhtx bfile_empty logical];
      rewrite dom_empty_L; apply empty_subseteq.
  - apply dupdate_dinv, dinv_dopen_empty.
  - exact (proj2 (create_closed t n Hn)).
Qed.

(** C03, created-only: after the first successful flush the disk images are [render (create t n)],
    which load to the created state: an empty map *)
Theorem C03_created_only t n imgs0 (o : fid -> oracle bytes) d2 :
  1 <= n -> render (create t n) = Ok imgs0 ->
  dflush o (c_buf (created t n imgs0)) = (d2, true) ->
  disk_imgs d2 = imgs0 /\
  view d2 = imgs_view imgs0 /\
  (fits64 (create t n) -> exists s'', load t imgs0 = Ok s'' /\
      hx s'' = hx (create t n) /\ keyf s'' = keyf (create t n) /\ valf s'' = valf (create t n) /\
      contents s'' = Ok []).
Proof.
  intros Hn Hr Hfl. pose proof (created_cinv t n imgs0 Hn Hr) as Hc.
  destruct (durable_after_flush _ _ o d2 Hc Hfl) as (imgs & Hr' & Hdi & Hv & Hld & Hct).
  cbn [created c_store] in Hr', Hld, Hct. rewrite Hr in Hr'. injection Hr' as <-.
  split; [exact Hdi|]. split.
  - rewrite Hv. destruct Hc as (_ & (imgs1 & Hr1 & Hv1) & _). cbn [created c_store] in Hr1.
    rewrite Hr in Hr1. injection Hr1 as <-. exact Hv1.
  - intros H64. destruct (Hld H64) as (s1 & Hl1 & H1 & H2 & H3).
    destruct (Hct H64) as (s2 & l & Hl2 & Hc2 & Hp). cbn [create kt] in Hl1, Hl2.
    rewrite Hl1 in Hl2. injection Hl2 as <-.
    unfold spec in Hp. rewrite map_to_list_empty in Hp. symmetry in Hp. apply Permutation_nil in Hp. subst l.
    exists s1. auto 10.
Qed.

(** C16: a flush or sync FAILED in the middle of a history (arbitrary oracle, arbitrary garbage left
    on disk).  Nothing is lost: the store is untouched, the memory view is unchanged and still
    tracks the store - there and at every later point -, the flag stays raised; and a later flush
    (or sync) that reports success makes every update of the whole history durable. *)
Theorem C16_failed_flush_then_recovery c ops1 fop ops2 c1 c1' c' (o : fid -> oracle bytes) d2 m :
  wf_state (c_store c) -> tracks c -> dinv (c_buf c) -> represents (c_store c) m ->
  cops_wf (kt (c_store c)) (ops1 ++ fop :: ops2) ->
  crun c ops1 = Ok c1 ->
  is_flush fop -> cstep c1 fop = Ok (c1', false) ->          (* the failed flush / sync *)
  crun c1' ops2 = Ok c' ->
  (dflush o (c_buf c') = (d2, true) \/ exists all, dsync all o (c_buf c') = (d2, true)) ->
  (tracks c1 /\ tracks c1' /\ c_store c1' = c_store c1 /\ view (c_buf c1') = view (c_buf c1) /\
   dflag (c_buf c1') = true /\ represents (c_store c1') (fst (spec_run m (updates_of ops1)))) /\
  (forall opsa opsb, ops2 = opsa ++ opsb -> exists ca, crun c1' opsa = Ok ca /\ tracks ca) /\
  crun c (ops1 ++ fop :: ops2) = Ok c' /\
  durable_at (c_store c') (fst (spec_run m (updates_of (ops1 ++ fop :: ops2)))) (c_buf c') d2.
Proof.
  intros Hw Ht Hd HR Hops Hr1 Hfop Hstep Hr2 Hfl.
  pose proof (conj Hw (conj Ht (conj Hd HR)) : cinv c m) as Hc.
  apply Forall_app in Hops as [Ho1 Ho2]. inversion Ho2 as [|? ? Hof Ho3]; subst.
  destruct (crun_ok ops1 c m Hc Ho1) as (x1 & Hx1 & Hc1 & Hkt1).
  rewrite Hr1 in Hx1. injection Hx1 as <-.
  rewrite <- Hkt1 in Hof, Ho3.
  destruct (cstep_ok c1 _ fop Hc1 Hof) as (x2 & ok & Hx2 & Hc2 & Hkt2 & Hfl2).
  rewrite Hstep in Hx2. injection Hx2 as <- <-.
  destruct (Hfl2 Hfop) as (Hst & Hvw & Hflag).
  assert (Hm2 : cop_spec (fst (spec_run m (updates_of ops1))) fop = fst (spec_run m (updates_of ops1))).
  { unfold cop_spec. destruct fop; cbn in Hfop; try contradiction; reflexivity. }
  rewrite Hm2 in Hc2. rewrite <- Hkt2 in Ho3.
  destruct (crun_ok ops2 c1' _ Hc2 Ho3) as (x3 & Hx3 & Hc3 & _).
  rewrite Hr2 in Hx3. injection Hx3 as <-.
  assert (Hm3 : fst (spec_run m (updates_of (ops1 ++ fop :: ops2)))
                = fst (spec_run (fst (spec_run m (updates_of ops1))) (updates_of ops2))).
  { clear -Hm2. revert m Hm2. induction ops1 as [|op ops1 IH]; intros m Hm2.
    - cbn [app]. rewrite updates_of_cons. cbn [updates_of omap list_omap spec_run fst] in *. rewrite Hm2. reflexivity.
    - cbn [app]. rewrite !updates_of_cons. apply IH. rewrite updates_of_cons in Hm2. exact Hm2. }
  split; [|split; [|split]].
  - destruct Hc1 as (_ & Ht1 & _). destruct Hc2 as (_ & Ht2 & _ & HR2). auto 10.
  - intros opsa opsb ->. apply Forall_app in Ho3 as [Hoa _].
    destruct (crun_ok opsa c1' _ Hc2 Hoa) as (ca & Hra & (_ & Hta & _) & _). exists ca. auto.
  - rewrite crun_app, Hr1. cbn [rbind crun]. rewrite Hstep. cbn [rbind]. exact Hr2.
  - rewrite Hm3. destruct Hfl as [Hfl | [all Hfl]].
    + exact (durable_after_flush c' _ o d2 Hc3 Hfl).
    + exact (durable_after_sync c' _ all o d2 Hc3 Hfl).
Qed.

End durable.

(** ** 6. non-vacuity: a computed history with a failed flush in the middle
    (chunk sizes 16 / 16 / 32 for the value / key / table file) *)
Section example.

(** (maps are compared through lookups, lists and booleans only: [vm_compute] does not normalise
    the well-formedness proofs inside a [gmap]) *)
Lemma res_ok_get {A} (r : res A) (d : A) : is_ok r = true -> r = Ok (match r with Ok a => a | _ => d end).
Proof. destruct r; intros H; try discriminate H. reflexivity. Qed.

Lemma Ok_inj {A} (a b : A) : Ok a = Ok b -> a = b.
Proof. intros H. injection H as ->. reflexivity. Qed.

Lemma pair_get {A} (p : A * bool) b : snd p = b -> p = (fst p, b).
Proof. destruct p. cbn. intros ->. reflexivity. Qed.

Definition ex_imgs0 : bytes * bytes * bytes :=
  match render (create KBytes 2) with Ok i => i | _ => ([], [], []) end.

(** a created map: headers in the buffers, nothing on disk *)
Definition ex_c0 : cst := created 16 16 32 KBytes 2 ex_imgs0.

(** the OS refuses chunk 12 of the key file (the chunk the first new key record goes to) and
    leaves four bytes of garbage there *)
Definition ex_bad (f : fid) : oracle bytes :=
  match f with
  | FKey => Oracle (fun c => c =? 12) (fun _ => Some [222; 173; 190; 239])
  | _ => no_faults
  end.

Definition ex_ops : list cop := [CPut [1; 2; 3] [10; 20; 30; 40]; CPut [4; 5] [50; 60]; CFlush ex_bad].

Definition ex_c1 : cst := match crun 16 16 32 ex_c0 ex_ops with Ok c => c | _ => ex_c0 end.
Definition ex_imgs1 : bytes * bytes * bytes :=
  match render (c_store ex_c1) with Ok i => i | _ => ([], [], []) end.
Definition ex_d2 : dmap bytes := fst (dflush (fun _ => no_faults) (c_buf ex_c1)).

Example ex_render0 : render (create KBytes 2) = Ok ex_imgs0.
Proof. apply res_ok_get. vm_compute. reflexivity. Qed.

Example ex_run : crun 16 16 32 ex_c0 ex_ops = Ok ex_c1.
Proof. apply res_ok_get. vm_compute. reflexivity. Qed.

(** the two puts succeed, the flush FAILS *)
Example ex_log : (let* r := crun_log 16 16 32 ex_c0 ex_ops in Ok (snd r)) = Ok [true; true; false].
Proof. vm_compute. reflexivity. Qed.

Example ex_render1 : render (c_store ex_c1) = Ok ex_imgs1.
Proof. apply res_ok_get. vm_compute. reflexivity. Qed.

(** after the failed flush: the value file got through, the key file holds garbage in chunk 12
    (and lacks chunk 13), the table file was not even tried; the disk does NOT hold the images of
    the store and the flag is still raised *)
Example ex_after_failure :
  disk (fkey (c_buf ex_c1)) !! 12 = Some [222; 173; 190; 239] /\
  logical (fkey (c_buf ex_c1)) !! 12 = Some [2; 3; 1; 2; 3; 24; 0; 0; 0; 0; 0; 0; 0; 0; 0; 0] /\
  elements (dirtyset (fkey (c_buf ex_c1))) = [13; 12] /\
  map_to_list (disk (fhtx (c_buf ex_c1))) = [] /\
  disk_imgs (c_buf ex_c1) <> ex_imgs1 /\
  dflag (c_buf ex_c1) = true.
Proof.
  split; [vm_compute; reflexivity|]. split; [vm_compute; reflexivity|]. split; [vm_compute; reflexivity|].
  split; [vm_compute; reflexivity|]. split; [|vm_compute; reflexivity].
  intros H. apply (f_equal (fun i => blen i.1.1)) in H. vm_compute in H. discriminate H.
Qed.

(** the second flush succeeds ... *)
Example ex_flush2 : dflush (fun _ => no_faults) (c_buf ex_c1) = (ex_d2, true).
Proof.
  assert (H : snd (dflush (fun _ => no_faults) (c_buf ex_c1)) = true) by (vm_compute; reflexivity).
  exact (pair_get (dflush (fun _ => no_faults) (c_buf ex_c1)) true H).
Qed.

(** ... and the un-chunked disk images are [render] of the final store (by computation) *)
Example ex_recovered : disk_imgs ex_d2 = ex_imgs1.
Proof. vm_compute. reflexivity. Qed.

(** the hypotheses of the theorems hold for this history *)
Local Ltac wf_bytes := repeat (apply List.Forall_cons; [vm_compute; reflexivity|]); apply List.Forall_nil.
Local Ltac wf_key := split; [wf_bytes | split; [vm_compute; reflexivity | intros HK; discriminate HK]].
Local Ltac wf_val := split; [wf_bytes | vm_compute; reflexivity].

Example ex_ops_wf : cops_wf KBytes ex_ops.
Proof.
  unfold ex_ops, cops_wf.
  apply List.Forall_cons; [|apply List.Forall_cons; [|apply List.Forall_cons; [exact I | apply List.Forall_nil]]].
  - cbn [cop_wf]. unfold key_wf, val_wf, bytes_ok. split; [wf_key | wf_val].
  - cbn [cop_wf]. unfold key_wf, val_wf, bytes_ok. split; [wf_key | wf_val].
Qed.

Example ex_c0_cinv : cinv 16 16 32 ex_c0 ∅.
Proof.
  assert (Hn : 1 <= 2) by lia.
  exact (created_cinv 16 16 32 KBytes 2 ex_imgs0 Hn ex_render0).
Qed.

(** ... so reads still see the images of the store after the failed flush (from [crun_ok], not by
    computation) *)
Example ex_still_tracks : tracks 16 16 32 ex_c1 /\ view (c_buf ex_c1) = imgs_view 16 16 32 ex_imgs1.
Proof.
  destruct (crun_ok 16 16 32 eq_refl eq_refl eq_refl ex_ops ex_c0 ∅ ex_c0_cinv ex_ops_wf)
    as (c1 & Hr & (_ & Ht & _) & _).
  rewrite ex_run in Hr. apply Ok_inj in Hr. subst c1. split; [exact Ht|].
  destruct Ht as (imgs & Hr & Hv). rewrite ex_render1 in Hr. apply Ok_inj in Hr. subst imgs. exact Hv.
Qed.

(** the disk images after the second flush are the images of the store and open to the two
    entries: from the theorem *)
Example ex_by_theorem :
  disk_imgs ex_d2 = ex_imgs1 /\
  exists s'' l, load KBytes ex_imgs1 = Ok s'' /\ contents s'' = Ok l /\
    l ≡ₚ map_to_list (<[[4; 5] := [50; 60]]> (<[[1; 2; 3] := [10; 20; 30; 40]]> (∅ : spec))).
Proof.
  destruct ex_c0_cinv as (Hw & Ht & Hd & HR).
  destruct (C03_flush_makes_current_state_durable 16 16 32 eq_refl eq_refl eq_refl ex_c0 ex_ops ex_c1
              (fun _ => no_faults) ex_d2 ∅ Hw Ht Hd HR ex_ops_wf ex_run ex_flush2)
    as (imgs & Hr & Hdi & _ & _ & Hct).
  rewrite ex_render1 in Hr. apply Ok_inj in Hr. subst imgs. split; [exact Hdi|].
  assert (H64 : fits64 (c_store ex_c1)).
  { unfold fits64. split; [vm_compute; reflexivity|]. split; [vm_compute; reflexivity|].
    split; [vm_compute; reflexivity|]. split; vm_compute; reflexivity. }
  destruct (Hct H64) as (s'' & l & Hl & Hc & Hp). exists s'', l.
  split; [exact Hl|]. split; [exact Hc|].
  unfold ex_ops, updates_of in Hp. cbn [omap list_omap update_of spec_run spec_step fst] in Hp. exact Hp.
Qed.

End example.

Print Assumptions unchunks_chunks.
Print Assumptions put_grows.
Print Assumptions del_grows.
Print Assumptions cstep_ok.
Print Assumptions C03_flush_makes_current_state_durable.
Print Assumptions C03_sync_makes_current_state_durable.
Print Assumptions C03_created_only.
Print Assumptions C16_failed_flush_then_recovery.
Print Assumptions ex_by_theorem.
