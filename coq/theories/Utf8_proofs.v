(** * Utf8_proofs: [lossy] (the model of [String::from_utf8_lossy]) against an independent
    specification of well-formed UTF-8 (Unicode standard, Table 3-7) and the scalar value encoder. *)
From Coq Require Import Lia ZifyBool ZifyN ZifyNat.
From Aby Require Import Base Utf8.

Local Ltac Zify.zify_post_hook ::= Z.div_mod_to_equations.
Local Arguments N.add : simpl never.
Local Arguments N.sub : simpl never.
Local Arguments N.mul : simpl never.
Local Arguments N.div : simpl never.
Local Arguments N.modulo : simpl never.

(** ** 1. Well-formed UTF-8, Table 3-7 *)

Inductive wf_utf8 : bytes -> Prop :=
| wf_nil : wf_utf8 []
| wf_one b r : b < 128 -> wf_utf8 r -> wf_utf8 (b :: r)
| wf_two b0 b1 r : 194 <= b0 <= 223 -> 128 <= b1 <= 191 -> wf_utf8 r -> wf_utf8 (b0 :: b1 :: r)
| wf_three b0 b1 b2 r :
    (b0 = 224 /\ 160 <= b1 <= 191) \/ (225 <= b0 <= 236 /\ 128 <= b1 <= 191) \/
    (b0 = 237 /\ 128 <= b1 <= 159) \/ (238 <= b0 <= 239 /\ 128 <= b1 <= 191) ->
    128 <= b2 <= 191 -> wf_utf8 r -> wf_utf8 (b0 :: b1 :: b2 :: r)
| wf_four b0 b1 b2 b3 r :
    (b0 = 240 /\ 144 <= b1 <= 191) \/ (241 <= b0 <= 243 /\ 128 <= b1 <= 191) \/ (b0 = 244 /\ 128 <= b1 <= 143) ->
    128 <= b2 <= 191 -> 128 <= b3 <= 191 -> wf_utf8 r -> wf_utf8 (b0 :: b1 :: b2 :: b3 :: r).

(** ** 2. The encoder *)

Definition scalar (c : N) : Prop := c < 55296 \/ (57344 <= c /\ c < 1114112).
Definition encode_char (c : N) : bytes :=
  if c <? 128 then [c]
  else if c <? 2048 then [192 + c / 64; 128 + c mod 64]
  else if c <? 65536 then [224 + c / 4096; 128 + (c / 64) mod 64; 128 + c mod 64]
  else [240 + c / 262144; 128 + (c / 4096) mod 64; 128 + (c / 64) mod 64; 128 + c mod 64].
Definition encode (s : list N) : bytes := concat (map encode_char s).

(** ** Auxiliary: one well-formed sequence (one row of Table 3-7) *)

Definition sec3 (b0 b1 : N) : Prop :=
  (b0 = 224 /\ 160 <= b1 <= 191) \/ (225 <= b0 <= 236 /\ 128 <= b1 <= 191) \/
  (b0 = 237 /\ 128 <= b1 <= 159) \/ (238 <= b0 <= 239 /\ 128 <= b1 <= 191).
Definition sec4 (b0 b1 : N) : Prop :=
  (b0 = 240 /\ 144 <= b1 <= 191) \/ (241 <= b0 <= 243 /\ 128 <= b1 <= 191) \/ (b0 = 244 /\ 128 <= b1 <= 143).

Inductive wf_char : bytes -> Prop :=
| wc1 b : b < 128 -> wf_char [b]
| wc2 b0 b1 : 194 <= b0 <= 223 -> 128 <= b1 <= 191 -> wf_char [b0; b1]
| wc3 b0 b1 b2 : sec3 b0 b1 -> 128 <= b2 <= 191 -> wf_char [b0; b1; b2]
| wc4 b0 b1 b2 b3 : sec4 b0 b1 -> 128 <= b2 <= 191 -> 128 <= b3 <= 191 -> wf_char [b0; b1; b2; b3].

Lemma wf_char_app p r : wf_char p -> wf_utf8 r -> wf_utf8 (p ++ r).
Proof.
  intros Hp Hr. destruct Hp; cbn [app].
  - apply wf_one; assumption.
  - apply wf_two; assumption.
  - apply wf_three; assumption.
  - apply wf_four; assumption.
Qed.

Lemma wf_char_len p : wf_char p -> (1 <= length p <= 4)%nat.
Proof. destruct 1; cbn [length]; lia. Qed.

Lemma wf_repl : wf_char repl.
Proof. unfold repl. apply wc3; unfold sec3; lia. Qed.

(** ** Boolean tests of the model *)

Lemma cont_true b : cont b = true <-> 128 <= b <= 191.
Proof. unfold cont. lia. Qed.

Lemma in_range_true lo hi b : in_range lo hi b = true <-> lo <= b <= hi.
Proof. unfold in_range. lia. Qed.

Lemma in_range_false lo hi b : in_range lo hi b = false <-> ~ (lo <= b <= hi).
Proof. unfold in_range. lia. Qed.

Lemma second_ok_sec3 b0 b1 : 224 <= b0 <= 239 -> (second_ok b0 b1 = true <-> sec3 b0 b1).
Proof.
  intros H. unfold second_ok, sec3, in_range, cont.
  destruct (b0 =? 224) eqn:E1; [lia|].
  destruct (b0 =? 237) eqn:E2; [lia|].
  destruct (b0 =? 240) eqn:E3; [lia|].
  destruct (b0 =? 244) eqn:E4; [lia|].
  lia.
Qed.

Lemma second_ok_sec4 b0 b1 : 240 <= b0 <= 244 -> (second_ok b0 b1 = true <-> sec4 b0 b1).
Proof.
  intros H. unfold second_ok, sec4, in_range, cont.
  destruct (b0 =? 224) eqn:E1; [lia|].
  destruct (b0 =? 237) eqn:E2; [lia|].
  destruct (b0 =? 240) eqn:E3; [lia|].
  destruct (b0 =? 244) eqn:E4; [lia|].
  lia.
Qed.

(** ** [chunk] on a well-formed sequence followed by anything *)

Lemma chunk_char p r : wf_char p -> chunk (p ++ r) = (p, length p).
Proof.
  destruct 1 as [b Hb | b0 b1 H0 H1 | b0 b1 b2 H01 H2 | b0 b1 b2 b3 H01 H2 H3]; cbn [app chunk length].
  - assert (b <? 128 = true) as -> by lia. reflexivity.
  - assert (b0 <? 128 = false) as -> by lia.
    assert (in_range 194 223 b0 = true) as -> by (apply in_range_true; lia).
    assert (cont b1 = true) as -> by (apply cont_true; lia).
    reflexivity.
  - assert (224 <= b0 <= 239) as Hr by (unfold sec3 in H01; lia).
    assert (b0 <? 128 = false) as -> by lia.
    assert (in_range 194 223 b0 = false) as -> by (apply in_range_false; lia).
    assert (in_range 224 239 b0 = true) as -> by (apply in_range_true; lia).
    assert (second_ok b0 b1 = true) as -> by (apply second_ok_sec3; assumption).
    assert (cont b2 = true) as -> by (apply cont_true; lia).
    reflexivity.
  - assert (240 <= b0 <= 244) as Hr by (unfold sec4 in H01; lia).
    assert (b0 <? 128 = false) as -> by lia.
    assert (in_range 194 223 b0 = false) as -> by (apply in_range_false; lia).
    assert (in_range 224 239 b0 = false) as -> by (apply in_range_false; lia).
    assert (in_range 240 244 b0 = true) as -> by (apply in_range_true; lia).
    assert (second_ok b0 b1 = true) as -> by (apply second_ok_sec4; assumption).
    assert (cont b2 = true) as -> by (apply cont_true; lia).
    assert (cont b3 = true) as -> by (apply cont_true; lia).
    reflexivity.
Qed.

(** ** [chunk] in general: a well-formed sequence copied, or one replacement for 1..3 bytes *)

Definition chunk_ok (bs o : bytes) (n : nat) : Prop :=
  (wf_char o /\ n = length o /\ take n bs = o) \/
  (o = repl /\ (1 <= n <= 3)%nat /\ (n <= length bs)%nat).

Local Ltac leaf_repl := right; cbn [fst snd length]; split; [reflexivity | lia].

Lemma chunk_spec b0 r : chunk_ok (b0 :: r) (chunk (b0 :: r)).1 (chunk (b0 :: r)).2.
Proof.
  unfold chunk_ok. cbn [chunk].
  destruct (b0 <? 128) eqn:E1.
  { left. cbn [fst snd]. split; [apply wc1; lia | split; reflexivity]. }
  destruct (in_range 194 223 b0) eqn:E2.
  { apply in_range_true in E2.
    destruct r as [|b1 r1]; [leaf_repl|].
    destruct (cont b1) eqn:C1; [|leaf_repl].
    apply cont_true in C1.
    left. cbn [fst snd]. split; [apply wc2; lia | split; reflexivity]. }
  destruct (in_range 224 239 b0) eqn:E3.
  { apply in_range_true in E3.
    destruct r as [|b1 r1]; [leaf_repl|].
    destruct (second_ok b0 b1) eqn:S1; [|leaf_repl].
    apply second_ok_sec3 in S1; [|assumption].
    destruct r1 as [|b2 r2]; [leaf_repl|].
    destruct (cont b2) eqn:C2; [|leaf_repl].
    apply cont_true in C2.
    left. cbn [fst snd]. split; [apply wc3; [assumption | lia] | split; reflexivity]. }
  destruct (in_range 240 244 b0) eqn:E4.
  { apply in_range_true in E4.
    destruct r as [|b1 r1]; [leaf_repl|].
    destruct (second_ok b0 b1) eqn:S1; [|leaf_repl].
    apply second_ok_sec4 in S1; [|assumption].
    destruct r1 as [|b2 r2]; [leaf_repl|].
    destruct (cont b2) eqn:C2; [|leaf_repl].
    apply cont_true in C2.
    destruct r2 as [|b3 r3]; [leaf_repl|].
    destruct (cont b3) eqn:C3; [|leaf_repl].
    apply cont_true in C3.
    left. cbn [fst snd]. split; [apply wc4; [assumption | lia | lia] | split; reflexivity]. }
  leaf_repl.
Qed.

Lemma chunk_pos b0 r : (1 <= (chunk (b0 :: r)).2 <= length (b0 :: r))%nat.
Proof.
  destruct (chunk_spec b0 r) as [(Hw & Hn & Ht) | (_ & Hn & Hl)]; [|lia].
  apply wf_char_len in Hw.
  apply (f_equal (@length N)) in Ht. rewrite take_length in Ht. lia.
Qed.

(** ** Fuel *)

Lemma lossy_go_fuel f1 : forall f2 bs,
  (length bs <= f1)%nat -> (length bs <= f2)%nat -> lossy_go f1 bs = lossy_go f2 bs.
Proof.
  induction f1 as [|f1 IH]; intros f2 bs H1 H2.
  - destruct bs; [|cbn [length] in H1; lia]. destruct f2; reflexivity.
  - destruct bs as [|b r]; [destruct f2; reflexivity|].
    destruct f2 as [|f2]; [cbn [length] in H2; lia|].
    cbn [lossy_go].
    pose proof (chunk_pos b r) as Hp.
    destruct (chunk (b :: r)) as [o n]. cbn [snd] in Hp.
    f_equal. cbn [length] in *.
    apply IH; rewrite drop_length; cbn [length]; lia.
Qed.

Lemma lossy_go_enough fuel bs :
  (length bs <= fuel)%nat -> lossy_go fuel bs = lossy_go (length bs) bs.
Proof. intros H. apply lossy_go_fuel; lia. Qed.

Lemma lossy_nil : lossy [] = [].
Proof. reflexivity. Qed.

Lemma lossy_unfold b r :
  lossy (b :: r) = (chunk (b :: r)).1 ++ lossy (drop (chunk (b :: r)).2 (b :: r)).
Proof.
  unfold lossy at 1. cbn [length lossy_go].
  pose proof (chunk_pos b r) as Hp.
  destruct (chunk (b :: r)) as [o n]. cbn [fst snd] in *.
  f_equal. unfold lossy. apply lossy_go_fuel; [|lia].
  rewrite drop_length. cbn [length] in *. lia.
Qed.

Lemma lossy_char_app p r : wf_char p -> lossy (p ++ r) = p ++ lossy r.
Proof.
  intros Hp.
  pose proof (chunk_char p r Hp) as Hc.
  destruct p as [|b p']; [apply wf_char_len in Hp; cbn [length] in Hp; lia|].
  change ((b :: p') ++ r) with (b :: (p' ++ r)) in *.
  rewrite lossy_unfold, Hc. cbn [fst snd].
  change (b :: (p' ++ r)) with ((b :: p') ++ r).
  rewrite drop_app. reflexivity.
Qed.

(** ** 3. Theorems *)

Theorem lossy_app_valid : forall a b, wf_utf8 a -> lossy (a ++ b) = a ++ lossy b.
Proof.
  intros a b Ha. induction Ha as [| b0 r H0 Hr IH | b0 b1 r H0 H1 Hr IH
                                  | b0 b1 b2 r H01 H2 Hr IH | b0 b1 b2 b3 r H01 H2 H3 Hr IH].
  - reflexivity.
  - change (lossy ([b0] ++ (r ++ b)) = [b0] ++ (r ++ lossy b)).
    rewrite lossy_char_app by (apply wc1; assumption). rewrite IH. reflexivity.
  - change (lossy ([b0; b1] ++ (r ++ b)) = [b0; b1] ++ (r ++ lossy b)).
    rewrite lossy_char_app by (apply wc2; assumption). rewrite IH. reflexivity.
  - change (lossy ([b0; b1; b2] ++ (r ++ b)) = [b0; b1; b2] ++ (r ++ lossy b)).
    rewrite lossy_char_app by (apply wc3; assumption). rewrite IH. reflexivity.
  - change (lossy ([b0; b1; b2; b3] ++ (r ++ b)) = [b0; b1; b2; b3] ++ (r ++ lossy b)).
    rewrite lossy_char_app by (apply wc4; assumption). rewrite IH. reflexivity.
Qed.

Theorem lossy_valid_identity : forall bs, wf_utf8 bs -> lossy bs = bs.
Proof.
  intros bs H. rewrite <- (app_nil_r bs) at 1.
  rewrite lossy_app_valid by assumption. rewrite lossy_nil. apply app_nil_r.
Qed.

Lemma lossy_wf_len n : forall bs, (length bs <= n)%nat -> wf_utf8 (lossy bs).
Proof.
  induction n as [|n IH]; intros bs Hl.
  - destruct bs; [apply wf_nil | cbn [length] in Hl; lia].
  - destruct bs as [|b r]; [apply wf_nil|].
    rewrite lossy_unfold.
    pose proof (chunk_pos b r) as Hp.
    assert (wf_char (chunk (b :: r)).1) as Hw.
    { destruct (chunk_spec b r) as [(Hw & _) | (-> & _)]; [assumption | apply wf_repl]. }
    apply wf_char_app; [assumption|].
    apply IH. rewrite drop_length. cbn [length] in *. lia.
Qed.

Theorem lossy_well_formed : forall bs, wf_utf8 (lossy bs).
Proof. intros bs. apply (lossy_wf_len (length bs)). lia. Qed.

Theorem lossy_idempotent : forall bs, lossy (lossy bs) = lossy bs.
Proof. intros bs. apply lossy_valid_identity, lossy_well_formed. Qed.

Lemma encode_char_wf c : scalar c -> wf_char (encode_char c).
Proof.
  unfold scalar, encode_char. intros H.
  destruct (c <? 128) eqn:E1; [apply wc1; lia|].
  destruct (c <? 2048) eqn:E2; [apply wc2; lia|].
  destruct (c <? 65536) eqn:E3.
  - apply wc3; [unfold sec3|]; lia.
  - apply wc4; [unfold sec4| |]; lia.
Qed.

Theorem encode_well_formed : forall s, Forall scalar s -> wf_utf8 (encode s).
Proof.
  intros s H. unfold encode. induction H as [|c s Hc Hs IH]; cbn [map concat].
  - apply wf_nil.
  - apply wf_char_app; [apply encode_char_wf; assumption | exact IH].
Qed.

Theorem string_round_trip : forall s, Forall scalar s -> lossy (encode s) = encode s.
Proof. intros s H. apply lossy_valid_identity, encode_well_formed, H. Qed.

Theorem encode_char_inj : forall c d, scalar c -> scalar d -> encode_char c = encode_char d -> c = d.
Proof.
  intros c d Hc Hd. unfold scalar, encode_char in *.
  destruct (c <? 128) eqn:C1; [|destruct (c <? 2048) eqn:C2; [|destruct (c <? 65536) eqn:C3]];
  (destruct (d <? 128) eqn:D1; [|destruct (d <? 2048) eqn:D2; [|destruct (d <? 65536) eqn:D3]]);
  intros E; try discriminate E; injection E; intros; lia.
Qed.

Theorem lossy_length : forall bs, (length (lossy bs) <= 3 * length bs)%nat.
Proof.
  intros bs. remember (length bs) as n eqn:Hn.
  assert (length bs <= n)%nat as Hl by lia.
  assert (forall m bs, (length bs <= m)%nat -> (length (lossy bs) <= 3 * length bs)%nat) as G.
  { clear. induction m as [|m IH]; intros bs Hl.
    - destruct bs; [cbn; lia | cbn [length] in Hl; lia].
    - destruct bs as [|b r]; [cbn; lia|].
      rewrite lossy_unfold, app_length.
      pose proof (chunk_pos b r) as Hp.
      assert (length (chunk (b :: r)).1 <= 3 * (chunk (b :: r)).2)%nat as Ho.
      { destruct (chunk_spec b r) as [(_ & -> & _) | (-> & ? & _)]; [lia | cbn [repl length]; lia]. }
      specialize (IH (drop (chunk (b :: r)).2 (b :: r))).
      rewrite drop_length in IH. cbn [length] in *. lia. }
  subst n. apply (G (length bs)). lia.
Qed.

(** ** 4. Non-vacuity *)

Example wf_example : wf_utf8 [104; 195; 169; 226; 130; 172; 240; 159; 152; 128].
Proof.
  apply wf_one; [lia|].
  apply wf_two; [lia | lia |].
  apply wf_three; [lia | lia |].
  apply wf_four; [lia | lia | lia |].
  apply wf_nil.
Qed.

Example encode_example :
  encode [104; 233; 8364; 128512] = [104; 195; 169; 226; 130; 172; 240; 159; 152; 128].
Proof. vm_compute. reflexivity. Qed.

Example scalar_example : Forall scalar [104; 233; 8364; 128512].
Proof. repeat constructor; unfold scalar; lia. Qed.

Example lossy_valid_example :
  lossy [104; 195; 169; 226; 130; 172; 240; 159; 152; 128] = [104; 195; 169; 226; 130; 172; 240; 159; 152; 128].
Proof. vm_compute. reflexivity. Qed.

(** ill-formed inputs are not well formed (the specification is not trivially true) and are changed *)
Example not_wf_surrogate : ~ wf_utf8 [237; 160; 128].
Proof.
  intros H. inversion H as [| ? ? H0 | ? ? ? H0 | ? ? ? ? H01 | ? ? ? ? ? H01]; subst; lia.
Qed.

Example not_wf_overlong : ~ wf_utf8 [192; 128].
Proof.
  intros H. inversion H as [| ? ? H0 | ? ? ? H0 | |]; subst; lia.
Qed.

Example not_wf_big : ~ wf_utf8 [300].
Proof. intros H. inversion H; subst; lia. Qed.

Example lossy_big_example : lossy [300; 65; 1000] = [239; 191; 189; 65; 239; 191; 189].
Proof. vm_compute. reflexivity. Qed.

Example lossy_length_tight : length (lossy [255; 255]) = (3 * 2)%nat.
Proof. vm_compute. reflexivity. Qed.

(** ** 5. Assumptions *)

Print Assumptions lossy_valid_identity.
Print Assumptions lossy_well_formed.
Print Assumptions lossy_idempotent.
Print Assumptions encode_well_formed.
Print Assumptions string_round_trip.
Print Assumptions encode_char_inj.
Print Assumptions lossy_length.
Print Assumptions lossy_app_valid.
