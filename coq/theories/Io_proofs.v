(** * Io_proofs: the byte-level I/O model [Io] refines the record-level model.

    The development is split over Io_base.v (toolkit, field level), Io_htx.v (table file),
    Io_pieces.v (free lists and record writers on piece-file images), Io_reads.v / Io_reads2.v
    (readers, read-only operations) and Io_updates.v (put / delete); this file collects the main
    statements, each closed by [exact <lemma>], and prints their assumptions.

    Reading guide.  [view s f] are the bytes of file [f] from its position on; [appended s s' evs]
    says which events a step logged; [ro_step s s'] (Io_htx.v): all three byte strings and chunk
    sizes are unchanged and every logged event is a read or a seek to a position inside the file -
    no write, no set_len, no seek beyond the end.  [holds sig h s]: the table file of [s] is
    [render_htx sig h]; [hold c sb sig fid s f]: file [fid] of [s] is [render_pfile c sb sig f];
    [htx_step] / [frame]: only the table file / only file [fid] was touched. *)
From Coq Require Import Lia ZifyN ZifyNat ZifyBool.
From Aby Require Import Base Vu64 Vu64_proofs Hash KeyTypes Consts Sizing Alloc AllocInv Htx Htx_proofs Store Iter Stats
  Layout Load Load_proofs Load_htx_proofs Load_all Cache Cache_proofs Io.
From Aby Require Import Spec Refine Refine_all.
From Aby Require Export Io_base Io_htx Io_pieces Io_reads Io_reads2 Io_updates Io_run Io_create.
Import Io.

#[local] Open Scope N_scope.

(** ** a. field level *)

Theorem Io_a_write_all_is_one_splice f (d : bytes) s :
  0 < fcs (get_file s f) -> fp (get_file s f) <= fend (get_file s f) ->
  exists s' evs, write_all_bytes f d s = Ok s' /\
    upd_file s s' f (splice (fb (get_file s f)) (fp (get_file s f)) d) (fp (get_file s f) + blen d) /\
    appended s s' evs /\ Forall (is_write_on f) evs.
Proof. exact (write_all_bytes_spec f d s). Qed.

Theorem Io_a_read_vu64 f s v rest : v < 2 ^ 64 ->
  view s f = encode v ++ rest ->
  exists s' evs, read_vu64 f s = Ok (v, s') /\
    upd_file s s' f (fb (get_file s f)) (fp (get_file s f) + enc_len v) /\
    view s' f = rest /\ appended s s' evs /\ Forall (is_read_on f) evs.
Proof. exact (read_vu64_view f s v rest). Qed.

Theorem Io_a_u64_round_trip f off v s : v < 2 ^ 64 -> off <= fend (get_file s f) ->
  exists s1 s2,
    (let* (_, a) := seek_from_start f off s in write_u64 f v a) = Ok s1 /\
    (let* (_, b) := seek_from_start f off s1 in read_u64 f b) = Ok (v, s2) /\
    fb (get_file s2 f) = splice (fb (get_file s f)) off (le_bytes 8 v).
Proof. exact (write_read_u64 f off v s). Qed.

Theorem Io_a_vu64_round_trip f off v s : v < 2 ^ 64 -> off <= fend (get_file s f) -> 0 < fcs (get_file s f) ->
  exists s1 s2,
    (let* (_, a) := seek_from_start f off s in write_vu64 f v a) = Ok s1 /\
    (let* (_, b) := seek_from_start f off s1 in read_vu64 f b) = Ok (v, s2) /\
    fb (get_file s2 f) = splice (fb (get_file s f)) off (encode v) /\
    fp (get_file s2 f) = off + enc_len v.
Proof. exact (write_read_vu64 f off v s). Qed.

(** ** b. the table file on [render_htx sig h] *)
Section table.
Context (sig2 : bytes) (h : htx).
Hypothesis Hsig : length sig2 = 8%nat.
Hypothesis Hwf : htx_wf h.
Hypothesis Hheads : forall i, head_at h i < 2 ^ 64.
Hypothesis Hnb : nb h < 2 ^ 64.
Hypothesis Hcnt : count h < 2 ^ 64.

Theorem Io_b_read_bucket s i : holds sig2 h s -> i < nb h ->
  exists s', read_key_piece_offset i s = Ok (head_at h i, s') /\ ro_step s s'.
Proof. intros. eapply read_key_piece_offset_render; eassumption. Qed.

Theorem Io_b_write_bucket s i off : holds sig2 h s -> i < nb h -> off < 2 ^ 64 ->
  exists s', write_key_piece_offset (nb h) i off s = Ok s' /\
    htx_step s s' (render_htx sig2 (write_head h i off)).
Proof. intros. eapply write_key_piece_offset_render; eassumption. Qed.

(** the C15 / C18 seeded bug as a theorem: the bitmap scan returns what [Htx.next_nonempty]
    returns, never seeks beyond the end of the file, writes nothing *)
Theorem Io_b_scan s idx j off : holds sig2 h s -> idx < nb h ->
  next_nonempty h (nb h) idx = Ok (j, off) ->
  exists s', next_key_piece_offset (nb h) idx s = Ok (j, off, s') /\ ro_step s s'.
Proof. intros. eapply next_key_piece_offset_refines; eassumption. Qed.

Theorem Io_b_scan_total s idx : bitmap_ok h -> holds sig2 h s -> idx < nb h ->
  exists j off s', next_nonempty h (nb h) idx = Ok (j, off) /\
    next_key_piece_offset (nb h) idx s = Ok (j, off, s') /\ ro_step s s'.
Proof. intros. eapply next_key_piece_offset_total; eassumption. Qed.

Theorem Io_b_read_count s : holds sig2 h s ->
  exists s', read_item_count s = Ok (count h, s') /\ ro_step s s'.
Proof. intros. eapply read_item_count_render; eassumption. Qed.

Theorem Io_b_count_up s : count h + 1 < 2 ^ 64 -> holds sig2 h s ->
  exists s', write_item_count_up s = Ok s' /\ htx_step s s' (render_htx sig2 (count_up h)).
Proof. intros. eapply write_item_count_up_render; eassumption. Qed.

Theorem Io_b_count_down s : holds sig2 h s ->
  exists s', write_item_count_down s = Ok s' /\ htx_step s s' (render_htx sig2 (count_down h)).
Proof. intros. eapply write_item_count_down_render; eassumption. Qed.
End table.

Print Assumptions Io_a_write_all_is_one_splice.
Print Assumptions Io_a_read_vu64.
Print Assumptions Io_a_u64_round_trip.
Print Assumptions Io_a_vu64_round_trip.
Print Assumptions Io_b_read_bucket.
Print Assumptions Io_b_write_bucket.
Print Assumptions Io_b_scan.
Print Assumptions Io_b_scan_total.
Print Assumptions Io_b_read_count.
Print Assumptions Io_b_count_up.
Print Assumptions Io_b_count_down.

(** ** c. piece files on [render_pfile] images: free lists and record writers = [Alloc] *)
Section pieces.
Context (sig2 : bytes) (Hsig : length sig2 = 8%nat).

(** free-list push / pop on the image (any piece file: [c], [sb] with the two shape facts) *)
Theorem Io_c_push_free {P} c (Hc : Sizing.cfg_ok c) (sb : slot P -> bytes) fid
  (Hfree : forall sz nxt, sb (Free sz nxt) = slot_bytes sz (free_body nxt))
  (Hused : forall sz p, exists bd, sb (Used sz p) = slot_bytes sz bd) f s off sz old f' :
  good c sb f -> hold c sb sig2 fid s f -> 0 < fcs (get_file s fid) -> slots f !! off = Some old -> slot_size old = sz ->
  Alloc.push_free c f off sz = Ok f' ->
  exists s', push_free c fid off sz s = Ok s' /\ hold c sb sig2 fid s' f' /\ frame fid s s' /\ good c sb f'.
Proof. exact (push_free_image c Hc sb sig2 Hsig fid Hfree Hused f s off sz old f'). Qed.

Theorem Io_c_pop_free {P} c (Hc : Sizing.cfg_ok c) (sb : slot P -> bytes) fid
  (Hfree : forall sz nxt, sb (Free sz nxt) = slot_bytes sz (free_body nxt))
  (Hused : forall sz p, exists bd, sb (Used sz p) = slot_bytes sz bd) f s nsz f' off sz :
  good c sb f -> hold c sb sig2 fid s f -> 0 < fcs (get_file s fid) -> Alloc.pop_free c f nsz = Ok (f', off, sz) ->
  exists s', pop_free c fid nsz s = Ok (off, s') /\ hold c sb sig2 fid s' f' /\ frame fid s s' /\ good c sb f' /\
    (off <> 0 -> slots f' !! off = Some (Free sz 0)) /\ Alloc.fend f' = Alloc.fend f.
Proof. exact (pop_free_image c Hc sb sig2 Hsig fid Hfree Hused f s nsz f' off sz). Qed.

(** record write / delete: value file and key file *)
Theorem Io_c_val_write_piece f frees s v old f' off sz :
  alloc_inv val_cfg f frees -> lens vslot_bytes f ->
  hold val_cfg vslot_bytes sig2 FVal s f -> 0 < fcs (get_file s FVal) ->
  Alloc.fend f + roundup val_cfg (val_need (blen v)) < 2 ^ 64 ->
  (forall o, old = Some o -> exists osz v0, slots f !! o = Some (Used osz v0)) ->
  Alloc.write_piece val_cfg (val_need (blen v)) f old v = Ok (f', off, sz) ->
  exists s', val_write_piece v old s = Ok (off, sz, s') /\
    hold val_cfg vslot_bytes sig2 FVal s' f' /\ frame FVal s s' /\ good val_cfg vslot_bytes f'.
Proof. exact (val_write_piece_image sig2 Hsig f frees s v old f' off sz). Qed.

Theorem Io_c_key_write_piece f frees s k voff noff old f' off sz :
  voff mod 8 = 0 -> noff mod 8 = 0 ->
  alloc_inv key_cfg f frees -> lens kslot_bytes f -> hold key_cfg kslot_bytes sig2 FKey s f -> 0 < fcs (get_file s FKey) ->
  Alloc.fend f + roundup key_cfg (key_need (blen k) voff noff) < 2 ^ 64 ->
  (forall o, old = Some o -> exists osz r0, slots f !! o = Some (Used osz r0)) ->
  Alloc.write_piece key_cfg (key_need (blen k) voff noff) f old (KRec k voff noff) = Ok (f', off, sz) ->
  exists s', key_write_piece k voff noff old s = Ok (off, sz, s') /\
    hold key_cfg kslot_bytes sig2 FKey s' f' /\ frame FKey s s' /\ good key_cfg kslot_bytes f'.
Proof. exact (key_write_piece_image sig2 Hsig f frees s k voff noff old f' off sz). Qed.

Theorem Io_c_val_delete_piece f s o f' :
  good val_cfg vslot_bytes f -> hold val_cfg vslot_bytes sig2 FVal s f -> 0 < fcs (get_file s FVal) ->
  Alloc.delete_piece val_cfg f o = Ok f' ->
  exists s', delete_piece val_cfg FVal o s = Ok s' /\
    hold val_cfg vslot_bytes sig2 FVal s' f' /\ frame FVal s s' /\ good val_cfg vslot_bytes f'.
Proof. exact (val_delete_piece_image sig2 Hsig f s o f'). Qed.

Theorem Io_c_key_delete_piece f s o f' :
  good key_cfg kslot_bytes f -> hold key_cfg kslot_bytes sig2 FKey s f -> 0 < fcs (get_file s FKey) ->
  Alloc.delete_piece key_cfg f o = Ok f' ->
  exists s', delete_piece key_cfg FKey o s = Ok s' /\
    hold key_cfg kslot_bytes sig2 FKey s' f' /\ frame FKey s s' /\ good key_cfg kslot_bytes f'.
Proof. exact (key_delete_piece_image sig2 Hsig f s o f'). Qed.
End pieces.

(** ** d. operations: the read-only ones (byte-level C15) *)
Section readonly.
Context (s : store) (himg kimg vimg : bytes) (m : mp).
Hypothesis Hwf : wf_state s.
Hypothesis H64 : fits64 s.
Hypothesis Hr : render s = Ok (himg, kimg, vimg).
Hypothesis Hkt : m_kt m = kt s.
Hypothesis Hn : m_n m = nb (hx s).
Hypothesis Him : Io.images m = (himg, kimg, vimg).

Theorem Io_d_get key r : Store.get s key = Ok r ->
  exists m', Io.get m key = Ok (r, m') /\ ro_step (m_st m) (m_st m') /\ Io.images m' = Io.images m.
Proof. exact (get_refines_wf s himg kimg vimg m Hwf H64 Hr Hkt Hn Him key r). Qed.

Theorem Io_d_has key r : Store.has s key = Ok r ->
  exists m', Io.has m key = Ok (r, m') /\ ro_step (m_st m) (m_st m') /\ Io.images m' = Io.images m.
Proof. exact (has_refines_wf s himg kimg vimg m Hwf H64 Hr Hkt Hn Him key r). Qed.

Theorem Io_d_len :
  exists m', Io.len m = Ok (Store.len s, m') /\ ro_step (m_st m) (m_st m') /\ Io.images m' = Io.images m.
Proof. exact (len_refines_wf s himg kimg vimg m Hwf H64 Hr Him). Qed.

Theorem Io_d_iter_run items h ex : Iter.iter_run s = Ok (items, h, ex) ->
  exists m', Io.iter_run m = Ok (items, h, ex, m') /\ ro_step (m_st m) (m_st m') /\ Io.images m' = Io.images m.
Proof.
  intros H. destruct Hwf as (HI & Hf & Hw).
  edestruct (iter_run_refines s himg kimg vimg HI Hf Hw H64 Hr m) as (m' & A & B & C & _); eauto.
Qed.

Theorem Io_d_stats r : Stats.stats_of s = Ok r ->
  exists m', Io.stats_of m = Ok (r, m') /\ ro_step (m_st m) (m_st m') /\ Io.images m' = Io.images m.
Proof.
  intros H. destruct Hwf as (HI & Hf & Hw).
  edestruct (stats_of_refines s himg kimg vimg HI Hf Hw H64 Hr m) as (m' & A & B & C & _); eauto.
Qed.
End readonly.

(** without any invariant: a read-only call never logs a write, a set_len or a flush, and can
    change a file only by appending zeros (a seek beyond the end) *)
Theorem Io_d_readonly_calls_only_look m :
  (forall k r m', Io.get m k = Ok (r, m') -> looks (m_st m) (m_st m')) /\
  (forall k r m', Io.has m k = Ok (r, m') -> looks (m_st m) (m_st m')) /\
  (forall r m', Io.len m = Ok (r, m') -> looks (m_st m) (m_st m')) /\
  (forall r m', Io.iter_run m = Ok (r, m') -> looks (m_st m) (m_st m')) /\
  (forall r m', Io.stats_of m = Ok (r, m') -> looks (m_st m) (m_st m')).
Proof.
  split; [intros k r m' H; exact (proj1 (get_looks m k r m' H))|].
  split; [intros k r m' H; exact (proj1 (has_looks m k r m' H))|].
  split; [intros r m' H; exact (proj1 (len_looks m r m' H))|].
  split; [intros r m' H; exact (proj1 (iter_run_looks m r m' H))|].
  intros r m' H; exact (proj1 (stats_of_looks m r m' H)).
Qed.

Print Assumptions Io_c_push_free.
Print Assumptions Io_c_pop_free.
Print Assumptions Io_c_val_write_piece.
Print Assumptions Io_c_key_write_piece.
Print Assumptions Io_c_val_delete_piece.
Print Assumptions Io_c_key_delete_piece.
Print Assumptions Io_d_get.
Print Assumptions Io_d_has.
Print Assumptions Io_d_len.
Print Assumptions Io_d_iter_run.
Print Assumptions Io_d_stats.
Print Assumptions Io_d_readonly_calls_only_look.

(** ** d. operations: the updates *)
Theorem Io_d_put s m himg kimg vimg key v s' :
  wf_state s -> fits64 s -> render s = Ok (himg, kimg, vimg) ->
  m_kt m = kt s -> m_n m = nb (hx s) -> Io.images m = (himg, kimg, vimg) ->
  0 < fcs (get_file (m_st m) FKey) -> 0 < fcs (get_file (m_st m) FVal) ->
  room s -> blen key < 2 ^ 31 -> blen v < 2 ^ 31 ->
  Store.put s key v = Ok s' ->
  exists m' imgs', Io.put m key v = Ok m' /\ render s' = Ok imgs' /\ Io.images m' = imgs' /\
    m_kt m' = m_kt m /\ m_n m' = m_n m /\
    0 < fcs (get_file (m_st m') FKey) /\ 0 < fcs (get_file (m_st m') FVal).
Proof. exact (put_refines s m himg kimg vimg key v s'). Qed.

Theorem Io_d_del s m himg kimg vimg key s' r :
  wf_state s -> fits64 s -> render s = Ok (himg, kimg, vimg) ->
  m_kt m = kt s -> m_n m = nb (hx s) -> Io.images m = (himg, kimg, vimg) ->
  0 < fcs (get_file (m_st m) FKey) -> 0 < fcs (get_file (m_st m) FVal) ->
  room s ->
  Store.del s key = Ok (s', r) ->
  exists m' imgs', Io.del m key = Ok (r, m') /\ render s' = Ok imgs' /\ Io.images m' = imgs' /\
    m_kt m' = m_kt m /\ m_n m' = m_n m /\
    0 < fcs (get_file (m_st m') FKey) /\ 0 < fcs (get_file (m_st m') FVal).
Proof. exact (del_refines s m himg kimg vimg key s' r). Qed.

(** ** histories: results = the ideal map's, files = [render] of the record-level state *)
Theorem Io_histories ops s sp m s' outs :
  wf_state s -> represents s sp -> simg s m -> Forall (op_wf (kt s)) ops -> sized s ops ->
  store_run s ops = Ok (s', outs) ->
  exists m', io_run m ops = Ok (m', outs) /\ simg s' m' /\ wf_state s' /\
    represents s' (fst (spec_run sp ops)) /\ outs = snd (spec_run sp ops).
Proof. exact (io_run_refines ops s sp m s' outs). Qed.

Print Assumptions Io_d_put.
Print Assumptions Io_d_del.
Print Assumptions Io_histories.

(** ** creation, and histories from a freshly created map *)
Theorem Io_create t n bk bv bh : 1 <= n ->
  exists m, Io.create t n bk bv bh = Ok m /\ render (Store.create t n) = Ok (Io.images m) /\
    m_kt m = t /\ m_n m = n /\ (forall f, 0 < fcs (get_file (m_st m) f)).
Proof. exact (create_refines t n bk bv bh). Qed.

(** END TO END: create the three files byte by byte, run any history of well-formed calls through
    the byte-level model: every call returns what the IDEAL MAP returns, and the three files are
    the [render] of the record-level state (which has the invariant and represents the ideal map);
    [sized]: the file sizes stay inside the 64-bit headroom along the history. *)
Theorem Io_history_from_create t n bk bv bh ops : 1 <= n -> Forall (op_wf t) ops ->
  sized (Store.create t n) ops ->
  exists m0 m' s',
    Io.create t n bk bv bh = Ok m0 /\
    store_run (Store.create t n) ops = Ok (s', snd (spec_run ∅ ops)) /\
    io_run m0 ops = Ok (m', snd (spec_run ∅ ops)) /\
    render s' = Ok (Io.images m') /\ wf_state s' /\ represents s' (fst (spec_run ∅ ops)).
Proof.
  intros Hn Hops Hsz.
  destruct (create_refines t n bk bv bh Hn) as (m0 & Hc & Hr & Hkt & Hmn & Hcs).
  destruct (run_from_create t n ops Hn Hops) as (s' & Hrun & _ & _).
  destruct (create_closed t n Hn) as [_ HR0].
  assert (Hsim : simg (Store.create t n) m0).
  { unfold simg. split; [exact Hr|]. split; [exact Hkt|]. split; [exact Hmn|]. split; apply Hcs. }
  destruct (io_run_refines ops (Store.create t n) ∅ m0 s' _ (wf_state_create t n Hn) HR0 Hsim Hops Hsz Hrun)
    as (m' & Hio & (Hr' & _) & Hwf' & HR' & _).
  exists m0, m', s'. auto 10.
Qed.

(** non-vacuity: a concrete history satisfies the hypotheses ([sizedb] decides [sized]) *)
Definition ex_ops : list dop :=
  [Put [1; 2] [3; 4; 5]; Put [7] [8]; Get [1; 2]; Del [1; 2]; Len; Put [7] (repeat 9 100%nat); Has [7]].
Example Io_history_example :
  exists m0 m' s',
    Io.create KBytes 4 BufAuto BufAuto BufSized = Ok m0 /\
    store_run (Store.create KBytes 4) ex_ops = Ok (s', snd (spec_run ∅ ex_ops)) /\
    io_run m0 ex_ops = Ok (m', snd (spec_run ∅ ex_ops)) /\
    render s' = Ok (Io.images m') /\ wf_state s' /\ represents s' (fst (spec_run ∅ ex_ops)).
Proof.
  apply Io_history_from_create.
  - lia.
  - repeat constructor; cbn; try lia; try discriminate.
  - apply sizedb_ok. vm_compute. reflexivity.
Qed.

Print Assumptions Io_create.
Print Assumptions Io_history_from_create.
