(** * Cache_fault: rabuf::BufFile (model [Cache]) in front of a disk whose writes can FAIL.

    The cause of failure is a file-size limit (RLIMIT_FSIZE, SIGXFSZ ignored): with the limit [L]
    - [write(fd, buf)] at file offset [off >= L] fails with EFBIG; at [off < L] it accepts at most
      [L - off] bytes (a short count).  [write_all] therefore leaves the bytes below [L] written
      and returns the error of its next [write];  [write_all] of an EMPTY buffer makes no system
      call and succeeds wherever the offset is;
    - [File::set_len(n)] (ftruncate) that GROWS the file beyond [L] fails with EFBIG and changes
      nothing (the kernel tests the limit only when the new size exceeds the current one);
    - reads, seeks and sync never fail.

    Section 1-2 (module [RabufF]): the faulty disk and, function by function, what rabuf 0.1.20
    does when a disk request fails (line numbers of [rabuf-0.1.20/src/lib.rs]):
    - [Chunk::write] (928-966): [self.dirty = false] is executed only in the [Ok] arm of
      [file.write_all(buf)] (956-959): a chunk whose write fails STAYS DIRTY; the prefix of it
      that the OS accepted is on the disk;
    - [flush] (1621-1636): [chunk.write(self.end, &mut self.file)?] in ascending offset order: it
      stops at the first failing chunk, the chunks after it are not tried and stay dirty;
    - [clear] (1264-1291): [self.flush()?] is the first statement: when the flush fails nothing
      is dropped ([fetch_cache] is not even reset): no chunk is dropped while dirty;
    - [remove_chunks] (1473-1478): [self.clear()?], then [setup_auto_buf_size];
    - [add_chunk] (1396-1417): [setup_auto_buf_size] (when full) and [self.fetch_cache = None]
      come BEFORE [self.remove_chunks()?]: a failed eviction leaves the maximum possibly raised
      and the fetch cache empty, nothing else; [fetch_chunk_0_] (1384) returns with [?] before it
      sets [fetch_cache];
    - [read]/[write] (1535, 1576): [self.fetch_chunk(curr)?] comes first: a failed call has not
      touched chunk data, [pos] or [end];  [read_exact]/[write_all] (std default loops) stop at
      the first failing [read]/[write]: the pieces before it HAVE been applied;
    - [set_len] (113-143): [self.end = size] (136) and the clamp of [pos] (137-139) come BEFORE
      [self.file.set_len(size)?] (140): a failed [set_len] leaves [end] MOVED although the file
      was not extended.  [seek] beyond the end (167-171): [self.set_len(new_pos)?] returns before
      [self.pos = new_pos]: [end] moved, [pos] not.  This is the one place where a failed call
      leaves an inconsistent state ([grow_failed_state], [ex_failed_seek_breaks_recovery],
      [set_len_repairs]);
    - [sync_all/sync_data] (188-198): [self.flush()?] then the OS request;
    - [Drop] (1654-1655): [let _ = self.flush();]: the error is swallowed; what is in chunks that
      are still dirty is lost with the object ([close_f]).

    An I/O error that the real code RETURNS because of the limit is [FErr c] with the state [c]
    the call left (the caller may go on using the object); [FStop] is what [res] already had
    (panic, out of fuel, and [IoErr] = UnexpectedEof of [Chunk::new] / WriteZero, after which the
    model has no state, as in Cache.v).

    Sections 3-10: proofs.
    - 3: [flush_f_none] ... [cstep_f_none]: without a limit the functions are those of Cache.v;
    - 4: [data_invg]/[cache_invg] = the invariant without the cover clause; [cache_invf] (=
      [cache_invx]: failed write-backs need no weakening); [chunk_write_f_spec], [flush_f_spec];
    - 5: [flush_f_view_intact], [flush_f_ok_durable], [flush_f_recovery] (and [_g] variants);
    - 6-7: eviction and every public call under the limit ([fout]: value, or failure state);
    - 8: [cstep_f_view]: a call inside the domain of [xstep] returns what [xstep] returns, or
      fails leaving [failed_state] (nothing changed; or the applied prefix of a
      [write_all]/[read_exact]; or the [end] moved by a failed growing [set_len]);
    - 9: [run_f_recovery]: any history of calls under changing limits, then a flush without
      limit: the disk is the logical file; [ftraj_succeeded]; [set_len_repairs];
    - 10: examples by [vm_compute], among them the defect [ex_failed_seek_breaks_recovery]. *)
From Aby Require Import Base Cache Cache_proofs Flatx Cache_x.
From Coq Require Import Lia ZifyN ZifyNat ZifyBool.

#[local] Open Scope N_scope.

Module RabufF.

(** ** 1. the faulty disk *)

(** [file.seek(off); file.write_all(data)] under the limit: new disk, success *)
Definition disk_write_lim (lim : option N) (d : bytes) (off : N) (data : bytes) : bytes * bool :=
  match lim with
  | None => (disk_write d off data, true)
  | Some L =>
    if (blen data =? 0) || (off + blen data <=? L) then (disk_write d off data, true)
    else (disk_write d off (take (N.to_nat (L - off)) data), false)
  end.

(** how many of [len] bytes at [off] the OS accepts (for the request log only) *)
Definition accepted (lim : option N) (off len : N) : N :=
  match lim with
  | None => len
  | Some L => if (len =? 0) || (off + len <=? L) then len else L - off
  end.

(** [file.set_len(n)] under the limit *)
Definition disk_set_len_lim (lim : option N) (d : bytes) (n : N) : bytes * bool :=
  match lim with
  | None => (resize d n, true)
  | Some L => if (n <=? L) || (n <=? blen d) then (resize d n, true) else (d, false)
  end.

(** ** 2. rabuf in front of it *)

Inductive stop := SPanic (t : tag) | SIoErr | SOutOfFuel.

(** [FErr c]: the call returned [Err] (EFBIG) and left the state [c] *)
Inductive fres (A : Type) :=
| FOk (a : A)
| FErr (c : cache)
| FStop (s : stop).
Arguments FOk {A} a.
Arguments FErr {A} c.
Arguments FStop {A} s.

Definition of_res {A} (r : res A) : fres A :=
  match r with
  | Ok a => FOk a
  | Panic t => FStop (SPanic t)
  | IoErr => FStop SIoErr
  | OutOfFuel => FStop SOutOfFuel
  end.

Definition fbind {A B} (m : fres A) (k : A -> fres B) : fres B :=
  match m with
  | FOk a => k a
  | FErr c => FErr c
  | FStop s => FStop s
  end.

Notation "'let+' x := m 'in' k" := (fbind m (fun x => k))
  (at level 200, x pattern, m at level 100, k at level 200, right associativity).

(** [Chunk::write] of chunk number [i] *)
Definition chunk_write_f (lim : option N) (c : cache) (i : nat) : fres cache :=
  match k_chunks c !! i with
  | None => FStop (SPanic Corrupt)
  | Some ch =>
    if negb (c_dirty ch) then FOk c
    else if k_end c <? c_off ch then FOk c
    else
      let n := N.min (blen (c_data ch)) (k_end c - c_off ch) in
      let d := take (N.to_nat n) (c_data ch) in
      let k := accepted lim (c_off ch) n in
      let evs := if k =? 0 then k_events c else EvWrite (c_off ch) k :: k_events c in
      let '(disk', ok) := disk_write_lim lim (k_disk c) (c_off ch) d in
      if ok then
        FOk (set_chunks (set_disk c disk' evs) (<[i := Chunk (c_off ch) (c_data ch) false]> (k_chunks c)))
      else
        FErr (set_disk c disk' evs)                 (* the chunk stays dirty *)
  end.

(** [flush]: stops at the first chunk that fails *)
Fixpoint flush_list_f (lim : option N) (idxs : list nat) (c : cache) : fres cache :=
  match idxs with
  | [] => FOk c
  | i :: rest => let+ c1 := chunk_write_f lim c i in flush_list_f lim rest c1
  end.

Definition flush_f (lim : option N) (c : cache) : fres cache :=
  flush_list_f lim (flush_order (k_chunks c)) c.

(** [clear]: nothing is dropped when the flush fails *)
Definition clear_f (lim : option N) (c : cache) : fres cache :=
  let+ c1 := flush_f lim c in
  let kept := match find_idx 0 (k_chunks c1) with
              | Some i => match k_chunks c1 !! i with Some ch => [ch] | None => [] end
              | None => []
              end in
  FOk (set_chunks (set_fc c1 None) kept).

Definition remove_chunks_f (lim : option N) (c : cache) : fres cache :=
  let+ c1 := clear_f lim c in FOk (setup_auto c1).

(** [add_chunk]: the maximum is recomputed and [fetch_cache] reset before the eviction is tried *)
Fixpoint add_chunk_f (lim : option N) (fuel : nat) (c : cache) (off : N) : fres (cache * nat) :=
  match fuel with
  | O => FStop SOutOfFuel
  | S f =>
    let c1 := if nchunks c =? k_max c then setup_auto c else c in
    let c2 := set_fc c1 None in
    if nchunks c2 <? k_max c2 then
      let+ ch := of_res (chunk_new c2 off) in
      FOk (set_chunks c2 (k_chunks c2 ++ [ch]), length (k_chunks c2))
    else
      let+ c3 := remove_chunks_f lim c2 in
      add_chunk_f lim f c3 off
  end.

Definition fetch_chunk_f (lim : option N) (fuel : nat) (c : cache) (p : N) : fres (cache * nat) :=
  let off := chunk_off (k_cs c) p in
  let slow :=
    match find_idx off (k_chunks c) with
    | Some i => FOk (set_fc c (Some (off, i)), i)
    | None => let+ (c1, i) := add_chunk_f lim fuel c off in FOk (set_fc c1 (Some (off, i)), i)
    end in
  match k_fc c with
  | Some (o, i) => if o =? off then FOk (c, i) else slow
  | None => slow
  end.

(** [FileSetLen::set_len]: [end] and [pos] are updated before the file is asked *)
Definition set_len_f (lim : option N) (c : cache) (size : N) : fres cache :=
  let c1 := set_end c size in
  let c2 := if size <? k_pos c1 then set_pos c1 size else c1 in
  let '(d, ok) := disk_set_len_lim lim (k_disk c2) size in
  if ok then FOk (set_disk c2 d (EvSetLen size :: k_events c2)) else FErr c2.

(** [Seek::seek]: [pos] is assigned after the [set_len] *)
Definition seek_f (lim : option N) (c : cache) (sf : seekfrom) : fres (cache * N) :=
  let+ np := of_res (match sf with
                     | SeekStart x => Ok x
                     | SeekEnd _ x => if k_end c <? x then Panic Overflow else Ok (k_end c - x)
                     | SeekCur true x => if k_pos c <? x then Panic Overflow else Ok (k_pos c - x)
                     | SeekCur false x => Ok (k_pos c + x)
                     end) in
  let+ c1 := if k_end c <? np then set_len_f lim c np else FOk c in
  FOk (set_pos c1 np, np).

Definition read_f (lim : option N) (fuel : nat) (c : cache) (n : N) : fres (cache * bytes) :=
  let+ (c1, i) := fetch_chunk_f lim fuel c (k_pos c) in
  let+ ch := of_res (get_chunk c1 i) in
  let st := k_pos c1 - c_off ch in
  let k := N.min n (blen (c_data ch) - st) in
  FOk (set_pos c1 (k_pos c1 + k), sub (c_data ch) st k).

Fixpoint read_loop_f (lim : option N) (fa fuel : nat) (c : cache) (n : N) (acc : bytes)
  : fres (cache * bytes) :=
  match fuel with
  | O => FStop SOutOfFuel
  | S f =>
    if n =? 0 then FOk (c, acc)
    else
      let+ (c1, got) := read_f lim fa c n in
      if blen got =? 0 then FStop SIoErr
      else read_loop_f lim fa f c1 (n - blen got) (acc ++ got)
  end.
Definition read_exact_f (lim : option N) (fuel : nat) (c : cache) (n : N) : fres (cache * bytes) :=
  read_loop_f lim fuel fuel c n [].

Definition read_small_f (lim : option N) (fuel : nat) (c : cache) (chk : bool) (need n : N)
  : fres (cache * bytes) :=
  if chk && (k_cs c <? n) then FStop (SPanic DebugAssert) else
  let+ (c1, i) := fetch_chunk_f lim fuel c (k_pos c) in
  let+ ch := of_res (get_chunk c1 i) in
  let st := k_pos c1 - c_off ch in
  if st + need <=? blen (c_data ch) then FOk (set_pos c1 (k_pos c1 + n), sub (c_data ch) st n)
  else read_exact_f lim fuel c1 n.

Definition write_f (lim : option N) (fuel : nat) (c : cache) (buf : bytes) : fres (cache * N) :=
  let+ (c1, i) := fetch_chunk_f lim fuel c (k_pos c) in
  let+ ch := of_res (get_chunk c1 i) in
  let st := k_pos c1 - c_off ch in
  let k := N.min (blen buf) (blen (c_data ch) - st) in
  let ch' := Chunk (c_off ch) (splice (c_data ch) st (take (N.to_nat k) buf)) true in
  FOk (bump (put_chunk c1 i ch') k, k).

Fixpoint write_loop_f (lim : option N) (fa fuel : nat) (c : cache) (buf : bytes) : fres cache :=
  match fuel with
  | O => FStop SOutOfFuel
  | S f =>
    match buf with
    | [] => FOk c
    | _ =>
      let+ (c1, k) := write_f lim fa c buf in
      if k =? 0 then FStop SIoErr
      else write_loop_f lim fa f c1 (drop (N.to_nat k) buf)
    end
  end.
Definition write_all_f (lim : option N) (fuel : nat) (c : cache) (buf : bytes) : fres cache :=
  write_loop_f lim fuel fuel c buf.

Definition write_small_f (lim : option N) (fuel : nat) (c : cache) (chk : bool) (buf : bytes)
  : fres cache :=
  if chk && (k_cs c <? blen buf) then FStop (SPanic DebugAssert) else
  let+ (c1, i) := fetch_chunk_f lim fuel c (k_pos c) in
  let+ ch := of_res (get_chunk c1 i) in
  let st := k_pos c1 - c_off ch in
  if st + blen buf <=? blen (c_data ch) then
    let ch' := Chunk (c_off ch) (splice (c_data ch) st buf) true in
    FOk (bump (put_chunk c1 i ch') (blen buf))
  else write_all_f lim fuel c1 buf.

(** [sync_all/sync_data]: the OS request itself does not fail *)
Definition sync_f (lim : option N) (c : cache) (all : bool) : fres cache :=
  let+ c1 := flush_f lim c in FOk (set_disk c1 (k_disk c1) (EvSync all :: k_events c1)).

Definition prepare_f (lim : option N) (fuel : nat) (c : cache) (off : N) : fres cache :=
  let+ (c1, _) := fetch_chunk_f lim fuel c off in FOk c1.

Fixpoint fill_loop_f (lim : option N) (fa fuel : nat) (c : cache) (curr : N) : fres cache :=
  match fuel with
  | O => FStop SOutOfFuel
  | S f =>
    if curr <? k_end c then
      let+ (c1, _) := fetch_chunk_f lim fa c curr in
      if nchunks c1 <? k_max c1 then fill_loop_f lim fa f c1 (curr + k_cs c1) else FOk c1
    else FOk c
  end.
Definition fill_f (lim : option N) (fuel : nat) (c : cache) : fres cache :=
  let+ (c1, _) := seek_f lim c (SeekEnd false 0) in fill_loop_f lim fuel fuel c1 0.

(** [Drop]: flush, the error is ignored: what is still dirty is lost with the object *)
Definition close_f (lim : option N) (c : cache) : bytes :=
  match flush_f lim c with FOk c1 => k_disk c1 | FErr c1 => k_disk c1 | FStop _ => k_disk c end.

(** one call of the public API under the limit [lim] *)
Definition cstep_f (lim : option N) (fuel : nat) (c : cache) (o : op) : fres (cache * out) :=
  match o with
  | OSeek sf => let+ (c1, p) := seek_f lim c sf in FOk (c1, RPos p)
  | ORead n => let+ (c1, b) := read_exact_f lim fuel c n in FOk (c1, RData b)
  | OReadPart n => let+ (c1, b) := read_f lim fuel c n in FOk (c1, RData b)
  | OReadSmall chk need n => let+ (c1, b) := read_small_f lim fuel c chk need n in FOk (c1, RData b)
  | OWrite buf => let+ c1 := write_all_f lim fuel c buf in FOk (c1, RUnitC)
  | OWritePart buf => let+ (c1, k) := write_f lim fuel c buf in FOk (c1, RCount k)
  | OWriteSmall chk buf => let+ c1 := write_small_f lim fuel c chk buf in FOk (c1, RUnitC)
  | OFlush => let+ c1 := flush_f lim c in FOk (c1, RUnitC)
  | OSync all => let+ c1 := sync_f lim c all in FOk (c1, RUnitC)
  | OSetLen n => let+ c1 := set_len_f lim c n in FOk (c1, RUnitC)
  | OPrepare off => let+ c1 := prepare_f lim fuel c off in FOk (c1, RUnitC)
  | OClear => let+ c1 := clear_f lim c in FOk (c1, RUnitC)
  | OFill => let+ c1 := fill_f lim fuel c in FOk (c1, RUnitC)
  end.

(** a sequence of calls, the limit changing between calls; a failed call is recorded as [None]
    and the sequence goes on from the state it left; only [FStop] ends it *)
Fixpoint run_f (fuel : nat) (c : cache) (l : list (option N * op)) : fres (cache * list (option out)) :=
  match l with
  | [] => FOk (c, [])
  | (lim, o) :: rest =>
    match cstep_f lim fuel c o with
    | FOk (c1, r) => let+ (c2, rs) := run_f fuel c1 rest in FOk (c2, Some r :: rs)
    | FErr c1 => let+ (c2, rs) := run_f fuel c1 rest in FOk (c2, None :: rs)
    | FStop s => FStop s
    end
  end.

End RabufF.
Export RabufF.

(** ** 3. without a limit the functions are those of Cache.v *)

Lemma of_res_bind {A B} (m : res A) (k : A -> res B) :
  of_res (let* x := m in k x) = let+ x := of_res m in of_res (k x).
Proof. destruct m; reflexivity. Qed.

Lemma chunk_write_f_none c i : chunk_write_f None c i = of_res (chunk_write c i).
Proof.
  unfold chunk_write_f, chunk_write. destruct (k_chunks c !! i) as [ch|]; [|reflexivity].
  destruct (negb (c_dirty ch)); [reflexivity|]. destruct (k_end c <? c_off ch); reflexivity.
Qed.

Lemma flush_list_f_none idxs : forall c, flush_list_f None idxs c = of_res (flush_list idxs c).
Proof.
  induction idxs as [|i rest IH]; intros c; [reflexivity|].
  cbn [flush_list_f flush_list]. rewrite chunk_write_f_none, of_res_bind.
  destruct (chunk_write c i); cbn [of_res fbind]; [apply IH|reflexivity..].
Qed.

Theorem flush_f_none c : flush_f None c = of_res (flush c).
Proof. apply flush_list_f_none. Qed.

Lemma clear_f_none c : clear_f None c = of_res (clear c).
Proof.
  unfold clear_f, clear. rewrite flush_f_none, of_res_bind. destruct (flush c); reflexivity.
Qed.

Lemma remove_chunks_f_none c : remove_chunks_f None c = of_res (remove_chunks c).
Proof.
  unfold remove_chunks_f, remove_chunks. rewrite clear_f_none, of_res_bind. destruct (clear c); reflexivity.
Qed.

Lemma add_chunk_f_none fuel : forall c off, add_chunk_f None fuel c off = of_res (add_chunk fuel c off).
Proof.
  induction fuel as [|fuel IH]; intros c off; [reflexivity|].
  cbn [add_chunk_f add_chunk].
  set (c2 := set_fc (if nchunks c =? k_max c then setup_auto c else c) None).
  destruct (nchunks c2 <? k_max c2).
  - rewrite of_res_bind. destruct (chunk_new c2 off); reflexivity.
  - rewrite remove_chunks_f_none, of_res_bind.
    destruct (remove_chunks c2); cbn [of_res fbind]; [apply IH|reflexivity..].
Qed.

Lemma fetch_chunk_f_none fuel c p : fetch_chunk_f None fuel c p = of_res (fetch_chunk fuel c p).
Proof.
  unfold fetch_chunk_f, fetch_chunk. rewrite add_chunk_f_none.
  assert (H : match find_idx (chunk_off (k_cs c) p) (k_chunks c) with
              | Some i => FOk (set_fc c (Some (chunk_off (k_cs c) p, i)), i)
              | None => let+ (c1, i) := of_res (add_chunk fuel c (chunk_off (k_cs c) p)) in
                        FOk (set_fc c1 (Some (chunk_off (k_cs c) p, i)), i)
              end =
              of_res match find_idx (chunk_off (k_cs c) p) (k_chunks c) with
                     | Some i => Ok (set_fc c (Some (chunk_off (k_cs c) p, i)), i)
                     | None => let* (c1, i) := add_chunk fuel c (chunk_off (k_cs c) p) in
                               Ok (set_fc c1 (Some (chunk_off (k_cs c) p, i)), i)
                     end).
  { destruct (find_idx (chunk_off (k_cs c) p) (k_chunks c)); [reflexivity|].
    destruct (add_chunk fuel c (chunk_off (k_cs c) p)) as [[c1 i]| | |]; reflexivity. }
  destruct (k_fc c) as [[o i]|]; [|exact H]. destruct (o =? chunk_off (k_cs c) p); [reflexivity|exact H].
Qed.

Lemma set_len_f_none c size : set_len_f None c size = FOk (set_len c size).
Proof. reflexivity. Qed.

Lemma seek_f_none c sf : seek_f None c sf = of_res (seek c sf).
Proof.
  unfold seek_f, seek. rewrite of_res_bind.
  destruct (match sf with
            | SeekStart x => Ok x
            | SeekEnd _ x => if k_end c <? x then Panic Overflow else Ok (k_end c - x)
            | SeekCur true x => if k_pos c <? x then Panic Overflow else Ok (k_pos c - x)
            | SeekCur false x => Ok (k_pos c + x)
            end) as [np| | |]; cbn [of_res fbind]; try reflexivity.
  destruct (k_end c <? np); reflexivity.
Qed.

Lemma read_f_none fuel c n : read_f None fuel c n = of_res (read fuel c n).
Proof.
  unfold read_f, read. rewrite fetch_chunk_f_none, of_res_bind.
  destruct (fetch_chunk fuel c (k_pos c)) as [[c1 i]| | |]; cbn [of_res fbind]; try reflexivity.
  rewrite of_res_bind. destruct (get_chunk c1 i); reflexivity.
Qed.

Lemma read_loop_f_none fa fuel : forall c n acc,
  read_loop_f None fa fuel c n acc = of_res (read_loop fa fuel c n acc).
Proof.
  induction fuel as [|fuel IH]; intros c n acc; [reflexivity|].
  cbn [read_loop_f read_loop]. destruct (n =? 0); [reflexivity|].
  rewrite read_f_none, of_res_bind. destruct (read fa c n) as [[c1 got]| | |]; cbn [of_res fbind]; try reflexivity.
  destruct (blen got =? 0); [reflexivity|apply IH].
Qed.

Lemma read_exact_f_none fuel c n : read_exact_f None fuel c n = of_res (read_exact fuel c n).
Proof. apply read_loop_f_none. Qed.

Lemma read_small_f_none fuel c chk need n :
  read_small_f None fuel c chk need n = of_res (read_small fuel c chk need n).
Proof.
  unfold read_small_f, read_small. destruct (chk && (k_cs c <? n)); [reflexivity|].
  rewrite fetch_chunk_f_none, of_res_bind.
  destruct (fetch_chunk fuel c (k_pos c)) as [[c1 i]| | |]; cbn [of_res fbind]; try reflexivity.
  rewrite of_res_bind. destruct (get_chunk c1 i) as [ch| | |]; cbn [of_res fbind]; try reflexivity.
  destruct (k_pos c1 - c_off ch + need <=? blen (c_data ch)); [reflexivity|apply read_exact_f_none].
Qed.

Lemma write_f_none fuel c buf : write_f None fuel c buf = of_res (write fuel c buf).
Proof.
  unfold write_f, write. rewrite fetch_chunk_f_none, of_res_bind.
  destruct (fetch_chunk fuel c (k_pos c)) as [[c1 i]| | |]; cbn [of_res fbind]; try reflexivity.
  rewrite of_res_bind. destruct (get_chunk c1 i); reflexivity.
Qed.

Lemma write_loop_f_none fa fuel : forall c buf,
  write_loop_f None fa fuel c buf = of_res (write_loop fa fuel c buf).
Proof.
  induction fuel as [|fuel IH]; intros c buf; [reflexivity|].
  cbn [write_loop_f write_loop]. destruct buf as [|x buf']; [reflexivity|].
  rewrite write_f_none, of_res_bind.
  destruct (write fa c (x :: buf')) as [[c1 k]| | |]; cbn [of_res fbind]; try reflexivity.
  destruct (k =? 0); [reflexivity|apply IH].
Qed.

Lemma write_all_f_none fuel c buf : write_all_f None fuel c buf = of_res (write_all fuel c buf).
Proof. apply write_loop_f_none. Qed.

Lemma write_small_f_none fuel c chk buf :
  write_small_f None fuel c chk buf = of_res (write_small fuel c chk buf).
Proof.
  unfold write_small_f, write_small. destruct (chk && (k_cs c <? blen buf)); [reflexivity|].
  rewrite fetch_chunk_f_none, of_res_bind.
  destruct (fetch_chunk fuel c (k_pos c)) as [[c1 i]| | |]; cbn [of_res fbind]; try reflexivity.
  rewrite of_res_bind. destruct (get_chunk c1 i) as [ch| | |]; cbn [of_res fbind]; try reflexivity.
  destruct (k_pos c1 - c_off ch + blen buf <=? blen (c_data ch)); [reflexivity|apply write_all_f_none].
Qed.

Lemma sync_f_none c all : sync_f None c all = of_res (sync c all).
Proof. unfold sync_f, sync. rewrite flush_f_none, of_res_bind. destruct (flush c); reflexivity. Qed.

Lemma prepare_f_none fuel c off : prepare_f None fuel c off = of_res (prepare fuel c off).
Proof.
  unfold prepare_f, prepare. rewrite fetch_chunk_f_none, of_res_bind.
  destruct (fetch_chunk fuel c off) as [[c1 i]| | |]; reflexivity.
Qed.

Lemma fill_loop_f_none fa fuel : forall c curr,
  fill_loop_f None fa fuel c curr = of_res (fill_loop fa fuel c curr).
Proof.
  induction fuel as [|fuel IH]; intros c curr; [reflexivity|].
  cbn [fill_loop_f fill_loop]. destruct (curr <? k_end c); [|reflexivity].
  rewrite fetch_chunk_f_none, of_res_bind.
  destruct (fetch_chunk fa c curr) as [[c1 i]| | |]; cbn [of_res fbind]; try reflexivity.
  destruct (nchunks c1 <? k_max c1); [apply IH|reflexivity].
Qed.

Lemma fill_f_none fuel c : fill_f None fuel c = of_res (fill fuel c).
Proof.
  unfold fill_f, fill. rewrite seek_f_none, of_res_bind.
  destruct (seek c (SeekEnd false 0)) as [[c1 p]| | |]; cbn [of_res fbind]; try reflexivity.
  apply fill_loop_f_none.
Qed.

(** the result packaging: [Ok x] is [FOk x]; there is no [FErr] without a limit *)
Theorem cstep_f_none fuel c o : cstep_f None fuel c o = of_res (cstep fuel c o).
Proof.
  destruct o as [sf|n|n|chk need n|buf|buf|chk buf| |all|n|off| |]; cbn [cstep_f cstep].
  - rewrite seek_f_none, of_res_bind. destruct (seek c sf) as [[c1 p]| | |]; reflexivity.
  - rewrite read_exact_f_none, of_res_bind. destruct (read_exact fuel c n) as [[c1 b]| | |]; reflexivity.
  - rewrite read_f_none, of_res_bind. destruct (read fuel c n) as [[c1 b]| | |]; reflexivity.
  - rewrite read_small_f_none, of_res_bind. destruct (read_small fuel c chk need n) as [[c1 b]| | |]; reflexivity.
  - rewrite write_all_f_none, of_res_bind. destruct (write_all fuel c buf); reflexivity.
  - rewrite write_f_none, of_res_bind. destruct (write fuel c buf) as [[c1 k]| | |]; reflexivity.
  - rewrite write_small_f_none, of_res_bind. destruct (write_small fuel c chk buf); reflexivity.
  - rewrite flush_f_none, of_res_bind. destruct (flush c); reflexivity.
  - rewrite sync_f_none, of_res_bind. destruct (sync c all); reflexivity.
  - reflexivity.
  - rewrite prepare_f_none, of_res_bind. destruct (prepare fuel c off); reflexivity.
  - rewrite clear_f_none, of_res_bind. destruct (clear c); reflexivity.
  - rewrite fill_f_none, of_res_bind. destruct (fill fuel c); reflexivity.
Qed.

Corollary cstep_f_none_ok fuel c o c' r : cstep fuel c o = Ok (c', r) <-> cstep_f None fuel c o = FOk (c', r).
Proof.
  rewrite cstep_f_none. split; [intros ->; reflexivity|].
  destruct (cstep fuel c o); cbn; intros H; try discriminate. injection H as <-. reflexivity.
Qed.

Lemma close_f_none c : close_f None c = close c.
Proof. unfold close_f, close. rewrite flush_f_none. destruct (flush c); reflexivity. Qed.

(** ** 4. outcomes; the invariant without the cover clause *)

(** [FOk c] / [FErr c] *)
Definition fpack (c : cache) (ok : bool) : fres cache := if ok then FOk c else FErr c.

(** a call ends with [P] of its value, or fails leaving a state with [Q]; it does not stop *)
Definition fout {A} (r : fres A) (P : A -> Prop) (Q : cache -> Prop) : Prop :=
  match r with FOk a => P a | FErr c => Q c | FStop _ => False end.

Lemma fout_bind {A B} (m : fres A) (k : A -> fres B) (P : A -> Prop) (Q : cache -> Prop)
      (P' : B -> Prop) (Q' : cache -> Prop) :
  fout m P Q -> (forall a, P a -> fout (k a) P' Q') -> (forall c, Q c -> Q' c) -> fout (fbind m k) P' Q'.
Proof. destruct m as [a|c|s]; cbn; intros H1 H2 H3; [apply H2; exact H1|apply H3; exact H1|contradiction]. Qed.

Lemma fout_impl {A} (r : fres A) (P P' : A -> Prop) (Q Q' : cache -> Prop) :
  fout r P Q -> (forall a, P a -> P' a) -> (forall c, Q c -> Q' c) -> fout r P' Q'.
Proof. destruct r as [a|c|s]; cbn; intros H1 H2 H3; [apply H2; exact H1|apply H3; exact H1|contradiction]. Qed.

Lemma fout_of_res {A} (r : res A) (a : A) (P : A -> Prop) (Q : cache -> Prop) :
  r = Ok a -> P a -> fout (of_res r) P Q.
Proof. intros -> H. exact H. Qed.

(** [data_inv] without its last clause ([di_cover]): what still holds after a [set_len] whose
    disk request failed ([end] is beyond the disk and nothing caches the difference) *)
Record data_invg (cs : N) (chs : list chunk) (disk : bytes) (e : N) : Prop := {
  dg_chunk : forall i ch, chs !! i = Some ch ->
      c_off ch mod cs = 0 /\ blen (c_data ch) = cs /\ c_off ch <= e;
  dg_nodup : NoDup (map c_off chs);
  (* a byte beyond the disk reads as 0 *)
  dg_clean : forall i ch, chs !! i = Some ch -> c_dirty ch = false ->
      forall q, q < cs -> c_off ch + q < e -> getb (c_data ch) q = getb disk (c_off ch + q);
  dg_zero : forall i ch, chs !! i = Some ch -> forall q, e <= c_off ch + q -> getb (c_data ch) q = 0;
  dg_disk_le : blen disk <= e }.

(** what [data_inv] says more: everything below [end] that the disk does not have is in a dirty chunk *)
Definition cover (cs : N) (chs : list chunk) (disk : bytes) (e : N) : Prop :=
  (forall i ch, chs !! i = Some ch -> c_dirty ch = false ->
     forall q, q < cs -> c_off ch + q < e -> c_off ch + q < blen disk) /\
  (forall p, blen disk <= p -> p < e -> find_idx (chunk_off cs p) chs <> None).

Lemma data_inv_split cs chs disk e :
  data_inv cs chs disk e <-> data_invg cs chs disk e /\ cover cs chs disk e.
Proof.
  split.
  - intros [A B C D E F]. split; [constructor; try assumption|split; [|exact F]].
    + intros i ch Hl Hd q Hq Hqe. exact (proj2 (C i ch Hl Hd q Hq Hqe)).
    + intros i ch Hl Hd q Hq Hqe. exact (proj1 (C i ch Hl Hd q Hq Hqe)).
  - intros [[A B C D E] [F1 F2]]. constructor; try assumption.
    intros i ch Hl Hd q Hq Hqe. split; [exact (F1 i ch Hl Hd q Hq Hqe)|exact (C i ch Hl Hd q Hq Hqe)].
Qed.

Definition dinvg (c : cache) : Prop := data_invg (k_cs c) (k_chunks c) (k_disk c) (k_end c).
Definition coverc (c : cache) : Prop := cover (k_cs c) (k_chunks c) (k_disk c) (k_end c).

Record cache_invg (c : cache) : Prop := {
  invg_cs : 0 < k_cs c;
  invg_data : dinvg c;
  invg_fc : forall o i, k_fc c = Some (o, i) -> map c_off (k_chunks c) !! i = Some o;
  invg_len : nchunks c <= k_max c;
  invg_cfg : cfg_ok c }.

Lemma invx_split c : cache_invx c <-> cache_invg c /\ coverc c.
Proof.
  split.
  - intros [A B C D E]. apply data_inv_split in B as [B1 B2]. split; [constructor; assumption|exact B2].
  - intros [[A B C D E] F]. constructor; try assumption. apply data_inv_split. split; assumption.
Qed.

(** THE invariant of the fault model.  No weakening of [cache_invx] is needed for failed
    write-backs: a dirty chunk claims nothing about the disk ([di_clean] speaks of clean chunks
    only), the disk only grows under a partial write and never beyond [end], so [di_disk_le]
    and [di_cover] survive ([chunk_write_f_spec]).  What does NOT survive a failure is
    [di_cover], after a failed growing [set_len]: that state satisfies [cache_invg] only. *)
Definition cache_invf (c : cache) : Prop := cache_invx c.

Lemma viewl_at_g cs chs disk e i ch p :
  0 < cs -> data_invg cs chs disk e -> chs !! i = Some ch -> c_off ch = chunk_off cs p ->
  viewl cs chs disk p = getb (c_data ch) (p - c_off ch).
Proof.
  intros Hcs D Hl Ho. unfold viewl. rewrite <- Ho.
  rewrite (find_idx_nodup chs i ch (dg_nodup _ _ _ _ D) Hl), Hl. reflexivity.
Qed.

(** 4.1 a prefix of a chunk goes to the disk; the chunk list is not touched *)
Lemma dg_write_part cs chs disk e i ch m :
  0 < cs -> data_invg cs chs disk e -> chs !! i = Some ch -> c_dirty ch = true ->
  m <= N.min (blen (c_data ch)) (e - c_off ch) ->
  let disk' := disk_write disk (c_off ch) (take (N.to_nat m) (c_data ch)) in
  data_invg cs chs disk' e /\ (forall p, viewl cs chs disk' p = viewl cs chs disk p) /\
  blen disk <= blen disk' /\
  (forall q, q < m -> c_off ch + q < blen disk' /\ getb disk' (c_off ch + q) = getb (c_data ch) q) /\
  (cover cs chs disk e -> cover cs chs disk' e).
Proof.
  intros Hcs D Hl Hd Hm disk'.
  destruct (dg_chunk _ _ _ _ D i ch Hl) as (Hmod & Hlen & Hoe).
  assert (Hbd : blen (take (N.to_nat m) (c_data ch)) = m) by (rewrite blen_take; lia).
  assert (Hg : forall p, getb disk' p =
                 if (c_off ch <=? p) && (p <? c_off ch + m) then getb (c_data ch) (p - c_off ch) else getb disk p).
  { intros p. unfold disk'. rewrite getb_disk_write, Hbd.
    destruct (N.leb_spec (c_off ch) p); destruct (N.ltb_spec p (c_off ch + m)); cbn [andb]; try reflexivity.
    rewrite getb_take. destruct (N.ltb_spec (p - c_off ch) m); [reflexivity|lia]. }
  assert (Hbl : blen disk' = if m =? 0 then blen disk else N.max (blen disk) (c_off ch + m)).
  { unfold disk'. rewrite blen_disk_write, Hbd. reflexivity. }
  assert (Hgrow : blen disk <= blen disk') by (rewrite Hbl; destruct (m =? 0); lia).
  split; [|split; [|split; [|split]]].
  - constructor.
    + exact (dg_chunk _ _ _ _ D).
    + exact (dg_nodup _ _ _ _ D).
    + intros j x Hx Hdx q Hq Hqe.
      pose proof (dg_clean _ _ _ _ D j x Hx Hdx q Hq Hqe) as Hge.
      destruct (dg_chunk _ _ _ _ D j x Hx) as (Hmx & _ & _).
      assert (Hne : j <> i) by (intros ->; congruence).
      assert (Hox : c_off x <> c_off ch) by (apply (nodup_offsets chs j i x ch (dg_nodup _ _ _ _ D) Hx Hl Hne)).
      assert (Hco : chunk_off cs (c_off x + q) <> c_off ch) by (rewrite chunk_off_add; assumption).
      rewrite Hg.
      destruct (not_in_chunk cs (c_off ch) (c_off x + q) Hcs Hmod Hco) as [Ho|Ho].
      * destruct (N.leb_spec (c_off ch) (c_off x + q)); [lia|]. exact Hge.
      * destruct (N.ltb_spec (c_off x + q) (c_off ch + m)); [lia|]. rewrite andb_false_r. exact Hge.
    + exact (dg_zero _ _ _ _ D).
    + rewrite Hbl. pose proof (dg_disk_le _ _ _ _ D). destruct (m =? 0); lia.
  - intros p. unfold viewl.
    destruct (find_idx (chunk_off cs p) chs) as [j|] eqn:F; [reflexivity|].
    assert (Hco : chunk_off cs p <> c_off ch).
    { intros E. exact (find_idx_None _ _ i ch F Hl (eq_sym E)). }
    rewrite Hg. destruct (not_in_chunk cs (c_off ch) p Hcs Hmod Hco) as [Ho|Ho].
    + destruct (N.leb_spec (c_off ch) p); [lia|]. reflexivity.
    + destruct (N.ltb_spec p (c_off ch + m)); [lia|]. rewrite andb_false_r. reflexivity.
  - exact Hgrow.
  - intros q Hq. rewrite Hg, Hbl. destruct (N.eqb_spec m 0); [lia|].
    destruct (N.leb_spec (c_off ch) (c_off ch + q)); [|lia].
    destruct (N.ltb_spec (c_off ch + q) (c_off ch + m)); [|lia]. cbn [andb].
    split; [lia|]. f_equal. lia.
  - intros [C1 C2]. split.
    + intros j x Hx Hdx q Hq Hqe. specialize (C1 j x Hx Hdx q Hq Hqe). lia.
    + intros p Hp Hpe. apply C2; [lia|exact Hpe].
Qed.

(** 4.2 a chunk whose bytes below [end] are on the disk may be marked clean *)
Lemma dg_mark_clean cs chs disk e i ch :
  0 < cs -> data_invg cs chs disk e -> chs !! i = Some ch ->
  (forall q, q < cs -> c_off ch + q < e ->
     c_off ch + q < blen disk /\ getb (c_data ch) q = getb disk (c_off ch + q)) ->
  let chs' := <[i := Chunk (c_off ch) (c_data ch) false]> chs in
  data_invg cs chs' disk e /\ (forall p, viewl cs chs' disk p = viewl cs chs disk p) /\
  (cover cs chs disk e -> cover cs chs' disk e).
Proof.
  intros Hcs D Hl Hon chs'.
  assert (Hmap : map c_off chs' = map c_off chs) by (apply (map_off_insert chs i ch); [exact Hl|reflexivity]).
  assert (Hfind : forall o, find_idx o chs' = find_idx o chs) by (intros o; apply find_idx_ext, Hmap).
  assert (Hlk : forall j x, chs' !! j = Some x ->
                 (j = i /\ x = Chunk (c_off ch) (c_data ch) false) \/ (j <> i /\ chs !! j = Some x)).
  { intros j x Hx. unfold chs' in Hx. apply list_lookup_insert_Some in Hx.
    destruct Hx as [(-> & <- & _)|(Hne & Hx)]; [left; split; reflexivity|right; split; [congruence|exact Hx]]. }
  split; [|split].
  - constructor.
    + intros j x Hx. destruct (Hlk j x Hx) as [(-> & ->)|(Hne & Hx')].
      * cbn [c_off c_data]. exact (dg_chunk _ _ _ _ D i ch Hl).
      * exact (dg_chunk _ _ _ _ D j x Hx').
    + rewrite Hmap. exact (dg_nodup _ _ _ _ D).
    + intros j x Hx Hdx q Hq Hqe. destruct (Hlk j x Hx) as [(-> & ->)|(Hne & Hx')].
      * cbn [c_off c_data] in *. exact (proj2 (Hon q Hq Hqe)).
      * exact (dg_clean _ _ _ _ D j x Hx' Hdx q Hq Hqe).
    + intros j x Hx q Hq. destruct (Hlk j x Hx) as [(-> & ->)|(Hne & Hx')].
      * cbn [c_off c_data] in *. exact (dg_zero _ _ _ _ D i ch Hl q Hq).
      * exact (dg_zero _ _ _ _ D j x Hx' q Hq).
    + exact (dg_disk_le _ _ _ _ D).
  - intros p. unfold viewl. rewrite Hfind.
    destruct (find_idx (chunk_off cs p) chs) as [j|] eqn:F; [|reflexivity].
    destruct (Nat.eq_dec j i) as [->|Hne].
    + unfold chs'. rewrite list_lookup_insert by (apply lookup_lt_is_Some; eauto). rewrite Hl. reflexivity.
    + unfold chs'. rewrite list_lookup_insert_ne by congruence. reflexivity.
  - intros [C1 C2]. split.
    + intros j x Hx Hdx q Hq Hqe. destruct (Hlk j x Hx) as [(-> & ->)|(Hne & Hx')].
      * cbn [c_off c_data] in *. exact (proj1 (Hon q Hq Hqe)).
      * exact (C1 j x Hx' Hdx q Hq Hqe).
    + intros p Hp Hpe. rewrite Hfind. exact (C2 p Hp Hpe).
Qed.

(** 4.3 the faulty disk *)
Lemma take_blen' (b : bytes) : take (N.to_nat (blen b)) b = b.
Proof. unfold blen. rewrite Nat2N.id. apply firstn_all. Qed.

Lemma disk_write_lim_spec lim d off data :
  exists m, m <= blen data /\
    disk_write_lim lim d off data = (disk_write d off (take (N.to_nat m) data), m =? blen data) /\
    (lim = None -> m = blen data).
Proof.
  destruct lim as [L|]; cbn [disk_write_lim].
  - destruct (N.eqb_spec (blen data) 0) as [E|E]; cbn [orb].
    + exists (blen data). rewrite take_blen', N.eqb_refl. split; [lia|]. split; [reflexivity|discriminate].
    + destruct (N.leb_spec (off + blen data) L) as [H|H].
      * exists (blen data). rewrite take_blen', N.eqb_refl. split; [lia|]. split; [reflexivity|discriminate].
      * exists (L - off). split; [lia|]. split; [|discriminate].
        destruct (N.eqb_spec (L - off) (blen data)); [lia|reflexivity].
  - exists (blen data). rewrite take_blen', N.eqb_refl. split; [lia|]. split; reflexivity.
Qed.

Lemma disk_write_lim_none d off data : disk_write_lim None d off data = (disk_write d off data, true).
Proof. reflexivity. Qed.

Lemma disk_set_len_lim_none d n : disk_set_len_lim None d n = (resize d n, true).
Proof. reflexivity. Qed.

(** 4.4 [Chunk::write] under the limit *)
Record wbf_rel (c c1 : cache) : Prop := {
  wbf_wb : wb_rel c c1;
  wbf_disk : blen (k_disk c) <= blen (k_disk c1);
  wbf_cov : coverc c -> coverc c1 }.

Lemma wbf_refl c : wbf_rel c c.
Proof. constructor; [apply wb_refl|lia|tauto]. Qed.

Lemma wbf_trans a b c : wbf_rel a b -> wbf_rel b c -> wbf_rel a c.
Proof. intros [A1 A2 A3] [B1 B2 B3]. constructor; [exact (wb_trans _ _ _ A1 B1)|lia|tauto]. Qed.

Lemma chunk_write_f_spec lim c i :
  0 < k_cs c -> dinvg c -> (i < length (k_chunks c))%nat ->
  exists c1 ok, chunk_write_f lim c i = fpack c1 ok /\ dinvg c1 /\ wbf_rel c c1 /\
    (ok = true -> forall ch1, k_chunks c1 !! i = Some ch1 -> c_dirty ch1 = false) /\
    (ok = false -> lim <> None).
Proof.
  intros Hcs D Hi. apply lookup_lt_is_Some in Hi. destruct Hi as [ch Hl].
  unfold chunk_write_f. rewrite Hl.
  destruct (c_dirty ch) eqn:Hd; cbn [negb].
  - destruct (dg_chunk _ _ _ _ D i ch Hl) as (Hm & Hlen & Hoe).
    destruct (N.ltb_spec (k_end c) (c_off ch)) as [H|_]; [lia|].
    set (n := N.min (blen (c_data ch)) (k_end c - c_off ch)).
    set (d := take (N.to_nat n) (c_data ch)).
    assert (Hbd : blen d = n) by (unfold d; rewrite blen_take; lia).
    destruct (disk_write_lim_spec lim (k_disk c) (c_off ch) d) as (m & Hmn & E & Hnone).
    rewrite E. rewrite Hbd in Hmn, E, Hnone.
    assert (Etake : take (N.to_nat m) d = take (N.to_nat m) (c_data ch)).
    { unfold d. rewrite take_take. f_equal. lia. }
    rewrite Etake.
    destruct (dg_write_part _ _ _ _ i ch m Hcs D Hl Hd Hmn) as (D1 & V1 & G1 & On1 & Cv1).
    set (disk' := disk_write (k_disk c) (c_off ch) (take (N.to_nat m) (c_data ch))) in *.
    set (evs := if accepted lim (c_off ch) n =? 0 then k_events c
                else EvWrite (c_off ch) (accepted lim (c_off ch) n) :: k_events c).
    rewrite Hbd.
    destruct (N.eqb_spec m n) as [Emn|Emn].
    + (* all of it written: the chunk becomes clean *)
      subst m.
      destruct (dg_mark_clean _ _ _ _ i ch Hcs D1 Hl) as (D2 & V2 & Cv2).
      { intros q Hq Hqe. destruct (On1 q ltac:(unfold n; lia)) as [A B]. split; [exact A|symmetry; exact B]. }
      exists (set_chunks (set_disk c disk' evs) (<[i := Chunk (c_off ch) (c_data ch) false]> (k_chunks c))), true.
      split; [reflexivity|]. split; [exact D2|]. split; [|split; [|discriminate]].
      * constructor; [|exact G1|intros Cc; exact (Cv2 (Cv1 Cc))]. constructor; try reflexivity.
        -- cbn. apply (map_off_insert _ i ch); [exact Hl|reflexivity].
        -- intros p. unfold view. cbn. rewrite V2. apply V1.
        -- cbn. intros j ch1 Hj. apply list_lookup_insert_Some in Hj.
           destruct Hj as [(-> & <- & _)|(Hne & Hj)].
           ++ exists ch. split; [exact Hl|reflexivity].
           ++ exists ch1. split; [exact Hj|tauto].
      * intros _ ch1 H1. cbn in H1. rewrite list_lookup_insert in H1 by (apply lookup_lt_Some in Hl; exact Hl).
        injection H1 as <-. reflexivity.
    + (* a short write: the chunk stays as it is *)
      exists (set_disk c disk' evs), false.
      split; [reflexivity|]. split; [exact D1|]. split; [|split; [discriminate|]].
      * constructor; [|exact G1|exact Cv1]. constructor; try reflexivity.
        -- intros p. unfold view. cbn. apply V1.
        -- cbn. intros j ch1 Hj. exists ch1. split; [exact Hj|tauto].
      * intros _ ->. apply Emn. apply Hnone. reflexivity.
  - exists c, true. split; [reflexivity|]. split; [exact D|]. split; [apply wbf_refl|].
    split; [|discriminate]. intros _ ch1 H1. congruence.
Qed.

Lemma flush_list_f_spec lim idxs : forall c,
  0 < k_cs c -> dinvg c -> (forall i, i ∈ idxs -> (i < length (k_chunks c))%nat) ->
  exists c1 ok, flush_list_f lim idxs c = fpack c1 ok /\ dinvg c1 /\ wbf_rel c c1 /\
    (ok = true -> forall i ch1, i ∈ idxs -> k_chunks c1 !! i = Some ch1 -> c_dirty ch1 = false) /\
    (ok = false -> lim <> None).
Proof.
  induction idxs as [|i rest IH]; intros c Hcs D Hidx.
  - exists c, true. split; [reflexivity|]. split; [exact D|]. split; [apply wbf_refl|].
    split; [|discriminate]. intros _ i ch1 Hi. apply elem_of_nil in Hi. contradiction.
  - destruct (chunk_write_f_spec lim c i Hcs D (Hidx i ltac:(left))) as (c1 & ok1 & E1 & D1 & W1 & C1 & N1).
    cbn [flush_list_f]. rewrite E1. destruct ok1; cbn [fpack fbind].
    + assert (Hcs1 : 0 < k_cs c1) by (rewrite (wb_cs _ _ (wbf_wb _ _ W1)); exact Hcs).
      assert (Hidx1 : forall j, j ∈ rest -> (j < length (k_chunks c1))%nat).
      { intros j Hj. rewrite (wb_length _ _ (wbf_wb _ _ W1)). apply Hidx. right. exact Hj. }
      destruct (IH c1 Hcs1 D1 Hidx1) as (c2 & ok2 & E2 & D2 & W2 & C2 & N2).
      exists c2, ok2. split; [exact E2|]. split; [exact D2|]. split; [exact (wbf_trans _ _ _ W1 W2)|].
      split; [|exact N2].
      intros Hok j ch2 Hj Hl2. apply elem_of_cons in Hj. destruct (decide (j ∈ rest)) as [Hin|Hnin].
      * exact (C2 Hok j ch2 Hin Hl2).
      * destruct Hj as [->|Hj]; [|contradiction].
        destruct (wb_dirty _ _ (wbf_wb _ _ W2) i ch2 Hl2) as (ch1 & Hl1 & Hd). apply Hd. exact (C1 eq_refl ch1 Hl1).
    + exists c1, false. split; [reflexivity|]. split; [exact D1|]. split; [exact W1|].
      split; [discriminate|exact N1].
Qed.

Lemma flush_f_spec lim c :
  0 < k_cs c -> dinvg c ->
  exists c1 ok, flush_f lim c = fpack c1 ok /\ dinvg c1 /\ wbf_rel c c1 /\
    (ok = true -> all_clean c1) /\ (ok = false -> lim <> None).
Proof.
  intros Hcs D. unfold flush_f.
  destruct (flush_list_f_spec lim (flush_order (k_chunks c)) c Hcs D) as (c1 & ok & E & D1 & W & C & N).
  { intros i Hi. apply flush_order_elem. exact Hi. }
  exists c1, ok. split; [exact E|]. split; [exact D1|]. split; [exact W|]. split; [|exact N].
  intros Hok i ch Hl. apply (C Hok i ch); [|exact Hl]. apply flush_order_elem.
  rewrite <- (wb_length _ _ (wbf_wb _ _ W)). apply lookup_lt_Some in Hl. exact Hl.
Qed.

Lemma wbf_invg c c1 : cache_invg c -> dinvg c1 -> wbf_rel c c1 -> cache_invg c1.
Proof.
  intros I D [[W1 W2 W3 W4 W5 W6 W7 W8 W9] _ _]. constructor.
  - rewrite W1. exact (invg_cs c I).
  - exact D.
  - intros o i H. rewrite W7. rewrite W4 in H. exact (invg_fc c I o i H).
  - unfold nchunks. apply (f_equal length) in W7. rewrite !map_length in W7. rewrite W7, W2. exact (invg_len c I).
  - pose proof (invg_cfg c I) as H. unfold cfg_ok in *. rewrite W3, W2, W1. exact H.
Qed.

Lemma wbf_cover c c1 : coverc c -> wbf_rel c c1 -> coverc c1.
Proof. intros C W. exact (wbf_cov _ _ W C). Qed.

Lemma wbf_invx c c1 : cache_invx c -> dinvg c1 -> wbf_rel c c1 -> cache_invx c1.
Proof.
  intros I D W. apply invx_split in I as [I C]. apply invx_split.
  split; [exact (wbf_invg c c1 I D W)|exact (wbf_cover c c1 C W)].
Qed.

(** ** 5. the flush theorems *)

(** when every chunk is clean the disk is the logical file up to a tail of zeros, and exactly
    the logical file when the cover clause holds *)
Lemma clean_disk_prefix c f :
  cache_invg c -> R c f -> all_clean c ->
  blen (k_disk c) <= f_end f /\ f_bytes f = pad_to (k_disk c) (f_end f).
Proof.
  intros I (R1 & R2 & R3) C. pose proof (invg_cs c I) as Hcs. pose proof (invg_data c I) as D.
  pose proof (dg_disk_le _ _ _ _ D) as Hle. rewrite R2 in Hle. split; [exact Hle|].
  apply bytes_ext; [rewrite blen_pad_to; unfold f_end in *; lia|].
  intros p Hp. rewrite getb_pad_to. rewrite R3 by (unfold f_end in R2; lia). unfold view, viewl.
  destruct (find_idx (chunk_off (k_cs c) p) (k_chunks c)) as [i|] eqn:F; [|reflexivity].
  destruct (find_idx_Some _ _ _ F) as (ch & Hl & Ho). rewrite Hl.
  destruct (chunk_off_range (k_cs c) p Hcs) as [H1 H2].
  rewrite (dg_clean _ _ _ _ D i ch Hl (C i ch Hl) (p - c_off ch) ltac:(lia) ltac:(unfold f_end in R2; lia)).
  f_equal. lia.
Qed.

Lemma clean_disk_is_xflat c f : cache_invx c -> R c f -> all_clean c -> k_disk c = f_bytes f.
Proof.
  intros I HR C. pose proof HR as (R1 & R2 & R3).
  pose proof (all_clean_disk_end _ _ _ _ (invx_cs c I) (invx_data c I) C) as He.
  apply invx_split in I as [I _]. destruct (clean_disk_prefix c f I HR C) as [_ E].
  rewrite E. symmetry. apply pad_to_le. lia.
Qed.

(** THE VIEW IS INTACT.  Whatever the limit, whether the flush fails or not: every byte a
    reader sees and the position are unchanged, the invariant holds again; a failure needs a
    limit; after a success nothing is dirty. *)
Theorem flush_f_view_intact lim c f :
  cache_invf c -> R c f ->
  exists c' ok, flush_f lim c = fpack c' ok /\ R c' f /\ cache_invf c' /\
    k_cs c' = k_cs c /\ k_auto c' = k_auto c /\ blen (k_disk c) <= blen (k_disk c') /\
    (ok = true -> all_clean c') /\ (ok = false -> lim <> None).
Proof.
  intros I HR. pose proof I as I'. apply invx_split in I' as [Ig _].
  destruct (flush_f_spec lim c (invx_cs c I) (invg_data c Ig)) as (c1 & ok & E & D & W & C & N).
  exists c1, ok. split; [exact E|]. split; [exact (R_fr _ _ _ (wb_fr _ _ (wbf_wb _ _ W)) HR)|].
  split; [exact (wbf_invx _ _ I D W)|]. split; [exact (wb_cs _ _ (wbf_wb _ _ W))|].
  split; [exact (wb_auto _ _ (wbf_wb _ _ W))|]. split; [exact (wbf_disk _ _ W)|]. split; assumption.
Qed.

(** the same in the state a failed [set_len] leaves *)
Theorem flush_f_view_intact_g lim c f :
  cache_invg c -> R c f ->
  exists c' ok, flush_f lim c = fpack c' ok /\ R c' f /\ cache_invg c' /\
    (ok = true -> all_clean c') /\ (ok = false -> lim <> None).
Proof.
  intros I HR.
  destruct (flush_f_spec lim c (invg_cs c I) (invg_data c I)) as (c1 & ok & E & D & W & C & N).
  exists c1, ok. split; [exact E|]. split; [exact (R_fr _ _ _ (wb_fr _ _ (wbf_wb _ _ W)) HR)|].
  split; [exact (wbf_invg _ _ I D W)|]. split; assumption.
Qed.

(** A flush that REPORTS success has made everything durable. *)
Theorem flush_f_ok_durable lim c f c' :
  cache_invf c -> R c f -> flush_f lim c = FOk c' -> k_disk c' = f_bytes f.
Proof.
  intros I HR E. destruct (flush_f_view_intact lim c f I HR) as (c1 & ok & E1 & R1 & I1 & _ & _ & _ & C & _).
  rewrite E in E1. destruct ok; cbn in E1; [|discriminate]. injection E1 as <-.
  exact (clean_disk_is_xflat c' f I1 R1 (C eq_refl)).
Qed.

(** RECOVERY: once the limit is gone a flush succeeds and the disk is exactly the logical file *)
Theorem flush_f_recovery c f :
  cache_invf c -> R c f ->
  exists c', flush_f None c = FOk c' /\ k_disk c' = f_bytes f /\ R c' f /\ cache_invf c' /\ all_clean c'.
Proof.
  intros I HR. destruct (flush_f_view_intact None c f I HR) as (c1 & ok & E1 & R1 & I1 & _ & _ & _ & C & N).
  destruct ok; [|exfalso; exact (N eq_refl eq_refl)]. exists c1. split; [exact E1|].
  split; [exact (clean_disk_is_xflat c1 f I1 R1 (C eq_refl))|]. split; [exact R1|]. split; [exact I1|exact (C eq_refl)].
Qed.

(** without the cover clause: the disk is a prefix of the logical file, what is missing is zeros *)
Theorem flush_f_recovery_g c f :
  cache_invg c -> R c f ->
  exists c', flush_f None c = FOk c' /\ R c' f /\ cache_invg c' /\
    blen (k_disk c') <= f_end f /\ f_bytes f = pad_to (k_disk c') (f_end f).
Proof.
  intros I HR. destruct (flush_f_view_intact_g None c f I HR) as (c1 & ok & E1 & R1 & I1 & C & N).
  destruct ok; [|exfalso; exact (N eq_refl eq_refl)]. exists c1. split; [exact E1|].
  split; [exact R1|]. split; [exact I1|]. exact (clean_disk_prefix c1 f I1 R1 (C eq_refl)).
Qed.

(** ** 6. eviction under the limit: [clear], [remove_chunks], [add_chunk], [fetch_chunk] *)

(** a flush of a cache without dirty chunks does nothing *)
Lemma chunk_write_clean c i ch : k_chunks c !! i = Some ch -> c_dirty ch = false -> chunk_write c i = Ok c.
Proof. intros Hl Hd. unfold chunk_write. rewrite Hl, Hd. reflexivity. Qed.

Lemma flush_list_clean idxs c :
  all_clean c -> (forall i, i ∈ idxs -> (i < length (k_chunks c))%nat) -> flush_list idxs c = Ok c.
Proof.
  intros C. induction idxs as [|i rest IH]; intros Hidx; [reflexivity|].
  cbn [flush_list]. destruct (lookup_lt_is_Some_2 _ _ (Hidx i ltac:(left))) as [ch Hl].
  rewrite (chunk_write_clean c i ch Hl (C i ch Hl)). cbn [rbind]. apply IH.
  intros j Hj. apply Hidx. right. exact Hj.
Qed.

Lemma flush_clean_id c : all_clean c -> flush c = Ok c.
Proof.
  intros C. unfold flush. apply flush_list_clean; [exact C|]. intros i Hi. apply flush_order_elem. exact Hi.
Qed.

(** after a successful flush under the limit, the rest of [clear]/[remove_chunks] is what
    Cache.v does from the flushed state *)
Lemma clear_f_ok lim c c1 : flush_f lim c = FOk c1 -> all_clean c1 -> clear_f lim c = of_res (clear c1).
Proof. intros E C. unfold clear_f, clear. rewrite E, (flush_clean_id c1 C). reflexivity. Qed.

Lemma clear_f_err lim c c1 : flush_f lim c = FErr c1 -> clear_f lim c = FErr c1.
Proof. intros E. unfold clear_f. rewrite E. reflexivity. Qed.

Lemma remove_chunks_f_ok lim c c1 :
  flush_f lim c = FOk c1 -> all_clean c1 -> remove_chunks_f lim c = of_res (remove_chunks c1).
Proof.
  intros E C. unfold remove_chunks_f, remove_chunks. rewrite (clear_f_ok lim c c1 E C).
  destruct (clear c1); reflexivity.
Qed.

Lemma remove_chunks_f_err lim c c1 : flush_f lim c = FErr c1 -> remove_chunks_f lim c = FErr c1.
Proof. intros E. unfold remove_chunks_f. rewrite (clear_f_err lim c c1 E). reflexivity. Qed.

(** the lemmas of Cache_proofs.v for [cache_inv], transported to [cache_invx] *)
Lemma inv0_of_invx c : cache_invx c -> cache_inv (set_pos c 0).
Proof. intros I. apply invx_inv; [apply invx_set_pos; exact I|cbn; lia]. Qed.

Lemma invx_of_inv0 c : cache_inv (set_pos c 0) -> cache_invx c.
Proof.
  intros I. apply inv_invx in I. apply (invx_set_pos _ (k_pos c)) in I.
  rewrite set_pos_set_pos, set_pos_id in I. exact I.
Qed.

Lemma fr_rel_pos0 c c1 : fr_rel (set_pos c 0) c1 -> fr_rel c (set_pos c1 (k_pos c)).
Proof. intros [A1 A2 A3 A4 A5]. constructor; try assumption; try reflexivity. Qed.

Lemma setup_auto_invx c : cache_invx c -> cache_invx (setup_auto c).
Proof.
  intros I. apply invx_of_inv0. rewrite <- setup_auto_pos. apply setup_auto_inv, inv0_of_invx, I.
Qed.

Lemma set_fc_invx c o :
  cache_invx c -> (forall off i, o = Some (off, i) -> map c_off (k_chunks c) !! i = Some off) ->
  cache_invx (set_fc c o).
Proof.
  intros I H. constructor; cbn.
  - exact (invx_cs c I).
  - exact (invx_data c I).
  - exact H.
  - exact (invx_len c I).
  - exact (invx_cfg c I).
Qed.

Lemma add_chunk_room_x f c off :
  cache_invx c -> off mod k_cs c = 0 -> off <= k_end c -> find_idx off (k_chunks c) = None ->
  nchunks c < k_max c ->
  exists c1 i, add_chunk (S f) c off = Ok (c1, i) /\ cache_invx c1 /\ fr_rel c c1 /\ k_fc c1 = None /\
    map c_off (k_chunks c1) !! i = Some off.
Proof.
  intros I Hm Hoe Hnone Hroom.
  destruct (add_chunk_room f (set_pos c 0) off (inv0_of_invx c I) Hm Hoe Hnone Hroom) as (c1 & i & E & I1 & F1 & FC & L).
  exists (set_pos c1 (k_pos c)), i. split; [|split; [|split; [|split]]].
  - rewrite <- (set_pos_id c) at 1. rewrite <- (set_pos_set_pos c 0 (k_pos c)).
    rewrite add_chunk_pos, E. reflexivity.
  - apply invx_set_pos, inv_invx, I1.
  - exact (fr_rel_pos0 c c1 F1).
  - exact FC.
  - exact L.
Qed.

Lemma remove_chunks_room_x c off :
  cache_invx c -> off mod k_cs c = 0 -> off <= k_end c -> find_idx off (k_chunks c) = None ->
  exists c3, remove_chunks c = Ok c3 /\ cache_invx c3 /\ fr_rel c c3 /\
    find_idx off (k_chunks c3) = None /\ nchunks c3 < k_max c3.
Proof.
  intros I Hm Hoe Hnone.
  destruct (remove_chunks_room (set_pos c 0) off (inv0_of_invx c I) Hm Hoe Hnone) as (c3 & E & I3 & F3 & N3 & R3).
  exists (set_pos c3 (k_pos c)). split; [|split; [|split; [|split]]].
  - rewrite <- (set_pos_id c) at 1. rewrite <- (set_pos_set_pos c 0 (k_pos c)).
    rewrite remove_chunks_pos, E. reflexivity.
  - apply invx_set_pos, inv_invx, I3.
  - exact (fr_rel_pos0 c c3 F3).
  - exact N3.
  - exact R3.
Qed.

Lemma add_chunk_f_room lim f c off :
  nchunks c < k_max c -> add_chunk_f lim (S f) c off = of_res (add_chunk (S f) c off).
Proof.
  intros H. cbn [add_chunk_f add_chunk]. destruct (N.eqb_spec (nchunks c) (k_max c)) as [E|_]; [lia|].
  change (nchunks (set_fc c None)) with (nchunks c). change (k_max (set_fc c None)) with (k_max c).
  destruct (N.ltb_spec (nchunks c) (k_max c)) as [_|H']; [|lia].
  rewrite of_res_bind. destruct (chunk_new (set_fc c None) off); reflexivity.
Qed.

Lemma add_chunk_f_S lim f c off :
  add_chunk_f lim (S f) c off =
  let c1 := if nchunks c =? k_max c then setup_auto c else c in
  let c2 := set_fc c1 None in
  if nchunks c2 <? k_max c2 then
    let+ ch := of_res (chunk_new c2 off) in
    FOk (set_chunks c2 (k_chunks c2 ++ [ch]), length (k_chunks c2))
  else
    let+ c3 := remove_chunks_f lim c2 in
    add_chunk_f lim f c3 off.
Proof. reflexivity. Qed.

Lemma wbf_fr c c1 : wbf_rel c c1 -> fr_rel c c1.
Proof. intros [W _ _]. exact (wb_fr _ _ W). Qed.

(** [add_chunk] under the limit: it returns the index of the new chunk, or the eviction failed:
    then nothing a reader sees has changed (some chunks may have been written, the maximum may
    have been raised, the fetch cache is empty) *)
Lemma add_chunk_f_spec lim fuel c off :
  cache_invx c -> off mod k_cs c = 0 -> off <= k_end c -> find_idx off (k_chunks c) = None ->
  (2 <= fuel)%nat ->
  fout (add_chunk_f lim fuel c off)
    (fun '(c1, i) => cache_invx c1 /\ fr_rel c c1 /\ k_fc c1 = None /\ map c_off (k_chunks c1) !! i = Some off)
    (fun c1 => lim <> None /\ cache_invx c1 /\ fr_rel c c1).
Proof.
  intros I Hm Hoe Hnone Hf. destruct fuel as [|[|f]]; try lia.
  set (c1 := if nchunks c =? k_max c then setup_auto c else c).
  assert (I1 : cache_invx c1) by (unfold c1; destruct (nchunks c =? k_max c); [apply setup_auto_invx|]; exact I).
  assert (F1 : fr_rel c c1) by (unfold c1; destruct (nchunks c =? k_max c); [apply setup_auto_fr|apply fr_refl]).
  assert (K1 : k_chunks c1 = k_chunks c).
  { unfold c1. destruct (nchunks c =? k_max c); [|reflexivity]. apply (setup_auto_fields c). }
  assert (Hm1 : off mod k_cs c1 = 0) by (rewrite (fr_cs _ _ F1); exact Hm).
  assert (Hoe1 : off <= k_end c1) by (rewrite (fr_end _ _ F1); exact Hoe).
  assert (Hn1 : find_idx off (k_chunks c1) = None) by (rewrite K1; exact Hnone).
  rewrite add_chunk_f_S. cbv zeta. fold c1.
  change (nchunks (set_fc c1 None)) with (nchunks c1). change (k_max (set_fc c1 None)) with (k_max c1).
  destruct (N.ltb_spec (nchunks c1) (k_max c1)) as [Hroom|Hfull].
  - (* room, possibly after the maximum was raised *)
    destruct (add_chunk_room_x (S f) c1 off I1 Hm1 Hoe1 Hn1 Hroom) as (c2 & i & E & I2 & F2 & FC & L).
    cbn [add_chunk] in E. destruct (N.eqb_spec (nchunks c1) (k_max c1)) as [E1|_]; [lia|].
    change (nchunks (set_fc c1 None)) with (nchunks c1) in E. change (k_max (set_fc c1 None)) with (k_max c1) in E.
    destruct (N.ltb_spec (nchunks c1) (k_max c1)) as [_|H']; [|lia].
    destruct (chunk_new (set_fc c1 None) off) as [ch| | |]; cbn [rbind] in E; try discriminate.
    injection E as <- <-. cbn [of_res fbind fout].
    split; [exact I2|]. split; [exact (fr_trans _ _ _ F1 F2)|]. split; [exact FC|exact L].
  - (* full: the eviction may fail *)
    set (c2 := set_fc c1 None).
    assert (I2 : cache_invx c2) by (apply set_fc_invx; [exact I1|discriminate]).
    assert (F2 : fr_rel c c2) by (apply (fr_trans _ _ _ F1); constructor; reflexivity).
    pose proof I2 as I2'. apply invx_split in I2' as [Ig2 _].
    destruct (flush_f_spec lim c2 (invx_cs c2 I2) (invg_data c2 Ig2)) as (c' & ok & E & D & W & C & N).
    pose proof (wbf_invx _ _ I2 D W) as I'. pose proof (wbf_fr _ _ W) as F'.
    destruct ok; cbn [fpack] in E.
    + rewrite (remove_chunks_f_ok lim c2 c' E (C eq_refl)).
      destruct (remove_chunks_room_x c' off I') as (c3 & E3 & I3 & F3 & N3 & R3).
      { rewrite (fr_cs _ _ F'). exact Hm1. } { rewrite (fr_end _ _ F'). exact Hoe1. }
      { rewrite (find_idx_ext off _ _ (wb_offs _ _ (wbf_wb _ _ W))). exact Hn1. }
      rewrite E3. cbn [of_res fbind]. rewrite (add_chunk_f_room lim f c3 off R3).
      destruct (add_chunk_room_x f c3 off I3) as (c4 & i & E4 & I4 & F4 & FC & L).
      { rewrite (fr_cs _ _ F3), (fr_cs _ _ F'). exact Hm1. }
      { rewrite (fr_end _ _ F3), (fr_end _ _ F'). exact Hoe1. } { exact N3. } { exact R3. }
      rewrite E4. cbn [of_res fout]. split; [exact I4|]. split; [|split; [exact FC|exact L]].
      exact (fr_trans _ _ _ F2 (fr_trans _ _ _ F' (fr_trans _ _ _ F3 F4))).
    + rewrite (remove_chunks_f_err lim c2 c' E). cbn [fbind fout].
      split; [exact (N eq_refl)|]. split; [exact I'|exact (fr_trans _ _ _ F2 F')].
Qed.

Lemma invx_fc_chunk c o i :
  cache_invx c -> k_fc c = Some (o, i) -> exists ch, k_chunks c !! i = Some ch /\ c_off ch = o.
Proof.
  intros I H. pose proof (invx_fc c I o i H) as H1. rewrite list_lookup_fmap in H1.
  destruct (k_chunks c !! i) as [ch|]; [|discriminate]. injection H1 as H1. exists ch. split; [reflexivity|exact H1].
Qed.

(** [fetch_chunk] under the limit.  After a success the fetch cache names the chunk, so the
    fetch that the corresponding function of Cache.v would do from the new state is a hit. *)
Lemma fetch_chunk_f_spec lim fuel c p :
  cache_invx c -> chunk_off (k_cs c) p <= k_end c -> (2 <= fuel)%nat ->
  fout (fetch_chunk_f lim fuel c p)
    (fun '(c1, i) => cache_invx c1 /\ fr_rel c c1 /\ k_fc c1 = Some (chunk_off (k_cs c) p, i))
    (fun c1 => lim <> None /\ cache_invx c1 /\ fr_rel c c1).
Proof.
  intros I Hp Hf. pose proof (invx_cs c I) as Hcs.
  set (off := chunk_off (k_cs c) p) in *.
  assert (Hslow : fout
    match find_idx off (k_chunks c) with
    | Some i => FOk (set_fc c (Some (off, i)), i)
    | None => let+ (c1, i) := add_chunk_f lim fuel c off in FOk (set_fc c1 (Some (off, i)), i)
    end
    (fun '(c1, i) => cache_invx c1 /\ fr_rel c c1 /\ k_fc c1 = Some (off, i))
    (fun c1 => lim <> None /\ cache_invx c1 /\ fr_rel c c1)).
  { destruct (find_idx off (k_chunks c)) as [i|] eqn:F.
    - destruct (find_idx_Some _ _ _ F) as (ch & Hl & Ho). cbn [fout].
      split; [|split; [constructor; reflexivity|reflexivity]].
      apply set_fc_invx; [exact I|]. intros o j E. injection E as <- <-.
      rewrite list_lookup_fmap, Hl. cbn. rewrite Ho. reflexivity.
    - apply (fout_bind _ _ _ _ _ _ (add_chunk_f_spec lim fuel c off I (chunk_off_mod _ _ Hcs) Hp F Hf)).
      + intros [c1 i] (I1 & F1 & FC & L). cbn [fout].
        split; [|split; [apply (fr_trans _ _ _ F1); constructor; reflexivity|reflexivity]].
        apply set_fc_invx; [exact I1|]. intros o j E'. injection E' as <- <-. exact L.
      + intros c1 H. exact H. }
  unfold fetch_chunk_f. fold off.
  destruct (k_fc c) as [[o i]|] eqn:Efc; [|exact Hslow].
  destruct (N.eqb_spec o off) as [E|E]; [|exact Hslow].
  cbn [fout]. split; [exact I|]. split; [apply fr_refl|]. rewrite Efc, E. reflexivity.
Qed.

Lemma fetch_hit fuel c p i : k_fc c = Some (chunk_off (k_cs c) p, i) -> fetch_chunk fuel c p = Ok (c, i).
Proof. intros H. unfold fetch_chunk. rewrite H, N.eqb_refl. reflexivity. Qed.

(** ** 7. the calls of the public API under the limit *)

(** what a failed call leaves when nothing it did changes the flat state *)
Definition Qf (lim : option N) (c : cache) (f : flat) (c1 : cache) : Prop :=
  lim <> None /\ cache_invx c1 /\ R c1 f /\ k_cs c1 = k_cs c /\ k_auto c1 = k_auto c.

Lemma Qf_fr lim c f c1 : R c f -> lim <> None /\ cache_invx c1 /\ fr_rel c c1 -> Qf lim c f c1.
Proof.
  intros HR (N & I & F). split; [exact N|]. split; [exact I|]. split; [exact (R_fr _ _ _ F HR)|].
  split; [exact (fr_cs _ _ F)|exact (fr_auto _ _ F)].
Qed.

Lemma Qf_trans lim c c1 f c2 :
  k_cs c1 = k_cs c -> k_auto c1 = k_auto c -> Qf lim c1 f c2 -> Qf lim c f c2.
Proof.
  intros C A (N & I & HR & C2 & A2). split; [exact N|]. split; [exact I|]. split; [exact HR|]. split; congruence.
Qed.

Lemma flat_eta f : Flat (f_pos f) (f_bytes f) = f.
Proof. destruct f. reflexivity. Qed.

(** the fetch at the position *)
Lemma fetch_pos_spec lim fuel c f :
  cache_invx c -> R c f -> (2 <= fuel)%nat -> chunk_off (k_cs c) (f_pos f) <= f_end f ->
  fout (fetch_chunk_f lim fuel c (k_pos c))
    (fun '(c1, i) => cache_invx c1 /\ R c1 f /\ k_cs c1 = k_cs c /\ k_auto c1 = k_auto c /\
        k_fc c1 = Some (chunk_off (k_cs c1) (k_pos c1), i))
    (Qf lim c f).
Proof.
  intros I HR Hf Hoff. pose proof HR as (R1 & R2 & R3).
  apply (fout_impl _ _ _ _ _ (fetch_chunk_f_spec lim fuel c (k_pos c) I ltac:(rewrite R1, R2; exact Hoff) Hf)).
  - intros [c1 i] (I1 & F1 & FC). split; [exact I1|]. split; [exact (R_fr _ _ _ F1 HR)|].
    split; [exact (fr_cs _ _ F1)|]. split; [exact (fr_auto _ _ F1)|].
    rewrite (fr_cs _ _ F1), (fr_pos _ _ F1). exact FC.
  - intros c1 H. exact (Qf_fr lim c f c1 HR H).
Qed.

(** [read] *)
Lemma read_f_after lim fuel c n c1 i :
  fetch_chunk_f lim fuel c (k_pos c) = FOk (c1, i) -> k_fc c1 = Some (chunk_off (k_cs c1) (k_pos c1), i) ->
  read_f lim fuel c n = of_res (read fuel c1 n).
Proof.
  intros E FC. unfold read_f, read. rewrite E, (fetch_hit fuel c1 (k_pos c1) i FC). cbn [fbind rbind].
  rewrite of_res_bind. destruct (get_chunk c1 i); reflexivity.
Qed.

Lemma read_f_spec lim fuel c f n :
  cache_invx c -> R c f -> (2 <= fuel)%nat -> chunk_off (k_cs c) (f_pos f) <= f_end f ->
  fout (read_f lim fuel c n)
    (fun '(c1, b) => b = xr (f_bytes f) (f_pos f) (N.min n (to_boundary (k_cs c) (f_pos f))) /\ cache_invx c1 /\
       R c1 (Flat (f_pos f + N.min n (to_boundary (k_cs c) (f_pos f))) (f_bytes f)) /\
       k_cs c1 = k_cs c /\ k_auto c1 = k_auto c)
    (Qf lim c f).
Proof.
  intros I HR Hf Hoff. pose proof (fetch_pos_spec lim fuel c f I HR Hf Hoff) as HF.
  destruct (fetch_chunk_f lim fuel c (k_pos c)) as [[c1 i]|c1|s] eqn:E; cbn [fout] in HF; [| |contradiction].
  - destruct HF as (I1 & R1 & C1 & A1 & FC). rewrite (read_f_after lim fuel c n c1 i E FC).
    destruct (read_spec_x fuel c1 f n I1 R1 Hf) as (c2 & E2 & I2 & R2 & C2 & A2); [rewrite C1; exact Hoff|].
    rewrite C1 in E2, R2. rewrite E2. cbn [of_res fout].
    split; [reflexivity|]. split; [exact I2|]. split; [exact R2|]. split; congruence.
  - unfold read_f. rewrite E. exact HF.
Qed.

(** [read_exact]: a failure comes after [k] bytes have been consumed *)
Lemma read_loop_f_spec lim fa fuel : forall c f n acc,
  cache_invx c -> R c f -> (2 <= fa)%nat -> (N.to_nat n < fuel)%nat ->
  (0 < n -> chunk_off (k_cs c) (f_pos f + (n - 1)) <= f_end f) ->
  fout (read_loop_f lim fa fuel c n acc)
    (fun '(c1, b) => b = acc ++ xr (f_bytes f) (f_pos f) n /\ cache_invx c1 /\
       R c1 (Flat (f_pos f + n) (f_bytes f)) /\ k_cs c1 = k_cs c /\ k_auto c1 = k_auto c)
    (fun c1 => lim <> None /\ cache_invx c1 /\ (exists k, k < n /\ R c1 (Flat (f_pos f + k) (f_bytes f))) /\
       k_cs c1 = k_cs c /\ k_auto c1 = k_auto c).
Proof.
  induction fuel as [|fuel IH]; intros c f n acc I HR Hfa Hfuel Hn; [lia|].
  cbn [read_loop_f]. destruct (N.eqb_spec n 0) as [->|Hn0].
  - cbn [fout]. rewrite xr_zero, app_nil_r, N.add_0_r, flat_eta.
    split; [reflexivity|]. split; [exact I|]. split; [exact HR|]. split; reflexivity.
  - pose proof (invx_cs c I) as Hcs. pose proof (to_boundary_pos (k_cs c) (f_pos f) Hcs) as Hb.
    specialize (Hn ltac:(lia)).
    set (k := N.min n (to_boundary (k_cs c) (f_pos f))).
    assert (Hoff : chunk_off (k_cs c) (f_pos f) <= f_end f).
    { pose proof (chunk_off_mono (k_cs c) (f_pos f) (f_pos f + (n - 1)) ltac:(lia)). lia. }
    apply (fout_bind _ _ _ _ _ _ (read_f_spec lim fa c f n I HR Hfa Hoff)).
    + intros [c1 got] (-> & I1 & R1 & C1 & A1). fold k in R1 |- *. rewrite blen_xr.
      destruct (N.eqb_spec k 0) as [Hk0|_]; [lia|].
      assert (Hn1 : 0 < n - k -> chunk_off (k_cs c1) (f_pos (Flat (f_pos f + k) (f_bytes f)) + (n - k - 1)) <=
                               f_end (Flat (f_pos f + k) (f_bytes f))).
      { intros Hnk. cbn [f_pos f_end f_bytes]. rewrite C1.
        replace (f_pos f + k + (n - k - 1)) with (f_pos f + (n - 1)) by lia. exact Hn. }
      apply (fout_impl _ _ _ _ _ (IH c1 (Flat (f_pos f + k) (f_bytes f)) (n - k)
                                    (acc ++ xr (f_bytes f) (f_pos f) k) I1 R1 Hfa ltac:(lia) Hn1)).
      * intros [c2 b] (-> & I2 & R2 & C2 & A2). cbn [f_pos f_bytes] in *.
        split; [|split; [exact I2|split; [|split; congruence]]].
        -- rewrite <- app_assoc. f_equal. replace n with (k + (n - k)) at 2 by lia. symmetry. apply xr_split.
        -- replace (f_pos f + n) with (f_pos f + k + (n - k)) by lia. exact R2.
      * intros c2 (N2 & I2 & (k' & Hk' & R2) & C2 & A2). cbn [f_pos f_bytes] in *.
        split; [exact N2|]. split; [exact I2|]. split; [|split; congruence].
        exists (k + k'). split; [lia|]. rewrite N.add_assoc. exact R2.
    + intros c1 (N1 & I1 & R1 & C1 & A1). split; [exact N1|]. split; [exact I1|].
      split; [|split; assumption]. exists 0. split; [lia|]. rewrite N.add_0_r, flat_eta. exact R1.
Qed.

Lemma read_exact_f_spec lim fuel c f n :
  cache_invx c -> R c f -> (N.to_nat n + 2 <= fuel)%nat ->
  (0 < n -> chunk_off (k_cs c) (f_pos f + (n - 1)) <= f_end f) ->
  fout (read_exact_f lim fuel c n)
    (fun '(c1, b) => b = xr (f_bytes f) (f_pos f) n /\ cache_invx c1 /\
       R c1 (Flat (f_pos f + n) (f_bytes f)) /\ k_cs c1 = k_cs c /\ k_auto c1 = k_auto c)
    (fun c1 => lim <> None /\ cache_invx c1 /\ (exists k, k < n /\ R c1 (Flat (f_pos f + k) (f_bytes f))) /\
       k_cs c1 = k_cs c /\ k_auto c1 = k_auto c).
Proof.
  intros I HR Hf Hn. unfold read_exact_f.
  apply (fout_impl _ _ _ _ _ (read_loop_f_spec lim fuel fuel c f n [] I HR ltac:(lia) ltac:(lia) Hn)).
  - intros [c1 b] H. exact H.
  - intros c1 H. exact H.
Qed.

(** the [SmallRead] family *)
Lemma read_small_f_spec lim fuel c f chk need n :
  cache_invx c -> R c f -> (N.to_nat n + 2 <= fuel)%nat ->
  chunk_off (k_cs c) (f_pos f + (n - 1)) <= f_end f ->
  (chk && (k_cs c <? n)) || (need <? n) = false ->
  fout (read_small_f lim fuel c chk need n)
    (fun '(c1, b) => b = xr (f_bytes f) (f_pos f) n /\ cache_invx c1 /\
       R c1 (Flat (f_pos f + n) (f_bytes f)) /\ k_cs c1 = k_cs c /\ k_auto c1 = k_auto c)
    (fun c1 => lim <> None /\ cache_invx c1 /\ (exists k, k <= n - 1 /\ R c1 (Flat (f_pos f + k) (f_bytes f))) /\
       k_cs c1 = k_cs c /\ k_auto c1 = k_auto c).
Proof.
  intros I HR Hf Hn Hdom. pose proof Hdom as Hdom'. apply orb_false_elim in Hdom' as [Hchk Hneed].
  assert (Hoff : chunk_off (k_cs c) (f_pos f) <= f_end f).
  { pose proof (chunk_off_mono (k_cs c) (f_pos f) (f_pos f + (n - 1)) ltac:(lia)). lia. }
  pose proof (fetch_pos_spec lim fuel c f I HR ltac:(lia) Hoff) as HF.
  unfold read_small_f. rewrite Hchk.
  destruct (fetch_chunk_f lim fuel c (k_pos c)) as [[c1 i]|c1|s] eqn:E; cbn [fout] in HF; [| |contradiction].
  - destruct HF as (I1 & R1 & C1 & A1 & FC). cbn [fbind].
    destruct (invx_fc_chunk c1 _ i I1 FC) as (ch & Hl & Ho). unfold get_chunk. rewrite Hl. cbn [of_res fbind].
    destruct (k_pos c1 - c_off ch + need <=? blen (c_data ch)) eqn:Hfit.
    + destruct (read_small_spec_x fuel c1 f chk need n I1 R1 Hf) as (c2 & E2 & I2 & R2 & C2 & A2);
        [rewrite C1; exact Hn|rewrite C1; exact Hdom|].
      unfold read_small in E2. rewrite C1, Hchk, (fetch_hit fuel c1 (k_pos c1) i FC) in E2.
      cbn [rbind] in E2. unfold get_chunk in E2. rewrite Hl in E2. cbn [rbind] in E2. rewrite Hfit in E2.
      injection E2 as <- Eb. cbn [fout]. split; [exact Eb|]. split; [exact I2|]. split; [exact R2|]. split; congruence.
    + apply (fout_impl _ _ _ _ _ (read_exact_f_spec lim fuel c1 f n I1 R1 Hf ltac:(intros _; rewrite C1; exact Hn))).
      * intros [c2 b] (Eb & I2 & R2 & C2 & A2). split; [exact Eb|]. split; [exact I2|]. split; [exact R2|]. split; congruence.
      * intros c2 (N2 & I2 & (k & Hk & K2) & C2 & A2). split; [exact N2|]. split; [exact I2|].
        split; [exists k; split; [lia|exact K2]|]. split; congruence.
  - cbn [fbind fout]. destruct HF as (N1 & I1 & R1 & C1 & A1). split; [exact N1|]. split; [exact I1|].
    split; [|split; assumption]. exists 0. split; [lia|]. rewrite N.add_0_r, flat_eta. exact R1.
Qed.

(** [write] *)
Lemma write_f_after lim fuel c buf c1 i :
  fetch_chunk_f lim fuel c (k_pos c) = FOk (c1, i) -> k_fc c1 = Some (chunk_off (k_cs c1) (k_pos c1), i) ->
  write_f lim fuel c buf = of_res (write fuel c1 buf).
Proof.
  intros E FC. unfold write_f, write. rewrite E, (fetch_hit fuel c1 (k_pos c1) i FC). cbn [fbind rbind].
  rewrite of_res_bind. destruct (get_chunk c1 i); reflexivity.
Qed.

Lemma R_pos_le c f : R c f -> f_pos f <= f_end f -> k_pos c <= k_end c.
Proof. intros (R1 & R2 & _) H. rewrite R1, R2. exact H. Qed.

Lemma write_f_spec lim fuel c f buf :
  cache_invx c -> R c f -> f_pos f <= f_end f -> (2 <= fuel)%nat ->
  fout (write_f lim fuel c buf)
    (fun '(c1, k) => k = N.min (blen buf) (to_boundary (k_cs c) (f_pos f)) /\ cache_inv c1 /\
       R c1 (Flat (f_pos f + k) (splice (f_bytes f) (f_pos f) (take (N.to_nat k) buf))) /\
       k_cs c1 = k_cs c /\ k_auto c1 = k_auto c)
    (Qf lim c f).
Proof.
  intros I HR Hp Hf.
  assert (Hoff : chunk_off (k_cs c) (f_pos f) <= f_end f) by (pose proof (chunk_off_le (k_cs c) (f_pos f)); lia).
  pose proof (fetch_pos_spec lim fuel c f I HR Hf Hoff) as HF.
  destruct (fetch_chunk_f lim fuel c (k_pos c)) as [[c1 i]|c1|s] eqn:E; cbn [fout] in HF; [| |contradiction].
  - destruct HF as (I1 & R1 & C1 & A1 & FC). rewrite (write_f_after lim fuel c buf c1 i E FC).
    destruct (write_spec fuel c1 f buf (invx_inv c1 I1 (R_pos_le c1 f R1 Hp)) R1 Hf) as (c2 & E2 & I2 & R2 & C2 & A2).
    rewrite C1 in E2, R2. rewrite E2. cbn [of_res fout].
    split; [reflexivity|]. split; [exact I2|]. split; [exact R2|]. split; congruence.
  - unfold write_f. rewrite E. exact HF.
Qed.

(** [write_all]: a failure comes after the first [k] bytes have been applied *)
Lemma write_loop_f_spec lim fa fuel : forall c f buf,
  cache_invx c -> R c f -> f_pos f <= f_end f -> (2 <= fa)%nat -> (length buf < fuel)%nat ->
  fout (write_loop_f lim fa fuel c buf)
    (fun c1 => cache_inv c1 /\ R c1 (Flat (f_pos f + blen buf) (splice (f_bytes f) (f_pos f) buf)) /\
       k_cs c1 = k_cs c /\ k_auto c1 = k_auto c)
    (fun c1 => lim <> None /\ cache_invx c1 /\
       (exists k, k < blen buf /\
          R c1 (Flat (f_pos f + k) (splice (f_bytes f) (f_pos f) (take (N.to_nat k) buf)))) /\
       k_cs c1 = k_cs c /\ k_auto c1 = k_auto c).
Proof.
  induction fuel as [|fuel IH]; intros c f buf I HR Hp Hfa Hfuel; [lia|].
  assert (Hnil : Flat (f_pos f + 0) (splice (f_bytes f) (f_pos f) []) = f).
  { rewrite N.add_0_r, splice_nil by (unfold f_end in Hp; exact Hp). apply flat_eta. }
  cbn [write_loop_f]. destruct buf as [|x buf'] eqn:Eb.
  - cbn [fout]. rewrite blen_nil, Hnil. split; [exact (invx_inv c I (R_pos_le c f HR Hp))|].
    split; [exact HR|]. split; reflexivity.
  - rewrite <- Eb in *. assert (Hbl : 0 < blen buf) by (rewrite Eb, blen_cons; lia).
    pose proof (invx_cs c I) as Hcs. pose proof (to_boundary_pos (k_cs c) (f_pos f) Hcs) as Hb.
    set (k := N.min (blen buf) (to_boundary (k_cs c) (f_pos f))).
    apply (fout_bind _ _ _ _ _ _ (write_f_spec lim fa c f buf I HR Hp Hfa)).
    + intros [c1 k0] (-> & I1 & R1 & C1 & A1). fold k in R1 |- *.
      destruct (N.eqb_spec k 0) as [Hk0|_]; [lia|].
      assert (Hbt : blen (take (N.to_nat k) buf) = k) by (rewrite blen_take; lia).
      assert (Hp1 : f_pos (Flat (f_pos f + k) (splice (f_bytes f) (f_pos f) (take (N.to_nat k) buf))) <=
                    f_end (Flat (f_pos f + k) (splice (f_bytes f) (f_pos f) (take (N.to_nat k) buf)))).
      { unfold f_end. cbn [f_pos f_bytes]. rewrite blen_splice, Hbt. lia. }
      assert (Hlen1 : (length (drop (N.to_nat k) buf) < fuel)%nat) by (rewrite drop_length; unfold blen in *; lia).
      apply (fout_impl _ _ _ _ _ (IH c1 _ (drop (N.to_nat k) buf) (inv_invx c1 I1) R1 Hp1 Hfa Hlen1)).
      * intros c2 (I2 & R2 & C2 & A2). cbn [f_pos f_bytes] in R2. split; [exact I2|]. split; [|split; congruence].
        pose proof (splice_app (f_bytes f) (f_pos f) (take (N.to_nat k) buf) (drop (N.to_nat k) buf)) as Hs.
        rewrite take_drop, Hbt in Hs. rewrite <- Hs in R2.
        rewrite blen_drop in R2. replace (f_pos f + k + (blen buf - k)) with (f_pos f + blen buf) in R2 by lia.
        exact R2.
      * intros c2 (N2 & I2 & (k' & Hk' & R2) & C2 & A2). cbn [f_pos f_bytes] in R2.
        split; [exact N2|]. split; [exact I2|]. split; [|split; congruence].
        rewrite blen_drop in Hk'. exists (k + k'). split; [lia|].
        pose proof (splice_app (f_bytes f) (f_pos f) (take (N.to_nat k) buf)
                      (take (N.to_nat k') (drop (N.to_nat k) buf))) as Hs.
        rewrite take_take_drop, Hbt in Hs. rewrite <- Hs in R2.
        replace (N.to_nat (k + k')) with (N.to_nat k + N.to_nat k')%nat by lia.
        rewrite N.add_assoc. exact R2.
    + intros c1 (N1 & I1 & R1 & C1 & A1). split; [exact N1|]. split; [exact I1|]. split; [|split; assumption].
      exists 0. split; [lia|]. change (take (N.to_nat 0) buf) with (@nil N). rewrite Hnil. exact R1.
Qed.

Lemma write_all_f_spec lim fuel c f buf :
  cache_invx c -> R c f -> f_pos f <= f_end f -> (length buf + 2 <= fuel)%nat ->
  fout (write_all_f lim fuel c buf)
    (fun c1 => cache_inv c1 /\ R c1 (Flat (f_pos f + blen buf) (splice (f_bytes f) (f_pos f) buf)) /\
       k_cs c1 = k_cs c /\ k_auto c1 = k_auto c)
    (fun c1 => lim <> None /\ cache_invx c1 /\
       (exists k, k < blen buf /\
          R c1 (Flat (f_pos f + k) (splice (f_bytes f) (f_pos f) (take (N.to_nat k) buf)))) /\
       k_cs c1 = k_cs c /\ k_auto c1 = k_auto c).
Proof. intros I HR Hp Hf. unfold write_all_f. apply write_loop_f_spec; [exact I|exact HR|exact Hp|lia|lia]. Qed.

(** the [SmallWrite] family *)
Lemma write_small_f_spec lim fuel c f chk buf :
  cache_invx c -> R c f -> f_pos f <= f_end f -> (length buf + 2 <= fuel)%nat ->
  chk && (k_cs c <? blen buf) = false ->
  fout (write_small_f lim fuel c chk buf)
    (fun c1 => cache_inv c1 /\ R c1 (Flat (f_pos f + blen buf) (splice (f_bytes f) (f_pos f) buf)) /\
       k_cs c1 = k_cs c /\ k_auto c1 = k_auto c)
    (fun c1 => lim <> None /\ cache_invx c1 /\
       (exists k, k <= blen buf - 1 /\
          R c1 (Flat (f_pos f + k) (splice (f_bytes f) (f_pos f) (take (N.to_nat k) buf)))) /\
       k_cs c1 = k_cs c /\ k_auto c1 = k_auto c).
Proof.
  intros I HR Hp Hf Hchk.
  assert (Hoff : chunk_off (k_cs c) (f_pos f) <= f_end f) by (pose proof (chunk_off_le (k_cs c) (f_pos f)); lia).
  assert (Hnil : Flat (f_pos f + 0) (splice (f_bytes f) (f_pos f) []) = f).
  { rewrite N.add_0_r, splice_nil by (unfold f_end in Hp; exact Hp). apply flat_eta. }
  pose proof (fetch_pos_spec lim fuel c f I HR ltac:(lia) Hoff) as HF.
  unfold write_small_f. rewrite Hchk.
  destruct (fetch_chunk_f lim fuel c (k_pos c)) as [[c1 i]|c1|s] eqn:E; cbn [fout] in HF; [| |contradiction].
  - destruct HF as (I1 & R1 & C1 & A1 & FC). cbn [fbind].
    destruct (invx_fc_chunk c1 _ i I1 FC) as (ch & Hl & Ho). unfold get_chunk. rewrite Hl. cbn [of_res fbind].
    destruct (k_pos c1 - c_off ch + blen buf <=? blen (c_data ch)) eqn:Hfit.
    + destruct (write_small_spec fuel c1 f chk buf (invx_inv c1 I1 (R_pos_le c1 f R1 Hp)) R1 Hf)
        as (c2 & E2 & I2 & R2 & C2 & A2); [rewrite C1; exact Hchk|].
      unfold write_small in E2. rewrite C1, Hchk, (fetch_hit fuel c1 (k_pos c1) i FC) in E2.
      cbn [rbind] in E2. unfold get_chunk in E2. rewrite Hl in E2. cbn [rbind] in E2. rewrite Hfit in E2.
      injection E2 as <-. cbn [fout]. split; [exact I2|]. split; [exact R2|]. split; congruence.
    + apply (fout_impl _ _ _ _ _ (write_all_f_spec lim fuel c1 f buf I1 R1 Hp Hf)).
      * intros c2 (I2 & R2 & C2 & A2). split; [exact I2|]. split; [exact R2|]. split; congruence.
      * intros c2 (N2 & I2 & (k & Hk & K2) & C2 & A2). split; [exact N2|]. split; [exact I2|].
        split; [exists k; split; [lia|exact K2]|]. split; congruence.
  - cbn [fbind fout]. destruct HF as (N1 & I1 & R1 & C1 & A1). split; [exact N1|]. split; [exact I1|].
    split; [|split; assumption]. exists 0. split; [lia|]. change (take (N.to_nat 0) buf) with (@nil N).
    rewrite Hnil. exact R1.
Qed.

(** [flush], [sync], [clear], [prepare], [read_fill_buffer] *)
Lemma clear_spec_x c : cache_invx c -> exists c2, clear c = Ok c2 /\ cache_invx c2 /\ fr_rel c c2.
Proof.
  intros I. destruct (clear_spec (set_pos c 0) (inv0_of_invx c I)) as (c2 & E & I2 & F2 & _).
  exists (set_pos c2 (k_pos c)). split; [|split].
  - rewrite <- (set_pos_id c) at 1. rewrite <- (set_pos_set_pos c 0 (k_pos c)). rewrite clear_pos, E. reflexivity.
  - apply invx_set_pos, inv_invx, I2.
  - exact (fr_rel_pos0 c c2 F2).
Qed.

Lemma flush_f_op_spec lim c f :
  cache_invx c -> R c f ->
  fout (flush_f lim c)
    (fun c1 => cache_invx c1 /\ R c1 f /\ k_cs c1 = k_cs c /\ k_auto c1 = k_auto c /\ all_clean c1)
    (Qf lim c f).
Proof.
  intros I HR. destruct (flush_f_view_intact lim c f I HR) as (c1 & ok & E & R1 & I1 & C1 & A1 & _ & Cl & N).
  rewrite E. destruct ok; cbn [fpack fout].
  - split; [exact I1|]. split; [exact R1|]. split; [exact C1|]. split; [exact A1|exact (Cl eq_refl)].
  - split; [exact (N eq_refl)|]. split; [exact I1|]. split; [exact R1|]. split; assumption.
Qed.

Lemma set_events_invx c evs : cache_invx c -> cache_invx (set_disk c (k_disk c) evs).
Proof. intros [A B C D E]. constructor; assumption. Qed.

Lemma sync_f_spec lim c f all :
  cache_invx c -> R c f ->
  fout (sync_f lim c all)
    (fun c1 => cache_invx c1 /\ R c1 f /\ k_cs c1 = k_cs c /\ k_auto c1 = k_auto c)
    (Qf lim c f).
Proof.
  intros I HR. unfold sync_f. apply (fout_bind _ _ _ _ _ _ (flush_f_op_spec lim c f I HR)).
  - intros c1 (I1 & R1 & C1 & A1 & _). cbn [fout]. split; [apply set_events_invx; exact I1|].
    split; [exact R1|]. split; assumption.
  - intros c1 H. exact H.
Qed.

Lemma clear_f_spec lim c f :
  cache_invx c -> R c f ->
  fout (clear_f lim c)
    (fun c1 => cache_invx c1 /\ R c1 f /\ k_cs c1 = k_cs c /\ k_auto c1 = k_auto c)
    (Qf lim c f).
Proof.
  intros I HR. pose proof (flush_f_op_spec lim c f I HR) as HF.
  destruct (flush_f lim c) as [c1|c1|s] eqn:E; cbn [fout] in HF; [| |contradiction].
  - destruct HF as (I1 & R1 & C1 & A1 & Cl). rewrite (clear_f_ok lim c c1 E Cl).
    destruct (clear_spec_x c1 I1) as (c2 & E2 & I2 & F2). rewrite E2. cbn [of_res fout].
    split; [exact I2|]. split; [exact (R_fr _ _ _ F2 R1)|].
    split; [rewrite (fr_cs _ _ F2); exact C1|rewrite (fr_auto _ _ F2); exact A1].
  - rewrite (clear_f_err lim c c1 E). exact HF.
Qed.

Lemma prepare_f_spec lim fuel c f off :
  cache_invx c -> R c f -> off <= f_end f -> (2 <= fuel)%nat ->
  fout (prepare_f lim fuel c off)
    (fun c1 => cache_invx c1 /\ R c1 f /\ k_cs c1 = k_cs c /\ k_auto c1 = k_auto c)
    (Qf lim c f).
Proof.
  intros I HR Ho Hf. pose proof HR as (R1 & R2 & R3). unfold prepare_f.
  assert (Hoff : chunk_off (k_cs c) off <= k_end c) by (pose proof (chunk_off_le (k_cs c) off); lia).
  apply (fout_bind _ _ _ _ _ _ (fetch_chunk_f_spec lim fuel c off I Hoff Hf)).
  - intros [c1 i] (I1 & F1 & _). cbn [fout]. split; [exact I1|]. split; [exact (R_fr _ _ _ F1 HR)|].
    split; [exact (fr_cs _ _ F1)|exact (fr_auto _ _ F1)].
  - intros c1 H. exact (Qf_fr lim c f c1 HR H).
Qed.

Lemma fill_loop_f_spec lim fa fuel f : forall c curr,
  cache_invx c -> R c f -> (2 <= fa)%nat -> (N.to_nat (k_end c - curr) + 2 <= fuel)%nat ->
  fout (fill_loop_f lim fa fuel c curr)
    (fun c1 => cache_invx c1 /\ R c1 f /\ k_cs c1 = k_cs c /\ k_auto c1 = k_auto c)
    (Qf lim c f).
Proof.
  induction fuel as [|fuel IH]; intros c curr I HR Hfa Hfuel; [lia|].
  cbn [fill_loop_f]. destruct (N.ltb_spec curr (k_end c)) as [Hlt|Hge].
  - assert (Hoff : chunk_off (k_cs c) curr <= k_end c) by (pose proof (chunk_off_le (k_cs c) curr); lia).
    apply (fout_bind _ _ _ _ _ _ (fetch_chunk_f_spec lim fa c curr I Hoff Hfa)).
    + intros [c1 i] (I1 & F1 & _). pose proof (R_fr _ _ _ F1 HR) as HR1.
      destruct (nchunks c1 <? k_max c1).
      * pose proof (invx_cs c1 I1) as Hcs1.
        apply (fout_impl _ _ _ _ _ (IH c1 (curr + k_cs c1) I1 HR1 Hfa ltac:(rewrite (fr_end _ _ F1); lia))).
        -- intros c2 (I2 & R2 & C2 & A2). split; [exact I2|]. split; [exact R2|].
           split; [rewrite C2; exact (fr_cs _ _ F1)|rewrite A2; exact (fr_auto _ _ F1)].
        -- intros c2 H. exact (Qf_trans lim c c1 f c2 (fr_cs _ _ F1) (fr_auto _ _ F1) H).
      * cbn [fout]. split; [exact I1|]. split; [exact HR1|]. split; [exact (fr_cs _ _ F1)|exact (fr_auto _ _ F1)].
    + intros c1 H. exact (Qf_fr lim c f c1 HR H).
  - cbn [fout]. split; [exact I|]. split; [exact HR|]. split; reflexivity.
Qed.

Lemma fill_f_spec lim fuel c f :
  cache_invx c -> R c f -> (N.to_nat (f_end f) + 2 <= fuel)%nat ->
  fout (fill_f lim fuel c)
    (fun c1 => cache_invx c1 /\ R c1 (Flat (f_end f) (f_bytes f)) /\ k_cs c1 = k_cs c /\ k_auto c1 = k_auto c)
    (Qf lim c (Flat (f_end f) (f_bytes f))).
Proof.
  intros I HR Hf. pose proof HR as (R1 & R2 & R3).
  unfold fill_f, seek_f. destruct (N.ltb_spec (k_end c) 0) as [|_]; [lia|]. cbn [of_res fbind].
  rewrite N.sub_0_r. destruct (N.ltb_spec (k_end c) (k_end c)) as [|_]; [lia|]. cbn [fbind].
  assert (I1 : cache_invx (set_pos c (k_end c))) by (apply invx_set_pos; exact I).
  assert (HR1 : R (set_pos c (k_end c)) (Flat (f_end f) (f_bytes f))).
  { split; [cbn; exact R2|]. split; [exact R2|exact R3]. }
  apply (fout_impl _ _ _ _ _ (fill_loop_f_spec lim fuel fuel _ (set_pos c (k_end c)) 0 I1 HR1 ltac:(lia)
                                ltac:(cbn; rewrite R2; lia))).
  - intros c1 H. exact H.
  - intros c1 H. exact H.
Qed.

(** [set_len]: the one call whose failure leaves more than a cosmetic trace *)
Definition grow_failed (c : cache) (size : N) : cache :=
  if size <? k_pos c then set_pos (set_end c size) size else set_end c size.

Lemma set_len_f_cases lim c size :
  set_len_f lim c size = FOk (set_len c size) \/
  (exists L, lim = Some L /\ L < size /\ blen (k_disk c) < size /\ set_len_f lim c size = FErr (grow_failed c size)).
Proof.
  unfold set_len_f, set_len, grow_failed, disk_set_len_lim. cbn [set_end k_pos].
  destruct lim as [L|]; [|left; reflexivity].
  assert (Hd : k_disk (if size <? k_pos c then set_pos (set_end c size) size else set_end c size) = k_disk c)
    by (destruct (size <? k_pos c); reflexivity).
  rewrite Hd. destruct (N.leb_spec size L) as [H1|H1]; cbn [orb]; [left; reflexivity|].
  destruct (N.leb_spec size (blen (k_disk c))) as [H2|H2]; [left; reflexivity|].
  right. exists L. split; [reflexivity|]. split; [exact H1|]. split; [exact H2|reflexivity].
Qed.

(** the state after a growing [set_len] whose disk request failed: LOGICALLY the file has been
    extended (a reader sees zeros up to the new end), but the disk is shorter than [end] and
    nothing caches the difference: [cache_invg] only *)
Lemma grow_failed_state c f size :
  cache_invx c -> R c f -> k_end c <= size ->
  cache_invg (grow_failed c size) /\
  R (grow_failed c size) (Flat (N.min (f_pos f) size) (pad_to (f_bytes f) size)) /\
  k_cs (grow_failed c size) = k_cs c /\ k_auto (grow_failed c size) = k_auto c.
Proof.
  intros I (R1 & R2 & R3) Hs. pose proof (invx_cs c I) as Hcs. pose proof (invx_data c I) as D.
  assert (Hf : k_cs (grow_failed c size) = k_cs c /\ k_max (grow_failed c size) = k_max c /\
               k_auto (grow_failed c size) = k_auto c /\ k_chunks (grow_failed c size) = k_chunks c /\
               k_fc (grow_failed c size) = k_fc c /\ k_end (grow_failed c size) = size /\
               k_disk (grow_failed c size) = k_disk c /\ k_pos (grow_failed c size) = N.min (k_pos c) size).
  { unfold grow_failed. destruct (N.ltb_spec size (k_pos c)); cbn; repeat split; lia. }
  destruct Hf as (F1 & F2 & F3 & F4 & F5 & F6 & F7 & F8).
  split; [|split; [|split; assumption]].
  - constructor.
    + rewrite F1. exact Hcs.
    + unfold dinvg. rewrite F1, F4, F6, F7. constructor.
      * intros i ch Hl. destruct (di_chunk _ _ _ _ D i ch Hl) as (A & B & C). repeat split; [exact A|exact B|lia].
      * exact (di_nodup _ _ _ _ D).
      * intros i ch Hl Hd q Hq Hqe. destruct (N.lt_ge_cases (c_off ch + q) (k_end c)) as [Hlt|Hge].
        -- exact (proj2 (di_clean _ _ _ _ D i ch Hl Hd q Hq Hlt)).
        -- rewrite (di_zero _ _ _ _ D i ch Hl q Hge). symmetry. apply getb_ge.
           pose proof (di_disk_le _ _ _ _ D). lia.
      * intros i ch Hl q Hq. apply (di_zero _ _ _ _ D i ch Hl). lia.
      * pose proof (di_disk_le _ _ _ _ D). lia.
    + rewrite F4, F5. exact (invx_fc c I).
    + unfold nchunks. rewrite F4, F2. exact (invx_len c I).
    + pose proof (invx_cfg c I) as H. unfold cfg_ok in *. rewrite F1, F2, F3. exact H.
  - split; [cbn [f_pos]; rewrite F8, R1; reflexivity|].
    split; [rewrite F6; unfold f_end in *; cbn [f_bytes]; rewrite blen_pad_to; lia|].
    rewrite F6. cbn [f_bytes]. intros p Hp. unfold view. rewrite F1, F4, F7, getb_pad_to.
    destruct (N.lt_ge_cases p (k_end c)) as [Hlt|Hge]; [exact (R3 p Hlt)|].
    rewrite getb_ge by (unfold f_end in R2; lia). symmetry. unfold viewl.
    destruct (find_idx (chunk_off (k_cs c) p) (k_chunks c)) as [i|] eqn:F.
    + destruct (find_idx_Some _ _ _ F) as (ch & Hl & Ho). rewrite Hl.
      destruct (chunk_off_range (k_cs c) p Hcs) as [H1 H2].
      apply (di_zero _ _ _ _ D i ch Hl). lia.
    + apply getb_ge. pose proof (di_disk_le _ _ _ _ D). lia.
Qed.

Lemma set_len_f_spec lim c f size :
  cache_invx c -> R c f -> f_pos f <= f_end f -> f_end f <= size ->
  fout (set_len_f lim c size)
    (fun c1 => cache_inv c1 /\ R c1 (Flat (f_pos f) (pad_to (f_bytes f) size)) /\
       k_cs c1 = k_cs c /\ k_auto c1 = k_auto c)
    (fun c1 => (exists L, lim = Some L /\ L < size) /\ cache_invg c1 /\
       R c1 (Flat (N.min (f_pos f) size) (pad_to (f_bytes f) size)) /\ k_cs c1 = k_cs c /\ k_auto c1 = k_auto c).
Proof.
  intros I HR Hp Hs. pose proof HR as (R1 & R2 & R3).
  destruct (set_len_f_cases lim c size) as [E|(L & EL & HL & Hd & E)]; rewrite E; cbn [fout].
  - exact (set_len_spec c f size (invx_inv c I (R_pos_le c f HR Hp)) HR ltac:(lia)).
  - split; [exists L; split; assumption|]. exact (grow_failed_state c f size I HR ltac:(lia)).
Qed.

(** [seek] *)
Lemma seek_f_spec lim c f sf f' np :
  cache_invx c -> R c f -> flat_seek f sf = Some (f', np) ->
  fout (seek_f lim c sf)
    (fun '(c1, p) => p = np /\ cache_inv c1 /\ R c1 f' /\ k_cs c1 = k_cs c /\ k_auto c1 = k_auto c)
    (fun c1 => (exists L, lim = Some L /\ L < np) /\ f_end f < np /\ cache_invg c1 /\
       R c1 (Flat (N.min (f_pos f) np) (pad_to (f_bytes f) np)) /\ k_cs c1 = k_cs c /\ k_auto c1 = k_auto c).
Proof.
  intros I HR Hfs. pose proof HR as (R1 & R2 & R3).
  destruct (seek_spec_x c f sf f' np I HR Hfs) as (c' & E & I' & R' & C' & A').
  unfold flat_seek in Hfs. unfold seek in E. unfold seek_f.
  assert (Hnp : exists x, match sf with
       | SeekStart x => Some x
       | SeekEnd _ x => if f_end f <? x then None else Some (f_end f - x)
       | SeekCur true x => if f_pos f <? x then None else Some (f_pos f - x)
       | SeekCur false x => Some (f_pos f + x) end = Some x /\
       match sf with
       | SeekStart x => Ok x
       | SeekEnd _ x => if k_end c <? x then Panic Overflow else Ok (k_end c - x)
       | SeekCur true x => if k_pos c <? x then Panic Overflow else Ok (k_pos c - x)
       | SeekCur false x => Ok (k_pos c + x) end = Ok x).
  { rewrite R1, R2. destruct sf as [x|neg x|[|] x].
    - exists x. split; reflexivity.
    - destruct (f_end f <? x); [discriminate|]. eexists. split; reflexivity.
    - destruct (f_pos f <? x); [discriminate|]. eexists. split; reflexivity.
    - eexists. split; reflexivity. }
  destruct Hnp as (x & Hx1 & Hx2). rewrite Hx1 in Hfs. cbn in Hfs. injection Hfs as <- <-.
  rewrite Hx2 in E |- *. cbn [rbind] in E. cbn [of_res fbind].
  destruct (N.ltb_spec (k_end c) x) as [Hlt|Hge].
  - destruct (set_len_f_cases lim c x) as [E1|(L & EL & HL & Hd & E1)]; rewrite E1; cbn [fbind fout].
    + injection E as <-. split; [reflexivity|]. split; [exact I'|]. split; [exact R'|]. split; assumption.
    + split; [exists L; split; assumption|]. split; [rewrite <- R2; exact Hlt|].
      exact (grow_failed_state c f x I HR ltac:(lia)).
  - cbn [fbind fout]. injection E as <-. split; [reflexivity|]. split; [exact I'|]. split; [exact R'|]. split; assumption.
Qed.

(** ** 8. one call under the limit *)

(** the size a [set_len] inside the call asks the disk for *)
Definition grow_target (f : flat) (o : op) : option N :=
  match o with
  | OSetLen n => Some n
  | OSeek sf => match seek_target f sf with
                | Some np => if f_end f <? np then Some np else None
                | None => None
                end
  | _ => None
  end.

(** the flat state a FAILED call leaves, given the position [p] the object is at afterwards:
    [read_exact]/[write_all] (and the small calls that fall back on them) have consumed /
    applied the first [p - pos] bytes; [read_fill_buffer] has moved the position to the end;
    every other call has done nothing. *)
Definition fail_flat (f : flat) (o : op) (p : N) : flat :=
  match o with
  | ORead _ | OReadSmall _ _ _ => Flat p (f_bytes f)
  | OWrite buf | OWriteSmall _ buf =>
    Flat p (splice (f_bytes f) (f_pos f) (take (N.to_nat (p - f_pos f)) buf))
  | OFill => Flat (f_end f) (f_bytes f)
  | _ => f
  end.

Definition fail_pos (f : flat) (o : op) (p : N) : Prop :=
  match o with
  | ORead n | OReadSmall _ _ n => f_pos f <= p <= f_pos f + (n - 1)
  | OWrite buf | OWriteSmall _ buf => f_pos f <= p <= f_pos f + (blen buf - 1)
  | OFill => p = f_end f
  | _ => p = f_pos f
  end.

(** what a failed call leaves: a limit is in force; if the call contains no growing [set_len]
    the invariant holds and the flat state is [fail_flat]; if it does ([set_len], [seek] beyond
    the end), the new end is above the limit, the file is logically extended and only
    [cache_invg] holds *)
Definition failed_state (lim : option N) (c : cache) (f : flat) (o : op) (c' : cache) : Prop :=
  lim <> None /\ k_cs c' = k_cs c /\ k_auto c' = k_auto c /\
  match grow_target f o with
  | None => R c' (fail_flat f o (k_pos c')) /\ cache_invf c' /\ fail_pos f o (k_pos c')
  | Some n => (exists L, lim = Some L /\ L < n) /\
              R c' (Flat (N.min (f_pos f) n) (pad_to (f_bytes f) n)) /\ cache_invg c'
  end.

Lemma failed_plain lim c f o c1 :
  grow_target f o = None -> fail_flat f o (k_pos c1) = f -> fail_pos f o (f_pos f) ->
  Qf lim c f c1 -> failed_state lim c f o c1.
Proof.
  intros Hg Hff Hfp (N1 & I1 & R1 & C1 & A1). split; [exact N1|]. split; [exact C1|]. split; [exact A1|].
  rewrite Hg, Hff. split; [exact R1|]. split; [exact I1|]. rewrite (proj1 R1). exact Hfp.
Qed.

Theorem cstep_f_view lim fuel c f o f' r :
  cache_invx c -> R c f -> xstep (k_cs c) f o = Some (f', r) -> (op_fuel f o <= fuel)%nat ->
  fout (cstep_f lim fuel c o)
    (fun '(c', r') => r' = r /\ R c' f' /\ cache_invf c' /\ k_cs c' = k_cs c /\ k_auto c' = k_auto c)
    (failed_state lim c f o).
Proof.
  intros I HR Hstep Hfuel. pose proof HR as (R1 & R2 & R3). unfold cache_invf.
  destruct o as [sf|n|n|chk need n|buf|buf|chk buf| |all|n|off| |]; cbn [xstep cstep_f op_fuel] in *.
  - (* seek *)
    cbn [fstep] in Hstep.
    destruct (flat_seek f sf) as [[f1 p]|] eqn:Es; [|discriminate]. cbn in Hstep. injection Hstep as <- <-.
    apply (fout_bind _ _ _ _ _ _ (seek_f_spec lim c f sf f1 p I HR Es)).
    + intros [c1 p1] (-> & I1 & S1 & C1 & A1). cbn [fout].
      split; [reflexivity|]. split; [exact S1|]. split; [exact (inv_invx c1 I1)|]. split; assumption.
    + intros c1 ((L & EL & HL) & Hlt & Ig & S1 & C1 & A1).
      split; [rewrite EL; discriminate|]. split; [exact C1|]. split; [exact A1|].
      rewrite flat_seek_target in Es. cbn [grow_target].
      destruct (seek_target f sf) as [np|]; [|discriminate]. cbn in Es. injection Es as _ <-.
      destruct (N.ltb_spec (f_end f) np) as [_|]; [|lia].
      split; [exists L; split; assumption|]. split; [exact S1|exact Ig].
  - (* read_exact *)
    apply xread_out_Some in Hstep as (Hok & -> & ->).
    apply (fout_bind _ _ _ _ _ _ (read_exact_f_spec lim fuel c f n I HR Hfuel (fun _ => Hok))).
    + intros [c1 b] (-> & I1 & S1 & C1 & A1). cbn [fout]. split; [reflexivity|]. split; [exact S1|].
      split; [exact I1|]. split; assumption.
    + intros c1 (N1 & I1 & (k & Hk & S1) & C1 & A1). split; [exact N1|]. split; [exact C1|]. split; [exact A1|].
      cbn [grow_target fail_flat fail_pos]. pose proof (proj1 S1) as Hp. cbn [f_pos] in Hp. rewrite Hp.
      split; [exact S1|]. split; [exact I1|lia].
  - (* read *)
    apply xread_out_Some in Hstep as (Hok & -> & ->).
    assert (Hoff : chunk_off (k_cs c) (f_pos f) <= f_end f).
    { pose proof (chunk_off_mono (k_cs c) (f_pos f)
                    (f_pos f + (N.min n (to_boundary (k_cs c) (f_pos f)) - 1)) ltac:(lia)). lia. }
    apply (fout_bind _ _ _ _ _ _ (read_f_spec lim fuel c f n I HR ltac:(lia) Hoff)).
    + intros [c1 b] (-> & I1 & S1 & C1 & A1). cbn [fout]. split; [reflexivity|]. split; [exact S1|].
      split; [exact I1|]. split; assumption.
    + intros c1 H. apply (failed_plain lim c f _ c1); [reflexivity|reflexivity|reflexivity|exact H].
  - (* small reads *)
    destruct ((chk && (k_cs c <? n)) || (need <? n)) eqn:Hdom; [discriminate|].
    apply xread_out_Some in Hstep as (Hok & -> & ->).
    apply (fout_bind _ _ _ _ _ _ (read_small_f_spec lim fuel c f chk need n I HR Hfuel Hok Hdom)).
    + intros [c1 b] (-> & I1 & S1 & C1 & A1). cbn [fout]. split; [reflexivity|]. split; [exact S1|].
      split; [exact I1|]. split; assumption.
    + intros c1 (N1 & I1 & (k & Hk & S1) & C1 & A1). split; [exact N1|]. split; [exact C1|]. split; [exact A1|].
      cbn [grow_target fail_flat fail_pos]. pose proof (proj1 S1) as Hp. cbn [f_pos] in Hp. rewrite Hp.
      split; [exact S1|]. split; [exact I1|lia].
  - (* write_all *)
    destruct (N.leb_spec (f_pos f) (f_end f)) as [Hp|]; [|discriminate].
    cbn [fstep] in Hstep. unfold flat_write_all in Hstep. cbn in Hstep. injection Hstep as <- <-.
    apply (fout_bind _ _ _ _ _ _ (write_all_f_spec lim fuel c f buf I HR Hp Hfuel)).
    + intros c1 (I1 & S1 & C1 & A1). cbn [fout]. split; [reflexivity|]. split; [exact S1|].
      split; [exact (inv_invx c1 I1)|]. split; assumption.
    + intros c1 (N1 & I1 & (k & Hk & S1) & C1 & A1). split; [exact N1|]. split; [exact C1|]. split; [exact A1|].
      cbn [grow_target fail_flat fail_pos]. pose proof (proj1 S1) as Hp1. cbn [f_pos] in Hp1. rewrite Hp1.
      replace (f_pos f + k - f_pos f) with k by lia. split; [exact S1|]. split; [exact I1|lia].
  - (* write *)
    destruct (N.leb_spec (f_pos f) (f_end f)) as [Hp|]; [|discriminate].
    cbn [fstep] in Hstep. unfold flat_write, flat_write_all in Hstep. cbn in Hstep. injection Hstep as <- <-.
    apply (fout_bind _ _ _ _ _ _ (write_f_spec lim fuel c f buf I HR Hp ltac:(lia))).
    + intros [c1 k] (-> & I1 & S1 & C1 & A1). cbn [fout]. split; [reflexivity|].
      split; [|split; [exact (inv_invx c1 I1)|split; assumption]].
      rewrite blen_take. replace (N.min (N.min (blen buf) (to_boundary (k_cs c) (f_pos f))) (blen buf))
        with (N.min (blen buf) (to_boundary (k_cs c) (f_pos f))) by lia. exact S1.
    + intros c1 H. apply (failed_plain lim c f _ c1); [reflexivity|reflexivity|reflexivity|exact H].
  - (* small writes *)
    destruct (N.leb_spec (f_pos f) (f_end f)) as [Hp|]; [|discriminate]. cbn [fstep] in Hstep.
    destruct (chk && (k_cs c <? blen buf)) eqn:Hdom; [discriminate|].
    unfold flat_write_all in Hstep. cbn in Hstep. injection Hstep as <- <-.
    apply (fout_bind _ _ _ _ _ _ (write_small_f_spec lim fuel c f chk buf I HR Hp Hfuel Hdom)).
    + intros c1 (I1 & S1 & C1 & A1). cbn [fout]. split; [reflexivity|]. split; [exact S1|].
      split; [exact (inv_invx c1 I1)|]. split; assumption.
    + intros c1 (N1 & I1 & (k & Hk & S1) & C1 & A1). split; [exact N1|]. split; [exact C1|]. split; [exact A1|].
      cbn [grow_target fail_flat fail_pos]. pose proof (proj1 S1) as Hp1. cbn [f_pos] in Hp1. rewrite Hp1.
      replace (f_pos f + k - f_pos f) with k by lia. split; [exact S1|]. split; [exact I1|lia].
  - (* flush *)
    destruct (N.leb_spec (f_pos f) (f_end f)) as [Hp|]; [|discriminate]. cbn [fstep] in Hstep. injection Hstep as <- <-.
    apply (fout_bind _ _ _ _ _ _ (flush_f_op_spec lim c f I HR)).
    + intros c1 (I1 & S1 & C1 & A1 & _). cbn [fout]. split; [reflexivity|]. split; [exact S1|].
      split; [exact I1|]. split; assumption.
    + intros c1 H. apply (failed_plain lim c f _ c1); [reflexivity|reflexivity|reflexivity|exact H].
  - (* sync *)
    destruct (N.leb_spec (f_pos f) (f_end f)) as [Hp|]; [|discriminate]. cbn [fstep] in Hstep. injection Hstep as <- <-.
    apply (fout_bind _ _ _ _ _ _ (sync_f_spec lim c f all I HR)).
    + intros c1 (I1 & S1 & C1 & A1). cbn [fout]. split; [reflexivity|]. split; [exact S1|].
      split; [exact I1|]. split; assumption.
    + intros c1 H. apply (failed_plain lim c f _ c1); [reflexivity|reflexivity|reflexivity|exact H].
  - (* set_len *)
    destruct (N.leb_spec (f_pos f) (f_end f)) as [Hp|]; [|discriminate]. cbn [fstep] in Hstep.
    unfold flat_set_len in Hstep. destruct (N.ltb_spec n (f_end f)) as [|Hn]; [discriminate|].
    cbn in Hstep. injection Hstep as <- <-.
    apply (fout_bind _ _ _ _ _ _ (set_len_f_spec lim c f n I HR Hp Hn)).
    + intros c1 (I1 & S1 & C1 & A1). cbn [fout]. split; [reflexivity|]. split; [exact S1|].
      split; [exact (inv_invx c1 I1)|]. split; assumption.
    + intros c1 ((L & EL & HL) & Ig & S1 & C1 & A1).
      split; [rewrite EL; discriminate|]. split; [exact C1|]. split; [exact A1|]. cbn [grow_target].
      split; [exists L; split; assumption|]. split; [exact S1|exact Ig].
  - (* prepare *)
    destruct (N.leb_spec (f_pos f) (f_end f)) as [Hp|]; [|discriminate]. cbn [fstep] in Hstep.
    destruct (N.leb_spec off (f_end f)) as [Ho|]; [|discriminate]. injection Hstep as <- <-.
    apply (fout_bind _ _ _ _ _ _ (prepare_f_spec lim fuel c f off I HR Ho Hfuel)).
    + intros c1 (I1 & S1 & C1 & A1). cbn [fout]. split; [reflexivity|]. split; [exact S1|].
      split; [exact I1|]. split; assumption.
    + intros c1 H. apply (failed_plain lim c f _ c1); [reflexivity|reflexivity|reflexivity|exact H].
  - (* clear *)
    destruct (N.leb_spec (f_pos f) (f_end f)) as [Hp|]; [|discriminate]. cbn [fstep] in Hstep. injection Hstep as <- <-.
    apply (fout_bind _ _ _ _ _ _ (clear_f_spec lim c f I HR)).
    + intros c1 (I1 & S1 & C1 & A1). cbn [fout]. split; [reflexivity|]. split; [exact S1|].
      split; [exact I1|]. split; assumption.
    + intros c1 H. apply (failed_plain lim c f _ c1); [reflexivity|reflexivity|reflexivity|exact H].
  - (* read_fill_buffer *)
    destruct (N.leb_spec (f_pos f) (f_end f)) as [Hp|]; [|discriminate]. cbn [fstep] in Hstep. injection Hstep as <- <-.
    apply (fout_bind _ _ _ _ _ _ (fill_f_spec lim fuel c f I HR Hfuel)).
    + intros c1 (I1 & S1 & C1 & A1). cbn [fout]. split; [reflexivity|]. split; [exact S1|].
      split; [exact I1|]. split; assumption.
    + intros c1 (N1 & I1 & S1 & C1 & A1). split; [exact N1|]. split; [exact C1|]. split; [exact A1|].
      cbn [grow_target fail_flat fail_pos]. split; [exact S1|]. split; [exact I1|exact (proj1 S1)].
Qed.

(** a call that succeeds under a limit returns what it returns without one *)
Corollary cstep_f_ok_same lim fuel c f o f' r c' r' :
  cache_invx c -> R c f -> xstep (k_cs c) f o = Some (f', r) -> (op_fuel f o <= fuel)%nat ->
  cstep_f lim fuel c o = FOk (c', r') -> r' = r /\ R c' f' /\ cache_invf c'.
Proof.
  intros I HR Hs Hf E. pose proof (cstep_f_view lim fuel c f o f' r I HR Hs Hf) as H. rewrite E in H.
  destruct H as (A & B & C & _). split; [exact A|]. split; assumption.
Qed.

(** ** 9. any sequence of calls, the limit changing between calls *)

(** the limit admits the size that a [set_len] inside the call asks for *)
Definition grow_ok (lim : option N) (f : flat) (o : op) : Prop :=
  match lim, grow_target f o with
  | Some L, Some n => n <= L
  | _, _ => True
  end.

(** every call is inside the domain of the flat reference, whichever of the calls made under a
    limit fail and wherever they stop (a pure condition on the call list and the flat state) *)
Fixpoint safe (cs : N) (fuel : nat) (f : flat) (l : list (option N * op)) : Prop :=
  match l with
  | [] => True
  | (lim, o) :: rest =>
    grow_ok lim f o /\ (op_fuel f o <= fuel)%nat /\
    match xstep cs f o with
    | None => False
    | Some (f', _) =>
      safe cs fuel f' rest /\
      (lim <> None -> forall p, fail_pos f o p -> safe cs fuel (fail_flat f o p) rest)
    end
  end.

(** the flat meaning of a run with failures: a call that succeeded is its [xstep]; a call that
    failed (only possible under a limit) leaves [fail_flat] for some position [p] *)
Inductive ftraj (cs : N) : flat -> list (option N * op) -> list (option out) -> flat -> Prop :=
| ft_nil f : ftraj cs f [] [] f
| ft_ok f lim o f1 r l outs f' :
    xstep cs f o = Some (f1, r) -> ftraj cs f1 l outs f' ->
    ftraj cs f ((lim, o) :: l) (Some r :: outs) f'
| ft_err f lim o p l outs f' :
    lim <> None -> fail_pos f o p -> ftraj cs (fail_flat f o p) l outs f' ->
    ftraj cs f ((lim, o) :: l) (None :: outs) f'.

(** RECOVERY AFTER ANY HISTORY.  Whatever calls were made under whatever limits, failed or not:
    the run does not stop; the object is in a state that represents a flat state [f'] reached
    by the successful calls and the applied parts of the failed ones; the invariant holds; and
    a flush without a limit then succeeds and makes the disk exactly [f_bytes f']. *)
Theorem run_f_recovery l : forall fuel c f,
  cache_invx c -> R c f -> safe (k_cs c) fuel f l ->
  exists c' outs f',
    run_f fuel c l = FOk (c', outs) /\ ftraj (k_cs c) f l outs f' /\
    R c' f' /\ cache_invf c' /\ k_cs c' = k_cs c /\
    exists c'', flush_f None c' = FOk c'' /\ k_disk c'' = f_bytes f' /\ R c'' f' /\ cache_invf c''.
Proof.
  induction l as [|[lim o] rest IH]; intros fuel c f I HR Hs.
  - exists c, [], f. split; [reflexivity|]. split; [constructor|]. split; [exact HR|]. split; [exact I|].
    split; [reflexivity|]. destruct (flush_f_recovery c f I HR) as (c2 & E & Hd & R2 & I2 & _).
    exists c2. split; [exact E|]. split; [exact Hd|]. split; assumption.
  - cbn [safe] in Hs. destruct Hs as (Hg & Hfuel & Hs).
    destruct (xstep (k_cs c) f o) as [[f1 r]|] eqn:Es; [|contradiction]. destruct Hs as [Hs1 Hs2].
    pose proof (cstep_f_view lim fuel c f o f1 r I HR Es Hfuel) as H.
    cbn [run_f]. destruct (cstep_f lim fuel c o) as [[c1 r1]|c1|s]; cbn [fout] in H; [| |contradiction].
    + destruct H as (-> & R1 & I1 & C1 & A1). rewrite <- C1 in Hs1.
      destruct (IH fuel c1 f1 I1 R1 Hs1) as (c' & outs & f' & E & T & R' & I' & C' & Hfl).
      exists c', (Some r :: outs), f'. rewrite E. cbn [fbind]. split; [reflexivity|].
      split; [apply (ft_ok _ f lim o f1 r); [exact Es|rewrite <- C1; exact T]|].
      split; [exact R'|]. split; [exact I'|]. split; [congruence|exact Hfl].
    + destruct H as (N1 & C1 & A1 & H). destruct (grow_target f o) as [n|] eqn:G.
      * exfalso. destruct H as ((L & EL & HL) & _). unfold grow_ok in Hg. rewrite EL, G in Hg. lia.
      * destruct H as (R1 & I1 & Fp). specialize (Hs2 N1 (k_pos c1) Fp). rewrite <- C1 in Hs2.
        destruct (IH fuel c1 _ I1 R1 Hs2) as (c' & outs & f' & E & T & R' & I' & C' & Hfl).
        exists c', (None :: outs), f'. rewrite E. cbn [fbind]. split; [reflexivity|].
        split; [apply (ft_err _ f lim o (k_pos c1)); [exact N1|exact Fp|rewrite <- C1; exact T]|].
        split; [exact R'|]. split; [exact I'|]. split; [congruence|exact Hfl].
Qed.

Corollary run_f_recovery_inv l fuel c f :
  cache_inv c -> R c f -> safe (k_cs c) fuel f l ->
  exists c' outs f',
    run_f fuel c l = FOk (c', outs) /\ ftraj (k_cs c) f l outs f' /\
    R c' f' /\ cache_invf c' /\ k_cs c' = k_cs c /\
    exists c'', flush_f None c' = FOk c'' /\ k_disk c'' = f_bytes f' /\ R c'' f' /\ cache_invf c''.
Proof. intros I. apply run_f_recovery. exact (inv_invx c I). Qed.

(** when no call failed, [f'] is the [xrun] of the calls *)
Lemma ftraj_all_ok cs f l outs f' :
  ftraj cs f l outs f' -> forall rs, outs = map Some rs -> xrun cs f (map snd l) = Some (f', rs).
Proof.
  induction 1 as [f|f lim o f1 r l outs f' Es _ IH|f lim o p l outs f' _ _ _ _]; intros rs Hrs.
  - destruct rs; [reflexivity|discriminate].
  - destruct rs as [|r0 rs]; [discriminate|]. cbn [map] in Hrs. injection Hrs as -> Hrs.
    cbn [map snd xrun]. rewrite Es. cbn. rewrite (IH rs Hrs). reflexivity.
  - destruct rs; discriminate.
Qed.

(** the calls whose failure leaves no trace in the flat state: all but [read_exact],
    [write_all], the small calls (which fall back on those two) and [read_fill_buffer] *)
Definition atomic_op (o : op) : Prop :=
  match o with
  | ORead _ | OReadSmall _ _ _ | OWrite _ | OWriteSmall _ _ | OFill => False
  | _ => True
  end.

Lemma fail_flat_atomic f o p : atomic_op o -> fail_flat f o p = f.
Proof. destruct o; cbn; intros H; try contradiction; reflexivity. Qed.

(** the calls that succeeded, with their results *)
Fixpoint succeeded (l : list (option N * op)) (outs : list (option out)) : list op * list out :=
  match l, outs with
  | (_, o) :: l', Some r :: outs' => let '(a, b) := succeeded l' outs' in (o :: a, r :: b)
  | _ :: l', None :: outs' => succeeded l' outs'
  | _, _ => ([], [])
  end.

(** when every failed call is atomic, [f'] is the [xrun] of EXACTLY the calls that succeeded *)
Lemma ftraj_succeeded cs f l outs f' :
  ftraj cs f l outs f' ->
  Forall2 (fun lo out => out = None -> atomic_op (snd lo)) l outs ->
  xrun cs f (fst (succeeded l outs)) = Some (f', snd (succeeded l outs)).
Proof.
  induction 1 as [f|f lim o f1 r l outs f' Es _ IH|f lim o p l outs f' _ _ _ IH]; intros Hat.
  - reflexivity.
  - apply Forall2_cons_1 in Hat as [_ Hat]. cbn [succeeded].
    destruct (succeeded l outs) as [a b] eqn:Esu. cbn [fst snd] in *.
    cbn [xrun]. rewrite Es. cbn. rewrite (IH Hat). reflexivity.
  - apply Forall2_cons_1 in Hat as [Ha Hat]. cbn [succeeded]. cbn [snd] in Ha.
    rewrite (fail_flat_atomic f o p (Ha eq_refl)) in IH. exact (IH Hat).
Qed.

(** ** 9b. the way out of the state a failed growing [set_len] leaves: a [set_len] to the
    (believed) end or beyond that succeeds makes the disk as long as [end]; the full invariant
    holds again *)
Lemma data_invg_grow cs chs disk e size :
  0 < cs -> data_invg cs chs disk e -> e <= size ->
  data_inv cs chs (resize disk size) size /\
  (forall p, p < size ->
     viewl cs chs (resize disk size) p = if p <? e then viewl cs chs disk p else 0).
Proof.
  intros Hcs D Hes. pose proof (dg_disk_le _ _ _ _ D) as Hdl. split.
  - constructor.
    + intros j x Hx. destruct (dg_chunk _ _ _ _ D j x Hx) as (A & B & C). repeat split; [exact A|exact B|lia].
    + exact (dg_nodup _ _ _ _ D).
    + intros j x Hx Hd q Hq Hqe. rewrite blen_resize, getb_resize.
      destruct (N.ltb_spec (c_off x + q) size); [|lia]. split; [lia|].
      destruct (N.lt_ge_cases (c_off x + q) e) as [Hlt|Hge].
      * exact (dg_clean _ _ _ _ D j x Hx Hd q Hq Hlt).
      * rewrite (dg_zero _ _ _ _ D j x Hx q Hge). symmetry. apply getb_ge. lia.
    + intros j x Hx q Hq. apply (dg_zero _ _ _ _ D j x Hx). lia.
    + rewrite blen_resize. lia.
    + intros p Hp Hpe. rewrite blen_resize in Hp. lia.
  - intros p Hp. destruct (chunk_off_range cs p Hcs) as [H1 H2]. unfold viewl.
    destruct (find_idx (chunk_off cs p) chs) as [j|] eqn:F.
    + destruct (find_idx_Some _ _ _ F) as (y & Hy & Ho). rewrite Hy.
      destruct (N.ltb_spec p e); [reflexivity|]. apply (dg_zero _ _ _ _ D j y Hy). lia.
    + rewrite getb_resize. destruct (N.ltb_spec p size); [|lia].
      destruct (N.ltb_spec p e); [reflexivity|]. apply getb_ge. lia.
Qed.

Theorem set_len_repairs c f n :
  cache_invg c -> R c f -> f_pos f <= f_end f -> f_end f <= n ->
  exists c', set_len_f None c n = FOk c' /\ cache_inv c' /\
    R c' (Flat (f_pos f) (pad_to (f_bytes f) n)) /\ k_cs c' = k_cs c /\ k_auto c' = k_auto c.
Proof.
  intros I (R1 & R2 & R3) Hp Hn. pose proof (invg_cs c I) as Hcs.
  exists (set_len c n). split; [reflexivity|]. unfold set_len. cbn [set_end k_pos].
  destruct (N.ltb_spec n (k_pos c)) as [H|_]; [lia|]. cbn.
  destruct (data_invg_grow _ _ _ _ n Hcs (invg_data c I) ltac:(lia)) as [D V].
  split; [|split; [|split; reflexivity]].
  - constructor; cbn.
    + exact Hcs.
    + exact D.
    + lia.
    + exact (invg_fc c I).
    + exact (invg_len c I).
    + exact (invg_cfg c I).
  - split; [exact R1|]. split; [cbn; unfold f_end in *; cbn; rewrite blen_pad_to; lia|].
    cbn [f_bytes k_end set_disk set_end]. intros p Hp'. unfold view. cbn [k_cs k_chunks k_disk set_disk set_end].
    rewrite (V p Hp'), getb_pad_to.
    destruct (N.ltb_spec p (k_end c)) as [Hlt|Hge]; [apply R3; exact Hlt|].
    apply getb_ge. unfold f_end in R2. lia.
Qed.

(** ** 10. non-vacuity: concrete runs by [vm_compute]
    chunk size 8, a file of 10 bytes, the limit 12 *)
Definition obsf (r : fres (cache * list (option out))) :=
  match r with
  | FOk (c, o) => Some (o, k_pos c, k_end c, k_disk c, map (fun ch => (c_off ch, c_dirty ch)) (k_chunks c),
                        rev (k_events c))
  | _ => None
  end.

Definition fdisk : bytes := [1;2;3;4;5;6;7;8;9;10].
Definition fwr : bytes := [21;22;23;24;25;26;27;28;29;30].
Definition fimg : bytes := [1;2;3;4;5;6;21;22;23;24;25;26;27;28;29;30].
Definition lim12 : option N := Some 12.

(** two chunks.  Under the limit: 10 bytes written at 6 make chunks 0 and 8 dirty, the second
    one up to 16, beyond the limit (nothing reaches the disk yet, so the write succeeds).
    The flush FAILS: chunk 0 is written and clean, of chunk 8 the 4 bytes below the limit are
    on the disk and the chunk STAYS DIRTY.  [sync_all] fails the same way.  A read of the whole
    file under the limit is still correct.  Without the limit the flush succeeds and the disk
    is the logical file. *)
Definition fops : list (option N * op) :=
  [(lim12, OSeek (SeekStart 6)); (lim12, OWrite fwr); (lim12, OFlush); (lim12, OSync true);
   (lim12, OSeek (SeekStart 0)); (lim12, ORead 16); (None, OFlush)].

Example ex_failed_flush :
  obsf (run_f 30 (mk_cache 8 2 None fdisk) (firstn 3 fops)) =
    Some ([Some (RPos 6); Some RUnitC; None], 16, 16,
          [1;2;3;4;5;6;21;22; 23;24;25;26], [(0, false); (8, true)], [EvWrite 0 8; EvWrite 8 4]) /\
  obsf (run_f 30 (mk_cache 8 2 None fdisk) (firstn 6 fops)) =
    Some ([Some (RPos 6); Some RUnitC; None; None; Some (RPos 0); Some (RData fimg)], 16, 16,
          [1;2;3;4;5;6;21;22; 23;24;25;26], [(0, false); (8, true)],
          [EvWrite 0 8; EvWrite 8 4; EvWrite 8 4]) /\
  obsf (run_f 30 (mk_cache 8 2 None fdisk) fops) =
    Some ([Some (RPos 6); Some RUnitC; None; None; Some (RPos 0); Some (RData fimg); Some RUnitC], 16, 16,
          fimg, [(0, false); (8, false)], [EvWrite 0 8; EvWrite 8 4; EvWrite 8 4; EvWrite 8 8]).
Proof. vm_compute. repeat split; reflexivity. Qed.

(** four chunks, 30 bytes written from 0: the flush stops at the first chunk that fails; the
    chunks after it are not tried and stay dirty *)
Example ex_flush_stops_at_first_failure :
  obsf (run_f 40 (mk_cache 8 4 None fdisk) [(lim12, OWrite (seqN' 101 30)); (lim12, OFlush)]) =
    Some ([Some RUnitC; None], 30, 30, seqN' 101 12,
          [(0, false); (8, true); (16, true); (24, true)], [EvWrite 0 8; EvWrite 8 4]).
Proof. vm_compute. reflexivity. Qed.

(** a [write_all] that fails in the middle IS PARTLY APPLIED: 8 bytes at 12; the first 4 go
    into the cached chunk 8, the next need chunk 16, the eviction fails: the call returns the
    error with the position at 16 and the 4 bytes in place.  Nothing is lost: the read-back
    shows them and the flush without limit writes them. *)
Definition fops_part : list (option N * op) :=
  [(lim12, OSeek (SeekStart 6)); (lim12, OWrite fwr); (lim12, OSeek (SeekStart 12));
   (lim12, OWrite [41;42;43;44;45;46;47;48])].

Example ex_write_all_partly_applied :
  obsf (run_f 30 (mk_cache 8 2 None fdisk) fops_part) =
    Some ([Some (RPos 6); Some RUnitC; Some (RPos 12); None], 16, 16,
          [1;2;3;4;5;6;21;22; 23;24;25;26], [(0, false); (8, true)], [EvWrite 0 8; EvWrite 8 4]) /\
  obsf (run_f 30 (mk_cache 8 2 None fdisk)
          (fops_part ++ [(lim12, OSeek (SeekStart 0)); (lim12, ORead 16); (None, OFlush)])) =
    Some ([Some (RPos 6); Some RUnitC; Some (RPos 12); None; Some (RPos 0);
           Some (RData [1;2;3;4;5;6;21;22;23;24;25;26;41;42;43;44]); Some RUnitC], 16, 16,
          [1;2;3;4;5;6;21;22;23;24;25;26;41;42;43;44], [(0, false); (8, false)],
          [EvWrite 0 8; EvWrite 8 4; EvWrite 8 8]).
Proof. vm_compute. split; reflexivity. Qed.

(** an empty write at the (aligned) end makes a dirty chunk of which nothing is below [end]:
    its [write_all] gets an empty buffer, makes no system call and succeeds beyond the limit *)
Example ex_empty_chunk_write_succeeds :
  obsf (run_f 30 (mk_cache 8 2 None (seqN' 1 16))
          [(lim12, OSeek (SeekStart 16)); (lim12, OWritePart []); (lim12, OFlush)]) =
    Some ([Some (RPos 16); Some (RCount 0); Some RUnitC], 16, 16, seqN' 1 16, [(16, false)], []).
Proof. vm_compute. reflexivity. Qed.

(** THE DEFECT: a [seek] beyond the end (or a [set_len]) whose [File::set_len] fails.
    [end] has been moved to 20 before the file was asked (lib.rs 136-140), the position has not
    (169-171).  The error is reported, but the object now believes in 10 bytes that exist
    nowhere: not on the disk, not in a chunk.  Without any limit afterwards: the flush
    "succeeds" and the disk is NOT the logical file (10 bytes against 20); a read of bytes
    16..17 fails with UnexpectedEof ([Chunk::new] reads 4 bytes at 16 from a file of 10);
    a later successful [set_len 20] repairs the state. *)
Definition fops_seek : list (option N * op) := [(lim12, OSeek (SeekStart 20)); (None, OFlush)].

Example ex_failed_seek_breaks_recovery :
  obsf (run_f 30 (mk_cache 8 2 None fdisk) fops_seek) = Some ([None; Some RUnitC], 0, 20, fdisk, [], []) /\
  match run_f 30 (mk_cache 8 2 None fdisk) fops_seek with
  | FOk (c, _) => logical c = fdisk ++ zeros 10 /\ k_disk c = fdisk
  | _ => False
  end /\
  run_f 30 (mk_cache 8 2 None fdisk) (fops_seek ++ [(None, OSeek (SeekStart 16)); (None, ORead 2)]) = FStop SIoErr /\
  obsf (run_f 30 (mk_cache 8 2 None fdisk)
          (fops_seek ++ [(None, OSetLen 20); (None, OSeek (SeekStart 16)); (None, ORead 2); (None, OFlush)])) =
    Some ([None; Some RUnitC; Some RUnitC; Some (RPos 16); Some (RData [0; 0]); Some RUnitC], 18, 20,
          fdisk ++ zeros 10, [(16, false)], [EvSetLen 20]) /\
  obsf (run_f 30 (mk_cache 8 2 None fdisk) [(lim12, OSetLen 20); (None, OFlush)]) =
    Some ([None; Some RUnitC], 0, 20, fdisk, [], []).
Proof. vm_compute. repeat split; reflexivity. Qed.

(** so [grow_ok] cannot be dropped from [safe]: this call is inside the domain of [xstep],
    violates only [grow_ok], and after it [flush_f None] does not make the disk the logical file *)
Example ex_grow_ok_needed :
  xstep 8 (Flat 0 fdisk) (OSeek (SeekStart 20)) = Some (Flat 20 (fdisk ++ zeros 10), RPos 20) /\
  ~ grow_ok lim12 (Flat 0 fdisk) (OSeek (SeekStart 20)) /\
  exists c' c'', cstep_f lim12 30 (mk_cache 8 2 None fdisk) (OSeek (SeekStart 20)) = FErr c' /\
    R c' (Flat 0 (fdisk ++ zeros 10)) /\ flush_f None c' = FOk c'' /\ k_disk c'' <> fdisk ++ zeros 10.
Proof.
  split; [vm_compute; reflexivity|]. split; [intros H; vm_compute in H; apply H; reflexivity|].
  eexists. eexists. split; [vm_compute; reflexivity|]. split.
  - split; [reflexivity|]. split; [reflexivity|]. cbn [k_end f_bytes]. intros p Hp.
    assert (Hc : forallb (fun q => getb (fdisk ++ zeros 10) q =?
               view {| k_cs := 8; k_max := 2; k_auto := None; k_chunks := []; k_fc := None; k_pos := 0;
                       k_end := 20; k_disk := fdisk; k_events := [] |} q) (seqN' 0 20) = true) by (vm_compute; reflexivity).
    rewrite forallb_forall in Hc. apply N.eqb_eq. apply Hc. apply in_map_iff. exists (N.to_nat p).
    split; [lia|]. apply in_seq. lia.
  - split; [vm_compute; reflexivity|]. vm_compute. discriminate.
Qed.

(** the theorems apply to such runs (their hypotheses are satisfiable): writes without a
    limit, a flush and a sync under the limit (both fail), then the recovery *)
Ltac safe_step :=
  cbn [safe]; split; [vm_compute; exact Logic.I|]; split; [vm_compute; lia|];
  match goal with |- context [xstep ?cs ?f ?o] =>
    let x := eval vm_compute in (xstep cs f o) in change (xstep cs f o) with x end;
  cbv iota beta;
  split; [|let H := fresh "H" in let q := fresh "q" in let Hq := fresh "Hq" in
           intros H q Hq; first [exfalso; apply H; reflexivity
                                |cbn [fail_pos] in Hq; subst q; clear H; cbn [fail_flat f_pos]]].

Definition fops_thm : list (option N * op) :=
  [(None, OSeek (SeekStart 6)); (None, OWrite fwr); (lim12, OFlush); (lim12, OSync false); (None, OFlush)].

Example ex_safe : safe 8 30 (Flat 0 fdisk) fops_thm.
Proof. unfold fops_thm. repeat safe_step. all: exact Logic.I. Qed.

Example ex_run_f_theorem_applies :
  exists c' c'' f',
    run_f 30 (mk_cache 8 2 None fdisk) fops_thm =
      FOk (c', [Some (RPos 6); Some RUnitC; None; None; Some RUnitC]) /\
    R c' f' /\ cache_invf c' /\ f_bytes f' = fimg /\
    flush_f None c' = FOk c'' /\ k_disk c'' = fimg.
Proof.
  destruct (inv_mk_cache 8 2 None fdisk eq_refl) as [I HR]; [unfold cfg_ok; cbn; lia|].
  destruct (run_f_recovery_inv fops_thm 30 _ _ I HR ex_safe) as (c' & outs & f' & E & T & R' & I' & _ & c'' & E2 & Hd & _).
  assert (Ho : match run_f 30 (mk_cache 8 2 None fdisk) fops_thm with
               | FOk (c, o) => o = [Some (RPos 6); Some RUnitC; None; None; Some RUnitC] /\ logical c = fimg
               | _ => False end) by (vm_compute; split; reflexivity).
  rewrite E in Ho. destruct Ho as [-> Hl].
  exists c', c'', f'. split; [exact E|]. split; [exact R'|]. split; [exact I'|].
  rewrite <- (R_logical c' f' R'), Hl in *. split; [reflexivity|]. split; [exact E2|exact Hd].
Qed.

(** the two failed calls are atomic: the flat state is the [xrun] of exactly the calls that succeeded *)
Example ex_succeeded :
  succeeded fops_thm [Some (RPos 6); Some RUnitC; None; None; Some RUnitC] =
    ([OSeek (SeekStart 6); OWrite fwr; OFlush], [RPos 6; RUnitC; RUnitC]) /\
  xrun 8 (Flat 0 fdisk) [OSeek (SeekStart 6); OWrite fwr; OFlush] = Some (Flat 16 fimg, [RPos 6; RUnitC; RUnitC]).
Proof. split; vm_compute; reflexivity. Qed.

Print Assumptions flush_f_none.
Print Assumptions cstep_f_none.
Print Assumptions flush_f_view_intact.
Print Assumptions flush_f_ok_durable.
Print Assumptions flush_f_recovery.
Print Assumptions flush_f_recovery_g.
Print Assumptions cstep_f_view.
Print Assumptions set_len_repairs.
Print Assumptions run_f_recovery.
Print Assumptions ftraj_all_ok.
Print Assumptions ftraj_succeeded.
Print Assumptions ex_failed_seek_breaks_recovery.
Print Assumptions ex_grow_ok_needed.
Print Assumptions ex_run_f_theorem_applies.
