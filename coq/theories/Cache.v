(** * Cache: an executable model of [rabuf::BufFile] (rabuf 0.1.20, a dependency of the crate)
    for exactly the feature set abyssiniandb enables: [buf_auto_buf_size], [buf_overf_rem_all]
    (which implies [buf_overf_rem]), [buf_pin_zero], [buf_hash_turbo] (which implies [buf_myhash]).

    The state is what [RaBuf<File>] holds: the chunk vector ([Vec<Chunk>]: offset, data of
    [chunk_size] bytes, dirty flag; there is no [uses] counter under [buf_overf_rem_all]),
    [max_num_chunks], the per-mille setting of the auto mode, [fetch_cache], [pos], [end]; and,
    instead of the [File], the DISK as a flat byte string plus the list of requests the OS was
    handed (writes, [set_len], syncs; newest first).

    Not modelled: the [HashMap<u64, usize>] of [buf_hash_turbo] (offset -> index).  In this
    feature set it is a function of the chunk vector (inserted on push, rebuilt by [clear];
    the only [remove] is in a branch of [set_len] that cannot be reached, see [set_len]), so the
    model looks a chunk up by its offset in the vector ([find_idx]).  Statistics, hit counters
    and the chunk [name] are not modelled.  [u64]/[usize] wrap-around is not modelled (numbers
    are [N]); subtractions that the dev profile checks are [Panic Overflow].  Disk requests never
    fail here (Buf.v has the fault oracle at chunk granularity).

    Every loop or recursion of the real code is a [Fixpoint] on fuel: [add_chunk] (the real one
    is recursive: remove_chunks; add_chunk), the [read_exact]/[write_all] loops of [std::io]
    and the [while] of [read_fill_buffer]. *)
From Aby Require Import Base.

(** Everything lives in the module [Rabuf] so that the extracted names ([read], [flush], [op] ...)
    stay apart from those of the map model in the one extracted file. *)
Module Rabuf.

(** ** byte string helpers (positions are [N]) *)
Definition getb (l : bytes) (p : N) : N := nth (N.to_nat p) l 0.
Definition sub (l : bytes) (off len : N) : bytes := take (N.to_nat len) (drop (N.to_nat off) l).
Definition pad_to (l : bytes) (n : N) : bytes := l ++ zeros (n - blen l).
(** truncate or extend with zeros: what [File::set_len] does *)
Definition resize (l : bytes) (n : N) : bytes := take (N.to_nat n) (pad_to l n).
(** overwrite [d] at [off]; a gap between the old end and [off] reads as zeros (sparse file) *)
Definition splice (l : bytes) (off : N) (d : bytes) : bytes :=
  take (N.to_nat off) (pad_to l off) ++ d ++ drop (N.to_nat (off + blen d)) l.

(** ** the disk *)
Inductive event :=
| EvWrite (off len : N)     (* seek + write_all of a chunk (prefix) *)
| EvSetLen (n : N)          (* File::set_len *)
| EvSync (all : bool).      (* File::sync_all / sync_data *)

(** [file.seek(off); file.read_exact(buf)] with [buf.len() = len]: fails with UnexpectedEof when
    the file is shorter *)
Definition disk_read (d : bytes) (off len : N) : res bytes :=
  if (len =? 0) || (off + len <=? blen d) then Ok (sub d off len) else IoErr.

(** [file.seek(off); file.write_all(data)]; an empty write does not extend the file *)
Definition disk_write (d : bytes) (off : N) (data : bytes) : bytes :=
  match data with [] => d | _ => splice d off data end.

(** ** chunks *)
Record chunk := Chunk { c_off : N; c_data : bytes; c_dirty : bool }.

Record cache := Cache {
  k_cs : N;                      (* chunk_size *)
  k_max : N;                     (* max_num_chunks *)
  k_auto : option N;             (* auto_buf_size: Some per_mille *)
  k_chunks : list chunk;         (* chunks: Vec<Chunk> *)
  k_fc : option (N * nat);       (* fetch_cache: (offset, index) *)
  k_pos : N;
  k_end : N;
  k_disk : bytes;
  k_events : list event }.

Definition set_chunks (c : cache) (l : list chunk) : cache :=
  Cache (k_cs c) (k_max c) (k_auto c) l (k_fc c) (k_pos c) (k_end c) (k_disk c) (k_events c).
Definition set_fc (c : cache) (o : option (N * nat)) : cache :=
  Cache (k_cs c) (k_max c) (k_auto c) (k_chunks c) o (k_pos c) (k_end c) (k_disk c) (k_events c).
Definition set_pos (c : cache) (p : N) : cache :=
  Cache (k_cs c) (k_max c) (k_auto c) (k_chunks c) (k_fc c) p (k_end c) (k_disk c) (k_events c).
Definition set_end (c : cache) (e : N) : cache :=
  Cache (k_cs c) (k_max c) (k_auto c) (k_chunks c) (k_fc c) (k_pos c) e (k_disk c) (k_events c).
Definition set_max (c : cache) (m : N) : cache :=
  Cache (k_cs c) m (k_auto c) (k_chunks c) (k_fc c) (k_pos c) (k_end c) (k_disk c) (k_events c).
Definition set_disk (c : cache) (d : bytes) (evs : list event) : cache :=
  Cache (k_cs c) (k_max c) (k_auto c) (k_chunks c) (k_fc c) (k_pos c) (k_end c) d evs.

Definition nchunks (c : cache) : N := N.of_nat (length (k_chunks c)).

(** [offset & chunk_mask]; the real chunk size is a power of two, the model allows any size > 0 *)
Definition chunk_off (cs p : N) : N := (p / cs) * cs.

(** [self.map.get(&offset)] *)
Fixpoint find_idx (off : N) (l : list chunk) : option nat :=
  match l with
  | [] => None
  | ch :: l' => if c_off ch =? off then Some O else
                  match find_idx off l' with Some i => Some (S i) | None => None end
  end.

(** [AutoBufferSize::buffer_size] *)
Definition buffer_size (per_mille file_size : N) : N :=
  if 0 <? per_mille then
    let v := if 1000 <=? per_mille then file_size else (file_size / 1000) * per_mille in
    if 32768 <? v then v else 32768
  else 32768.

Definition auto_chunks (cs per_mille file_size : N) : N := buffer_size per_mille file_size / cs + 1.

(** [setup_auto_buf_size]: the maximum follows the file size, but never drops to or below the
    number of chunks held *)
Definition setup_auto (c : cache) : cache :=
  match k_auto c with
  | Some pm =>
    let v := auto_chunks (k_cs c) pm (k_end c) in
    if nchunks c <? v then set_max c v else c
  | None => c
  end.

(** [Chunk::new]: the part of the chunk below [end] is read from the disk, the rest is zero.
    [end_pos - offset] is a checked subtraction in the dev profile. *)
Definition chunk_new (c : cache) (off : N) : res chunk :=
  if off =? k_end c then Ok (Chunk off (zeros (k_cs c)) false)
  else if k_end c <? off then Panic Overflow
  else
    let n := N.min (k_cs c) (k_end c - off) in
    let* got := disk_read (k_disk c) off n in
    Ok (Chunk off (got ++ zeros (k_cs c - n)) false).

(** [Chunk::write] of chunk number [i]: only a dirty chunk that starts at or below [end] is
    written, and only its part below [end].  The index comes from the offset map or from
    [fetch_cache] and is used without a bounds check by the real code: [Panic Corrupt] marks
    what would be undefined behaviour there (excluded by the invariant). *)
Definition chunk_write (c : cache) (i : nat) : res cache :=
  match k_chunks c !! i with
  | None => Panic Corrupt
  | Some ch =>
    if negb (c_dirty ch) then Ok c
    else if k_end c <? c_off ch then Ok c
    else
      let n := N.min (blen (c_data ch)) (k_end c - c_off ch) in
      let d := take (N.to_nat n) (c_data ch) in
      let evs := if n =? 0 then k_events c else EvWrite (c_off ch) n :: k_events c in
      Ok (set_chunks (set_disk c (disk_write (k_disk c) (c_off ch) d) evs)
            (<[i := Chunk (c_off ch) (c_data ch) false]> (k_chunks c)))
  end.

(** [flush]: the offsets in the map, sorted ascending ([sort_unstable]: offsets are distinct),
    each chunk written through its index *)
Fixpoint insert_sorted (x : N * nat) (l : list (N * nat)) : list (N * nat) :=
  match l with
  | [] => [x]
  | y :: l' => if fst x <=? fst y then x :: l else y :: insert_sorted x l'
  end.
Definition sort_pairs (l : list (N * nat)) : list (N * nat) := foldr insert_sorted [] l.

Fixpoint enum_from (i : nat) (l : list chunk) : list (N * nat) :=
  match l with [] => [] | ch :: l' => (c_off ch, i) :: enum_from (S i) l' end.

Definition flush_order (l : list chunk) : list nat := map snd (sort_pairs (enum_from 0 l)).

Fixpoint flush_list (idxs : list nat) (c : cache) : res cache :=
  match idxs with
  | [] => Ok c
  | i :: rest => let* c1 := chunk_write c i in flush_list rest c1
  end.

Definition flush (c : cache) : res cache := flush_list (flush_order (k_chunks c)) c.

(** [clear] under [buf_pin_zero]: flush, then drop every chunk but the one at offset 0 *)
Definition clear (c : cache) : res cache :=
  let* c1 := flush c in
  let kept := match find_idx 0 (k_chunks c1) with
              | Some i => match k_chunks c1 !! i with Some ch => [ch] | None => [] end
              | None => []
              end in
  Ok (set_chunks (set_fc c1 None) kept).

(** [remove_chunks] under [buf_overf_rem_all] *)
Definition remove_chunks (c : cache) : res cache :=
  let* c1 := clear c in Ok (setup_auto c1).

(** [add_chunk]: returns the index of the new chunk.  The real function calls itself after
    [remove_chunks]; with one chunk allowed and chunk 0 pinned nothing is ever freed. *)
Fixpoint add_chunk (fuel : nat) (c : cache) (off : N) : res (cache * nat) :=
  match fuel with
  | O => OutOfFuel
  | S f =>
    let c1 := if nchunks c =? k_max c then setup_auto c else c in
    let c2 := set_fc c1 None in
    if nchunks c2 <? k_max c2 then
      let* ch := chunk_new c2 off in
      Ok (set_chunks c2 (k_chunks c2 ++ [ch]), length (k_chunks c2))
    else
      let* c3 := remove_chunks c2 in
      add_chunk f c3 off
  end.

(** [fetch_chunk] / [fetch_chunk_0_]: ([touch] does nothing under [buf_overf_rem]) *)
Definition fetch_chunk (fuel : nat) (c : cache) (p : N) : res (cache * nat) :=
  let off := chunk_off (k_cs c) p in
  let slow :=
    match find_idx off (k_chunks c) with
    | Some i => Ok (set_fc c (Some (off, i)), i)
    | None => let* (c1, i) := add_chunk fuel c off in Ok (set_fc c1 (Some (off, i)), i)
    end in
  match k_fc c with
  | Some (o, i) => if o =? off then Ok (c, i) else slow
  | None => slow
  end.

Definition get_chunk (c : cache) (i : nat) : res chunk :=
  match k_chunks c !! i with Some ch => Ok ch | None => Panic Corrupt end.

(** ** the public API *)

(** [FileSetLen::set_len].  The loop over the chunks in the real function has no effect: its
    first test ([chunk.offset + len >= size]: "nothing to do") leaves only chunks that end below
    the new size to the second test ([chunk.offset >= size]), which is then false.  So nothing is
    dropped and a chunk keeps its bytes beyond the new end. *)
Definition set_len (c : cache) (size : N) : cache :=
  let c1 := set_end c size in
  let c2 := if size <? k_pos c1 then set_pos c1 size else c1 in
  set_disk c2 (resize (k_disk c2) size) (EvSetLen size :: k_events c2).

(** [SeekFrom]: [End(x)] and [Current(x)] carry the sign separately *)
Inductive seekfrom := SeekStart (n : N) | SeekEnd (neg : bool) (n : N) | SeekCur (neg : bool) (n : N).

(** [Seek::seek]: [End(x)] is [end - |x|] for either sign; beyond the end the file is extended *)
Definition seek (c : cache) (sf : seekfrom) : res (cache * N) :=
  let* np := match sf with
             | SeekStart x => Ok x
             | SeekEnd _ x => if k_end c <? x then Panic Overflow else Ok (k_end c - x)
             | SeekCur true x => if k_pos c <? x then Panic Overflow else Ok (k_pos c - x)
             | SeekCur false x => Ok (k_pos c + x)
             end in
  let c1 := if k_end c <? np then set_len c np else c in
  Ok (set_pos c1 np, np).

(** [Read::read]: at most up to the end of the chunk; NOT limited by [end] *)
Definition read (fuel : nat) (c : cache) (n : N) : res (cache * bytes) :=
  let* (c1, i) := fetch_chunk fuel c (k_pos c) in
  let* ch := get_chunk c1 i in
  let st := k_pos c1 - c_off ch in
  let k := N.min n (blen (c_data ch) - st) in
  Ok (set_pos c1 (k_pos c1 + k), sub (c_data ch) st k).

(** [Read::read_exact] (std default): repeat [read] until the buffer is full *)
Fixpoint read_loop (fa fuel : nat) (c : cache) (n : N) (acc : bytes) : res (cache * bytes) :=
  match fuel with
  | O => OutOfFuel
  | S f =>
    if n =? 0 then Ok (c, acc)
    else
      let* (c1, got) := read fa c n in
      if blen got =? 0 then IoErr       (* Ok(0): UnexpectedEof *)
      else read_loop fa f c1 (n - blen got) (acc ++ got)
  end.
Definition read_exact (fuel : nat) (c : cache) (n : N) : res (cache * bytes) :=
  read_loop fuel fuel c n [].

(** the fast paths of [SmallRead]: [read_u8/u16_le/u32_le/u64_le] ([need = n], no assertion),
    [read_max_8_bytes] ([need = 8], [n <= 8] asserted), [read_exact_small] and
    [read_exact_maybeslice] ([need = n]; the first asserts [n <= chunk_size]).  One fetch at the
    position; if [need] bytes are left in the chunk they are copied, else [read_exact]. *)
Definition read_small (fuel : nat) (c : cache) (chk : bool) (need n : N) : res (cache * bytes) :=
  if chk && (k_cs c <? n) then Panic DebugAssert else
  let* (c1, i) := fetch_chunk fuel c (k_pos c) in
  let* ch := get_chunk c1 i in
  let st := k_pos c1 - c_off ch in
  if st + need <=? blen (c_data ch) then Ok (set_pos c1 (k_pos c1 + n), sub (c_data ch) st n)
  else read_exact fuel c1 n.

Definition put_chunk (c : cache) (i : nat) (ch : chunk) : cache :=
  set_chunks c (<[i := ch]> (k_chunks c)).

Definition bump (c : cache) (k : N) : cache :=
  let c1 := set_pos c (k_pos c + k) in
  if k_end c1 <? k_pos c1 then set_end c1 (k_pos c1) else c1.

(** [Write::write]: at most up to the end of the chunk *)
Definition write (fuel : nat) (c : cache) (buf : bytes) : res (cache * N) :=
  let* (c1, i) := fetch_chunk fuel c (k_pos c) in
  let* ch := get_chunk c1 i in
  let st := k_pos c1 - c_off ch in
  let k := N.min (blen buf) (blen (c_data ch) - st) in
  let ch' := Chunk (c_off ch) (splice (c_data ch) st (take (N.to_nat k) buf)) true in
  Ok (bump (put_chunk c1 i ch') k, k).

(** [Write::write_all] (std default) *)
Fixpoint write_loop (fa fuel : nat) (c : cache) (buf : bytes) : res cache :=
  match fuel with
  | O => OutOfFuel
  | S f =>
    match buf with
    | [] => Ok c
    | _ =>
      let* (c1, k) := write fa c buf in
      if k =? 0 then IoErr             (* Ok(0): WriteZero *)
      else write_loop fa f c1 (drop (N.to_nat k) buf)
    end
  end.
Definition write_all (fuel : nat) (c : cache) (buf : bytes) : res cache :=
  write_loop fuel fuel c buf.

(** the fast paths of [SmallWrite]: [write_u8/u16_le/u32_le/u64_le], [write_u64_le_slice(2)],
    [write_zero] ([chk = false]) and [write_all_small] ([chk = true]: [len <= chunk_size] asserted) *)
Definition write_small (fuel : nat) (c : cache) (chk : bool) (buf : bytes) : res cache :=
  if chk && (k_cs c <? blen buf) then Panic DebugAssert else
  let* (c1, i) := fetch_chunk fuel c (k_pos c) in
  let* ch := get_chunk c1 i in
  let st := k_pos c1 - c_off ch in
  if st + blen buf <=? blen (c_data ch) then
    let ch' := Chunk (c_off ch) (splice (c_data ch) st buf) true in
    Ok (bump (put_chunk c1 i ch') (blen buf))
  else write_all fuel c1 buf.

(** [FileSync::sync_all/sync_data] *)
Definition sync (c : cache) (all : bool) : res cache :=
  let* c1 := flush c in Ok (set_disk c1 (k_disk c1) (EvSync all :: k_events c1)).

(** [prepare] *)
Definition prepare (fuel : nat) (c : cache) (off : N) : res cache :=
  let* (c1, _) := fetch_chunk fuel c off in Ok c1.

(** [read_fill_buffer] *)
Fixpoint fill_loop (fa fuel : nat) (c : cache) (curr : N) : res cache :=
  match fuel with
  | O => OutOfFuel
  | S f =>
    if curr <? k_end c then
      let* (c1, _) := fetch_chunk fa c curr in
      if nchunks c1 <? k_max c1 then fill_loop fa f c1 (curr + k_cs c1) else Ok c1
    else Ok c
  end.
Definition fill (fuel : nat) (c : cache) : res cache :=
  let* (c1, _) := seek c (SeekEnd false 0) in fill_loop fuel fuel c1 0.

(** ** constructors *)
Definition mk_cache (cs maxc : N) (auto : option N) (disk : bytes) : cache :=
  Cache cs maxc auto [] None 0 (blen disk) disk [].

(** [debug_assert!(chunk_size == roundup_powerof2(chunk_size))]; 0 underflows in the helper *)
Definition pow2b (n : N) : bool := (0 <? n) && (n =? 2 ^ N.log2 n).

(** [BufFile::with_capacity] *)
Definition open_cap (cs maxc : N) (disk : bytes) : res cache :=
  if negb (pow2b cs) then Panic DebugAssert
  else if maxc =? 0 then Panic DebugAssert
  else Ok (mk_cache cs maxc None disk).

(** [BufFile::with_per_mille] *)
Definition open_permille (cs pm : N) (disk : bytes) : res cache :=
  if negb (pow2b cs) then Panic DebugAssert
  else Ok (mk_cache cs (auto_chunks cs pm (blen disk)) (Some pm) disk).

(** [BufFile::new] under [buf_auto_buf_size] *)
Definition open_auto (disk : bytes) : res cache := open_permille 4096 20 disk.

(** [Drop]: flush, errors ignored; what remains is the disk *)
Definition close (c : cache) : bytes :=
  match flush c with Ok c1 => k_disk c1 | _ => k_disk c end.

(** ** how abyssiniandb derives the arguments (key.rs, val.rs, htx.rs [open_with_params]) *)
Definition aby_chunk_size : N := 131072.          (* CHUNK_SIZE = 32 * 4 * 1024 in all three *)

(** [FileBufSizeParam::Size(v)]: [(v / CHUNK_SIZE).max(2)] (the [.max(2)] is the D5 repair) *)
Definition chunks_of_param (v : N) : N := N.max (v / aby_chunk_size) 2.

Inductive bufsize := BSizeP (v : N) | BPerMilleP (p : N) | BAutoP.

Definition open_param (b : bufsize) (disk : bytes) : res cache :=
  match b with
  | BSizeP v => open_cap aby_chunk_size (chunks_of_param v) disk
  | BPerMilleP p => open_permille aby_chunk_size p disk
  | BAutoP => open_auto disk
  end.

(** ** the flat reference: a byte string and a position.  [None] = outside the specified domain:
    reading beyond the end, shrinking [set_len], seeking before 0, a "small" call longer than a
    chunk (or a small read of more than the [need] bytes its fast path tests for: no caller does).  [cs] only says where the partial calls [read]/[write] stop. *)
Record flat := Flat { f_pos : N; f_bytes : bytes }.
Definition f_end (f : flat) : N := blen (f_bytes f).

Definition flat_set_len (f : flat) (n : N) : option flat :=
  if n <? f_end f then None else Some (Flat (f_pos f) (pad_to (f_bytes f) n)).

Definition flat_seek (f : flat) (sf : seekfrom) : option (flat * N) :=
  np ← match sf with
       | SeekStart x => Some x
       | SeekEnd _ x => if f_end f <? x then None else Some (f_end f - x)
       | SeekCur true x => if f_pos f <? x then None else Some (f_pos f - x)
       | SeekCur false x => Some (f_pos f + x)
       end;
  Some (Flat np (pad_to (f_bytes f) np), np).

Definition flat_read_exact (f : flat) (n : N) : option (flat * bytes) :=
  if f_pos f + n <=? f_end f then Some (Flat (f_pos f + n) (f_bytes f), sub (f_bytes f) (f_pos f) n)
  else None.

Definition to_boundary (cs p : N) : N := cs - p mod cs.

Definition flat_read (cs : N) (f : flat) (n : N) : option (flat * bytes) :=
  flat_read_exact f (N.min n (to_boundary cs (f_pos f))).

Definition flat_write_all (f : flat) (buf : bytes) : option flat :=
  Some (Flat (f_pos f + blen buf) (splice (f_bytes f) (f_pos f) buf)).

Definition flat_write (cs : N) (f : flat) (buf : bytes) : option (flat * N) :=
  let k := N.min (blen buf) (to_boundary cs (f_pos f)) in
  f' ← flat_write_all f (take (N.to_nat k) buf); Some (f', k).

(** ** operations and runs (the line language of the correspondence runner) *)
Inductive op :=
| OSeek (sf : seekfrom)
| ORead (n : N)                         (* read_exact *)
| OReadPart (n : N)                     (* read *)
| OReadSmall (chk : bool) (need n : N)  (* the SmallRead family *)
| OWrite (buf : bytes)                  (* write_all *)
| OWritePart (buf : bytes)              (* write *)
| OWriteSmall (chk : bool) (buf : bytes)
| OFlush
| OSync (all : bool)
| OSetLen (n : N)
| OPrepare (off : N)
| OClear
| OFill.

Inductive out := RUnitC | RPos (p : N) | RData (b : bytes) | RCount (k : N).

Definition cstep (fuel : nat) (c : cache) (o : op) : res (cache * out) :=
  match o with
  | OSeek sf => let* (c1, p) := seek c sf in Ok (c1, RPos p)
  | ORead n => let* (c1, b) := read_exact fuel c n in Ok (c1, RData b)
  | OReadPart n => let* (c1, b) := read fuel c n in Ok (c1, RData b)
  | OReadSmall chk need n => let* (c1, b) := read_small fuel c chk need n in Ok (c1, RData b)
  | OWrite buf => let* c1 := write_all fuel c buf in Ok (c1, RUnitC)
  | OWritePart buf => let* (c1, k) := write fuel c buf in Ok (c1, RCount k)
  | OWriteSmall chk buf => let* c1 := write_small fuel c chk buf in Ok (c1, RUnitC)
  | OFlush => let* c1 := flush c in Ok (c1, RUnitC)
  | OSync all => let* c1 := sync c all in Ok (c1, RUnitC)
  | OSetLen n => Ok (set_len c n, RUnitC)
  | OPrepare off => let* c1 := prepare fuel c off in Ok (c1, RUnitC)
  | OClear => let* c1 := clear c in Ok (c1, RUnitC)
  | OFill => let* c1 := fill fuel c in Ok (c1, RUnitC)
  end.

Fixpoint crun (fuel : nat) (c : cache) (ops : list op) : res (cache * list out) :=
  match ops with
  | [] => Ok (c, [])
  | o :: rest =>
    let* (c1, r) := cstep fuel c o in
    let* (c2, rs) := crun fuel c1 rest in
    Ok (c2, r :: rs)
  end.

Definition fstep (cs : N) (f : flat) (o : op) : option (flat * out) :=
  match o with
  | OSeek sf => '(f1, p) ← flat_seek f sf; Some (f1, RPos p)
  | ORead n => '(f1, b) ← flat_read_exact f n; Some (f1, RData b)
  | OReadPart n => '(f1, b) ← flat_read cs f n; Some (f1, RData b)
  | OReadSmall chk need n =>
    if (chk && (cs <? n)) || (need <? n) then None else '(f1, b) ← flat_read_exact f n; Some (f1, RData b)
  | OWrite buf => f1 ← flat_write_all f buf; Some (f1, RUnitC)
  | OWritePart buf => '(f1, k) ← flat_write cs f buf; Some (f1, RCount k)
  | OWriteSmall chk buf =>
    if chk && (cs <? blen buf) then None else f1 ← flat_write_all f buf; Some (f1, RUnitC)
  | OFlush | OSync _ | OClear => Some (f, RUnitC)
  | OSetLen n => f1 ← flat_set_len f n; Some (f1, RUnitC)
  | OPrepare off => if off <=? f_end f then Some (f, RUnitC) else None
  | OFill => Some (Flat (f_end f) (f_bytes f), RUnitC)
  end.

Fixpoint frun (cs : N) (f : flat) (ops : list op) : option (flat * list out) :=
  match ops with
  | [] => Some (f, [])
  | o :: rest =>
    '(f1, r) ← fstep cs f o;
    '(f2, rs) ← frun cs f1 rest;
    Some (f2, r :: rs)
  end.

End Rabuf.
Export Rabuf.
