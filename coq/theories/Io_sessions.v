(** * Io_sessions: a clean close and a reopen with OTHER buffer settings, at byte level over the
    concrete buffer.

    Io_flat_upd.v: creation plus ANY history of ONE session is inside the domain of the buffer-cache
    theorem ([history_in_domain]), hence served by any cache in front of each of the three files
    ([history_over_any_cache]), and a flush puts exactly the bytes of the files on the disk.
    This file continues across the close: the bytes the first session left are opened again
    ([Io.open_existing] on [Io.reopen_st]) with ANY buffer kinds - the chunk size of each file may
    differ from the first session's -, and a second history runs on them.

    1. [open_existing_in_domain]: the open of the files of a well-formed store (seek to the end,
       seek to 0, three 8-byte reads per file, the bucket count read again) is a strengthened
       read-only step ([Io_flat_ro.ro_step]: every read ends inside its file - the images are at
       least 24 bytes long) and therefore inside the domain, whatever the positions and for every
       table-file chunk size that is a power of two >= 4096; the opened map satisfies what the
       history theorems ask ([simg], [crate_map]).
    2. [second_session_in_domain]: the open followed by any history, as ONE in-domain step from
       [reopen_st] ([in_domain_trans]).
    3. [two_sessions_over_any_buffer]: create, history 1 (any buffers, any cache), the files a flush
       leaves on the disk, reopen with any other buffer kinds, history 2 (any cache): every call of
       both sessions returns what the ideal map returns, and the final files are [render] of a
       state that represents the ideal map after [ops1 ++ ops2].
       [two_sessions_durable]: the same spelled out with [flushed_disk] and the independent reader
       [Load.load].
    4. an example by computation. *)
From Coq Require Import Lia ZifyN ZifyNat ZifyBool.
From Aby Require Import Base Vu64 Vu64_proofs Hash KeyTypes KeyTypes_proofs Consts Sizing Alloc AllocInv Htx Htx_proofs
  Store Iter Stats Spec Refine Refine_all Layout Load Load_proofs Load_htx_proofs Load_all Cache Cache_proofs Flatx Cache_x
  Io Io_base Io_htx Io_run Io_create Io_proofs Io_open Io_flat Io_flat_ro Io_cache Io_flat_upd Io_durable.
Import Io.
#[local] Open Scope N_scope.

(** ** 0. histories split at any point (record level and ideal map) *)

Lemma spec_run_app sp a : forall b,
  spec_run sp (a ++ b) =
    (fst (spec_run (fst (spec_run sp a)) b), snd (spec_run sp a) ++ snd (spec_run (fst (spec_run sp a)) b)).
Proof.
  revert sp. induction a as [|o a IH]; intros sp b.
  - cbn [app spec_run fst snd]. destruct (spec_run sp b). reflexivity.
  - cbn [app spec_run]. destruct (spec_step sp o) as [sp1 r]. rewrite IH.
    destruct (spec_run sp1 a) as [sp2 rs]. cbn [fst snd]. reflexivity.
Qed.

Lemma spec_run_app_fst sp a b : fst (spec_run sp (a ++ b)) = fst (spec_run (fst (spec_run sp a)) b).
Proof. rewrite spec_run_app. reflexivity. Qed.

Lemma spec_run_app_snd sp a b :
  snd (spec_run sp (a ++ b)) = snd (spec_run sp a) ++ snd (spec_run (fst (spec_run sp a)) b).
Proof. rewrite spec_run_app. reflexivity. Qed.

Lemma store_run_app a : forall s b s1 o1 s2 o2,
  store_run s a = Ok (s1, o1) -> store_run s1 b = Ok (s2, o2) -> store_run s (a ++ b) = Ok (s2, o1 ++ o2).
Proof.
  induction a as [|o a IH]; intros s b s1 o1 s2 o2 Ha Hb.
  - cbn [store_run] in Ha. injection Ha as <- <-. exact Hb.
  - cbn [store_run app] in *.
    apply rbind_ok in Ha as ([sa r] & E1 & Ha). cbv beta iota in Ha.
    apply rbind_ok in Ha as ([sb rs] & E2 & Ha). cbv beta iota in Ha. injection Ha as <- <-.
    rewrite E1. cbn [rbind]. rewrite (IH sa b sb rs s2 o2 E2 Hb). reflexivity.
Qed.

Lemma sized_app_l a : forall s b, sized s (a ++ b) -> sized s a.
Proof.
  induction a as [|o a IH]; intros s b H.
  - destruct (sized_here _ _ H) as [A B]. cbn [sized]. auto.
  - cbn [app sized] in *. destruct H as (A & B & C). split; [exact A|]. split; [exact B|].
    intros s1 r E. exact (IH s1 b (C s1 r E)).
Qed.

Lemma sized_app_r a : forall s b s1 o1, sized s (a ++ b) -> store_run s a = Ok (s1, o1) -> sized s1 b.
Proof.
  induction a as [|o a IH]; intros s b s1 o1 H Ha.
  - cbn [store_run] in Ha. injection Ha as <- _. exact H.
  - cbn [store_run app sized] in *. destruct H as (_ & _ & C).
    apply rbind_ok in Ha as ([sa r] & E1 & Ha). cbv beta iota in Ha.
    apply rbind_ok in Ha as ([sb rs] & E2 & Ha). cbv beta iota in Ha. injection Ha as <- _.
    exact (IH sa b sb rs (C sa r E1) E2).
Qed.

(** ** 1. the open of the files of a well-formed store is inside the domain *)

(** *** the primitives of the open, with the strengthened step of Io_flat_ro.v *)
Lemma seek_inside_tight f t s : t <= fend (get_file s f) ->
  get_file (seek_to f t s) f = File (fb (get_file s f)) t (fcs (get_file s f)) /\
  ro_step s (seek_to f t s).
Proof.
  intros Hle. destruct (seek_to_inside f t s Hle) as [Hf _].
  split; [exact Hf|apply ro_step_seek; exact Hle].
Qed.

(** a read that ends at most [slack f] bytes beyond the end *)
Lemma rd_st_tight f n s : fp (get_file s f) + n <= fend (get_file s f) + slack f ->
  get_file (rd_st f n s) f = File (fb (get_file s f)) (fp (get_file s f) + n) (fcs (get_file s f)) /\
  ro_step s (rd_st f n s).
Proof.
  intros Hb.
  assert (Hu : upd_file s (rd_st f n s) f (fb (get_file s f)) (fp (get_file s f) + n)).
  { unfold rd_st. split.
    - rewrite get_emit, get_set_same. reflexivity.
    - intros g Hg. rewrite get_emit, get_set_other by congruence. reflexivity. }
  split; [exact (proj1 Hu)|].
  apply (ro_step_read f s (rd_st f n s) _ n Hu); [|exact Hb].
  unfold appended, rd_st. rewrite log_emit, log_set_file. reflexivity.
Qed.

(** *** the header check of a file of at least 24 bytes: every read ends inside the file
    (the text of [Io_open.open_check_spec], with the bound carried along) *)
Lemma open_check_tight f sg1 sg2 ok s : 24 <= fend (get_file s f) ->
  exists s', open_check f sg1 sg2 ok s = Ok (hdr_pure sg1 sg2 ok (fb (get_file s f)), s') /\ ro_step s s'.
Proof.
  intros Hlen.
  unfold open_check, hdr_pure, seek_to_end, seek_from_start, read_u64, read_le. cbn [rbind].
  unfold fend in Hlen.
  set (b := fb (get_file s f)) in *. set (cs := fcs (get_file s f)).
  change (fend (get_file s f)) with (blen b).
  destruct (seek_inside_tight f (blen b) s (N.le_refl _)) as [H0 R0]. fold b cs in H0.
  set (s0 := seek_to f (blen b) s) in *.
  destruct (blen b =? 0) eqn:Ez; [exists s0; split; [reflexivity|exact R0]|].
  destruct (seek_inside_tight f 0 s0 (N.le_0_l _)) as [H1 R1]. rewrite H0 in H1. cbn [fb fcs] in H1.
  set (s1 := seek_to f 0 s0) in *.
  rewrite (read_n_eq f 8 s1). cbn [rbind].
  assert (P1 : fp (get_file s1 f) + 8 <= fend (get_file s1 f) + slack f)
    by (rewrite H1; unfold fend; cbn [fp fb]; lia).
  destruct (rd_st_tight f 8 s1 P1) as [H2 R2]. rewrite H1 in H2. cbn [fb fp fcs] in H2.
  rewrite H1, read_raw_fld.
  set (s2 := rd_st f 8 s1) in *.
  assert (R02 : ro_step s s2) by (eapply ro_step_trans; [exact R0|]; eapply ro_step_trans; [exact R1|exact R2]).
  destruct (negb (bytes_eqb (fld b 0) sg1)); [exists s2; split; [reflexivity|exact R02]|].
  rewrite (read_n_eq f 8 s2). cbn [rbind].
  assert (P2 : fp (get_file s2 f) + 8 <= fend (get_file s2 f) + slack f)
    by (rewrite H2; unfold fend; cbn [fp fb]; lia).
  destruct (rd_st_tight f 8 s2 P2) as [H3 R3]. rewrite H2 in H3. cbn [fb fp fcs] in H3.
  rewrite H2, read_raw_fld. change (0 + 8) with 8 in *.
  set (s3 := rd_st f 8 s2) in *.
  assert (R03 : ro_step s s3) by (eapply ro_step_trans; [exact R02|exact R3]).
  destruct (negb (bytes_eqb (fld b 8) sg2)); [exists s3; split; [reflexivity|exact R03]|].
  rewrite (read_n_eq f 8 s3). cbn [rbind].
  assert (P3 : fp (get_file s3 f) + 8 <= fend (get_file s3 f) + slack f)
    by (rewrite H3; unfold fend; cbn [fp fb]; lia).
  destruct (rd_st_tight f 8 s3 P3) as [_ R4].
  rewrite H3, read_raw_fld. change (8 + 8) with 16.
  set (s4 := rd_st f 8 s3) in *.
  assert (R04 : ro_step s s4) by (eapply ro_step_trans; [exact R03|exact R4]).
  exists s4. split; [|exact R04].
  destruct (ok (le_decode (fld b 16))); reflexivity.
Qed.

(** *** the whole open on three files of at least 24 bytes (the text of [Io_open.open_existing_spec]) *)
Theorem open_existing_tight t s : (forall f, 24 <= fend (get_file s f)) ->
  exists s', open_existing t s = Ok (open_pure t (st_images s) s', s') /\ ro_step s s'.
Proof.
  intros Hlen.
  unfold open_existing, open_pure, st_images, key_verdict, val_verdict, htx_verdict.
  destruct (open_check_tight FKey (sig1 key_cfg) (sig_of t) (fun c => c =? 0) s (Hlen FKey)) as (s1 & E1 & R1).
  rewrite E1. cbn [rbind get_file].
  destruct (hdr_pure (sig1 key_cfg) (sig_of t) (fun c => c =? 0) (fb (s_key s)));
    [|exists s1; split; [reflexivity|exact R1]..].
  assert (L1 : 24 <= fend (get_file s1 FVal)) by (rewrite (ro_step_fend s s1 FVal R1); apply Hlen).
  destruct (open_check_tight FVal (sig1 val_cfg) (sig_of t) (fun c => c =? 0) s1 L1) as (s2 & E2 & R2).
  rewrite E2. cbn [rbind get_file].
  pose proof (Io_flat_ro.ro_step_fb s s1 FVal R1) as Hv1. cbn [get_file] in Hv1. rewrite Hv1.
  assert (R02 : ro_step s s2) by (eapply ro_step_trans; eassumption).
  destruct (hdr_pure (sig1 val_cfg) (sig_of t) (fun c => c =? 0) (fb (s_val s)));
    [|exists s2; split; [reflexivity|exact R02]..].
  assert (L2 : 24 <= fend (get_file s2 FHtx)) by (rewrite (ro_step_fend s s2 FHtx R02); apply Hlen).
  destruct (open_check_tight FHtx htx_signature (sig_of t) (fun c => negb (c =? 0)) s2 L2) as (s3 & E3 & R3).
  rewrite E3. cbn [rbind get_file].
  pose proof (Io_flat_ro.ro_step_fb s s2 FHtx R02) as Hh2. cbn [get_file] in Hh2. rewrite Hh2.
  assert (R03 : ro_step s s3) by (eapply ro_step_trans; eassumption).
  destruct (hdr_pure htx_signature (sig_of t) (fun c => negb (c =? 0)) (fb (s_htx s))) eqn:Eh;
    [|exists s3; split; [reflexivity|exact R03]..].
  (* the second read of the bucket count: bytes 16..23 of a file of at least 24 bytes *)
  pose proof (Io_flat_ro.ro_step_fb s s3 FHtx R03) as Hh3. cbn [get_file] in Hh3.
  pose proof (ro_step_fend s s3 FHtx R03) as Hf3. pose proof (Hlen FHtx) as L3. rewrite <- Hf3 in L3.
  unfold read_hash_buckets_size, seek_from_start, read_u64, read_le. cbn [rbind].
  change htx_size_offset with 16.
  assert (Hin : 16 <= fend (get_file s3 FHtx)) by lia.
  destruct (seek_inside_tight FHtx 16 s3 Hin) as [H4 R4].
  set (s4 := seek_to FHtx 16 s3) in *.
  assert (P4 : fp (get_file s4 FHtx) + 8 <= fend (get_file s4 FHtx) + slack FHtx).
  { rewrite H4. unfold fend in *. cbn [fp fb]. lia. }
  destruct (rd_st_tight FHtx 8 s4 P4) as [_ R5].
  rewrite (read_n_eq FHtx 8 s4). cbn [rbind]. rewrite H4. cbn [get_file] in *. rewrite Hh3, read_raw_fld.
  exists (rd_st FHtx 8 s4). split; [reflexivity|].
  eapply ro_step_trans; [exact R03|]. eapply ro_step_trans; [exact R4|exact R5].
Qed.

(** the chunk sizes [reopen_st] records: 4096 ([BufAuto]) or the crate's own 131072 ([BufSized]) *)
Lemma pow2_chunk_of_any own b : pow2 own -> 4096 <= own -> pow2 (chunk_of own b) /\ 4096 <= chunk_of own b.
Proof.
  intros Hp Hge. destruct b; cbn [chunk_of]; [|auto].
  split; [exists 12; reflexivity|unfold rabuf_default_chunk; lia].
Qed.

Lemma reopen_st_chunks k v h bk bv bh f :
  pow2 (fcs (get_file (reopen_st k v h bk bv bh) f)) /\ 4096 <= fcs (get_file (reopen_st k v h bk bv bh) f).
Proof.
  assert (H : pow2 131072 /\ 4096 <= 131072) by (split; [exists 17; reflexivity|lia]).
  destruct f; cbn [reopen_st get_file s_key s_val s_htx fcs]; apply pow2_chunk_of_any; apply H.
Qed.

Lemma reopen_st_images k v h bk bv bh : st_images (reopen_st k v h bk bv bh) = (h, k, v).
Proof. reflexivity. Qed.

(** THEOREM 1.  The files of a well-formed store [s] (any positions; chunk sizes powers of two of
    at least 4096 bytes; a power of two of buckets; the table file at most one byte longer than
    [create] made it), opened as the type they were created with: accepted, the step is
    read-only in the strengthened sense and inside the domain of the cache theorem, and the map
    satisfies the hypotheses of the history theorems. *)
Theorem open_existing_in_domain s h k v st0 :
  wf_state s -> fits64 s -> render s = Ok (h, k, v) -> st_images st0 = (h, k, v) ->
  (forall f, pow2 (fcs (get_file st0 f)) /\ 4096 <= fcs (get_file st0 f)) ->
  pow2 (nb (hx s)) -> hend (hx s) <= table_end (nb (hx s)) + 1 ->
  exists m st1, open_existing (kt s) st0 = Ok (Opened m, st1) /\ m_st m = st1 /\
    in_domain st0 st1 /\ ro_step st0 st1 /\ simg s m /\ crate_map s m /\ Io.images m = (h, k, v).
Proof.
  intros Hwf H64 Hr Himg Hcs Hpn He.
  destruct (Io_open_same_type s h k v st0 Hwf H64 Hr Himg) as (m & st1 & E & _ & Hkt & Hn & Him & Hst & Hfcs).
  destruct (render_lengths s h k v Hr) as (Lh & Lk & Lv).
  assert (Hlen : forall f, 24 <= fend (get_file st0 f)).
  { unfold st_images in Himg. injection Himg as A B C.
    intros []; unfold fend; cbn [get_file]; rewrite ?A, ?B, ?C; unfold blen; lia. }
  destruct (open_existing_tight (kt s) st0 Hlen) as (s' & E' & R).
  rewrite E in E'. injection E' as _ <-.
  pose proof Hwf as (_ & _ & Hw).
  assert (Hfe : fend (get_file st0 FHtx) = hend (hx s))
    by exact (images_fend_htx s (h, k, v) (Mp (kt s) (nb (hx s)) st0) Hw Hr Himg).
  assert (Hcf : chunk_free st0).
  { destruct (Hcs FHtx) as [Hp Hc].
    apply (chunk_free_table st0 (nb (hx s)) Hpn Hp); [lia|].
    rewrite Hfe. destruct Hw as (_ & H & _). unfold table_end in *. lia. }
  pose proof (ro_step_in_domain st0 st1 Hcf R (open_existing_calls _ _ _ _ E)) as Hd.
  exists m, st1. split; [exact E|]. split; [exact Hst|]. split; [exact Hd|]. split; [exact R|].
  split; [|split; [|exact Him]].
  - unfold simg. rewrite Him. split; [exact Hr|]. split; [exact Hkt|]. split; [exact Hn|].
    rewrite Hst, !Hfcs. destruct (Hcs FKey), (Hcs FVal). split; lia.
  - unfold crate_map. rewrite Hn, Hst, Hfcs. destruct (Hcs FHtx). auto.
Qed.

(** ** 2. the open and a history after it: one in-domain step from the files as they were found *)
Theorem session_after_open_in_domain s1 sp h k v st0 ops2 s2 outs :
  wf_state s1 -> represents s1 sp -> render s1 = Ok (h, k, v) -> st_images st0 = (h, k, v) ->
  (forall f, pow2 (fcs (get_file st0 f)) /\ 4096 <= fcs (get_file st0 f)) ->
  pow2 (nb (hx s1)) -> hend (hx s1) <= table_end (nb (hx s1)) + 1 ->
  Forall (op_wf (kt s1)) ops2 -> sized s1 ops2 -> store_run s1 ops2 = Ok (s2, outs) ->
  exists m1 st1 m2,
    open_existing (kt s1) st0 = Ok (Opened m1, st1) /\
    io_run m1 ops2 = Ok (m2, outs) /\ render s2 = Ok (Io.images m2) /\
    outs = snd (spec_run sp ops2) /\ represents s2 (fst (spec_run sp ops2)) /\ wf_state s2 /\
    in_domain st0 (m_st m2).
Proof.
  intros Hwf Hrep Hr Himg Hcs Hpn He Hops Hsz Hrun.
  destruct (sized_here _ _ Hsz) as [H64 _].
  destruct (open_existing_in_domain s1 h k v st0 Hwf H64 Hr Himg Hcs Hpn He)
    as (m1 & st1 & E & Hst & Hd0 & _ & Hsim & Hcm & _).
  destruct (io_run_in_domain ops2 s1 sp m1 s2 outs Hwf Hrep Hsim Hops Hsz Hcm Hrun)
    as (m2 & Hio & (Hr2 & _) & Hwf2 & HR2 & Hrs & _ & Hd).
  exists m1, st1, m2. split; [exact E|]. split; [exact Hio|]. split; [exact Hr2|]. split; [exact Hrs|].
  split; [exact HR2|]. split; [exact Hwf2|].
  rewrite Hst in Hd. exact (in_domain_trans _ _ _ Hd0 Hd).
Qed.

(** THEOREM 2.  ... from [reopen_st]: the three byte strings of [s1], positions 0, ANY buffer kinds *)
Theorem second_session_in_domain s1 sp h k v bk' bv' bh' ops2 s2 outs :
  wf_state s1 -> represents s1 sp -> render s1 = Ok (h, k, v) ->
  pow2 (nb (hx s1)) -> hend (hx s1) <= table_end (nb (hx s1)) + 1 ->
  Forall (op_wf (kt s1)) ops2 -> sized s1 ops2 -> store_run s1 ops2 = Ok (s2, outs) ->
  exists m1 st1 m2,
    open_existing (kt s1) (reopen_st k v h bk' bv' bh') = Ok (Opened m1, st1) /\
    io_run m1 ops2 = Ok (m2, outs) /\ render s2 = Ok (Io.images m2) /\
    outs = snd (spec_run sp ops2) /\ represents s2 (fst (spec_run sp ops2)) /\ wf_state s2 /\
    in_domain (reopen_st k v h bk' bv' bh') (m_st m2).
Proof.
  intros Hwf Hrep Hr Hpn He Hops Hsz Hrun.
  exact (session_after_open_in_domain s1 sp h k v (reopen_st k v h bk' bv' bh') ops2 s2 outs Hwf Hrep Hr
           (reopen_st_images k v h bk' bv' bh') (reopen_st_chunks k v h bk' bv' bh') Hpn He Hops Hsz Hrun).
Qed.

(** ** 3. two sessions, any buffers in each *)

(** what a history from [create] keeps: the type and the number of buckets *)
Lemma run_from_create_facts t n ops s' outs : 1 <= n -> Forall (op_wf t) ops ->
  store_run (Store.create t n) ops = Ok (s', outs) ->
  wf_state s' /\ represents s' (fst (spec_run ∅ ops)) /\ outs = snd (spec_run ∅ ops) /\
  kt s' = t /\ nb (hx s') = n /\ hend (hx s') <= table_end (nb (hx s')) + 1.
Proof.
  intros Hn Hops Hrun. destruct (create_closed t n Hn) as [HI0 HR0].
  destruct (wf_state_run (Store.create t n) ∅ ops s' outs (wf_state_create t n Hn) HR0 Hops Hrun) as (A & B & C).
  destruct (run_refines (Store.create t n) ∅ ops HI0 HR0 Hops) as (s3 & Hr3 & _ & _ & K & Knb).
  rewrite Hrun in Hr3. injection Hr3 as <- _.
  pose proof (hend_reachable t n ops s' outs Hn Hrun) as He.
  split; [exact A|]. split; [exact B|]. split; [exact C|]. split; [exact K|]. split; [exact Knb|]. lia.
Qed.

(** THEOREM 3.  Create the three files (any buffer kinds), run [ops1]; close; reopen the bytes the
    first session left - the bytes a flush of ANY cache in front of each file puts on the disk:
    [served_by_cache] ends with [k_disk c'' = fb (get_file (m_st m1) f)] - with ANY OTHER buffer
    kinds, run [ops2]: both sessions are served by any cache, every call returns what the ideal
    map returns, and the final state represents the ideal map after [ops1 ++ ops2]. *)
Theorem two_sessions_over_any_buffer t n bk bv bh ops1 bk' bv' bh' ops2 :
  1 <= n -> pow2 n -> Forall (op_wf t) (ops1 ++ ops2) -> sized (Store.create t n) (ops1 ++ ops2) ->
  exists s1 s2 m0 m1 mo st1 m2,
    let sp1 := fst (spec_run ∅ ops1) in
    let st0 := reopen_st (fb (s_key (m_st m1))) (fb (s_val (m_st m1))) (fb (s_htx (m_st m1))) bk' bv' bh' in
    (* the first session *)
    Io.create t n bk bv bh = Ok m0 /\
    store_run (Store.create t n) ops1 = Ok (s1, snd (spec_run ∅ ops1)) /\
    io_run m0 ops1 = Ok (m1, snd (spec_run ∅ ops1)) /\
    render s1 = Ok (Io.images m1) /\
    (exists cf1, forall f, served_by_cache (empty_st bk bv bh) (m_st m1) f (cf1 f)) /\
    (* the second session, on exactly those bytes *)
    open_existing t st0 = Ok (Opened mo, st1) /\
    store_run s1 ops2 = Ok (s2, snd (spec_run sp1 ops2)) /\
    io_run mo ops2 = Ok (m2, snd (spec_run sp1 ops2)) /\
    render s2 = Ok (Io.images m2) /\
    (exists cf2, forall f, served_by_cache st0 (m_st m2) f (cf2 f)) /\
    (* the contents: those of the one history [ops1 ++ ops2] *)
    wf_state s2 /\ fits64 s2 /\
    represents s2 (fst (spec_run ∅ (ops1 ++ ops2))) /\
    store_run (Store.create t n) (ops1 ++ ops2) = Ok (s2, snd (spec_run ∅ (ops1 ++ ops2))).
Proof.
  intros Hn Hpn Hops Hsz. cbv zeta.
  apply Forall_app in Hops as [Hops1 Hops2].
  pose proof (sized_app_l _ _ _ Hsz) as Hsz1.
  destruct (history_over_any_cache t n bk bv bh ops1 Hn Hpn Hops1 Hsz1)
    as (m0 & m1 & s1 & Hc & Hrun1 & Hio1 & Hr1 & Hcf1).
  pose proof (sized_app_r _ _ _ _ _ Hsz Hrun1) as Hsz2.
  destruct (run_from_create_facts t n ops1 s1 _ Hn Hops1 Hrun1) as (Hwf1 & Hrep1 & _ & Hkt1 & Hnb1 & He1).
  set (sp1 := fst (spec_run ∅ ops1)) in *.
  assert (Hops2' : Forall (op_wf (kt s1)) ops2) by (rewrite Hkt1; exact Hops2).
  pose proof Hwf1 as (HI1 & _).
  destruct (run_refines s1 sp1 ops2 HI1 Hrep1 Hops2') as (s2 & Hrun2 & _).
  assert (Hpn1 : pow2 (nb (hx s1))) by (rewrite Hnb1; exact Hpn).
  assert (Him1 : Io.images m1 = (fb (s_htx (m_st m1)), fb (s_key (m_st m1)), fb (s_val (m_st m1)))) by reflexivity.
  rewrite Him1 in Hr1.
  destruct (second_session_in_domain s1 sp1 _ _ _ bk' bv' bh' ops2 s2 _ Hwf1 Hrep1 Hr1 Hpn1 He1 Hops2' Hsz2 Hrun2)
    as (mo & st1 & m2 & Eo & Hio2 & Hr2 & _ & Hrep2 & Hwf2 & Hd2).
  rewrite Hkt1 in Eo.
  exists s1, s2, m0, m1, mo, st1, m2.
  split; [exact Hc|]. split; [exact Hrun1|]. split; [exact Hio1|]. split; [rewrite Him1; exact Hr1|].
  split; [exact Hcf1|]. split; [exact Eo|]. split; [exact Hrun2|]. split; [exact Hio2|]. split; [exact Hr2|].
  split; [destruct (in_domain_served _ _ Hd2) as (cf2 & evs & _ & _ & Hs); exists cf2; exact Hs|].
  split; [exact Hwf2|]. split; [exact (sized_final _ _ _ _ Hsz2 Hrun2)|].
  split; [rewrite spec_run_app_fst; exact Hrep2|].
  rewrite spec_run_app_snd. exact (store_run_app _ _ _ _ _ _ _ Hrun1 Hrun2).
Qed.

(** ... spelled out with the caches and the disk: run the calls of the first session through ANY
    cache in front of each (empty) file and flush: the disk holds [dk], [dv], [dh]; open those bytes
    with any other buffer kinds, run the calls of the second session through ANY cache in front of
    each file and flush: the three files on the disk are [render] of the record-level state after
    [ops1 ++ ops2], and the independent reader [Load.load] reads the contents of the ideal map
    after [ops1 ++ ops2] back from them.  ([cf1], [cf2]: the calls the two sessions make, file by
    file; they do not depend on the caches.) *)
Theorem two_sessions_durable t n bk bv bh ops1 bk' bv' bh' ops2 :
  1 <= n -> pow2 n -> Forall (op_wf t) (ops1 ++ ops2) -> sized (Store.create t n) (ops1 ++ ops2) ->
  exists s2 (cf1 cf2 : fid -> list call),
    store_run (Store.create t n) (ops1 ++ ops2) = Ok (s2, snd (spec_run ∅ (ops1 ++ ops2))) /\
    forall ck cv ch fuel,
      backs ck (get_file (empty_st bk bv bh) FKey) ->
      backs cv (get_file (empty_st bk bv bh) FVal) ->
      backs ch (get_file (empty_st bk bv bh) FHtx) ->
      (forall f c, In (f, c) [(FKey, ck); (FVal, cv); (FHtx, ch)] ->
         (xrun_fuel (Rabuf.k_cs c) (flat_of (get_file (empty_st bk bv bh) f)) (map call_op (cf1 f)) <= fuel)%nat) ->
      exists dk dv dh,
        flushed_disk fuel ck (cf1 FKey) = Ok dk /\
        flushed_disk fuel cv (cf1 FVal) = Ok dv /\
        flushed_disk fuel ch (cf1 FHtx) = Ok dh /\
        forall ck' cv' ch' fuel',
          backs ck' (get_file (reopen_st dk dv dh bk' bv' bh') FKey) ->
          backs cv' (get_file (reopen_st dk dv dh bk' bv' bh') FVal) ->
          backs ch' (get_file (reopen_st dk dv dh bk' bv' bh') FHtx) ->
          (forall f c, In (f, c) [(FKey, ck'); (FVal, cv'); (FHtx, ch')] ->
             (xrun_fuel (Rabuf.k_cs c) (flat_of (get_file (reopen_st dk dv dh bk' bv' bh') f)) (map call_op (cf2 f))
                <= fuel')%nat) ->
          exists dk' dv' dh',
            flushed_disk fuel' ck' (cf2 FKey) = Ok dk' /\
            flushed_disk fuel' cv' (cf2 FVal) = Ok dv' /\
            flushed_disk fuel' ch' (cf2 FHtx) = Ok dh' /\
            render s2 = Ok (dh', dk', dv') /\
            exists s'' l, load t (dh', dk', dv') = Ok s'' /\ contents s'' = Ok l /\
                          l ≡ₚ map_to_list (fst (spec_run ∅ (ops1 ++ ops2))).
Proof.
  intros Hn Hpn Hops Hsz.
  destruct (two_sessions_over_any_buffer t n bk bv bh ops1 bk' bv' bh' ops2 Hn Hpn Hops Hsz)
    as (s1 & s2 & m0 & m1 & mo & st1 & m2 & H). cbv zeta in H.
  destruct H as (Hc & Hrun1 & Hio1 & Hr1 & (cf1 & Hs1) & Eo & Hrun2 & Hio2 & Hr2 & (cf2 & Hs2) & Hwf2 & H64 & Hrep & Hrun).
  exists s2, cf1, cf2. split; [exact Hrun|].
  intros ck cv ch fuel Bk Bv Bh Hfuel.
  exists (fb (s_key (m_st m1))), (fb (s_val (m_st m1))), (fb (s_htx (m_st m1))).
  split; [apply (served_flushed _ _ _ _ _ _ (Hs1 FKey) Bk); apply (Hfuel FKey ck); cbn; auto|].
  split; [apply (served_flushed _ _ _ _ _ _ (Hs1 FVal) Bv); apply (Hfuel FVal cv); cbn; auto|].
  split; [apply (served_flushed _ _ _ _ _ _ (Hs1 FHtx) Bh); apply (Hfuel FHtx ch); cbn; auto|].
  intros ck' cv' ch' fuel' Bk' Bv' Bh' Hfuel'.
  exists (fb (get_file (m_st m2) FKey)), (fb (get_file (m_st m2) FVal)), (fb (get_file (m_st m2) FHtx)).
  split; [apply (served_flushed _ _ _ _ _ _ (Hs2 FKey) Bk'); apply (Hfuel' FKey ck'); cbn; auto|].
  split; [apply (served_flushed _ _ _ _ _ _ (Hs2 FVal) Bv'); apply (Hfuel' FVal cv'); cbn; auto|].
  split; [apply (served_flushed _ _ _ _ _ _ (Hs2 FHtx) Bh'); apply (Hfuel' FHtx ch'); cbn; auto|].
  assert (Him : Io.images m2 = (fb (get_file (m_st m2) FHtx), fb (get_file (m_st m2) FKey), fb (get_file (m_st m2) FVal)))
    by reflexivity.
  rewrite Him in Hr2. split; [exact Hr2|].
  destruct (run_from_create_facts t n (ops1 ++ ops2) s2 _ Hn Hops Hrun) as (_ & _ & _ & Hkt & _).
  destruct (load_contents_closed s2 _ _ Hwf2 H64 Hrep Hr2) as (s'' & l & Hl & Hcn & Hperm).
  rewrite Hkt in Hl. exists s'', l. split; [exact Hl|]. split; [exact Hcn|exact Hperm].
Qed.

(** ** 4. non-vacuity, by computation

    A [KBytes] map of 8 buckets created with [BufAuto] buffers (chunks of 4096 bytes), two [put]s;
    the three files reopened with [BufSized] buffers (chunks of 131072 bytes); a [get] and a [put].
    The whole trace of the second session - the open included: its first 17 events, of 69 -, started at position 0
    and at the lengths of the three images, passes [evs_ok] for the chunk size of the second
    session, file by file. *)
Definition ex_two_sessions : res (option bytes * N * list ev * (N * N * N)) :=
  let* m0 := Io.create KBytes 8 BufAuto BufAuto BufAuto in
  let* m1 := Io.put m0 [1; 2] [3; 4; 5] in
  let* m2 := Io.put m1 [7] [8] in
  let '(h, k, v) := Io.images m2 in
  let* (o, _) := open_existing KBytes (reopen_st k v h BufSized BufSized BufSized) in
  match o with
  | Opened m =>
    let* (r, m3) := Io.get m [7] in
    let* m4 := Io.put m3 [9] [10; 11] in
    Ok (r, fcs (get_file (m_st m4) FHtx), rev (s_log (m_st m4)), (blen k, blen v, blen h))
  | _ => IoErr
  end.

Example two_sessions_example :
  exists evs lk lv lh,
    ex_two_sessions = Ok (Some [8], 131072, evs, (lk, lv, lh)) /\
    firstn 17 evs =
      [EvSeek FKey lk; EvSeek FKey 0; EvRead FKey 0 8; EvRead FKey 8 8; EvRead FKey 16 8;
       EvSeek FVal lv; EvSeek FVal 0; EvRead FVal 0 8; EvRead FVal 8 8; EvRead FVal 16 8;
       EvSeek FHtx lh; EvSeek FHtx 0; EvRead FHtx 0 8; EvRead FHtx 8 8; EvRead FHtx 16 8;
       EvSeek FHtx 16; EvRead FHtx 16 8] /\
    length evs = 69%nat /\
    existsb (fun e => match e with EvWrite _ _ _ => true | _ => false end) evs = true /\
    evs_ok 131072 FKey 0 lk evs = true /\
    evs_ok 131072 FVal 0 lv evs = true /\
    evs_ok 131072 FHtx 0 lh evs = true.
Proof.
  destruct ex_two_sessions as [[[[r c] evs] [[lk lv] lh]]| | |] eqn:E; try (vm_compute in E; discriminate E).
  exists evs, lk, lv, lh. vm_compute in E. injection E as <- <- <- <- <- <-.
  repeat split; vm_compute; reflexivity.
Qed.

Print Assumptions open_existing_in_domain.
Print Assumptions second_session_in_domain.
Print Assumptions two_sessions_over_any_buffer.
Print Assumptions two_sessions_durable.
Print Assumptions two_sessions_example.
